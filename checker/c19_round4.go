package main

// Rules of C19 added after the fourth round of independently authored breaking changes (DESIGN 11.12); wired in
// zzz_round4.go.
//
//	O1  nothing in the http.Transport / net.Dialer that NewTransport builds OVERRIDES a configured limit: the limit
//	    field still holds the configured value (F2), but another field of the same object makes the library ignore it
//	    (seed C19-7: Dialer.KeepAliveConfig.Enable makes net ignore Dialer.KeepAlive).
//	L1  nothing REWRITES a limit option of the loaded configuration after the operator's value has been parsed into
//	    it (seed C19-8: the loader replaces proxy.maxconn <= 0 with the default) - the same defect F2 reports when it
//	    sits in NewTransport ("must hold the field unmodified"), one or two layers earlier.

import (
	"fmt"
	"go/token"
	"go/types"
	"strings"

	"golang.org/x/tools/go/ssa"
)

func init() {
	const tr = "transport/transport.go"
	const dialerOld = "\t\tDial: (&net.Dialer{\n\t\t\tTimeout:   cfg.Proxy.DialTimeout,\n\t\t\tKeepAlive: cfg.Proxy.KeepAliveTimeout,\n\t\t}).Dial,\n"
	const retOld = "\treturn &http.Transport{\n"
	addRound4("C19", "(O1) in every http.Transport that NewTransport builds and in every net.Dialer it dials through, no other setting overrides a configured limit: Dialer.KeepAliveConfig can only be enabled when its Idle holds Proxy.KeepAliveTimeout like Dialer.KeepAlive (package net ignores KeepAlive as soon as KeepAliveConfig.Enable is true and then probes after Idle, 15s when zero); Dialer.Deadline is not set; Transport.DisableKeepAlives stays false and Transport.MaxIdleConns stays 0 (either makes proxy.maxconn / proxy.idleconntimeout moot); DialTLS / DialTLSContext, when set, dial through a net.Dialer that carries the configured dial and keep-alive timeouts; a hand-written dial function does not re-tune keep-alive on the connection with anything but Proxy.KeepAliveTimeout.", runC19O1, c19devFilter([]mutant{
		{Name: "keep-alive probe tuning enabled without Idle (seed 7, inline)", File: tr, Expect: "C19.O1",
			Old:  "\t\t\tKeepAlive: cfg.Proxy.KeepAliveTimeout,\n",
			New:  "\t\t\tKeepAlive: cfg.Proxy.KeepAliveTimeout,\n\t\t\tKeepAliveConfig: net.KeepAliveConfig{\n\t\t\t\tEnable:   cfg.Proxy.KeepAliveTimeout >= 0,\n\t\t\t\tInterval: 5 * time.Second,\n\t\t\t\tCount:    3,\n\t\t\t},\n",
			More: []repl{{"import (\n", "import (\n\t\"time\"\n"}}},
		{Name: "benign: keep-alive probe tuning with Idle = the configured keep-alive timeout", File: tr, Expect: "",
			Old:  "\t\t\tKeepAlive: cfg.Proxy.KeepAliveTimeout,\n",
			New:  "\t\t\tKeepAlive: cfg.Proxy.KeepAliveTimeout,\n\t\t\tKeepAliveConfig: net.KeepAliveConfig{\n\t\t\t\tEnable:   cfg.Proxy.KeepAliveTimeout >= 0,\n\t\t\t\tIdle:     cfg.Proxy.KeepAliveTimeout,\n\t\t\t\tInterval: 5 * time.Second,\n\t\t\t\tCount:    3,\n\t\t\t},\n",
			More: []repl{{"import (\n", "import (\n\t\"time\"\n"}}},
		{Name: "benign: probe interval and count set, KeepAliveConfig not enabled", File: tr, Expect: "",
			Old:  "\t\t\tKeepAlive: cfg.Proxy.KeepAliveTimeout,\n",
			New:  "\t\t\tKeepAlive: cfg.Proxy.KeepAliveTimeout,\n\t\t\tKeepAliveConfig: net.KeepAliveConfig{Interval: 5 * time.Second, Count: 3},\n",
			More: []repl{{"import (\n", "import (\n\t\"time\"\n"}}},
		{Name: "KeepAliveConfig built in a local and assigned, Idle a constant", File: tr, Expect: "C19.O1",
			Old: dialerOld, New: "\t\tDial:                  newDialer().Dial,\n",
			More: []repl{
				{"import (\n", "import (\n\t\"time\"\n"},
				{"func SetConfig(", "func newDialer() *net.Dialer {\n\td := &net.Dialer{Timeout: cfg.Proxy.DialTimeout, KeepAlive: cfg.Proxy.KeepAliveTimeout}\n\tkc := net.KeepAliveConfig{Enable: true, Idle: 30 * time.Second}\n\tkc.Count = 3\n\td.KeepAliveConfig = kc\n\treturn d\n}\n\nfunc SetConfig("},
			}},
		{Name: "benign: KeepAliveConfig built in a local and assigned, Idle from the configuration", File: tr, Expect: "",
			Old: dialerOld, New: "\t\tDial:                  newDialer().Dial,\n",
			More: []repl{
				{"func SetConfig(", "func newDialer() *net.Dialer {\n\td := &net.Dialer{Timeout: cfg.Proxy.DialTimeout, KeepAlive: cfg.Proxy.KeepAliveTimeout}\n\tkc := net.KeepAliveConfig{Enable: true, Idle: cfg.Proxy.KeepAliveTimeout}\n\tkc.Count = 3\n\td.KeepAliveConfig = kc\n\treturn d\n}\n\nfunc SetConfig("},
			}},
		{Name: "helper switches KeepAliveConfig on through a pointer to the dialer", File: tr, Expect: "C19.O1",
			Old: dialerOld, New: "\t\tDial:                  tuned(&net.Dialer{Timeout: cfg.Proxy.DialTimeout, KeepAlive: cfg.Proxy.KeepAliveTimeout}).Dial,\n",
			More: []repl{
				{"func SetConfig(", "func tuned(d *net.Dialer) *net.Dialer {\n\td.KeepAliveConfig.Enable = true\n\td.KeepAliveConfig.Count = 3\n\treturn d\n}\n\nfunc SetConfig("},
			}},
		{Name: "KeepAliveConfig.Idle holds the dial timeout", File: tr, Expect: "C19.O1",
			Old: "\t\t\tKeepAlive: cfg.Proxy.KeepAliveTimeout,\n",
			New: "\t\t\tKeepAlive: cfg.Proxy.KeepAliveTimeout,\n\t\t\tKeepAliveConfig: net.KeepAliveConfig{Enable: true, Idle: cfg.Proxy.DialTimeout},\n"},
		{Name: "dial closure re-tunes the keep-alive period of the connection", File: tr, Expect: "C19.O1",
			Old: dialerOld,
			New: "\t\tDial: func(network, addr string) (net.Conn, error) {\n\t\t\tconn, err := d.Dial(network, addr)\n\t\t\tif tc, ok := conn.(*net.TCPConn); ok {\n\t\t\t\ttc.SetKeepAlivePeriod(3 * time.Minute)\n\t\t\t}\n\t\t\treturn conn, err\n\t\t},\n",
			More: []repl{
				{"import (\n", "import (\n\t\"time\"\n"},
				{retOld, "\td := &net.Dialer{Timeout: cfg.Proxy.DialTimeout, KeepAlive: cfg.Proxy.KeepAliveTimeout}\n" + retOld},
			}},
		{Name: "benign: dial closure sets the configured keep-alive period on the connection", File: tr, Expect: "",
			Old: dialerOld,
			New: "\t\tDial: func(network, addr string) (net.Conn, error) {\n\t\t\tconn, err := d.Dial(network, addr)\n\t\t\tif tc, ok := conn.(*net.TCPConn); ok && cfg.Proxy.KeepAliveTimeout > 0 {\n\t\t\t\ttc.SetKeepAlivePeriod(cfg.Proxy.KeepAliveTimeout)\n\t\t\t}\n\t\t\treturn conn, err\n\t\t},\n",
			More: []repl{
				{retOld, "\td := &net.Dialer{Timeout: cfg.Proxy.DialTimeout, KeepAlive: cfg.Proxy.KeepAliveTimeout}\n" + retOld},
			}},
		{Name: "dial closure switches keep-alive off on the connection", File: tr, Expect: "C19.O1",
			Old: dialerOld,
			New: "\t\tDial: func(network, addr string) (net.Conn, error) {\n\t\t\tconn, err := d.Dial(network, addr)\n\t\t\tif tc, ok := conn.(*net.TCPConn); ok {\n\t\t\t\ttc.SetKeepAlive(false)\n\t\t\t}\n\t\t\treturn conn, err\n\t\t},\n",
			More: []repl{
				{retOld, "\td := &net.Dialer{Timeout: cfg.Proxy.DialTimeout, KeepAlive: cfg.Proxy.KeepAliveTimeout}\n" + retOld},
			}},
		{Name: "absolute dial deadline on the dialer", File: tr, Expect: "C19.O1",
			Old:  "\t\t\tKeepAlive: cfg.Proxy.KeepAliveTimeout,\n",
			New:  "\t\t\tKeepAlive: cfg.Proxy.KeepAliveTimeout,\n\t\t\tDeadline:  time.Now().Add(time.Hour),\n",
			More: []repl{{"import (\n", "import (\n\t\"time\"\n"}}},
		{Name: "keep-alives of the transport disabled", File: tr, Expect: "C19.O1",
			Old: "\t\tTLSClientConfig: tlscfg,\n", New: "\t\tTLSClientConfig: tlscfg,\n\t\tDisableKeepAlives: cfg.Proxy.MaxConn <= 0,\n"},
		{Name: "benign: DisableKeepAlives spelled out as false", File: tr, Expect: "",
			Old: "\t\tTLSClientConfig: tlscfg,\n", New: "\t\tTLSClientConfig: tlscfg,\n\t\tDisableKeepAlives: false,\n"},
		{Name: "total idle connection cap below the per-host limit", File: tr, Expect: "C19.O1",
			Old: "\t\tTLSClientConfig: tlscfg,\n", New: "\t\tTLSClientConfig: tlscfg,\n\t\tMaxIdleConns: 100,\n"},
		{Name: "DialTLS through a dialer of its own without the configured limits", File: tr, Expect: "C19.O1",
			Old: "\t\tTLSClientConfig: tlscfg,\n",
			New: "\t\tTLSClientConfig: tlscfg,\n\t\tDialTLS: func(network, addr string) (net.Conn, error) {\n\t\t\treturn tls.DialWithDialer(&net.Dialer{}, network, addr, tlscfg)\n\t\t},\n"},
		{Name: "DialTLS with tls.Dial (no dialer at all)", File: tr, Expect: "C19.O1",
			Old: "\t\tTLSClientConfig: tlscfg,\n",
			New: "\t\tTLSClientConfig: tlscfg,\n\t\tDialTLS: func(network, addr string) (net.Conn, error) {\n\t\t\treturn tls.Dial(network, addr, tlscfg)\n\t\t},\n"},
		{Name: "benign: DialTLS through a dialer with the configured limits", File: tr, Expect: "",
			Old: "\t\tTLSClientConfig: tlscfg,\n",
			New: "\t\tTLSClientConfig: tlscfg,\n\t\tDialTLS: func(network, addr string) (net.Conn, error) {\n\t\t\td := &net.Dialer{Timeout: cfg.Proxy.DialTimeout, KeepAlive: cfg.Proxy.KeepAliveTimeout}\n\t\t\treturn tls.DialWithDialer(d, network, addr, tlscfg)\n\t\t},\n"},
		{Name: "benign: DialTLSContext is the method of a tls.Dialer around a dialer with the configured limits", File: tr, Expect: "",
			Old: "\t\tTLSClientConfig: tlscfg,\n",
			New: "\t\tTLSClientConfig: tlscfg,\n\t\tDialTLSContext: (&tls.Dialer{NetDialer: &net.Dialer{Timeout: cfg.Proxy.DialTimeout, KeepAlive: cfg.Proxy.KeepAliveTimeout}, Config: tlscfg}).DialContext,\n"},
		{Name: "DialTLSContext is the method of a tls.Dialer without a net dialer", File: tr, Expect: "C19.O1",
			Old: "\t\tTLSClientConfig: tlscfg,\n",
			New: "\t\tTLSClientConfig: tlscfg,\n\t\tDialTLSContext: (&tls.Dialer{Config: tlscfg}).DialContext,\n"},
	})...)

	const ld = "config/load.go"
	const postOld = "\tif cfg.Registry.Consul.ServiceMonitors <= 0 {\n"
	const bindOld = "\tf.BoolVar(&cfg.Insecure, \"insecure\","
	addRound4("C19", "(L1) once the command line, environment and properties file have been parsed into the configuration (the call that reaches flag.FlagSet.Parse), nothing writes the five limit options of config.Proxy (DialTimeout, ResponseHeaderTimeout, KeepAliveTimeout, IdleConnTimeout, MaxConn) of the configuration config.Load returns, of a copy of it or of a variable that holds it - directly, through a pointer to the field handed to a helper, or by replacing the whole Proxy / Config struct with something whose limit fields are not the loaded ones - except under the condition that the operator did not set that very option (FlagSet.IsSet(<its name>) is false), or when the value written IS what the flag set parsed for that option: read from the destination (a local, a field of an intermediate struct, the pointer f.Int / f.Duration returned) that was registered under the option's name and that nothing but such a guarded default has written or been handed since the parse; every value of an option is the operator's choice (maxconn -1 switches connection re-use off, a timeout of 0 means none), so a default or clamp applied afterwards builds transports with limits nobody configured.", runC19L1, c19devFilter([]mutant{
		{Name: "loader replaces maxconn <= 0 with the default (seed 8)", File: ld, Expect: "C19.L1",
			Old: postOld, New: "\tif cfg.Proxy.MaxConn <= 0 {\n\t\tcfg.Proxy.MaxConn = defaultConfig.Proxy.MaxConn\n\t}\n" + postOld},
		{Name: "loader replaces a zero keep-alive timeout with the default", File: ld, Expect: "C19.L1",
			Old: postOld, New: "\tif cfg.Proxy.KeepAliveTimeout == 0 {\n\t\tcfg.Proxy.KeepAliveTimeout = defaultConfig.Proxy.KeepAliveTimeout\n\t}\n" + postOld},
		{Name: "benign: default applied only when the operator did not set the option", File: ld, Expect: "",
			Old: postOld, New: "\tif !f.IsSet(\"proxy.maxconn\") {\n\t\tcfg.Proxy.MaxConn = defaultConfig.Proxy.MaxConn\n\t}\n" + postOld},
		{Name: "default applied when ANOTHER option was not set", File: ld, Expect: "C19.L1",
			Old: postOld, New: "\tif !f.IsSet(\"proxy.strategy\") {\n\t\tcfg.Proxy.MaxConn = defaultConfig.Proxy.MaxConn\n\t}\n" + postOld},
		{Name: "default applied when the option WAS set", File: ld, Expect: "C19.L1",
			Old: postOld, New: "\tif f.IsSet(\"proxy.maxconn\") && cfg.Proxy.MaxConn <= 0 {\n\t\tcfg.Proxy.MaxConn = defaultConfig.Proxy.MaxConn\n\t}\n" + postOld},
		{Name: "clamp helper writes the option through a pointer", File: ld, Expect: "C19.L1",
			Old: postOld, New: "\tclampDuration(&cfg.Proxy.ResponseHeaderTimeout, time.Second, time.Minute)\n" + postOld,
			More: []repl{{"func parseScheme(s string)", "func clampDuration(p *time.Duration, lo, hi time.Duration) {\n\tif *p < lo {\n\t\t*p = lo\n\t}\n\tif *p > hi {\n\t\t*p = hi\n\t}\n}\n\nfunc parseScheme(s string)"}}},
		{Name: "normalising method of the configuration called after the parse", File: ld, Expect: "C19.L1",
			Old: postOld, New: "\tcfg.Proxy.sanitize()\n" + postOld,
			More: []repl{{"func parseScheme(s string)", "func (p *Proxy) sanitize() {\n\tif p.IdleConnTimeout <= 0 {\n\t\tp.IdleConnTimeout = 15 * time.Second\n\t}\n}\n\nfunc parseScheme(s string)"}}},
		{Name: "whole Proxy section replaced by the defaults after the parse", File: ld, Expect: "C19.L1",
			Old: postOld, New: "\tif cfg.Proxy.MaxConn <= 0 {\n\t\tcfg.Proxy = defaultConfig.Proxy\n\t}\n" + postOld},
		{Name: "benign: defaults written into the configuration before the options are bound and parsed", File: ld, Expect: "",
			Old: bindOld, New: "\tcfg.Proxy.MaxConn = defaultConfig.Proxy.MaxConn\n\tcfg.Proxy.DialTimeout = defaultConfig.Proxy.DialTimeout\n" + bindOld},
		{Name: "benign: whole configuration preset from the defaults before the parse", File: ld, Expect: "",
			Old: bindOld, New: "\t*cfg = *defaultConfig\n" + bindOld},
		{Name: "benign: configuration object with preset limits built by a helper before the parse", File: ld, Expect: "",
			Old: "\tcfg = &Config{}\n", New: "\tcfg = newConfig()\n",
			More: []repl{{"func parseScheme(s string)", "func newConfig() *Config {\n\tc := &Config{}\n\tc.Proxy.MaxConn = defaultConfig.Proxy.MaxConn\n\tc.Proxy.KeepAliveTimeout = defaultConfig.Proxy.KeepAliveTimeout\n\treturn c\n}\n\nfunc parseScheme(s string)"}}},
		{Name: "benign: nonsensical value rejected instead of replaced", File: ld, Expect: "",
			Old: postOld, New: "\tif cfg.Proxy.MaxConn < -1 {\n\t\treturn nil, fmt.Errorf(\"proxy.maxconn must not be less than -1\")\n\t}\n" + postOld},
		{Name: "benign: a copy of the proxy section is adjusted for logging only", File: ld, Expect: "",
			Old: postOld, New: "\tshown := cfg.Proxy\n\tif shown.MaxConn <= 0 {\n\t\tshown.MaxConn = defaultConfig.Proxy.MaxConn\n\t}\n\tlog.Printf(\"[DEBUG] proxy.maxconn %d\", shown.MaxConn)\n" + postOld},
		{Name: "main caps the idle timeout of the loaded configuration before handing it to the transports", File: "main.go", Expect: "C19.L1",
			Old: "\ttransport.SetConfig(cfg)\n", New: "\tif cfg.Proxy.IdleConnTimeout > time.Minute {\n\t\tcfg.Proxy.IdleConnTimeout = time.Minute\n\t}\n\ttransport.SetConfig(cfg)\n"},
		{Name: "the setter stores an adjusted copy of the configuration", File: tr, Expect: "C19.L1",
			Old: "func SetConfig(c *config.Config) {\n\tcfg = c\n", New: "func SetConfig(c *config.Config) {\n\tcp := *c\n\tif cp.Proxy.MaxConn <= 0 {\n\t\tcp.Proxy.MaxConn = 100\n\t}\n\tcfg = &cp\n"},
		{Name: "benign: the setter stores an unchanged copy of the configuration", File: tr, Expect: "",
			Old: "func SetConfig(c *config.Config) {\n\tcfg = c\n", New: "func SetConfig(c *config.Config) {\n\tcp := *c\n\tcfg = &cp\n"},
		{Name: "NewTransport adjusts the configuration variable before reading it", File: tr, Expect: "C19.L1",
			Old: retOld, New: "\tif cfg.Proxy.DialTimeout == 0 {\n\t\tcfg.Proxy.DialTimeout = 30 * time.Second\n\t}\n" + retOld,
			More: []repl{{"import (\n", "import (\n\t\"time\"\n"}}},
	})...)
}

// ---- O1 ---------------------------------------------------------------------------------------------------------------

// c19readsCfg: the origin is <package-level variable>...Proxy.<cfgField> with a configuration struct on the way.
func c19readsCfg(o c19org, cfgField string) bool {
	if _, ok := o.root.(*ssa.Global); !ok {
		return false
	}
	for k := 0; k <= len(o.fields) && k < len(o.types); k++ {
		rel, isCfg := c19cfgType(o.types[k])
		if !isCfg {
			continue
		}
		return c19eq(append(append([]string{}, rel...), o.fields[k:]...), []string{"Proxy", cfgField})
	}
	return false
}

// c19builtTransports: the http.Transport objects NewTransport returns (as F2 finds them).
func c19builtTransports(newT *ssa.Function) (*c19flow, []*ssa.Alloc) {
	fl := &c19flow{stopParam: func(p *ssa.Parameter) bool { return p.Parent() == newT }}
	var trs []*ssa.Alloc
	eachInstr(newT, func(i ssa.Instruction) {
		r, ok := i.(*ssa.Return)
		if !ok || len(r.Results) != 1 {
			return
		}
		for _, o := range fl.origins(r.Results[0]) {
			a, isA := o.root.(*ssa.Alloc)
			if !isA || len(o.fields) != 0 || !namedIs(a.Type(), "net/http.Transport") {
				continue
			}
			dup := false
			for _, t := range trs {
				dup = dup || t == a
			}
			if !dup {
				trs = append(trs, a)
			}
		}
	})
	return fl, trs
}

// c19zeroOrg: the origin is the constant zero / false / a field of a zero-valued aggregate constant.
func c19zeroOrg(o c19org) bool {
	k, ok := o.root.(*ssa.Const)
	if !ok {
		return false
	}
	if k.Value == nil {
		return true // zero value of an aggregate, nil
	}
	if len(o.fields) != 0 {
		return false
	}
	if b, isB := constBool(k); isB {
		return !b
	}
	if n, isN := constInt(k); isN {
		return n == 0
	}
	return false
}

// c19handDialFns: the functions written in the repository that the value of a Dial* field of the transport can be
// (closures, named functions) - not the bound method d.Dial of a library dialer.
func c19handDialFns(fl *c19flow, v ssa.Value) []*ssa.Function {
	var out []*ssa.Function
	for _, o := range fl.origins(v) {
		var fn *ssa.Function
		switch x := o.root.(type) {
		case *ssa.MakeClosure:
			fn, _ = x.Fn.(*ssa.Function)
		case *ssa.Function:
			fn = x
		}
		if fn != nil && len(o.fields) == 0 && fn.Synthetic == "" && isRepoFn(fn) && len(fn.Blocks) > 0 {
			out = append(out, fn)
		}
	}
	return out
}

// c19netDialersOf: the net.Dialer objects a pointer value designates (objects built in view only).
func c19netDialersOf(fl *c19flow, x ssa.Value) (out []*ssa.Alloc, ok bool) {
	orgs := fl.origins(x)
	ok = len(orgs) > 0
	for _, o := range orgs {
		a, isA := o.root.(*ssa.Alloc)
		if !isA || len(o.fields) != 0 || !namedIs(a.Type(), "net.Dialer") {
			ok = false
			continue
		}
		out = append(out, a)
	}
	return out, ok
}

// c19tlsDialerNet: the net.Dialer objects behind the NetDialer field of the tls.Dialer x designates.
func c19tlsDialerNet(c *Ctx, fl *c19flow, x ssa.Value) (out []*ssa.Alloc, ok bool) {
	orgs := fl.origins(x)
	ok = len(orgs) > 0
	for _, o := range orgs {
		a, isA := o.root.(*ssa.Alloc)
		if !isA || len(o.fields) != 0 || !namedIs(a.Type(), "crypto/tls.Dialer") {
			ok = false
			continue
		}
		sts := c19aliasStores(c, fl, a, "crypto/tls.Dialer")["NetDialer"]
		if len(sts) == 0 {
			ok = false // a nil NetDialer means a zero net.Dialer: no timeout, default keep-alive
		}
		for _, st := range sts {
			ds, good := c19netDialersOf(fl, st.Val)
			out = append(out, ds...)
			ok = ok && good
		}
	}
	return out, ok
}

// c19tlsDialPaths resolves the value of http.Transport.DialTLS / DialTLSContext to the net.Dialer objects every
// connection it returns is dialled through. unset: the value is nil.
func c19tlsDialPaths(c *Ctx, fl *c19flow, v ssa.Value) (dialers []*ssa.Alloc, ok, unset bool) {
	orgs := fl.origins(v)
	if len(orgs) == 0 {
		return nil, false, false
	}
	ok, unset = true, true
	add := func(ds []*ssa.Alloc, good bool) {
		dialers = append(dialers, ds...)
		ok = ok && good
	}
	for _, o := range orgs {
		if k, isK := o.root.(*ssa.Const); isK && k.IsNil() && len(o.fields) == 0 {
			continue
		}
		unset = false
		var fn *ssa.Function
		switch x := o.root.(type) {
		case *ssa.MakeClosure:
			fn, _ = x.Fn.(*ssa.Function)
			if fn != nil && fn.Synthetic != "" && len(x.Bindings) == 1 {
				switch funcName(unwrap(fn)) {
				case "(*net.Dialer).Dial", "(*net.Dialer).DialContext":
					add(c19netDialersOf(fl, x.Bindings[0]))
					continue
				case "(*crypto/tls.Dialer).Dial", "(*crypto/tls.Dialer).DialContext":
					add(c19tlsDialerNet(c, fl, x.Bindings[0]))
					continue
				}
			}
		case *ssa.Function:
			fn = x
		}
		if fn == nil || len(o.fields) != 0 || !isRepoFn(fn) || len(fn.Blocks) == 0 || fn.Synthetic != "" {
			ok = false
			continue
		}
		n := 0
		for _, g := range c.region(fn) {
			eachInstr(g, func(i ssa.Instruction) {
				cc := callCommon(i)
				if cc == nil || cc.IsInvoke() || len(cc.Args) == 0 {
					return
				}
				switch name := calleeName(cc); {
				case name == "(*net.Dialer).Dial" || name == "(*net.Dialer).DialContext":
					n++
					add(c19netDialersOf(fl, cc.Args[0]))
				case name == "crypto/tls.DialWithDialer":
					n++
					add(c19netDialersOf(fl, cc.Args[0]))
				case name == "(*crypto/tls.Dialer).Dial" || name == "(*crypto/tls.Dialer).DialContext":
					n++
					add(c19tlsDialerNet(c, fl, cc.Args[0]))
				case name == "crypto/tls.Dial" || name == "net.Dial" || name == "net.DialTimeout" || name == "net.DialTCP":
					n++
					ok = false // no dialer that could carry the configured limits
				}
			})
		}
		if n == 0 {
			ok = false
		}
	}
	return dialers, ok, unset
}

func runC19O1(c *Ctx) {
	const rule = "C19.O1"
	newT := c19findNewTransport(c)
	if newT == nil {
		return // reported by F2
	}
	fl, trs := c19builtTransports(newT)
	if len(trs) == 0 {
		return // reported by F2
	}
	afl := &c19flow{addrMode: true}

	// the origins the dialer's KeepAlive holds (tied to Proxy.KeepAliveTimeout by F2): Idle may hold the same
	limitKeys := func(d *ssa.Alloc, field string) map[string]bool {
		keys := map[string]bool{}
		for _, st := range c19aliasStores(c, fl, d, "net.Dialer")[field] {
			for _, o := range fl.origins(st.Val) {
				keys[o.key()] = true
			}
		}
		return keys
	}
	holds := func(orgs []c19org, cfgField string, same map[string]bool) (bool, string) {
		if len(orgs) == 0 {
			return false, "nothing"
		}
		for _, o := range orgs {
			if !c19readsCfg(o, cfgField) && !same[o.key()] {
				return false, o.key()
			}
		}
		return true, ""
	}

	// keep-alive tuning of one net.Dialer
	checkKeepAliveConfig := func(d *ssa.Alloc) {
		var enable, idle []c19org
		at := d.Pos()
		var owner *ssa.Function = d.Parent()
		for _, st := range c19aliasStores(c, fl, d, "net.Dialer")["KeepAliveConfig"] { // assigned as a whole
			kt := st.Val.Type()
			vo := fl.origins(st.Val)
			enable = append(enable, fl.sel(vo, kt, "Enable", c19fieldType(kt, "Enable"))...)
			idle = append(idle, fl.sel(vo, kt, "Idle", c19fieldType(kt, "Idle"))...)
			at, owner = st.Pos(), st.Parent()
		}
		for _, f := range c.AllFns { // filled in field by field (nested literal, d.KeepAliveConfig.Enable = ..., a helper)
			eachInstr(f, func(i ssa.Instruction) {
				fa, ok := i.(*ssa.FieldAddr)
				if !ok || !namedIs(fa.X.Type(), "net.KeepAliveConfig") {
					return
				}
				name := fieldName(fa.X.Type(), fa.Field)
				if name != "Enable" && name != "Idle" {
					return
				}
				mine := false
				for _, o := range afl.origins(fa.X) {
					mine = mine || (o.root == ssa.Value(d) && len(o.fields) == 1 && o.fields[0] == "KeepAliveConfig")
				}
				if !mine {
					return
				}
				for _, r := range *fa.Referrers() {
					st, isSt := r.(*ssa.Store)
					if !isSt || st.Addr != ssa.Value(fa) {
						continue
					}
					if name == "Enable" {
						enable = append(enable, fl.origins(st.Val)...)
						at, owner = st.Pos(), st.Parent()
					} else {
						idle = append(idle, fl.origins(st.Val)...)
					}
				}
			})
		}
		canEnable, how := false, ""
		for _, o := range enable {
			if !c19zeroOrg(o) {
				canEnable, how = true, "a value computed at run time"
				if _, isK := o.root.(*ssa.Const); isK {
					how = o.key()
				}
			}
		}
		if !canEnable {
			return
		}
		ok, got := holds(idle, "KeepAliveTimeout", limitKeys(d, "KeepAlive"))
		c.check(rule, fnKey(owner)+"|net.Dialer.KeepAliveConfig", at, ok,
			"the dialer of the upstream transports can have KeepAliveConfig.Enable = "+how+": package net then IGNORES Dialer.KeepAlive (the configured proxy.keepalivetimeout) and starts probing after KeepAliveConfig.Idle, which holds "+got+" (zero means Go's default of 15s) => upstream connections are probed after a period the operator did not configure; Idle must hold Proxy.KeepAliveTimeout like KeepAlive does")
	}

	// a dial function written in the repository must not re-tune keep-alive on the connection it returns
	seenFn := map[*ssa.Function]bool{}
	checkHandDial := func(fn *ssa.Function, keepAliveKeys map[string]bool) {
		if seenFn[fn] {
			return
		}
		seenFn[fn] = true
		for _, g := range c.region(fn) {
			eachInstr(g, func(i ssa.Instruction) {
				cc := callCommon(i)
				if cc == nil || cc.IsInvoke() || len(cc.Args) < 2 {
					return
				}
				key := fnKey(g) + "|keep-alive of the dialled connection"
				switch calleeName(cc) {
				case "(*net.TCPConn).SetKeepAlivePeriod":
					ok, got := holds(fl.origins(cc.Args[1]), "KeepAliveTimeout", keepAliveKeys)
					c.check(rule, key, i.Pos(), ok, "the dial function of the upstream transports sets the keep-alive period of the connection to "+got+": that replaces what the dialer set from proxy.keepalivetimeout")
				case "(*net.TCPConn).SetKeepAlive":
					b, isB := constBool(cc.Args[1])
					c.check(rule, key, i.Pos(), isB && b, "the dial function of the upstream transports can switch keep-alive off on the connection although proxy.keepalivetimeout asks for probes")
				case "(*net.TCPConn).SetKeepAliveConfig":
					kt := cc.Args[1].Type()
					ok, got := holds(fl.sel(fl.origins(cc.Args[1]), kt, "Idle", c19fieldType(kt, "Idle")), "KeepAliveTimeout", keepAliveKeys)
					c.check(rule, key, i.Pos(), ok, "the dial function of the upstream transports re-tunes keep-alive on the connection with Idle = "+got+": that replaces what the dialer set from proxy.keepalivetimeout")
				}
			})
		}
	}

	nDialers := 0
	seenDialer := map[*ssa.Alloc]bool{}
	for _, tr := range trs {
		fs := c19aliasStores(c, fl, tr, "net/http.Transport")
		for _, st := range fs["DisableKeepAlives"] {
			zero := true
			for _, o := range fl.origins(st.Val) {
				zero = zero && c19zeroOrg(o)
			}
			c.check(rule, fnKey(st.Parent())+"|http.Transport.DisableKeepAlives", st.Pos(), zero,
				"http.Transport.DisableKeepAlives can be true: no upstream connection is kept, so the configured proxy.maxconn (idle connections per host) and proxy.idleconntimeout have no effect")
		}
		for _, st := range fs["MaxIdleConns"] {
			zero := true
			for _, o := range fl.origins(st.Val) {
				zero = zero && c19zeroOrg(o)
			}
			c.check(rule, fnKey(st.Parent())+"|http.Transport.MaxIdleConns", st.Pos(), zero,
				"http.Transport.MaxIdleConns caps the idle connections over ALL hosts: with it the pool closes idle connections although the host is below the configured proxy.maxconn per host (0 = no total cap is what fabio runs with)")
		}
		var keepAliveKeys = map[string]bool{}
		var mainDialers []*ssa.Alloc
		for _, name := range []string{"Dial", "DialContext"} {
			for _, st := range fs[name] {
				ds, _ := c19dialers(fl, st.Val) // an unresolvable Dial is reported by F2
				mainDialers = append(mainDialers, ds...)
			}
		}
		for _, d := range mainDialers {
			for k := range limitKeys(d, "KeepAlive") {
				keepAliveKeys[k] = true
			}
		}
		dialTimeoutKeys := map[string]bool{}
		for _, d := range mainDialers {
			for k := range limitKeys(d, "Timeout") {
				dialTimeoutKeys[k] = true
			}
		}
		for _, name := range []string{"Dial", "DialContext", "DialTLS", "DialTLSContext"} {
			for _, st := range fs[name] {
				for _, fn := range c19handDialFns(fl, st.Val) {
					checkHandDial(fn, keepAliveKeys)
				}
			}
		}
		// a TLS dial hook replaces Dial for https upstreams: it must go through a dialer with the same limits
		for _, name := range []string{"DialTLS", "DialTLSContext"} {
			for _, st := range fs[name] {
				ds, ok, unset := c19tlsDialPaths(c, fl, st.Val)
				if unset {
					continue
				}
				key := fnKey(st.Parent()) + "|http.Transport." + name
				c.check(rule, key, st.Pos(), ok && len(ds) > 0,
					"http.Transport."+name+" replaces Dial for https upstreams; every connection it returns must be dialled through a net.Dialer built here that carries proxy.dialtimeout and proxy.keepalivetimeout (tls.Dial / a tls.Dialer without NetDialer / a dialer from elsewhere has neither)")
				for _, d := range ds {
					dst := c19aliasStores(c, fl, d, "net.Dialer")
					for _, p := range [][2]string{{"Timeout", "DialTimeout"}, {"KeepAlive", "KeepAliveTimeout"}} {
						same := dialTimeoutKeys
						if p[0] == "KeepAlive" {
							same = keepAliveKeys
						}
						var orgs []c19org
						for _, s := range dst[p[0]] {
							orgs = append(orgs, fl.origins(s.Val)...)
						}
						good, got := holds(orgs, p[1], same)
						c.check(rule, key+"|net.Dialer."+p[0], d.Pos(), good,
							"the net.Dialer behind http.Transport."+name+" (used for https upstreams instead of Dial) must hold Proxy."+p[1]+" in "+p[0]+"; it holds "+got+" => the configured proxy."+strings.ToLower(p[1])+" does not apply to TLS upstreams")
					}
					mainDialers = append(mainDialers, d)
				}
			}
		}
		for _, d := range mainDialers {
			if seenDialer[d] {
				continue
			}
			seenDialer[d] = true
			nDialers++
			checkKeepAliveConfig(d)
			for _, st := range c19aliasStores(c, fl, d, "net.Dialer")["Deadline"] {
				c.check(rule, fnKey(st.Parent())+"|net.Dialer.Deadline", st.Pos(), false,
					"net.Dialer.Deadline is an absolute point in time after which every dial of this dialer fails, whatever proxy.dialtimeout says; the dialer of a transport lives as long as the transport")
			}
		}
	}
	c.atLeast(rule, "net.Dialer objects behind the transports NewTransport builds", nDialers, 1)
}

// ---- L1 ---------------------------------------------------------------------------------------------------------------

var c19limitOptions = map[string]bool{"DialTimeout": true, "ResponseHeaderTimeout": true, "KeepAliveTimeout": true, "IdleConnTimeout": true, "MaxConn": true}

// c19cfgStruct: t is the struct type config.Config or config.Proxy itself (not a pointer to it).
func c19cfgStruct(t types.Type) (rel []string, ok bool) {
	if t == nil {
		return nil, false
	}
	if _, isPtr := types.Unalias(t).Underlying().(*types.Pointer); isPtr {
		return nil, false
	}
	return c19cfgType(t)
}

// c19nonInit: f is not (nested in) a package initialiser.
func c19nonInit(f *ssa.Function) bool {
	for f.Parent() != nil {
		f = f.Parent()
	}
	return !isInitFn(f)
}

// c19hasFlagSet: t (through pointers) is flag.FlagSet or a struct that embeds it.
func c19hasFlagSet(t types.Type) bool {
	if namedIs(t, "flag.FlagSet") {
		return true
	}
	for t != nil {
		t = types.Unalias(t)
		if p, ok := t.Underlying().(*types.Pointer); ok {
			t = p.Elem()
			continue
		}
		break
	}
	if t == nil {
		return false
	}
	if st, ok := t.Underlying().(*types.Struct); ok {
		for k := 0; k < st.NumFields(); k++ {
			if st.Field(k).Embedded() && namedIs(st.Field(k).Type(), "flag.FlagSet") {
				return true
			}
		}
	}
	return false
}

// isLimitPtrType: *int / *time.Duration, the types of the limit options.
func isLimitPtrType(t types.Type) bool {
	p, ok := types.Unalias(t).Underlying().(*types.Pointer)
	if !ok {
		return false
	}
	s := typeStr(p.Elem())
	return s == "int" || s == "time.Duration"
}

// c19numPtrType: a pointer to a number (int, int64, uint, float64, time.Duration ...): what the flag package parses a
// numeric option into.
func c19numPtrType(t types.Type) bool {
	p, ok := types.Unalias(t).Underlying().(*types.Pointer)
	if !ok {
		return false
	}
	b, ok := p.Elem().Underlying().(*types.Basic)
	return ok && b.Info()&types.IsNumeric != 0
}

func runC19L1(c *Ctx) {
	const rule = "C19.L1"
	var loadFn *ssa.Function
	for _, f := range c.AllFns {
		if c19isConfigLoad(f) {
			loadFn = f
		}
	}
	if loadFn == nil {
		c.undecided(rule, "anchor|config.Load", "the function that loads the configuration (config.Load) was not found")
		return
	}

	// (1) the configuration objects: what config.Load returns, the variables that are assigned at run time (they hold
	// it), and the struct copies made of either
	vfl := &c19flow{}
	afl := &c19flow{addrMode: true}
	objs := map[ssa.Value]bool{}
	eachInstr(loadFn, func(i ssa.Instruction) {
		r, ok := i.(*ssa.Return)
		if !ok || len(r.Results) == 0 {
			return
		}
		for _, o := range vfl.origins(r.Results[0]) {
			if len(o.fields) != 0 {
				continue
			}
			switch o.root.(type) {
			case *ssa.Alloc, *ssa.Global:
				objs[o.root] = true
			}
		}
	})
	c.atLeast(rule, "configuration objects config.Load returns", len(objs), 1)
	if len(objs) == 0 {
		return
	}
	written := map[*ssa.Global]bool{} // package variables (re)assigned outside package initialisation
	var copies []*ssa.Alloc
	for _, f := range c.AllFns {
		if !c19nonInit(f) {
			continue
		}
		eachInstr(f, func(i ssa.Instruction) {
			switch x := i.(type) {
			case *ssa.Store:
				addr := x.Addr
				for {
					fa, ok := addr.(*ssa.FieldAddr)
					if !ok {
						break
					}
					addr = fa.X
				}
				if g, ok := addr.(*ssa.Global); ok {
					written[g] = true
				}
			case *ssa.Alloc:
				// a struct copy counts when it is handed on (stored somewhere, returned, passed, copied again); a local
				// that is only read and written field by field is scratch
				if _, ok := c19cfgStruct(c19elem(x.Type())); ok {
					for _, ref := range *x.Referrers() {
						if fa, isFA := ref.(*ssa.FieldAddr); isFA && fa.X == ssa.Value(x) {
							continue
						}
						if st, isSt := ref.(*ssa.Store); isSt && st.Addr == ssa.Value(x) && st.Val != ssa.Value(x) {
							continue
						}
						copies = append(copies, x)
						break
					}
				}
			}
			if cc := callCommon(i); cc != nil {
				if kind, cell, _, ok := atomicOp(cc); ok && kind != "load" {
					if g, isG := cell.(*ssa.Global); isG {
						written[g] = true
					}
				}
			}
		})
	}
	relevant := func(o c19org) bool {
		if objs[o.root] {
			return true
		}
		g, ok := o.root.(*ssa.Global)
		return ok && written[g]
	}
	anyRelevant := func(orgs []c19org) bool {
		for _, o := range orgs {
			if relevant(o) {
				return true
			}
		}
		return false
	}
	for round := 0; round < 3; round++ {
		changed := false
		for _, a := range copies {
			if objs[a] {
				continue
			}
			for _, ref := range *a.Referrers() {
				if st, ok := ref.(*ssa.Store); ok && st.Addr == ssa.Value(a) && anyRelevant(vfl.origins(st.Val)) {
					objs[a], changed = true, true
					break
				}
			}
		}
		if !changed {
			break
		}
	}

	// (2) the landmark "the operator's values have been parsed into the configuration"
	parseBase := func(i ssa.Instruction) bool {
		cc := callCommon(i)
		if cc == nil || cc.IsInvoke() {
			return false
		}
		switch calleeName(cc) {
		case "(*flag.FlagSet).Parse", "(*flag.FlagSet).Set", "flag.Parse", "flag.Set":
			return true
		}
		return false
	}
	isParse := liftMay(parseBase)
	parses := map[*ssa.Function][]ssa.Instruction{}
	nParse := 0
	for _, f := range c.AllFns {
		eachInstr(f, func(i ssa.Instruction) {
			if isParse(i) {
				parses[f] = append(parses[f], i)
				nParse++
			}
		})
	}
	c.atLeast(rule, "calls that parse the command line / environment / properties into the configuration", nParse, 1)
	if nParse == 0 {
		return
	}
	// early: the instruction can only execute before the parse - it sits in a function that parses and no parse reaches
	// it, or in a helper all of whose call sites are early. Everything else counts as after the parse.
	var early func(i ssa.Instruction, depth int) bool
	early = func(i ssa.Instruction, depth int) bool {
		f := i.Parent()
		if ps := parses[f]; len(ps) > 0 {
			for _, p := range ps {
				if p == i || canReach(p, i) {
					return false
				}
			}
			return true
		}
		if f.Parent() != nil || gAddrTaken[f] || depth >= 4 || len(gSites[f]) == 0 {
			return false
		}
		for _, s := range gSites[f] {
			if s.Block() == nil || s.Parent() == f || !early(s, depth+1) {
				return false
			}
		}
		return true
	}

	// (3) the option names the limit fields are bound to (the call that is handed the field's address and a name)
	optName := map[string]string{}
	limitAddr := func(v ssa.Value) (string, bool) {
		fa, ok := v.(*ssa.FieldAddr)
		if !ok {
			return "", false
		}
		name := fieldName(fa.X.Type(), fa.Field)
		if rel, isCfg := c19cfgType(fa.X.Type()); !isCfg || !c19eq(rel, []string{"Proxy"}) || !c19limitOptions[name] {
			return "", false
		}
		return name, true
	}
	for _, f := range c.AllFns {
		eachInstr(f, func(i ssa.Instruction) {
			cc := callCommon(i)
			if cc == nil {
				return
			}
			for k, a := range cc.Args {
				field, ok := limitAddr(a)
				if !ok {
					continue
				}
				for _, b := range cc.Args[k+1:] {
					if s, isS := constString(b); isS {
						optName[field] = s
						break
					}
				}
			}
		})
	}
	// optMatches: the option name s is the one of the limit field: the name the field was bound under, or - when the
	// field itself is not bound (the flags are parsed into an intermediate) - the operator-facing name proxy.<field>
	optMatches := func(s, field string) bool {
		if optName[field] != "" {
			return s == optName[field]
		}
		return strings.EqualFold(s[strings.LastIndex(s, ".")+1:], field)
	}
	// notSetFacts: among the facts is "the flag set says the option bound to `field` was not set"
	notSetFacts := func(raw []Fact, field string) bool {
		for _, ft := range append(append([]Fact{}, raw...), c19expand(raw)...) {
			call, ok := ft.Cond.(*ssa.Call)
			if !ok || ft.Truth || call.Call.IsInvoke() {
				continue
			}
			sc := call.Call.StaticCallee()
			if sc == nil || sc.Signature.Recv() == nil || !c19hasFlagSet(sc.Signature.Recv().Type()) {
				continue
			}
			if b, isB := sc.Signature.Results().At(0).Type().Underlying().(*types.Basic); sc.Signature.Results().Len() != 1 || !isB || b.Kind() != types.Bool {
				continue
			}
			for _, a := range call.Call.Args[1:] {
				if s, isS := constString(a); isS && optMatches(s, field) {
					return true
				}
			}
		}
		return false
	}
	// notSet: the instruction executes only when the flag set says the option bound to `field` was not set
	notSet := func(i ssa.Instruction, field string) bool { return notSetFacts(factsAt(i.Block()), field) }

	// (3b) the destinations the flag set parses into that are NOT the configuration itself: a local / a field of an
	// intermediate struct handed to f.IntVar(&dst, "name", ..), or the pointer f.Int("name", ..) returns. Copying such a
	// destination into the limit field after the parse writes the operator's value, not a replacement for it - as long as
	// nothing else wrote (or was handed) the destination after the parse.
	isFlagFn := func(sc *ssa.Function) bool {
		if sc == nil {
			return false
		}
		if recv := sc.Signature.Recv(); recv != nil {
			return c19hasFlagSet(recv.Type())
		}
		return sc.Pkg != nil && sc.Pkg.Pkg.Path() == "flag"
	}
	locKey := func(o c19org) string { return fmt.Sprintf("%p.%s", o.root, strings.Join(o.fields, ".")) }
	type c19dest struct {
		name    string // "" when the name is not a constant
		last    string // last field of the location ("" for a variable of its own)
		owner   types.Type
		root    ssa.Value
		addrUse []ssa.Instruction // what is done with the address of the destination
	}
	dests := map[string]*c19dest{}
	for _, f := range c.AllFns {
		eachInstr(f, func(i ssa.Instruction) {
			cc := callCommon(i)
			if cc == nil || cc.IsInvoke() || !isFlagFn(cc.StaticCallee()) {
				return
			}
			for k, a := range cc.Args {
				if !c19numPtrType(a.Type()) {
					continue
				}
				if _, isCfg := limitAddr(a); isCfg {
					continue
				}
				name := ""
				for _, b := range cc.Args[k+1:] {
					if s, isS := constString(b); isS {
						name = s
						break
					}
				}
				for _, o := range afl.origins(a) {
					switch o.root.(type) {
					case *ssa.Alloc, *ssa.Global:
					default:
						continue
					}
					d := &c19dest{name: name, root: o.root}
					if n := len(o.fields); n > 0 {
						d.last, d.owner = o.fields[n-1], o.types[n-1]
					}
					if old := dests[locKey(o)]; old != nil && old.name != name {
						d.name = "\x00" // bound under two names: matches none
					}
					dests[locKey(o)] = d
				}
			}
		})
	}
	if len(dests) > 0 { // the uses of the destinations' addresses
		for _, f := range c.AllFns {
			eachInstr(f, func(i ssa.Instruction) {
				switch x := i.(type) {
				case *ssa.FieldAddr:
					name := fieldName(x.X.Type(), x.Field)
					hit := false
					for _, d := range dests {
						hit = hit || d.last == name
					}
					if !hit {
						return
					}
					for _, o := range afl.origins(x) {
						if d := dests[locKey(o)]; d != nil && x.Referrers() != nil {
							d.addrUse = append(d.addrUse, *x.Referrers()...)
						}
					}
				}
				for _, op := range i.Operands(nil) {
					if op == nil || *op == nil {
						continue
					}
					switch (*op).(type) {
					case *ssa.Alloc, *ssa.Global:
						if d := dests[fmt.Sprintf("%p.", *op)]; d != nil {
							d.addrUse = append(d.addrUse, i)
						}
					}
				}
			})
		}
	}
	// cleanUses: after the parse the location is only read (or written under "the option was not set")
	cleanUses := func(uses []ssa.Instruction, addrOf func(ssa.Value) bool, field string) bool {
		for _, u := range uses {
			switch x := u.(type) {
			case *ssa.DebugRef:
				continue
			case *ssa.UnOp:
				if x.Op == token.MUL {
					continue
				}
			case *ssa.FieldAddr:
				continue // the address of a part: judged where that part is a destination of its own
			case *ssa.Store:
				if addrOf(x.Addr) && !addrOf(x.Val) && (early(x, 0) || notSet(x, field)) {
					continue
				}
			}
			if !early(u, 0) {
				return false
			}
		}
		return true
	}
	// parsedOrigin: the origin is what the flag set parsed for the option of `field`
	parsedOrigin := func(o c19org, field string) bool {
		if d := dests[locKey(o)]; d != nil {
			if d.name != "" && !optMatches(d.name, field) {
				return false
			}
			return cleanUses(d.addrUse, func(v ssa.Value) bool {
				if v == d.root && d.last == "" {
					return true
				}
				fa, ok := v.(*ssa.FieldAddr)
				return ok && d.last != "" && fieldName(fa.X.Type(), fa.Field) == d.last
			}, field)
		}
		if call, ok := o.root.(*ssa.Call); ok && len(o.fields) == 0 && !call.Call.IsInvoke() && isFlagFn(call.Call.StaticCallee()) && c19numPtrType(call.Type()) {
			named := false
			for _, a := range call.Call.Args {
				if s, isS := constString(a); isS {
					named = true
					if !optMatches(s, field) {
						return false
					}
					break
				}
			}
			return named && call.Referrers() != nil && cleanUses(*call.Referrers(), func(v ssa.Value) bool { return v == ssa.Value(call) }, field)
		}
		return false
	}
	// parsedValue: every origin of v is the parsed value of the option, or a value chosen because the option was not set
	// (a default put into the destination under !IsSet hides the parsed content of the destination from the origins:
	// then v must be read from such a destination)
	parsedValue := func(v ssa.Value, field string) bool {
		orgs := vfl.origins(v)
		n := 0
		for _, o := range orgs {
			if parsedOrigin(o, field) {
				n++
				continue
			}
			if !notSetFacts(o.facts, field) {
				return false
			}
		}
		if n > 0 || len(orgs) == 0 {
			return n > 0
		}
		u, ok := v.(*ssa.UnOp)
		if !ok || u.Op != token.MUL {
			return false
		}
		locs := afl.origins(u.X)
		for _, o := range locs {
			if dests[locKey(o)] == nil || !parsedOrigin(o, field) {
				return false
			}
		}
		return len(locs) > 0
	}

	// (4) the writes
	nWrites := 0
	report := func(st *ssa.Store, field, how string) {
		nWrites++
		if early(st, 0) {
			return
		}
		opt := optName[field]
		if opt == "" {
			opt = "proxy." + strings.ToLower(field)
		}
		c.check(rule, fnKey(st.Parent())+"|write of config.Proxy."+field+" after the parse", st.Pos(), field != "" && (notSet(st, field) || parsedValue(st.Val, field)),
			how+" config.Proxy."+field+" of the loaded configuration is written after the operator's value ("+opt+" from command line, environment or properties file) has been parsed into it - not under the condition that the option was not set, and the value written is not the one the flag set parsed for this option into a destination of its own that was left alone since: whatever the operator chose there (maxconn -1 = no connection re-use, 0 = Go's default; a timeout of 0 = none) is replaced, and every transport NewTransport builds - default, skip-verify, per-route - gets a limit nobody configured")
	}
	// carried: the limit field `field` of the struct value v (config.Config or config.Proxy) is the loaded one
	carried := func(v ssa.Value, rel []string, field string) bool {
		orgs := vfl.origins(v)
		t := v.Type()
		if len(rel) == 0 {
			pt := c19fieldType(t, "Proxy")
			if pt == nil {
				return false
			}
			orgs, t = vfl.sel(orgs, t, "Proxy", pt), pt
		}
		ft := c19fieldType(t, field)
		if ft == nil {
			return false
		}
		orgs = vfl.sel(orgs, t, field, ft)
		n := 0
		for _, o := range orgs {
			if k, isK := o.root.(*ssa.Const); isK && k.IsNil() {
				continue // config.Load's nil result (error, -version): nothing is read from it
			}
			if _, isA := o.root.(*ssa.Alloc); isA && c19nilParamFact(o.facts) {
				continue // `if c == nil { c = &config.Config{} }`: a default for a missing configuration
			}
			if parsedOrigin(o, field) {
				n++ // the struct the flag set parsed into
				continue
			}
			if !relevant(o) || len(o.fields) == 0 || o.fields[len(o.fields)-1] != field {
				return false
			}
			n++
		}
		return n > 0
	}
	for _, f := range c.AllFns {
		if !c19nonInit(f) {
			continue
		}
		eachInstr(f, func(i ssa.Instruction) {
			st, ok := i.(*ssa.Store)
			if !ok {
				return
			}
			// (a) the field itself
			if field, isLimit := limitAddr(st.Addr); isLimit {
				if anyRelevant(afl.origins(st.Addr.(*ssa.FieldAddr).X)) {
					report(st, field, "the option")
				}
				return
			}
			// (b) the whole Proxy / Config struct
			if rel, isStruct := c19cfgStruct(st.Val.Type()); isStruct {
				if _, fresh := st.Addr.(*ssa.Alloc); fresh && !objs[st.Addr] {
					return // a local copy nobody hands on as configuration
				}
				if !anyRelevant(afl.origins(st.Addr)) {
					return
				}
				for _, field := range []string{"DialTimeout", "ResponseHeaderTimeout", "KeepAliveTimeout", "IdleConnTimeout", "MaxConn"} {
					if !carried(st.Val, rel, field) {
						if !early(st, 0) {
							nWrites++
							c.check(rule, fnKey(st.Parent())+"|configuration struct replaced after the parse", st.Pos(), false,
								"the whole "+typeStr(st.Val.Type())+" of the loaded configuration is replaced after the operator's values have been parsed into it by a value whose "+field+" (at least) is not the loaded one: the configured upstream limits are lost and every transport NewTransport builds gets limits nobody configured")
						}
						return
					}
				}
				return
			}
			// (c) through a pointer to the field (a clamp / default helper)
			switch st.Addr.(type) {
			case *ssa.FieldAddr, *ssa.IndexAddr, *ssa.Alloc, *ssa.Global:
				return
			}
			if !isLimitPtrType(st.Addr.Type()) {
				return
			}
			for _, o := range afl.origins(st.Addr) {
				n := len(o.fields)
				if n == 0 || !relevant(o) || !c19limitOptions[o.fields[n-1]] || n >= len(o.types) {
					continue
				}
				if rel, isCfg := c19cfgType(o.types[n-1]); isCfg && c19eq(rel, []string{"Proxy"}) {
					report(st, o.fields[n-1], "through a pointer to it, the option")
					return
				}
			}
		})
	}
	c.ob(rule, "config|limit options are the operator's after the parse", token.NoPos, OK, "scanned the writes of the five limit options of the configuration objects ("+itoa(nWrites)+" found, "+itoa(len(objs))+" objects, "+itoa(nParse)+" parse landmarks)")
}
