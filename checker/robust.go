package main

// Helpers that make rules independent of how the code is cut into functions (DESIGN 11.8): a rule names the ROLE of
// a site (what it calls, what it stores, what it returns) and searches a REGION (an entry function plus the
// same-package helpers it calls), instead of naming the function that happens to contain the site today.

import (
	"go/token"
	"strings"

	"golang.org/x/tools/go/ssa"
)

// region returns the roots and, transitively, the repository functions of the same package they call statically,
// the closures they make, and the functions whose value they take (method values, named functions used as
// callbacks) — depth-bounded. Order is deterministic (discovery order).
func (c *Ctx) region(roots ...*ssa.Function) []*ssa.Function {
	return c.regionDepth(4, roots...)
}

func (c *Ctx) regionDepth(depth int, roots ...*ssa.Function) []*ssa.Function {
	var out []*ssa.Function
	seen := map[*ssa.Function]bool{}
	var add func(f *ssa.Function, d int)
	add = func(f *ssa.Function, d int) {
		if f == nil || seen[f] || len(f.Blocks) == 0 || !isRepoFn(f) {
			return
		}
		seen[f] = true
		out = append(out, f)
		if d >= depth {
			return
		}
		home := rootPkg(f)
		eachInstr(f, func(i ssa.Instruction) {
			for _, op := range i.Operands(nil) {
				if op == nil || *op == nil {
					continue
				}
				var g *ssa.Function
				switch x := (*op).(type) {
				case *ssa.Function:
					g = unwrap(x)
				case *ssa.MakeClosure:
					if fn, ok := x.Fn.(*ssa.Function); ok {
						g = unwrap(fn)
					}
				}
				if g != nil && rootPkg(g) == home {
					add(g, d+1)
				}
			}
		})
	}
	for _, r := range roots {
		add(r, 0)
	}
	return out
}

// eachInstrOf visits every instruction of every function in fns.
func eachInstrOf(fns []*ssa.Function, visit func(f *ssa.Function, i ssa.Instruction)) {
	for _, f := range fns {
		ff := f
		eachInstr(f, func(i ssa.Instruction) { visit(ff, i) })
	}
}

// fnsWhere: source functions (and closures) of package pkg (short name, "" = whole repository) satisfying pred.
func (c *Ctx) fnsWhere(pkg string, pred func(*ssa.Function) bool) []*ssa.Function {
	var sp *ssa.Package
	if pkg != "" {
		sp = c.spkg(pkg)
		if sp == nil {
			return nil
		}
	}
	var out []*ssa.Function
	for _, f := range c.AllFns {
		if sp != nil && rootPkg(f) != sp {
			continue
		}
		if pred(f) {
			out = append(out, f)
		}
	}
	return out
}

// fnByRole resolves an anchor: the function of that name if it exists and plays the role, otherwise the unique
// function of the package that plays it (a renamed or extracted anchor). role may be nil (name only).
func (c *Ctx) fnByRole(pkg, name string, role func(*ssa.Function) bool) *ssa.Function {
	if f := c.fn(pkg, name); f != nil && (role == nil || role(f)) {
		return f
	}
	if role == nil {
		return nil
	}
	cands := c.fnsWhere(pkg, role)
	if len(cands) == 1 {
		return cands[0]
	}
	// prefer the outermost: a candidate that (transitively) calls the others
	for _, f := range cands {
		reg := map[*ssa.Function]bool{}
		for _, g := range c.region(f) {
			reg[g] = true
		}
		all := true
		for _, g := range cands {
			if !reg[g] {
				all = false
			}
		}
		if all {
			return f
		}
	}
	return nil
}

// methodByRole: like fnByRole for a method of type typ.
func (c *Ctx) methodByRole(pkg, typ, name string, role func(*ssa.Function) bool) *ssa.Function {
	if f := c.method(pkg, typ, name); f != nil && (role == nil || role(f)) {
		return f
	}
	if role == nil {
		return nil
	}
	cands := c.fnsWhere(pkg, func(f *ssa.Function) bool {
		return f.Signature.Recv() != nil && namedIs(f.Signature.Recv().Type(), typ) && role(f)
	})
	if len(cands) == 1 {
		return cands[0]
	}
	return nil
}

// fnCalls: f contains a call (call/go/defer) whose callee name is one of names (exact, or prefix when the name ends in '*').
func fnCalls(f *ssa.Function, names ...string) bool {
	hit := false
	eachInstr(f, func(i ssa.Instruction) {
		cc := callCommon(i)
		if cc == nil || hit {
			return
		}
		n := calleeName(cc)
		for _, w := range names {
			if n == w || (strings.HasSuffix(w, "*") && strings.HasPrefix(n, strings.TrimSuffix(w, "*"))) {
				hit = true
			}
		}
	})
	return hit
}

// fnStoresField: f stores to field `field` of a value of named type typ ("route.Route").
func fnStoresField(f *ssa.Function, typ, field string) bool {
	hit := false
	eachInstr(f, func(i ssa.Instruction) {
		if st, ok := i.(*ssa.Store); ok {
			if _, ok := fieldOf(st.Addr, typ, field); ok {
				hit = true
			}
		}
	})
	return hit
}

// ---- must / may summaries ----------------------------------------------------------------------------------------

// mustExec: on every path from fn's entry to a return, some instruction satisfies pred — directly, or as a static
// call of a repository function for which the same holds (depth-bounded). Panicking paths do not count as returns.
func mustExec(fn *ssa.Function, pred func(ssa.Instruction) bool, depth int) bool {
	if fn == nil || len(fn.Blocks) == 0 || depth > 3 {
		return false
	}
	lifted := liftMust(pred, depth+1)
	type item struct {
		b *ssa.BasicBlock
	}
	seen := map[*ssa.BasicBlock]bool{fn.Blocks[0]: true}
	stack := []*ssa.BasicBlock{fn.Blocks[0]}
	for len(stack) > 0 {
		b := stack[len(stack)-1]
		stack = stack[:len(stack)-1]
		blocked := false
		for _, in := range b.Instrs {
			if lifted(in) {
				blocked = true
				break
			}
			if _, ok := in.(*ssa.Return); ok {
				return false
			}
		}
		if blocked {
			continue
		}
		for _, s := range b.Succs {
			if !seen[s] {
				seen[s] = true
				stack = append(stack, s)
			}
		}
	}
	return true
}

// mayExec: some instruction of fn, or of a repository function it statically calls (depth-bounded), satisfies pred.
func mayExec(fn *ssa.Function, pred func(ssa.Instruction) bool, depth int) bool {
	if fn == nil || len(fn.Blocks) == 0 || depth > 3 {
		return false
	}
	hit := false
	eachInstr(fn, func(i ssa.Instruction) {
		if hit {
			return
		}
		if pred(i) {
			hit = true
			return
		}
		if cc := callCommon(i); cc != nil {
			if _, isGo := i.(*ssa.Go); isGo {
				return
			}
			if sc := cc.StaticCallee(); sc != nil {
				if isRepoFn(sc) && mayExec(unwrap(sc), pred, depth+1) {
					hit = true
				}
			} else if !cc.IsInvoke() {
				for _, g := range funcsOf(cc.Value) { // a local closure variable called here
					if mayExec(g, pred, depth+1) {
						hit = true
					}
				}
			}
		}
	})
	return hit
}

// liftMust widens an instruction predicate to "this instruction does it, or is a (non-go, non-defer) static call of a
// repository helper that does it on every path".
func liftMust(pred func(ssa.Instruction) bool, depth int) func(ssa.Instruction) bool {
	if pred == nil {
		return func(ssa.Instruction) bool { return false }
	}
	return func(i ssa.Instruction) bool {
		if pred(i) {
			return true
		}
		call, ok := i.(*ssa.Call)
		if !ok {
			return false
		}
		sc := call.Call.StaticCallee()
		if sc == nil || !isRepoFn(sc) {
			return false
		}
		return mustExec(unwrap(sc), pred, depth)
	}
}

// liftMay: this instruction does it, or is a static call of a repository helper that may do it.
func liftMay(pred func(ssa.Instruction) bool) func(ssa.Instruction) bool {
	return func(i ssa.Instruction) bool {
		if pred(i) {
			return true
		}
		call, ok := i.(*ssa.Call)
		if !ok {
			return false
		}
		sc := call.Call.StaticCallee()
		if sc == nil || !isRepoFn(sc) {
			return false
		}
		return mayExec(unwrap(sc), pred, 1)
	}
}

// ---- sync/atomic, whatever its spelling ---------------------------------------------------------------------------

// stripTypeArgs removes type-argument lists (nested brackets included) from an instantiated function's name.
func stripTypeArgs(n string) string {
	var b strings.Builder
	depth := 0
	for _, r := range n {
		switch {
		case r == '[':
			depth++
		case r == ']' && depth > 0:
			depth--
		case depth == 0:
			b.WriteRune(r)
		}
	}
	return b.String()
}

// atomicOp classifies a call as an operation of package sync/atomic: the function forms (atomic.AddUint64,
// atomic.LoadPointer ...) and the methods of atomic.Value, atomic.Pointer[T], atomic.Uint64 etc. kind is one of
// "load", "store", "add", "swap", "cas", "and", "or"; cell is the address / receiver operated on; val is the value
// stored (store/swap/cas: the new value), nil otherwise.
func atomicOp(cc *ssa.CallCommon) (kind string, cell ssa.Value, val ssa.Value, ok bool) {
	if cc == nil || cc.IsInvoke() {
		return "", nil, nil, false
	}
	n := stripTypeArgs(calleeName(cc))
	if !strings.Contains(n, "sync/atomic.") || len(cc.Args) == 0 {
		return "", nil, nil, false
	}
	op := n[strings.LastIndex(n, ".")+1:]
	switch {
	case strings.HasPrefix(op, "Load"):
		kind = "load"
	case strings.HasPrefix(op, "Store"):
		kind = "store"
	case strings.HasPrefix(op, "Add"):
		kind = "add"
	case strings.HasPrefix(op, "Swap"):
		kind = "swap"
	case strings.HasPrefix(op, "CompareAndSwap"):
		kind = "cas"
	case strings.HasPrefix(op, "And"):
		kind = "and"
	case strings.HasPrefix(op, "Or"):
		kind = "or"
	default:
		return "", nil, nil, false
	}
	cell = cc.Args[0]
	switch kind {
	case "store", "swap":
		if len(cc.Args) >= 2 {
			val = cc.Args[1]
		}
	case "cas":
		if len(cc.Args) >= 3 {
			val = cc.Args[2]
		}
	}
	return kind, cell, val, true
}

// publishedValue strips what the two publication idioms wrap around the value: atomic.Value.Store(v) boxes it in an
// interface, atomic.Pointer[T].Store(&v) takes the address of a cell the value was just stored in.
func publishedValue(v ssa.Value) []ssa.Value {
	v = stripIface(v)
	if a, ok := v.(*ssa.Alloc); ok {
		var out []ssa.Value
		for _, r := range *a.Referrers() {
			if st, ok := r.(*ssa.Store); ok && st.Addr == a {
				out = append(out, st.Val)
			}
		}
		if len(out) > 0 {
			return out
		}
	}
	return []ssa.Value{v}
}

// ---- function values --------------------------------------------------------------------------------------------

// funcsOf resolves a function-typed value to the repository functions it can denote when that is visible: a closure,
// a named function, a bound method value, a merge of those, or the result of a repository function that returns one.
func funcsOf(v ssa.Value) []*ssa.Function {
	var out []*ssa.Function
	seen := map[ssa.Value]bool{}
	var walk func(x ssa.Value, d int)
	walk = func(x ssa.Value, d int) {
		if x == nil || seen[x] || d > 6 {
			return
		}
		seen[x] = true
		switch y := x.(type) {
		case *ssa.Function:
			out = append(out, unwrap(y))
		case *ssa.MakeClosure:
			if fn, ok := y.Fn.(*ssa.Function); ok {
				out = append(out, unwrap(fn))
			}
		case *ssa.Phi:
			for _, e := range y.Edges {
				walk(e, d+1)
			}
		case *ssa.ChangeType:
			walk(y.X, d+1)
		case *ssa.MakeInterface:
			walk(y.X, d+1)
		case *ssa.Extract:
			walk(y.Tuple, d+1)
		case *ssa.UnOp:
			if y.Op == token.MUL {
				for _, dd := range defsOf(y) {
					if dd.Val != x {
						walk(dd.Val, d+1)
					}
				}
				if fv, ok := y.X.(*ssa.FreeVar); ok {
					walk(fv, d+1)
				}
			}
		case *ssa.FreeVar:
			// a captured variable (cell): what the makers of the closure bind, and what is stored into that cell
			fn := y.Parent()
			if fn == nil || fn.Parent() == nil {
				return
			}
			idx := -1
			for k, fv := range fn.FreeVars {
				if fv == y {
					idx = k
				}
			}
			eachInstr(fn.Parent(), func(i ssa.Instruction) {
				if mc, ok := i.(*ssa.MakeClosure); ok && mc.Fn == fn && idx >= 0 && idx < len(mc.Bindings) {
					b := mc.Bindings[idx]
					walk(b, d+1)
					if a, ok := b.(*ssa.Alloc); ok {
						for _, r := range *a.Referrers() {
							if st, ok := r.(*ssa.Store); ok && st.Addr == a {
								walk(st.Val, d+1)
							}
						}
					}
				}
			})
		case *ssa.Call:
			if sc := y.Call.StaticCallee(); sc != nil && isRepoFn(sc) {
				eachInstr(sc, func(i ssa.Instruction) {
					if r, ok := i.(*ssa.Return); ok {
						for _, res := range r.Results {
							walk(res, d+1)
						}
					}
				})
			}
		}
	}
	walk(v, 0)
	return out
}

// typeArgs keeps the old call shape `typeArgs.ReplaceAllString(name, "")` used by many rules; it strips nested lists too.
type typeArgStripper struct{}

func (typeArgStripper) ReplaceAllString(s, _ string) string { return stripTypeArgs(s) }

var typeArgs typeArgStripper

// gGlobalStores: every direct store to a package-level variable of the repository (package initialisers included).
var gGlobalStores map[*ssa.Global][]*ssa.Store

// gGlobalEscapes: package-level variables whose address is used other than for a direct load or store.
var gGlobalEscapes map[*ssa.Global]bool

// sentinelError: v is a load of a package-level error variable that is assigned exactly once, by its package
// initialiser, from errors.New / fmt.Errorf (`var errX = errors.New("...")`), and whose address is not taken: it
// cannot be nil.
func sentinelError(v ssa.Value) bool {
	u, ok := v.(*ssa.UnOp)
	if !ok || u.Op != token.MUL {
		return false
	}
	g, ok := u.X.(*ssa.Global)
	if !ok || len(gGlobalStores[g]) != 1 {
		return false
	}
	st := gGlobalStores[g][0]
	if st.Parent() == nil || st.Parent().Synthetic == "" || st.Parent().Name() != "init" {
		return false
	}
	val := stripIface(st.Val)
	if call, ok := val.(*ssa.Call); ok {
		switch calleeName(&call.Call) {
		case "errors.New", "fmt.Errorf":
		default:
			return false
		}
	} else if _, isMI := st.Val.(*ssa.MakeInterface); !isMI {
		return false
	}
	// the address must not escape (another function could then store nil through it)
	if gGlobalEscapes[g] {
		return false
	}
	return true
}

// mutatedArg: the collection a mutating library call (sort.Sort, sort.Slice, copy ...) writes through: its first
// argument, seen through the interface box and through adapters that share the backing array (sort.Reverse,
// sort.StringSlice / sort.IntSlice conversions).
func mutatedArg(cc *ssa.CallCommon) ssa.Value {
	v := stripIface(cc.Args[0])
	for i := 0; i < 4; i++ {
		switch x := v.(type) {
		case *ssa.Call:
			if calleeName(&x.Call) == "sort.Reverse" && len(x.Call.Args) == 1 {
				v = stripIface(x.Call.Args[0])
				continue
			}
		case *ssa.ChangeType:
			v = x.X
			continue
		case *ssa.MakeInterface:
			v = x.X
			continue
		}
		break
	}
	return v
}
