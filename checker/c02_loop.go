package main

// C02.L4 — the update loop keeps running and keeps its "last installed text" when the constructor rejects a
// configuration. Nothing here names the function that contains the loop or the helpers its body was cut into:
//
//   * the constructor calls examined are those calls of the text constructor (route.NewTable) from which a published
//     table derives (the publication sites of c02_holder.go);
//   * the update loop is the innermost loop that encloses such a call, or a call of the helper that contains it
//     (followed through static call sites);
//   * the error path is walked forward from the constructor call: a branch is followed only if it is consistent with
//     "the constructor returned an error" (err != nil, and - one level up - with the constants the helper returns on
//     that path: `return "", false`, `return err`, `return nil`). On every such path the walk must come back to the
//     loop head, without return/exit/panic, and the loop-carried last text must arrive there unchanged;
//   * the last installed text is the loop-carried string that is compared with the candidate text (in the loop or in
//     a helper it is passed to) and that receives this candidate on some edge.

import (
	"go/token"
	"go/types"
	"strings"

	"golang.org/x/tools/go/ssa"
)

// c02errK: what is known about values on the error path.
type c02errK struct {
	nonNil map[ssa.Value]bool
	isNil  map[ssa.Value]bool
	boolv  map[ssa.Value]bool
}

func newC02errK() c02errK {
	return c02errK{nonNil: map[ssa.Value]bool{}, isNil: map[ssa.Value]bool{}, boolv: map[ssa.Value]bool{}}
}

type c02env map[*ssa.Phi]ssa.Value

func (e c02env) resolve(v ssa.Value) ssa.Value {
	for n := 0; n < 8; n++ {
		phi, ok := v.(*ssa.Phi)
		if !ok {
			return v
		}
		r, ok := e[phi]
		if !ok || r == v {
			return v
		}
		v = r
	}
	return v
}

type c02ret struct {
	r   *ssa.Return
	env c02env
}

type c02back struct {
	pred *ssa.BasicBlock
	env  c02env
}

// c02walk is one forward walk along the error path inside one function.
type c02walk struct {
	fn     *ssa.Function
	lp     *loop // the update loop when fn is the function that contains it, else nil
	K      c02errK
	exits  []ssa.Instruction // process exits / panics on the error path
	leaves []ssa.Instruction // returns / edges that leave the update loop
	rets   []c02ret          // returns reached (helper levels)
	backs  []c02back         // arrivals at the loop head
	pruned int               // branches decided by what is known about the error
	stores []*ssa.Store      // stores executed on the error path
	calls  []*ssa.Call       // static calls of repository functions on the error path
	seen   map[[2]*ssa.BasicBlock]bool
	depth  int // nesting of predicate helpers being evaluated
}

func c02isExitCall(i ssa.Instruction) bool {
	cc := callCommon(i)
	if cc == nil {
		return false
	}
	n := calleeName(cc)
	return strings.HasPrefix(n, repoMod+"/exit.") || strings.HasPrefix(n, "log.Fatal") || strings.HasPrefix(n, "(*log.Logger).Fatal") ||
		strings.HasPrefix(n, "log.Panic") || n == "os.Exit" || n == "runtime.Goexit"
}

func (w *c02walk) evalCond(cond ssa.Value, env c02env) (canTrue, canFalse bool) {
	neg := false
	for {
		u, ok := cond.(*ssa.UnOp)
		if !ok || u.Op != token.NOT {
			break
		}
		cond, neg = u.X, !neg
	}
	cond = env.resolve(cond)
	val, known := false, false
	if b, ok := w.K.boolv[cond]; ok {
		val, known = b, true
	} else if bin, ok := cond.(*ssa.BinOp); ok && (bin.Op == token.EQL || bin.Op == token.NEQ) {
		x, y := env.resolve(bin.X), env.resolve(bin.Y)
		var other ssa.Value
		switch {
		case isNilConst(y):
			other = x
		case isNilConst(x):
			other = y
		}
		switch {
		case other != nil && w.K.nonNil[other]:
			val, known = bin.Op == token.NEQ, true
		case other != nil && w.K.isNil[other]:
			val, known = bin.Op == token.EQL, true
		default:
			if cb, ok := constBool(y); ok {
				if bv, ok := w.K.boolv[x]; ok {
					val, known = (bv == cb) == (bin.Op == token.EQL), true
				}
			} else if cb, ok := constBool(x); ok {
				if bv, ok := w.K.boolv[y]; ok {
					val, known = (bv == cb) == (bin.Op == token.EQL), true
				}
			}
		}
	}
	if call, ok := cond.(*ssa.Call); ok && !known {
		val, known = w.evalPredicate(call, env)
	}
	if !known {
		return true, true
	}
	w.pruned++
	if neg {
		val = !val
	}
	return val, !val
}

// evalPredicate: the condition is the verdict of a small repository predicate about values the walk knows something
// about (`if warn(err) { continue }` with `func warn(err error) bool { if err == nil { return false }; log...; return
// true }`): the predicate is walked with that knowledge about its parameters; when every return it can reach gives the
// same constant, that is the verdict. A process exit inside the predicate counts as one of the error path.
func (w *c02walk) evalPredicate(call *ssa.Call, env c02env) (val, known bool) {
	sc := call.Call.StaticCallee()
	if sc == nil || call.Call.IsInvoke() || w.depth >= 2 || !isRepoFn(sc) || sc.Signature.Results().Len() != 1 {
		return false, false
	}
	sc = unwrap(sc)
	if len(sc.Blocks) == 0 {
		return false, false
	}
	K := newC02errK()
	any := false
	for k, a := range call.Call.Args {
		if k >= len(sc.Params) {
			break
		}
		a = env.resolve(a)
		p := sc.Params[k]
		if w.K.nonNil[a] {
			K.nonNil[p], any = true, true
		}
		if w.K.isNil[a] || isNilConst(a) {
			K.isNil[p], any = true, true
		}
		if b, ok := w.K.boolv[a]; ok {
			K.boolv[p], any = b, true
		}
	}
	if !any {
		return false, false
	}
	sub := &c02walk{fn: sc, K: K, seen: map[[2]*ssa.BasicBlock]bool{}, depth: w.depth + 1}
	sub.visit(sc.Blocks[0], 0, c02env{})
	if len(sub.rets) == 0 {
		return false, false
	}
	for n, r := range sub.rets {
		if len(r.r.Results) != 1 {
			return false, false
		}
		rv := r.env.resolve(r.r.Results[0])
		b, ok := constBool(rv)
		if !ok {
			// `return err != nil`
			canT, canF := sub.evalCond(rv, r.env)
			if canT == canF {
				return false, false
			}
			b = canT
		}
		if n > 0 && b != val {
			return false, false
		}
		val = b
	}
	w.exits = append(w.exits, sub.exits...)
	return val, true
}

func (w *c02walk) visit(b *ssa.BasicBlock, idx int, env c02env) {
	for k := idx; k < len(b.Instrs); k++ {
		in := b.Instrs[k]
		if c02isExitCall(in) {
			w.exits = append(w.exits, in)
		}
		switch x := in.(type) {
		case *ssa.Store:
			w.stores = append(w.stores, x)
		case *ssa.Call:
			if sc := x.Call.StaticCallee(); sc != nil && isRepoFn(sc) && len(sc.Blocks) > 0 {
				w.calls = append(w.calls, x)
			}
		case *ssa.Panic:
			w.exits = append(w.exits, in)
			return
		case *ssa.Return:
			if w.lp != nil {
				w.leaves = append(w.leaves, in)
			} else {
				w.rets = append(w.rets, c02ret{x, env})
			}
			return
		case *ssa.If:
			t, f := w.evalCond(x.Cond, env)
			if t {
				w.step(b, b.Succs[0], env)
			}
			if f {
				w.step(b, b.Succs[1], env)
			}
			return
		case *ssa.Jump:
			w.step(b, b.Succs[0], env)
			return
		}
	}
}

func (w *c02walk) step(p, q *ssa.BasicBlock, env c02env) {
	if w.lp != nil {
		if q == w.lp.Head {
			w.backs = append(w.backs, c02back{p, env})
			return
		}
		if !w.lp.Body[q] {
			w.leaves = append(w.leaves, p.Instrs[len(p.Instrs)-1])
			return
		}
	}
	key := [2]*ssa.BasicBlock{q, p}
	if w.seen[key] {
		return
	}
	w.seen[key] = true
	env2 := c02env{}
	for k, v := range env {
		env2[k] = v
	}
	pi := -1
	for k, pp := range q.Preds {
		if pp == p {
			pi = k
			break
		}
	}
	for _, in := range q.Instrs {
		phi, ok := in.(*ssa.Phi)
		if !ok {
			break
		}
		if pi >= 0 && pi < len(phi.Edges) {
			env2[phi] = env.resolve(phi.Edges[pi])
		}
	}
	w.visit(q, 0, env2)
}

// c02results: the values that stand for result k of call instruction s in the caller.
func c02results(s ssa.Instruction, k int) []ssa.Value {
	call, ok := s.(*ssa.Call)
	if !ok {
		return nil
	}
	if call.Call.Signature().Results().Len() == 1 {
		if k == 0 {
			return []ssa.Value{call}
		}
		return nil
	}
	var out []ssa.Value
	if refs := call.Referrers(); refs != nil {
		for _, r := range *refs {
			if e, ok := r.(*ssa.Extract); ok && e.Index == k {
				out = append(out, e)
			}
		}
	}
	return out
}

func c02resultIndex(v ssa.Value, s ssa.Instruction) int {
	call, ok := s.(*ssa.Call)
	if !ok {
		return -1
	}
	if v == ssa.Value(call) && call.Call.Signature().Results().Len() == 1 {
		return 0
	}
	if e, ok := v.(*ssa.Extract); ok && e.Tuple == ssa.Value(call) {
		return e.Index
	}
	return -1
}

func c02newsError(v ssa.Value) bool {
	switch x := v.(type) {
	case *ssa.MakeInterface:
		return true
	case *ssa.Call:
		switch calleeName(&x.Call) {
		case "fmt.Errorf", "errors.New":
			return true
		}
	}
	return false
}

func c02enclosingLoop(i ssa.Instruction) *loop {
	var lp *loop
	for _, l := range loopsOf(i.Parent()) {
		if l.Body[i.Block()] && (lp == nil || len(l.Body) < len(lp.Body)) {
			lp = l
		}
	}
	return lp
}

// c02loopCtx: frames[0] is the constructor call, frames[j+1] the static call (in the caller) of the function that
// contains frames[j]; the function of the last frame contains the update loop lp.
type c02loopCtx struct {
	frames []ssa.Instruction
	lp     *loop
	walks  []*c02walk
}

func (x *c02pubs) loopContexts(c0 *ssa.Call) []*c02loopCtx {
	var out []*c02loopCtx
	var climb func(frames []ssa.Instruction, depth int)
	climb = func(frames []ssa.Instruction, depth int) {
		cur := frames[len(frames)-1]
		if lp := c02enclosingLoop(cur); lp != nil {
			out = append(out, &c02loopCtx{frames: append([]ssa.Instruction{}, frames...), lp: lp})
			return
		}
		if depth >= 3 {
			return
		}
		for _, s := range c02sites(cur.Parent()) {
			if _, isCall := s.(*ssa.Call); !isCall || s.Parent() == cur.Parent() {
				continue
			}
			climb(append(append([]ssa.Instruction{}, frames...), s), depth+1)
		}
	}
	climb([]ssa.Instruction{c0}, 0)
	return out
}

// run walks the error path level by level, from the constructor call out to the loop.
func (lc *c02loopCtx) run() {
	K := newC02errK()
	c0 := lc.frames[0].(*ssa.Call)
	for _, v := range c02results(c0, 1) {
		K.nonNil[v] = true
	}
	for _, v := range c02results(c0, 0) {
		K.isNil[v] = true // L2: the constructor returns a nil table with every error
	}
	m := len(lc.frames) - 1
	for j := 0; j <= m; j++ {
		at := lc.frames[j]
		w := &c02walk{fn: at.Parent(), K: K, seen: map[[2]*ssa.BasicBlock]bool{}}
		if j == m {
			w.lp = lc.lp
		}
		w.visit(at.Block(), instrIndex(at)+1, c02env{})
		lc.walks = append(lc.walks, w)
		if j == m {
			break
		}
		// what the caller knows about the results of the helper on the error path
		next := newC02errK()
		nres := at.Parent().Signature.Results().Len()
		for k := 0; k < nres && len(w.rets) > 0; k++ {
			allNil, allNonNil, allBool, bval := true, true, true, false
			for n, r := range w.rets {
				if k >= len(r.r.Results) {
					allNil, allNonNil, allBool = false, false, false
					break
				}
				v := r.env.resolve(r.r.Results[k])
				if !isNilConst(v) {
					allNil = false
				}
				if !(K.nonNil[v] || c02newsError(v)) {
					allNonNil = false
				}
				if cb, ok := constBool(v); ok {
					if n > 0 && cb != bval {
						allBool = false
					}
					bval = cb
				} else {
					allBool = false
				}
			}
			for _, rv := range c02results(lc.frames[j+1], k) {
				switch {
				case allBool:
					next.boolv[rv] = bval
				case allNil:
					next.isNil[rv] = true
				case allNonNil:
					next.nonNil[rv] = true
				}
			}
		}
		K = next
	}
}

// isOld: on the error path, value v of the function at level j is the old value of the loop-carried phi P.
func (lc *c02loopCtx) isOld(v ssa.Value, j int, P *ssa.Phi, depth int) bool {
	m := len(lc.frames) - 1
	if depth > 6 {
		return false
	}
	if j == m && (v == ssa.Value(P) || isErrFreeCarry(v, P)) {
		return true
	}
	if p, ok := v.(*ssa.Parameter); ok && j < m && p.Parent() == lc.frames[j].Parent() {
		cc := lc.frames[j+1].(*ssa.Call).Common()
		if k := c02paramIndex(p); k >= 0 && k < len(cc.Args) {
			return lc.isOld(cc.Args[k], j+1, P, depth+1)
		}
		return false
	}
	if j >= 1 {
		if k := c02resultIndex(v, lc.frames[j]); k >= 0 {
			w := lc.walks[j-1]
			if len(w.rets) == 0 {
				return false
			}
			for _, r := range w.rets {
				if k >= len(r.r.Results) || !lc.isOld(r.env.resolve(r.r.Results[k]), j-1, P, depth+1) {
					return false
				}
			}
			return true
		}
	}
	return false
}

// isErrFreeCarry: the edge value is another loop-carried phi of the same variable (select/case merges).
func isErrFreeCarry(e ssa.Value, phi *ssa.Phi) bool {
	if p, ok := e.(*ssa.Phi); ok && p.Comment == phi.Comment {
		for _, x := range p.Edges {
			if x != phi && x != p {
				return false
			}
		}
		return true
	}
	return false
}

// c02cmpOperands: the values v is compared with for (in)equality, in this function or in the repository helpers it
// is handed to (a helper's parameter is translated back to the argument at the call).
func c02cmpOperands(v ssa.Value, depth int, seen map[ssa.Value]bool) []ssa.Value {
	if v == nil || seen[v] || depth > 2 || v.Referrers() == nil {
		return nil
	}
	seen[v] = true
	var out []ssa.Value
	for _, r := range *v.Referrers() {
		switch y := r.(type) {
		case *ssa.BinOp:
			if y.Op != token.EQL && y.Op != token.NEQ {
				continue
			}
			other := y.X
			if other == v {
				other = y.Y
			}
			out = append(out, other)
		case *ssa.Phi:
			if p, ok := v.(*ssa.Phi); ok && y.Comment == p.Comment {
				out = append(out, c02cmpOperands(y, depth, seen)...)
			}
		case *ssa.Call:
			sc := y.Call.StaticCallee()
			if sc == nil || !isRepoFn(sc) || len(sc.Blocks) == 0 {
				continue
			}
			for k, a := range y.Call.Args {
				if a != v || k >= len(sc.Params) {
					continue
				}
				for _, o := range c02cmpOperands(sc.Params[k], depth+1, seen) {
					if p, ok := o.(*ssa.Parameter); ok && p.Parent() == sc {
						if pk := c02paramIndex(p); pk >= 0 && pk < len(y.Call.Args) {
							o = y.Call.Args[pk]
						}
					}
					out = append(out, o)
				}
			}
		}
	}
	return out
}

// c02flowsFrom: e is x, or what a repository helper returns from x, or a merge that includes it.
func c02flowsFrom(e, x ssa.Value, depth int, seen map[ssa.Value]bool) bool {
	if e == x {
		return true
	}
	if e == nil || depth > 3 || seen[e] {
		return false
	}
	seen[e] = true
	switch y := e.(type) {
	case *ssa.Phi:
		for _, ed := range y.Edges {
			if c02flowsFrom(ed, x, depth, seen) {
				return true
			}
		}
	case *ssa.Extract:
		if call, ok := y.Tuple.(*ssa.Call); ok {
			return c02returnFlows(call, y.Index, x, depth, seen)
		}
	case *ssa.Call:
		return c02returnFlows(y, 0, x, depth, seen)
	}
	return false
}

func c02returnFlows(call *ssa.Call, k int, x ssa.Value, depth int, seen map[ssa.Value]bool) bool {
	sc := call.Call.StaticCallee()
	if sc == nil || !isRepoFn(sc) || len(sc.Blocks) == 0 {
		return false
	}
	hit := false
	eachInstr(sc, func(i ssa.Instruction) {
		r, ok := i.(*ssa.Return)
		if !ok || k >= len(r.Results) || hit {
			return
		}
		v := r.Results[k]
		// a helper's parameter stands for the argument at this call
		if p, ok := x.(*ssa.Parameter); ok && p.Parent() == sc && v == x {
			hit = true
			return
		}
		if c02flowsFrom(v, x, depth+1, seen) {
			hit = true
			return
		}
		// x is the caller's argument for the parameter that is returned
		if p, ok := v.(*ssa.Parameter); ok && p.Parent() == sc {
			if pk := c02paramIndex(p); pk >= 0 && pk < len(call.Call.Args) && call.Call.Args[pk] == x {
				hit = true
			}
		}
	})
	return hit
}

func c02isString(t types.Type) bool {
	bt, ok := t.Underlying().(*types.Basic)
	return ok && bt.Kind() == types.String
}

// c02lastTexts: the loop-carried strings of lp that are compared with a candidate and receive it on some edge.
func c02lastTexts(lp *loop) []*ssa.Phi {
	var out []*ssa.Phi
	for _, in := range lp.Head.Instrs {
		phi, ok := in.(*ssa.Phi)
		if !ok {
			break
		}
		if !c02isString(phi.Type()) {
			continue
		}
		isLast := false
		for _, cand := range c02cmpOperands(phi, 0, map[ssa.Value]bool{}) {
			if !c02isString(cand.Type()) || isLast {
				continue
			}
			if _, isConst := cand.(*ssa.Const); isConst {
				continue
			}
			// an immutable snapshot: not a view made with package unsafe
			if derives(cand, func(o ssa.Value) bool {
				call, ok := o.(*ssa.Call)
				return ok && strings.HasPrefix(calleeName(&call.Call), "unsafe.")
			}) {
				continue
			}
			for _, e := range phi.Edges {
				if e != ssa.Value(phi) && c02flowsFrom(e, cand, 0, map[ssa.Value]bool{}) {
					isLast = true
				}
			}
		}
		if isLast {
			out = append(out, phi)
		}
	}
	return out
}

// ---- a last text that lives in memory ------------------------------------------------------------------------------

// c02cellKey names the memory cell addr designates when it can carry a text from one iteration of the loop to the
// next: a local variable that lives in memory (captured by a closure, address taken) or a struct field. nil otherwise.
func c02cellKey(addr ssa.Value, depth int) interface{} {
	switch a := addr.(type) {
	case *ssa.Alloc:
		return a
	case *ssa.FreeVar:
		fn := a.Parent()
		if fn == nil || fn.Parent() == nil || depth > 3 {
			return nil
		}
		idx := -1
		for k, fv := range fn.FreeVars {
			if fv == a {
				idx = k
			}
		}
		var key interface{}
		eachInstr(fn.Parent(), func(i ssa.Instruction) {
			if mc, ok := i.(*ssa.MakeClosure); ok && mc.Fn == ssa.Value(fn) && idx >= 0 && idx < len(mc.Bindings) && key == nil {
				key = c02cellKey(mc.Bindings[idx], depth+1)
			}
		})
		return key
	case *ssa.FieldAddr:
		if k := typeKey(a.X.Type()); k != "" {
			k = strings.TrimPrefix(k, repoMod+"/")
			if strings.HasPrefix(k, repoMod+".") {
				k = "main." + strings.TrimPrefix(k, repoMod+".")
			}
			return "field " + k + "." + fieldName(a.X.Type(), a.Field)
		}
	}
	return nil
}

func c02cellName(key interface{}) string {
	switch k := key.(type) {
	case *ssa.Alloc:
		return k.Comment
	case string:
		return strings.TrimPrefix(k, "field ")
	}
	return "?"
}

func c02sameCellLoad(a, b ssa.Value) bool {
	ua, ok1 := a.(*ssa.UnOp)
	ub, ok2 := b.(*ssa.UnOp)
	if !ok1 || !ok2 || ua.Op != token.MUL || ub.Op != token.MUL {
		return false
	}
	ka, kb := c02cellKey(ua.X, 0), c02cellKey(ub.X, 0)
	return ka != nil && ka == kb
}

// c02lastCells: the string cells, used in fns, whose content is compared with a candidate text and that are assigned
// this candidate somewhere: the last installed text when it is kept in a captured variable or in a field of a
// watcher structure instead of a loop-carried local.
func c02lastCells(fns []*ssa.Function) []interface{} {
	type info struct {
		cands  []ssa.Value // what loads of the cell are compared with
		stored []ssa.Value // what is stored into it
	}
	cells := map[interface{}]*info{}
	var order []interface{}
	get := func(k interface{}) *info {
		if cells[k] == nil {
			cells[k] = &info{}
			order = append(order, k)
		}
		return cells[k]
	}
	eachInstrOf(fns, func(f *ssa.Function, i ssa.Instruction) {
		switch y := i.(type) {
		case *ssa.UnOp:
			if y.Op != token.MUL || !c02isString(y.Type()) {
				return
			}
			k := c02cellKey(y.X, 0)
			if k == nil {
				return
			}
			for _, o := range c02cmpOperands(y, 0, map[ssa.Value]bool{}) {
				if _, isConst := o.(*ssa.Const); !isConst && c02isString(o.Type()) {
					get(k).cands = append(get(k).cands, o)
				}
			}
		case *ssa.Store:
			if !c02isString(y.Val.Type()) {
				return
			}
			if k := c02cellKey(y.Addr, 0); k != nil {
				get(k).stored = append(get(k).stored, y.Val)
			}
		}
	})
	var out []interface{}
	for _, k := range order {
		in := cells[k]
		hit := false
		for _, cand := range in.cands {
			if c02sameCellLoad(cand, cand) && c02cellKey(cand.(*ssa.UnOp).X, 0) == k {
				continue // compared with itself
			}
			for _, e := range in.stored {
				if c02flowsFrom(e, cand, 0, map[ssa.Value]bool{}) || c02sameCellLoad(e, cand) {
					hit = true
				}
			}
		}
		if hit {
			out = append(out, k)
		}
	}
	return out
}

// c02storesTo: the stores in fn (not in its callees) to the cell, other than writing back its own content.
func c02storesTo(stores []*ssa.Store, key interface{}) []*ssa.Store {
	var out []*ssa.Store
	for _, st := range stores {
		if c02cellKey(st.Addr, 0) != key {
			continue
		}
		if u, ok := st.Val.(*ssa.UnOp); ok && u.Op == token.MUL && c02cellKey(u.X, 0) == key {
			continue
		}
		out = append(out, st)
	}
	return out
}

func runC02L4(c *Ctx, x *c02pubs) {
	if x.text == nil || x.holder == nil {
		c.undecided("C02.L4", "anchor|update loop", "the text constructor route.NewTable or the table holder was not found")
		return
	}
	// constructor calls from which a published table derives
	var c0s []*ssa.Call
	seen := map[*ssa.Call]bool{}
	for _, s := range x.sites {
		if s.forwarded || x.initLike(s.fn, 0) {
			continue
		}
		derives(s.val, func(o ssa.Value) bool {
			if call, ok := o.(*ssa.Call); ok && call.Call.StaticCallee() == x.text && !seen[call] {
				seen[call] = true
				c0s = append(c0s, call)
			}
			return false
		})
	}
	nCtx := 0
	for _, c0 := range c0s {
		ctxs := x.loopContexts(c0)
		if len(ctxs) == 0 {
			c.check("C02.L4", fnKey(c0.Parent())+"|NewTable in the update loop", c0.Pos(), false, "the table constructor whose result is installed is not called inside an update loop (directly or through statically called helpers)")
			continue
		}
		for _, lc := range ctxs {
			nCtx++
			lc.run()
			F := lc.frames[len(lc.frames)-1].Parent()
			key := fnKey(F)
			outer := lc.walks[len(lc.walks)-1]
			// L4a: the loop goes on
			var bad []string
			pos := c0.Pos()
			pruned := 0
			for _, w := range lc.walks {
				pruned += w.pruned
				for _, e := range w.exits {
					what := "panics"
					if cc := callCommon(e); cc != nil {
						what = "calls " + calleeName(cc)
					}
					bad = append(bad, what+" in "+fnKey(w.fn))
					pos = e.Pos()
				}
			}
			for _, l := range outer.leaves {
				bad = append(bad, "leaves the loop")
				pos = l.Pos()
			}
			c.check("C02.L4", key+"|constructor error keeps the loop running", pos, len(bad) == 0,
				"on the error edge of NewTable the update loop must go on (continue): leaving the loop or exiting means the next valid configuration is never applied "+strings.Join(bad, ", "))
			c.check("C02.L4", key+"|constructor error examined", c0.Pos(), pruned > 0, "the error of NewTable is not examined between the call and the next iteration of the update loop")
			// L4c: the last installed text
			lasts := c02lastTexts(lc.lp)
			var cells []interface{}
			if len(lasts) == 0 {
				fns := c.region(F)
				inFns := map[*ssa.Function]bool{}
				for _, f := range fns {
					inFns[f] = true
				}
				for _, fr := range lc.frames {
					if !inFns[fr.Parent()] {
						inFns[fr.Parent()] = true
						fns = append(fns, fr.Parent())
					}
				}
				cells = c02lastCells(fns)
			}
			c.check("C02.L4", key+"|last installed text is an immutable snapshot compared with the candidate", c0.Pos(), len(lasts)+len(cells) > 0,
				"the update loop must remember the text of the last installed table as a string (tableBuffer.String()) and compare the candidate with it; a byte-slice view of the reused buffer aliases the candidate, so a later valid configuration of the same length compares equal and is never applied")
			// L4b: the error path does not advance it
			m := len(lc.frames) - 1
			for _, P := range lasts {
				ok := true
				bpos := c0.Pos()
				for _, bk := range outer.backs {
					pi := -1
					for k, pp := range lc.lp.Head.Preds {
						if pp == bk.pred {
							pi = k
						}
					}
					if pi < 0 || pi >= len(P.Edges) {
						continue
					}
					in := bk.env.resolve(P.Edges[pi])
					if !lc.isOld(in, m, P, 0) {
						ok = false
						bpos = bk.pred.Instrs[len(bk.pred.Instrs)-1].Pos()
					}
				}
				c.check("C02.L4", key+"|error edge does not advance "+P.Comment, bpos, ok,
					"on the error edge the loop-carried text "+P.Comment+" must keep its value: if the rejected text is remembered as installed, re-sending the same (later valid) text is skipped as 'unchanged'")
			}
			for _, cell := range cells {
				ok := true
				bpos := c0.Pos()
				for _, w := range lc.walks {
					for _, st := range c02storesTo(w.stores, cell) {
						ok, bpos = false, st.Pos()
					}
					for _, call := range w.calls {
						var inner []*ssa.Store
						eachInstr(unwrap(call.Call.StaticCallee()), func(i ssa.Instruction) {
							if st, isSt := i.(*ssa.Store); isSt {
								inner = append(inner, st)
							}
						})
						if _, isField := cell.(string); isField && len(c02storesTo(inner, cell)) > 0 {
							ok, bpos = false, call.Pos()
						}
					}
				}
				c.check("C02.L4", key+"|error edge does not advance "+c02cellName(cell), bpos, ok,
					"on the error edge the remembered text "+c02cellName(cell)+" must keep its value: if the rejected text is remembered as installed, re-sending the same (later valid) text is skipped as 'unchanged'")
			}
		}
	}
	c.atLeast("C02.L4", "update loops around a NewTable call whose result is installed", nCtx, 1)
}
