package main

import (
	"go/token"
	"go/types"
	"strings"

	"golang.org/x/tools/go/ssa"
)

// ---- sorts, whatever their spelling -------------------------------------------------------------------------------

// c03SortBase strips what the sort APIs wrap around the slice: interface boxes, sort.Reverse, conversions to
// sort.StringSlice or another slice type, re-slicing. rev counts the sort.Reverse wrappers; strSlice says that the
// ordering is sort.StringSlice's (natural ascending).
func c03SortBase(v ssa.Value) (base ssa.Value, rev int, strSlice bool) {
	for {
		switch x := v.(type) {
		case *ssa.MakeInterface:
			v = x.X
		case *ssa.ChangeInterface:
			v = x.X
		case *ssa.ChangeType:
			if namedIs(x.Type(), "sort.StringSlice") {
				strSlice = true
			}
			v = x.X
		case *ssa.Convert:
			v = x.X
		case *ssa.Call:
			if c03Name(&x.Call) == "sort.Reverse" && len(x.Call.Args) == 1 {
				rev++
				v = x.Call.Args[0]
				continue
			}
			return v, rev, strSlice
		default:
			return v, rev, strSlice
		}
	}
}

type c03sortInfo struct {
	list     ssa.Value // the slice sorted, wrappers stripped
	cmp      ssa.Value // comparison function, if any
	lessKind bool      // cmp is a less(i, j) bool (sort.Slice); otherwise a three-way cmp(a, b) int
	natural  bool      // natural ascending order of the element type (before rev)
	rev      int
}

// c03SortCall classifies a call of one of the standard library's sorts.
func c03SortCall(i ssa.Instruction) (c03sortInfo, bool) {
	call, ok := i.(*ssa.Call)
	if !ok || call.Call.IsInvoke() || len(call.Call.Args) == 0 {
		return c03sortInfo{}, false
	}
	var s c03sortInfo
	args := call.Call.Args
	switch c03Name(&call.Call) {
	case "sort.Sort", "sort.Stable":
		var ss bool
		s.list, s.rev, ss = c03SortBase(args[0])
		s.natural = ss || namedIs(s.list.Type(), "sort.StringSlice")
	case "sort.Strings", "slices.Sort":
		s.list, _, _ = c03SortBase(args[0])
		s.natural = true
	case "sort.Slice", "sort.SliceStable":
		s.list, _, _ = c03SortBase(args[0])
		if len(args) > 1 {
			s.cmp, s.lessKind = args[1], true
		}
	case "slices.SortFunc", "slices.SortStableFunc":
		s.list, _, _ = c03SortBase(args[0])
		if len(args) > 1 {
			s.cmp = args[1]
		}
	default:
		return c03sortInfo{}, false
	}
	return s, s.list != nil
}

// c03ParamOf: the single parameter of fn that v is computed from (-1: none or several).
func c03ParamOf(fn *ssa.Function, v ssa.Value) int {
	found := map[int]bool{}
	seen := map[ssa.Value]bool{}
	var walk func(x ssa.Value, d int)
	walk = func(x ssa.Value, d int) {
		if x == nil || seen[x] || d > 10 {
			return
		}
		seen[x] = true
		if p, ok := x.(*ssa.Parameter); ok {
			for k, q := range fn.Params {
				if q == p {
					found[k] = true
				}
			}
			return
		}
		if in, ok := x.(ssa.Instruction); ok {
			for _, op := range in.Operands(nil) {
				if op != nil && *op != nil {
					walk(*op, d+1)
				}
			}
		}
	}
	walk(v, 0)
	if len(found) != 1 {
		return -1
	}
	for k := range found {
		return k
	}
	return -1
}

// c03CmpDir: direction of a comparison function: +1 descending, -1 ascending, 0 not determined.
func c03CmpDir(cmp ssa.Value, lessKind bool) int {
	fns := funcsOf(cmp)
	if len(fns) != 1 {
		return 0
	}
	fn := fns[0]
	if len(fn.Blocks) == 0 {
		// a library function handed over directly
		if n := fn.String(); !lessKind && (n == "strings.Compare" || strings.HasPrefix(n, "cmp.Compare")) {
			return -1
		}
		return 0
	}
	if len(fn.Params) != 2 {
		return 0
	}
	dir, n := 0, 0
	merge := func(d int) {
		n++
		if n == 1 {
			dir = d
		} else if dir != d {
			dir = 0
		}
	}
	var ofValue func(v ssa.Value, sign int, d int)
	ofValue = func(v ssa.Value, sign int, d int) {
		if d > 4 {
			merge(0)
			return
		}
		switch x := v.(type) {
		case *ssa.BinOp:
			px, py := c03ParamOf(fn, x.X), c03ParamOf(fn, x.Y)
			asc := 0
			switch x.Op {
			case token.LSS, token.LEQ:
				asc = 1
			case token.GTR, token.GEQ:
				asc = -1
			}
			if !lessKind || asc == 0 || px < 0 || py < 0 || px == py {
				merge(0)
				return
			}
			if px > py {
				asc = -asc
			}
			merge(-asc * sign)
		case *ssa.UnOp:
			if x.Op == token.SUB {
				ofValue(x.X, -sign, d+1)
				return
			}
			merge(0)
		case *ssa.Call:
			n := c03Name(&x.Call)
			if !lessKind && (n == "strings.Compare" || n == "cmp.Compare") && len(x.Call.Args) == 2 {
				px, py := c03ParamOf(fn, x.Call.Args[0]), c03ParamOf(fn, x.Call.Args[1])
				if px < 0 || py < 0 || px == py {
					merge(0)
					return
				}
				if px < py {
					merge(-1 * sign)
				} else {
					merge(1 * sign)
				}
				return
			}
			merge(0)
		default:
			merge(0)
		}
	}
	eachInstr(fn, func(i ssa.Instruction) {
		if r, ok := i.(*ssa.Return); ok && len(r.Results) == 1 {
			ofValue(r.Results[0], 1, 0)
		}
	})
	return dir
}

// c03SortDir: direction in which a sort of strings orders them: +1 descending, -1 ascending, 0 not determined.
func c03SortDir(i ssa.Instruction, s c03sortInfo) int {
	dir := 0
	switch {
	case s.natural:
		dir = -1
	case s.cmp != nil:
		dir = c03CmpDir(s.cmp, s.lessKind)
	}
	if s.rev%2 == 1 {
		dir = -dir
	}
	if dir == -1 {
		// ascending, then the whole slice turned round
		eachInstr(i.Parent(), func(j ssa.Instruction) {
			if cc := callCommon(j); cc != nil && c03Name(cc) == "slices.Reverse" && len(cc.Args) == 1 && dominatesInstr(i, j) {
				if b, _, _ := c03SortBase(cc.Args[0]); c03SameList(b, s.list) {
					dir = 1
				}
			}
		})
	}
	return dir
}

func c03ListBase(v ssa.Value) ssa.Value {
	for {
		switch x := v.(type) {
		case *ssa.ChangeType:
			v = x.X
		case *ssa.Convert:
			v = x.X
		case *ssa.Slice:
			v = x.X
		case *ssa.MakeInterface:
			v = x.X
		default:
			return v
		}
	}
}

func c03SameList(a, b ssa.Value) bool {
	a, b = c03ListBase(a), c03ListBase(b)
	if a == b {
		return true
	}
	// two loads of the same local cell
	if ua, ok := a.(*ssa.UnOp); ok && ua.Op == token.MUL {
		if ub, ok := b.(*ssa.UnOp); ok && ub.Op == token.MUL && ua.X == ub.X {
			return true
		}
	}
	return false
}

// ---- the host reverser and the specificity sort -------------------------------------------------------------------

// c03IsReverser: a repository function string -> string that turns its argument round: it converts the string to
// runes or bytes and either calls slices.Reverse or swaps elements in a loop. route.ReverseHostPort (exported API)
// is accepted by name.
func c03IsReverser(f *ssa.Function) bool {
	if f == nil || !isRepoFn(f) || len(f.Blocks) == 0 || f.Parent() != nil {
		return false
	}
	sig := f.Signature
	if sig.Params().Len() < 1 || sig.Results().Len() != 1 || !c03IsString(sig.Params().At(0).Type()) || !c03IsString(sig.Results().At(0).Type()) {
		return false
	}
	if f.Name() == "ReverseHostPort" && f.Pkg != nil && f.Pkg.Pkg.Name() == "route" {
		return true
	}
	return c03ReversalEvidence(f)
}

// c03ReversalEvidence: f (or a closure of it) turns a string round: converts it to runes/bytes and calls
// slices.Reverse or swaps elements in a loop.
func c03ReversalEvidence(f *ssa.Function) bool {
	conv, rev, swaps := false, false, 0
	for _, g := range withAnon(f) {
		loops := loopsOf(g)
		eachInstr(g, func(i ssa.Instruction) {
			switch x := i.(type) {
			case *ssa.Convert:
				if c03IsString(x.X.Type()) {
					if sl, ok := x.Type().Underlying().(*types.Slice); ok && !c03IsString(sl.Elem()) {
						conv = true
					}
				}
			case *ssa.Store:
				if ia, ok := x.Addr.(*ssa.IndexAddr); ok && !c03IsStringSlice(ia.X.Type()) {
					for _, l := range loops {
						if l.Body[x.Block()] {
							swaps++
							break
						}
					}
				}
			default:
				if cc := callCommon(i); cc != nil && c03Name(cc) == "slices.Reverse" && len(cc.Args) == 1 && !c03IsStringSlice(cc.Args[0].Type()) {
					rev = true
				}
			}
		})
	}
	return conv && (rev || swaps >= 2)
}

// c03AppliesReverser: one of fns calls a reverser (directly, or through a repository helper one level down).
func c03AppliesReverser(fns []*ssa.Function) bool {
	hit := false
	eachInstrOf(fns, func(_ *ssa.Function, i ssa.Instruction) {
		cc := callCommon(i)
		if cc == nil || hit {
			return
		}
		sc := cc.StaticCallee()
		if sc == nil || !isRepoFn(sc) {
			return
		}
		if c03IsReverser(sc) {
			hit = true
			return
		}
		eachInstr(sc, func(j ssa.Instruction) {
			if c2 := callCommon(j); c2 != nil && c2.StaticCallee() != nil && c03IsReverser(c2.StaticCallee()) {
				hit = true
			}
		})
	})
	return hit
}

type c03sorter struct {
	sorts    bool // sorts a []string
	reverses bool // applies the host reverser
	dir      int  // direction of its string sorts (+1 descending, -1 ascending, 0 not determined)
	pos      token.Pos
}

// c03Sorter: what function g does about ordering a host list: the sorts are its own (or its closures'), the reverser
// may be applied in a same-package helper it calls.
func c03Sorter(c *Ctx, g *ssa.Function) c03sorter {
	var out c03sorter
	fns := c.regionDepth(2, g)
	asc, desc := false, false
	eachInstrOf(withAnon(g), func(_ *ssa.Function, i ssa.Instruction) {
		s, ok := c03SortCall(i)
		if !ok || !c03IsStringSlice(s.list.Type()) {
			return
		}
		out.sorts = true
		if out.pos == token.NoPos {
			out.pos = i.Pos()
		}
		switch c03SortDir(i, s) {
		case 1:
			desc = true
		case -1:
			asc = true
		}
	})
	switch {
	case desc:
		out.dir = 1
	case asc:
		out.dir = -1
	}
	out.reverses = out.sorts && (c03AppliesReverser(fns) || c03ReversalEvidence(g))
	return out
}

// ---- O2: the host list tried by Lookup is specificity-sorted on every path ----------------------------------------

type c03sortCk struct {
	c        *Ctx
	seen     map[ssa.Value]bool
	stack    []ssa.CallInstruction
	okLeaves int
}

const c03O2Detail = "the matching host keys come out of a map range in random order; they must go through the reverse-host sort (reverse every name, sort descending, reverse again) so that an exact host is tried before a wildcard and a longer suffix before a shorter one"

func (s *c03sortCk) leaf(fn *ssa.Function, pos token.Pos, so c03sorter) {
	switch {
	case !so.reverses:
		s.fail(fn, pos, "the list is sorted, but not by reversed host name: ")
	case so.dir == -1:
		s.c.check("C03.O2", fnKey(fn)+"|most specific host first (descending reversed-name order)", so.pos, false,
			"the reversed host names are sorted in ascending order: the shortest suffix / the wildcard comes first and shadows the more specific host. "+c03O2Detail)
	default:
		s.okLeaves++
		s.c.check("C03.O2", fnKey(fn)+"|matching hosts returned most specific first", pos, true, c03O2Detail)
	}
}

func (s *c03sortCk) fail(fn *ssa.Function, pos token.Pos, why string) {
	s.c.check("C03.O2", fnKey(fn)+"|matching hosts returned most specific first", pos, false, why+c03O2Detail)
}

// sortedInPlace: a sort of (an alias of) v that executes before `at` on every path: a standard-library sort in a
// function that applies the reverser, or a call of a repository function that is a specificity sort.
func (s *c03sortCk) sortedInPlace(v ssa.Value, at ssa.Instruction) (c03sorter, token.Pos, bool) {
	f := at.Parent()
	var res c03sorter
	var pos token.Pos
	found := false
	eachInstr(f, func(j ssa.Instruction) {
		if found || j == at || !dominatesInstr(j, at) {
			return
		}
		if si, ok := c03SortCall(j); ok && c03IsStringSlice(si.list.Type()) && c03SameList(si.list, v) {
			res, pos, found = c03Sorter(s.c, f), j.Pos(), true
			res.dir = c03SortDir(j, si)
			return
		}
		if call, ok := j.(*ssa.Call); ok {
			if sc := call.Call.StaticCallee(); sc != nil && isRepoFn(sc) && len(sc.Blocks) > 0 {
				for _, a := range call.Call.Args {
					if c03IsStringSlice(a.Type()) && c03SameList(a, v) {
						if so := c03Sorter(s.c, sc); so.sorts {
							res, pos, found = so, j.Pos(), true
							res.reverses = res.reverses || c03AppliesReverser(s.c.regionDepth(2, f)) || c03ReversalEvidence(f)
						}
					}
				}
			}
		}
	})
	return res, pos, found
}

// shortList: `at` executes only when a list is known to have fewer than two elements (nothing to sort).
func c03ShortList(at ssa.Instruction) bool {
	for _, ft := range factsAt(at.Block()) {
		bo, ok := ft.Cond.(*ssa.BinOp)
		if !ok {
			continue
		}
		call, ok := bo.X.(*ssa.Call)
		if !ok || calleeName(&call.Call) != "builtin.len" {
			continue
		}
		k, ok := constInt(bo.Y)
		if !ok {
			continue
		}
		op, truth := bo.Op, ft.Truth
		switch {
		case truth && op == token.LSS && k <= 2, truth && op == token.LEQ && k <= 1, truth && op == token.EQL && k <= 1,
			!truth && op == token.GEQ && k <= 2, !truth && op == token.GTR && k <= 1:
			return true
		}
	}
	return false
}

func (s *c03sortCk) check(v ssa.Value, at ssa.Instruction, d int) {
	if v == nil || isNilConst(v) {
		return
	}
	if d > 14 {
		if at != nil {
			s.fail(at.Parent(), at.Pos(), "")
		}
		return
	}
	if at != nil {
		if so, pos, ok := s.sortedInPlace(v, at); ok {
			s.leaf(at.Parent(), pos, so)
			return
		}
		if _, isRet := at.(*ssa.Return); isRet && c03ShortList(at) {
			return
		}
	}
	if s.seen[v] {
		return
	}
	s.seen[v] = true
	// a list remembered in a memo (sync.Map / map / cache) is as sorted as the lists the repository puts there; whether
	// the memo may be used at all (its key) is rule M1's business (c03_round4.go)
	if cell, _, _, isMemo := c03MemoLoadOf(v); isMemo {
		if vals, ats := c03MemoStores(s.c, cell); len(vals) > 0 {
			saved := s.stack
			s.stack = nil
			for k := range vals {
				s.check(vals[k], ats[k], d+1)
			}
			s.stack = saved
			return
		}
	}
	viaCall := func(call *ssa.Call, idx int) {
		sc := call.Call.StaticCallee()
		if sc == nil || !isRepoFn(sc) || len(sc.Blocks) == 0 {
			s.fail(call.Parent(), call.Pos(), "")
			return
		}
		if so := c03Sorter(s.c, sc); so.sorts {
			s.leaf(call.Parent(), call.Pos(), so)
			return
		}
		s.stack = append(s.stack, call)
		defer func() { s.stack = s.stack[:len(s.stack)-1] }()
		eachInstr(sc, func(i ssa.Instruction) {
			if r, ok := i.(*ssa.Return); ok && idx < len(r.Results) {
				if r.Block() == sc.Recover && !c03Recovers(sc) {
					return // the return after a recovered panic, in a function whose deferred calls never recover
				}
				s.check(r.Results[idx], r, d+1)
			}
		})
	}
	switch x := v.(type) {
	case *ssa.Phi:
		for k, e := range x.Edges {
			p := x.Block().Preds[k]
			s.check(e, p.Instrs[len(p.Instrs)-1], d+1)
		}
	case *ssa.Slice:
		s.check(x.X, at, d+1)
	case *ssa.ChangeType:
		s.check(x.X, at, d+1)
	case *ssa.Extract:
		if call, ok := x.Tuple.(*ssa.Call); ok {
			viaCall(call, x.Index)
			return
		}
		s.fail(at.Parent(), at.Pos(), "")
	case *ssa.Call:
		switch n := c03Name(&x.Call); {
		case n == "builtin.append" && len(x.Call.Args) == 2 && c03EmptyList(x.Call.Args[0]) && c03IsStringSlice(x.Call.Args[1].Type()) && !c03FreshArray(x.Call.Args[1]):
			// a copy: append(make([]string, 0, n), sorted...)
			s.check(x.Call.Args[1], x, d+1)
		case n == "slices.Clone" && len(x.Call.Args) == 1:
			s.check(x.Call.Args[0], x, d+1)
		case strings.HasPrefix(n, "builtin."):
			s.fail(x.Parent(), x.Pos(), "")
		default:
			viaCall(x, 0)
		}
	case *ssa.UnOp:
		if a, ok := x.X.(*ssa.Alloc); ok && x.Op == token.MUL {
			// the value of a local cell (a named result captured by a deferred closure, a variable whose address is
			// taken) at this load: what the stores that reach the load put there, not every store of the function
			for _, st := range c03ReachingStores(a, x) {
				s.check(st.Val, st, d+1)
			}
			return
		}
		if x.Op == token.MUL && c03stateAddr(x.X) {
			// a remembered list (package-level variable, field of a long-lived object): as sorted as what is stored there
			if id := c03CellID(x.X); id != "" {
				n := 0
				saved := s.stack
				s.stack = nil
				for _, f := range s.c.AllFns {
					eachInstr(f, func(i ssa.Instruction) {
						if st, ok := i.(*ssa.Store); ok && c03CellID(st.Addr) == id && !isNilConst(st.Val) {
							n++
							s.check(st.Val, st, d+1)
						}
					})
				}
				s.stack = saved
				if n > 0 {
					return
				}
			}
		}
		s.fail(x.Parent(), x.Pos(), "")
	case *ssa.Parameter:
		fn := x.Parent()
		idx := -1
		for k, p := range fn.Params {
			if p == x {
				idx = k
			}
		}
		if n := len(s.stack); n > 0 && s.stack[n-1].Common().StaticCallee() == fn && idx >= 0 && idx < len(s.stack[n-1].Common().Args) {
			top := s.stack[n-1]
			s.stack = s.stack[:n-1]
			s.check(top.Common().Args[idx], top, d+1)
			s.stack = append(s.stack, top)
			return
		}
		if len(s.stack) == 0 && c03SitesComplete(fn) && len(gSites[fn]) > 0 && idx >= 0 {
			for _, site := range gSites[fn] {
				if idx < len(site.Common().Args) {
					s.check(site.Common().Args[idx], site, d+1)
				}
			}
			return
		}
		s.fail(fn, fn.Pos(), "")
	default:
		pos := v.Pos()
		var fn *ssa.Function
		if at != nil {
			fn = at.Parent()
			if pos == token.NoPos {
				pos = at.Pos()
			}
		}
		s.fail(fn, pos, "")
	}
}

// c03EmptyList: a slice without elements (nil, make([]T, 0, n), x[:0]).
func c03EmptyList(v ssa.Value) bool {
	switch x := v.(type) {
	case *ssa.Const:
		return x.Value == nil
	case *ssa.MakeSlice:
		n, ok := constInt(x.Len)
		return ok && n == 0
	case *ssa.Slice:
		if x.High != nil {
			n, ok := constInt(x.High)
			return ok && n == 0
		}
	}
	return false
}

// c03FreshArray: the variadic part of append(x, a, b): a slice of a new array.
func c03FreshArray(v ssa.Value) bool {
	sl, ok := v.(*ssa.Slice)
	if !ok {
		return false
	}
	_, ok = sl.X.(*ssa.Alloc)
	return ok
}

// c03Recovers: a deferred call of f (a closure it defers, or a function deferred by name) calls recover().
func c03Recovers(f *ssa.Function) bool {
	hit := false
	eachInstr(f, func(i ssa.Instruction) {
		d, ok := i.(*ssa.Defer)
		if !ok {
			return
		}
		var fns []*ssa.Function
		if sc := d.Call.StaticCallee(); sc != nil {
			fns = append(fns, sc)
		} else if !d.Call.IsInvoke() {
			fns = funcsOf(d.Call.Value)
		}
		if len(fns) == 0 {
			hit = true // unknown deferred function: may recover
		}
		for _, g := range fns {
			if len(g.Blocks) == 0 {
				continue
			}
			for _, h := range withAnon(g) {
				eachInstr(h, func(j ssa.Instruction) {
					if cc := callCommon(j); cc != nil && calleeName(cc) == "builtin.recover" {
						hit = true
					}
				})
			}
		}
	})
	return hit
}

// c03ReachingStores: the stores into local cell a that a load at `at` can observe: on every backward path from the
// load the nearest store. Stores made by closures that captured the cell are added wholesale (they can run at any
// call in between).
func c03ReachingStores(a *ssa.Alloc, at ssa.Instruction) []*ssa.Store {
	var out []*ssa.Store
	seenStore := map[*ssa.Store]bool{}
	add := func(st *ssa.Store) {
		if !seenStore[st] {
			seenStore[st] = true
			out = append(out, st)
		}
	}
	type item struct {
		b    *ssa.BasicBlock
		from int // scan instructions from-1 down to 0
	}
	seen := map[*ssa.BasicBlock]bool{}
	stack := []item{{at.Block(), instrIndex(at)}}
	for len(stack) > 0 {
		it := stack[len(stack)-1]
		stack = stack[:len(stack)-1]
		found := false
		for k := it.from - 1; k >= 0 && k < len(it.b.Instrs); k-- {
			if st, ok := it.b.Instrs[k].(*ssa.Store); ok && st.Addr == ssa.Value(a) {
				add(st)
				found = true
				break
			}
		}
		if found {
			continue
		}
		for _, p := range it.b.Preds {
			if !seen[p] {
				seen[p] = true
				stack = append(stack, item{p, len(p.Instrs)})
			}
		}
	}
	// stores through a captured reference
	for _, ref := range *a.Referrers() {
		mc, ok := ref.(*ssa.MakeClosure)
		if !ok {
			continue
		}
		fn, _ := mc.Fn.(*ssa.Function)
		if fn == nil {
			continue
		}
		for k, b := range mc.Bindings {
			if b != ssa.Value(a) || k >= len(fn.FreeVars) {
				continue
			}
			fv := fn.FreeVars[k]
			eachInstr(fn, func(i ssa.Instruction) {
				if st, ok := i.(*ssa.Store); ok && st.Addr == ssa.Value(fv) {
					add(st)
				}
			})
		}
	}
	return out
}
