package main

// Call frames, function values that travel through parameters and struct fields, values that travel through struct
// fields (C18, hardening round 2).
//
// A step of a shutdown sequence may be handed around as a value: a callback parameter (`closeAfter(wait func())`), a
// small interface (`type waiter interface{ wait() }`), a field of a small struct with methods (`exitHandler{grace: ...}`,
// `stopper{wait: func() {...}}`). The rules of C18 reason about such code in FRAMES: a function together with the call
// site through which it was reached from the entry the rule starts at, so that a dynamically called parameter resolves
// to what THIS caller passed (tcp.Server.Close passes a no-op, tcp.Server.Shutdown passes the wait on ctx.Done()).

import (
	"go/token"
	"go/types"

	"golang.org/x/tools/go/ssa"
)

// c18Cur: the program the rules currently run on (set by c18Use at the start of every C18 rule); needed by the
// helpers that have to look at all functions (stores into a struct field).
var c18Cur struct {
	c      *Ctx
	stores map[*types.Var][]ssa.Value // field -> the values stored into it anywhere in the repository
}

func c18Use(c *Ctx) {
	if c18Cur.c == c {
		return
	}
	c18Cur.c = c
	c18Cur.stores = map[*types.Var][]ssa.Value{}
	for _, f := range c.AllFns {
		eachInstr(f, func(i ssa.Instruction) {
			st, ok := i.(*ssa.Store)
			if !ok {
				return
			}
			if fa, ok := st.Addr.(*ssa.FieldAddr); ok {
				if fv := c18StructField(fa.X.Type(), fa.Field); fv != nil {
					c18Cur.stores[fv] = append(c18Cur.stores[fv], st.Val)
				}
			}
		})
	}
}

// c18StructField: field idx of the struct type t (or *t).
func c18StructField(t types.Type, idx int) *types.Var {
	if p, ok := t.Underlying().(*types.Pointer); ok {
		t = p.Elem()
	}
	st, ok := t.Underlying().(*types.Struct)
	if !ok || idx < 0 || idx >= st.NumFields() {
		return nil
	}
	return st.Field(idx)
}

// c18FieldVarOf: the struct field v is a load of (or the address of); nil when v is no field access.
func c18FieldVarOf(v ssa.Value) *types.Var {
	switch x := v.(type) {
	case *ssa.UnOp:
		if x.Op == token.MUL {
			if fa, ok := x.X.(*ssa.FieldAddr); ok {
				return c18StructField(fa.X.Type(), fa.Field)
			}
		}
	case *ssa.FieldAddr:
		return c18StructField(x.X.Type(), x.Field)
	case *ssa.Field:
		return c18StructField(x.X.Type(), x.Field)
	}
	return nil
}

// c18FieldBase: the struct value / pointer whose field v accesses.
func c18FieldBase(v ssa.Value) ssa.Value {
	switch x := v.(type) {
	case *ssa.UnOp:
		if fa, ok := x.X.(*ssa.FieldAddr); ok && x.Op == token.MUL {
			return fa.X
		}
	case *ssa.FieldAddr:
		return x.X
	case *ssa.Field:
		return x.X
	}
	return nil
}

// c18FieldStores: the values stored anywhere in the repository into the field that v loads, when the struct is not a
// local of the loading function (the shared derives follows the stores into a local struct itself).
func c18FieldStores(v ssa.Value) []ssa.Value {
	if _, isAddr := v.(*ssa.FieldAddr); isAddr {
		return nil // an address, not a load
	}
	fv := c18FieldVarOf(v)
	if fv == nil || c18Cur.stores == nil {
		return nil
	}
	if a, local := c18FieldBase(v).(*ssa.Alloc); local {
		// a local struct filled field by field: the shared derives follows those stores; a local that is a copy of
		// a struct built elsewhere (a value receiver spilled to the stack) is like any other struct
		for _, r := range *a.Referrers() {
			if fa, ok := r.(*ssa.FieldAddr); ok && c18StructField(fa.X.Type(), fa.Field) == fv {
				for _, r2 := range *fa.Referrers() {
					if st, ok := r2.(*ssa.Store); ok && st.Addr == fa {
						return nil
					}
				}
			}
		}
	}
	return c18Cur.stores[fv]
}

// c18Derives: the shared derives, which in addition follows a value through a struct field: a load of field F of a
// struct that is not a local derives from whatever is stored into F anywhere in the repository (field-sensitive,
// object-insensitive). `h.grace` in a method of exitHandler derives from cfg.Proxy.DeregisterGracePeriod when
// `&exitHandler{grace: cfg.Proxy.DeregisterGracePeriod}` is the only place that fills it.
func c18Derives(v ssa.Value, pred func(ssa.Value) bool) bool {
	seen := map[*types.Var]bool{}
	var ext func(x ssa.Value) bool
	ext = func(x ssa.Value) bool {
		if pred(x) {
			return true
		}
		vals := c18FieldStores(x)
		if len(vals) == 0 {
			return false
		}
		fv := c18FieldVarOf(x)
		if seen[fv] {
			return false
		}
		seen[fv] = true
		for _, s := range vals {
			if derives(s, ext) {
				return true
			}
		}
		return false
	}
	return derives(v, ext)
}

// c18FuncsOf: the repository functions a function-typed value may denote. The shared funcsOf (closure, named function,
// method value, captured variable, result of a helper) extended by
//   - a parameter: what the static call sites of its function pass (context-insensitive; frames do it per call site),
//   - a field of a struct that is not a local: what is stored into that field anywhere in the repository.
func c18FuncsOf(v ssa.Value) []*ssa.Function {
	var repo []*ssa.Function
	for _, f := range c18FuncsOfAny(v) {
		if isRepoFn(f) && len(f.Blocks) > 0 {
			repo = append(repo, f)
		}
	}
	return repo
}

// c18FuncsOfAny: like c18FuncsOf, library functions included.
func c18FuncsOfAny(v ssa.Value) []*ssa.Function {
	var out []*ssa.Function
	seenV := map[ssa.Value]bool{}
	add := func(fs []*ssa.Function) {
		for _, f := range fs {
			f = unwrap(f)
			if !containsFn(out, f) {
				out = append(out, f)
			}
		}
	}
	var walk func(x ssa.Value, d int)
	walk = func(x ssa.Value, d int) {
		if x == nil || seenV[x] || d > 5 {
			return
		}
		seenV[x] = true
		add(funcsOf(x))
		switch y := x.(type) {
		case *ssa.Parameter:
			fn := y.Parent()
			if fn == nil || len(gSites[fn]) > maxHelperSites {
				return
			}
			idx := -1
			for k, p := range fn.Params {
				if p == y {
					idx = k
				}
			}
			for _, s := range gSites[fn] {
				cc := s.Common()
				if k := idx - (len(fn.Params) - len(cc.Args)); k >= 0 && k < len(cc.Args) {
					walk(cc.Args[k], d+1)
				}
			}
		case *ssa.Phi:
			for _, e := range y.Edges {
				walk(e, d+1)
			}
		case *ssa.ChangeType:
			walk(y.X, d+1)
		case *ssa.UnOp:
			if y.Op != token.MUL {
				return
			}
			for _, s := range c18FieldStores(y) {
				walk(s, d+1)
			}
			if fv, ok := y.X.(*ssa.FreeVar); ok {
				walk(fv, d+1)
			}
		case *ssa.Field:
			for _, s := range c18FieldStores(y) {
				walk(s, d+1)
			}
		case *ssa.FreeVar:
			// a captured parameter / captured cell: what the makers of the closure bind
			g := y.Parent()
			if g == nil || g.Parent() == nil {
				return
			}
			for k, fv := range g.FreeVars {
				if fv != y {
					continue
				}
				eachInstr(g.Parent(), func(i ssa.Instruction) {
					if mc, ok := i.(*ssa.MakeClosure); ok && mc.Fn == g && k < len(mc.Bindings) {
						b := mc.Bindings[k]
						walk(b, d+1)
						if a, ok := b.(*ssa.Alloc); ok {
							for _, r := range *a.Referrers() {
								if st, ok := r.(*ssa.Store); ok && st.Addr == a {
									walk(st.Val, d+1)
								}
							}
						}
					}
				})
			}
		}
	}
	walk(v, 0)
	return out
}

// c18DynNames: the names (as calleeName spells them) of the functions a dynamic call may run, library functions
// included: `graceful()` where some caller passed the method value s.server.GracefulStop.
func c18DynNames(cc *ssa.CallCommon) []string {
	if cc == nil || cc.IsInvoke() || cc.StaticCallee() != nil {
		return nil
	}
	if _, isB := cc.Value.(*ssa.Builtin); isB {
		return nil
	}
	var out []string
	for _, f := range c18FuncsOfAny(cc.Value) {
		out = append(out, funcName(f))
	}
	return out
}

// c18Frame: function fn, reached through call site `site` of the frame `parent` (nil, nil for the entry).
type c18Frame struct {
	fn     *ssa.Function
	site   ssa.CallInstruction
	parent *c18Frame
	depth  int
}

// origin: the value v of this frame traced back through the parameters of the frames above: a parameter of fn is what
// the call site passed, seen in the caller's frame.
func (fr *c18Frame) origin(v ssa.Value) (ssa.Value, *c18Frame) {
	for fr != nil {
		switch x := v.(type) {
		case *ssa.ChangeType:
			v = x.X
			continue
		case *ssa.ChangeInterface:
			v = x.X
			continue
		}
		// a variable captured by a closure: what the enclosing function (a frame above) bound
		if b, up := fr.captured(v); up != nil {
			v, fr = b, up
			continue
		}
		p, ok := v.(*ssa.Parameter)
		if !ok || fr.site == nil || p.Parent() != fr.fn {
			return v, fr
		}
		idx := -1
		for k, q := range fr.fn.Params {
			if q == p {
				idx = k
			}
		}
		cc := fr.site.Common()
		switch {
		case cc.IsInvoke() && idx == 0:
			v = cc.Value
		case cc.IsInvoke():
			if idx-1 >= len(cc.Args) {
				return v, fr
			}
			v = cc.Args[idx-1]
		default:
			k := idx - (len(fr.fn.Params) - len(cc.Args)) // a bound method value carries its receiver in the closure
			if k < 0 || k >= len(cc.Args) {
				return v, fr
			}
			v = cc.Args[k]
		}
		fr = fr.parent
	}
	return v, fr
}

// captured: v is a free variable of the closure fr.fn (or a load of the cell it captured) whose enclosing function is
// a frame above: the value bound there (for a captured cell: the one value stored into it), in that frame.
func (fr *c18Frame) captured(v ssa.Value) (ssa.Value, *c18Frame) {
	var fv *ssa.FreeVar
	cell := false
	switch x := v.(type) {
	case *ssa.FreeVar:
		fv = x
	case *ssa.UnOp:
		if x.Op == token.MUL {
			fv, _ = x.X.(*ssa.FreeVar)
			cell = true
		}
	}
	if fv == nil || fv.Parent() != fr.fn || fr.fn.Parent() == nil {
		return nil, nil
	}
	var up *c18Frame
	for f := fr.parent; f != nil; f = f.parent {
		if f.fn == fr.fn.Parent() {
			up = f
			break
		}
	}
	if up == nil {
		return nil, nil
	}
	idx := -1
	for k, x := range fr.fn.FreeVars {
		if x == fv {
			idx = k
		}
	}
	var bound ssa.Value
	n := 0
	eachInstr(up.fn, func(i ssa.Instruction) {
		if mc, ok := i.(*ssa.MakeClosure); ok && mc.Fn == fr.fn && idx >= 0 && idx < len(mc.Bindings) {
			bound = mc.Bindings[idx]
			n++
		}
	})
	if n != 1 {
		return nil, nil
	}
	if !cell {
		return bound, up
	}
	a, ok := bound.(*ssa.Alloc)
	if !ok {
		return nil, nil
	}
	var val ssa.Value
	stores := 0
	for _, r := range *a.Referrers() {
		if st, ok := r.(*ssa.Store); ok && st.Addr == a {
			val = st.Val
			stores++
		}
	}
	if stores != 1 {
		return nil, nil
	}
	return val, up
}

// c18ConcreteMethods: the repository methods an invoke of method m on interface value v may run, as far as the
// concrete type is visible: v was made from a concrete value (MakeInterface), possibly handed down through the
// parameters of the frames above, merged by a phi, or kept in a struct field.
func (fr *c18Frame) concreteMethods(v ssa.Value, m *types.Func) []*ssa.Function {
	var out []*ssa.Function
	seen := map[ssa.Value]bool{}
	var walk func(x ssa.Value, f *c18Frame, d int)
	walk = func(x ssa.Value, f *c18Frame, d int) {
		if x == nil || seen[x] || d > 5 {
			return
		}
		seen[x] = true
		x, f = f.origin(x)
		switch y := x.(type) {
		case *ssa.MakeInterface:
			prog := fr.fn.Prog
			sel := prog.MethodSets.MethodSet(y.X.Type()).Lookup(m.Pkg(), m.Name())
			if sel == nil {
				return
			}
			if g := prog.MethodValue(sel); g != nil {
				g = unwrap(g)
				if isRepoFn(g) && len(g.Blocks) > 0 && !containsFn(out, g) {
					out = append(out, g)
				}
			}
		case *ssa.Phi:
			for _, e := range y.Edges {
				walk(e, f, d+1)
			}
		case *ssa.UnOp, *ssa.Field:
			for _, s := range c18FieldStores(x) {
				walk(s, nil, d+1)
			}
			if u, ok := x.(*ssa.UnOp); ok && u.Op == token.MUL {
				if fv, ok := u.X.(*ssa.FreeVar); ok {
					walk(fv, f, d+1)
				}
				if a, ok := u.X.(*ssa.Alloc); ok {
					for _, r := range *a.Referrers() {
						if st, ok := r.(*ssa.Store); ok && st.Addr == a {
							walk(st.Val, f, d+1)
						}
					}
				}
			}
		case *ssa.FreeVar:
			// captured by a closure whose enclosing function is no frame above: what its makers bind
			g := y.Parent()
			if g == nil || g.Parent() == nil {
				return
			}
			for k, fv := range g.FreeVars {
				if fv != y {
					continue
				}
				eachInstr(g.Parent(), func(i ssa.Instruction) {
					if mc, ok := i.(*ssa.MakeClosure); ok && mc.Fn == g && k < len(mc.Bindings) {
						b := mc.Bindings[k]
						walk(b, nil, d+1)
						if a, ok := b.(*ssa.Alloc); ok {
							for _, r := range *a.Referrers() {
								if st, ok := r.(*ssa.Store); ok && st.Addr == a {
									walk(st.Val, nil, d+1)
								}
							}
						}
					}
				})
			}
		case *ssa.Parameter:
			// no frame above knows: what the static call sites pass
			g := y.Parent()
			if g == nil || len(gSites[g]) > maxHelperSites {
				return
			}
			for k, p := range g.Params {
				if p != y {
					continue
				}
				for _, s := range gSites[g] {
					cc := s.Common()
					if j := k - (len(g.Params) - len(cc.Args)); j >= 0 && j < len(cc.Args) {
						walk(cc.Args[j], nil, d+1)
					}
				}
			}
		}
	}
	walk(v, fr, 0)
	return out
}

// callees: the repository functions the call cc (an instruction of fr.fn) may run, resolved in the context of the frame.
func (fr *c18Frame) callees(cc *ssa.CallCommon) []*ssa.Function {
	if cc == nil {
		return nil
	}
	if cc.IsInvoke() {
		return fr.concreteMethods(cc.Value, cc.Method)
	}
	if cc.StaticCallee() != nil {
		return c18Targets(cc)
	}
	if _, isB := cc.Value.(*ssa.Builtin); isB {
		return nil
	}
	if v, _ := fr.origin(cc.Value); v != cc.Value {
		return c18FuncsOf(v) // what THIS chain of callers passed
	}
	return c18Targets(cc)
}

// in: fn is the function of this frame or of a frame above (a recursive call is not entered again).
func (fr *c18Frame) in(fn *ssa.Function) bool {
	for f := fr; f != nil; f = f.parent {
		if f.fn == fn {
			return true
		}
	}
	return false
}

const c18MaxFrameDepth = 5

// children: the frames entered by instruction i (a synchronous call or a deferred call; never a go statement).
func (fr *c18Frame) children(i ssa.Instruction) []*c18Frame {
	if _, isGo := i.(*ssa.Go); isGo || fr.depth >= c18MaxFrameDepth {
		return nil
	}
	ci, ok := i.(ssa.CallInstruction)
	if !ok {
		return nil
	}
	var out []*c18Frame
	for _, g := range fr.callees(ci.Common()) {
		if !fr.in(g) {
			out = append(out, &c18Frame{fn: g, site: ci, parent: fr, depth: fr.depth + 1})
		}
	}
	return out
}

// may: instruction i satisfies pred, or is a synchronous / deferred call that - in this context - may execute one.
func (fr *c18Frame) may(i ssa.Instruction, pred func(ssa.Instruction) bool) bool {
	if pred(i) {
		return true
	}
	for _, ch := range fr.children(i) {
		if ch.mayExec(pred) {
			return true
		}
	}
	return false
}

// mayExec: some instruction of the frame's function, or of what it runs synchronously in this context, satisfies pred.
func (fr *c18Frame) mayExec(pred func(ssa.Instruction) bool) bool {
	hit := false
	eachInstr(fr.fn, func(i ssa.Instruction) {
		if !hit && fr.may(i, pred) {
			hit = true
		}
	})
	return hit
}

// c18EachFrame visits the frame of root and every frame it enters synchronously (calls and deferred calls; with
// callsOnly: calls), parameters resolved per call site, at most maxDepth calls deep. visit says whether the frames
// entered from the visited one are to be visited too.
func c18EachFrame(root *ssa.Function, maxDepth int, callsOnly bool, visit func(fr *c18Frame) bool) {
	budget := 600
	var walk func(fr *c18Frame)
	walk = func(fr *c18Frame) {
		if budget <= 0 {
			return
		}
		budget--
		if !visit(fr) || fr.depth >= maxDepth {
			return
		}
		eachInstr(fr.fn, func(i ssa.Instruction) {
			if _, isCall := i.(*ssa.Call); callsOnly && !isCall {
				return
			}
			for _, ch := range fr.children(i) {
				walk(ch)
			}
		})
	}
	walk(&c18Frame{fn: root})
}

// c18Contextual: what fn runs depends on its caller: it has a parameter of function or interface type.
func c18Contextual(fn *ssa.Function) bool {
	for _, p := range fn.Params {
		switch p.Type().Underlying().(type) {
		case *types.Signature, *types.Interface:
			return true
		}
	}
	return false
}
