package main

// Overlay mutants added in hardening round 3 (after the fourth round of breaking patches): refactoring kinds met in
// benign r10-r12 and their neighbours, each with the breaks that the rewritten rules must still report in that shape.

const (
	c01StateCall   = "checks, meta, err := w.client.Health().State(\"any\", q)"
	c01CatalogCall = "svcs, _, err := w.client.Catalog().Service(name, \"\", q)"
	c01LoopTop     = "\tvar q *api.QueryOptions\n\tfor {"
	c01HealthIface = "\tvar q *api.QueryOptions\n\tvar health interface {\n\t\tState(string, *api.QueryOptions) (api.HealthChecks, *api.QueryMeta, error)\n\t} = w.client.Health()\n\tfor {"
	c01CatIfaceFn  = "type catalogReader interface {\n\tService(service, tag string, q *api.QueryOptions) ([]*api.CatalogService, *api.QueryMeta, error)\n}\n\nfunc catalogOf(c *api.Client) catalogReader { return c.Catalog() }\n\n"
	c01KVList      = "\tkvpairs, meta, err := client.KV().List(path, q)\n\tif err != nil {\n\t\treturn \"\", 0, err\n\t}"
	c01KVListIface = "\tvar kv interface {\n\t\tList(string, *api.QueryOptions) (api.KVPairs, *api.QueryMeta, error)\n\t} = client.KV()\n\tkvpairs, meta, err := kv.List(path, q)\n\tif err != nil {\n\t\treturn \"\", 0, err\n\t}"

	// the watch loop of benign C01-r11: the body is a method that takes the index and returns the next one
	c01WatchOld  = "\tvar lastIndex uint64\n\tvar q *api.QueryOptions\n\tfor {\n\t\tif w.config.PollInterval != 0 {\n\t\t\tq = &api.QueryOptions{RequireConsistent: w.config.RequireConsistent, AllowStale: w.config.AllowStale}\n\t\t\ttime.Sleep(w.config.PollInterval)\n\t\t} else {\n\t\t\tq = &api.QueryOptions{RequireConsistent: w.config.RequireConsistent, AllowStale: w.config.AllowStale, WaitIndex: lastIndex}\n\t\t}\n\t\tchecks, meta, err := w.client.Health().State(\"any\", q)\n\t\tif err != nil {\n\t\t\tlog.Printf(\"[WARN] consul: Error fetching health state. %v\", err)\n\t\t\ttime.Sleep(time.Second)\n\t\t\tcontinue\n\t\t}\n"
	c01WatchTail = "\t\tupdates <- w.makeConfig(passing)\n\n\t\t// remember the last state and wait for the next change\n\t\tlastIndex = meta.LastIndex\n\t}\n}"
)

// c01OnceForm: Watch as `for { index = w.watchOnce(index, updates) }`; the pieces that the variants change are parameters.
func c01OnceForm(pollSleep, errSleep, okReturn string) []repl {
	return []repl{
		{c01WatchOld, "\tvar index uint64\n\tfor {\n\t\tindex = w.watchOnce(index, updates)\n\t}\n}\n\nfunc (w *ServiceMonitor) watchOnce(lastIndex uint64, updates chan<- string) uint64 {\n\t{\n\t\twaitIndex := lastIndex\n\t\tif w.config.PollInterval != 0 {\n\t\t\twaitIndex = 0\n" + pollSleep + "\t\t}\n\t\tq := &api.QueryOptions{RequireConsistent: w.config.RequireConsistent, AllowStale: w.config.AllowStale, WaitIndex: waitIndex}\n\t\tchecks, meta, err := w.client.Health().State(\"any\", q)\n\t\tif err != nil {\n\t\t\tlog.Printf(\"[WARN] consul: Error fetching health state. %v\", err)\n" + errSleep + "\t\t\treturn lastIndex\n\t\t}\n"},
		{c01WatchTail, "\t\tupdates <- w.makeConfig(passing)\n\t\treturn " + okReturn + "\n\t}\n}"},
	}
}

// c01CursorForm: the body is a method that is given a pointer to the index.
func c01CursorForm(advance string) []repl {
	return []repl{
		{c01WatchOld, "\tvar index uint64\n\tfor {\n\t\tw.watchOnce(&index, updates)\n\t}\n}\n\nfunc (w *ServiceMonitor) watchOnce(lastIndex *uint64, updates chan<- string) {\n\t{\n\t\tq := &api.QueryOptions{RequireConsistent: w.config.RequireConsistent, AllowStale: w.config.AllowStale}\n\t\tif w.config.PollInterval != 0 {\n\t\t\ttime.Sleep(w.config.PollInterval)\n\t\t} else {\n\t\t\tq.WaitIndex = *lastIndex\n\t\t}\n\t\tchecks, meta, err := w.client.Health().State(\"any\", q)\n\t\tif err != nil {\n\t\t\tlog.Printf(\"[WARN] consul: Error fetching health state. %v\", err)\n\t\t\ttime.Sleep(time.Second)\n\t\t\treturn\n\t\t}\n"},
		{c01WatchTail, "\t\tupdates <- w.makeConfig(passing)\n\t\t" + advance + "\n\t}\n}"},
	}
}

const (
	c01Workers     = "\tcfgs := make(chan []string, len(m))\n\tfor name, passing := range m {\n\t\tname, passing := name, passing\n\t\tgo func() {\n\t\t\tsem <- 1\n\t\t\tcfgs <- w.serviceConfig(name, passing)\n\t\t\t<-sem\n\t\t}()\n\t}\n\n\tvar config []string\n\tfor i := 0; i < len(m); i++ {\n\t\tcfg := <-cfgs\n\t\tconfig = append(config, cfg...)\n\t}\n"
	c01SlotWorkers = "\tvar wg sync.WaitGroup\n\tresults := make([][]string, len(m))\n\tslot := 0\n\tfor name, passing := range m {\n\t\twg.Add(1)\n\t\tgo func(i int, name string, passing map[string]bool) {\n\t\t\tdefer wg.Done()\n\t\t\tsem <- 1\n\t\t\tdefer func() { <-sem }()\n\t\t\tresults[i] = w.serviceConfig(name, passing)\n\t\t}(slot, name, passing)\n\t\tslot++\n\t}\n\twg.Wait()\n\n\tvar config []string\n\tfor _, cfg := range results {\n\t\tconfig = append(config, cfg...)\n\t}\n"
	c01FillWorkers = "\tvar wg sync.WaitGroup\n\tresults := make([]svcResult, len(m))\n\tslot := 0\n\tfor name, passing := range m {\n\t\twg.Add(1)\n\t\tgo w.fill(&results[slot], &wg, sem, name, passing)\n\t\tslot++\n\t}\n\twg.Wait()\n\n\tvar config []string\n\tfor k := range results {\n\t\tconfig = append(config, results[k].cmds...)\n\t}\n"
	c01FillDecl    = "type svcResult struct {\n\tname string\n\tcmds []string\n}\n\nfunc (w *ServiceMonitor) fill(res *svcResult, wg *sync.WaitGroup, sem chan int, name string, passing map[string]bool) {\n\tdefer wg.Done()\n\tsem <- 1\n\tdefer func() { <-sem }()\n\tres.name = name\n\tres.cmds = w.serviceConfig(name, passing)\n}\n\n"
	c01RenderDecl  = "func renderTo(sb *strings.Builder, cmds []string) {\n\tfor k, cmd := range cmds {\n\t\tif k > 0 {\n\t\t\tsb.WriteByte('\\n')\n\t\t}\n\t\tsb.WriteString(cmd)\n\t}\n}\n\n"
	c01MemoFields  = "\tdc     string\n\tstrict bool\n\n\tlastKey string\n\troutes  string\n}"
)

const c01HealthClient = "type healthClient struct{ c *api.Client }\n\nfunc (h healthClient) state(q *api.QueryOptions) (api.HealthChecks, *api.QueryMeta, error) {\n\treturn h.c.Health().State(\"any\", q)\n}\n\n"

var c01Round5Mutants = []mutant{
	// ---- the Consul client behind a narrow interface (benign C01-r10 has it as fields of the monitor)
	{Name: "benign: health endpoint held in a local variable of an anonymous interface type", File: c01SvcFile, Old: c01LoopTop, New: c01HealthIface, Expect: "",
		More: []repl{{c01StateCall, "checks, meta, err := health.State(\"any\", q)"}}},
	{Name: "interface form: last index never advanced", File: c01SvcFile, Old: c01LoopTop, New: c01HealthIface, Expect: "C01.W3",
		More: []repl{{c01StateCall, "checks, meta, err := health.State(\"any\", q)"}, {"\t\tlastIndex = meta.LastIndex\n", "\t\t_ = meta.LastIndex\n"}}},
	{Name: "interface form: error edge without sleep", File: c01SvcFile, Old: c01LoopTop, New: c01HealthIface, Expect: "C01.W3",
		More: []repl{{c01StateCall, "checks, meta, err := health.State(\"any\", q)"}, {"\t\t\tlog.Printf(\"[WARN] consul: Error fetching health state. %v\", err)\n\t\t\ttime.Sleep(time.Second)\n\t\t\tcontinue", "\t\t\tlog.Printf(\"[WARN] consul: Error fetching health state. %v\", err)\n\t\t\tcontinue"}}},
	{Name: "interface form: tag filter bypassed", File: c01SvcFile, Old: c01LoopTop, New: c01HealthIface, Expect: "C01.W1",
		More: []repl{{c01StateCall, "checks, meta, err := health.State(\"any\", q)"}, {"passing := passingServices(prefixedChecks, w.config.ServiceStatus, w.strict)", "passing := passingServices(checks, w.config.ServiceStatus, w.strict)"}}},
	{Name: "interface form: config sent only when the index moved", File: c01SvcFile, Old: c01LoopTop, New: c01HealthIface, Expect: "C01.W2",
		More: []repl{{c01StateCall, "checks, meta, err := health.State(\"any\", q)"}, {c01SendLine, "if meta.LastIndex != lastIndex {\n\t\t\tupdates <- w.makeConfig(passing)\n\t\t}"}}},
	{Name: "benign: catalog endpoint behind an interface returned by a helper", File: c01SvcFile, Old: c01MkDoc, New: c01CatIfaceFn + c01MkDoc, Expect: "",
		More: []repl{{c01CatalogCall, "svcs, _, err := catalogOf(w.client).Service(name, \"\", q)"}}},
	{Name: "catalog behind an interface, last config reused while the passing instances are the same", File: c01SvcFile, Old: c01MkDoc, New: c01CatIfaceFn + c01MkDoc, Expect: "C01.S1",
		More: []repl{{c01CatalogCall, "svcs, _, err := catalogOf(w.client).Service(name, \"\", q)"},
			{c01Fields, c01MemoFields},
			{"\tn := w.config.ServiceMonitors\n", "\tkey := fmt.Sprint(m)\n\tif key == w.lastKey {\n\t\treturn w.routes\n\t}\n\n\tn := w.config.ServiceMonitors\n"},
			{c01JoinRet, "\tw.lastKey, w.routes = key, strings.Join(config, \"\\n\")\n\treturn w.routes\n}"}}},
	{Name: "benign: KV endpoint held in a local variable of an anonymous interface type", File: "registry/consul/kv.go", Old: c01KVList, New: c01KVListIface, Expect: ""},
	{Name: "interface form: kv watcher waits on index 0 every time", File: "registry/consul/kv.go", Old: c01KVList, New: c01KVListIface, Expect: "C01.W3",
		More: []repl{{"value, index, err := listKV(client, path, lastIndex, separator, requireConsistent, allowStale)", "value, index, err := listKV(client, path, 0, separator, requireConsistent, allowStale)"}}},
	{Name: "interface form: changed manual config with an unchanged index is dropped", File: "registry/consul/kv.go", Old: c01KVList, New: c01KVListIface, Expect: "C01.W4",
		More: []repl{{"\t\tif value != lastValue || index != lastIndex {\n\t\t\tlog.Printf(\"[DEBUG] consul: Manual config changed to #%d\", index)\n", "\t\tif index > lastIndex {\n\t\t\tlog.Printf(\"[DEBUG] consul: Manual config changed from %q to #%d\", lastValue, index)\n"}}},

	// ---- the loop body as a method that is given the index (benign C01-r11)
	{Name: "benign: watch round as a method, index in and out, one options literal", File: c01SvcFile, Expect: "",
		More: c01OnceForm("\t\t\ttime.Sleep(w.config.PollInterval)\n", "\t\t\ttime.Sleep(time.Second)\n", "meta.LastIndex")},
	{Name: "round method form: error edge returns without sleeping", File: c01SvcFile, Expect: "C01.W3",
		More: c01OnceForm("\t\t\ttime.Sleep(w.config.PollInterval)\n", "", "meta.LastIndex")},
	{Name: "round method form: the index handed back is never advanced", File: c01SvcFile, Expect: "C01.W3",
		More: c01OnceForm("\t\t\ttime.Sleep(w.config.PollInterval)\n", "\t\t\ttime.Sleep(time.Second)\n", "lastIndex")},
	{Name: "benign: watch round as a method that is given a pointer to the index", File: c01SvcFile, Expect: "",
		More: c01CursorForm("*lastIndex = meta.LastIndex")},
	{Name: "cursor pointer form: index never advanced", File: c01SvcFile, Expect: "C01.W3",
		More: c01CursorForm("_ = meta.LastIndex")},

	// ---- workers that fill a slot of their own (benign C01-r12)
	{Name: "benign: workers store into their own slot of a captured slice, joined by a WaitGroup", File: c01SvcFile, Old: c01Workers, New: c01SlotWorkers, Expect: "",
		More: []repl{{c01SyncImp, c01SyncImpN}}},
	{Name: "benign: workers are a method that fills a result struct it is given", File: c01SvcFile, Old: c01Workers, New: c01FillWorkers, Expect: "",
		More: []repl{{c01SyncImp, c01SyncImpN}, {c01MkDoc, c01FillDecl + c01MkDoc}}},
	{Name: "slot form: command list not sorted", File: c01SvcFile, Old: c01Workers, New: c01SlotWorkers, Expect: "C01.M1",
		More: []repl{{c01SyncImp, c01SyncImpN}, {"\tsort.Sort(sort.Reverse(sort.StringSlice(config)))\n", "\t_ = sort.Strings\n"}}},
	{Name: "slot form: last config reused while the passing instances are the same", File: c01SvcFile, Old: c01Workers, New: c01SlotWorkers, Expect: "C01.S1",
		More: []repl{{c01SyncImp, c01SyncImpN},
			{c01Fields, c01MemoFields},
			{"\tn := w.config.ServiceMonitors\n", "\tkey := fmt.Sprint(m)\n\tif key == w.lastKey {\n\t\treturn w.routes\n\t}\n\n\tn := w.config.ServiceMonitors\n"},
			{c01JoinRet, "\tw.lastKey, w.routes = key, strings.Join(config, \"\\n\")\n\treturn w.routes\n}"}}},
	{Name: "slot form: workers append to one shared slice", File: c01SvcFile, Old: c01Workers, Expect: "C01.M2",
		New:  "\tvar wg sync.WaitGroup\n\tvar config []string\n\tfor name, passing := range m {\n\t\twg.Add(1)\n\t\tgo func(name string, passing map[string]bool) {\n\t\t\tdefer wg.Done()\n\t\t\tsem <- 1\n\t\t\tdefer func() { <-sem }()\n\t\t\tconfig = append(config, w.serviceConfig(name, passing)...)\n\t\t}(name, passing)\n\t}\n\twg.Wait()\n",
		More: []repl{{c01SyncImp, c01SyncImpN}}},

	// ---- O1: the starter waits in the caller of the function that holds the go statement
	{Name: "benign: helper starts the publishing goroutine and returns its done channel, the loop waits for it", File: c01SvcFile, Old: c01SendLine,
		New: "<-w.publishAsync(updates, passing)", Expect: "",
		More: []repl{{c01MkDoc, "func (w *ServiceMonitor) publishAsync(updates chan string, passing []*api.HealthCheck) <-chan struct{} {\n\tdone := make(chan struct{})\n\tgo func() {\n\t\tdefer close(done)\n\t\tupdates <- w.makeConfig(passing)\n\t}()\n\treturn done\n}\n\n" + c01MkDoc}}},
	{Name: "helper returns the done channel of the publishing goroutine, the loop does not wait", File: c01SvcFile, Old: c01SendLine,
		New: "_ = w.publishAsync(updates, passing)", Expect: "C01.O1",
		More: []repl{{c01MkDoc, "func (w *ServiceMonitor) publishAsync(updates chan string, passing []*api.HealthCheck) <-chan struct{} {\n\tdone := make(chan struct{})\n\tgo func() {\n\t\tdefer close(done)\n\t\tupdates <- w.makeConfig(passing)\n\t}()\n\treturn done\n}\n\n" + c01MkDoc}}},
	{Name: "helper returns the done channel of the publishing goroutine, the loop waits only after the next query", File: c01SvcFile, Old: c01LoopTop,
		New: "\tvar q *api.QueryOptions\n\tvar pending <-chan struct{}\n\tfor {", Expect: "C01.O1",
		More: []repl{{c01SendLine, "pending = w.publishAsync(updates, passing)\n\t\tif len(passing) == 0 {\n\t\t\t<-pending\n\t\t}"},
			{c01MkDoc, "func (w *ServiceMonitor) publishAsync(updates chan string, passing []*api.HealthCheck) <-chan struct{} {\n\tdone := make(chan struct{})\n\tgo func() {\n\t\tdefer close(done)\n\t\tupdates <- w.makeConfig(passing)\n\t}()\n\treturn done\n}\n\n" + c01MkDoc}}},

	// ---- S1: the text is rendered by a helper into a builder it is given
	{Name: "benign: text rendered by a helper into a strings.Builder it is given", File: c01SvcFile, Old: c01JoinRet,
		New: "\tvar sb strings.Builder\n\trenderTo(&sb, config)\n\treturn sb.String()\n}", Expect: "",
		More: []repl{{c01MkDoc, c01RenderDecl + c01MkDoc}}},
	{Name: "builder helper form: last config reused while the passing instances are the same", File: c01SvcFile, Old: c01JoinRet,
		New: "\tvar sb strings.Builder\n\trenderTo(&sb, config)\n\tw.lastKey, w.routes = key, sb.String()\n\treturn w.routes\n}", Expect: "C01.S1",
		More: []repl{{c01MkDoc, c01RenderDecl + c01MkDoc},
			{c01Fields, c01MemoFields},
			{"\tn := w.config.ServiceMonitors\n", "\tkey := fmt.Sprint(m)\n\tif key == w.lastKey {\n\t\treturn w.routes\n\t}\n\n\tn := w.config.ServiceMonitors\n"}}},
	{Name: "builder helper form: command list not sorted", File: c01SvcFile, Old: c01JoinRet,
		New: "\tvar sb strings.Builder\n\trenderTo(&sb, config)\n\treturn sb.String()\n}", Expect: "C01.M1",
		More: []repl{{c01MkDoc, c01RenderDecl + c01MkDoc}, {"\tsort.Sort(sort.Reverse(sort.StringSlice(config)))\n", "\t_ = sort.Strings\n"}}},

	// ---- probes of other ordinary shapes
	{Name: "benign: health query in a method of a small client wrapper type", File: c01SvcFile, Old: c01MkDoc,
		New: c01HealthClient + c01MkDoc, Expect: "",
		More: []repl{{c01StateCall, "checks, meta, err := healthClient{w.client}.state(q)"}}},
	{Name: "client wrapper form: last index never advanced", File: c01SvcFile, Old: c01MkDoc,
		New: c01HealthClient + c01MkDoc, Expect: "C01.W3",
		More: []repl{{c01StateCall, "checks, meta, err := healthClient{w.client}.state(q)"}, {"\t\tlastIndex = meta.LastIndex\n", "\t\t_ = meta.LastIndex\n"}}},
	{Name: "client wrapper form: error edge without sleep", File: c01SvcFile, Old: c01MkDoc,
		New: c01HealthClient + c01MkDoc, Expect: "C01.W3",
		More: []repl{{c01StateCall, "checks, meta, err := healthClient{w.client}.state(q)"}, {"\t\t\tlog.Printf(\"[WARN] consul: Error fetching health state. %v\", err)\n\t\t\ttime.Sleep(time.Second)\n\t\t\tcontinue", "\t\t\tlog.Printf(\"[WARN] consul: Error fetching health state. %v\", err)\n\t\t\tcontinue"}}},
	{Name: "client wrapper form: wrapper drops the wait index", File: c01SvcFile, Old: c01MkDoc,
		New: "type healthClient struct{ c *api.Client }\n\nfunc (h healthClient) state(q *api.QueryOptions) (api.HealthChecks, *api.QueryMeta, error) {\n\treturn h.c.Health().State(\"any\", &api.QueryOptions{RequireConsistent: q.RequireConsistent, AllowStale: q.AllowStale})\n}\n\n" + c01MkDoc, Expect: "C01.W3",
		More: []repl{{c01StateCall, "checks, meta, err := healthClient{w.client}.state(q)"}}},
	{Name: "benign: watchers started by a common helper that is given the watch function", File: "registry/consul/backend.go",
		Old: "\tkv := make(chan string)\n\tgo watchKV(b.c, b.cfg.KVPath, kv, true, b.cfg.RequireConsistent, b.cfg.AllowStale)\n\treturn kv\n",
		New: "\treturn startWatch(func(ch chan string) {\n\t\twatchKV(b.c, b.cfg.KVPath, ch, true, b.cfg.RequireConsistent, b.cfg.AllowStale)\n\t})\n}\n\nfunc startWatch(watch func(chan string)) chan string {\n\tch := make(chan string)\n\tgo watch(ch)\n\treturn ch\n", Expect: "",
		More: []repl{{"\tsvc := make(chan string)\n\tgo m.Watch(svc)\n\treturn svc\n", "\treturn startWatch(m.Watch)\n"},
			{"\thtml := make(chan string)\n\tgo watchKV(b.c, b.cfg.NoRouteHTMLPath, html, false, b.cfg.RequireConsistent, b.cfg.AllowStale)\n\treturn html\n", "\treturn startWatch(func(ch chan string) {\n\t\twatchKV(b.c, b.cfg.NoRouteHTMLPath, ch, false, b.cfg.RequireConsistent, b.cfg.AllowStale)\n\t})\n"}}},
	{Name: "benign: fixed pool of workers fed through a jobs channel", File: c01SvcFile, Old: c01Workers, Expect: "",
		New: "\t_ = sem\n\ttype job struct {\n\t\tname    string\n\t\tpassing map[string]bool\n\t}\n\tjobs := make(chan job, len(m))\n\tcfgs := make(chan []string, len(m))\n\tfor i := 0; i < n; i++ {\n\t\tgo func() {\n\t\t\tfor j := range jobs {\n\t\t\t\tcfgs <- w.serviceConfig(j.name, j.passing)\n\t\t\t}\n\t\t}()\n\t}\n\tfor name, passing := range m {\n\t\tjobs <- job{name, passing}\n\t}\n\tclose(jobs)\n\n\tvar config []string\n\tfor i := 0; i < len(m); i++ {\n\t\tcfg := <-cfgs\n\t\tconfig = append(config, cfg...)\n\t}\n"},
	{Name: "worker pool form: last config reused while the passing instances are the same", File: c01SvcFile, Old: c01Workers, Expect: "C01.S1",
		New: "\t_ = sem\n\ttype job struct {\n\t\tname    string\n\t\tpassing map[string]bool\n\t}\n\tjobs := make(chan job, len(m))\n\tcfgs := make(chan []string, len(m))\n\tfor i := 0; i < n; i++ {\n\t\tgo func() {\n\t\t\tfor j := range jobs {\n\t\t\t\tcfgs <- w.serviceConfig(j.name, j.passing)\n\t\t\t}\n\t\t}()\n\t}\n\tfor name, passing := range m {\n\t\tjobs <- job{name, passing}\n\t}\n\tclose(jobs)\n\n\tvar config []string\n\tfor i := 0; i < len(m); i++ {\n\t\tcfg := <-cfgs\n\t\tconfig = append(config, cfg...)\n\t}\n",
		More: []repl{{c01Fields, c01MemoFields},
			{"\tn := w.config.ServiceMonitors\n", "\tkey := fmt.Sprint(m)\n\tif key == w.lastKey {\n\t\treturn w.routes\n\t}\n\n\tn := w.config.ServiceMonitors\n"},
			{c01JoinRet, "\tw.lastKey, w.routes = key, strings.Join(config, \"\\n\")\n\treturn w.routes\n}"}}},
	{Name: "benign: workers run under an errgroup with a limit", File: c01SvcFile, Old: c01Workers, Expect: "",
		New:  "\t_ = sem\n\tvar g errgroup.Group\n\tg.SetLimit(n)\n\tresults := make([][]string, len(m))\n\tslot := 0\n\tfor name, passing := range m {\n\t\ti, name, passing := slot, name, passing\n\t\tg.Go(func() error {\n\t\t\tresults[i] = w.serviceConfig(name, passing)\n\t\t\treturn nil\n\t\t})\n\t\tslot++\n\t}\n\t_ = g.Wait()\n\tconfig := slices.Concat(results...)\n",
		More: []repl{{"\t\"fmt\"\n\t\"log\"\n", "\t\"fmt\"\n\t\"log\"\n\t\"slices\"\n"}, {"\t\"github.com/hashicorp/consul/api\"\n", "\t\"github.com/hashicorp/consul/api\"\n\t\"golang.org/x/sync/errgroup\"\n"}}},

	// ---- O1: channels kept in fields of the monitor
	{Name: "benign: config built in a goroutine, handed over through a channel kept in a field, sent by the loop", File: c01SvcFile, Old: c01Fields,
		New: "\tdc     string\n\tstrict bool\n\n\tbuilt chan string\n}", Expect: "",
		More: []repl{{"\t\tstrict: config.ChecksRequired == \"all\",\n\t}\n", "\t\tstrict: config.ChecksRequired == \"all\",\n\t\tbuilt:  make(chan string, 1),\n\t}\n"},
			{c01SendLine, "go func() { w.built <- w.makeConfig(passing) }()\n\t\tupdates <- <-w.built"}}},
	{Name: "updates channel kept in a field, config sent by a goroutine per snapshot", File: c01SvcFile, Old: c01Fields,
		New: "\tdc     string\n\tstrict bool\n\n\tout chan string\n}", Expect: "C01.O1",
		More: []repl{{c01LoopTop, "\tvar q *api.QueryOptions\n\tw.out = updates\n\tfor {"},
			{c01SendLine, "go func() { w.out <- w.makeConfig(passing) }()"}}},
	{Name: "benign: updates channel kept in a field, config sent by the loop", File: c01SvcFile, Old: c01Fields,
		New: "\tdc     string\n\tstrict bool\n\n\tout chan string\n}", Expect: "",
		More: []repl{{c01LoopTop, "\tvar q *api.QueryOptions\n\tw.out = updates\n\tfor {"},
			{c01SendLine, "w.out <- w.makeConfig(passing)"}}},

	{Name: "benign: command list collected into a scratch slice of the monitor that is emptied first", File: c01SvcFile, Old: c01Fields,
		New: "\tdc     string\n\tstrict bool\n\n\tscratch []string\n}", Expect: "",
		More: []repl{{"\tvar config []string\n\tfor i := 0; i < len(m); i++ {", "\tconfig := w.scratch[:0]\n\tfor i := 0; i < len(m); i++ {"},
			{c01JoinRet, "\tw.scratch = config\n\treturn strings.Join(config, \"\\n\")\n}"}}},
	{Name: "scratch slice of the monitor not emptied: commands of earlier rounds are published again", File: c01SvcFile, Old: c01Fields,
		New: "\tdc     string\n\tstrict bool\n\n\tscratch []string\n}", Expect: "C01.S1",
		More: []repl{{"\tvar config []string\n\tfor i := 0; i < len(m); i++ {", "\tconfig := w.scratch\n\tfor i := 0; i < len(m); i++ {"},
			{c01JoinRet, "\tw.scratch = config\n\treturn strings.Join(config, \"\\n\")\n}"}}},
	{Name: "benign: watch round as a method that returns the next index and the error, the loop sleeps", File: c01SvcFile, Expect: "",
		More: []repl{
			{c01WatchOld, "\tvar index uint64\n\tfor {\n\t\tnext, err := w.watchOnce(index, updates)\n\t\tif err != nil {\n\t\t\tlog.Printf(\"[WARN] consul: Error fetching health state. %v\", err)\n\t\t\ttime.Sleep(time.Second)\n\t\t\tcontinue\n\t\t}\n\t\tindex = next\n\t}\n}\n\nfunc (w *ServiceMonitor) watchOnce(lastIndex uint64, updates chan<- string) (uint64, error) {\n\t{\n\t\tq := &api.QueryOptions{RequireConsistent: w.config.RequireConsistent, AllowStale: w.config.AllowStale}\n\t\tif w.config.PollInterval != 0 {\n\t\t\ttime.Sleep(w.config.PollInterval)\n\t\t} else {\n\t\t\tq.WaitIndex = lastIndex\n\t\t}\n\t\tchecks, meta, err := w.client.Health().State(\"any\", q)\n\t\tif err != nil {\n\t\t\treturn 0, err\n\t\t}\n"},
			{c01WatchTail, "\t\tupdates <- w.makeConfig(passing)\n\t\treturn meta.LastIndex, nil\n\t}\n}"}}},
	{Name: "round method with error form: the loop retries a failed round at once", File: c01SvcFile, Expect: "C01.W3",
		More: []repl{
			{c01WatchOld, "\tvar index uint64\n\tfor {\n\t\tnext, err := w.watchOnce(index, updates)\n\t\tif err != nil {\n\t\t\tlog.Printf(\"[WARN] consul: Error fetching health state. %v\", err)\n\t\t\tcontinue\n\t\t}\n\t\tindex = next\n\t}\n}\n\nfunc (w *ServiceMonitor) watchOnce(lastIndex uint64, updates chan<- string) (uint64, error) {\n\t{\n\t\tq := &api.QueryOptions{RequireConsistent: w.config.RequireConsistent, AllowStale: w.config.AllowStale}\n\t\tif w.config.PollInterval != 0 {\n\t\t\ttime.Sleep(w.config.PollInterval)\n\t\t} else {\n\t\t\tq.WaitIndex = lastIndex\n\t\t}\n\t\tchecks, meta, err := w.client.Health().State(\"any\", q)\n\t\tif err != nil {\n\t\t\treturn 0, err\n\t\t}\n"},
			{c01WatchTail, "\t\tupdates <- w.makeConfig(passing)\n\t\treturn meta.LastIndex, nil\n\t}\n}"}}},

	{Name: "benign: the monitor's methods take the monitor by value", File: c01SvcFile, Old: "func (w *ServiceMonitor) Watch(", New: "func (w ServiceMonitor) Watch(", Expect: "",
		More: []repl{{"func (w *ServiceMonitor) makeConfig(", "func (w ServiceMonitor) makeConfig("}, {"func (w *ServiceMonitor) serviceConfig(", "func (w ServiceMonitor) serviceConfig("}}},
	{Name: "round method form: config sent by a goroutine per round", File: c01SvcFile, Expect: "C01.O1",
		More: append(c01OnceForm("\t\t\ttime.Sleep(w.config.PollInterval)\n", "\t\t\ttime.Sleep(time.Second)\n", "meta.LastIndex")[:1],
			repl{c01WatchTail, "\t\tgo func() { updates <- w.makeConfig(passing) }()\n\t\treturn meta.LastIndex\n\t}\n}"})},
	{Name: "round method form: last config reused while the passing instances are the same", File: c01SvcFile, Expect: "C01.S1",
		More: append(c01OnceForm("\t\t\ttime.Sleep(w.config.PollInterval)\n", "\t\t\ttime.Sleep(time.Second)\n", "meta.LastIndex"),
			repl{c01Fields, c01MemoFields},
			repl{"\tn := w.config.ServiceMonitors\n", "\tkey := fmt.Sprint(m)\n\tif key == w.lastKey {\n\t\treturn w.routes\n\t}\n\n\tn := w.config.ServiceMonitors\n"},
			repl{c01JoinRet, "\tw.lastKey, w.routes = key, strings.Join(config, \"\\n\")\n\treturn w.routes\n}"})},

	{Name: "benign: index remembered right after the error check, before the config is built and sent", File: c01SvcFile, Old: "\t\tlog.Printf(\"[DEBUG] consul: Health changed to #%d\", meta.LastIndex)\n",
		New: "\t\tlog.Printf(\"[DEBUG] consul: Health changed to #%d\", meta.LastIndex)\n\t\tlastIndex = meta.LastIndex\n", Expect: "",
		More: []repl{{"\n\t\t// remember the last state and wait for the next change\n\t\tlastIndex = meta.LastIndex\n", "\n"}}},
	{Name: "benign: text channel given a named type", File: c01SvcFile, Old: "func (w *ServiceMonitor) Watch(updates chan string) {", New: "type configUpdates = chan string\n\nfunc (w *ServiceMonitor) Watch(updates configUpdates) {", Expect: ""},

	{Name: "benign: filtered list kept in a field of the monitor between the steps of a round", File: c01SvcFile, Old: c01Fields,
		New: "\tdc     string\n\tstrict bool\n\n\tpassing []*api.HealthCheck\n}", Expect: "",
		More: []repl{{"\t\tpassing := passingServices(prefixedChecks, w.config.ServiceStatus, w.strict)\n", "\t\tw.filter(prefixedChecks)\n"},
			{c01SendLine, "w.publish(updates)"},
			{c01MkDoc, "func (w *ServiceMonitor) filter(checks api.HealthChecks) {\n\tw.passing = passingServices(checks, w.config.ServiceStatus, w.strict)\n}\n\nfunc (w *ServiceMonitor) publish(updates chan string) {\n\tupdates <- w.makeConfig(w.passing)\n}\n\n" + c01MkDoc}}},

	{Name: "steps form: filter step skipped for an empty reply, the list of the previous round is published again", File: c01SvcFile, Old: c01Fields,
		New: "\tdc     string\n\tstrict bool\n\n\tpassing []*api.HealthCheck\n}", Expect: "C01.W1",
		More: []repl{{"\t\tpassing := passingServices(prefixedChecks, w.config.ServiceStatus, w.strict)\n", "\t\tif len(prefixedChecks) > 0 {\n\t\t\tw.filter(prefixedChecks)\n\t\t}\n"},
			{c01SendLine, "w.publish(updates)"},
			{c01MkDoc, "func (w *ServiceMonitor) filter(checks api.HealthChecks) {\n\tw.passing = passingServices(checks, w.config.ServiceStatus, w.strict)\n}\n\nfunc (w *ServiceMonitor) publish(updates chan string) {\n\tupdates <- w.makeConfig(w.passing)\n}\n\n" + c01MkDoc}}},
	{Name: "steps form: the filter step keeps the unfiltered list", File: c01SvcFile, Old: c01Fields,
		New: "\tdc     string\n\tstrict bool\n\n\tpassing []*api.HealthCheck\n}", Expect: "C01.W1",
		More: []repl{{"\t\tpassing := passingServices(prefixedChecks, w.config.ServiceStatus, w.strict)\n", "\t\tw.filter(prefixedChecks)\n"},
			{c01SendLine, "w.publish(updates)"},
			{c01MkDoc, "func (w *ServiceMonitor) filter(checks api.HealthChecks) {\n\tw.passing = checks\n}\n\nfunc (w *ServiceMonitor) publish(updates chan string) {\n\tupdates <- w.makeConfig(w.passing)\n}\n\n" + c01MkDoc}}},
}
