package main

// C01.B1 / C01.B2: the table updater. Everything is found by role: the select over the channels of WatchServices() /
// WatchManual(), the call of route.NewTable, the operations on the buffer (or text) it parses. Values are followed with
// the tracer of c01_trace.go, so it does not matter whether the received texts, the channels and the buffer live in
// locals, in the fields of a state struct (by value or behind a pointer made by a constructor), in an array, or are
// handed to helpers / methods / interface methods as parameters or receivers.

import (
	"fmt"
	"go/token"
	"go/types"
	"strings"

	"golang.org/x/tools/go/ssa"
)

const c01NewTable = repoMod + "/route.NewTable"

func c01IsStringType(t types.Type) bool {
	b, ok := t.Underlying().(*types.Basic)
	return ok && b.Info()&types.IsString != 0
}

// chanRole: the registry channel ("WatchServices" / "WatchManual") a channel value is; "?" when anything else (or
// both) may flow into it.
func (t *c01Tr) chanRole(ch ssa.Value, cx *c01Cx) string {
	isWatch := func(v ssa.Value) bool {
		call, ok := v.(*ssa.Call)
		if !ok {
			return false
		}
		n := ""
		if call.Call.IsInvoke() {
			n = call.Call.Method.Name()
		} else if sc := call.Call.StaticCallee(); sc != nil {
			n = sc.Name()
		}
		return n == "WatchServices" || n == "WatchManual"
	}
	w := &c01Walk{t: t, seen: map[c01TrKey]bool{}, stop: isWatch}
	w.val(ch, cx, "", 0)
	roles := map[string]bool{}
	for _, lf := range w.out {
		if k, ok := lf.v.(*ssa.Const); ok && k.Value == nil {
			continue // a nil channel (declared, assigned later)
		}
		r := "?"
		if lf.v != nil && isWatch(lf.v) {
			call := lf.v.(*ssa.Call)
			if call.Call.IsInvoke() {
				r = call.Call.Method.Name()
			} else {
				r = call.Call.StaticCallee().Name()
			}
		}
		roles[r] = true
	}
	return c01Single(roles)
}

func c01Single(roles map[string]bool) string {
	if len(roles) == 0 {
		return ""
	}
	if len(roles) == 1 {
		for r := range roles {
			return r
		}
	}
	return "?"
}

// c01RecvChan: the channel a leaf value was received from (nil: the leaf is not a receive).
func c01RecvChan(v ssa.Value) ssa.Value {
	switch x := v.(type) {
	case *ssa.UnOp:
		if x.Op == token.ARROW {
			return x.X
		}
	case *ssa.Extract:
		switch tup := x.Tuple.(type) {
		case *ssa.Select:
			ri := 0
			for _, st := range tup.States {
				if st.Dir == types.RecvOnly {
					if ri == x.Index-2 {
						return st.Chan
					}
					ri++
				}
			}
		case *ssa.UnOp:
			if tup.Op == token.ARROW && x.Index == 0 {
				return tup.X
			}
		}
	}
	return nil
}

// textRole: which registry channel the text v was received from: "WatchServices", "WatchManual", "" (nothing but
// constants), "?" (anything else, or both).
func (t *c01Tr) textRole(v ssa.Value, cx *c01Cx) string {
	roles := map[string]bool{}
	for _, lf := range t.origins(v, cx) {
		if lf.v == nil {
			roles["?"] = true
			continue
		}
		if _, isK := lf.v.(*ssa.Const); isK {
			continue
		}
		ch := c01RecvChan(lf.v)
		if ch == nil {
			roles["?"] = true
			continue
		}
		r := t.chanRole(ch, lf.cx)
		if r == "" {
			r = "?"
		}
		roles[r] = true
	}
	return c01Single(roles)
}

// ---- the pieces of a text, in the order they appear in it --------------------------------------------------------

type c01Piece struct {
	v  ssa.Value
	cx *c01Cx
}

// c01Exp expands a text into its VARIANTS: each variant is the sequence of pieces the text consists of on some path
// (a concatenation multiplies, a merge of alternatives adds variants). Alternatives that are all plain values (a
// variable assigned from two places, a parameter with two callers) stay ONE piece: its role is decided over all of them.
type c01Exp struct {
	t      *c01Tr
	active map[c01TrKey]bool
	at     ssa.Instruction // the outermost instruction that composes the text (inside the region)
	inReg  map[*ssa.Function]bool
}

const c01MaxVariants = 12

func (e *c01Exp) note(i ssa.Instruction) {
	if e.at == nil && (e.inReg == nil || e.inReg[i.Parent()]) {
		e.at = i
	}
}

func c01One(v ssa.Value, cx *c01Cx) [][]c01Piece { return [][]c01Piece{{{v, cx}}} }

// c01Cat: every variant of a followed by every variant of b.
func c01Cat(a, b [][]c01Piece) [][]c01Piece {
	var out [][]c01Piece
	for _, x := range a {
		for _, y := range b {
			out = append(out, append(append([]c01Piece{}, x...), y...))
		}
	}
	if len(out) > c01MaxVariants {
		return c01One(nil, nil)
	}
	return out
}

// alt merges alternatives: all plain -> the value itself as one piece; otherwise the union of the variants.
func (e *c01Exp) alt(v ssa.Value, cx *c01Cx, n int, each func(k int) ([][]c01Piece, bool)) ([][]c01Piece, bool) {
	var all [][]c01Piece
	structural := false
	for k := 0; k < n; k++ {
		vs, st := each(k)
		structural = structural || st
		all = append(all, vs...)
	}
	if !structural || len(all) == 0 {
		return c01One(v, cx), false
	}
	if len(all) > c01MaxVariants {
		return c01One(nil, nil), true
	}
	return all, true
}

// text: the variants of v, and whether v is composed (a concatenation, Sprintf, Join) rather than a plain value.
func (e *c01Exp) text(v ssa.Value, cx *c01Cx, d int) ([][]c01Piece, bool) {
	if v == nil {
		return c01One(nil, cx), false
	}
	key := c01TrKey{v, c01CxSite(cx), ""}
	if e.active[key] || d > 40 {
		return c01One(v, cx), false // a cycle (a text that is built from its own earlier value): role decided by textRole
	}
	e.active[key] = true
	defer delete(e.active, key)
	switch x := v.(type) {
	case *ssa.ChangeType:
		return e.text(x.X, cx, d+1)
	case *ssa.Convert:
		return e.text(x.X, cx, d+1)
	case *ssa.MakeInterface:
		return e.text(x.X, cx, d+1)
	case *ssa.BinOp:
		if x.Op == token.ADD && c01IsStringType(x.Type()) {
			e.note(x)
			l, _ := e.text(x.X, cx, d+1)
			r, _ := e.text(x.Y, cx, d+1)
			return c01Cat(l, r), true
		}
	case *ssa.Phi:
		return e.alt(v, cx, len(x.Edges), func(k int) ([][]c01Piece, bool) { return e.text(x.Edges[k], cx, d+1) })
	case *ssa.Call:
		n := calleeName(&x.Call)
		switch {
		case n == "fmt.Sprintf" || n == "fmt.Sprint" || n == "fmt.Sprintln":
			e.note(x)
			out := [][]c01Piece{{}}
			for _, a := range c01Variadic(x.Call.Args[len(x.Call.Args)-1]) {
				vs, _ := e.text(a, cx, d+1)
				out = c01Cat(out, vs)
			}
			return out, true
		case n == "strings.Join" && len(x.Call.Args) == 2:
			e.note(x)
			if vs, ok := e.join(x.Call.Args[0], cx, d+1); ok {
				return vs, true
			}
		case strings.HasPrefix(n, "strings.Trim") || n == "strings.Clone" || n == "strings.ToValidUTF8":
			return e.text(x.Call.Args[0], cx, d+1)
		default:
			if sc := c01RepoCallee(&x.Call); sc != nil && cx.depth() < 6 && c01IsStringType(x.Type()) {
				e.note(x)
				in := &c01Cx{x, cx}
				rets := c01Returns(sc)
				return e.alt(v, cx, len(rets), func(k int) ([][]c01Piece, bool) {
					if len(rets[k].Results) == 0 {
						return nil, false
					}
					return e.text(rets[k].Results[0], in, d+1)
				})
			}
		}
	case *ssa.Extract:
		if call, ok := x.Tuple.(*ssa.Call); ok {
			if sc := c01RepoCallee(&call.Call); sc != nil && cx.depth() < 6 {
				e.note(call)
				in := &c01Cx{call, cx}
				rets := c01Returns(sc)
				return e.alt(v, cx, len(rets), func(k int) ([][]c01Piece, bool) {
					if x.Index >= len(rets[k].Results) {
						return nil, false
					}
					return e.text(rets[k].Results[x.Index], in, d+1)
				})
			}
		}
	case *ssa.Parameter:
		fn := x.Parent()
		k := c01ParamIndex(x)
		if cx != nil && c01CalleeIs(cx.site, fn) {
			if a := c01ArgAt(cx.site, fn, k); a != nil {
				return e.text(a, cx.up, d+1)
			}
		}
		sites := e.t.sitesOf(fn)
		if len(sites) == 0 || gAddrTaken[fn] || k < 0 {
			return c01One(v, cx), false
		}
		return e.alt(v, cx, len(sites), func(n int) ([][]c01Piece, bool) {
			if a := c01ArgAt(sites[n], fn, k); a != nil {
				return e.text(a, nil, d+1)
			}
			return nil, false
		})
	case *ssa.UnOp:
		if x.Op != token.MUL {
			break
		}
		var stored []c01Stored
		for _, loc := range e.t.locsOf(x.X, cx) {
			if !loc.known() {
				return c01One(v, cx), false
			}
			stored = append(stored, e.t.storedAt(loc.root, loc.path)...)
		}
		for _, sv := range stored {
			if sv.path != "" {
				return c01One(v, cx), false
			}
		}
		return e.alt(v, cx, len(stored), func(k int) ([][]c01Piece, bool) { return e.text(stored[k].v, stored[k].cx, d+1) })
	}
	return c01One(v, cx), false
}

// join: the elements of the list given to strings.Join, in index order.
func (e *c01Exp) join(list ssa.Value, cx *c01Cx, d int) ([][]c01Piece, bool) {
	n := int64(-1)
	if sl, ok := list.(*ssa.Slice); ok {
		if p, ok := sl.X.Type().Underlying().(*types.Pointer); ok {
			if arr, ok := p.Elem().Underlying().(*types.Array); ok && sl.Low == nil && sl.High == nil {
				n = arr.Len()
			}
		}
	}
	locs := e.t.locsOf(list, cx)
	if len(locs) != 1 || !locs[0].known() {
		return nil, false
	}
	if mk, ok := locs[0].root.(*ssa.MakeSlice); ok && n < 0 {
		if k, ok := constInt(mk.Len); ok {
			n = k
		}
	}
	if n < 0 || n > 16 {
		return nil, false
	}
	// an element written at an index that is not a constant could be anywhere
	if len(e.t.storedAt(locs[0].root, locs[0].path+"/#?")) > 0 {
		return nil, false
	}
	out := [][]c01Piece{{}}
	for k := int64(0); k < n; k++ {
		stored := e.t.storedAt(locs[0].root, locs[0].path+fmt.Sprintf("/#%d", k))
		if len(stored) == 0 {
			continue
		}
		var alts [][]c01Piece
		plain := true
		for _, sv := range stored {
			if sv.path != "" {
				return nil, false
			}
			vs, st := e.text(sv.v, sv.cx, d+1)
			plain = plain && !st
			alts = append(alts, vs...)
		}
		if plain && len(alts) > 1 {
			// one element assigned from several places: alternatives of ONE position; their roles must agree
			var rep *c01Piece
			role := ""
			for _, a := range alts {
				for _, p := range a {
					if p.v == nil {
						role = "?"
						continue
					}
					if _, isK := p.v.(*ssa.Const); isK {
						continue
					}
					r := e.t.textRole(p.v, p.cx)
					if rep == nil {
						q := p
						rep, role = &q, r
					} else if r != role {
						role = "?"
					}
				}
			}
			switch {
			case role == "?":
				alts = c01One(nil, nil)
			case rep != nil:
				alts = [][]c01Piece{{*rep}}
			default:
				alts = [][]c01Piece{{}}
			}
		}
		out = c01Cat(out, alts)
	}
	return out, true
}

// ---- the updater ---------------------------------------------------------------------------------------------------

// c01Op is an operation on the table buffer, with the chain of call instructions that leads to it from the updater.
type c01Op struct {
	kind  string // reset, write, parse
	role  string // for writes: WatchServices, WatchManual, "" (constant), "?"
	chain []ssa.Instruction
	seq   int  // order among the pieces of one text (operations with the same chain)
	vnt   int  // the variant of the text the piece belongs to (0: none); pieces of different variants are alternatives
	fresh bool // reset: the buffer is allocated here
}

// c01Alternatives: two pieces of different variants of the same text: they never occur together.
func c01Alternatives(a, b c01Op) bool {
	if a.vnt == 0 || b.vnt == 0 || a.vnt == b.vnt || len(a.chain) != len(b.chain) {
		return false
	}
	for k := range a.chain {
		if a.chain[k] != b.chain[k] {
			return false
		}
	}
	return true
}

// c01Before: a is executed before b on every path to b (compared in the first function where their chains differ).
func c01Before(a, b c01Op) bool {
	if len(a.chain) == len(b.chain) {
		same := true
		for k := range a.chain {
			if a.chain[k] != b.chain[k] {
				same = false
			}
		}
		if same {
			return a.seq < b.seq
		}
	}
	for k := 0; k < len(a.chain) && k < len(b.chain); k++ {
		if a.chain[k] != b.chain[k] {
			if a.chain[k].Parent() != b.chain[k].Parent() {
				return false
			}
			return dominatesInstr(a.chain[k], b.chain[k])
		}
	}
	return false
}

type c01Upd struct {
	c     *Ctx
	t     *c01Tr
	upd   *ssa.Function
	sel   *ssa.Select
	reg   []*ssa.Function
	inReg map[*ssa.Function]bool
	seq   int
	vnt   int
}

func c01IsParse(i ssa.Instruction) bool {
	call, ok := i.(*ssa.Call)
	if !ok {
		return false
	}
	sc := call.Call.StaticCallee()
	return sc != nil && funcName(sc) == c01NewTable
}

// c01UpdRegion: the updater, the same-package helpers it calls and its closures (c.region), the methods it calls
// through an interface, and the helpers of other packages that lead to the parse.
func c01UpdRegion(c *Ctx, t *c01Tr, root *ssa.Function) []*ssa.Function {
	var out []*ssa.Function
	seen := map[*ssa.Function]bool{}
	var add func(f *ssa.Function, d int)
	add = func(f *ssa.Function, d int) {
		for _, g := range c.region(f) {
			if seen[g] {
				continue
			}
			seen[g] = true
			out = append(out, g)
			if d >= 3 {
				continue
			}
			eachInstr(g, func(i ssa.Instruction) {
				ci, ok := i.(ssa.CallInstruction)
				if !ok {
					return
				}
				cc := ci.Common()
				if cc.IsInvoke() {
					it, _ := cc.Value.Type().Underlying().(*types.Interface)
					for _, m := range c.AllFns {
						if it == nil || m.Signature.Recv() == nil || m.Name() != cc.Method.Name() || seen[m] {
							continue
						}
						if types.Implements(m.Signature.Recv().Type(), it) && mayExec(m, c01IsParse, 0) {
							add(m, d+1)
						}
					}
					return
				}
				if sc := c01RepoCallee(cc); sc != nil && !seen[sc] && rootPkg(sc) != rootPkg(g) && funcName(sc) != c01NewTable && mayExec(sc, c01IsParse, 0) {
					add(sc, d+1)
				}
			})
		}
	}
	add(root, 0)
	return out
}

func (u *c01Upd) chainOf(i ssa.Instruction, d int) []ssa.Instruction {
	f := i.Parent()
	if f == u.upd || d > 5 {
		return []ssa.Instruction{i}
	}
	var sites []ssa.CallInstruction
	for _, s := range u.t.sitesOf(f) {
		if u.inReg[s.Parent()] {
			sites = append(sites, s)
		}
	}
	if len(sites) != 1 {
		return []ssa.Instruction{i}
	}
	return append(u.chainOf(sites[0], d+1), i)
}

var c01TextCtors = map[string]bool{"bytes.NewBufferString": true, "bytes.NewBuffer": true, "strings.NewReader": true, "bytes.NewReader": true}

var c01BufString = map[string]bool{"(*bytes.Buffer).String": true, "(*strings.Builder).String": true, "(*bytes.Buffer).Bytes": true}

// bufOps: the resets of and the writes into the buffer object(s) buf, anywhere in the region.
func (u *c01Upd) bufOps(buf []c01Loc, d int) []c01Op {
	var ops []c01Op
	if d > 2 {
		return nil
	}
	for _, l := range buf {
		if a, ok := l.root.(*ssa.Alloc); ok && u.inReg[a.Parent()] {
			ops = append(ops, c01Op{kind: "reset", chain: u.chainOf(a, 0), fresh: true})
		}
	}
	eachInstrOf(u.reg, func(f *ssa.Function, i ssa.Instruction) {
		cc := callCommon(i)
		if cc == nil || len(cc.Args) == 0 || cc.IsInvoke() {
			return
		}
		n := calleeName(cc)
		switch n {
		case "(*bytes.Buffer).Reset", "(*strings.Builder).Reset":
			if c01LocsEqual(u.t.locsOf(cc.Args[0], nil), buf) {
				ops = append(ops, c01Op{kind: "reset", chain: u.chainOf(i, 0)})
			}
		case "(*bytes.Buffer).Truncate":
			if k, ok := constInt(cc.Args[1]); ok && k == 0 && c01LocsEqual(u.t.locsOf(cc.Args[0], nil), buf) {
				ops = append(ops, c01Op{kind: "reset", chain: u.chainOf(i, 0)})
			}
		case "(*bytes.Buffer).WriteString", "(*bytes.Buffer).Write", "(*bytes.Buffer).WriteByte", "(*bytes.Buffer).WriteRune",
			"(*strings.Builder).WriteString", "(*strings.Builder).Write", "(*strings.Builder).WriteByte", "(*strings.Builder).WriteRune":
			if !c01LocsMeet(u.t.locsOf(cc.Args[0], nil), buf) {
				return
			}
			ops = append(ops, u.writeOps([]ssa.Value{cc.Args[1]}, nil, i, d)...)
		case "fmt.Fprint", "fmt.Fprintf", "fmt.Fprintln", "io.WriteString":
			if !c01LocsMeet(u.t.locsOf(stripIface(cc.Args[0]), nil), buf) {
				return
			}
			var texts []ssa.Value
			if n == "io.WriteString" {
				texts = []ssa.Value{cc.Args[1]}
			} else {
				texts = c01Variadic(cc.Args[len(cc.Args)-1])
			}
			ops = append(ops, u.writeOps(texts, nil, i, d)...)
		}
	})
	return ops
}

// pieceOps: the pieces of the variants as write operations at chain, in the order of the text. sub is called for the
// String() of a builder / another buffer.
func (u *c01Upd) pieceOps(variants [][]c01Piece, chain []ssa.Instruction, sub func(call *ssa.Call, p c01Piece) []c01Op) (ops []c01Op, composed bool) {
	for _, variant := range variants {
		u.vnt++
		for _, p := range variant {
			if p.v == nil {
				u.seq++
				composed = true
				ops = append(ops, c01Op{kind: "write", role: "?", chain: chain, seq: u.seq, vnt: u.vnt})
				continue
			}
			if _, isK := p.v.(*ssa.Const); isK {
				continue
			}
			if call, ok := p.v.(*ssa.Call); ok && sub != nil && c01BufString[calleeName(&call.Call)] && len(call.Call.Args) > 0 {
				ops = append(ops, sub(call, p)...)
				continue
			}
			role := u.t.textRole(p.v, p.cx)
			if role == "" {
				continue // nothing but constants
			}
			u.seq++
			composed = true
			ops = append(ops, c01Op{kind: "write", role: role, chain: chain, seq: u.seq, vnt: u.vnt})
		}
	}
	return ops, composed
}

// writeOps: the pieces of the text written by instruction at, as write operations in the order of the text.
func (u *c01Upd) writeOps(texts []ssa.Value, cx *c01Cx, at ssa.Instruction, d int) []c01Op {
	e := &c01Exp{t: u.t, active: map[c01TrKey]bool{}}
	variants := [][]c01Piece{{}}
	for _, text := range texts {
		vs, _ := e.text(text, cx, 0)
		variants = c01Cat(variants, vs)
	}
	ops, _ := u.pieceOps(variants, u.chainOf(at, 0), nil)
	return ops
}

// textOps: the candidate text is a value (concatenation, Sprintf, Join, the result of a rendering helper, the String()
// of a builder): it is "reset" where it is composed, and its pieces are the writes, ordered by their position.
func (u *c01Upd) textOps(text ssa.Value, cx *c01Cx, holder ssa.Instruction, d int) []c01Op {
	e := &c01Exp{t: u.t, active: map[c01TrKey]bool{}, inReg: u.inReg}
	variants, _ := e.text(text, cx, 0)
	at := e.at
	if at == nil {
		at = holder
	}
	chain := u.chainOf(at, 0)
	ops, composed := u.pieceOps(variants, chain, func(call *ssa.Call, p c01Piece) []c01Op {
		// the text of a builder / of another buffer: what was written into that
		return u.bufOps(u.t.locsOf(call.Call.Args[0], p.cx), d+1)
	})
	if composed {
		ops = append(ops, c01Op{kind: "reset", chain: chain, seq: -1})
	}
	return ops
}

func runC01B1(c *Ctx) {
	t := newC01Tr(c)
	// the select over the two registry channels
	var sel *ssa.Select
	for _, f := range c.AllFns {
		eachInstr(f, func(i ssa.Instruction) {
			s, ok := i.(*ssa.Select)
			if !ok || sel != nil {
				return
			}
			svc, man := false, false
			for _, st := range s.States {
				if st.Dir != types.RecvOnly {
					continue
				}
				if ch, ok := st.Chan.Type().Underlying().(*types.Chan); !ok || !c01IsStringType(ch.Elem()) {
					continue
				}
				switch t.chanRole(st.Chan, nil) {
				case "WatchServices":
					svc = true
				case "WatchManual":
					man = true
				}
			}
			if svc && man {
				sel = s
			}
		})
	}
	if sel == nil {
		c.undecided("C01.B1", "anchor|table updater (by role)", "no function selects over the channels of WatchServices() and WatchManual()")
		return
	}
	// the updater: the innermost function around the select whose region parses a table
	u := &c01Upd{c: c, t: t, sel: sel, upd: sel.Parent()}
	for hop := 0; hop < 5; hop++ {
		u.reg = c01UpdRegion(c, t, u.upd)
		has := false
		eachInstrOf(u.reg, func(f *ssa.Function, i ssa.Instruction) {
			if c01IsParse(i) {
				has = true
			}
		})
		if has {
			break
		}
		if p := u.upd.Parent(); p != nil {
			u.upd = p
			continue
		}
		sites := t.sitesOf(u.upd)
		if len(sites) != 1 || sites[0].Parent() == nil {
			break
		}
		u.upd = sites[0].Parent()
	}
	u.inReg = map[*ssa.Function]bool{}
	for _, f := range u.reg {
		u.inReg[f] = true
	}
	upd := u.upd
	var parses []*ssa.Call
	eachInstrOf(u.reg, func(f *ssa.Function, i ssa.Instruction) {
		if c01IsParse(i) {
			parses = append(parses, i.(*ssa.Call))
		}
	})
	if len(parses) == 0 {
		c.undecided("C01.B1", fnKey(upd)+"|NewTable call", "the updater (and its helpers) never calls route.NewTable")
		return
	}
	// the instruction of the updater that receives the update, and the loop around it
	selTop := u.chainOf(sel, 0)[0]
	var lp *loop
	if selTop.Parent() == upd {
		for _, l := range loopsOf(upd) {
			if l.Body[selTop.Block()] && (lp == nil || len(l.Body) < len(lp.Body)) {
				lp = l
			}
		}
	}
	for _, parse := range parses {
		var ops []c01Op
		pop := c01Op{kind: "parse", chain: u.chainOf(parse, 0), seq: 1 << 30}
		arg := parse.Call.Args[0]
		if c01IsStringType(arg.Type()) {
			ops = u.textOps(arg, nil, parse, 0)
		} else {
			var buf []c01Loc
			for _, l := range t.locsOf(stripIface(arg), nil) {
				if mk, ok := l.root.(*ssa.Call); ok && c01TextCtors[calleeName(&mk.Call)] && len(mk.Call.Args) > 0 {
					// the buffer is made from a text: bytes.NewBufferString(svc + "\n" + man)
					ops = append(ops, u.textOps(mk.Call.Args[0], nil, mk, 0)...)
					continue
				}
				buf = append(buf, l)
			}
			if len(buf) > 0 {
				ops = append(ops, u.bufOps(buf, 0)...)
			}
		}
		var svcW, manW, resets []c01Op
		for _, op := range ops {
			switch {
			case op.kind == "reset":
				if op.fresh {
					// a buffer allocated before the loop is not fresh in the second round
					top := op.chain[0]
					if top.Parent() != upd || (lp != nil && !lp.Body[top.Block()]) {
						continue
					}
				}
				resets = append(resets, op)
			case op.role == "WatchServices":
				svcW = append(svcW, op)
			case op.role == "WatchManual":
				manW = append(manW, op)
			default:
				last := op.chain[len(op.chain)-1]
				c.check("C01.B1", fnKey(upd)+"|table text only from the registry channels", last.Pos(), false, "a text written into the table buffer does not come from WatchServices()/WatchManual()")
			}
		}
		before := c01Before
		// some service text is followed by a manual text, and no manual text precedes a service text (pieces of
		// different variants of one text are alternatives, not a sequence)
		ok, bad := false, false
		for _, s := range svcW {
			for _, m := range manW {
				switch {
				case c01Alternatives(s, m):
				case before(s, m):
					ok = true
				default:
					bad = true
				}
			}
		}
		ok = ok && !bad
		c.check("C01.B1", fnKey(upd)+"|service text before manual text", parse.Pos(), ok,
			"the operator's manual route commands must be applied on top of the service routes: the buffer parsed by NewTable must contain the service text first and the manual text after it (route del/weight overrides only work in that order)")
		okReset := len(resets) >= 1
		for _, w := range append(append([]c01Op{}, svcW...), manW...) {
			dom := false
			for _, r := range resets {
				if before(r, w) {
					dom = true
				}
			}
			if !dom || !before(w, pop) {
				okReset = false
			}
		}
		c.check("C01.B1", fnKey(upd)+"|buffer reset, then written, then parsed", parse.Pos(), okReset,
			"the buffer must be Reset before the two texts are written and both writes must precede NewTable; otherwise texts of earlier updates accumulate (instances that left the registry keep their routes)")

		// B2: every update received from either registry channel reaches the rebuild: from the select, the loop head
		// (without a loop in the updater: its return) is not reachable without passing the reset of the buffer (the
		// only legitimate skip is the unchanged-text comparison after it)
		if selTop.Parent() != upd || len(resets) == 0 {
			c.undecided("C01.B2", fnKey(upd)+"|every registry update is considered for a rebuild", "the select over the registry channels is not reached from the updater by a single chain of calls, or the rebuild of the candidate text was not found")
			continue
		}
		pass := func(i ssa.Instruction) bool {
			for _, r := range resets {
				if r.chain[0] != i {
					continue
				}
				if len(r.chain) == 1 {
					return true
				}
				// the call in the updater must perform the reset on all of its paths
				if u.mustReach(i, r.chain[len(r.chain)-1], 0) {
					return true
				}
			}
			return false
		}
		skip := false
		type item struct {
			b   *ssa.BasicBlock
			idx int
		}
		seen := map[*ssa.BasicBlock]bool{}
		stack := []item{{selTop.Block(), instrIndex(selTop) + 1}}
		for len(stack) > 0 && !skip {
			it := stack[len(stack)-1]
			stack = stack[:len(stack)-1]
			blocked := false
			for k := it.idx; k < len(it.b.Instrs); k++ {
				if pass(it.b.Instrs[k]) {
					blocked = true
					break
				}
				if _, isRet := it.b.Instrs[k].(*ssa.Return); isRet && lp == nil {
					skip = true
				}
			}
			if blocked {
				continue
			}
			for _, sx := range it.b.Succs {
				switch {
				case lp != nil && sx == lp.Head:
					skip = true
				case (lp == nil || lp.Body[sx]) && !seen[sx]:
					seen[sx] = true
					stack = append(stack, item{sx, 0})
				}
			}
		}
		c.check("C01.B2", fnKey(upd)+"|every registry update is considered for a rebuild", sel.Pos(), !skip,
			"an update received from the service or the manual channel can return to the select without rebuilding the candidate text: operator overrides (or service changes) received on that path are never applied — e.g. KV edits while no tagged instance is healthy")
	}
}

// mustReach: the call instruction i executes target on every path of its callee (static callee, or every method of
// the region an interface call may denote), through further calls.
func (u *c01Upd) mustReach(i ssa.Instruction, target ssa.Instruction, d int) bool {
	ci, ok := i.(*ssa.Call)
	if !ok || d > 4 {
		return false
	}
	var callees []*ssa.Function
	if ci.Call.IsInvoke() {
		it, _ := ci.Call.Value.Type().Underlying().(*types.Interface)
		for _, m := range u.reg {
			if it != nil && m.Signature.Recv() != nil && m.Name() == ci.Call.Method.Name() && types.Implements(m.Signature.Recv().Type(), it) {
				callees = append(callees, m)
			}
		}
	} else if sc := c01RepoCallee(&ci.Call); sc != nil {
		callees = append(callees, sc)
	}
	if len(callees) == 0 {
		return false
	}
	for _, fn := range callees {
		pred := func(j ssa.Instruction) bool {
			if j == target {
				return true
			}
			if jc, ok := j.(*ssa.Call); ok && jc.Call.IsInvoke() {
				return u.mustReach(j, target, d+1)
			}
			return false
		}
		if !mustExec(fn, pred, 0) {
			return false
		}
	}
	return true
}
