package main

// C07 rules about the URL sent upstream (U1, U2, Q1) and the route gate (G1), formulated on the alias set of the
// upstream URL (every SSA value that may denote it, in whatever function) instead of on one literal in ServeHTTP.

import (
	"go/token"
	"sort"
	"strings"

	"golang.org/x/tools/go/ssa"
)

type c07url struct {
	c         *Ctx
	fns       []*ssa.Function // where aliases of the URL are looked for: the whole repository
	inPkg     map[*ssa.Function]bool
	S         map[ssa.Value]bool // aliases of the upstream URL
	directors map[*ssa.Function]bool
	mustMemo  map[string]int  // fn|field -> 1 computing, 2 no, 3 yes
	carrier   map[string]bool // type -> a carrier struct holding the URL in one of its fields
}

// c07directorSources: the URLs whose Path a Director copies into the outgoing request (`req.URL.Path = target.Path`),
// and the Directors that copy the Path without copying the RawPath.
func c07directorSources(c *Ctx, directors []*ssa.Function) (seeds []ssa.Value, pathOnly []*ssa.Function) {
	for _, d := range directors {
		copiesPath, copiesRaw := false, false
		eachInstrOf(c.region(d), func(_ *ssa.Function, i ssa.Instruction) {
			st, ok := i.(*ssa.Store)
			if !ok {
				return
			}
			fa, ok := st.Addr.(*ssa.FieldAddr)
			if !ok || !namedIs(fa.X.Type(), "net/url.URL") {
				return
			}
			fname := fieldName(fa.X.Type(), fa.Field)
			if fname != "Path" && fname != "RawPath" {
				return
			}
			src, ok := fieldOf(st.Val, "net/url.URL", fname)
			if !ok || !isURLPtr(src.Type()) {
				return
			}
			if fname == "Path" {
				seeds = append(seeds, src)
				copiesPath = true
			} else {
				copiesRaw = true
			}
		})
		if copiesPath && !copiesRaw {
			pathOnly = append(pathOnly, d)
		}
	}
	return seeds, pathOnly
}

func newC07url(c *Ctx, serve *ssa.Function, directors []*ssa.Function) (*c07url, bool) {
	// the URL may be built anywhere in the repository (e.g. by a method of route.Target next to BuildRedirectURL)
	u := &c07url{c: c, fns: c.AllFns, inPkg: map[*ssa.Function]bool{}, directors: map[*ssa.Function]bool{}, mustMemo: map[string]int{}, carrier: map[string]bool{}}
	for _, f := range u.fns {
		u.inPkg[f] = true
	}
	for _, d := range directors {
		u.directors[d] = true
	}
	seeds, _ := c07directorSources(c, directors)
	// the websocket path hands the URL over by installing it in the request
	eachInstrOf(c.region(serve), func(_ *ssa.Function, i ssa.Instruction) {
		if st, ok := i.(*ssa.Store); ok {
			if _, isURL := fieldOf(st.Addr, "net/http.Request", "URL"); isURL {
				if _, isAddr := st.Addr.(*ssa.FieldAddr); isAddr {
					seeds = append(seeds, st.Val)
				}
			}
		}
	})
	if len(seeds) == 0 {
		return nil, false
	}
	u.S = c07aliases(u.fns, seeds)
	return u, true
}

// ---- shapes of path values -----------------------------------------------------------------------------------------

// kinds: which path operations occur in the expression v: "strip" (a slice from an offset, strings.TrimPrefix /
// CutPrefix), "prepend" (a concatenation), "abs" (a concatenation with a leading "/"). Results of repository helpers
// are looked into; their parameters are leaves whose arguments are looked into as well.
func (u *c07url) kinds(v ssa.Value) map[string]bool {
	out := map[string]bool{}
	seen := map[ssa.Value]bool{}
	var walk func(v ssa.Value, d int)
	walk = func(v ssa.Value, d int) {
		if v == nil || seen[v] || d > 12 {
			return
		}
		seen[v] = true
		switch x := v.(type) {
		case *ssa.Slice:
			if x.Low != nil && isStringType(x.Type()) {
				out["strip"] = true
			}
			walk(x.X, d+1)
		case *ssa.BinOp:
			if x.Op == token.ADD && isStringType(x.Type()) {
				if s, ok := constString(x.X); ok && strings.HasPrefix(s, "/") {
					out["abs"] = true
				} else {
					out["prepend"] = true
				}
				walk(x.X, d+1)
				walk(x.Y, d+1)
			}
		case *ssa.Phi:
			for _, e := range x.Edges {
				walk(e, d+1)
			}
		case *ssa.ChangeType:
			walk(x.X, d+1)
		case *ssa.Extract:
			walk(x.Tuple, d+1)
		case *ssa.UnOp:
			if x.Op == token.MUL {
				if a, ok := x.X.(*ssa.Alloc); ok && a.Referrers() != nil {
					for _, r := range *a.Referrers() {
						if st, ok := r.(*ssa.Store); ok && st.Addr == a {
							walk(st.Val, d+1)
						}
					}
				}
			}
		case *ssa.Call:
			switch calleeName(&x.Call) {
			case "strings.TrimPrefix", "strings.CutPrefix":
				out["strip"] = true
			}
			for _, a := range x.Call.Args {
				if isStringType(a.Type()) {
					walk(a, d+1)
				}
			}
			if sc := x.Call.StaticCallee(); sc != nil && isRepoFn(sc) && len(sc.Blocks) > 0 {
				eachInstr(sc, func(i ssa.Instruction) {
					if r, ok := i.(*ssa.Return); ok {
						for _, res := range r.Results {
							if isStringType(res.Type()) {
								walk(res, d+1)
							}
						}
					}
				})
			}
		}
	}
	walk(v, 0)
	return out
}

func kindList(k map[string]bool) string {
	var s []string
	for x := range k {
		if x != "abs" {
			s = append(s, x)
		}
	}
	sort.Strings(s)
	return strings.Join(s, "+")
}

// isAbsFact: the fact says that the string for which isVal holds starts with "/" (for RawPath: or is empty, which
// means "use the default encoding of Path").
func isAbsFact(f Fact, isVal func(ssa.Value) bool, field string) bool {
	if call, ok := isCallTo(f.Cond, "strings.HasPrefix"); ok && len(call.Call.Args) == 2 {
		if s, isK := constString(call.Call.Args[1]); isK && s == "/" && isVal(call.Call.Args[0]) {
			return f.Truth
		}
		return false
	}
	if v, empty, ok := c07emptyFact(f); ok {
		return field == "RawPath" && empty && isVal(v)
	}
	if b, ok := f.Cond.(*ssa.BinOp); ok && (b.Op == token.EQL || b.Op == token.NEQ) {
		x, y := b.X, b.Y
		if _, isK := x.(*ssa.Const); isK {
			x, y = y, x
		}
		var str, index ssa.Value
		switch e := x.(type) {
		case *ssa.Lookup:
			str, index = e.X, e.Index
		case *ssa.Index:
			str, index = e.X, e.Index
		}
		ch, isCh := constInt(y)
		if str != nil && isStringType(str.Type()) && isCh && ch == '/' && isVal(str) {
			if idx, isIdx := constInt(index); isIdx && idx == 0 {
				return (b.Op == token.EQL) == f.Truth
			}
		}
	}
	return false
}

// absVal: the string value is an absolute path by construction: "/"+x, the client's own path, a merge of such values,
// a value selected under a HasPrefix(v, "/") test, or the result of a helper all of whose returns are.
func (u *c07url) absVal(v ssa.Value, field string, seen map[ssa.Value]bool, depth int) bool {
	if v == nil || depth > 10 {
		return false
	}
	if seen[v] {
		return true // a cycle (loop-carried value) adds nothing
	}
	seen[v] = true
	defer delete(seen, v) // `seen` is the set of values under evaluation, not a memo: a value that is not absolute but
	// was excused by a guard on one edge must be judged again when it is reached over another edge
	guarded := func(val ssa.Value, g c07guard) bool {
		return c07holdsGuard(g, func(f Fact) bool { return isAbsFact(f, sameVal(val), field) })
	}
	switch x := v.(type) {
	case *ssa.Const:
		s, ok := constString(x)
		return ok && (strings.HasPrefix(s, "/") || (field == "RawPath" && s == ""))
	case *ssa.BinOp:
		if x.Op == token.ADD {
			if s, ok := constString(x.X); ok {
				return strings.HasPrefix(s, "/")
			}
		}
		return false
	case *ssa.ChangeType:
		return u.absVal(x.X, field, seen, depth+1)
	case *ssa.Phi:
		for k, e := range x.Edges {
			if !u.absVal(e, field, seen, depth+1) && !guarded(e, c07guard{x.Block().Preds[k], x.Block()}) {
				return false
			}
		}
		return len(x.Edges) > 0
	case *ssa.UnOp:
		if x.Op != token.MUL {
			return false
		}
		if c07requestURLField(x, field) {
			return true // what the client sent (origin-form request target)
		}
		if a, ok := x.X.(*ssa.Alloc); ok && a.Referrers() != nil {
			n := 0
			for _, r := range *a.Referrers() {
				if st, ok := r.(*ssa.Store); ok && st.Addr == a {
					n++
					if !u.absVal(st.Val, field, seen, depth+1) && !guarded(st.Val, c07guard{st.Block(), nil}) {
						return false
					}
				}
			}
			return n > 0
		}
		return false
	case *ssa.Extract:
		if call, ok := x.Tuple.(*ssa.Call); ok {
			return u.absResults(call, x.Index, field, seen, depth)
		}
	case *ssa.Call:
		return u.absResults(x, 0, field, seen, depth)
	}
	return false
}

func (u *c07url) absResults(call *ssa.Call, idx int, field string, seen map[ssa.Value]bool, depth int) bool {
	sc := call.Call.StaticCallee()
	if sc == nil || !isRepoFn(sc) || len(sc.Blocks) == 0 {
		return false
	}
	return c07allReturns(sc, idx, func(res ssa.Value) bool {
		if u.absVal(res, field, seen, depth+1) {
			return true
		}
		for _, b := range sc.Blocks {
			for _, i := range b.Instrs {
				if r, ok := i.(*ssa.Return); ok && idx < len(r.Results) && r.Results[idx] == res {
					if !c07holdsBlock(b, func(f Fact) bool { return isAbsFact(f, sameVal(res), field) }, map[*ssa.BasicBlock]bool{}) {
						return false
					}
				}
			}
		}
		return true
	})
}

// ---- flow: from a transformation to the hand-over --------------------------------------------------------------------

// normStore: a store to the field of the upstream URL whose value is absolute by construction.
func (u *c07url) normStore(i ssa.Instruction, field string) bool {
	st, ok := i.(*ssa.Store)
	if !ok {
		return false
	}
	fa, ok := st.Addr.(*ssa.FieldAddr)
	if !ok || !u.S[fa.X] || fieldName(fa.X.Type(), fa.Field) != field {
		return false
	}
	return u.absVal(st.Val, field, map[ssa.Value]bool{}, 0)
}

// useDirect: the instruction hands the URL over to what talks to the upstream: it is bound into a Director, or
// installed as the request's URL (websocket path).
func (u *c07url) useDirect(i ssa.Instruction) bool {
	switch x := i.(type) {
	case *ssa.Store:
		if u.S[x.Val] {
			if _, isFA := x.Addr.(*ssa.FieldAddr); isFA {
				_, isURL := fieldOf(x.Addr, "net/http.Request", "URL")
				return isURL
			}
		}
	case *ssa.MakeClosure:
		// bound into a Director: as a captured variable, or as the receiver of a method value (`u.direct`) that carries it
		if fn, ok := x.Fn.(*ssa.Function); ok && u.directors[unwrap(fn)] {
			for _, b := range x.Bindings {
				if u.holds(b) {
					return true
				}
			}
		}
	case *ssa.Call:
		// a Director that is a named function or method taking the URL
		if sc := x.Call.StaticCallee(); sc != nil && u.directors[unwrap(sc)] {
			for _, a := range x.Call.Args {
				if u.holds(a) {
					return true
				}
			}
		}
	}
	return false
}

// holds: v is the upstream URL or a carrier struct (value or pointer) one of whose fields holds it.
func (u *c07url) holds(v ssa.Value) bool {
	if u.S[v] {
		return true
	}
	k := typeStr(v.Type())
	if r, ok := u.carrier[k]; ok {
		return r
	}
	r := c07carrierOf(v.Type(), u.S)
	u.carrier[k] = r
	return r
}

func (u *c07url) passesAlias(cc *ssa.CallCommon) bool {
	for _, a := range cc.Args {
		if u.holds(a) {
			return true
		}
	}
	return false
}

// walk explores the paths that start at b.Instrs[idx]. It stops a path at a normalisation of `field` (a normalising
// store, the normalised edge of a test of the field, a helper that normalises on all of its paths) and reports true
// when a hand-over of the URL is reachable before that - or, in must mode, when the function can return before that.
// Outside must mode a return continues behind the static call sites of the function.
func (u *c07url) walk(b *ssa.BasicBlock, idx int, field string, must bool, depth int, seen map[*ssa.BasicBlock]bool, seenSite map[ssa.Instruction]bool) bool {
	type item struct {
		b   *ssa.BasicBlock
		idx int
	}
	isLoad := func(v ssa.Value) bool { return c07isFieldLoad(v, u.S, field) }
	stack := []item{{b, idx}}
	for len(stack) > 0 {
		it := stack[len(stack)-1]
		stack = stack[:len(stack)-1]
		stopped := false
		for k := it.idx; k < len(it.b.Instrs) && !stopped; k++ {
			in := it.b.Instrs[k]
			if u.normStore(in, field) {
				stopped = true
				break
			}
			if call, ok := in.(*ssa.Call); ok {
				if sc := call.Call.StaticCallee(); sc != nil && isRepoFn(sc) && len(sc.Blocks) > 0 && u.passesAlias(&call.Call) && !u.directors[unwrap(sc)] {
					if u.mustNorm(unwrap(sc), field) {
						stopped = true
						break
					}
					if mayExec(unwrap(sc), u.useDirect, 1) {
						return true
					}
					continue
				}
			}
			if u.useDirect(in) {
				return true
			}
			if _, isRet := in.(*ssa.Return); isRet {
				if must {
					return true
				}
				fn := it.b.Parent()
				if depth < 3 {
					for _, s := range gSites[fn] {
						call, isCall := s.(*ssa.Call)
						if !isCall || seenSite[s] || !u.inPkg[s.Parent()] || s.Parent() == fn {
							continue
						}
						seenSite[s] = true
						if u.walk(call.Block(), instrIndex(call)+1, field, false, depth+1, map[*ssa.BasicBlock]bool{}, seenSite) {
							return true
						}
					}
				}
				stopped = true
			}
		}
		if stopped {
			continue
		}
		for _, sx := range it.b.Succs {
			if f, ok := c07edgeFact(it.b, sx); ok && isAbsFact(f, isLoad, field) {
				continue // on this edge the field is known to be absolute
			}
			if !seen[sx] {
				seen[sx] = true
				stack = append(stack, item{sx, 0})
			}
		}
	}
	return false
}

// mustNorm: on every path through fn the field of the upstream URL is normalised before fn returns or hands it over.
func (u *c07url) mustNorm(fn *ssa.Function, field string) bool {
	key := fn.String() + "|" + field
	switch u.mustMemo[key] {
	case 1, 2:
		return false
	case 3:
		return true
	}
	u.mustMemo[key] = 1
	bad := u.walk(fn.Blocks[0], 0, field, true, 0, map[*ssa.BasicBlock]bool{fn.Blocks[0]: true}, map[ssa.Instruction]bool{})
	if bad {
		u.mustMemo[key] = 2
	} else {
		u.mustMemo[key] = 3
	}
	return !bad
}

// ---- U1 / U2 -------------------------------------------------------------------------------------------------------------

func (u *c07url) runU(pathOnly []*ssa.Function, anchor token.Pos) {
	c := u.c
	stores := map[string][]*ssa.Store{"Path": c07fieldStores(u.fns, u.S, "Path"), "RawPath": c07fieldStores(u.fns, u.S, "RawPath")}
	kindsOf := map[*ssa.Store]map[string]bool{}
	all := map[string]map[string]bool{"Path": {}, "RawPath": {}}
	for f, sts := range stores {
		for _, st := range sts {
			k := u.kinds(st.Val)
			kindsOf[st] = k
			for x := range k {
				all[f][x] = true
			}
		}
	}
	nRoles := 0
	for _, k := range []string{"strip", "prepend"} {
		if all["Path"][k] {
			nRoles++
		}
	}
	c.atLeast("C07.U2", "path transformations (strip and prepend) on the URL sent upstream", nRoles, 2)

	// U2: every transformed Path / RawPath is normalised before the URL is handed over
	for _, field := range []string{"Path", "RawPath"} {
		for _, st := range stores[field] {
			k := kindsOf[st]
			if !k["strip"] && !k["prepend"] {
				continue
			}
			if u.absVal(st.Val, field, map[ssa.Value]bool{}, 0) {
				c.check("C07.U2", fnKey(st.Parent())+"|absolute "+field+" after "+kindList(k), st.Pos(), true, "the stored value is absolute by construction")
				continue
			}
			bad := u.walk(st.Block(), instrIndex(st)+1, field, false, 0, map[*ssa.BasicBlock]bool{}, map[ssa.Instruction]bool{})
			what := "HasPrefix(path, \"/\") true, or \"/\"+path"
			if field == "RawPath" {
				what = "RawPath empty, HasPrefix(rawpath, \"/\") true, or \"/\"+rawpath"
			}
			c.check("C07.U2", fnKey(st.Parent())+"|absolute "+field+" after "+kindList(k), st.Pos(), !bad,
				"after "+kindList(k)+" the upstream "+field+" can reach the proxy without passing the absolute-path normalisation ("+what+"): a request target that is not origin-form is rejected or misrouted by the upstream (RFC 7230 5.3); a RawPath that is a valid encoding of Path is sent as it is")
		}
	}

	// U1: what is done to Path is done to RawPath
	for _, st := range stores["Path"] {
		for _, k := range []string{"strip", "prepend"} {
			if !kindsOf[st][k] {
				continue
			}
			ok := false
			for _, rs := range stores["RawPath"] {
				if !kindsOf[rs][k] {
					continue
				}
				if rs.Parent() != st.Parent() {
					ok = true
				} else if sameRegion(st, rs) && (canReach(st, rs) || canReach(rs, st)) {
					ok = true
				}
			}
			c.check("C07.U1", fnKey(st.Parent())+"|"+k+" applied to RawPath as well", st.Pos(), ok,
				k+" rewrites url.URL.Path but not RawPath: the client's RawPath then no longer encodes the new Path and is ignored by EscapedPath(), so an encoded slash (%2F) in the client's path is silently decoded whenever the option applies (sibling Target.BuildRedirectURL transforms RawPath as well)")
		}
	}
	// the URL starts from the client's RawPath and the Director hands it on
	fromReq := false
	for _, rs := range stores["RawPath"] {
		for _, l := range c07leaves(rs.Val) {
			if c07requestURLField(l, "RawPath") {
				fromReq = true
			}
		}
		if derives(rs.Val, func(v ssa.Value) bool { return c07requestURLField(v, "RawPath") }) {
			fromReq = true
		}
	}
	// or the URL starts as a copy of the request's URL
	eachInstrOf(u.fns, func(_ *ssa.Function, i ssa.Instruction) {
		if st, ok := i.(*ssa.Store); ok && u.S[st.Addr] {
			if _, isReqURL := fieldOf(st.Val, "net/http.Request", "URL"); isReqURL {
				fromReq = true
			} else if ld, ok := st.Val.(*ssa.UnOp); ok && ld.Op == token.MUL {
				if _, isReqURL := fieldOf(ld.X, "net/http.Request", "URL"); isReqURL {
					fromReq = true
				}
			}
		}
	})
	c.check("C07.U1", "upstream URL|RawPath starts from the client's RawPath", anchor, fromReq, "the upstream URL must carry the client's RawPath (its percent-encoding)")
	for d := range u.directors {
		bad := false
		for _, x := range pathOnly {
			if x == d {
				bad = true
			}
		}
		c.check("C07.U1", fnKey(d)+"|Director hands the target's RawPath to the request", d.Pos(), !bad,
			"the Director sets req.URL.Path but leaves the client's RawPath: after strip/prepend it no longer matches and the encoding is lost (or, worse, a stale RawPath that still matches is sent instead of the rewritten path)")
	}
}

// ---- Q1 ----------------------------------------------------------------------------------------------------------------

// queryRole: 'R' the route's query, 'Q' the request's query, 'A' the separator, 'E' the empty string, 'X' anything else.
func c07queryRole(v ssa.Value) byte {
	if s, ok := constString(v); ok {
		switch s {
		case "&":
			return 'A'
		case "":
			return 'E'
		}
		return 'X'
	}
	base, ok := fieldOf(v, "net/url.URL", "RawQuery")
	if !ok {
		return 'X'
	}
	role := byte(0)
	for _, l := range c07leaves(base) {
		r := byte('X')
		if _, ok := fieldOf(l, "route.Target", "URL"); ok {
			r = 'R'
		} else if _, ok := fieldOf(l, "net/http.Request", "URL"); ok {
			r = 'Q'
		}
		if role != 0 && role != r {
			return 'X'
		}
		role = r
	}
	if role == 0 {
		return 'X'
	}
	return role
}

// c07valueRole: the role shared by all leaves of v (a helper's parameter stands for its arguments).
func c07valueRole(v ssa.Value) byte {
	role := byte(0)
	for _, l := range c07leaves(v) {
		r := c07queryRole(l)
		if role != 0 && role != r {
			return 'X'
		}
		role = r
	}
	if role == 0 {
		return 'X'
	}
	return role
}

func (u *c07url) runQ1() {
	c := u.c
	stores := c07fieldStores(u.fns, u.S, "RawQuery")
	c.atLeast("C07.Q1", "stores to the RawQuery of the URL sent upstream", len(stores), 1)
	// the role of the operand of an emptiness test; a helper's parameter stands for the argument of the call through
	// which this alternative was reached (the helper may have other callers with other arguments)
	var bind map[*ssa.Parameter]ssa.Value
	emptiness := func(role byte, empty bool) func(Fact) bool {
		return func(f Fact) bool {
			v, e, ok := c07emptyFact(f)
			if !ok || e != empty {
				return false
			}
			if p, isP := v.(*ssa.Parameter); isP && bind[p] != nil {
				v = bind[p]
			}
			return c07valueRole(v) == role
		}
	}
	either := func(p, q func(Fact) bool) func(Fact) bool {
		return func(f Fact) bool { return p(f) || q(f) }
	}
	for _, st := range stores {
		alts, complete := c07alts(st.Val, true)
		if !complete || len(alts) == 0 {
			c.undecided("C07.Q1", fnKey(st.Parent())+"|route query in front of the request query", "the value stored to RawQuery has too many shapes to enumerate")
			continue
		}
		ok, why := true, ""
		for _, a := range alts {
			a.Guards = append(a.Guards, c07guard{st.Block(), nil})
			bind = a.Bind
			pat := ""
			for _, l := range a.Seq {
				if r := c07queryRole(l); r != 'E' {
					pat += string(r)
				}
			}
			switch {
			case strings.Contains(pat, "X"):
				ok, why = false, "the merged query contains something that is neither the route's RawQuery, the request's RawQuery nor the separator (shape "+pat+"): the client's query must reach the upstream byte for byte"
			case pat == "RAQ":
				if !a.holds(emptiness('R', false)) || !a.holds(emptiness('Q', false)) {
					ok, why = false, "the queries are joined with \"&\" although one of them may be empty: the upstream would see a query the client did not send (\"&a=1\" / \"x=1&\")"
				}
			case pat == "RQ":
				if !a.holds(either(emptiness('R', true), emptiness('Q', true))) {
					ok, why = false, "the queries are concatenated without separator although both may be non-empty (\"x=1a=1\")"
				}
			case pat == "R":
				if !a.holds(emptiness('Q', true)) {
					ok, why = false, "the request's query is dropped although it may be non-empty"
				}
			case pat == "Q":
				if !a.holds(emptiness('R', true)) {
					ok, why = false, "the route's query is dropped although it may be non-empty"
				}
			case pat == "":
				if !a.holds(emptiness('R', true)) || !a.holds(emptiness('Q', true)) {
					ok, why = false, "the query is dropped although it may be non-empty"
				}
			default:
				ok, why = false, "shape "+pat+": the merged query must be <route query>[&]<request query> - the route's own parameters come first, the client's follow unchanged"
			}
			if !ok {
				break
			}
		}
		c.check("C07.Q1", fnKey(st.Parent())+"|route query in front of the request query", st.Pos(), ok,
			"the merged query must be <route query>[&]<request query>: the route's own parameters come first, the client's follow unchanged. "+why)
	}
}

// ---- G1 ----------------------------------------------------------------------------------------------------------------

// runC07G1: every upstream-contact site reachable from ServeHTTP lies behind the `target != nil` edge of the route
// lookup. A site that is a call of a helper of package proxy which performs the lookup itself is judged inside the
// helper. (Own variant of the shared runGateHTTP, which looks at the body of ServeHTTP only.)
func runC07G1(c *Ctx, serve *ssa.Function) {
	ci := &contactInfo{}
	sp := c.spkg("proxy")
	var okSite func(i ssa.Instruction, depth int, seen map[*ssa.Function]bool) bool
	okSite = func(i ssa.Instruction, depth int, seen map[*ssa.Function]bool) bool {
		if c07knownNonNil(i.Block()) {
			return true
		}
		cc := callCommon(i)
		if cc == nil || cc.StaticCallee() == nil || depth >= 3 {
			return false
		}
		g := unwrap(cc.StaticCallee())
		if rootPkg(g) != sp || len(g.Blocks) == 0 || seen[g] {
			return false
		}
		seen[g] = true
		n, all := 0, true
		eachInstr(g, func(j ssa.Instruction) {
			if _, ok := c.isContactInstr(ci, j); ok {
				n++
				if !okSite(j, depth+1, seen) {
					all = false
				}
			}
		})
		return all && n > 0
	}
	n := 0
	detail := " must be dominated by the `target != nil` edge of the route lookup (no upstream may be contacted for a request without a route)"
	eachInstr(serve, func(i ssa.Instruction) {
		how, ok := c.isContactInstr(ci, i)
		if !ok {
			return
		}
		n++
		c.check("C07.G1", "proxy.(*HTTPProxy).ServeHTTP|"+siteKey(how), i.Pos(), okSite(i, 0, map[*ssa.Function]bool{}), how+detail)
	})
	eachInstrOf(c.region(serve), func(f *ssa.Function, i ssa.Instruction) {
		if cc := callCommon(i); cc != nil && calleeName(cc) == "net/http.Redirect" {
			c.check("C07.G1", "proxy.(*HTTPProxy).ServeHTTP|calls net/http.Redirect", i.Pos(), c07knownNonNil(i.Block()), "calls net/http.Redirect"+detail)
		}
	})
	c.atLeast("C07.G1", "upstream-contact sites in HTTPProxy.ServeHTTP", n, 1)
}
