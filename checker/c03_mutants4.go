package main

// Overlay mutants of the round-4 rules of C03 (c03_round4.go): variants of the two defect families (a host key decided
// without the glob matcher; host candidates / targets taken from a memo keyed by too little) and the corrected
// variants of the same ideas, which must stay silent.

const (
	c03m4File = "route/table.go"

	// the part of the glob-mode host matcher's loop body that compiles and matches
	c03m4GlobBody = "\t\tg, err := globCache.Get(normpat)\n\t\tif err != nil {\n\t\t\t// a pattern which does not compile cannot match\n\t\t\tlog.Print(\"[ERROR] Compiling glob - \", err)\n\t\t\tcontinue\n\t\t}\n\n\t\tif g.Match(host) {\n\t\t\thosts = append(hosts, pattern)\n\t\t}\n"
	// where a fast path / pre-filter is put in front of it
	c03m4BeforeGlob = "\t\tnormpat := normalizeHost(pattern, req.TLS != nil)\n\n\t\t// Issue 548\n"
	// anchor in front of which helper functions are added
	c03m4HelperAnchor = "// Issue 548 - Added separate func\n"
	// the glob branch of Table.Lookup
	c03m4LookupGlob = "\t} else {\n\t\thosts = t.matchingHosts(req, globCache)\n\t}\n"
	c03m4TableVar   = "var table atomic.Value\n"
	c03m4Imports    = "\t\"sort\"\n\t\"strings\"\n\t\"sync/atomic\"\n"
	c03m4ImportsNew = "\t\"reflect\"\n\t\"sort\"\n\t\"strings\"\n\t\"sync\"\n\t\"sync/atomic\"\n"
	c03m4ImportSync = "\t\"sort\"\n\t\"strings\"\n\t\"sync\"\n\t\"sync/atomic\"\n"
)

func c03m4FastPath(cond string) string {
	return "\t\tnormpat := normalizeHost(pattern, req.TLS != nil)\n\n\t\t// plain host names are compared directly\n\t\tif " + cond + " {\n\t\t\tif normpat == host {\n\t\t\t\thosts = append(hosts, pattern)\n\t\t\t}\n\t\t\tcontinue\n\t\t}\n\n\t\t// Issue 548\n"
}

func c03m4Helper(fast string) string {
	return "func hostMatches(globCache *GlobCache, pat, host string) bool {\n" + fast +
		"\tg, err := globCache.Get(pat)\n\tif err != nil {\n\t\tlog.Print(\"[ERROR] Compiling glob - \", err)\n\t\treturn false\n\t}\n\treturn g.Match(host)\n}\n\n" + c03m4HelperAnchor
}

var c03MutantsG1 = []mutant{
	{Name: "plain-name fast path for host patterns without * or ? ([..] and {..} compared literally)", File: c03m4File,
		Old: c03m4BeforeGlob, New: c03m4FastPath("!strings.ContainsAny(normpat, \"*?\")"), Expect: "C03.G1"},
	{Name: "plain-name fast path inside a match helper (IndexByte('*') < 0)", File: c03m4File,
		Old: c03m4GlobBody, New: "\t\tif hostMatches(globCache, normpat, host) {\n\t\t\thosts = append(hosts, pattern)\n\t\t}\n",
		More:   []repl{{c03m4HelperAnchor, c03m4Helper("\tif strings.IndexByte(pat, '*') < 0 {\n\t\treturn pat == host\n\t}\n")}},
		Expect: "C03.G1"},
	{Name: "pre-filter: a pattern without * that is longer than the request host is skipped", File: c03m4File,
		Old: c03m4BeforeGlob, New: "\t\tnormpat := normalizeHost(pattern, req.TLS != nil)\n\t\tif len(normpat) > len(host) && !strings.Contains(normpat, \"*\") {\n\t\t\tcontinue\n\t\t}\n\n\t\t// Issue 548\n",
		Expect: "C03.G1"},
	{Name: "suffix fast path for patterns that start with *. (the rest is taken for a literal)", File: c03m4File,
		Old: c03m4BeforeGlob, New: "\t\tnormpat := normalizeHost(pattern, req.TLS != nil)\n\t\tif strings.HasPrefix(normpat, \"*.\") {\n\t\t\tif strings.HasSuffix(host, normpat[1:]) {\n\t\t\t\thosts = append(hosts, pattern)\n\t\t\t}\n\t\t\tcontinue\n\t\t}\n\n\t\t// Issue 548\n",
		Expect: "C03.G1"},
	{Name: "benign: plain-name fast path that rules out every glob meta character", File: c03m4File,
		Old: c03m4BeforeGlob, New: c03m4FastPath("!strings.ContainsAny(normpat, \"*?[]{}\\\\\")"), Expect: ""},
	{Name: "benign: the host-less key is skipped before anything is compiled (it is tried last anyway)", File: c03m4File,
		Old: "\tfor pattern := range t {\n\t\tnormpat := normalizeHost(pattern, req.TLS != nil)\n\n\t\t// Issue 548\n", New: "\tfor pattern := range t {\n\t\tif pattern == \"\" {\n\t\t\tcontinue\n\t\t}\n\t\tnormpat := normalizeHost(pattern, req.TLS != nil)\n\n\t\t// Issue 548\n", Expect: ""},
	{Name: "benign: plain-name fast path, one strings.Contains per meta character", File: c03m4File,
		Old: c03m4BeforeGlob, New: c03m4FastPath("!strings.Contains(normpat, \"*\") && !strings.Contains(normpat, \"?\") && !strings.Contains(normpat, \"[\") && !strings.Contains(normpat, \"{\")"), Expect: ""},
	{Name: "benign: plain-name fast path in a match helper (IndexAny of all meta characters < 0)", File: c03m4File,
		Old: c03m4GlobBody, New: "\t\tif hostMatches(globCache, normpat, host) {\n\t\t\thosts = append(hosts, pattern)\n\t\t}\n",
		More:   []repl{{c03m4HelperAnchor, c03m4Helper("\tif strings.IndexAny(pat, \"*?[{\") < 0 {\n\t\treturn pat == host\n\t}\n")}},
		Expect: ""},
	{Name: "benign: compile-and-match moved into a helper that answers false for a pattern that does not compile", File: c03m4File,
		Old: c03m4GlobBody, New: "\t\tif hostMatches(globCache, normpat, host) {\n\t\t\thosts = append(hosts, pattern)\n\t\t}\n",
		More:   []repl{{c03m4HelperAnchor, c03m4Helper("")}},
		Expect: ""},
}

// ---- M1 ----------------------------------------------------------------------------------------------------------

const (
	c03m4FullKeyType = "type hostListKey struct {\n\ttbl  uintptr\n\thost string\n\ttls  bool\n}\n\nvar hostLists sync.Map\n"
	c03m4LookupEnd   = "\tif target != nil && trace != \"\" {\n\t\tlog.Printf(\"[TRACE] %s Routing to service %s on %s\", trace, target.Service, target.URL)\n\t}\n\n\treturn target\n}\n"
)

func c03m4Memo(key string) string {
	return "\t} else {\n\t\t// matching every host pattern is expensive: remember the result\n\t\tkey := " + key + "\n\t\tif v, ok := hostLists.Load(key); ok {\n\t\t\thosts = v.([]string)\n\t\t} else {\n\t\t\thosts = t.matchingHosts(req, globCache)\n\t\t\thostLists.Store(key, hosts[:len(hosts):len(hosts)])\n\t\t}\n\t}\n"
}

var c03MutantsM1 = []mutant{
	{Name: "matching hosts remembered in a package-level sync.Map keyed by the normalised request host", File: c03m4File,
		Old: c03m4LookupGlob, New: c03m4Memo("normalizeHost(req.Host, req.TLS != nil)"),
		More:   []repl{{c03m4TableVar, c03m4TableVar + "\nvar hostLists sync.Map\n"}, {c03m4Imports, c03m4ImportSync}},
		Expect: "C03.M1"},
	{Name: "matching hosts remembered per (table, normalised host): TLS and plain requests share the entry", File: c03m4File,
		Old: c03m4LookupGlob, New: c03m4Memo("hostListKey{reflect.ValueOf(t).Pointer(), normalizeHost(req.Host, req.TLS != nil)}"),
		More:   []repl{{c03m4TableVar, c03m4TableVar + "\ntype hostListKey struct {\n\ttbl  uintptr\n\thost string\n}\n\nvar hostLists sync.Map\n"}, {c03m4Imports, c03m4ImportsNew}},
		Expect: "C03.M1"},
	{Name: "memo inside the glob-mode host matcher (map under a mutex) keyed by host and TLS but not by the table", File: c03m4File,
		Old: "\thost := normalizeHost(req.Host, req.TLS != nil)\n\tfor pattern := range t {\n",
		New: "\thost := normalizeHost(req.Host, req.TLS != nil)\n\tmk := hostMemoKey{host, req.TLS != nil}\n\thostMemoMu.Lock()\n\tmemo, ok := hostMemo[mk]\n\thostMemoMu.Unlock()\n\tif ok {\n\t\treturn memo\n\t}\n\tfor pattern := range t {\n",
		More: []repl{
			{"\t\t\thosts = append(hosts, pattern)\n\t\t}\n\t}\n\n\thosts = sortHostsReverseHostPort(hosts)\n\treturn\n}\n",
				"\t\t\thosts = append(hosts, pattern)\n\t\t}\n\t}\n\n\thosts = sortHostsReverseHostPort(hosts)\n\thostMemoMu.Lock()\n\thostMemo[mk] = hosts[:len(hosts):len(hosts)]\n\thostMemoMu.Unlock()\n\treturn\n}\n"},
			{c03m4TableVar, c03m4TableVar + "\ntype hostMemoKey struct {\n\thost string\n\ttls  bool\n}\n\nvar (\n\thostMemoMu sync.Mutex\n\thostMemo   = map[hostMemoKey][]string{}\n)\n"},
			{c03m4Imports, c03m4ImportSync}},
		Expect: "C03.M1"},
	{Name: "last result remembered in package-level variables and reused when the normalised host is the same", File: c03m4File,
		Old:    c03m4LookupGlob,
		New:    "\t} else {\n\t\thost := normalizeHost(req.Host, req.TLS != nil)\n\t\tlastMu.Lock()\n\t\tif lastHost == host && lastHosts != nil {\n\t\t\thosts = lastHosts\n\t\t}\n\t\tlastMu.Unlock()\n\t\tif hosts == nil {\n\t\t\thosts = t.matchingHosts(req, globCache)\n\t\t\tlastMu.Lock()\n\t\t\tlastHost, lastHosts = host, hosts[:len(hosts):len(hosts)]\n\t\t\tlastMu.Unlock()\n\t\t}\n\t}\n",
		More:   []repl{{c03m4TableVar, c03m4TableVar + "\nvar (\n\tlastMu    sync.Mutex\n\tlastHost  string\n\tlastHosts []string\n)\n"}, {c03m4Imports, c03m4ImportSync}},
		Expect: "C03.M1"},
	{Name: "target remembered per request host and path (survives a table change, shared by TLS and plain)", File: c03m4File,
		Old: "\tvar hosts []string\n\tif trace != \"\" {\n\t\tif len(trace) > 16 {",
		New: "\tvar hosts []string\n\ttkey := strings.ToLower(req.Host) + \"|\" + req.URL.Path\n\tif v, ok := targetMemo.Load(tkey); ok {\n\t\treturn v.(*Target)\n\t}\n\tif trace != \"\" {\n\t\tif len(trace) > 16 {",
		More: []repl{
			{c03m4LookupEnd, "\tif target != nil && target.RedirectCode == 0 {\n\t\ttargetMemo.Store(tkey, target)\n\t}\n" + c03m4LookupEnd},
			{c03m4TableVar, c03m4TableVar + "\nvar targetMemo sync.Map\n"}, {c03m4Imports, c03m4ImportSync}},
		Expect: "C03.M1"},
	{Name: "benign: matching hosts remembered under a struct key of table identity, normalised host and TLS", File: c03m4File,
		Old: c03m4LookupGlob, New: c03m4Memo("hostListKey{reflect.ValueOf(t).Pointer(), normalizeHost(req.Host, req.TLS != nil), req.TLS != nil}"),
		More:   []repl{{c03m4TableVar, c03m4TableVar + "\n" + c03m4FullKeyType}, {c03m4Imports, c03m4ImportsNew}},
		Expect: ""},
	{Name: "benign: matching hosts remembered under a string key built from table identity, TLS and host", File: c03m4File,
		Old: c03m4LookupGlob, New: c03m4Memo("fmt.Sprintf(\"%x|%t|%s\", reflect.ValueOf(t).Pointer(), req.TLS != nil, normalizeHost(req.Host, req.TLS != nil))"),
		More:   []repl{{c03m4TableVar, c03m4TableVar + "\nvar hostLists sync.Map\n"}, {c03m4Imports, c03m4ImportsNew}},
		Expect: ""},
	{Name: "benign: memo with the full key behind accessor functions (key struct built by a helper)", File: c03m4File,
		Old: c03m4LookupGlob,
		New: "\t} else {\n\t\tkey := newHostListKey(t, req)\n\t\tvar ok bool\n\t\tif hosts, ok = cachedHosts(key); !ok {\n\t\t\thosts = t.matchingHosts(req, globCache)\n\t\t\trememberHosts(key, hosts)\n\t\t}\n\t}\n",
		More: []repl{{c03m4TableVar, c03m4TableVar + "\n" + c03m4FullKeyType +
			"\nfunc newHostListKey(t Table, req *http.Request) hostListKey {\n\tsecure := req.TLS != nil\n\treturn hostListKey{tbl: reflect.ValueOf(t).Pointer(), host: normalizeHost(req.Host, secure), tls: secure}\n}\n" +
			"\nfunc cachedHosts(key hostListKey) ([]string, bool) {\n\tv, ok := hostLists.Load(key)\n\tif !ok {\n\t\treturn nil, false\n\t}\n\treturn v.([]string), true\n}\n" +
			"\nfunc rememberHosts(key hostListKey, hosts []string) {\n\thostLists.Store(key, hosts[:len(hosts):len(hosts)])\n}\n"},
			{c03m4Imports, c03m4ImportsNew}},
		Expect: ""},
	{Name: "benign: last result remembered together with the table identity, the TLS state and the host it was computed for", File: c03m4File,
		Old:    c03m4LookupGlob,
		New:    "\t} else {\n\t\thost := normalizeHost(req.Host, req.TLS != nil)\n\t\ttbl := reflect.ValueOf(t).Pointer()\n\t\tlastMu.Lock()\n\t\tif lastTbl == tbl && lastTLS == (req.TLS != nil) && lastHost == host && lastHosts != nil {\n\t\t\thosts = lastHosts\n\t\t}\n\t\tlastMu.Unlock()\n\t\tif hosts == nil {\n\t\t\thosts = t.matchingHosts(req, globCache)\n\t\t\tlastMu.Lock()\n\t\t\tlastTbl, lastTLS, lastHost, lastHosts = tbl, req.TLS != nil, host, hosts[:len(hosts):len(hosts)]\n\t\t\tlastMu.Unlock()\n\t\t}\n\t}\n",
		More:   []repl{{c03m4TableVar, c03m4TableVar + "\nvar (\n\tlastMu    sync.Mutex\n\tlastTbl   uintptr\n\tlastTLS   bool\n\tlastHost  string\n\tlastHosts []string\n)\n"}, {c03m4Imports, c03m4ImportsNew}},
		Expect: ""},
	{Name: "benign: memo keyed by normalised host and TLS, emptied where a new table is published", File: c03m4File,
		Old: c03m4LookupGlob, New: c03m4Memo("hostListKey{normalizeHost(req.Host, req.TLS != nil), req.TLS != nil}"),
		More: []repl{{c03m4TableVar, c03m4TableVar + "\ntype hostListKey struct {\n\thost string\n\ttls  bool\n}\n\nvar hostLists sync.Map\n"}, {c03m4Imports, c03m4ImportSync},
			{"\t\treturn\n\t}\n\ttable.Store(t)\n}\n", "\t\treturn\n\t}\n\ttable.Store(t)\n\thostLists.Clear()\n}\n"}},
		Expect: ""},
	{Name: "memo emptied where a new table is published but keyed by the normalised host alone (TLS and plain share it)", File: c03m4File,
		Old: c03m4LookupGlob, New: c03m4Memo("normalizeHost(req.Host, req.TLS != nil)"),
		More: []repl{{c03m4TableVar, c03m4TableVar + "\nvar hostLists sync.Map\n"}, {c03m4Imports, c03m4ImportSync},
			{"\t\treturn\n\t}\n\ttable.Store(t)\n}\n", "\t\treturn\n\t}\n\ttable.Store(t)\n\thostLists.Clear()\n}\n"}},
		Expect: "C03.M1"},
	{Name: "memo keyed by host and TLS, emptied only on one path of the function that publishes the table", File: c03m4File,
		Old: c03m4LookupGlob, New: c03m4Memo("hostListKey{normalizeHost(req.Host, req.TLS != nil), req.TLS != nil}"),
		More: []repl{{c03m4TableVar, c03m4TableVar + "\ntype hostListKey struct {\n\thost string\n\ttls  bool\n}\n\nvar hostLists sync.Map\n"}, {c03m4Imports, c03m4ImportSync},
			{"\t\treturn\n\t}\n\ttable.Store(t)\n}\n", "\t\treturn\n\t}\n\ttable.Store(t)\n\tif len(t) == 0 {\n\t\thostLists.Clear()\n\t}\n}\n"}},
		Expect: "C03.M1"},
	{Name: "benign: matching hosts collected in a pooled scratch slice that is copied before it is returned (only the scratch goes back to the pool)", File: c03m4File,
		Old:    c03srcMatchingHosts,
		New:    "func (t Table) matchingHosts(req *http.Request, globCache *GlobCache) (hosts []string) {\n\tbuf := hostsPool.Get().(*[]string)\n\tscratch := (*buf)[:0]\n\thost := normalizeHost(req.Host, req.TLS != nil)\n\tfor pattern := range t {\n\t\tnormpat := normalizeHost(pattern, req.TLS != nil)\n\t\tg, err := globCache.Get(normpat)\n\t\tif err != nil {\n\t\t\tlog.Print(\"[ERROR] Compiling glob - \", err)\n\t\t\tcontinue\n\t\t}\n\t\tif g.Match(host) {\n\t\t\tscratch = append(scratch, pattern)\n\t\t}\n\t}\n\tscratch = sortHostsReverseHostPort(scratch)\n\thosts = append([]string(nil), scratch...)\n\t*buf = scratch[:0]\n\thostsPool.Put(buf)\n\treturn hosts\n}\n\nvar hostsPool = sync.Pool{\n\tNew: func() interface{} {\n\t\ts := make([]string, 0, 16)\n\t\treturn &s\n\t},\n}\n",
		More:   []repl{{c03m4Imports, c03m4ImportSync}},
		Expect: ""},
	{Name: "benign: pooled scratch slice behind a deferred put, the named result is a copy made after the sort", File: c03m4File,
		Old:    c03srcMatchingHosts,
		New:    "func (t Table) matchingHosts(req *http.Request, globCache *GlobCache) (hosts []string) {\n\tbuf := hostsPool.Get().(*[]string)\n\tscratch := (*buf)[:0]\n\tdefer func() {\n\t\t*buf = scratch[:0]\n\t\thostsPool.Put(buf)\n\t}()\n\thost := normalizeHost(req.Host, req.TLS != nil)\n\tfor pattern := range t {\n\t\tnormpat := normalizeHost(pattern, req.TLS != nil)\n\t\tg, err := globCache.Get(normpat)\n\t\tif err != nil {\n\t\t\tlog.Print(\"[ERROR] Compiling glob - \", err)\n\t\t\tcontinue\n\t\t}\n\t\tif g.Match(host) {\n\t\t\tscratch = append(scratch, pattern)\n\t\t}\n\t}\n\tscratch = sortHostsReverseHostPort(scratch)\n\thosts = append([]string(nil), scratch...)\n\treturn\n}\n\nvar hostsPool = sync.Pool{\n\tNew: func() interface{} {\n\t\ts := make([]string, 0, 16)\n\t\treturn &s\n\t},\n}\n",
		More:   []repl{{c03m4Imports, c03m4ImportSync}},
		Expect: ""},
	{Name: "pooled scratch slice: the copy returned is made BEFORE the sort", File: c03m4File,
		Old:    c03srcMatchingHosts,
		New:    "func (t Table) matchingHosts(req *http.Request, globCache *GlobCache) (hosts []string) {\n\tbuf := hostsPool.Get().(*[]string)\n\tscratch := (*buf)[:0]\n\tdefer func() {\n\t\t*buf = scratch[:0]\n\t\thostsPool.Put(buf)\n\t}()\n\thost := normalizeHost(req.Host, req.TLS != nil)\n\tfor pattern := range t {\n\t\tnormpat := normalizeHost(pattern, req.TLS != nil)\n\t\tg, err := globCache.Get(normpat)\n\t\tif err != nil {\n\t\t\tlog.Print(\"[ERROR] Compiling glob - \", err)\n\t\t\tcontinue\n\t\t}\n\t\tif g.Match(host) {\n\t\t\tscratch = append(scratch, pattern)\n\t\t}\n\t}\n\thosts = append([]string(nil), scratch...)\n\tscratch = sortHostsReverseHostPort(scratch)\n\treturn\n}\n\nvar hostsPool = sync.Pool{\n\tNew: func() interface{} {\n\t\ts := make([]string, 0, 16)\n\t\treturn &s\n\t},\n}\n",
		More:   []repl{{c03m4Imports, c03m4ImportSync}},
		Expect: "C03.O2"},
}
