package main

import (
	"go/token"
	"strings"

	"golang.org/x/tools/go/ssa"
)

func init() {
	register(&propDef{
		ID:      "C11",
		Level:   "other",
		Explain: "Certificate store and sources, decided structurally: (A1) Store.SetCertificates builds the name index before the atomic publish and nothing writes the set afterwards; (A2) the GetCertificate closure loads the store once per handshake and getCertificate works on its parameter only (no handshake sees a mixture of two sets); (M1) in getCertificate every return of the first certificate as fallback is dominated by the !strictMatch edge and the strict miss returns (nil, nil); (M2) every lookup in the name index uses a key derived from strings.ToLower(ServerName) (trailing dots trimmed), wildcard candidates included; (L1) every cycle of every condition-less loop in package cert is paced (sleep, channel operation or an advancing Consul blocking query) — a source delivering unusable material cannot spin; (L2) no send on a certificates channel is reachable from the error edge of the loader that produced the value — unusable material never replaces the working set; (L3) loadCertificates orders its result by the sorted name list, not by map iteration; (L4) TLSConfig starts, before returning, a goroutine that applies every value received from src.Certificates() with SetCertificates. (M3) wildcard candidates keep the label count of the requested name. (M4) every key stored into the name index is known non-empty or an element of the certificate's DNSNames; (M5) SetCertificates reaches the atomic store on every path; Not decided: X.509 name matching beyond the exact / one-label-wildcard index lookup (certificate contents).",
		Run:     runC11,
		Trusted: []string{"Consul blocking queries with WaitIndex block until the index moves or the wait time passes", "sync/atomic.Value"},
		Mutants: []mutant{
			{Name: "empty common name indexed", File: "cert/store.go", Old: "\t\tif len(x509Cert.Subject.CommonName) > 0 {\n\t\t\tc.NameToCertificate[x509Cert.Subject.CommonName] = cert\n\t\t}\n", New: "\t\tc.NameToCertificate[x509Cert.Subject.CommonName] = cert\n", Expect: "C11.M4"},
			{Name: "benign: common name guard written as != \"\"", File: "cert/store.go", Old: "\t\tif len(x509Cert.Subject.CommonName) > 0 {", New: "\t\tif x509Cert.Subject.CommonName != \"\" {", Expect: ""},
			{Name: "unchanged-looking set not published", File: "cert/store.go", Old: "\tcs.BuildNameToCertificate()\n\ts.cs.Store(cs)\n", New: "\tcs.BuildNameToCertificate()\n\tif len(cs.NameToCertificate) == len(s.certstore().NameToCertificate) && len(certs) == len(s.certstore().Certificates) {\n\t\treturn\n\t}\n\ts.cs.Store(cs)\n", Expect: "C11.M5"},

			{Name: "publish before the index is built", File: "cert/store.go", Old: "\tcs.BuildNameToCertificate()\n\ts.cs.Store(cs)", New: "\ts.cs.Store(cs)\n\tcs.BuildNameToCertificate()", Expect: "C11.A1"},
			{Name: "two loads of the store in GetCertificate", File: "cert/source.go", Old: "cert, err = getCertificate(store.certstore(), clientHello, strictMatch)\n\t\t\tif cert != nil {", New: "cert, err = getCertificate(store.certstore(), clientHello, strictMatch)\n\t\t\tif len(store.certstore().Certificates) == 0 {\n\t\t\t\treturn nil, ErrNoCertsStored\n\t\t\t}\n\t\t\tif cert != nil {", Expect: "C11.A2"},
			{Name: "remove the strict test at the end", File: "cert/store.go", Old: "\tif strictMatch {\n\t\treturn nil, nil\n\t}\n\treturn &cs.Certificates[0], nil", New: "\treturn &cs.Certificates[0], nil", Expect: "C11.M1"},
			{Name: "single-certificate shortcut ignores strict", File: "cert/store.go", Old: "if !strictMatch && (len(cs.Certificates) == 1 || cs.NameToCertificate == nil) {", New: "if len(cs.Certificates) == 1 || cs.NameToCertificate == nil {", Expect: "C11.M1"},
			{Name: "wildcard candidates built from parent domains", File: "cert/store.go", Old: "\t\tlabels[i] = \"*\"\n\t\tcandidate := strings.Join(labels, \".\")", New: "\t\tcandidate := \"*.\" + strings.Join(labels[i+1:], \".\")", Expect: "C11.M3"},
			{Name: "look up the server name unlowered", File: "cert/store.go", Old: "name := strings.ToLower(clientHello.ServerName)", New: "name := clientHello.ServerName", Expect: "C11.M2"},
			{Name: "delete the sleep on the make-certificates error edge", File: "cert/watch.go", Old: "\t\t\tlog.Printf(\"[ERROR] cert: Cannot make certificates: %s\", err)\n\t\t\ttime.Sleep(refresh)\n\t\t\tcontinue", New: "\t\t\tlog.Printf(\"[ERROR] cert: Cannot make certificates: %s\", err)\n\t\t\tcontinue", Expect: "C11.L1"},
			{Name: "delete the sleep on the load error edge", File: "cert/watch.go", Old: "\t\t\tlog.Printf(\"[ERROR] cert: Cannot load certificates from %s. %s\", path, err)\n\t\t\ttime.Sleep(refresh)\n\t\t\tcontinue", New: "\t\t\tlog.Printf(\"[ERROR] cert: Cannot load certificates from %s. %s\", path, err)\n\t\t\tcontinue", Expect: "C11.L1"},
			{Name: "consul watcher never advances its index", File: "cert/consul_source.go", Old: "lastValue, lastIndex = value, index", New: "lastValue = value", Expect: "C11.L1"},
			{Name: "consul certificate watcher error edge without sleep", File: "cert/consul_source.go", Old: "\t\t\tlog.Printf(\"[WARN] cert: Error fetching certificates from %s. %v\", key, err)\n\t\t\ttime.Sleep(time.Second)\n\t\t\tcontinue", New: "\t\t\tlog.Printf(\"[WARN] cert: Error fetching certificates from %s. %v\", key, err)\n\t\t\t_ = time.Second\n\t\t\tcontinue", Expect: "C11.L1"},
			{Name: "send certs despite the error", File: "cert/watch.go", Old: "\t\t\tlog.Printf(\"[ERROR] cert: Cannot make certificates: %s\", err)\n\t\t\ttime.Sleep(refresh)\n\t\t\tcontinue\n", New: "\t\t\tlog.Printf(\"[ERROR] cert: Cannot make certificates: %s\", err)\n", Expect: "C11.L2"},
			{Name: "consul source sends despite the error", File: "cert/consul_source.go", Old: "\t\t\t\tlog.Printf(\"[ERROR] cert: Failed to load certificates. %s\", err)\n\t\t\t\tcontinue\n", New: "\t\t\t\tlog.Printf(\"[ERROR] cert: Failed to load certificates. %s\", err)\n", Expect: "C11.L2"},
			{Name: "remove sort.Strings(n)", File: "cert/load.go", Old: "\tsort.Strings(n)\n", New: "\t_ = sort.Strings\n", Expect: "C11.L3"},
			{Name: "updates goroutine drops every other set", File: "cert/source.go", Old: "\t\tfor certs := range src.Certificates() {\n\t\t\tstore.SetCertificates(certs)\n\t\t}", New: "\t\tfor certs := range src.Certificates() {\n\t\t\tif len(certs) > 1 {\n\t\t\t\tstore.SetCertificates(certs)\n\t\t\t}\n\t\t}", Expect: "C11.L4"},
			{Name: "benign: select with time.After instead of Sleep", File: "cert/watch.go", Old: "\t\t\tlog.Printf(\"[ERROR] cert: Cannot make certificates: %s\", err)\n\t\t\ttime.Sleep(refresh)\n\t\t\tcontinue", New: "\t\t\tlog.Printf(\"[ERROR] cert: Cannot make certificates: %s\", err)\n\t\t\t<-time.After(refresh)\n\t\t\tcontinue", Expect: ""},
		},
	})
}

func runC11(c *Ctx) {
	runC11A(c)
	runC11M(c)
	runC11M3(c)
	runC11M4(c)
	runC11M5(c)
	runLoopPacing(c, "C11.L1", []string{"cert"}, 2)
	runConsulWatchLoops(c, "C11.L1", []string{"cert"}, 1)
	runC11L2(c)
	runC11L3(c)
	runC11L4(c)
}

func runC11A(c *Ctx) {
	set := c.method("cert", "Store", "SetCertificates")
	build := c.method("cert", "certstore", "BuildNameToCertificate")
	if !c.need("C11.A1", set, "cert.Store.SetCertificates") || !c.need("C11.A1", build, "cert.certstore.BuildNameToCertificate") {
		return
	}
	var storeI, buildI ssa.Instruction
	eachInstr(set, func(i ssa.Instruction) {
		cc := callCommon(i)
		if cc == nil {
			return
		}
		if calleeName(cc) == "(*sync/atomic.Value).Store" {
			storeI = i
		}
		if cc.StaticCallee() == build {
			buildI = i
		}
	})
	if storeI == nil {
		c.undecided("C11.A1", "(*cert.Store).SetCertificates|atomic publish", "no atomic.Value.Store in SetCertificates")
		return
	}
	c.check("C11.A1", "(*cert.Store).SetCertificates|index built before publish", storeI.Pos(), buildI != nil && dominatesInstr(buildI, storeI),
		"the name index must be complete before the set is published: a handshake that loads the set in between sees certificates without an index (every name falls back to the first certificate, or to none with strict matching)")
	// what is stored is the set the index was built on
	if buildI != nil {
		recv := callCommon(buildI).Args[0]
		v := stripIface(callCommon(storeI).Args[1])
		same := derives(v, func(x ssa.Value) bool { return x == recv })
		c.check("C11.A1", "(*cert.Store).SetCertificates|published set is the indexed one", storeI.Pos(), same, "the value published must be the set the index was built on")
	}
	// nothing writes after publish (generic S5 restricted to this function)
	v := stripIface(callCommon(storeI).Args[1])
	bad := ""
	eachInstr(set, func(j ssa.Instruction) {
		if j == storeI || !pathAvoiding(storeI, j, nil) {
			return
		}
		root := v
		if u, ok := v.(*ssa.UnOp); ok && u.Op == token.MUL {
			root = u.X
		}
		if w, ok := writesVia(c, j, root); ok {
			bad = w
		}
	})
	c.check("C11.A1", "(*cert.Store).SetCertificates|no write after publish", storeI.Pos(), bad == "", "after the atomic publish the set is read by concurrent handshakes; "+bad+" mutates it")

	// A2
	getCert := c.fn("cert", "getCertificate")
	certstore := c.method("cert", "Store", "certstore")
	tlsConfig := c.fn("cert", "TLSConfig")
	if !c.need("C11.A2", getCert, "cert.getCertificate") || !c.need("C11.A2", certstore, "cert.Store.certstore") || !c.need("C11.A2", tlsConfig, "cert.TLSConfig") {
		return
	}
	n := 0
	for _, f := range withAnon(tlsConfig) {
		var loads []ssa.Instruction
		eachInstr(f, func(i ssa.Instruction) {
			if staticCalleeIs(i, certstore) {
				loads = append(loads, i)
			}
		})
		if len(loads) == 0 {
			continue
		}
		n++
		multi := len(loads) > 1 && func() bool {
			for _, a := range loads {
				for _, b := range loads {
					if pathAvoiding(a, b, nil) {
						return true
					}
				}
			}
			return false
		}()
		if len(loads) == 1 && pathAvoiding(loads[0], loads[0], nil) {
			multi = true
		}
		c.check("C11.A2", fnKey(f)+"|one load of the certificate set per handshake", loads[0].Pos(), !multi,
			"GetCertificate must load the published set once: two loads on one path can straddle SetCertificates, so one handshake decides on a mixture of two sets")
	}
	c.atLeast("C11.A2", "handshake callbacks that load the store", n, 1)
	r := c.reach(getCert)
	c.check("C11.A2", "cert.getCertificate|works on its parameter only", getCert.Pos(), !r[certstore], "getCertificate must not reload the store; it decides on the snapshot it was given")
}

func runC11M(c *Ctx) {
	getCert := c.fn("cert", "getCertificate")
	if getCert == nil {
		return
	}
	var strict *ssa.Parameter
	for _, p := range getCert.Params {
		if p.Name() == "strictMatch" || typeStr(p.Type()) == "bool" {
			strict = p
		}
	}
	if strict == nil {
		c.undecided("C11.M1", "cert.getCertificate|strict parameter", "no bool parameter")
		return
	}
	nFallback, nStrictMiss := 0, 0
	eachInstr(getCert, func(i ssa.Instruction) {
		r, ok := i.(*ssa.Return)
		if !ok || len(r.Results) != 2 {
			return
		}
		// fallback: &cs.Certificates[0]
		if ia, ok := r.Results[0].(*ssa.IndexAddr); ok {
			if k, isK := constInt(ia.Index); isK && k == 0 && strings.HasSuffix(accessPath(ia.X), "Certificates") {
				nFallback++
				notStrict := false
				for _, f := range factsAt(r.Block()) {
					if f.Cond == strict && !f.Truth {
						notStrict = true
					}
				}
				c.check("C11.M1", "cert.getCertificate|fallback to the first certificate only without strict matching", r.Pos(), notStrict,
					"returning the first certificate is the fallback for 'no name matched'; with strict matching the listener must present no certificate instead")
			}
		}
		if isNilConst(r.Results[0]) && isNilConst(r.Results[1]) {
			for _, f := range factsAt(r.Block()) {
				if f.Cond == strict && f.Truth {
					nStrictMiss++
				}
			}
		}
	})
	c.atLeast("C11.M1", "fallback returns in getCertificate", nFallback, 2)
	c.check("C11.M1", "cert.getCertificate|strict miss returns no certificate", getCert.Pos(), nStrictMiss >= 1, "with strict matching a miss must return (nil, nil)")

	// M2: lookups in NameToCertificate
	nLk := 0
	eachInstr(getCert, func(i ssa.Instruction) {
		lk, ok := i.(*ssa.Lookup)
		if !ok || !strings.HasSuffix(accessPath(lk.X), "NameToCertificate") {
			return
		}
		nLk++
		lower := derives(lk.Index, func(v ssa.Value) bool {
			call, ok := isCallTo(v, "strings.ToLower")
			if !ok {
				return false
			}
			return derives(call.Call.Args[0], func(x ssa.Value) bool { _, isF := fieldOf(x, "tls.ClientHelloInfo", "ServerName"); return isF })
		})
		c.check("C11.M2", "cert.getCertificate|index lookup key is the lower-cased server name", lk.Pos(), lower,
			"the name index must be searched with strings.ToLower(clientHello.ServerName) (and names derived from it): server names are case-insensitive, 'WWW.Example.com' must find the certificate for www.example.com")
	})
	c.atLeast("C11.M2", "lookups in the name index", nLk, 2)
	// trailing dots are trimmed: the lower-cased name is re-sliced in a loop testing the last byte against '.'
	trim := false
	eachInstr(getCert, func(i ssa.Instruction) {
		if b, ok := i.(*ssa.BinOp); ok && b.Op == token.EQL {
			if k, ok := constInt(b.Y); ok && k == '.' {
				trim = true
			}
		}
	})
	c.check("C11.M2", "cert.getCertificate|trailing dots trimmed", getCert.Pos(), trim, "a fully-qualified server name 'example.com.' must match the certificate for example.com")
}

func runC11L2(c *Ctx) {
	sp := c.spkg("cert")
	if sp == nil {
		return
	}
	n := 0
	for _, f := range c.AllFns {
		if rootPkg(f) != sp {
			continue
		}
		eachInstr(f, func(i ssa.Instruction) {
			snd, ok := i.(*ssa.Send)
			if !ok || typeStr(snd.X.Type()) != "[]crypto/tls.Certificate" {
				return
			}
			// the loader call the value comes from
			var loader *ssa.Call
			derives(snd.X, func(v ssa.Value) bool {
				if call, ok := v.(*ssa.Call); ok {
					if sc := call.Call.StaticCallee(); sc != nil && isRepoFn(sc) && sc.Signature.Results().Len() == 2 && typeStr(sc.Signature.Results().At(1).Type()) == "error" {
						loader = call
						return true
					}
				}
				return false
			})
			if loader == nil {
				return // value built without a fallible loader (file source: fatal at start-up)
			}
			n++
			errNil := false
			for _, ft := range factsAt(snd.Block()) {
				if nn, ok := nilFact(ft, func(v ssa.Value) bool {
					e, isE := v.(*ssa.Extract)
					return isE && e.Tuple == loader && e.Index == 1
				}); ok && !nn {
					errNil = true
				}
			}
			c.check("C11.L2", fnKey(f)+"|certificates sent only when "+fnKey(loader.Call.StaticCallee())+" succeeded", snd.Pos(), errNil,
				"the send on the certificates channel must be unreachable from the loader's error edge: a partly parsed set (loadCertificates returns the good ones together with the error) would replace the working set")
		})
	}
	c.atLeast("C11.L2", "sends of loaded certificate sets", n, 2)
}

func runC11L3(c *Ctx) {
	lc := c.fn("cert", "loadCertificates")
	if !c.need("C11.L3", lc, "cert.loadCertificates") {
		return
	}
	// the returned slice is appended to while ranging over a []string that is sorted after being filled from a map range
	var sorts []*ssa.Call
	eachInstr(lc, func(i ssa.Instruction) {
		if call, ok := i.(*ssa.Call); ok {
			switch calleeName(&call.Call) {
			case "sort.Strings", "slices.Sort", "sort.Sort", "sort.Stable":
				sorts = append(sorts, call)
			}
		}
	})
	ok := false
	var pos token.Pos = lc.Pos()
	eachInstr(lc, func(i ssa.Instruction) {
		r, isR := i.(*ssa.Return)
		if !isR || len(r.Results) != 2 || isNilConst(r.Results[0]) {
			return
		}
		pos = r.Pos()
		// result is built by appends inside a loop ranging over slice S; S must be an argument of a sort call
		// that dominates the loop, and S must not be a map range.
		for _, l := range loopsOf(lc) {
			appendsResult := false
			for b := range l.Body {
				for _, in := range b.Instrs {
					if call, isC := in.(*ssa.Call); isC && calleeName(&call.Call) == "builtin.append" && typeStr(call.Type()) == "[]crypto/tls.Certificate" {
						appendsResult = true
					}
				}
			}
			if !appendsResult {
				continue
			}
			// map-range loops contain a Next over a map
			overMap := false
			for _, in := range l.Head.Instrs {
				if nx, isN := in.(*ssa.Next); isN && !nx.IsString {
					overMap = true
				}
			}
			if overMap {
				ok = false
				return
			}
			for _, s := range sorts {
				if s.Block().Dominates(l.Head) {
					ok = true
				}
			}
		}
	})
	c.check("C11.L3", "cert.loadCertificates|result ordered by the sorted name list", pos, ok,
		"the certificates must be appended in the order of the sorted file names (the first one is the default certificate); building the result while ranging over the map makes the default certificate random per reload")
}

func runC11L4(c *Ctx) {
	tlsConfig := c.fn("cert", "TLSConfig")
	set := c.method("cert", "Store", "SetCertificates")
	if tlsConfig == nil || set == nil {
		return
	}
	var goI *ssa.Go
	eachInstr(tlsConfig, func(i ssa.Instruction) {
		if g, ok := i.(*ssa.Go); ok {
			goI = g
		}
	})
	if goI == nil {
		c.check("C11.L4", "cert.TLSConfig|updates goroutine", tlsConfig.Pos(), false, "TLSConfig starts no goroutine applying certificate updates: a newly published set never takes effect")
		return
	}
	// started on every path to the successful return
	okStart := true
	eachInstr(tlsConfig, func(i ssa.Instruction) {
		r, ok := i.(*ssa.Return)
		if !ok || len(r.Results) != 2 || isNilConst(r.Results[0]) {
			return
		}
		if !dominatesInstr(goI, r) {
			okStart = false
		}
	})
	c.check("C11.L4", "cert.TLSConfig|updates goroutine started before the config is returned", goI.Pos(), okStart, "the goroutine applying updates must be running when the config is handed out")
	mc, ok := goI.Call.Value.(*ssa.MakeClosure)
	var g *ssa.Function
	if ok {
		g = mc.Fn.(*ssa.Function)
	} else if f, ok := goI.Call.Value.(*ssa.Function); ok {
		g = f
	}
	if g == nil {
		c.undecided("C11.L4", "cert.TLSConfig|updates goroutine body", "not a closure")
		return
	}
	// body: receive from src.Certificates() in a loop; every received value goes to SetCertificates unconditionally
	var recv *ssa.UnOp
	eachInstr(g, func(i ssa.Instruction) {
		if u, ok := i.(*ssa.UnOp); ok && u.Op == token.ARROW {
			if call, ok := u.X.(*ssa.Call); ok && call.Call.IsInvoke() && call.Call.Method.Name() == "Certificates" {
				recv = u
			}
		}
	})
	if recv == nil {
		c.check("C11.L4", "cert.TLSConfig$updates|receives from src.Certificates()", g.Pos(), false, "the goroutine must range over src.Certificates()")
		return
	}
	applied := false
	eachInstr(g, func(i ssa.Instruction) {
		if !staticCalleeIs(i, set) {
			return
		}
		cc := callCommon(i)
		if !derives(cc.Args[1], func(v ssa.Value) bool { return v == recv }) {
			return
		}
		// unconditional w.r.t. the received value: the only facts between receive and apply are the channel-open test
		extra := 0
		for _, f := range factsAt(i.Block()) {
			if fi, ok := f.Cond.(ssa.Instruction); ok && fi.Block().Parent() == g {
				if e, isE := f.Cond.(*ssa.Extract); isE && e.Tuple == recv {
					continue // the ok of the receive
				}
				extra++
			}
		}
		if extra == 0 {
			applied = true
		}
	})
	c.check("C11.L4", "cert.TLSConfig$updates|every received set is applied", recv.Pos(), applied, "every certificate set received from the source must be handed to Store.SetCertificates unconditionally; a filtered update leaves handshakes on a stale set")
}
