package main

import (
	"fmt"
	"go/token"
	"go/types"
	"os"
	"strings"

	"golang.org/x/tools/go/ssa"
)

func init() {
	register(&propDef{
		ID:      "C11",
		Level:   "other",
		Explain: "Certificate store and sources, decided structurally. Sites are found by ROLE (what an instruction does) inside REGIONS (an entry plus the same-package helpers and closures below it), not by the names of unexported functions: the certificate SET is the struct type with a []tls.Certificate field that package cert publishes with a sync/atomic store (any spelling) or keeps in a field of a holder struct with a sync.Mutex/RWMutex, its INDEX is the string-keyed map (or maps) - a field of the set or of a small struct the set holds - that delivers a certificate, a pointer to one or a POSITION in the list, the HANDSHAKE CALLBACKS are the functions stored into tls.Config.GetCertificate, the PUBLISH ENTRY is the function taking a []tls.Certificate below which the set is published. Calls are followed through static callees, through the interfaces package cert declares itself (a callback turned into an interface) and through function values kept in locals, parameters, struct fields and package variables. (A1) every publish below the publish entry is dominated by the construction of the index of the published set, and nothing writes the set afterwards; (A2) no function below a handshake callback can load the published set twice on one path, and a function that is handed the set does not reload it (no handshake sees a mixture of two sets); (M1) whatever a handshake callback returns as a certificate taken from the list by position is returned under a known 'not strict' condition - unless the position is what a tested lookup in the name index delivered (selected by name) - and a strict miss returns (nil, nil); the strictness flag may be a bool or an enumerated mode whose constants are chosen by it; (M2) every lookup in the name index below a handshake callback uses a key derived from strings.ToLower(ServerName) - at every call site of an accessor the key is handed to - with trailing dots trimmed (hand-written loop, strings.TrimRight/TrimSuffix/TrimRightFunc); (M3) wildcard candidates keep the label count of the requested name (Split / store \"*\" / Join); (M4) every key stored into the name index is known non-empty or an element of the certificate's DNSNames; (M5) the publish entry reaches the atomic publish on every path; (L1) every cycle of every condition-less loop in package cert, and of every loop with a condition that may deliver certificates or certificate material on a channel (a watcher whose cycle is a step method: for !w.step() {}, or that runs until a stop flag is set), is paced (sleep, channel operation, a helper that always does one of these, or an advancing Consul blocking query) and the error edge of a Consul query sleeps — a source delivering unusable material cannot spin; (L2) no send on a certificates channel is reachable from the error edge of the fallible loader that produced the value, also when loader and send are in different functions — unusable material never replaces the working set; (L3) the loop that builds the result of the PEM loader runs over a sorted name list, not over map iteration; (L4) TLSConfig starts, on every path to a successful return, a goroutine that applies every set received from src.Certificates() to the store unconditionally. Not decided: X.509 name matching beyond the exact / one-label-wildcard index lookup (certificate contents).",
		Run:     runC11,
		Trusted: []string{"Consul blocking queries with WaitIndex block until the index moves or the wait time passes", "sync/atomic.Value", "sync/atomic.Pointer"},
		Mutants: []mutant{
			{Name: "empty common name indexed", File: "cert/store.go", Old: "\t\tif len(x509Cert.Subject.CommonName) > 0 {\n\t\t\tc.NameToCertificate[x509Cert.Subject.CommonName] = cert\n\t\t}\n", New: "\t\tc.NameToCertificate[x509Cert.Subject.CommonName] = cert\n", Expect: "C11.M4"},
			{Name: "benign: common name guard written as != \"\"", File: "cert/store.go", Old: "\t\tif len(x509Cert.Subject.CommonName) > 0 {", New: "\t\tif x509Cert.Subject.CommonName != \"\" {", Expect: ""},
			{Name: "unchanged-looking set not published", File: "cert/store.go", Old: "\tcs.BuildNameToCertificate()\n\ts.cs.Store(cs)\n", New: "\tcs.BuildNameToCertificate()\n\tif len(cs.NameToCertificate) == len(s.certstore().NameToCertificate) && len(certs) == len(s.certstore().Certificates) {\n\t\treturn\n\t}\n\ts.cs.Store(cs)\n", Expect: "C11.M5"},

			{Name: "publish before the index is built", File: "cert/store.go", Old: "\tcs.BuildNameToCertificate()\n\ts.cs.Store(cs)", New: "\ts.cs.Store(cs)\n\tcs.BuildNameToCertificate()", Expect: "C11.A1"},
			{Name: "two loads of the store in GetCertificate", File: "cert/source.go", Old: "cert, err = getCertificate(store.certstore(), clientHello, strictMatch)\n\t\t\tif cert != nil {", New: "cert, err = getCertificate(store.certstore(), clientHello, strictMatch)\n\t\t\tif len(store.certstore().Certificates) == 0 {\n\t\t\t\treturn nil, ErrNoCertsStored\n\t\t\t}\n\t\t\tif cert != nil {", Expect: "C11.A2"},
			{Name: "remove the strict test at the end", File: "cert/store.go", Old: "\tif strictMatch {\n\t\treturn nil, nil\n\t}\n\treturn &cs.Certificates[0], nil", New: "\treturn &cs.Certificates[0], nil", Expect: "C11.M1"},
			{Name: "single-certificate shortcut ignores strict", File: "cert/store.go", Old: "if !strictMatch && (len(cs.Certificates) == 1 || cs.NameToCertificate == nil) {", New: "if len(cs.Certificates) == 1 || cs.NameToCertificate == nil {", Expect: "C11.M1"},
			{Name: "wildcard candidates built from parent domains", File: "cert/store.go", Old: "\t\tlabels[i] = \"*\"\n\t\tcandidate := strings.Join(labels, \".\")", New: "\t\tcandidate := \"*.\" + strings.Join(labels[i+1:], \".\")", Expect: "C11.M3"},
			{Name: "look up the server name unlowered", File: "cert/store.go", Old: "name := strings.ToLower(clientHello.ServerName)", New: "name := clientHello.ServerName", Expect: "C11.M2"},
			{Name: "delete the sleep on the make-certificates error edge", File: "cert/watch.go", Old: "\t\t\tlog.Printf(\"[ERROR] cert: Cannot make certificates: %s\", err)\n\t\t\ttime.Sleep(refresh)\n\t\t\tcontinue", New: "\t\t\tlog.Printf(\"[ERROR] cert: Cannot make certificates: %s\", err)\n\t\t\tcontinue", Expect: "C11.L1"},
			{Name: "delete the sleep on the load error edge", File: "cert/watch.go", Old: "\t\t\tlog.Printf(\"[ERROR] cert: Cannot load certificates from %s. %s\", path, err)\n\t\t\ttime.Sleep(refresh)\n\t\t\tcontinue", New: "\t\t\tlog.Printf(\"[ERROR] cert: Cannot load certificates from %s. %s\", path, err)\n\t\t\tcontinue", Expect: "C11.L1"},
			{Name: "consul watcher never advances its index", File: "cert/consul_source.go", Old: "lastValue, lastIndex = value, index", New: "lastValue = value", Expect: "C11.L1"},
			{Name: "consul certificate watcher error edge without sleep", File: "cert/consul_source.go", Old: "\t\t\tlog.Printf(\"[WARN] cert: Error fetching certificates from %s. %v\", key, err)\n\t\t\ttime.Sleep(time.Second)\n\t\t\tcontinue", New: "\t\t\tlog.Printf(\"[WARN] cert: Error fetching certificates from %s. %v\", key, err)\n\t\t\t_ = time.Second\n\t\t\tcontinue", Expect: "C11.L1"},
			{Name: "send certs despite the error", File: "cert/watch.go", Old: "\t\t\tlog.Printf(\"[ERROR] cert: Cannot make certificates: %s\", err)\n\t\t\ttime.Sleep(refresh)\n\t\t\tcontinue\n", New: "\t\t\tlog.Printf(\"[ERROR] cert: Cannot make certificates: %s\", err)\n", Expect: "C11.L2"},
			{Name: "consul source sends despite the error", File: "cert/consul_source.go", Old: "\t\t\t\tlog.Printf(\"[ERROR] cert: Failed to load certificates. %s\", err)\n\t\t\t\tcontinue\n", New: "\t\t\t\tlog.Printf(\"[ERROR] cert: Failed to load certificates. %s\", err)\n", Expect: "C11.L2"},
			{Name: "remove sort.Strings(n)", File: "cert/load.go", Old: "\tsort.Strings(n)\n", New: "\t_ = sort.Strings\n", Expect: "C11.L3"},
			{Name: "updates goroutine drops every other set", File: "cert/source.go", Old: "\t\tfor certs := range src.Certificates() {\n\t\t\tstore.SetCertificates(certs)\n\t\t}", New: "\t\tfor certs := range src.Certificates() {\n\t\t\tif len(certs) > 1 {\n\t\t\t\tstore.SetCertificates(certs)\n\t\t\t}\n\t\t}", Expect: "C11.L4"},
			{Name: "benign: select with time.After instead of Sleep", File: "cert/watch.go", Old: "\t\t\tlog.Printf(\"[ERROR] cert: Cannot make certificates: %s\", err)\n\t\t\ttime.Sleep(refresh)\n\t\t\tcontinue", New: "\t\t\tlog.Printf(\"[ERROR] cert: Cannot make certificates: %s\", err)\n\t\t\t<-time.After(refresh)\n\t\t\tcontinue", Expect: ""},
			// proactive pass (hardening): refactorings and breaks of kinds not in the corpora
			{Name: "benign: atomic store moved into a publish helper", File: "cert/store.go", Old: "\tcs := certstore{Certificates: certs}\n\tcs.BuildNameToCertificate()\n\ts.cs.Store(cs)\n", New: "\tcs := certstore{Certificates: certs}\n\tcs.BuildNameToCertificate()\n\ts.publish(cs)\n", More: []repl{{"var ErrNoCertsStored", "func (s *Store) publish(cs certstore) {\n\ts.cs.Store(cs)\n}\n\nvar ErrNoCertsStored"}}, Expect: ""},
			{Name: "publish helper called before the index is built", File: "cert/store.go", Old: "\tcs := certstore{Certificates: certs}\n\tcs.BuildNameToCertificate()\n\ts.cs.Store(cs)\n", New: "\tcs := certstore{Certificates: certs}\n\ts.publish(cs)\n\tcs.BuildNameToCertificate()\n", More: []repl{{"var ErrNoCertsStored", "func (s *Store) publish(cs certstore) {\n\ts.cs.Store(cs)\n}\n\nvar ErrNoCertsStored"}}, Expect: "C11.A1"},
			{Name: "publish helper called conditionally", File: "cert/store.go", Old: "\tcs := certstore{Certificates: certs}\n\tcs.BuildNameToCertificate()\n\ts.cs.Store(cs)\n", New: "\tcs := certstore{Certificates: certs}\n\tcs.BuildNameToCertificate()\n\tif len(certs) > 0 {\n\t\ts.publish(cs)\n\t}\n", More: []repl{{"var ErrNoCertsStored", "func (s *Store) publish(cs certstore) {\n\ts.cs.Store(cs)\n}\n\nvar ErrNoCertsStored"}}, Expect: "C11.M5"},
			{Name: "benign: strict flag inverted into a local", File: "cert/store.go", Old: "\tif !strictMatch && (len(cs.Certificates) == 1", New: "\tfallback := !strictMatch\n\tif fallback && (len(cs.Certificates) == 1", More: []repl{{"\tif strictMatch {\n\t\treturn nil, nil\n\t}\n\treturn &cs.Certificates[0], nil", "\tif fallback {\n\t\treturn &cs.Certificates[0], nil\n\t}\n\treturn nil, nil"}}, Expect: ""},
			{Name: "benign: defaultCert helper used by both fallbacks", File: "cert/store.go", Old: "\t\treturn &cs.Certificates[0], nil\n\t}\n\n\tname :=", New: "\t\treturn cs.defaultCert(), nil\n\t}\n\n\tname :=", More: []repl{{"\treturn &cs.Certificates[0], nil\n}", "\treturn cs.defaultCert(), nil\n}\n\nfunc (cs certstore) defaultCert() *tls.Certificate {\n\treturn &cs.Certificates[0]\n}"}}, Expect: ""},
			{Name: "defaultCert helper, strict miss only for several certificates", File: "cert/store.go", Old: "\t\treturn &cs.Certificates[0], nil\n\t}\n\n\tname :=", New: "\t\treturn cs.defaultCert(), nil\n\t}\n\n\tname :=", More: []repl{{"\tif strictMatch {\n\t\treturn nil, nil\n\t}\n\treturn &cs.Certificates[0], nil\n}", "\tif strictMatch && len(cs.Certificates) > 1 {\n\t\treturn nil, nil\n\t}\n\treturn cs.defaultCert(), nil\n}\n\nfunc (cs certstore) defaultCert() *tls.Certificate {\n\treturn &cs.Certificates[0]\n}"}}, Expect: "C11.M1"},
			{Name: "benign: named result assigned, bare return", File: "cert/store.go", Old: "\tif strictMatch {\n\t\treturn nil, nil\n\t}\n\treturn &cs.Certificates[0], nil\n}", New: "\tif !strictMatch {\n\t\tcert = &cs.Certificates[0]\n\t}\n\treturn\n}", Expect: ""},
			{Name: "benign: trailing dots trimmed with HasSuffix/TrimSuffix", File: "cert/store.go", Old: "\tfor len(name) > 0 && name[len(name)-1] == '.' {\n\t\tname = name[:len(name)-1]\n\t}\n", New: "\tfor strings.HasSuffix(name, \".\") {\n\t\tname = strings.TrimSuffix(name, \".\")\n\t}\n", Expect: ""},
			{Name: "trailing-dot trim removed", File: "cert/store.go", Old: "\tfor len(name) > 0 && name[len(name)-1] == '.' {\n\t\tname = name[:len(name)-1]\n\t}\n", New: "", Expect: "C11.M2"},
			{Name: "exact lookup helper is given the raw server name", File: "cert/store.go", Old: "\tif cert, ok := cs.NameToCertificate[name]; ok {\n\t\treturn cert, nil\n\t}\n", New: "\tif cert := cs.exact(clientHello.ServerName); cert != nil {\n\t\treturn cert, nil\n\t}\n", More: []repl{{"type certstore struct", "func (cs certstore) exact(name string) *tls.Certificate {\n\treturn cs.NameToCertificate[name]\n}\n\ntype certstore struct"}}, Expect: "C11.M2"},
			{Name: "benign: labels split by the caller, wildcard helper", File: "cert/store.go", Old: "\tlabels := strings.Split(name, \".\")\n\tfor i := range labels {\n\t\tlabels[i] = \"*\"\n\t\tcandidate := strings.Join(labels, \".\")\n\t\tif cert, ok := cs.NameToCertificate[candidate]; ok {\n\t\t\treturn cert, nil\n\t\t}\n\t}\n", New: "\tif cert := cs.wild(strings.Split(name, \".\")); cert != nil {\n\t\treturn cert, nil\n\t}\n", More: []repl{{"type certstore struct", "func (cs certstore) wild(labels []string) *tls.Certificate {\n\tfor i := range labels {\n\t\tlabels[i] = \"*\"\n\t\tif cert, ok := cs.NameToCertificate[strings.Join(labels, \".\")]; ok {\n\t\t\treturn cert\n\t\t}\n\t}\n\treturn nil\n}\n\ntype certstore struct"}}, Expect: ""},
			{Name: "wildcard helper receives the parent labels only", File: "cert/store.go", Old: "\tlabels := strings.Split(name, \".\")\n\tfor i := range labels {\n\t\tlabels[i] = \"*\"\n\t\tcandidate := strings.Join(labels, \".\")\n\t\tif cert, ok := cs.NameToCertificate[candidate]; ok {\n\t\t\treturn cert, nil\n\t\t}\n\t}\n", New: "\tif cert := cs.wild(strings.Split(name, \".\")[1:]); cert != nil {\n\t\treturn cert, nil\n\t}\n", More: []repl{{"type certstore struct", "func (cs certstore) wild(labels []string) *tls.Certificate {\n\tfor i := range labels {\n\t\tlabels[i] = \"*\"\n\t\tif cert, ok := cs.NameToCertificate[strings.Join(labels, \".\")]; ok {\n\t\t\treturn cert\n\t\t}\n\t}\n\treturn nil\n}\n\ntype certstore struct"}}, Expect: "C11.M3"},
			{Name: "benign: index add helper with the guard inside", File: "cert/store.go", Old: "\t\tif len(x509Cert.Subject.CommonName) > 0 {\n\t\t\tc.NameToCertificate[x509Cert.Subject.CommonName] = cert\n\t\t}\n\t\tfor _, san := range x509Cert.DNSNames {\n\t\t\tc.NameToCertificate[san] = cert\n\t\t}\n\t}\n}", New: "\t\tc.add(x509Cert.Subject.CommonName, cert)\n\t\tfor _, san := range x509Cert.DNSNames {\n\t\t\tc.add(san, cert)\n\t\t}\n\t}\n}\n\nfunc (c *certstore) add(name string, cert *tls.Certificate) {\n\tif name == \"\" {\n\t\treturn\n\t}\n\tc.NameToCertificate[name] = cert\n}", Expect: ""},
			{Name: "index add helper without any guard", File: "cert/store.go", Old: "\t\tif len(x509Cert.Subject.CommonName) > 0 {\n\t\t\tc.NameToCertificate[x509Cert.Subject.CommonName] = cert\n\t\t}\n\t\tfor _, san := range x509Cert.DNSNames {\n\t\t\tc.NameToCertificate[san] = cert\n\t\t}\n\t}\n}", New: "\t\tc.add(x509Cert.Subject.CommonName, cert)\n\t\tfor _, san := range x509Cert.DNSNames {\n\t\t\tc.add(san, cert)\n\t\t}\n\t}\n}\n\nfunc (c *certstore) add(name string, cert *tls.Certificate) {\n\tc.NameToCertificate[name] = cert\n}", Expect: "C11.M4"},
			{Name: "benign: callback calls a captured local closure", File: "cert/source.go", Old: "\tx := &tls.Config{\n", New: "\tpick := func(clientHello *tls.ClientHelloInfo) (cert *tls.Certificate, err error) {\n\t\treturn getCertificate(store.certstore(), clientHello, strictMatch)\n\t}\n\tx := &tls.Config{\n", More: []repl{{"cert, err = getCertificate(store.certstore(), clientHello, strictMatch)", "cert, err = pick(clientHello)"}}, Expect: ""},
			{Name: "benign: updates goroutine started by a helper", File: "cert/source.go", Old: "\tgo func() {\n\t\tfor certs := range src.Certificates() {\n\t\t\tstore.SetCertificates(certs)\n\t\t}\n\t}()\n", New: "\tstartUpdates(src, store)\n", More: []repl{{"// TLSConfig creates", "func startUpdates(src Source, store *Store) {\n\tgo func() {\n\t\tfor certs := range src.Certificates() {\n\t\t\tstore.SetCertificates(certs)\n\t\t}\n\t}()\n}\n\n// TLSConfig creates"}}, Expect: ""},
			{Name: "benign: updates loop as a Store method, channel hoisted", File: "cert/source.go", Old: "\tgo func() {\n\t\tfor certs := range src.Certificates() {\n\t\t\tstore.SetCertificates(certs)\n\t\t}\n\t}()\n", New: "\tgo store.follow(src.Certificates())\n", More: []repl{{"// TLSConfig creates", "func (s *Store) follow(ch chan []tls.Certificate) {\n\tfor certs := range ch {\n\t\ts.SetCertificates(certs)\n\t}\n}\n\n// TLSConfig creates"}}, Expect: ""},
			{Name: "named updates function filters empty sets", File: "cert/source.go", Old: "\tgo func() {\n\t\tfor certs := range src.Certificates() {\n\t\t\tstore.SetCertificates(certs)\n\t\t}\n\t}()\n", New: "\tgo applyUpdates(src, store)\n", More: []repl{{"// TLSConfig creates", "func applyUpdates(src Source, store *Store) {\n\tfor certs := range src.Certificates() {\n\t\tif len(certs) == 0 {\n\t\t\tcontinue\n\t\t}\n\t\tstore.SetCertificates(certs)\n\t}\n}\n\n// TLSConfig creates"}}, Expect: "C11.L4"},
			{Name: "benign: sleep in a named helper", File: "cert/watch.go", Old: "time.Sleep(refresh)\n\t\t\tcontinue\n\t\t}\n\n\t\tif reflect", New: "pause(refresh)\n\t\t\tcontinue\n\t\t}\n\n\t\tif reflect", More: []repl{{"// watch monitors", "func pause(d time.Duration) {\n\ttime.Sleep(d)\n}\n\n// watch monitors"}}, Expect: ""},
			{Name: "benign: make-and-send step helper, caller sleeps on failure", File: "cert/watch.go", Old: "\t\tcerts, err := loadCertificates(next)\n\t\tif err != nil {\n\t\t\tlog.Printf(\"[ERROR] cert: Cannot make certificates: %s\", err)\n\t\t\ttime.Sleep(refresh)\n\t\t\tcontinue\n\t\t}\n\n\t\tch <- certs\n", New: "\t\tif !makeAndSend(ch, next) {\n\t\t\ttime.Sleep(refresh)\n\t\t\tcontinue\n\t\t}\n", More: []repl{{"// watch monitors", "func makeAndSend(ch chan []tls.Certificate, next map[string][]byte) bool {\n\tcerts, err := loadCertificates(next)\n\tif err != nil {\n\t\tlog.Printf(\"[ERROR] cert: Cannot make certificates: %s\", err)\n\t\treturn false\n\t}\n\tch <- certs\n\treturn true\n}\n\n// watch monitors"}}, Expect: ""},
			{Name: "step helper sends despite the error", File: "cert/watch.go", Old: "\t\tcerts, err := loadCertificates(next)\n\t\tif err != nil {\n\t\t\tlog.Printf(\"[ERROR] cert: Cannot make certificates: %s\", err)\n\t\t\ttime.Sleep(refresh)\n\t\t\tcontinue\n\t\t}\n\n\t\tch <- certs\n", New: "\t\tif !makeAndSend(ch, next) {\n\t\t\ttime.Sleep(refresh)\n\t\t\tcontinue\n\t\t}\n", More: []repl{{"// watch monitors", "func makeAndSend(ch chan []tls.Certificate, next map[string][]byte) bool {\n\tcerts, err := loadCertificates(next)\n\tif err != nil {\n\t\tlog.Printf(\"[ERROR] cert: Cannot make certificates: %s\", err)\n\t}\n\tch <- certs\n\treturn true\n}\n\n// watch monitors"}}, Expect: "C11.L2"},
			{Name: "benign: whole iteration in a step helper that sleeps on failure", File: "cert/watch.go", Old: "\t\tnext, err := loadFn(path)\n\t\tif err != nil {\n\t\t\tlog.Printf(\"[ERROR] cert: Cannot load certificates from %s. %s\", path, err)\n\t\t\ttime.Sleep(refresh)\n\t\t\tcontinue\n\t\t}\n\n\t\tif reflect.DeepEqual(next, last) {\n\t\t\ttime.Sleep(refresh)\n\t\t\tcontinue\n\t\t}\n\n\t\tcerts, err := loadCertificates(next)\n\t\tif err != nil {\n\t\t\tlog.Printf(\"[ERROR] cert: Cannot make certificates: %s\", err)\n\t\t\ttime.Sleep(refresh)\n\t\t\tcontinue\n\t\t}\n\n\t\tch <- certs\n\t\tlast = next\n", New: "\t\tnext, ok := step(ch, refresh, path, last, loadFn)\n\t\tif !ok {\n\t\t\tcontinue\n\t\t}\n\t\tlast = next\n", More: []repl{{"// watch monitors", "func step(ch chan []tls.Certificate, refresh time.Duration, path string, last map[string][]byte, loadFn func(path string) (map[string][]byte, error)) (map[string][]byte, bool) {\n\tnext, err := loadFn(path)\n\tif err != nil {\n\t\tlog.Printf(\"[ERROR] cert: Cannot load certificates from %s. %s\", path, err)\n\t\ttime.Sleep(refresh)\n\t\treturn nil, false\n\t}\n\tif reflect.DeepEqual(next, last) {\n\t\ttime.Sleep(refresh)\n\t\treturn nil, false\n\t}\n\tcerts, err := loadCertificates(next)\n\tif err != nil {\n\t\tlog.Printf(\"[ERROR] cert: Cannot make certificates: %s\", err)\n\t\ttime.Sleep(refresh)\n\t\treturn nil, false\n\t}\n\tch <- certs\n\treturn next, true\n}\n\n// watch monitors"}}, Expect: ""},
			{Name: "step helper, one failure path forgets the sleep", File: "cert/watch.go", Old: "\t\tnext, err := loadFn(path)\n\t\tif err != nil {\n\t\t\tlog.Printf(\"[ERROR] cert: Cannot load certificates from %s. %s\", path, err)\n\t\t\ttime.Sleep(refresh)\n\t\t\tcontinue\n\t\t}\n\n\t\tif reflect.DeepEqual(next, last) {\n\t\t\ttime.Sleep(refresh)\n\t\t\tcontinue\n\t\t}\n\n\t\tcerts, err := loadCertificates(next)\n\t\tif err != nil {\n\t\t\tlog.Printf(\"[ERROR] cert: Cannot make certificates: %s\", err)\n\t\t\ttime.Sleep(refresh)\n\t\t\tcontinue\n\t\t}\n\n\t\tch <- certs\n\t\tlast = next\n", New: "\t\tnext, ok := step(ch, refresh, path, last, loadFn)\n\t\tif !ok {\n\t\t\tcontinue\n\t\t}\n\t\tlast = next\n", More: []repl{{"// watch monitors", "func step(ch chan []tls.Certificate, refresh time.Duration, path string, last map[string][]byte, loadFn func(path string) (map[string][]byte, error)) (map[string][]byte, bool) {\n\tnext, err := loadFn(path)\n\tif err != nil {\n\t\tlog.Printf(\"[ERROR] cert: Cannot load certificates from %s. %s\", path, err)\n\t\ttime.Sleep(refresh)\n\t\treturn nil, false\n\t}\n\tif reflect.DeepEqual(next, last) {\n\t\ttime.Sleep(refresh)\n\t\treturn nil, false\n\t}\n\tcerts, err := loadCertificates(next)\n\tif err != nil {\n\t\tlog.Printf(\"[ERROR] cert: Cannot make certificates: %s\", err)\n\t\treturn nil, false\n\t}\n\tch <- certs\n\treturn next, true\n}\n\n// watch monitors"}}, Expect: "C11.L1"},
			{Name: "loader wrapper swallowing the error", File: "cert/watch.go", Old: "certs, err := loadCertificates(next)", New: "certs, err := parse(next)", More: []repl{{"// watch monitors", "func parse(next map[string][]byte) ([]tls.Certificate, error) {\n\tcerts, _ := loadCertificates(next)\n\treturn certs, nil\n}\n\n// watch monitors"}}, Expect: "C11.L2"},
			{Name: "benign: blocking query wrapper renamed", File: "cert/consul_source.go", Old: "pemBlocks, _, err := getCerts(client, key, 0)", New: "pemBlocks, _, err := fetchPEM(client, key, 0)", More: []repl{{"value, index, err := getCerts(client, key, lastIndex)", "value, index, err := fetchPEM(client, key, lastIndex)"}, {"func getCerts(client", "func fetchPEM(client"}}, Expect: ""},
			{Name: "benign: poll helper hides the query and sleeps on its error", File: "cert/consul_source.go", Old: "\t\tvalue, index, err := getCerts(client, key, lastIndex)\n\t\tif err != nil {\n\t\t\tlog.Printf(\"[WARN] cert: Error fetching certificates from %s. %v\", key, err)\n\t\t\ttime.Sleep(time.Second)\n\t\t\tcontinue\n\t\t}\n", New: "\t\tvalue, index, ok := poll(client, key, lastIndex)\n\t\tif !ok {\n\t\t\tcontinue\n\t\t}\n", More: []repl{{"// watchKV monitors", "func poll(client *api.Client, key string, idx uint64) (map[string][]byte, uint64, bool) {\n\tvalue, index, err := getCerts(client, key, idx)\n\tif err != nil {\n\t\tlog.Printf(\"[WARN] cert: Error fetching certificates from %s. %v\", key, err)\n\t\ttime.Sleep(time.Second)\n\t\treturn nil, idx, false\n\t}\n\treturn value, index, true\n}\n\n// watchKV monitors"}}, Expect: ""},
			{Name: "benign: consul parse-and-send closure as a named function", File: "cert/consul_source.go", Old: "\tgo func() {\n\t\tfor pemBlocks := range pemBlocksCh {\n\t\t\tcerts, err := loadCertificates(pemBlocks)\n\t\t\tif err != nil {\n\t\t\t\tlog.Printf(\"[ERROR] cert: Failed to load certificates. %s\", err)\n\t\t\t\tcontinue\n\t\t\t}\n\t\t\tch <- certs\n\t\t}\n\t}()\n", New: "\tgo parseAndSend(pemBlocksCh, ch)\n", More: []repl{{"// watchKV monitors", "func parseAndSend(in chan map[string][]byte, out chan []tls.Certificate) {\n\tfor pemBlocks := range in {\n\t\tif certs, err := loadCertificates(pemBlocks); err == nil {\n\t\t\tout <- certs\n\t\t} else {\n\t\t\tlog.Printf(\"[ERROR] cert: Failed to load certificates. %s\", err)\n\t\t}\n\t}\n}\n\n// watchKV monitors"}}, Expect: ""},
			{Name: "benign: result built with make and index stores", File: "cert/load.go", Old: "\tvar certs []tls.Certificate\n\tfor _, certFile := range n {\n\t\tcerts = append(certs, x[certFile])\n\t}\n", New: "\tcerts := make([]tls.Certificate, len(n))\n\tfor i, certFile := range n {\n\t\tcerts[i] = x[certFile]\n\t}\n", Expect: ""},
			{Name: "benign: collecting loop in a helper, sorted by the caller", File: "cert/load.go", Old: "\tvar certs []tls.Certificate\n\tfor _, certFile := range n {\n\t\tcerts = append(certs, x[certFile])\n\t}\n\n\treturn certs, errors.Join(errs...)", New: "\treturn inOrder(n, x), errors.Join(errs...)", More: []repl{{"func loadCertificates(", "func inOrder(n []string, x map[string]tls.Certificate) []tls.Certificate {\n\tvar certs []tls.Certificate\n\tfor _, certFile := range n {\n\t\tcerts = append(certs, x[certFile])\n\t}\n\treturn certs\n}\n\nfunc loadCertificates("}}, Expect: ""},
			{Name: "collecting loop in a helper, nobody sorts", File: "cert/load.go", Old: "\tsort.Strings(n)\n\tvar certs []tls.Certificate\n\tfor _, certFile := range n {\n\t\tcerts = append(certs, x[certFile])\n\t}\n\n\treturn certs, errors.Join(errs...)", New: "\treturn inOrder(n, x), errors.Join(errs...)", More: []repl{{"func loadCertificates(", "func inOrder(n []string, x map[string]tls.Certificate) []tls.Certificate {\n\tvar certs []tls.Certificate\n\tfor _, certFile := range n {\n\t\tcerts = append(certs, x[certFile])\n\t}\n\treturn certs\n}\n\nfunc loadCertificates("}, {"\t\"sort\"\n", ""}}, Expect: "C11.L3"},
			{Name: "result built while ranging over the map", File: "cert/load.go", Old: "\tsort.Strings(n)\n\tvar certs []tls.Certificate\n\tfor _, certFile := range n {\n\t\tcerts = append(certs, x[certFile])\n\t}\n", New: "\tsort.Strings(n)\n\tvar certs []tls.Certificate\n\tfor _, c := range x {\n\t\tcerts = append(certs, c)\n\t}\n", Expect: "C11.L3"},
			{Name: "benign: value-receiver builder returns the indexed copy", File: "cert/store.go", Old: "\tcs := certstore{Certificates: certs}\n\tcs.BuildNameToCertificate()\n\ts.cs.Store(cs)\n", New: "\tcs := certstore{Certificates: certs}.indexed()\n\ts.cs.Store(cs)\n", More: []repl{{"func (c *certstore) BuildNameToCertificate() {\n\tc.NameToCertificate = make(map[string]*tls.Certificate)\n", "func (c certstore) indexed() certstore {\n\tc.NameToCertificate = make(map[string]*tls.Certificate)\n"}, {"\t\tfor _, san := range x509Cert.DNSNames {\n\t\t\tc.NameToCertificate[san] = cert\n\t\t}\n\t}\n}", "\t\tfor _, san := range x509Cert.DNSNames {\n\t\t\tc.NameToCertificate[san] = cert\n\t\t}\n\t}\n\treturn c\n}"}}, Expect: ""},
			{Name: "value-receiver builder result dropped (index built on a copy)", File: "cert/store.go", Old: "\tcs := certstore{Certificates: certs}\n\tcs.BuildNameToCertificate()\n\ts.cs.Store(cs)\n", New: "\tcs := certstore{Certificates: certs}\n\tcs.indexed()\n\ts.cs.Store(cs)\n", More: []repl{{"func (c *certstore) BuildNameToCertificate() {\n\tc.NameToCertificate = make(map[string]*tls.Certificate)\n", "func (c certstore) indexed() certstore {\n\tc.NameToCertificate = make(map[string]*tls.Certificate)\n"}, {"\t\tfor _, san := range x509Cert.DNSNames {\n\t\t\tc.NameToCertificate[san] = cert\n\t\t}\n\t}\n}", "\t\tfor _, san := range x509Cert.DNSNames {\n\t\t\tc.NameToCertificate[san] = cert\n\t\t}\n\t}\n\treturn c\n}"}}, Expect: "C11.A1"},
			{Name: "benign: pointer set everywhere (atomic.Pointer, *certstore parameter)", File: "cert/store.go", Old: "\tcs atomic.Value\n", New: "\tcs atomic.Pointer[certstore]\n", More: []repl{{"s.cs.Store(certstore{})", "s.cs.Store(&certstore{})"}, {"\tcs := certstore{Certificates: certs}\n\tcs.BuildNameToCertificate()\n\ts.cs.Store(cs)\n", "\tcs := &certstore{Certificates: certs}\n\tcs.BuildNameToCertificate()\n\ts.cs.Store(cs)\n"}, {"func (s *Store) certstore() certstore {\n\treturn s.cs.Load().(certstore)", "func (s *Store) certstore() *certstore {\n\treturn s.cs.Load()"}, {"func getCertificate(cs certstore,", "func getCertificate(cs *certstore,"}}, Expect: ""},
			{Name: "benign: selection inlined into the handshake callback", File: "cert/source.go", Old: "\t\tGetCertificate: func(clientHello *tls.ClientHelloInfo) (cert *tls.Certificate, err error) {\n\t\t\tcert, err = getCertificate(store.certstore(), clientHello, strictMatch)\n\t\t\tif cert != nil {\n\t\t\t\treturn\n\t\t\t}\n", New: "\t\tGetCertificate: func(clientHello *tls.ClientHelloInfo) (cert *tls.Certificate, err error) {\n\t\t\tcs := store.certstore()\n\t\t\tif len(cs.Certificates) == 0 {\n\t\t\t\terr = ErrNoCertsStored\n\t\t\t} else if !strictMatch && (len(cs.Certificates) == 1 || cs.NameToCertificate == nil) {\n\t\t\t\treturn &cs.Certificates[0], nil\n\t\t\t} else {\n\t\t\t\tname := strings.TrimRight(strings.ToLower(clientHello.ServerName), \".\")\n\t\t\t\tif c, ok := cs.NameToCertificate[name]; ok {\n\t\t\t\t\treturn c, nil\n\t\t\t\t}\n\t\t\t\tlabels := strings.Split(name, \".\")\n\t\t\t\tfor i := range labels {\n\t\t\t\t\tlabels[i] = \"*\"\n\t\t\t\t\tif c, ok := cs.NameToCertificate[strings.Join(labels, \".\")]; ok {\n\t\t\t\t\t\treturn c, nil\n\t\t\t\t\t}\n\t\t\t\t}\n\t\t\t\tif strictMatch {\n\t\t\t\t\treturn nil, nil\n\t\t\t\t}\n\t\t\t\treturn &cs.Certificates[0], nil\n\t\t\t}\n", More: []repl{{"\t\"fmt\"\n", "\t\"fmt\"\n\t\"strings\"\n"}}, Expect: ""},
			{Name: "inlined selection forgets the strict test at the end", File: "cert/source.go", Old: "\t\tGetCertificate: func(clientHello *tls.ClientHelloInfo) (cert *tls.Certificate, err error) {\n\t\t\tcert, err = getCertificate(store.certstore(), clientHello, strictMatch)\n\t\t\tif cert != nil {\n\t\t\t\treturn\n\t\t\t}\n", New: "\t\tGetCertificate: func(clientHello *tls.ClientHelloInfo) (cert *tls.Certificate, err error) {\n\t\t\tcs := store.certstore()\n\t\t\tif len(cs.Certificates) == 0 {\n\t\t\t\terr = ErrNoCertsStored\n\t\t\t} else if !strictMatch && (len(cs.Certificates) == 1 || cs.NameToCertificate == nil) {\n\t\t\t\treturn &cs.Certificates[0], nil\n\t\t\t} else {\n\t\t\t\tname := strings.TrimRight(strings.ToLower(clientHello.ServerName), \".\")\n\t\t\t\tif c, ok := cs.NameToCertificate[name]; ok {\n\t\t\t\t\treturn c, nil\n\t\t\t\t}\n\t\t\t\tlabels := strings.Split(name, \".\")\n\t\t\t\tfor i := range labels {\n\t\t\t\t\tlabels[i] = \"*\"\n\t\t\t\t\tif c, ok := cs.NameToCertificate[strings.Join(labels, \".\")]; ok {\n\t\t\t\t\t\treturn c, nil\n\t\t\t\t\t}\n\t\t\t\t}\n\t\t\t\treturn &cs.Certificates[0], nil\n\t\t\t}\n", More: []repl{{"\t\"fmt\"\n", "\t\"fmt\"\n\t\"strings\"\n"}}, Expect: "C11.M1"},
			{Name: "benign: store loaded through a bound method value", File: "cert/source.go", Old: "\tx := &tls.Config{\n", New: "\tsnapshot := store.certstore\n\tx := &tls.Config{\n", More: []repl{{"getCertificate(store.certstore(), clientHello, strictMatch)", "getCertificate(snapshot(), clientHello, strictMatch)"}}, Expect: ""},
			{Name: "bound method value called twice in one handshake", File: "cert/source.go", Old: "\tx := &tls.Config{\n", New: "\tsnapshot := store.certstore\n\tx := &tls.Config{\n", More: []repl{{"cert, err = getCertificate(store.certstore(), clientHello, strictMatch)", "cert, err = getCertificate(snapshot(), clientHello, strictMatch)\n\t\t\tif len(snapshot().Certificates) == 0 {\n\t\t\t\treturn nil, ErrNoCertsStored\n\t\t\t}"}}, Expect: "C11.A2"},
			{Name: "benign: updates goroutine with an explicit select receive", File: "cert/source.go", Old: "\tgo func() {\n\t\tfor certs := range src.Certificates() {\n\t\t\tstore.SetCertificates(certs)\n\t\t}\n\t}()\n", New: "\tgo func() {\n\t\tch := src.Certificates()\n\t\tfor {\n\t\t\tselect {\n\t\t\tcase certs, ok := <-ch:\n\t\t\t\tif !ok {\n\t\t\t\t\treturn\n\t\t\t\t}\n\t\t\t\tstore.SetCertificates(certs)\n\t\t\t}\n\t\t}\n\t}()\n", Expect: ""},
		},
	})
}

// c11lastModel: the model of the run in progress, for the rules chained after runC11 (c11_round3.go).
var c11lastModel *c11Model

func runC11(c *Ctx) {
	c11useCtx(c)
	m := newC11Model(c)
	c11lastModel = m
	if m == nil {
		return
	}
	runC11A(c, m)
	runC11M(c, m)
	runC11M3(c, m)
	runC11M4(c, m)
	runC11M5(c, m)
	runC11L1(c)
	runC11L2(c)
	runC11L3(c)
	runC11L4(c, m)
	if os.Getenv("C11_DEBUG") != "" { // development aid: every obligation of this run
		for _, o := range c.Obs {
			fmt.Fprintf(os.Stderr, "C11_DEBUG %s %s [%s] at %s\n", o.Status, o.Rule, o.Construct, o.Pos)
		}
	}
}

// ---- the model: who plays which role in package cert ----------------------------------------------------------------

// c11isCertSlice: t is []tls.Certificate, under whatever name (alias, defined slice type).
func c11isCertSlice(t types.Type) bool {
	sl, ok := types.Unalias(t).Underlying().(*types.Slice)
	return ok && namedIs(sl.Elem(), "crypto/tls.Certificate")
}

// c11isCertPtr: t is *tls.Certificate.
func c11isCertPtr(t types.Type) bool {
	p, ok := types.Unalias(t).Underlying().(*types.Pointer)
	return ok && namedIs(p.Elem(), "crypto/tls.Certificate")
}

type c11Model struct {
	c         *Ctx
	setType   *types.Named    // the certificate set (struct with a []tls.Certificate field), found through what is published atomically
	certsFld  string          // its field of type []tls.Certificate
	idxFld    string          // its string-keyed map field (the name index)
	idxType   string          // type string of the (first) index map
	idxTypes  map[string]bool // type strings of all maps that serve as name index (an index may be split into several maps)
	idxPath   map[string]bool // "struct type.field" of every field on the way from the set to an index map (the map field itself included)
	cells     map[string]bool // the cells the set is published in ("cert.Store.cs"): atomic cells, or fields guarded by a mutex
	guarded   map[string]bool // those of the cells that are plain fields of a struct with a sync.Mutex / sync.RWMutex (c11_guarded.go)
	entry     *ssa.Function   // publish entry (Store.SetCertificates by role)
	entryReg  []*ssa.Function
	cbs       []*ssa.Function    // handshake callbacks (values of tls.Config.GetCertificate)
	hsReg     []*ssa.Function    // region below the handshake callbacks
	senseBusy map[ssa.Value]bool // comparisons whose strictness sense is being computed (recursion guard of modeSense)
}

// c11cellKey names the memory cell an atomic operation works on: a field of a named struct or a package-level variable.
func c11cellKey(cell ssa.Value) string {
	switch x := cell.(type) {
	case *ssa.FieldAddr:
		t := x.X.Type()
		if p, ok := t.Underlying().(*types.Pointer); ok {
			t = p.Elem()
		}
		return typeStr(t) + "." + fieldName(x.X.Type(), x.Field)
	case *ssa.Global:
		return x.Pkg.Pkg.Path() + "." + x.Name()
	case *ssa.UnOp:
		if x.Op == token.MUL {
			return c11cellKey(x.X)
		}
	}
	return ""
}

// c11setStruct: t (through one pointer) is a named struct with a []tls.Certificate field -> (named, certs field, index field, index type).
// The index is looked for in the struct itself and in the small structs it holds (c11findIndex in c11_index.go).
func c11setStruct(t types.Type) (*types.Named, string, string, string) {
	if p, ok := t.Underlying().(*types.Pointer); ok {
		t = p.Elem()
	}
	n, ok := types.Unalias(t).(*types.Named)
	if !ok {
		return nil, "", "", ""
	}
	st, ok := n.Underlying().(*types.Struct)
	if !ok {
		return nil, "", "", ""
	}
	certs := ""
	for i := 0; i < st.NumFields(); i++ {
		if f := st.Field(i); c11isCertSlice(f.Type()) && certs == "" {
			certs = f.Name()
		}
	}
	if certs == "" {
		return nil, "", "", ""
	}
	ix := c11findIndex(n)
	return n, certs, ix.first, ix.firstType
}

func newC11Model(c *Ctx) *c11Model {
	m := &c11Model{c: c, cells: map[string]bool{}, guarded: map[string]bool{}}
	if c.spkg("cert") == nil {
		c.undecided("C11.A1", "anchor|package cert", "package cert not found")
		return nil
	}
	// the set type and its cells: what package cert publishes atomically
	for _, f := range c.fnsWhere("cert", func(*ssa.Function) bool { return true }) {
		eachInstr(f, func(i ssa.Instruction) {
			kind, cell, val, ok := atomicOp(callCommon(i))
			if !ok || (kind != "store" && kind != "swap" && kind != "cas") || val == nil {
				return
			}
			for _, v := range append(publishedValue(val), stripIface(val)) {
				if n, cf, xf, xt := c11setStruct(v.Type()); n != nil {
					if m.setType == nil || (m.idxFld == "" && xf != "") {
						m.setType, m.certsFld, m.idxFld, m.idxType = n, cf, xf, xt
						ix := c11findIndex(n)
						m.idxTypes, m.idxPath = ix.types, ix.path
					}
					if k := c11cellKey(cell); k != "" && types.Identical(n, m.setType) {
						m.cells[k] = true
					}
				}
			}
		})
	}
	if m.setType == nil {
		m.findGuardedCells() // the holder may keep the set in a mutex-protected field instead
	}
	if m.setType == nil {
		c.undecided("C11.A1", "anchor|atomically published certificate set", "package cert publishes no struct with a []tls.Certificate field through sync/atomic, and keeps none in a field of a struct with a mutex")
		return nil
	}
	if m.idxFld == "" {
		c.undecided("C11.M2", "anchor|name index of the certificate set", "the published set "+typeStr(m.setType)+" has no string-keyed map field")
	}
	// publish entry: takes the new certificates, publishes below it
	m.entry = c.fnByRole("cert", "SetCertificates", func(f *ssa.Function) bool {
		has := false
		for _, p := range f.Params {
			if c11isCertSlice(p.Type()) {
				has = true
			}
		}
		if !has || f.Parent() != nil {
			return false
		}
		for _, g := range c.region(f) {
			pub := false
			eachInstr(g, func(i ssa.Instruction) {
				if m.isPublishTry(i) {
					pub = true
				}
			})
			if pub {
				return true
			}
		}
		return false
	})
	if m.entry != nil {
		m.entryReg = c.region(m.entry)
	}
	// handshake callbacks: the functions a tls.Config.GetCertificate can denote
	seen := map[*ssa.Function]bool{}
	for _, f := range c.fnsWhere("cert", func(*ssa.Function) bool { return true }) {
		eachInstr(f, func(i ssa.Instruction) {
			st, ok := i.(*ssa.Store)
			if !ok {
				return
			}
			if _, ok := fieldOf(st.Addr, "tls.Config", "GetCertificate"); !ok {
				return
			}
			for _, g := range c11funcsOf(st.Val, 0) {
				if !seen[g] && len(g.Blocks) > 0 {
					seen[g] = true
					m.cbs = append(m.cbs, g)
				}
			}
		})
	}
	if len(m.cbs) == 0 {
		// no visible assignment: fall back to the functions of package cert that have the callback's signature and use the set
		for _, f := range c.fnsWhere("cert", func(f *ssa.Function) bool {
			s := f.Signature
			return s.Params().Len() == 1 && typeStr(s.Params().At(0).Type()) == "*crypto/tls.ClientHelloInfo" &&
				s.Results().Len() == 2 && c11isCertPtr(s.Results().At(0).Type()) && c11mayExec(f, m.isSetLoad, 0)
		}) {
			m.cbs = append(m.cbs, f)
		}
	}
	m.hsReg = c11region(c, m.cbs...)
	return m
}

// c11funcsOf is funcsOf that also follows a function-typed parameter of a helper to the arguments at its call sites and a
// captured function variable to what the enclosing function bound.
func c11funcsOf(v ssa.Value, depth int) []*ssa.Function {
	out := funcsOf(v)
	if len(out) > 0 || depth > 3 || v == nil {
		return out
	}
	for {
		if ct, ok := v.(*ssa.ChangeType); ok {
			v = ct.X
			continue
		}
		if u, ok := v.(*ssa.UnOp); ok && u.Op == token.MUL {
			if fv, isFV := u.X.(*ssa.FreeVar); isFV {
				v = fv
			}
		}
		break
	}
	if vals, isLoad := c11storedInto(v); isLoad {
		// a function kept in a struct field or a package variable: whatever is stored there
		for _, sv := range vals {
			out = append(out, c11funcsOf(sv, depth+1)...)
		}
		return out
	}
	switch x := v.(type) {
	case *ssa.Parameter:
		if x.Parent() == nil {
			return nil
		}
		for k, q := range x.Parent().Params {
			if q != x {
				continue
			}
			for _, s := range gSites[x.Parent()] {
				if cc := s.Common(); k < len(cc.Args) {
					out = append(out, c11funcsOf(cc.Args[k], depth+1)...)
				}
			}
		}
	case *ssa.FreeVar:
		fn := x.Parent()
		if fn == nil || fn.Parent() == nil {
			return nil
		}
		for k, fv := range fn.FreeVars {
			if fv != x {
				continue
			}
			eachInstr(fn.Parent(), func(i ssa.Instruction) {
				mc, ok := i.(*ssa.MakeClosure)
				if !ok || mc.Fn != fn || k >= len(mc.Bindings) {
					return
				}
				if a, isAlloc := mc.Bindings[k].(*ssa.Alloc); isAlloc {
					for _, r := range *a.Referrers() {
						if st, ok := r.(*ssa.Store); ok && st.Addr == a {
							out = append(out, c11funcsOf(st.Val, depth+1)...)
						}
					}
					return
				}
				out = append(out, c11funcsOf(mc.Bindings[k], depth+1)...)
			})
		}
	}
	return out
}

// c11callee: the repository function a call denotes — its static callee, or the single function a local or captured
// function variable can hold. nil for interface calls and calls that cannot be resolved.
func c11callee(cc *ssa.CallCommon) *ssa.Function {
	if fs := c11callees(cc); len(fs) == 1 {
		return fs[0]
	}
	return nil
}

// c11region is Ctx.region that also enters the closures reached through calls of captured function variables.
func c11region(c *Ctx, roots ...*ssa.Function) []*ssa.Function {
	out := c.region(roots...)
	seen := map[*ssa.Function]bool{}
	for _, f := range out {
		seen[f] = true
	}
	for k := 0; k < len(out) && k < 200; k++ {
		eachInstr(out[k], func(i ssa.Instruction) {
			cc := callCommon(i)
			if cc == nil || cc.StaticCallee() != nil {
				return
			}
			for _, g := range c11callees(cc) {
				if seen[g] || rootPkg(g) != rootPkg(out[k]) {
					continue
				}
				for _, h := range c.region(g) {
					if !seen[h] {
						seen[h] = true
						out = append(out, h)
					}
				}
			}
		})
	}
	return out
}

// c11mayExec is mayExec with calls resolved by c11callee.
func c11mayExec(fn *ssa.Function, pred func(ssa.Instruction) bool, depth int) bool {
	if fn == nil || len(fn.Blocks) == 0 || depth > 4 {
		return false
	}
	hit := false
	eachInstr(fn, func(i ssa.Instruction) {
		if hit {
			return
		}
		if pred(i) {
			hit = true
			return
		}
		if _, isGo := i.(*ssa.Go); isGo {
			return
		}
		for _, g := range c11callees(callCommon(i)) {
			if g != fn && c11mayExec(g, pred, depth+1) {
				hit = true
			}
		}
	})
	return hit
}

func c11liftMay(pred func(ssa.Instruction) bool) func(ssa.Instruction) bool {
	return func(i ssa.Instruction) bool {
		if pred(i) {
			return true
		}
		call, ok := i.(*ssa.Call)
		if !ok {
			return false
		}
		for _, g := range c11callees(&call.Call) {
			if c11mayExec(g, pred, 1) {
				return true
			}
		}
		return false
	}
}

// publishOp: the instruction installs a certificate set in one of the set's cells — an atomic store/swap/cas, or a plain
// store into a mutex-guarded cell -> the value installed and the kind of operation ("store", "swap", "cas").
func (m *c11Model) publishOp(i ssa.Instruction) (ssa.Value, string, bool) {
	if _, isGo := i.(*ssa.Go); isGo {
		return nil, "", false
	}
	if st, ok := i.(*ssa.Store); ok {
		if fa, isFA := st.Addr.(*ssa.FieldAddr); isFA && m.guarded[c11fieldKey(fa.X.Type(), fa.Field)] {
			return st.Val, "store", true
		}
		return nil, "", false
	}
	kind, cell, val, ok := atomicOp(callCommon(i))
	if !ok || (kind != "store" && kind != "swap" && kind != "cas") || val == nil || !m.cells[c11cellKey(cell)] {
		return nil, "", false
	}
	return val, kind, true
}

// isPublish: a store/swap of a certificate set into one of the set's cells.
func (m *c11Model) isPublish(i ssa.Instruction) bool {
	_, kind, ok := m.publishOp(i)
	return ok && kind != "cas"
}

// isPublishTry: isPublish, or a compare-and-swap that may publish.
func (m *c11Model) isPublishTry(i ssa.Instruction) bool {
	_, _, ok := m.publishOp(i)
	return ok
}

// isSetLoad: an atomic load of one of the set's cells, or a read of (a part of) a mutex-guarded cell.
func (m *c11Model) isSetLoad(i ssa.Instruction) bool {
	if u, ok := i.(*ssa.UnOp); ok {
		return u.Op == token.MUL && len(m.guarded) > 0 && m.guardedAddr(u.X)
	}
	kind, cell, _, ok := atomicOp(callCommon(i))
	return ok && kind == "load" && m.cells[c11cellKey(cell)]
}

func (m *c11Model) isSet(t types.Type) bool {
	if p, ok := t.Underlying().(*types.Pointer); ok {
		t = p.Elem()
	}
	return types.Identical(types.Unalias(t), m.setType)
}

// isIndexMap: v is a value of the index map's type (the field itself, a local copy of it, a map under construction).
func (m *c11Model) isIndexMap(v ssa.Value) bool {
	return m.idxType != "" && m.idxTypes[typeStr(v.Type())]
}

// isIndexWrite: the instruction fills or installs a name index: a map update on a map of the index type, or a store to
// the index field of a set.
func (m *c11Model) isIndexWrite(i ssa.Instruction) bool {
	switch x := i.(type) {
	case *ssa.MapUpdate:
		return m.isIndexMap(x.Map)
	case *ssa.Store:
		if fa, ok := x.Addr.(*ssa.FieldAddr); ok && m.idxPath[c11fieldKey(fa.X.Type(), fa.Field)] {
			return true
		}
	}
	return false
}

// ---- A1 / A2 ---------------------------------------------------------------------------------------------------------

// c11root strips the load that turns a local cell into the value published (atomic.Value.Store(cs) publishes *(&cs)).
func c11root(v ssa.Value) ssa.Value {
	if u, ok := v.(*ssa.UnOp); ok && u.Op == token.MUL {
		return u.X
	}
	return v
}

// indexedBefore: at instruction at (in its function), the set whose value is v has had its index built — an index write
// on it, or a call of a helper that builds an index and either receives the set or produces it, dominates at. If the set
// is a parameter of an unexported helper, every call site of the helper must satisfy this instead.
func (m *c11Model) indexedBefore(at ssa.Instruction, v ssa.Value, depth int) bool {
	root := c11root(v)
	related := func(a ssa.Value) bool {
		if a == root || a == v {
			return true
		}
		if _, isConst := a.(*ssa.Const); isConst {
			return false
		}
		if !m.isSet(a.Type()) {
			return false
		}
		return derives(v, func(x ssa.Value) bool { return x == a }) || derives(a, func(x ssa.Value) bool { return x == root })
	}
	found := false
	eachInstr(at.Parent(), func(i ssa.Instruction) {
		if found || i == at || !dominatesInstr(i, at) {
			return
		}
		switch x := i.(type) {
		case *ssa.Store:
			if m.isIndexWrite(i) {
				if fa := x.Addr.(*ssa.FieldAddr); related(fa.X) || addrRootedAt(fa.X, root) {
					found = true
				}
			}
		case *ssa.MapUpdate:
			if m.isIndexWrite(i) && (addrRootedAt(x.Map, root) || derives(v, func(y ssa.Value) bool { return y == x.Map })) {
				found = true
			}
		case *ssa.Call:
			sc := x.Call.StaticCallee()
			if sc == nil || !isRepoFn(sc) || !mayExec(unwrap(sc), m.isIndexWrite, 0) {
				return
			}
			if derives(v, func(y ssa.Value) bool { return y == ssa.Value(x) }) {
				found = true // the set is what the builder returned
			}
			for _, a := range x.Call.Args {
				if _, isPtr := a.Type().Underlying().(*types.Pointer); isPtr && related(a) {
					found = true // the builder worked on this set in place (a set passed by value is a copy)
				}
			}
		}
	})
	if found {
		return true
	}
	// the set comes in as a parameter: the callers must have indexed it
	fn := at.Parent()
	if depth < 2 && fn != m.entry && onlyStaticallyCalled(fn) && len(gSites[fn]) > 0 {
		for k, p := range fn.Params {
			if !derives(v, func(x ssa.Value) bool { return x == ssa.Value(p) }) || !m.isSet(p.Type()) {
				continue
			}
			all := true
			for _, s := range gSites[fn] {
				cc := s.Common()
				if k >= len(cc.Args) || !m.indexedBefore(s, cc.Args[k], depth+1) {
					all = false
				}
			}
			return all
		}
	}
	return false
}

// writtenAfter: some instruction that can execute after at (in at's function) writes memory rooted at the published set.
func (m *c11Model) writtenAfter(at ssa.Instruction, v ssa.Value) string {
	root := c11root(v)
	bad := ""
	eachInstr(at.Parent(), func(j ssa.Instruction) {
		if j == at || !pathAvoiding(at, j, nil) {
			return
		}
		if w, ok := writesVia(m.c, j, root); ok {
			bad = w
		}
	})
	return bad
}

func runC11A(c *Ctx, m *c11Model) {
	if m.entry == nil {
		c.undecided("C11.A1", "anchor|publish entry", "no function of package cert takes a []tls.Certificate and publishes a set below it (Store.SetCertificates by role)")
	} else {
		n := 0
		eachInstrOf(m.entryReg, func(f *ssa.Function, i ssa.Instruction) {
			if !m.isPublishTry(i) {
				return
			}
			n++
			val, _, _ := m.publishOp(i)
			built, bad := false, ""
			cands := publishedValue(val)
			if raw := stripIface(val); len(cands) != 1 || cands[0] != raw {
				cands = append(cands, raw)
			}
			for _, v := range cands {
				if m.indexedBefore(i, v, 0) {
					built = true
				}
				if w := m.writtenAfter(i, v); w != "" {
					bad = w
				}
				// the helper that publishes its parameter: what the callers do after the call counts as well
				if fn := i.Parent(); fn != m.entry && onlyStaticallyCalled(fn) {
					for k, p := range fn.Params {
						if m.isSet(p.Type()) && derives(v, func(x ssa.Value) bool { return x == ssa.Value(p) }) {
							for _, s := range gSites[fn] {
								if cc := s.Common(); k < len(cc.Args) {
									if w := m.writtenAfter(s, cc.Args[k]); w != "" {
										bad = w
									}
								}
							}
						}
					}
				}
			}
			c.check("C11.A1", fnKey(m.entry)+"|index built before publish", i.Pos(), built,
				"the name index of the published set must be complete before the set is published (an index write on it, or a call of the index builder on it, must dominate the atomic store): a handshake that loads the set in between sees certificates without an index (every name falls back to the first certificate, or to none with strict matching)")
			c.check("C11.A1", fnKey(m.entry)+"|no write after publish", i.Pos(), bad == "", "after the atomic publish the set is read by concurrent handshakes; "+bad+" mutates it")
		})
		c.atLeast("C11.A1", "atomic publishes of a certificate set below "+fnKey(m.entry), n, 1)
	}

	// A2
	if len(m.cbs) == 0 {
		c.undecided("C11.A2", "anchor|handshake callbacks", "no function is assigned to tls.Config.GetCertificate in package cert")
		return
	}
	n := 0
	for _, f := range m.hsReg {
		var loads []ssa.Instruction
		isLoad := c11liftMay(m.isSetLoad)
		eachInstr(f, func(i ssa.Instruction) {
			if _, isCall := i.(*ssa.Call); (isCall && isLoad(i)) || m.isSetLoad(i) {
				loads = append(loads, i)
			}
		})
		if len(loads) == 0 {
			continue
		}
		n++
		multi := false
		for _, a := range loads {
			for _, b := range loads {
				if pathAvoiding(a, b, nil) {
					multi = true
				}
			}
		}
		c.check("C11.A2", fnKey(f)+"|one load of the certificate set per handshake", loads[0].Pos(), !multi,
			"a handshake must load the published set once: two loads on one path can straddle a publish, so one handshake decides on a mixture of two sets")
	}
	c.atLeast("C11.A2", "functions below the handshake callbacks that load the store", n, 1)
	// the same through the checker's call graph (dynamic calls included)
	var loaders []*ssa.Function
	for _, f := range c.fnsWhere("cert", func(f *ssa.Function) bool {
		hit := false
		eachInstr(f, func(i ssa.Instruction) {
			if m.isSetLoad(i) {
				hit = true
			}
		})
		return hit
	}) {
		loaders = append(loaders, f)
	}
	for _, f := range m.hsReg {
		takesSet := false
		for _, p := range f.Params {
			if m.isSet(p.Type()) {
				takesSet = true
			}
		}
		if !takesSet {
			continue
		}
		r := c.reach(f)
		reloads := false
		for _, l := range loaders {
			if r[l] {
				reloads = true
			}
		}
		c.check("C11.A2", fnKey(f)+"|works on its parameter only", f.Pos(), !reloads, "a function that is handed the certificate set must not reload the store; it decides on the snapshot it was given")
	}
}

// ---- M1 / M2 ---------------------------------------------------------------------------------------------------------

// c11strictSense: v is a strictness flag — a bool parameter, captured variable or field (not a computed verdict), possibly
// negated or passed down through helpers. +1: true means strict; -1: true means fallback allowed; 0: not a flag.
func (m *c11Model) strictSense(v ssa.Value, depth int) int {
	if v == nil || depth > 6 {
		return 0
	}
	isBool := func(t types.Type) bool {
		b, ok := t.Underlying().(*types.Basic)
		return ok && b.Kind() == types.Bool
	}
	// a captured variable: what the enclosing function bound (a value, or the cell of a variable captured by reference)
	if fv, ok := v.(*ssa.FreeVar); ok {
		fn := fv.Parent()
		if fn == nil || fn.Parent() == nil {
			return 0
		}
		sense := 0
		for k, x := range fn.FreeVars {
			if x != fv {
				continue
			}
			eachInstr(fn.Parent(), func(i ssa.Instruction) {
				mc, ok := i.(*ssa.MakeClosure)
				if !ok || mc.Fn != fn || k >= len(mc.Bindings) || sense != 0 {
					return
				}
				switch b := mc.Bindings[k].(type) {
				case *ssa.Alloc:
					for _, r := range *b.Referrers() {
						if st, ok := r.(*ssa.Store); ok && st.Addr == b && sense == 0 {
							sense = m.strictSense(st.Val, depth+1)
						}
					}
				case *ssa.FreeVar:
					sense = m.strictSense(b, depth+1)
				default:
					if isBool(b.Type()) {
						sense = m.strictSense(b, depth+1)
					}
				}
			})
		}
		return sense
	}
	if !isBool(v.Type()) {
		return 0
	}
	switch x := v.(type) {
	case *ssa.UnOp:
		if x.Op == token.NOT {
			return -m.strictSense(x.X, depth+1)
		}
		if x.Op != token.MUL {
			return 0
		}
		switch a := x.X.(type) {
		case *ssa.Alloc: // local cell
			for _, r := range *a.Referrers() {
				if st, ok := r.(*ssa.Store); ok && st.Addr == a {
					if s := m.strictSense(st.Val, depth+1); s != 0 {
						return s
					}
				}
			}
			return 0
		case *ssa.FreeVar:
			return m.strictSense(a, depth+1)
		case *ssa.FieldAddr:
			if m.isSet(a.X.Type()) || namedIs(a.X.Type(), "tls.ClientHelloInfo") {
				return 0
			}
			return m.fieldSense(a.X.Type(), a.Field, depth)
		}
		return 0
	case *ssa.Field:
		if m.isSet(x.X.Type()) {
			return 0
		}
		return m.fieldSense(x.X.Type(), x.Field, depth)
	case *ssa.BinOp:
		if x.Op == token.EQL || x.Op == token.NEQ {
			if k, ok := constBool(x.Y); ok {
				s := m.strictSense(x.X, depth+1)
				if k == (x.Op == token.NEQ) {
					s = -s
				}
				return s
			}
			// an enumerated mode compared with one of its constants
			for _, p := range [][2]ssa.Value{{x.X, x.Y}, {x.Y, x.X}} {
				if k, isK := p[1].(*ssa.Const); isK && !m.senseBusy[x] {
					if _, otherK := p[0].(*ssa.Const); otherK {
						continue
					}
					if m.senseBusy == nil {
						m.senseBusy = map[ssa.Value]bool{}
					}
					m.senseBusy[x] = true
					s := m.modeSense(p[0], k, depth)
					delete(m.senseBusy, x)
					if x.Op == token.NEQ {
						s = -s
					}
					return s
				}
			}
		}
		return 0
	case *ssa.Parameter:
		fn := x.Parent()
		for k, p := range fn.Params {
			if p != x {
				continue
			}
			for _, s := range gSites[fn] {
				if cc := s.Common(); k < len(cc.Args) {
					if sn := m.strictSense(cc.Args[k], depth+1); sn != 0 {
						return sn
					}
				}
			}
		}
		return 1 // the flag as it enters the package (TLSConfig's strictMatch): true means strict
	}
	return 0
}

// fieldSense: the sense of a bool field: what is stored into it anywhere in package cert, +1 if nothing is visible.
func (m *c11Model) fieldSense(structT types.Type, field int, depth int) int {
	name := fieldName(structT, field)
	sense := 0
	for _, f := range m.c.fnsWhere("cert", func(*ssa.Function) bool { return true }) {
		eachInstr(f, func(i ssa.Instruction) {
			st, ok := i.(*ssa.Store)
			if !ok || sense != 0 {
				return
			}
			fa, ok := st.Addr.(*ssa.FieldAddr)
			if !ok || fieldName(fa.X.Type(), fa.Field) != name {
				return
			}
			a, b := fa.X.Type(), structT
			if p, ok := a.Underlying().(*types.Pointer); ok {
				a = p.Elem()
			}
			if p, ok := b.Underlying().(*types.Pointer); ok {
				b = p.Elem()
			}
			if types.Identical(a, b) {
				sense = m.strictSense(st.Val, depth+1)
			}
		})
	}
	if sense == 0 {
		return 1
	}
	return sense
}

// strictKnown: the facts at b say whether strict matching is on: +1 strict, -1 not strict, 0 unknown.
func (m *c11Model) strictKnown(b *ssa.BasicBlock) int { return m.strictKnownDepth(b, 0) }

func (m *c11Model) strictKnownDepth(b *ssa.BasicBlock, depth int) int {
	for _, f := range factsAt(b) {
		if s := m.strictSense(f.Cond, depth); s != 0 {
			if !f.Truth {
				s = -s
			}
			return s
		}
	}
	return 0
}

// c11at is a point control passed through: a block, or the edge from a block to one of its successors (the edge a phi
// operand comes in on carries the branch condition even when the predecessor block itself does not).
type c11at struct {
	b, to *ssa.BasicBlock
	v     ssa.Value // at a return block: the value returned there (nil when not recorded)
}

// strictKnownForNil: at is a return block that control reaches over several edges and none of its own facts speaks of
// strictness - `if cert != nil || strictMatch { return cert, nil }`. For the nil that comes out here the edges taken
// because the returned value is NOT nil are impossible; when every other edge is taken under a known 'strict' branch,
// the nil is returned under strict matching.
func (m *c11Model) strictKnownForNil(at c11at) int {
	if at.b == nil || at.to != nil || at.v == nil || len(at.b.Preds) < 2 {
		return 0
	}
	isNilTest := func(f Fact) bool { // the fact says: at.v is not nil
		b, ok := f.Cond.(*ssa.BinOp)
		if !ok || !(b.Op == token.NEQ && f.Truth || b.Op == token.EQL && !f.Truth) {
			return false
		}
		return b.X == at.v && isNilConst(b.Y) || b.Y == at.v && isNilConst(b.X)
	}
	n := 0
	for _, p := range at.b.Preds {
		impossible := false
		if len(p.Instrs) > 0 && len(p.Succs) == 2 && p.Succs[0] != p.Succs[1] {
			if iff, ok := p.Instrs[len(p.Instrs)-1].(*ssa.If); ok {
				for _, f := range appendCondFacts(nil, iff.Cond, p.Succs[0] == at.b, 0) {
					if isNilTest(f) {
						impossible = true
					}
				}
			}
		}
		if impossible {
			continue
		}
		if m.strictKnownAt(c11at{b: p, to: at.b}) <= 0 {
			return 0
		}
		n++
	}
	if n > 0 {
		return 1
	}
	return 0
}

func (m *c11Model) strictKnownAt(at c11at) int { return m.strictKnownAtDepth(at, 0) }

func (m *c11Model) strictKnownAtDepth(at c11at, depth int) int {
	if at.b == nil {
		return 0
	}
	if s := m.strictKnownDepth(at.b, depth); s != 0 {
		return s
	}
	if at.to == nil || len(at.b.Instrs) == 0 || len(at.b.Succs) != 2 || at.b.Succs[0] == at.b.Succs[1] {
		return 0
	}
	iff, ok := at.b.Instrs[len(at.b.Instrs)-1].(*ssa.If)
	if !ok {
		return 0
	}
	s := m.strictSense(iff.Cond, depth)
	if at.b.Succs[1] == at.to {
		s = -s
	}
	return s
}

// c11leaf is one origin of a returned certificate: the value and the points control passed through on the way from that
// origin to the handshake callback's return (return blocks, call blocks, phi edges).
type c11leaf struct {
	v     ssa.Value
	chain []c11at
}

// certOrigins walks a returned *tls.Certificate back through phis, local cells and the results of repository helpers.
func c11certOrigins(v ssa.Value, chain []c11at, depth int, seen map[ssa.Value]bool, out *[]c11leaf) {
	if v == nil || depth > 8 {
		return
	}
	if seen[v] {
		return
	}
	seen[v] = true
	defer delete(seen, v)
	with := func(b ...c11at) []c11at {
		return append(append([]c11at{}, chain...), b...)
	}
	results := func(call *ssa.Call, idx int) bool {
		sc := c11callee(&call.Call)
		if sc == nil || len(sc.Blocks) == 0 {
			return false
		}
		eachInstr(sc, func(i ssa.Instruction) {
			if r, ok := i.(*ssa.Return); ok && idx < len(r.Results) {
				c11certOrigins(r.Results[idx], with(c11at{b: call.Block()}, c11at{b: r.Block(), v: r.Results[idx]}), depth+1, seen, out)
			}
		})
		return true
	}
	switch x := v.(type) {
	case *ssa.Phi:
		for k, e := range x.Edges {
			c11certOrigins(e, with(c11at{b: x.Block().Preds[k], to: x.Block()}), depth+1, seen, out)
		}
		return
	case *ssa.Extract:
		if call, ok := x.Tuple.(*ssa.Call); ok && results(call, x.Index) {
			return
		}
	case *ssa.Call:
		if results(x, 0) {
			return
		}
	case *ssa.UnOp:
		if x.Op == token.MUL {
			if _, ok := x.X.(*ssa.Alloc); ok {
				for _, d := range defsOf(x) {
					c11certOrigins(d.Val, with(c11at{b: d.Block}), depth+1, seen, out)
				}
				return
			}
		}
	case *ssa.ChangeType:
		c11certOrigins(x.X, chain, depth+1, seen, out)
		return
	}
	if i, ok := v.(ssa.Instruction); ok && i.Block() != nil {
		chain = with(c11at{b: i.Block()})
	}
	*out = append(*out, c11leaf{v, chain})
}

// c11isCertSeq: a slice or array of tls.Certificate or *tls.Certificate.
func c11isCertSeq(t types.Type) bool {
	var el types.Type
	switch u := types.Unalias(t).Underlying().(type) {
	case *types.Slice:
		el = u.Elem()
	case *types.Array:
		el = u.Elem()
	default:
		return false
	}
	return namedIs(el, "crypto/tls.Certificate")
}

// isFirstCert: v is the address (or value) of an element of a list of tls.Certificate taken by position — the default
// certificate &cs.Certificates[0] (any position counts: a certificate chosen by position is not chosen by name).
func c11isFirstCert(v ssa.Value) bool {
	if u, ok := v.(*ssa.UnOp); ok && u.Op == token.MUL {
		v = u.X
	}
	switch x := v.(type) {
	case *ssa.IndexAddr:
		t := x.X.Type()
		if p, ok := t.Underlying().(*types.Pointer); ok {
			t = p.Elem()
		}
		return c11isCertSeq(t)
	case *ssa.Index:
		return c11isCertSeq(x.X.Type())
	}
	return false
}

func runC11M(c *Ctx, m *c11Model) {
	if len(m.cbs) == 0 {
		c.undecided("C11.M1", "anchor|handshake callbacks", "no function is assigned to tls.Config.GetCertificate in package cert")
		return
	}
	// M1: what the callbacks return
	type verdict struct {
		pos token.Pos
		ok  bool
	}
	fallback := map[ssa.Value]*verdict{}
	var order []ssa.Value
	nStrictMiss := 0
	for _, cb := range m.cbs {
		eachInstr(cb, func(i ssa.Instruction) {
			r, ok := i.(*ssa.Return)
			if !ok || len(r.Results) == 0 {
				return
			}
			var leaves []c11leaf
			c11certOrigins(r.Results[0], []c11at{{b: r.Block(), v: r.Results[0]}}, 0, map[ssa.Value]bool{}, &leaves)
			for _, l := range leaves {
				notStrict, strict := false, false
				for _, at := range l.chain {
					s := m.strictKnownAt(at)
					if s == 0 && isNilConst(l.v) {
						s = m.strictKnownForNil(at)
					}
					switch {
					case s < 0:
						notStrict = true
					case s > 0:
						strict = true
					}
				}
				if isNilConst(l.v) && strict && !notStrict {
					nStrictMiss++
				}
				if !c11isFirstCert(l.v) || m.positionByName(l) {
					continue
				}
				vd := fallback[l.v]
				if vd == nil {
					vd = &verdict{l.v.Pos(), true}
					fallback[l.v] = vd
					order = append(order, l.v)
				}
				if !notStrict {
					vd.ok = false
				}
			}
		})
	}
	for _, v := range order {
		fn := "cert"
		if i, ok := v.(ssa.Instruction); ok {
			fn = fnKey(i.Parent())
		}
		c.check("C11.M1", fn+"|fallback to the first certificate only without strict matching", fallback[v].pos, fallback[v].ok,
			"returning the first certificate is the fallback for 'no name matched'; with strict matching the listener must present no certificate instead (every way this value reaches the handshake callback's return must pass a 'not strict' branch)")
	}
	c.atLeast("C11.M1", "returns of the first certificate of the set below the handshake callbacks", len(order), 1)
	c.check("C11.M1", "handshake|strict miss returns no certificate", m.cbs[0].Pos(), nStrictMiss >= 1, "with strict matching a miss must present no certificate: a nil certificate must reach the handshake callback's return under a known 'strict' branch")

	// M2: lookups in the name index
	isServerName := func(x ssa.Value) bool { _, isF := fieldOf(x, "tls.ClientHelloInfo", "ServerName"); return isF }
	isLowerName := func(v ssa.Value) bool {
		call, ok := isCallTo(v, "strings.ToLower")
		if !ok {
			return false
		}
		return derives(call.Call.Args[0], isServerName)
	}
	isDotTrim := func(v ssa.Value) bool {
		call, ok := v.(*ssa.Call)
		if !ok || len(call.Call.Args) < 2 {
			return false
		}
		cut, isK := constString(call.Call.Args[1])
		switch calleeName(&call.Call) {
		case "strings.TrimRightFunc", "strings.TrimFunc":
			// the predicate tests for '.'
			for _, pf := range c11funcsOf(call.Call.Args[1], 0) {
				dot := false
				eachInstr(pf, func(i ssa.Instruction) {
					if b, isB := i.(*ssa.BinOp); isB && (b.Op == token.EQL || b.Op == token.NEQ) {
						for _, o := range []ssa.Value{b.X, b.Y} {
							if k, isInt := constInt(o); isInt && k == '.' {
								dot = true
							}
						}
					}
				})
				if dot {
					return true
				}
			}
			return false
		case "strings.TrimRight", "strings.Trim":
			return isK && strings.Contains(cut, ".")
		case "strings.TrimSuffix":
			return isK && cut == "."
		}
		return false
	}
	nLk, trim := 0, false
	eachInstrOf(m.hsReg, func(f *ssa.Function, i ssa.Instruction) {
		lk, ok := i.(*ssa.Lookup)
		if !ok || !m.isIndexMap(lk.X) {
			return
		}
		nLk++
		c.check("C11.M2", fnKey(f)+"|index lookup key is the lower-cased server name", lk.Pos(), m.atEverySite(lk.Index, 0, func(v ssa.Value) bool { return derives(v, isLowerName) }),
			"the name index must be searched with strings.ToLower(clientHello.ServerName) (and names derived from it): server names are case-insensitive, 'WWW.Example.com' must find the certificate for www.example.com")
		if derives(lk.Index, func(v ssa.Value) bool { return isDotTrim(v) && derives(v, isServerName) }) {
			trim = true
		}
	})
	c.atLeast("C11.M2", "lookups in the name index below the handshake callbacks", nLk, 1)
	// trailing dots trimmed the hand-written way: the last byte of the lower-cased name is tested against '.'
	eachInstrOf(m.hsReg, func(f *ssa.Function, i ssa.Instruction) {
		switch x := i.(type) {
		case *ssa.BinOp:
			if x.Op != token.EQL && x.Op != token.NEQ {
				return
			}
			for _, p := range [][2]ssa.Value{{x.X, x.Y}, {x.Y, x.X}} {
				if k, ok := constInt(p[1]); ok && k == '.' && derives(p[0], isServerName) {
					trim = true
				}
			}
		case *ssa.Call:
			if calleeName(&x.Call) == "strings.HasSuffix" && len(x.Call.Args) == 2 {
				if s, ok := constString(x.Call.Args[1]); ok && s == "." && derives(x.Call.Args[0], isServerName) {
					trim = true
				}
			}
		}
	})
	if nLk > 0 {
		c.check("C11.M2", "handshake|trailing dots trimmed", m.cbs[0].Pos(), trim, "a fully-qualified server name 'example.com.' must match the certificate for example.com: the lower-cased name must lose its trailing dots (loop on the last byte, strings.TrimRight or strings.TrimSuffix) before the lookup")
	}
}
