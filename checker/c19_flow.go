package main

// Value-origin resolver of C19 (c19 variant of ssahelp.go's derives/defsOf/accessPath, see REPORT): instead of asking
// "does the backward slice of v contain a value with property P" it enumerates WHERE a value comes from, as symbolic
// access paths with the branch conditions under which each origin is selected. The rules of C19 are wiring rules
// ("this field holds that configuration field", "this transport is a NewTransport result", "504 is written on the
// edge where Timeout() is true"); with origins they do not depend on how the code is cut into functions, on
// literal-vs-assignment construction, on locals, or on if/switch/early-return shape.

import (
	"fmt"
	"go/constant"
	"go/token"
	"go/types"
	"strings"

	"golang.org/x/tools/go/ssa"
)

// c19org is one origin of a value: root.fields[0].fields[1]... (Go-like path, pointers auto-dereferenced).
// root is a terminal value: *ssa.Global (the variable's content), *ssa.Alloc (a freshly built object, identity),
// *ssa.Parameter (not resolvable further), *ssa.Const, *ssa.Call (opaque call; idx = result index),
// *ssa.Function / *ssa.MakeClosure, or any other value the resolver does not look through (arithmetic ...).
type c19org struct {
	root   ssa.Value
	idx    int
	fields []string
	types  []types.Type // types[k] = static type of root.fields[:k]; len(fields)+1 entries
	facts  []Fact       // conditions under which this origin is the one selected
	via    []c19via     // every field selection the value went through, also those resolved to what was stored there
	ctx    []c19frame   // the calls that were entered when the root was reached (an object built by a constructor helper
	// keeps the call it was built for: the fields the constructor fills from its parameters are read in that context)
}

// c19via: "the value was read from field `field` of a value of type owner". carried: the selection was resolved to
// what had been stored into that field of an object built in view (a struct that only carries the value from where
// it was chosen to where it is used: `upstream{tr: tr}.handler()`); the fields the value went through BEFORE it was
// put there precede this entry.
type c19via struct {
	owner   types.Type
	field   string
	carried bool
}

func (o c19org) key() string {
	var s string
	switch x := o.root.(type) {
	case *ssa.Global:
		s = x.Pkg.Pkg.Name() + "." + x.Name()
	case *ssa.Parameter:
		s = x.Name()
	case *ssa.Alloc:
		s = "new(" + typeStr(c19elem(x.Type())) + ")"
	case *ssa.Const:
		s = x.String()
	case *ssa.Call:
		s = calleeName(&x.Call) + "()"
		if o.idx > 0 {
			s += fmt.Sprintf("#%d", o.idx)
		}
	case nil:
		s = "?"
	default:
		s = accessPath(x)
	}
	if len(o.fields) > 0 {
		s += "." + strings.Join(o.fields, ".")
	}
	return s
}

// lastField: the field the value was taken from: the last field selection the value went through that is part of its
// access path, i.e. not a mere carrier (a field of an object built in view, resolved to what was stored into it:
// the `tr` of `upstream{tr: p.InsecureTransport}` says nothing about where the transport comes from). When the value
// went through carriers only, the last carrier with a transport role counts. Returns (package path of the struct's
// named type, type name, field name).
func (o c19org) lastField() (pkg, typ, field string) {
	for k := len(o.via) - 1; k >= 0; k-- {
		if v := o.via[k]; !v.carried {
			pkg, typ = c19named(v.owner)
			return pkg, typ, v.field
		}
	}
	for k := len(o.via) - 1; k >= 0; k-- {
		v := o.via[k]
		pkg, typ = c19named(v.owner)
		if c19transportRole(pkg, v.field) != "" {
			return pkg, typ, v.field
		}
	}
	return "", "", ""
}

// c19named: package path and name of the named type behind t (through pointers and aliases).
func c19named(t types.Type) (pkg, name string) {
	for t != nil {
		t = types.Unalias(t)
		if p, ok := t.(*types.Pointer); ok {
			t = p.Elem()
			continue
		}
		break
	}
	if n, ok := t.(*types.Named); ok && n.Obj().Pkg() != nil {
		return n.Obj().Pkg().Path(), n.Obj().Name()
	}
	return "", ""
}

func (o c19org) sel(field string, t types.Type) c19org {
	o.fields = append(append([]string{}, o.fields...), field)
	o.types = append(append([]types.Type{}, o.types...), t)
	return o
}

func (o c19org) retyped(t types.Type) c19org {
	o.types = append([]types.Type{}, o.types...)
	o.types[len(o.types)-1] = t
	return o
}

func c19elem(t types.Type) types.Type {
	if p, ok := t.Underlying().(*types.Pointer); ok {
		return p.Elem()
	}
	return t
}

func c19facts(base []Fact, more ...Fact) []Fact {
	if len(more) == 0 {
		return base
	}
	return append(append([]Fact{}, base...), more...)
}

// c19edgeFacts: what is known when control flows from pred into succ (the conditions at pred plus the branch taken).
func c19edgeFacts(pred, succ *ssa.BasicBlock) []Fact {
	out := factsAt(pred)
	if len(pred.Instrs) > 0 && len(pred.Succs) == 2 && pred.Succs[0] != pred.Succs[1] {
		if iff, ok := pred.Instrs[len(pred.Instrs)-1].(*ssa.If); ok {
			cond, truth := iff.Cond, pred.Succs[0] == succ
			for {
				u, isNot := cond.(*ssa.UnOp)
				if !isNot || u.Op != token.NOT {
					break
				}
				cond, truth = u.X, !truth
			}
			out = c19facts(out, Fact{cond, truth})
		}
	}
	return out
}

type c19fkey struct {
	v   ssa.Value
	ctx ssa.CallInstruction
}

// c19flow is the resolver. opaque: repository functions whose calls are terminal (not entered). stopParam: parameters
// that are terminal (API boundary of the rule).
type c19flow struct {
	opaque    func(*ssa.Function) bool
	stopParam func(*ssa.Parameter) bool

	addrMode bool // resolving the target of a store: do not look through struct copies

	stack  []c19frame // calls entered (helper results); their parameters map back to these calls only
	onPath map[c19fkey]bool
	hops   int
	steps  int
}

const (
	c19maxHops  = 6
	c19maxSteps = 40000
)

// apiBoundary: parameters of exported functions / functions nobody calls statically are where a package's rule stops.
func c19apiParam(p *ssa.Parameter) bool {
	fn := p.Parent()
	return fn == nil || (fn.Parent() == nil && (token.IsExported(fn.Name()) || len(gSites[fn]) == 0))
}

func (r *c19flow) origins(v ssa.Value) []c19org {
	r.stack, r.hops, r.steps = nil, 0, 0
	r.onPath = map[c19fkey]bool{}
	return c19dedupe(r.walk(v, nil))
}

func c19dedupe(in []c19org) []c19org {
	var out []c19org
	seen := map[string]bool{}
	for _, o := range in {
		k := fmt.Sprintf("%p|%d|%s|", o.root, o.idx, strings.Join(o.fields, "."))
		for _, f := range o.facts {
			k += fmt.Sprintf("%p=%v,", f.Cond, f.Truth)
		}
		for _, fr := range o.ctx {
			k += fmt.Sprintf("@%p", fr.site)
		}
		if !seen[k] {
			seen[k] = true
			out = append(out, o)
		}
	}
	return out
}

// c19frame: a call whose callee fn was entered to resolve its result (fn is the static callee, or one of the
// implementations of the interface method invoked).
type c19frame struct {
	site ssa.CallInstruction
	fn   *ssa.Function
}

func (r *c19flow) top() ssa.CallInstruction {
	if len(r.stack) == 0 {
		return nil
	}
	return r.stack[len(r.stack)-1].site
}

// c19argOf: the argument of the call at site that parameter number idx of callee fn receives (the receiver of an
// interface method call is the interface value).
func c19argOf(site ssa.CallInstruction, idx int) ssa.Value {
	cc := site.Common()
	if cc.IsInvoke() {
		if idx == 0 {
			return cc.Value
		}
		idx--
	}
	if idx < 0 || idx >= len(cc.Args) {
		return nil
	}
	return cc.Args[idx]
}

func (r *c19flow) leaf(v ssa.Value, t types.Type, facts []Fact) []c19org {
	o := c19org{root: v, types: []types.Type{t}, facts: facts}
	if _, isObj := v.(*ssa.Alloc); isObj && len(r.stack) > 0 {
		o.ctx = append([]c19frame{}, r.stack...)
	}
	return []c19org{o}
}

func (r *c19flow) walk(v ssa.Value, facts []Fact) []c19org {
	if v == nil {
		return nil
	}
	r.steps++
	if r.steps > c19maxSteps {
		return r.leaf(v, v.Type(), facts)
	}
	k := c19fkey{v, r.top()}
	if r.onPath[k] {
		return nil // a cycle (loop phi) contributes no new origin
	}
	r.onPath[k] = true
	defer delete(r.onPath, k)

	switch x := v.(type) {
	case *ssa.Global:
		return r.leaf(x, c19elem(x.Type()), facts)
	case *ssa.Alloc:
		// &local where the local was assigned as a whole (cp := *c; use(&cp)): a pointer to a copy of that value.
		// An object that is only filled in field by field keeps its identity (the root is the Alloc).
		if !r.addrMode {
			var out []c19org
			for _, ref := range *x.Referrers() {
				if st, ok := ref.(*ssa.Store); ok && st.Addr == x {
					out = append(out, r.walk(st.Val, c19facts(facts, localFactsAt(st.Block())...))...)
				}
			}
			if out != nil {
				return out
			}
		}
	case *ssa.Parameter:
		return r.param(x, facts)
	case *ssa.FreeVar:
		var out []c19org
		for _, b := range c19bindings(x) {
			out = append(out, r.walk(b, facts)...)
		}
		if out == nil {
			return r.leaf(x, x.Type(), facts)
		}
		return out
	case *ssa.Phi:
		var out []c19org
		for k, e := range x.Edges {
			out = append(out, r.walk(e, c19facts(facts, c19edgeFacts(x.Block().Preds[k], x.Block())...))...)
		}
		return out
	case *ssa.UnOp:
		if x.Op == token.MUL {
			return r.load(x.X, x.Type(), facts)
		}
	case *ssa.Convert:
		return r.walk(x.X, facts)
	case *ssa.ChangeType:
		return r.walk(x.X, facts)
	case *ssa.ChangeInterface:
		return r.walk(x.X, facts)
	case *ssa.MakeInterface:
		return r.walk(x.X, facts)
	case *ssa.TypeAssert:
		if !x.CommaOk {
			return c19retype(r.walk(x.X, facts), x.AssertedType)
		}
	case *ssa.Extract:
		switch t := x.Tuple.(type) {
		case *ssa.Call:
			return r.call(t, x.Index, x.Type(), facts)
		case *ssa.TypeAssert:
			if x.Index == 0 {
				return c19retype(r.walk(t.X, facts), t.AssertedType)
			}
		}
	case *ssa.Index:
		return r.elems(x.X, x.Type(), facts)
	case *ssa.Lookup:
		if _, isMap := x.X.Type().Underlying().(*types.Map); isMap && !x.CommaOk {
			return r.elems(x.X, x.Type(), facts)
		}
	case *ssa.Field:
		return r.sel(r.walk(x.X, facts), x.X.Type(), fieldName(x.X.Type(), x.Field), x.Type())
	case *ssa.FieldAddr:
		return r.sel(r.walk(x.X, facts), x.X.Type(), fieldName(x.X.Type(), x.Field), c19elem(x.Type()))
	case *ssa.Call:
		return r.call(x, 0, x.Type(), facts)
	}
	return r.leaf(v, v.Type(), facts)
}

func c19retype(os []c19org, t types.Type) []c19org {
	for k := range os {
		os[k] = os[k].retyped(t)
	}
	return os
}

// load: the content of the memory addr designates.
func (r *c19flow) load(addr ssa.Value, t types.Type, facts []Fact) []c19org {
	switch a := addr.(type) {
	case *ssa.Global:
		return r.leaf(a, t, facts)
	case *ssa.Alloc:
		// a local cell: the whole-cell stores; a cell never stored as a whole is an object built field by field
		var out []c19org
		n := 0
		for _, ref := range *a.Referrers() {
			if st, ok := ref.(*ssa.Store); ok && st.Addr == a {
				n++
				out = append(out, r.walk(st.Val, c19facts(facts, localFactsAt(st.Block())...))...)
			}
		}
		if n == 0 {
			return r.leaf(a, t, facts)
		}
		return out
	case *ssa.FreeVar:
		var out []c19org
		for _, b := range c19bindings(a) {
			out = append(out, r.load(b, t, facts)...)
		}
		if out == nil {
			return r.leaf(a, t, facts)
		}
		return out
	case *ssa.IndexAddr:
		return r.elems(a.X, t, facts) // an element of a slice / array: whatever was put into the container
	}
	return r.walk(addr, facts) // paths auto-dereference: *p.f and p.f are the same path
}

// elems: what an element of the container x (slice, array, pointer to array, map) can be - element-insensitive: every
// value stored into an element of the array / slice / map object(s) x designates (a literal, a variadic argument list,
// append, make + assignments). A container that is not built in view yields the origin <container>.[].
func (r *c19flow) elems(x ssa.Value, t types.Type, facts []Fact) []c19org {
	var out []c19org
	partial := false
	stored := func(obj ssa.Value, fs []Fact) (n int) {
		refs := obj.Referrers()
		if refs == nil {
			return 0
		}
		for _, ref := range *refs {
			switch y := ref.(type) {
			case *ssa.IndexAddr:
				if y.X != obj {
					continue
				}
				for _, rr := range *y.Referrers() {
					switch z := rr.(type) {
					case *ssa.Store:
						if z.Addr == ssa.Value(y) {
							n++
							out = append(out, r.walk(z.Val, c19facts(fs, localFactsAt(z.Block())...))...)
						}
					case *ssa.FieldAddr, *ssa.IndexAddr:
						partial = true // an element filled in part by part (a table of structs): not looked into
					}
				}
			case *ssa.MapUpdate:
				if y.Map == obj {
					n++
					out = append(out, r.walk(y.Value, c19facts(fs, localFactsAt(y.Block())...))...)
				}
			}
		}
		return n
	}
	for _, o := range r.walk(x, facts) {
		if len(o.fields) == 0 {
			switch c := o.root.(type) {
			case *ssa.Slice:
				out = append(out, r.elems(c.X, t, o.facts)...)
				continue
			case *ssa.Alloc:
				if _, isArr := c19elem(c.Type()).Underlying().(*types.Array); isArr {
					partial = false
					if stored(c, o.facts); partial {
						out = append(out, o.sel("[]", t))
					}
					continue // an array never written holds zero values only
				}
			case *ssa.MakeSlice, *ssa.MakeMap:
				partial = false
				if stored(c, o.facts); partial {
					out = append(out, o.sel("[]", t))
				}
				continue
			case *ssa.Const:
				if c.Value == nil {
					continue // a nil slice / map has no elements
				}
			case *ssa.Call:
				if b, isB := c.Call.Value.(*ssa.Builtin); isB && b.Name() == "append" && len(c.Call.Args) == 2 {
					out = append(out, r.elems(c.Call.Args[0], t, o.facts)...)
					out = append(out, r.elems(c.Call.Args[1], t, o.facts)...)
					continue
				}
			}
		}
		out = append(out, o.sel("[]", t))
	}
	return out
}

// sel applies a field selection to origins; a field of a freshly built object is whatever was stored into it.
func (r *c19flow) sel(os []c19org, owner types.Type, field string, t types.Type) []c19org {
	var out []c19org
	mark := func(from int, carried bool) {
		for k := from; k < len(out); k++ {
			if n := len(out[k].via); n > 0 && out[k].via[n-1] == (c19via{owner, field, carried}) {
				continue
			}
			out[k].via = append(append([]c19via{}, out[k].via...), c19via{owner, field, carried})
		}
	}
	for _, o := range os {
		from := len(out)
		if a, ok := o.root.(*ssa.Alloc); ok && len(o.fields) == 0 && !r.addrMode {
			n := 0
			// the object's own construction is read in the context it was built in
			saved := r.stack
			if k := len(o.ctx); k > 0 && c19within(a.Parent(), o.ctx[k-1].fn) {
				r.stack = append([]c19frame{}, o.ctx...)
			}
			for _, st := range fieldStores(a)[field] {
				n++
				out = append(out, r.walk(st.Val, c19facts(o.facts, localFactsAt(st.Block())...))...)
			}
			r.stack = saved
			for _, st := range c19aliasFieldStores(a, field) {
				n++
				out = append(out, r.walk(st.Val, c19facts(o.facts, factsAt(st.Block())...))...)
			}
			mark(from, true)
			// a struct variable assigned as a whole (p := cfg.Proxy; a spilled struct parameter): the field of what was
			// assigned (the inner selection records itself)
			for _, ref := range *a.Referrers() {
				if st, ok := ref.(*ssa.Store); ok && st.Addr == a {
					n++
					out = append(out, r.sel(r.walk(st.Val, c19facts(o.facts, localFactsAt(st.Block())...)), owner, field, t)...)
				}
			}
			if n > 0 && len(out) > from {
				continue
			}
			// never stored, or only ever stored in terms of itself (`x.f = fill(x.f)`: the cycle contributes no origin):
			// the field holds its initial content
		}
		out = append(out, o.sel(field, t))
		mark(from, false)
	}
	return out
}

// c19within: f is fn or a closure nested in fn.
func c19within(f, fn *ssa.Function) bool {
	for ; f != nil; f = f.Parent() {
		if f == fn {
			return true
		}
	}
	return false
}

func c19bindings(fv *ssa.FreeVar) []ssa.Value {
	fn := fv.Parent()
	if fn == nil || fn.Parent() == nil {
		return nil
	}
	idx := -1
	for k, x := range fn.FreeVars {
		if x == fv {
			idx = k
		}
	}
	var out []ssa.Value
	eachInstr(fn.Parent(), func(i ssa.Instruction) {
		if mc, ok := i.(*ssa.MakeClosure); ok && mc.Fn == fn && idx >= 0 && idx < len(mc.Bindings) {
			out = append(out, mc.Bindings[idx])
		}
	})
	return out
}

func (r *c19flow) param(x *ssa.Parameter, facts []Fact) []c19org {
	fn := x.Parent()
	idx := -1
	if fn != nil {
		for k, p := range fn.Params {
			if p == x {
				idx = k
			}
		}
	}
	if n := len(r.stack); n > 0 && fn != nil && r.stack[n-1].fn == fn {
		// realizable path: back to the call we came in through
		top := r.stack[n-1]
		arg := c19argOf(top.site, idx)
		if arg == nil {
			return r.leaf(x, x.Type(), facts)
		}
		r.stack = r.stack[:n-1]
		defer func() { r.stack = append(r.stack, top) }()
		return r.recvOnly(r.walk(arg, facts), top.site, x, idx)
	}
	if fn == nil || idx < 0 || (r.stopParam != nil && r.stopParam(x)) {
		return r.leaf(x, x.Type(), facts)
	}
	sites := append(append([]ssa.CallInstruction{}, gSites[fn]...), c19invokeSitesOf(fn)...)
	dyn, dynKnown := c19dynSitesOf(fn) // a closure / function / method value handed around as a value (callback, functional option)
	if len(sites)+len(dyn) == 0 || r.hops >= c19maxHops {
		return r.leaf(x, x.Type(), facts)
	}
	// a parameter of a function other than the one entered last (an object filled in by another function, a closure
	// of the helper): all its call sites, outside the context of the calls entered
	saved := r.stack
	r.stack = nil
	r.hops++
	defer func() { r.hops--; r.stack = saved }()
	var out []c19org
	if gAddrTaken[fn] && (!dynKnown || c19sigEscapes(c19valueSig(fn))) {
		// may also be called through a function value from a place that is not in view: code outside the repository that
		// was handed a function of this signature (the calls of function values inside the repository are among the sites)
		out = append(out, r.leaf(x, x.Type(), facts)...)
	}
	for _, s := range sites {
		arg := c19argOf(s, idx)
		if arg == nil || s.Block() == nil {
			continue
		}
		out = append(out, r.recvOnly(r.walk(arg, c19facts(facts, factsAt(s.Block())...)), s, x, idx)...)
	}
	for _, d := range dyn {
		var arg ssa.Value
		switch {
		case d.bound == nil:
			arg = c19argOf(d.site, idx)
		case idx == 0:
			arg = d.bound // the receiver of a method value is what the value was made from
		default:
			arg = c19argOf(d.site, idx-1)
		}
		if arg == nil || d.site.Block() == nil {
			continue
		}
		out = append(out, r.walk(arg, c19facts(facts, factsAt(d.site.Block())...))...)
	}
	return out
}

// recvOnly: the receiver of a method reached through an interface method call is the interface's content only when
// that content has the receiver's type; origins of other dynamic types belong to other implementations.
func (r *c19flow) recvOnly(os []c19org, site ssa.CallInstruction, x *ssa.Parameter, idx int) []c19org {
	if idx != 0 || !site.Common().IsInvoke() {
		return os
	}
	wp, wn := c19named(x.Type())
	var out []c19org
	for _, o := range os {
		if _, isIface := o.types[len(o.types)-1].Underlying().(*types.Interface); !isIface {
			if p, n := c19named(o.types[len(o.types)-1]); p != wp || n != wn {
				continue
			}
		}
		out = append(out, o)
	}
	return out
}

func (r *c19flow) call(x *ssa.Call, idx int, t types.Type, facts []Fact) []c19org {
	cc := &x.Call
	self := []c19org{{root: x, idx: idx, types: []types.Type{t}, facts: facts}}
	var callees []*ssa.Function
	if cc.IsInvoke() {
		// a method of an interface declared in the repository: the methods that implement it (an interface in the
		// place of a helper or callback)
		callees = c19implsOf(cc)
		if len(callees) == 0 {
			return self
		}
	} else {
		if kind, cell, _, ok := atomicOp(cc); ok && kind == "load" {
			return c19retype(r.load(cell, t, facts), t)
		}
		sc := cc.StaticCallee()
		if sc == nil || !isRepoFn(sc) || len(sc.Blocks) == 0 {
			return self
		}
		callees = []*ssa.Function{sc}
	}
	if r.hops >= c19maxHops {
		return self
	}
	for _, sc := range callees {
		if r.opaque != nil && r.opaque(sc) {
			return self
		}
	}
	var out []c19org
	at := c19facts(facts, localFactsAt(x.Block())...)
	for _, sc := range callees {
		r.hops++
		r.stack = append(r.stack, c19frame{ssa.CallInstruction(x), sc})
		eachInstr(sc, func(i ssa.Instruction) {
			if ret, ok := i.(*ssa.Return); ok && idx < len(ret.Results) {
				out = append(out, r.walk(ret.Results[idx], c19facts(at, localFactsAt(ret.Block())...))...)
			}
		})
		r.hops--
		r.stack = r.stack[:len(r.stack)-1]
	}
	return out
}

// ---- program-wide indexes ------------------------------------------------------------------------------------------

// c19prog is rebuilt by runC19 for the program being checked (c19index).
var c19prog struct {
	fieldStores map[string][]*ssa.Store          // "pkg.Type.field" -> stores into that field through a pointer other than the Alloc itself
	invokes     map[string][]ssa.CallInstruction // method name -> calls of a repository interface's method of that name
	methods     map[string][]*ssa.Function       // method name -> repository methods
	alias       map[c19aliasKey][]*ssa.Store
	impls       map[*types.Func][]*ssa.Function
	fns         []*ssa.Function
	dyn         map[*ssa.Function][]c19dynSite // function -> calls of a function VALUE that can denote it
	dynBusy     map[*ssa.Function]bool
	dynCalls    []ssa.CallInstruction // the calls of function values in the repository
	sigEsc      map[string]bool
}

type c19aliasKey struct {
	a     *ssa.Alloc
	field string
}

func c19index(c *Ctx) {
	c19prog.fieldStores = map[string][]*ssa.Store{}
	c19prog.invokes = map[string][]ssa.CallInstruction{}
	c19prog.methods = map[string][]*ssa.Function{}
	c19prog.alias = map[c19aliasKey][]*ssa.Store{}
	c19prog.impls = map[*types.Func][]*ssa.Function{}
	c19prog.fns, c19prog.dyn, c19prog.dynBusy, c19prog.dynCalls = c.AllFns, map[*ssa.Function][]c19dynSite{}, map[*ssa.Function]bool{}, nil
	c19prog.sigEsc = map[string]bool{}
	for _, f := range c.AllFns {
		if f.Signature.Recv() != nil && f.Parent() == nil {
			c19prog.methods[f.Name()] = append(c19prog.methods[f.Name()], f)
		}
		eachInstr(f, func(i ssa.Instruction) {
			if st, ok := i.(*ssa.Store); ok {
				if fa, isFA := st.Addr.(*ssa.FieldAddr); isFA {
					if _, direct := fa.X.(*ssa.Alloc); !direct {
						if pkg, name := c19named(fa.X.Type()); name != "" {
							k := pkg + "." + name + "." + fieldName(fa.X.Type(), fa.Field)
							c19prog.fieldStores[k] = append(c19prog.fieldStores[k], st)
						}
					}
				}
			}
			if ci, ok := i.(ssa.CallInstruction); ok {
				if cc := ci.Common(); cc.IsInvoke() && cc.Method.Pkg() != nil && strings.HasPrefix(cc.Method.Pkg().Path(), repoMod) {
					c19prog.invokes[cc.Method.Name()] = append(c19prog.invokes[cc.Method.Name()], ci)
				}
			}
		})
	}
}

// c19implements: the receiver type of method f (or a pointer to it) implements the interface type it.
func c19implements(f *ssa.Function, it types.Type) bool {
	iface, ok := it.Underlying().(*types.Interface)
	if !ok || f.Signature.Recv() == nil {
		return false
	}
	rt := f.Signature.Recv().Type()
	if types.Implements(rt, iface) {
		return true
	}
	if _, isPtr := rt.Underlying().(*types.Pointer); !isPtr {
		return types.Implements(types.NewPointer(rt), iface)
	}
	return false
}

// c19implsOf: the repository methods a call of an interface method can run, when the interface is declared in the
// repository and has few implementations.
func c19implsOf(cc *ssa.CallCommon) []*ssa.Function {
	if cc.Method == nil || cc.Method.Pkg() == nil || !strings.HasPrefix(cc.Method.Pkg().Path(), repoMod) {
		return nil
	}
	if out, ok := c19prog.impls[cc.Method]; ok {
		return out
	}
	var out []*ssa.Function
	for _, f := range c19prog.methods[cc.Method.Name()] {
		if len(f.Blocks) > 0 && c19implements(f, cc.Value.Type()) {
			out = append(out, f)
		}
	}
	if len(out) > 4 {
		out = nil
	}
	if c19prog.impls != nil {
		c19prog.impls[cc.Method] = out
	}
	return out
}

// c19invokeSitesOf: the interface method calls in the repository that can run method fn.
func c19invokeSitesOf(fn *ssa.Function) []ssa.CallInstruction {
	if fn.Signature.Recv() == nil || fn.Parent() != nil {
		return nil
	}
	var out []ssa.CallInstruction
	for _, s := range c19prog.invokes[fn.Name()] {
		if c19implements(fn, s.Common().Value.Type()) {
			out = append(out, s)
		}
	}
	return out
}

// c19dynSitesOf: the calls `f(args)` of a function-typed VALUE (an element of a list of options, a callback parameter,
// a field that holds a hook) in the repository that can run fn: the called value has fn's signature, and fn (or a
// closure made from it) is among its origins - or its origins are not all visible.
func c19dynSitesOf(fn *ssa.Function) (sites []c19dynSite, known bool) {
	if c19prog.fns == nil || fn == nil {
		return nil, false
	}
	if out, ok := c19prog.dyn[fn]; ok {
		return out, true
	}
	if fn.Synthetic != "" {
		return nil, false
	}
	if !(gAddrTaken[fn] || fn.Parent() != nil) {
		return nil, true
	}
	if c19prog.dynBusy[fn] || len(c19prog.dynBusy) >= 2 {
		return nil, false // (not cached) a callback inside the resolution of a callback: not followed further
	}
	if c19prog.dynCalls == nil {
		c19prog.dynCalls = []ssa.CallInstruction{}
		for _, f := range c19prog.fns {
			eachInstr(f, func(i ssa.Instruction) {
				ci, ok := i.(ssa.CallInstruction)
				if !ok {
					return
				}
				cc := ci.Common()
				if cc.IsInvoke() || cc.StaticCallee() != nil {
					return
				}
				if _, isB := cc.Value.(*ssa.Builtin); isB {
					return
				}
				c19prog.dynCalls = append(c19prog.dynCalls, ci)
			})
		}
	}
	c19prog.dynBusy[fn] = true
	defer delete(c19prog.dynBusy, fn)
	want := c19valueSig(fn)
	isMethod := fn.Signature.Recv() != nil
	var out []c19dynSite
	for _, ci := range c19prog.dynCalls {
		cc := ci.Common()
		sig, _ := cc.Value.Type().Underlying().(*types.Signature)
		if sig == nil || !types.Identical(sig, want) {
			continue
		}
		complete := true
		orgs := (&c19flow{}).origins(cc.Value)
		if len(orgs) == 0 {
			complete = false
		}
		for _, o := range orgs {
			var g *ssa.Function
			var bound ssa.Value
			switch x := o.root.(type) {
			case *ssa.MakeClosure:
				g, _ = x.Fn.(*ssa.Function)
				if g != nil && g.Synthetic != "" && len(x.Bindings) == 1 && unwrap(g) != g { // a method value recv.m
					g, bound = unwrap(g), x.Bindings[0]
				}
			case *ssa.Function:
				g = x
			case *ssa.Const:
				if x.IsNil() && len(o.fields) == 0 {
					continue
				}
			}
			if g == nil || len(o.fields) != 0 {
				complete = false
				continue
			}
			if g == fn && (bound != nil) == isMethod {
				out = append(out, c19dynSite{ci, bound})
			}
		}
		if !complete && !isMethod {
			out = append(out, c19dynSite{ci, nil})
		}
		if !complete && isMethod {
			return nil, false // (not cached) the receiver cannot be told: the parameter stays a terminal
		}
	}
	c19prog.dyn[fn] = out
	return out, true
}

// c19dynSite: a call of a function value that can run the function; bound: the receiver the method value was made
// from (nil for a plain function or closure).
type c19dynSite struct {
	site  ssa.CallInstruction
	bound ssa.Value
}

// c19valueSig: the signature under which fn is called when it is used as a value (a method value has no receiver).
func c19valueSig(fn *ssa.Function) *types.Signature {
	sig := fn.Signature
	if sig.Recv() == nil {
		return sig
	}
	return types.NewSignatureType(nil, nil, nil, sig.Params(), sig.Results(), sig.Variadic())
}

// c19sigEscapes: a function value of signature sig can get into the hands of code outside the repository (which may
// then call it with arguments that are not in view): somewhere in the repository a value of that function type is an
// argument of a call whose callee is not a repository function, is stored into a field of a type or a variable of
// another module, or is put into an interface.
func c19sigEscapes(sig *types.Signature) bool {
	if sig == nil {
		return true
	}
	key := types.TypeString(sig, nil)
	if v, ok := c19prog.sigEsc[key]; ok {
		return v
	}
	var holds func(t types.Type, depth int) bool
	holds = func(t types.Type, depth int) bool {
		if t == nil || depth > 3 {
			return false
		}
		switch u := types.Unalias(t).Underlying().(type) {
		case *types.Signature:
			return types.Identical(u, sig)
		case *types.Slice:
			return holds(u.Elem(), depth+1)
		case *types.Array:
			return holds(u.Elem(), depth+1)
		case *types.Pointer:
			return holds(u.Elem(), depth+1)
		case *types.Map:
			return holds(u.Elem(), depth+1)
		case *types.Chan:
			return holds(u.Elem(), depth+1)
		}
		return false
	}
	esc := false
	for _, f := range c19prog.fns {
		if esc {
			break
		}
		eachInstr(f, func(i ssa.Instruction) {
			if esc {
				return
			}
			switch x := i.(type) {
			case ssa.CallInstruction:
				cc := x.Common()
				if sc := cc.StaticCallee(); sc != nil && isRepoFn(sc) && len(sc.Blocks) > 0 {
					return
				}
				if _, isB := cc.Value.(*ssa.Builtin); isB && !cc.IsInvoke() {
					return
				}
				for _, a := range cc.Args {
					esc = esc || holds(a.Type(), 0)
				}
			case *ssa.MakeInterface:
				esc = esc || holds(x.X.Type(), 0)
			case *ssa.Store:
				if !holds(x.Val.Type(), 0) {
					return
				}
				switch a := x.Addr.(type) {
				case *ssa.FieldAddr:
					if pkg, _ := c19named(a.X.Type()); !strings.HasPrefix(pkg, repoMod) {
						esc = true
					}
				case *ssa.Global:
					if a.Pkg == nil || !strings.HasPrefix(a.Pkg.Pkg.Path(), repoMod) {
						esc = true
					}
				}
			}
		})
	}
	c19prog.sigEsc[key] = esc
	return esc
}

// c19aliasFieldStores: the stores into field `field` of the object built at a that are made through another pointer
// to it (a method or helper that fills the object in: `u.use(tr)` with `func (u *upstream) use(tr) { u.tr = tr }`).
func c19aliasFieldStores(a *ssa.Alloc, field string) []*ssa.Store {
	k := c19aliasKey{a, field}
	if out, ok := c19prog.alias[k]; ok {
		return out
	}
	var out []*ssa.Store
	pkg, name := c19named(a.Type())
	if name != "" {
		fl := &c19flow{addrMode: true}
		for _, st := range c19prog.fieldStores[pkg+"."+name+"."+field] {
			for _, o := range fl.origins(st.Addr.(*ssa.FieldAddr).X) {
				if o.root == ssa.Value(a) && len(o.fields) == 0 {
					out = append(out, st)
					break
				}
			}
		}
	}
	if c19prog.alias != nil {
		c19prog.alias[k] = out
	}
	return out
}

// c19addrKeys renders the memory a store writes as path keys ("transport.cfg", "transport.def.cfg").
func c19addrKeys(fl *c19flow, addr ssa.Value) []string {
	switch a := addr.(type) {
	case *ssa.Global:
		return []string{c19org{root: a}.key()}
	case *ssa.FieldAddr:
		// the pointer's origins (copies of a pointer are aliases), then the field: unlike for a read, a struct that was
		// COPIED into a local is other memory than the original
		var out []string
		fl.addrMode = true
		for _, o := range fl.origins(a.X) {
			out = append(out, o.sel(fieldName(a.X.Type(), a.Field), c19elem(a.Type())).key())
		}
		fl.addrMode = false
		return out
	}
	return nil
}

// ---- boolean helpers in branch conditions ------------------------------------------------------------------------

// c19expand rewrites facts about the verdict of a repository predicate function (`if t.hasOwnTransport()`,
// `if isTimeout(err)`) and about short-circuit values (`ok && e.Timeout()` used as a value) into the elementary facts
// that hold on every way the verdict can come about. A fact that cannot be expanded is kept as it is.
func c19expand(facts []Fact) []Fact {
	var out []Fact
	seen := map[ssa.Value]bool{}
	var add func(f Fact, depth int)
	add = func(f Fact, depth int) {
		if u, ok := f.Cond.(*ssa.UnOp); ok && u.Op == token.NOT {
			add(Fact{u.X, !f.Truth}, depth)
			return
		}
		if depth > 4 || seen[f.Cond] {
			out = append(out, f)
			return
		}
		var alts [][]Fact // one list of facts per way the verdict f.Truth can come about
		switch x := f.Cond.(type) {
		case *ssa.Phi:
			for k, e := range x.Edges {
				if b, isK := constBool(e); isK && b != f.Truth {
					continue
				}
				way := c19edgeFacts(x.Block().Preds[k], x.Block())
				if _, isK := constBool(e); !isK {
					way = c19facts(way, Fact{e, f.Truth})
				}
				alts = append(alts, way)
			}
		case *ssa.BinOp:
			// a verdict kept as a value of an enumeration (`switch classify(err) { case failTimeout: ...`): the ways the
			// compared value can be that constant
			if x.Op != token.EQL && x.Op != token.NEQ {
				break
			}
			k, isK := x.Y.(*ssa.Const)
			other := x.X
			if !isK {
				k, isK = x.X.(*ssa.Const)
				other = x.Y
			}
			if !isK || k.Value == nil {
				break
			}
			wantEq := (x.Op == token.EQL) == f.Truth
			orgs := (&c19flow{}).origins(other)
			for _, o := range orgs {
				kc, isConst := o.root.(*ssa.Const)
				if !isConst || len(o.fields) != 0 || kc.Value == nil || kc.Value.Kind() != k.Value.Kind() {
					alts = nil // one way the value comes about is not visible
					break
				}
				if constant.Compare(kc.Value, token.EQL, k.Value) == wantEq {
					alts = append(alts, append([]Fact{}, o.facts...))
				}
			}
		case *ssa.Call:
			sc := x.Call.StaticCallee()
			if sc == nil || !isRepoFn(sc) || len(sc.Blocks) == 0 || sc.Signature.Results().Len() != 1 {
				break
			}
			eachInstr(sc, func(i ssa.Instruction) {
				ret, ok := i.(*ssa.Return)
				if !ok || len(ret.Results) != 1 {
					return
				}
				if b, isK := constBool(ret.Results[0]); isK && b != f.Truth {
					return
				}
				way := localFactsAt(ret.Block())
				if _, isK := constBool(ret.Results[0]); !isK {
					way = c19facts(way, Fact{ret.Results[0], f.Truth})
				}
				alts = append(alts, way)
			})
		}
		if len(alts) == 0 {
			out = append(out, f)
			return
		}
		seen[f.Cond] = true
		// facts common to all ways
		var common []Fact
		for _, g := range alts[0] {
			inAll := true
			for _, other := range alts[1:] {
				has := false
				for _, h := range other {
					if h.Cond == g.Cond && h.Truth == g.Truth {
						has = true
					}
				}
				if !has {
					inAll = false
				}
			}
			if inAll {
				common = append(common, g)
			}
		}
		if len(common) == 0 {
			out = append(out, f)
			return
		}
		for _, g := range common {
			add(g, depth+1)
		}
	}
	for _, f := range facts {
		add(f, 0)
	}
	return out
}

// c19entryPathAvoiding: can instruction b be reached from fn's entry without executing an instruction for which
// avoid holds (a call of a helper that does it on all of its paths counts as doing it)?
func c19entryPathAvoiding(fn *ssa.Function, b ssa.Instruction, avoid func(ssa.Instruction) bool) bool {
	avoid = liftMust(avoid, 1)
	seen := map[*ssa.BasicBlock]bool{fn.Blocks[0]: true}
	stack := []*ssa.BasicBlock{fn.Blocks[0]}
	for len(stack) > 0 {
		blk := stack[len(stack)-1]
		stack = stack[:len(stack)-1]
		blocked := false
		for _, in := range blk.Instrs {
			if in == b {
				return true
			}
			if avoid(in) {
				blocked = true
				break
			}
		}
		if blocked {
			continue
		}
		for _, s := range blk.Succs {
			if !seen[s] {
				seen[s] = true
				stack = append(stack, s)
			}
		}
	}
	return false
}
