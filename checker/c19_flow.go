package main

// Value-origin resolver of C19 (c19 variant of ssahelp.go's derives/defsOf/accessPath, see REPORT): instead of asking
// "does the backward slice of v contain a value with property P" it enumerates WHERE a value comes from, as symbolic
// access paths with the branch conditions under which each origin is selected. The rules of C19 are wiring rules
// ("this field holds that configuration field", "this transport is a NewTransport result", "504 is written on the
// edge where Timeout() is true"); with origins they do not depend on how the code is cut into functions, on
// literal-vs-assignment construction, on locals, or on if/switch/early-return shape.

import (
	"fmt"
	"go/token"
	"go/types"
	"strings"

	"golang.org/x/tools/go/ssa"
)

// c19org is one origin of a value: root.fields[0].fields[1]... (Go-like path, pointers auto-dereferenced).
// root is a terminal value: *ssa.Global (the variable's content), *ssa.Alloc (a freshly built object, identity),
// *ssa.Parameter (not resolvable further), *ssa.Const, *ssa.Call (opaque call; idx = result index),
// *ssa.Function / *ssa.MakeClosure, or any other value the resolver does not look through (arithmetic ...).
type c19org struct {
	root   ssa.Value
	idx    int
	fields []string
	types  []types.Type // types[k] = static type of root.fields[:k]; len(fields)+1 entries
	facts  []Fact       // conditions under which this origin is the one selected
	via    []c19via     // every field selection the value went through, also those resolved to what was stored there
}

// c19via: "the value was read from field `field` of a value of type owner".
type c19via struct {
	owner types.Type
	field string
}

func (o c19org) key() string {
	var s string
	switch x := o.root.(type) {
	case *ssa.Global:
		s = x.Pkg.Pkg.Name() + "." + x.Name()
	case *ssa.Parameter:
		s = x.Name()
	case *ssa.Alloc:
		s = "new(" + typeStr(c19elem(x.Type())) + ")"
	case *ssa.Const:
		s = x.String()
	case *ssa.Call:
		s = calleeName(&x.Call) + "()"
		if o.idx > 0 {
			s += fmt.Sprintf("#%d", o.idx)
		}
	case nil:
		s = "?"
	default:
		s = accessPath(x)
	}
	if len(o.fields) > 0 {
		s += "." + strings.Join(o.fields, ".")
	}
	return s
}

// lastField: the last field selection the value went through: (package path of the struct's named type, type name,
// field name). It is kept even when the selection was resolved to the value stored into that field.
func (o c19org) lastField() (pkg, typ, field string) {
	if len(o.via) == 0 {
		return "", "", ""
	}
	v := o.via[len(o.via)-1]
	pkg, typ = c19named(v.owner)
	return pkg, typ, v.field
}

// c19named: package path and name of the named type behind t (through pointers and aliases).
func c19named(t types.Type) (pkg, name string) {
	for t != nil {
		t = types.Unalias(t)
		if p, ok := t.(*types.Pointer); ok {
			t = p.Elem()
			continue
		}
		break
	}
	if n, ok := t.(*types.Named); ok && n.Obj().Pkg() != nil {
		return n.Obj().Pkg().Path(), n.Obj().Name()
	}
	return "", ""
}

func (o c19org) sel(field string, t types.Type) c19org {
	o.fields = append(append([]string{}, o.fields...), field)
	o.types = append(append([]types.Type{}, o.types...), t)
	return o
}

func (o c19org) retyped(t types.Type) c19org {
	o.types = append([]types.Type{}, o.types...)
	o.types[len(o.types)-1] = t
	return o
}

func c19elem(t types.Type) types.Type {
	if p, ok := t.Underlying().(*types.Pointer); ok {
		return p.Elem()
	}
	return t
}

func c19facts(base []Fact, more ...Fact) []Fact {
	if len(more) == 0 {
		return base
	}
	return append(append([]Fact{}, base...), more...)
}

// c19edgeFacts: what is known when control flows from pred into succ (the conditions at pred plus the branch taken).
func c19edgeFacts(pred, succ *ssa.BasicBlock) []Fact {
	out := factsAt(pred)
	if len(pred.Instrs) > 0 && len(pred.Succs) == 2 && pred.Succs[0] != pred.Succs[1] {
		if iff, ok := pred.Instrs[len(pred.Instrs)-1].(*ssa.If); ok {
			cond, truth := iff.Cond, pred.Succs[0] == succ
			for {
				u, isNot := cond.(*ssa.UnOp)
				if !isNot || u.Op != token.NOT {
					break
				}
				cond, truth = u.X, !truth
			}
			out = c19facts(out, Fact{cond, truth})
		}
	}
	return out
}

type c19fkey struct {
	v   ssa.Value
	ctx ssa.CallInstruction
}

// c19flow is the resolver. opaque: repository functions whose calls are terminal (not entered). stopParam: parameters
// that are terminal (API boundary of the rule).
type c19flow struct {
	opaque    func(*ssa.Function) bool
	stopParam func(*ssa.Parameter) bool

	addrMode bool // resolving the target of a store: do not look through struct copies

	stack  []ssa.CallInstruction // calls entered (helper results); their parameters map back to these calls only
	onPath map[c19fkey]bool
	hops   int
	steps  int
}

const (
	c19maxHops  = 6
	c19maxSteps = 40000
)

// apiBoundary: parameters of exported functions / functions nobody calls statically are where a package's rule stops.
func c19apiParam(p *ssa.Parameter) bool {
	fn := p.Parent()
	return fn == nil || (fn.Parent() == nil && (token.IsExported(fn.Name()) || len(gSites[fn]) == 0))
}

func (r *c19flow) origins(v ssa.Value) []c19org {
	r.stack, r.hops, r.steps = nil, 0, 0
	r.onPath = map[c19fkey]bool{}
	return c19dedupe(r.walk(v, nil))
}

func c19dedupe(in []c19org) []c19org {
	var out []c19org
	seen := map[string]bool{}
	for _, o := range in {
		k := fmt.Sprintf("%p|%d|%s|", o.root, o.idx, strings.Join(o.fields, "."))
		for _, f := range o.facts {
			k += fmt.Sprintf("%p=%v,", f.Cond, f.Truth)
		}
		if !seen[k] {
			seen[k] = true
			out = append(out, o)
		}
	}
	return out
}

func (r *c19flow) top() ssa.CallInstruction {
	if len(r.stack) == 0 {
		return nil
	}
	return r.stack[len(r.stack)-1]
}

func (r *c19flow) leaf(v ssa.Value, t types.Type, facts []Fact) []c19org {
	return []c19org{{root: v, types: []types.Type{t}, facts: facts}}
}

func (r *c19flow) walk(v ssa.Value, facts []Fact) []c19org {
	if v == nil {
		return nil
	}
	r.steps++
	if r.steps > c19maxSteps {
		return r.leaf(v, v.Type(), facts)
	}
	k := c19fkey{v, r.top()}
	if r.onPath[k] {
		return nil // a cycle (loop phi) contributes no new origin
	}
	r.onPath[k] = true
	defer delete(r.onPath, k)

	switch x := v.(type) {
	case *ssa.Global:
		return r.leaf(x, c19elem(x.Type()), facts)
	case *ssa.Alloc:
		// &local where the local was assigned as a whole (cp := *c; use(&cp)): a pointer to a copy of that value.
		// An object that is only filled in field by field keeps its identity (the root is the Alloc).
		if !r.addrMode {
			var out []c19org
			for _, ref := range *x.Referrers() {
				if st, ok := ref.(*ssa.Store); ok && st.Addr == x {
					out = append(out, r.walk(st.Val, c19facts(facts, localFactsAt(st.Block())...))...)
				}
			}
			if out != nil {
				return out
			}
		}
	case *ssa.Parameter:
		return r.param(x, facts)
	case *ssa.FreeVar:
		var out []c19org
		for _, b := range c19bindings(x) {
			out = append(out, r.walk(b, facts)...)
		}
		if out == nil {
			return r.leaf(x, x.Type(), facts)
		}
		return out
	case *ssa.Phi:
		var out []c19org
		for k, e := range x.Edges {
			out = append(out, r.walk(e, c19facts(facts, c19edgeFacts(x.Block().Preds[k], x.Block())...))...)
		}
		return out
	case *ssa.UnOp:
		if x.Op == token.MUL {
			return r.load(x.X, x.Type(), facts)
		}
	case *ssa.Convert:
		return r.walk(x.X, facts)
	case *ssa.ChangeType:
		return r.walk(x.X, facts)
	case *ssa.ChangeInterface:
		return r.walk(x.X, facts)
	case *ssa.MakeInterface:
		return r.walk(x.X, facts)
	case *ssa.TypeAssert:
		if !x.CommaOk {
			return c19retype(r.walk(x.X, facts), x.AssertedType)
		}
	case *ssa.Extract:
		switch t := x.Tuple.(type) {
		case *ssa.Call:
			return r.call(t, x.Index, x.Type(), facts)
		case *ssa.TypeAssert:
			if x.Index == 0 {
				return c19retype(r.walk(t.X, facts), t.AssertedType)
			}
		}
	case *ssa.Field:
		return r.sel(r.walk(x.X, facts), x.X.Type(), fieldName(x.X.Type(), x.Field), x.Type())
	case *ssa.FieldAddr:
		return r.sel(r.walk(x.X, facts), x.X.Type(), fieldName(x.X.Type(), x.Field), c19elem(x.Type()))
	case *ssa.Call:
		return r.call(x, 0, x.Type(), facts)
	}
	return r.leaf(v, v.Type(), facts)
}

func c19retype(os []c19org, t types.Type) []c19org {
	for k := range os {
		os[k] = os[k].retyped(t)
	}
	return os
}

// load: the content of the memory addr designates.
func (r *c19flow) load(addr ssa.Value, t types.Type, facts []Fact) []c19org {
	switch a := addr.(type) {
	case *ssa.Global:
		return r.leaf(a, t, facts)
	case *ssa.Alloc:
		// a local cell: the whole-cell stores; a cell never stored as a whole is an object built field by field
		var out []c19org
		n := 0
		for _, ref := range *a.Referrers() {
			if st, ok := ref.(*ssa.Store); ok && st.Addr == a {
				n++
				out = append(out, r.walk(st.Val, c19facts(facts, localFactsAt(st.Block())...))...)
			}
		}
		if n == 0 {
			return r.leaf(a, t, facts)
		}
		return out
	case *ssa.FreeVar:
		var out []c19org
		for _, b := range c19bindings(a) {
			out = append(out, r.load(b, t, facts)...)
		}
		if out == nil {
			return r.leaf(a, t, facts)
		}
		return out
	}
	return r.walk(addr, facts) // paths auto-dereference: *p.f and p.f are the same path
}

// sel applies a field selection to origins; a field of a freshly built object is whatever was stored into it.
func (r *c19flow) sel(os []c19org, owner types.Type, field string, t types.Type) []c19org {
	var out []c19org
	mark := func(from int) {
		for k := from; k < len(out); k++ {
			if n := len(out[k].via); n > 0 && out[k].via[n-1] == (c19via{owner, field}) {
				continue
			}
			out[k].via = append(append([]c19via{}, out[k].via...), c19via{owner, field})
		}
	}
	for _, o := range os {
		from := len(out)
		if a, ok := o.root.(*ssa.Alloc); ok && len(o.fields) == 0 && !r.addrMode {
			n := 0
			for _, st := range fieldStores(a)[field] {
				n++
				out = append(out, r.walk(st.Val, c19facts(o.facts, localFactsAt(st.Block())...))...)
			}
			// a struct variable assigned as a whole (p := cfg.Proxy; a spilled struct parameter): the field of what was assigned
			for _, ref := range *a.Referrers() {
				if st, ok := ref.(*ssa.Store); ok && st.Addr == a {
					n++
					out = append(out, r.sel(r.walk(st.Val, c19facts(o.facts, localFactsAt(st.Block())...)), owner, field, t)...)
				}
			}
			if n > 0 {
				mark(from)
				continue
			}
		}
		out = append(out, o.sel(field, t))
		mark(from)
	}
	return out
}

func c19bindings(fv *ssa.FreeVar) []ssa.Value {
	fn := fv.Parent()
	if fn == nil || fn.Parent() == nil {
		return nil
	}
	idx := -1
	for k, x := range fn.FreeVars {
		if x == fv {
			idx = k
		}
	}
	var out []ssa.Value
	eachInstr(fn.Parent(), func(i ssa.Instruction) {
		if mc, ok := i.(*ssa.MakeClosure); ok && mc.Fn == fn && idx >= 0 && idx < len(mc.Bindings) {
			out = append(out, mc.Bindings[idx])
		}
	})
	return out
}

func (r *c19flow) param(x *ssa.Parameter, facts []Fact) []c19org {
	fn := x.Parent()
	idx := -1
	if fn != nil {
		for k, p := range fn.Params {
			if p == x {
				idx = k
			}
		}
	}
	top := r.top()
	if top != nil && fn != nil && top.Common().StaticCallee() == fn {
		// realizable path: back to the call we came in through
		cc := top.Common()
		if idx < 0 || idx >= len(cc.Args) {
			return r.leaf(x, x.Type(), facts)
		}
		r.stack = r.stack[:len(r.stack)-1]
		defer func() { r.stack = append(r.stack, top) }()
		return r.walk(cc.Args[idx], facts)
	}
	if top != nil || fn == nil || idx < 0 || (r.stopParam != nil && r.stopParam(x)) {
		return r.leaf(x, x.Type(), facts)
	}
	sites := gSites[fn]
	if len(sites) == 0 || r.hops >= c19maxHops {
		return r.leaf(x, x.Type(), facts)
	}
	r.hops++
	defer func() { r.hops-- }()
	var out []c19org
	if gAddrTaken[fn] {
		out = append(out, r.leaf(x, x.Type(), facts)...) // may also be called through a function value
	}
	for _, s := range sites {
		cc := s.Common()
		if idx >= len(cc.Args) || s.Block() == nil {
			continue
		}
		out = append(out, r.walk(cc.Args[idx], c19facts(facts, factsAt(s.Block())...))...)
	}
	return out
}

func (r *c19flow) call(x *ssa.Call, idx int, t types.Type, facts []Fact) []c19org {
	cc := &x.Call
	self := []c19org{{root: x, idx: idx, types: []types.Type{t}, facts: facts}}
	if cc.IsInvoke() {
		return self
	}
	if kind, cell, _, ok := atomicOp(cc); ok && kind == "load" {
		return c19retype(r.load(cell, t, facts), t)
	}
	sc := cc.StaticCallee()
	if sc == nil || !isRepoFn(sc) || len(sc.Blocks) == 0 || (r.opaque != nil && r.opaque(sc)) || r.hops >= c19maxHops {
		return self
	}
	r.hops++
	r.stack = append(r.stack, ssa.CallInstruction(x))
	defer func() { r.hops--; r.stack = r.stack[:len(r.stack)-1] }()
	var out []c19org
	at := c19facts(facts, localFactsAt(x.Block())...)
	eachInstr(sc, func(i ssa.Instruction) {
		if ret, ok := i.(*ssa.Return); ok && idx < len(ret.Results) {
			out = append(out, r.walk(ret.Results[idx], c19facts(at, localFactsAt(ret.Block())...))...)
		}
	})
	return out
}

// c19addrKeys renders the memory a store writes as path keys ("transport.cfg", "transport.def.cfg").
func c19addrKeys(fl *c19flow, addr ssa.Value) []string {
	switch a := addr.(type) {
	case *ssa.Global:
		return []string{c19org{root: a}.key()}
	case *ssa.FieldAddr:
		// the pointer's origins (copies of a pointer are aliases), then the field: unlike for a read, a struct that was
		// COPIED into a local is other memory than the original
		var out []string
		fl.addrMode = true
		for _, o := range fl.origins(a.X) {
			out = append(out, o.sel(fieldName(a.X.Type(), a.Field), c19elem(a.Type())).key())
		}
		fl.addrMode = false
		return out
	}
	return nil
}

// ---- boolean helpers in branch conditions ------------------------------------------------------------------------

// c19expand rewrites facts about the verdict of a repository predicate function (`if t.hasOwnTransport()`,
// `if isTimeout(err)`) and about short-circuit values (`ok && e.Timeout()` used as a value) into the elementary facts
// that hold on every way the verdict can come about. A fact that cannot be expanded is kept as it is.
func c19expand(facts []Fact) []Fact {
	var out []Fact
	seen := map[ssa.Value]bool{}
	var add func(f Fact, depth int)
	add = func(f Fact, depth int) {
		if u, ok := f.Cond.(*ssa.UnOp); ok && u.Op == token.NOT {
			add(Fact{u.X, !f.Truth}, depth)
			return
		}
		if depth > 4 || seen[f.Cond] {
			out = append(out, f)
			return
		}
		var alts [][]Fact // one list of facts per way the verdict f.Truth can come about
		switch x := f.Cond.(type) {
		case *ssa.Phi:
			for k, e := range x.Edges {
				if b, isK := constBool(e); isK && b != f.Truth {
					continue
				}
				way := c19edgeFacts(x.Block().Preds[k], x.Block())
				if _, isK := constBool(e); !isK {
					way = c19facts(way, Fact{e, f.Truth})
				}
				alts = append(alts, way)
			}
		case *ssa.Call:
			sc := x.Call.StaticCallee()
			if sc == nil || !isRepoFn(sc) || len(sc.Blocks) == 0 || sc.Signature.Results().Len() != 1 {
				break
			}
			eachInstr(sc, func(i ssa.Instruction) {
				ret, ok := i.(*ssa.Return)
				if !ok || len(ret.Results) != 1 {
					return
				}
				if b, isK := constBool(ret.Results[0]); isK && b != f.Truth {
					return
				}
				way := localFactsAt(ret.Block())
				if _, isK := constBool(ret.Results[0]); !isK {
					way = c19facts(way, Fact{ret.Results[0], f.Truth})
				}
				alts = append(alts, way)
			})
		}
		if len(alts) == 0 {
			out = append(out, f)
			return
		}
		seen[f.Cond] = true
		// facts common to all ways
		var common []Fact
		for _, g := range alts[0] {
			inAll := true
			for _, other := range alts[1:] {
				has := false
				for _, h := range other {
					if h.Cond == g.Cond && h.Truth == g.Truth {
						has = true
					}
				}
				if !has {
					inAll = false
				}
			}
			if inAll {
				common = append(common, g)
			}
		}
		if len(common) == 0 {
			out = append(out, f)
			return
		}
		for _, g := range common {
			add(g, depth+1)
		}
	}
	for _, f := range facts {
		add(f, 0)
	}
	return out
}

// c19entryPathAvoiding: can instruction b be reached from fn's entry without executing an instruction for which
// avoid holds (a call of a helper that does it on all of its paths counts as doing it)?
func c19entryPathAvoiding(fn *ssa.Function, b ssa.Instruction, avoid func(ssa.Instruction) bool) bool {
	avoid = liftMust(avoid, 1)
	seen := map[*ssa.BasicBlock]bool{fn.Blocks[0]: true}
	stack := []*ssa.BasicBlock{fn.Blocks[0]}
	for len(stack) > 0 {
		blk := stack[len(stack)-1]
		stack = stack[:len(stack)-1]
		blocked := false
		for _, in := range blk.Instrs {
			if in == b {
				return true
			}
			if avoid(in) {
				blocked = true
				break
			}
		}
		if blocked {
			continue
		}
		for _, s := range blk.Succs {
			if !seen[s] {
				seen[s] = true
				stack = append(stack, s)
			}
		}
	}
	return false
}
