package main

// Overlay mutants of C14: breaking changes each rule must report, and behaviour-preserving rewrites that must stay
// silent (Expect: ""). The texts below are exact pieces of fabio's sources.

import (
	"os"
	"strings"
)

const (
	c14fRoutecmd = "registry/consul/routecmd.go"
	c14fService  = "registry/consul/service.go"
	c14fParse    = "route/parse_new.go"

	// routecmd.build: where the instance address is chosen
	c14srcAddr = `			name, addr, port := r.svc.ServiceName, r.svc.ServiceAddress, r.svc.ServicePort

			// use consul node address if service address is not set
			if addr == "" {
				addr = r.svc.Address
			}
`
	// routecmd.build: the gate in front of the command list
	c14srcGate = `			if !validRouteAdd(cfg) {
				log.Printf("[WARN] consul: Skipping invalid route %q of service %q", cfg, name)
				continue
			}

			config = append(config, cfg)
`
	// routecmd.build: the command text
	c14srcText = `			cfg := "route add " + name + " " + route + " " + dst
			if weight != "" {
				cfg += " weight " + weight
			}
			if len(svctags) > 0 {
				cfg += " tags \"" + strings.Join(svctags, ",") + "\""
			}
			if len(ropts) > 0 {
				cfg += " opts \"" + strings.Join(ropts, " ") + "\""
			}
`
	c14srcValidator = `func validRouteAdd(cmd string) bool {
	defs, err := route.Parse(bytes.NewBufferString(cmd))
	if err != nil || len(defs) != 1 || defs[0].Cmd != route.RouteAddCmd {
		return false
	}
	// building the table fails for paths which are not valid
	// glob patterns and for targets which are not valid URLs
	_, err = route.NewTable(bytes.NewBufferString(cmd))
	return err == nil
}
`
	c14srcProto = `				case o == "proto=tcp":
					dst = "tcp://" + addr

				case o == "proto=https":
					dst = "https://" + addr

				case o == "proto=grpcs":
					dst = "grpcs://" + addr

				case o == "proto=grpc":
					dst = "grpc://" + addr
`
	// routecmd.build: head of the per-tag loop up to the default destination
	c14srcLoopHead = `	for _, tag := range routetags {
		if route, opts, ok := parseURLPrefixTag(tag, r.prefix, r.env); ok {
			name, addr, port := r.svc.ServiceName, r.svc.ServiceAddress, r.svc.ServicePort

			// use consul node address if service address is not set
			if addr == "" {
				addr = r.svc.Address
			}

			// add .local suffix on OSX for simple host names w/o domain
			if runtime.GOOS == "darwin" && !strings.Contains(addr, ".") && !strings.HasSuffix(addr, ".local") {
				addr += ".local"
			}

			addr = net.JoinHostPort(addr, strconv.Itoa(port))
			//tags := strings.Join(r.tags, ",")
			dst := "http://" + addr + "/"
`
	// makeConfig: spawn and collect
	c14srcSpawn = `	for name, passing := range m {
		name, passing := name, passing
		go func() {
			sem <- 1
			cfgs <- w.serviceConfig(name, passing)
			<-sem
		}()
	}
`
	c14srcGo = `		go func() {
			sem <- 1
			cfgs <- w.serviceConfig(name, passing)
			<-sem
		}()
`
	// makeConfig: the whole fan-out / fan-in
	c14srcFan = `	sem := make(chan int, n)
	cfgs := make(chan []string, len(m))
	for name, passing := range m {
		name, passing := name, passing
		go func() {
			sem <- 1
			cfgs <- w.serviceConfig(name, passing)
			<-sem
		}()
	}

	var config []string
	for i := 0; i < len(m); i++ {
		cfg := <-cfgs
		config = append(config, cfg...)
	}
`
	c14srcCollectHead = "\tfor i := 0; i < len(m); i++ {\n\t\tcfg := <-cfgs\n"
	c14srcQuery       = `	q := &api.QueryOptions{RequireConsistent: w.config.RequireConsistent, AllowStale: w.config.AllowStale}
	svcs, _, err := w.client.Catalog().Service(name, "", q)
`
	c14srcServiceConfigDoc = "// serviceConfig constructs the config for all good instances of a single service.\n"
	c14srcValidatorDoc     = "// validRouteAdd returns true if cmd is accepted by the route\n"
	c14srcFinite           = "if err != nil || math.IsNaN(f) || math.IsInf(f, 0) {"
)

func c14mutants() []mutant {
	all := append(append(append(c14mutants1(), c14mutants2()...), c14mutants3()...), c14mutants3b()...)
	// development aid: C14_MUTANTS=<text> keeps the mutants whose name contains the text
	if want := os.Getenv("C14_MUTANTS"); want != "" {
		var kept []mutant
		for _, m := range all {
			if strings.Contains(m.Name, want) {
				kept = append(kept, m)
			}
		}
		return kept
	}
	return all
}

func c14mutants1() []mutant {
	return []mutant{
		// ---- breaking changes ------------------------------------------------------------------------------
		{Name: "options expanded with the environment", File: c14fRoutecmd, Old: "\ts = strings.TrimSpace(s[len(prefix):])\n", New: "\ts = strings.TrimSpace(expand(s[len(prefix):]))\n", Expect: "C14.E1"},
		{Name: "options expanded in the generator", File: c14fRoutecmd, Old: "strings.Fields(opts)", New: "strings.Fields(os.ExpandEnv(opts))", Expect: "C14.E1"},

		{Name: "validator bypassed", File: c14fRoutecmd, Old: "\t\t\tif !validRouteAdd(cfg) {", New: "\t\t\tif false && !validRouteAdd(cfg) {", Expect: "C14.T1"},
		{Name: "validator accepts several commands", File: c14fRoutecmd, Old: "if err != nil || len(defs) != 1 || defs[0].Cmd != route.RouteAddCmd {", New: "if err != nil || len(defs) < 1 || defs[0].Cmd != route.RouteAddCmd {", Expect: "C14.T1"},
		{Name: "validator accepts any single command", File: c14fRoutecmd, Old: "if err != nil || len(defs) != 1 || defs[0].Cmd != route.RouteAddCmd {", New: "if err != nil || len(defs) != 1 {", Expect: "C14.T1"},
		{Name: "validated string differs from the appended one", File: c14fRoutecmd, Old: "\t\t\tconfig = append(config, cfg)\n", New: "\t\t\tconfig = append(config, cfg+\" # \"+name)\n", Expect: "C14.T1"},
		{Name: "validator without the table builder", File: c14fRoutecmd, Old: "\t_, err = route.NewTable(bytes.NewBufferString(cmd))\n\treturn err == nil", New: "\treturn true", Expect: "C14.T1"},
		{Name: "error-returning validator drops the table builder's error", File: c14fRoutecmd, Old: c14srcGate, New: `			if err := checkRouteAdd(cfg); err != nil {
				log.Printf("[WARN] consul: Skipping invalid route %q of service %q", cfg, name)
				continue
			}

			config = append(config, cfg)
`, More: []repl{{c14srcValidator, `func checkRouteAdd(cmd string) error {
	defs, err := route.Parse(bytes.NewBufferString(cmd))
	if err != nil {
		return err
	}
	if len(defs) != 1 || defs[0].Cmd != route.RouteAddCmd {
		return fmt.Errorf("not a single route add command")
	}
	route.NewTable(bytes.NewBufferString(cmd))
	return nil
}
`}}, Expect: "C14.T1"},
		{Name: "extracted command helper hands out an unvalidated command on one path", File: c14fRoutecmd, Old: "\tfor _, tag := range routetags {\n\t\tif route, opts, ok := parseURLPrefixTag(tag, r.prefix, r.env); ok {\n", New: c14newCommandHelperHead, More: []repl{{c14srcGate + "\t\t}\n\t}\n\treturn config\n}\n", `			if weight == "" {
				return cfg, true
			}
			if !validRouteAdd(cfg) {
				log.Printf("[WARN] consul: Skipping invalid route %q of service %q", cfg, name)
				return "", false
			}
			return cfg, true
		}
	}
}
`}}, Expect: "C14.T1"},

		{Name: "strconv.Quote again", File: c14fRoutecmd, Old: "cfg += \" opts \\\"\" + strings.Join(ropts, \" \") + \"\\\"\"", New: "cfg += \" opts \" + strconv.Quote(strings.Join(ropts, \" \"))", Expect: "C14.Q1"},
		{Name: "tags written with the %q verb", File: c14fRoutecmd, Old: "cfg += \" tags \\\"\" + strings.Join(svctags, \",\") + \"\\\"\"", New: "cfg += fmt.Sprintf(\" tags %q\", strings.Join(svctags, \",\"))", Expect: "C14.Q1"},

		{Name: "one failing catalog call empties everything", File: c14fService, Old: "\tvar config []string\n\tfor i := 0; i < len(m); i++ {\n\t\tcfg := <-cfgs\n\t\tconfig = append(config, cfg...)\n\t}", New: "\tvar config []string\n\tfor i := 0; i < len(m); i++ {\n\t\tcfg := <-cfgs\n\t\tif cfg == nil {\n\t\t\treturn \"\"\n\t\t}\n\t\tconfig = append(config, cfg...)\n\t}", Expect: "C14.I1"},
		{Name: "goroutine sends nothing on failure", File: c14fService, Old: "\t\t\tcfgs <- w.serviceConfig(name, passing)\n", New: "\t\t\tif c := w.serviceConfig(name, passing); c != nil {\n\t\t\t\tcfgs <- c\n\t\t\t}\n", Expect: "C14.I1"},
		{Name: "goroutine sends a second value", File: c14fService, Old: "\t\t\tcfgs <- w.serviceConfig(name, passing)\n", New: "\t\t\tcfgs <- w.serviceConfig(name, passing)\n\t\t\tcfgs <- nil\n", Expect: "C14.I1"},
		{Name: "collector misses one result", File: c14fService, Old: "\tfor i := 0; i < len(m); i++ {\n\t\tcfg := <-cfgs\n", New: "\tfor i := 1; i < len(m); i++ {\n\t\tcfg := <-cfgs\n", Expect: "C14.I1"},
		{Name: "a failing catalog query ends the process", File: c14fService, Old: "\t\tlog.Printf(\"[WARN] consul: Error getting catalog service %s. %v\", name, err)\n\t\treturn nil\n", New: "\t\tlog.Fatalf(\"[FATAL] consul: Error getting catalog service %s. %v\", name, err)\n\t\treturn nil\n", Expect: "C14.I1"},

		{Name: "destination from the node address only", File: c14fRoutecmd, Old: "name, addr, port := r.svc.ServiceName, r.svc.ServiceAddress, r.svc.ServicePort", New: "name, addr, port := r.svc.ServiceName, r.svc.Address, r.svc.ServicePort", Expect: "C14.N1"},
		{Name: "service address only as the fallback of the node address", File: c14fRoutecmd, Old: c14srcAddr, New: `			name, addr, port := r.svc.ServiceName, r.svc.Address, r.svc.ServicePort

			if addr == "" {
				addr = r.svc.ServiceAddress
			}
`, Expect: "C14.N1"},
		{Name: "fixed port", File: c14fRoutecmd, Old: "addr = net.JoinHostPort(addr, strconv.Itoa(port))", New: "_ = port\n\t\t\taddr = net.JoinHostPort(addr, strconv.Itoa(8080))", Expect: "C14.N1"},
		{Name: "host and port glued with a colon", File: c14fRoutecmd, Old: "addr = net.JoinHostPort(addr, strconv.Itoa(port))", New: "addr = addr + \":\" + strconv.Itoa(port)", More: []repl{{"\t\"net\"\n", ""}}, Expect: "C14.N1"},
		{Name: "proto=https selects the http scheme", File: c14fRoutecmd, Old: "dst = \"https://\" + addr", New: "dst = \"http://\" + addr", Expect: "C14.N1"},
		{Name: "destination hoisted out of the per-tag loop", File: c14fRoutecmd, Old: c14srcLoopHead, New: `	name, addr, port := r.svc.ServiceName, r.svc.ServiceAddress, r.svc.ServicePort
	if addr == "" {
		addr = r.svc.Address
	}
	if runtime.GOOS == "darwin" && !strings.Contains(addr, ".") && !strings.HasSuffix(addr, ".local") {
		addr += ".local"
	}
	addr = net.JoinHostPort(addr, strconv.Itoa(port))
	dst := "http://" + addr + "/"
	for _, tag := range routetags {
		if route, opts, ok := parseURLPrefixTag(tag, r.prefix, r.env); ok {
`, Expect: "C14.N1"},

		{Name: "non-finite weights accepted by the parser", File: c14fParse, Old: c14srcFinite, New: "if err != nil || (f < 0 && (math.IsNaN(f) || math.IsInf(f, 0))) {", Expect: "C14.P4"},
		{Name: "only +Inf rejected", File: c14fParse, Old: c14srcFinite, New: "if err != nil || math.IsNaN(f) || math.IsInf(f, 1) {", Expect: "C14.P4"},

		// ---- behaviour-preserving rewrites ----------------------------------------------------------------------
		{Name: "benign: validator result in a local", File: c14fRoutecmd, Old: "\t\t\tif !validRouteAdd(cfg) {", New: "\t\t\tvalid := validRouteAdd(cfg)\n\t\t\tif !valid {", Expect: ""},
		// was a 'breaking' mutant of the structural rule; it is behaviour-preserving (a parse error yields nil
		// definitions, so len(defs) != 1 rejects it, and route.NewTable parses again): the rule derives 'no parse error'
		// from the verdict of NewTable
		{Name: "benign: validator leaves the parse error to len(defs) and NewTable", File: c14fRoutecmd, Old: "if err != nil || len(defs) != 1 || defs[0].Cmd != route.RouteAddCmd {", New: "if len(defs) != 1 || defs[0].Cmd != route.RouteAddCmd {", Expect: ""},
		{Name: "benign: if/else instead of continue", File: c14fRoutecmd, Old: c14srcGate, New: `			if validRouteAdd(cfg) {
				config = append(config, cfg)
			} else {
				log.Printf("[WARN] consul: Skipping invalid route %q of service %q", cfg, name)
			}
`, Expect: ""},
		{Name: "benign: validator and tag parser renamed", File: c14fRoutecmd, Old: "validRouteAdd", New: "acceptedByFabio", All: true, More: []repl{{"func parseURLPrefixTag(", "func splitRoutingTag("}, {"parseURLPrefixTag(tag, r.prefix, r.env)", "splitRoutingTag(tag, r.prefix, r.env)"}}, Expect: ""},
		{Name: "benign: validator returns an error", File: c14fRoutecmd, Old: c14srcGate, New: `			if err := checkRouteAdd(cfg); err != nil {
				log.Printf("[WARN] consul: Skipping invalid route %q of service %q", cfg, name)
				continue
			}

			config = append(config, cfg)
`, More: []repl{{c14srcValidator, `func checkRouteAdd(cmd string) error {
	defs, err := route.Parse(bytes.NewBufferString(cmd))
	if err != nil {
		return err
	}
	if len(defs) != 1 || defs[0].Cmd != route.RouteAddCmd {
		return fmt.Errorf("not a single route add command")
	}
	_, err = route.NewTable(bytes.NewBufferString(cmd))
	return err
}
`}}, Expect: ""},
		{Name: "benign: validator inlined into the generator", File: c14fRoutecmd, Old: c14srcGate, New: `			defs, err := route.Parse(bytes.NewBufferString(cfg))
			if err != nil || len(defs) != 1 || defs[0].Cmd != route.RouteAddCmd {
				log.Printf("[WARN] consul: Skipping invalid route %q of service %q", cfg, name)
				continue
			}
			if _, err := route.NewTable(bytes.NewBufferString(cfg)); err != nil {
				log.Printf("[WARN] consul: Skipping invalid route %q of service %q", cfg, name)
				continue
			}

			config = append(config, cfg)
`, More: []repl{{c14srcValidator, ""}, {"if route, opts, ok := parseURLPrefixTag", "if src, opts, ok := parseURLPrefixTag"}, {"name + \" \" + route + \" \" + dst", "name + \" \" + src + \" \" + dst"}}, Expect: ""},
		{Name: "inlined validator without the table builder", File: c14fRoutecmd, Old: c14srcGate, New: `			defs, err := route.Parse(bytes.NewBufferString(cfg))
			if err != nil || len(defs) != 1 || defs[0].Cmd != route.RouteAddCmd {
				log.Printf("[WARN] consul: Skipping invalid route %q of service %q", cfg, name)
				continue
			}

			config = append(config, cfg)
`, More: []repl{{c14srcValidator, ""}, {"if route, opts, ok := parseURLPrefixTag", "if src, opts, ok := parseURLPrefixTag"}, {"name + \" \" + route + \" \" + dst", "name + \" \" + src + \" \" + dst"}}, Expect: "C14.T1"},
		{Name: "benign: catalog error tested together with an empty answer", File: c14fService, Old: "	if err != nil {\n\t\tlog.Printf(\"[WARN] consul: Error getting catalog service %s. %v\", name, err)\n\t\treturn nil\n\t}\n", New: "\tif err != nil || len(svcs) == 0 {\n\t\tlog.Printf(\"[WARN] consul: Error getting catalog service %s. %v\", name, err)\n\t\treturn nil\n\t}\n", Expect: ""},
		{Name: "benign: validator split into two predicates", File: c14fRoutecmd, Old: c14srcValidator, New: `func validRouteAdd(cmd string) bool {
	return isSingleAdd(cmd) && buildsTable(cmd)
}

func isSingleAdd(cmd string) bool {
	defs, err := route.Parse(bytes.NewBufferString(cmd))
	return err == nil && len(defs) == 1 && defs[0].Cmd == route.RouteAddCmd
}

func buildsTable(cmd string) bool {
	if _, err := route.NewTable(bytes.NewBufferString(cmd)); err != nil {
		return false
	}
	return true
}
`, Expect: ""},
		{Name: "benign: per-tag command extracted into a helper returning (cmd, ok)", File: c14fRoutecmd, Old: "\tfor _, tag := range routetags {\n\t\tif route, opts, ok := parseURLPrefixTag(tag, r.prefix, r.env); ok {\n", New: c14newCommandHelperHead, More: []repl{{c14srcGate + "\t\t}\n\t}\n\treturn config\n}\n", `			if !validRouteAdd(cfg) {
				log.Printf("[WARN] consul: Skipping invalid route %q of service %q", cfg, name)
				return "", false
			}
			return cfg, true
		}
	}
}
`}}, Expect: ""},
		{Name: "benign: helper returns the command with the validator's verdict", File: c14fRoutecmd, Old: "\tfor _, tag := range routetags {\n\t\tif route, opts, ok := parseURLPrefixTag(tag, r.prefix, r.env); ok {\n", New: c14newCommandHelperHead, More: []repl{{c14srcGate + "\t\t}\n\t}\n\treturn config\n}\n", `			valid := validRouteAdd(cfg)
			if !valid {
				log.Printf("[WARN] consul: Skipping invalid route %q of service %q", cfg, name)
			}
			return cfg, valid
		}
	}
}
`}}, Expect: ""},
		{Name: "benign: command list filled by a helper", File: c14fRoutecmd, Old: "\t\t\tconfig = append(config, cfg)\n", New: "\t\t\tconfig = addCommand(config, cfg)\n", More: []repl{{c14srcValidatorDoc, "func addCommand(list []string, cmd string) []string {\n\treturn append(list, cmd)\n}\n\n" + c14srcValidatorDoc}}, Expect: ""},
		{Name: "benign: command text written with a strings.Builder", File: c14fRoutecmd, Old: c14srcText, New: `			var sb strings.Builder
			sb.WriteString("route add " + name + " " + route + " " + dst)
			if weight != "" {
				sb.WriteString(" weight " + weight)
			}
			if len(svctags) > 0 {
				fmt.Fprintf(&sb, " tags \"%s\"", strings.Join(svctags, ","))
			}
			if len(ropts) > 0 {
				sb.WriteString(" opts \"" + strings.Join(ropts, " ") + "\"")
			}
			cfg := sb.String()
`, Expect: ""},
		{Name: "benign: command text written with fmt.Sprintf", File: c14fRoutecmd, Old: "\t\t\tcfg := \"route add \" + name + \" \" + route + \" \" + dst\n", New: "\t\t\tcfg := fmt.Sprintf(\"route add %s %s %s\", name, route, dst)\n", Expect: ""},
		{Name: "benign: address fallback with cmp.Or", File: c14fRoutecmd, Old: c14srcAddr, New: "\t\t\tname, addr, port := r.svc.ServiceName, cmp.Or(r.svc.ServiceAddress, r.svc.Address), r.svc.ServicePort\n", More: []repl{{"import (\n\t\"bytes\"\n", "import (\n\t\"bytes\"\n\t\"cmp\"\n"}}, Expect: ""},
		{Name: "benign: address chosen by a helper with early return", File: c14fRoutecmd, Old: c14srcAddr, New: "\t\t\tname, addr, port := r.svc.ServiceName, instanceAddr(r.svc), r.svc.ServicePort\n", More: []repl{{c14srcValidatorDoc, "func instanceAddr(svc *api.CatalogService) string {\n\tif a := svc.ServiceAddress; a != \"\" {\n\t\treturn a\n\t}\n\treturn svc.Address\n}\n\n" + c14srcValidatorDoc}}, Expect: ""},
		{Name: "benign: address fallback tested with len", File: c14fRoutecmd, Old: "\t\t\tif addr == \"\" {\n\t\t\t\taddr = r.svc.Address\n\t\t\t}\n", New: "\t\t\tif len(addr) > 0 {\n\t\t\t\t// registered address\n\t\t\t} else {\n\t\t\t\taddr = r.svc.Address\n\t\t\t}\n", Expect: ""},
		{Name: "benign: loop-invariant host:port hoisted, destination still per tag", File: c14fRoutecmd, Old: c14srcLoopHead, New: `	name, addr, port := r.svc.ServiceName, r.svc.ServiceAddress, r.svc.ServicePort
	if addr == "" {
		addr = r.svc.Address
	}
	if runtime.GOOS == "darwin" && !strings.Contains(addr, ".") && !strings.HasSuffix(addr, ".local") {
		addr += ".local"
	}
	addr = net.JoinHostPort(addr, strconv.Itoa(port))
	for _, tag := range routetags {
		if route, opts, ok := parseURLPrefixTag(tag, r.prefix, r.env); ok {
			dst := "http://" + addr + "/"
`, Expect: ""},
		{Name: "benign: proto table as a package-level map", File: c14fRoutecmd, Old: c14srcProto, New: "\t\t\t\tcase schemes[o] != \"\":\n\t\t\t\t\tdst = schemes[o] + addr\n", More: []repl{{c14srcValidatorDoc, "var schemes = map[string]string{\n\t\"proto=tcp\":   \"tcp://\",\n\t\"proto=https\": \"https://\",\n\t\"proto=grpcs\": \"grpcs://\",\n\t\"proto=grpc\":  \"grpc://\",\n}\n\n" + c14srcValidatorDoc}}, Expect: ""},
		{Name: "benign: scheme chosen by a helper", File: c14fRoutecmd, Old: c14srcProto, New: "\t\t\t\tcase schemeOf(o) != \"\":\n\t\t\t\t\tdst = schemeOf(o) + addr\n", More: []repl{{c14srcValidatorDoc, "func schemeOf(opt string) string {\n\tswitch opt {\n\tcase \"proto=tcp\":\n\t\treturn \"tcp://\"\n\tcase \"proto=https\":\n\t\treturn \"https://\"\n\tcase \"proto=grpcs\":\n\t\treturn \"grpcs://\"\n\tcase \"proto=grpc\":\n\t\treturn \"grpc://\"\n\t}\n\treturn \"\"\n}\n\n" + c14srcValidatorDoc}}, Expect: ""},
		{Name: "benign: pointer receiver", File: c14fRoutecmd, Old: "func (r routecmd) build() []string {", New: "func (r *routecmd) build() []string {", Expect: ""},

		{Name: "benign: collector ranges over the map of services", File: c14fService, Old: c14srcCollectHead, New: "\tfor range m {\n\t\tcfg := <-cfgs\n", Expect: ""},
		{Name: "benign: collector ranges over len(m)", File: c14fService, Old: c14srcCollectHead, New: "\tfor range len(m) {\n\t\tcfg := <-cfgs\n", Expect: ""},
		{Name: "benign: collector counts down", File: c14fService, Old: c14srcCollectHead, New: "\tfor n := len(m); n > 0; n-- {\n\t\tcfg := <-cfgs\n", Expect: ""},
		{Name: "benign: per-service goroutine as a method with deferred release", File: c14fService, Old: c14srcGo, New: "\t\tgo w.fetch(name, passing, sem, cfgs)\n", More: []repl{{c14srcServiceConfigDoc, "func (w *ServiceMonitor) fetch(name string, passing map[string]bool, sem chan int, out chan<- []string) {\n\tsem <- 1\n\tdefer func() { <-sem }()\n\tout <- w.serviceConfig(name, passing)\n}\n\n" + c14srcServiceConfigDoc}}, Expect: ""},
		{Name: "benign: spawning extracted into a helper", File: c14fService, Old: c14srcSpawn, New: "\tfor name, passing := range m {\n\t\tw.spawn(name, passing, sem, cfgs)\n\t}\n", More: []repl{{c14srcServiceConfigDoc, "func (w *ServiceMonitor) spawn(name string, passing map[string]bool, sem chan int, out chan []string) {\n\tgo func() {\n\t\tsem <- 1\n\t\tout <- w.serviceConfig(name, passing)\n\t\t<-sem\n\t}()\n}\n\n" + c14srcServiceConfigDoc}}, Expect: ""},
		{Name: "benign: result sent by a deferred function", File: c14fService, Old: c14srcGo, New: "\t\tgo func() {\n\t\t\tvar res []string\n\t\t\tdefer func() { cfgs <- res }()\n\t\t\tsem <- 1\n\t\t\tres = w.serviceConfig(name, passing)\n\t\t\t<-sem\n\t\t}()\n", Expect: ""},
		{Name: "benign: catalog query behind a wrapper that hands the error up", File: c14fService, Old: c14srcQuery, New: "\tsvcs, err := w.instances(name)\n", More: []repl{{c14srcServiceConfigDoc, "func (w *ServiceMonitor) instances(name string) ([]*api.CatalogService, error) {\n\tq := &api.QueryOptions{RequireConsistent: w.config.RequireConsistent, AllowStale: w.config.AllowStale}\n\tsvcs, _, err := w.client.Catalog().Service(name, \"\", q)\n\treturn svcs, err\n}\n\n" + c14srcServiceConfigDoc}}, Expect: ""},
		{Name: "benign: serviceConfig and makeConfig renamed", File: c14fService, Old: "serviceConfig", New: "routesOf", All: true, More: []repl{{"func (w *ServiceMonitor) makeConfig(", "func (w *ServiceMonitor) render("}, {"w.makeConfig(passing)", "w.render(passing)"}}, Expect: ""},

		{Name: "benign: results in indexed slots, joined by a WaitGroup", File: c14fService, Old: c14srcFan, New: `	sem := make(chan int, n)
	results := make([][]string, len(m))
	var wg sync.WaitGroup
	i := 0
	for name, passing := range m {
		name, passing, slot := name, passing, i
		i++
		wg.Add(1)
		go func() {
			defer wg.Done()
			sem <- 1
			results[slot] = w.serviceConfig(name, passing)
			<-sem
		}()
	}
	wg.Wait()

	var config []string
	for _, cfg := range results {
		config = append(config, cfg...)
	}
`, More: []repl{{"\t\"strings\"\n", "\t\"strings\"\n\t\"sync\"\n"}}, Expect: ""},
		{Name: "benign: results appended under a mutex, joined by a WaitGroup", File: c14fService, Old: c14srcFan, New: `	sem := make(chan int, n)
	var (
		wg     sync.WaitGroup
		mu     sync.Mutex
		config []string
	)
	wg.Add(len(m))
	for name, passing := range m {
		name, passing := name, passing
		go func() {
			defer wg.Done()
			sem <- 1
			cfg := w.serviceConfig(name, passing)
			<-sem
			mu.Lock()
			config = append(config, cfg...)
			mu.Unlock()
		}()
	}
	wg.Wait()
`, More: []repl{{"\t\"strings\"\n", "\t\"strings\"\n\t\"sync\"\n"}}, Expect: ""},
		{Name: "WaitGroup join, results appended without a lock", File: c14fService, Old: c14srcFan, New: `	sem := make(chan int, n)
	var (
		wg     sync.WaitGroup
		config []string
	)
	wg.Add(len(m))
	for name, passing := range m {
		name, passing := name, passing
		go func() {
			defer wg.Done()
			sem <- 1
			cfg := w.serviceConfig(name, passing)
			<-sem
			config = append(config, cfg...)
		}()
	}
	wg.Wait()
`, More: []repl{{"\t\"strings\"\n", "\t\"strings\"\n\t\"sync\"\n"}}, Expect: "C14.I1"},
		{Name: "WaitGroup join, Done skipped when a service has no routes", File: c14fService, Old: c14srcFan, New: `	sem := make(chan int, n)
	results := make([][]string, len(m))
	var wg sync.WaitGroup
	i := 0
	for name, passing := range m {
		name, passing, slot := name, passing, i
		i++
		wg.Add(1)
		go func() {
			sem <- 1
			cfg := w.serviceConfig(name, passing)
			<-sem
			if cfg == nil {
				return
			}
			results[slot] = cfg
			wg.Done()
		}()
	}
	wg.Wait()

	var config []string
	for _, cfg := range results {
		config = append(config, cfg...)
	}
`, More: []repl{{"\t\"strings\"\n", "\t\"strings\"\n\t\"sync\"\n"}}, Expect: "C14.I1"},
		{Name: "benign: finiteness decided by a helper", File: c14fParse, Old: c14srcFinite, New: "if err != nil || !isFinite(f) {", More: []repl{{"func parseTags(s string) []string {", "func isFinite(f float64) bool {\n\treturn !math.IsNaN(f) && !math.IsInf(f, 0)\n}\n\nfunc parseTags(s string) []string {"}}, Expect: ""},
		{Name: "benign: parseWeight renamed, NaN tested by self-inequality, both infinities separately", File: c14fParse, Old: "parseWeight(", New: "weightOf(", All: true, More: []repl{{c14srcFinite, "if err != nil || f != f || math.IsInf(f, 1) || math.IsInf(f, -1) {"}}, Expect: ""},
	}
}

// the head of routecmd.build's per-tag loop rewritten so that the body becomes a helper `command`
const c14newCommandHelperHead = `	for _, tag := range routetags {
		if cfg, ok := r.command(tag, svctags); ok {
			config = append(config, cfg)
		}
	}
	return config
}

func (r routecmd) command(tag string, svctags []string) (string, bool) {
	{
		route, opts, ok := parseURLPrefixTag(tag, r.prefix, r.env)
		if !ok {
			return "", false
		}
		{
`
