package main

// Hardening round 3 of C18: overlay mutants that exercise the rules added after the fourth round of breaking changes
// (C18.J2, the extensions of C18.O1) with ordinary rewrites of proxy.Shutdown and tcp.Server.Shutdown, and the breaking
// counterparts of the cures. Registered with the round-4 mutants (c18_round4.go).

func c18Hardening3Mutants() []mutant {
	return []mutant{
		// ---- C18.J2
		{Name: "H3 benign: slot channel with room for every server and one to spare (capacity len(srvs)+1)", File: "proxy/serve.go", Old: c18SrcShutdown, New: c18H3SlotsLenPlus, Expect: ""},
		{Name: "H3 benign: slot channel with room for every server, the loop ranges over a copy of the snapshot", File: "proxy/serve.go", Old: c18SrcShutdown, New: c18H3SlotsLenCopy, Expect: ""},
		{Name: "H3 benign: the goroutine retries its own server's Shutdown with the same context", File: "proxy/serve.go", Old: c18SrcShutdown, New: c18H3Retry, Expect: ""},
		{Name: "H3 benign: start barrier - every goroutine waits for a channel closed when all are launched", File: "proxy/serve.go", Old: c18SrcShutdown, New: c18H3Barrier, Expect: ""},
		{Name: "H3 benign: Shutdown runs in an inner goroutine, the per-server goroutine gives up waiting when the context ends", File: "proxy/serve.go", Old: c18SrcShutdown, New: c18H3InnerGo, Expect: ""},
		{Name: "H3 benign: inner goroutine for the drain owns the cancel function of its server's context", File: "proxy/serve.go", Old: c18SrcShutdown, New: c18H3InnerGoCancel, Expect: ""},
		{Name: "H3 inner goroutine shape: the per-server goroutine does not wait for the drain it started", File: "proxy/serve.go", Old: c18SrcShutdown, New: c18H3InnerGoNoWait, Expect: "C18.J1"},
		{Name: "H3 inner goroutine shape: the per-server goroutine gives up after a second", File: "proxy/serve.go", Old: c18SrcShutdown, New: c18H3InnerGoShort, Expect: "C18.J1"},
		{Name: "H3 benign: a one-slot channel used as a lock around shared bookkeeping before and after the drain", File: "proxy/serve.go", Old: c18SrcShutdown, New: c18H3ChanLock, Expect: ""},
		{Name: "H3 benign: errors sent on an unbuffered channel to a collector goroutine", File: "proxy/serve.go", Old: c18SrcShutdown, New: c18H3Collector, Expect: ""},
		{Name: "H3 benign: errgroup limited to the number of servers (SetLimit(len(srvs)))", File: "proxy/serve.go", Old: c18SrcShutdown, New: c18H3ErrgroupLenLimit, More: []repl{{c18ImportGrpc, c18ImportGrpcErrgroup}}, Expect: ""},
		{Name: "H3 benign: slot channel behind a named channel type with enter/leave methods, room for every server", File: "proxy/serve.go", Old: c18SrcShutdown, New: c18H3GateType, Expect: ""},
		{Name: "H3 slots: room for half of the servers only", File: "proxy/serve.go", Old: c18SrcShutdown, New: c18H3SlotsHalf, Expect: "C18.J2"},
		{Name: "H3 gate type shape: eight slots", File: "proxy/serve.go", Old: c18SrcShutdown, New: c18H3GateTypeEight, Expect: "C18.J2"},
		{Name: "H3 channel lock taken again after the bookkeeping and held across the drain", File: "proxy/serve.go", Old: c18SrcShutdown, New: c18H3ChanLockAcross, Expect: "C18.J2"},
		{Name: "H3 channel lock taken in the launching loop, given back by the goroutine when its server is drained", File: "proxy/serve.go", Old: c18SrcShutdown, New: c18H3ChanLockLoop, Expect: "C18.J2"},
		{Name: "H3 retry shape: every attempt gets a fresh context with the whole wait", File: "proxy/serve.go", Old: c18SrcShutdown, New: c18H3RetryFresh, Expect: "C18.J2"},
		{Name: "H3 retry shape: the loop walks over the servers of a group", File: "proxy/serve.go", Old: c18SrcShutdown, New: c18H3RetryGroup, Expect: "C18.J2"},
		// ---- C18.O1
		{Name: "H3 watchdog shape: the goroutine closes the connections after a second at the latest", File: "proxy/tcp/server.go", Old: c18SrcTCPShutdown, New: c18H3WatchdogShort, Expect: "C18.O1"},
		{Name: "H3 watchdog shape: the select's timer case closes the connections, the context case returns", File: "proxy/tcp/server.go", Old: c18SrcTCPShutdown, New: c18H3WatchdogWrongCase, Expect: "C18.O1"},
		{Name: "H3 log timer shape: the timer case waits for a second timer, not for the context", File: "proxy/tcp/server.go", Old: c18SrcTCPShutdown, New: c18H3LogTimerTwice, Expect: "C18.O1"},
		{Name: "H3 deadline field shape: the field is set to a second from now", File: "proxy/tcp/server.go", Old: c18SrcTCPShutdown, New: c18H3DeadlineFieldNow, More: []repl{{c18SrcTCPConnsField, "\tconns     map[net.Conn]bool\n\tstopAt    time.Time\n}\n"}}, Expect: "C18.O1"},
		{Name: "H3 benign: a timer case of the wait only logs and then waits for the context again", File: "proxy/tcp/server.go", Old: c18SrcTCPShutdown, New: c18H3LogTimer, Expect: ""},
		{Name: "H3 benign: watchdog goroutine selects on ctx.Done (closes the connections) and a stop channel (returns)", File: "proxy/tcp/server.go", Old: c18SrcTCPShutdown, New: c18H3WatchdogSelect, Expect: ""},
		{Name: "H3 benign: watchdog registered with context.AfterFunc", File: "proxy/tcp/server.go", Old: c18SrcTCPShutdown, New: c18H3AfterFunc, Expect: ""},
		{Name: "H3 benign: the context's deadline without its monotonic reading set on every connection", File: "proxy/tcp/server.go", Old: c18SrcTCPShutdown, New: c18H3DeadlineRound, Expect: ""},
		{Name: "H3 benign: the context's deadline kept in a field of the server and applied by a helper", File: "proxy/tcp/server.go", Old: c18SrcTCPShutdown, New: c18H3DeadlineField, More: []repl{{c18SrcTCPConnsField, "\tconns     map[net.Conn]bool\n\tstopAt    time.Time\n}\n"}}, Expect: ""},
		{Name: "H3 benign: the context's deadline handed to a helper that sets it on every connection", File: "proxy/tcp/server.go", Old: c18SrcTCPShutdown, New: c18H3DeadlineParam, Expect: ""},
	}
}

// ---- proxy.Shutdown ----------------------------------------------------------------------------------------------------

const c18H3SlotsLenPlus = c18ShutdownSnapshot + `	var wg sync.WaitGroup
	slots := make(chan struct{}, len(srvs)+1)
	for _, srv := range srvs {
		slots <- struct{}{}
		wg.Add(1)
		go func(srv Server) {
			defer wg.Done()
			defer func() { <-slots }()
			ctx, cancel := context.WithTimeout(context.Background(), timeout)
			defer cancel()
			srv.Shutdown(ctx)
		}(srv)
	}
	wg.Wait()
}
`

const c18H3SlotsLenCopy = c18ShutdownSnapshot + `	list := make([]Server, 0, len(srvs))
	for _, srv := range srvs {
		list = append(list, srv)
	}
	var wg sync.WaitGroup
	slots := make(chan struct{}, len(srvs))
	for _, srv := range list {
		slots <- struct{}{}
		wg.Add(1)
		go func(srv Server) {
			defer wg.Done()
			defer func() { <-slots }()
			ctx, cancel := context.WithTimeout(context.Background(), timeout)
			defer cancel()
			srv.Shutdown(ctx)
		}(srv)
	}
	wg.Wait()
}
`

const c18H3Retry = c18ShutdownSnapshot + `	var wg sync.WaitGroup
	for _, srv := range srvs {
		wg.Add(1)
		go func(srv Server) {
			defer wg.Done()
			ctx, cancel := context.WithTimeout(context.Background(), timeout)
			defer cancel()
			for attempt := 0; attempt < 3; attempt++ {
				if err := srv.Shutdown(ctx); err == nil || ctx.Err() != nil {
					return
				}
			}
		}(srv)
	}
	wg.Wait()
}
`

const c18H3Barrier = c18ShutdownSnapshot + `	var wg sync.WaitGroup
	start := make(chan struct{})
	for _, srv := range srvs {
		wg.Add(1)
		go func(srv Server) {
			defer wg.Done()
			<-start
			ctx, cancel := context.WithTimeout(context.Background(), timeout)
			defer cancel()
			srv.Shutdown(ctx)
		}(srv)
	}
	close(start)
	wg.Wait()
}
`

const c18H3InnerGo = c18ShutdownSnapshot + `	var wg sync.WaitGroup
	for _, srv := range srvs {
		wg.Add(1)
		go func(srv Server) {
			defer wg.Done()
			ctx, cancel := context.WithTimeout(context.Background(), timeout)
			defer cancel()
			done := make(chan struct{})
			go func() {
				defer close(done)
				srv.Shutdown(ctx)
			}()
			select {
			case <-done:
			case <-ctx.Done():
				log.Printf("[WARN] a server did not shut down within %s", timeout)
			}
		}(srv)
	}
	wg.Wait()
}
`

const c18H3InnerGoCancel = c18ShutdownSnapshot + `	var wg sync.WaitGroup
	for _, srv := range srvs {
		wg.Add(1)
		go func(srv Server) {
			defer wg.Done()
			ctx, cancel := context.WithTimeout(context.Background(), timeout)
			done := make(chan error, 1)
			go func() {
				defer cancel()
				done <- srv.Shutdown(ctx)
			}()
			select {
			case err := <-done:
				if err != nil {
					log.Printf("[WARN] shutdown: %s", err)
				}
			case <-ctx.Done():
			}
		}(srv)
	}
	wg.Wait()
}
`

const c18H3InnerGoNoWait = c18ShutdownSnapshot + `	var wg sync.WaitGroup
	for _, srv := range srvs {
		wg.Add(1)
		go func(srv Server) {
			defer wg.Done()
			ctx, cancel := context.WithTimeout(context.Background(), timeout)
			go func() {
				defer cancel()
				srv.Shutdown(ctx)
			}()
		}(srv)
	}
	wg.Wait()
}
`

const c18H3InnerGoShort = c18ShutdownSnapshot + `	var wg sync.WaitGroup
	for _, srv := range srvs {
		wg.Add(1)
		go func(srv Server) {
			defer wg.Done()
			ctx, cancel := context.WithTimeout(context.Background(), timeout)
			defer cancel()
			done := make(chan struct{})
			go func() {
				defer close(done)
				srv.Shutdown(ctx)
			}()
			select {
			case <-done:
			case <-time.After(time.Second):
			}
		}(srv)
	}
	wg.Wait()
}
`

const c18H3ChanLock = c18ShutdownSnapshot + `	var wg sync.WaitGroup
	lock := make(chan struct{}, 1)
	running, failed := 0, 0
	for _, srv := range srvs {
		wg.Add(1)
		go func(srv Server) {
			defer wg.Done()
			lock <- struct{}{}
			running++
			<-lock
			ctx, cancel := context.WithTimeout(context.Background(), timeout)
			defer cancel()
			err := srv.Shutdown(ctx)
			lock <- struct{}{}
			running--
			if err != nil {
				failed++
			}
			<-lock
		}(srv)
	}
	wg.Wait()
	if failed > 0 || running != 0 {
		log.Printf("[WARN] %d servers did not shut down cleanly", failed)
	}
}
`

const c18H3Collector = c18ShutdownSnapshot + `	var wg sync.WaitGroup
	errs := make(chan error)
	collected := make(chan struct{})
	go func() {
		defer close(collected)
		for err := range errs {
			if err != nil {
				log.Printf("[WARN] shutdown: %s", err)
			}
		}
	}()
	for _, srv := range srvs {
		wg.Add(1)
		go func(srv Server) {
			defer wg.Done()
			ctx, cancel := context.WithTimeout(context.Background(), timeout)
			defer cancel()
			errs <- srv.Shutdown(ctx)
		}(srv)
	}
	wg.Wait()
	close(errs)
	<-collected
}
`

// ---- tcp.Server.Shutdown -----------------------------------------------------------------------------------------------

const c18H3LogTimer = `func (s *Server) Shutdown(ctx context.Context) error {
	s.closeListeners()
	if ctx != nil {
		select {
		case <-ctx.Done():
		case <-time.After(time.Second):
			println("tcp: waiting for open connections")
			<-ctx.Done()
		}
	}
	return s.closeConns()
}
`

const c18H3WatchdogSelect = `func (s *Server) Shutdown(ctx context.Context) error {
	s.closeListeners()
	if ctx != nil {
		stop := make(chan struct{})
		defer close(stop)
		go func() {
			select {
			case <-ctx.Done():
				s.closeConns()
			case <-stop:
			}
		}()
		<-ctx.Done()
	}
	return s.closeConns()
}
`

const c18H3AfterFunc = `func (s *Server) Shutdown(ctx context.Context) error {
	s.closeListeners()
	if ctx != nil {
		stop := context.AfterFunc(ctx, func() { s.closeConns() })
		defer stop()
		<-ctx.Done()
	}
	return s.closeConns()
}
`

const c18H3DeadlineRound = `func (s *Server) Shutdown(ctx context.Context) error {
	s.closeListeners()
	if ctx != nil {
		if d, ok := ctx.Deadline(); ok {
			s.mu.Lock()
			for c := range s.conns {
				c.SetDeadline(d.Round(0))
			}
			s.mu.Unlock()
		}
		<-ctx.Done()
	}
	return s.closeConns()
}
`

const c18H3DeadlineField = `func (s *Server) expireConns() {
	s.mu.Lock()
	defer s.mu.Unlock()
	for c := range s.conns {
		c.SetDeadline(s.stopAt)
	}
}

func (s *Server) Shutdown(ctx context.Context) error {
	s.closeListeners()
	if ctx != nil {
		if d, ok := ctx.Deadline(); ok {
			s.stopAt = d
			s.expireConns()
		}
		<-ctx.Done()
	}
	return s.closeConns()
}
`

const c18H3DeadlineParam = `func (s *Server) expireConns(at time.Time) {
	s.mu.Lock()
	defer s.mu.Unlock()
	for c := range s.conns {
		c.SetDeadline(at)
	}
}

func (s *Server) Shutdown(ctx context.Context) error {
	s.closeListeners()
	if ctx != nil {
		if d, ok := ctx.Deadline(); ok {
			s.expireConns(d)
		}
		<-ctx.Done()
	}
	return s.closeConns()
}
`

// ---- second batch ------------------------------------------------------------------------------------------------------

const c18H3ErrgroupLenLimit = c18ShutdownSnapshot + `	var g errgroup.Group
	g.SetLimit(len(srvs) + 1)
	for _, srv := range srvs {
		g.Go(func() error {
			ctx, cancel := context.WithTimeout(context.Background(), timeout)
			defer cancel()
			return srv.Shutdown(ctx)
		})
	}
	g.Wait()
}
`

const c18H3GateTypeTail = `	for _, srv := range srvs {
		g.enter()
		wg.Add(1)
		go func(srv Server) {
			defer wg.Done()
			defer g.leave()
			ctx, cancel := context.WithTimeout(context.Background(), timeout)
			defer cancel()
			srv.Shutdown(ctx)
		}(srv)
	}
	wg.Wait()
}

type gate chan struct{}

func (g gate) enter() { g <- struct{}{} }
func (g gate) leave() { <-g }
`

const c18H3GateType = c18ShutdownSnapshot + `	var wg sync.WaitGroup
	g := make(gate, len(srvs))
` + c18H3GateTypeTail

const c18H3GateTypeEight = c18ShutdownSnapshot + `	var wg sync.WaitGroup
	g := make(gate, 8)
` + c18H3GateTypeTail

const c18H3SlotsHalf = c18ShutdownSnapshot + `	var wg sync.WaitGroup
	slots := make(chan struct{}, len(srvs)/2+1)
	for _, srv := range srvs {
		slots <- struct{}{}
		wg.Add(1)
		go func(srv Server) {
			defer wg.Done()
			defer func() { <-slots }()
			ctx, cancel := context.WithTimeout(context.Background(), timeout)
			defer cancel()
			srv.Shutdown(ctx)
		}(srv)
	}
	wg.Wait()
}
`

const c18H3ChanLockAcross = c18ShutdownSnapshot + `	var wg sync.WaitGroup
	lock := make(chan struct{}, 1)
	running := 0
	for _, srv := range srvs {
		wg.Add(1)
		go func(srv Server) {
			defer wg.Done()
			lock <- struct{}{}
			running++
			<-lock
			ctx, cancel := context.WithTimeout(context.Background(), timeout)
			defer cancel()
			lock <- struct{}{}
			srv.Shutdown(ctx)
			running--
			<-lock
		}(srv)
	}
	wg.Wait()
}
`

const c18H3ChanLockLoop = c18ShutdownSnapshot + `	var wg sync.WaitGroup
	lock := make(chan struct{}, 1)
	running := 0
	for _, srv := range srvs {
		lock <- struct{}{}
		running++
		wg.Add(1)
		go func(srv Server) {
			defer wg.Done()
			ctx, cancel := context.WithTimeout(context.Background(), timeout)
			defer cancel()
			srv.Shutdown(ctx)
			running--
			<-lock
		}(srv)
	}
	wg.Wait()
}
`

const c18H3RetryFresh = c18ShutdownSnapshot + `	var wg sync.WaitGroup
	for _, srv := range srvs {
		wg.Add(1)
		go func(srv Server) {
			defer wg.Done()
			for attempt := 0; attempt < 3; attempt++ {
				ctx, cancel := context.WithTimeout(context.Background(), timeout)
				err := srv.Shutdown(ctx)
				cancel()
				if err == nil {
					return
				}
			}
		}(srv)
	}
	wg.Wait()
}
`

const c18H3RetryGroup = c18ShutdownSnapshot + `	groups := map[bool][]Server{}
	for addr, srv := range srvs {
		groups[len(addr)%2 == 0] = append(groups[len(addr)%2 == 0], srv)
	}
	var wg sync.WaitGroup
	for _, group := range groups {
		wg.Add(1)
		go func(group []Server) {
			defer wg.Done()
			ctx, cancel := context.WithTimeout(context.Background(), timeout)
			defer cancel()
			for i := 0; i < len(group); i++ {
				group[i].Shutdown(ctx)
			}
		}(group)
	}
	wg.Wait()
}
`

const c18H3WatchdogShort = `func (s *Server) Shutdown(ctx context.Context) error {
	s.closeListeners()
	if ctx != nil {
		go func() {
			select {
			case <-ctx.Done():
			case <-time.After(time.Second):
			}
			s.closeConns()
		}()
		<-ctx.Done()
	}
	return s.closeConns()
}
`

const c18H3WatchdogWrongCase = `func (s *Server) Shutdown(ctx context.Context) error {
	s.closeListeners()
	if ctx != nil {
		go func() {
			select {
			case <-ctx.Done():
			case <-time.After(time.Second):
				s.closeConns()
			}
		}()
		<-ctx.Done()
	}
	return s.closeConns()
}
`

const c18H3LogTimerTwice = `func (s *Server) Shutdown(ctx context.Context) error {
	s.closeListeners()
	if ctx != nil {
		select {
		case <-ctx.Done():
		case <-time.After(time.Second):
			println("tcp: waiting for open connections")
			<-time.After(time.Second)
		}
	}
	return s.closeConns()
}
`

const c18H3DeadlineFieldNow = `func (s *Server) expireConns() {
	s.mu.Lock()
	defer s.mu.Unlock()
	for c := range s.conns {
		c.SetDeadline(s.stopAt)
	}
}

func (s *Server) Shutdown(ctx context.Context) error {
	s.closeListeners()
	if ctx != nil {
		s.stopAt = time.Now().Add(time.Second)
		s.expireConns()
		<-ctx.Done()
	}
	return s.closeConns()
}
`
