package main

import (
	"go/token"
	"strings"

	"golang.org/x/tools/go/ssa"
)

func init() {
	register(&propDef{
		ID:      "C13",
		Level:   "other",
		Explain: "Redirect routes, decided structurally: (S1) no store to a route.Target (incl. its RedirectURL and the url.URL behind it) reachable from a per-request entry unless the target object is a per-request copy — the 'under any number of simultaneous requests' clause, decided for all schedules by the shared-state engine; (G1) in ServeHTTP the redirect answer sits behind both gates and the lookup, uses Target.RedirectURL/RedirectCode, and no upstream-contact site is reachable after it; (C1) interval analysis of Target.RedirectCode in addTarget: at every exit the code is in {0} ∪ [300,399] on all paths, including the strconv.Atoi error edge (Atoi returns the clamped value on range errors); (P1) in BuildRedirectURL the $path/$host replacements derive from the requestURL parameter, strip is applied before prepend, and the request query is copied only on the 'template has no query' edge; (L1) in Table.Lookup the self-redirect skip edge contributes nil to the result so a skipped redirect cannot be returned. (L2) the self-redirect test compares scheme, full host:port and path. (E2) Table.Lookup hands BuildRedirectURL the request URL itself or a copy carrying RawPath; Not decided: the text of the Location for each template form (string contents, e.g. %2F with https://$host$path).",
		Run:     runC13,
		Trusted: []string{"strconv.Atoi contract (value clamped on range error)", "net/http.Redirect writes the given status and Location"},
		Mutants: []mutant{
			{Name: "redirect built from a URL without RawPath", File: "route/table.go", Old: "\t\t\t\tredirect.BuildRedirectURL(req.URL)\n", New: "\t\t\t\tredirect.BuildRedirectURL(&url.URL{Host: req.Host, Path: req.URL.Path, RawQuery: req.URL.RawQuery})\n", Expect: "C13.E2"},

			{Name: "cache redirect URL on shared target", File: "route/table.go", Old: "redirect := *target\n\t\t\t\tredirect.BuildRedirectURL(req.URL)\n\t\t\t\ttarget = &redirect", New: "target.BuildRedirectURL(req.URL)", Expect: "C13.S1"},
			{Name: "redirect after proxy construction", File: "proxy/http_proxy.go", Old: "\t\tif p.Stats.RedirectCounter != nil {\n\t\t\tp.Stats.RedirectCounter.With(\"code\", strconv.Itoa(t.RedirectCode)).Add(1)\n\t\t}\n\t\treturn\n", New: "\t\tif p.Stats.RedirectCounter != nil {\n\t\t\tp.Stats.RedirectCounter.With(\"code\", strconv.Itoa(t.RedirectCode)).Add(1)\n\t\t}\n", Expect: "C13.G1"},
			{Name: "keep Atoi value on error", File: "route/route.go", Old: "\t\t\t\tt.RedirectCode = 0\n\t\t\t\tlog.Printf(\"[ERROR] redirect status code should be numeric", New: "\t\t\t\tlog.Printf(\"[ERROR] redirect status code should be numeric", Expect: "C13.C1"},
			{Name: "range check off by a hundred", File: "route/route.go", Old: "t.RedirectCode < 300 || t.RedirectCode > 399", New: "t.RedirectCode < 300 || t.RedirectCode > 499", Expect: "C13.C1"},
			{Name: "$path from the target URL", File: "route/target.go", Old: "replacePath := requestURL.Path", New: "replacePath := t.URL.Path", Expect: "C13.P1"},
			{Name: "$host from the target", File: "route/target.go", Old: "strings.Replace(t.RedirectURL.Host, \"$host\", requestURL.Host, 1)", New: "strings.Replace(t.RedirectURL.Host, \"$host\", t.URL.Host, 1)", Expect: "C13.P1"},
			{Name: "query always copied", File: "route/target.go", Old: "if t.RedirectURL.RawQuery == \"\" && requestURL.RawQuery != \"\" {", New: "if requestURL.RawQuery != \"\" {", Expect: "C13.P1"},
			{Name: "skipped redirect kept", File: "route/table.go", Old: "\t\t\t\t\ttarget = nil\n\t\t\t\t\tcontinue", New: "\t\t\t\t\tcontinue", Expect: "C13.L1"},
			{Name: "self-redirect test ignores the port", File: "route/table.go", Old: "target.RedirectURL.Host == req.Host &&", New: "target.RedirectURL.Hostname() == req.URL.Hostname() &&", Expect: "C13.L2"},
			{Name: "benign: return built URL through a local", File: "route/table.go", Old: "redirect.BuildRedirectURL(req.URL)", New: "ru := req.URL\n\t\t\t\tredirect.BuildRedirectURL(ru)", Expect: ""},
		},
	})
}

func runC13(c *Ctx) {
	sa := newSharedAnalysis(c)
	n := sa.s1("C13.S1", func(f *ssa.Function, step string) bool {
		return strings.HasPrefix(step, "route.Target.") || strings.HasPrefix(step, "route.Route.") || strings.HasPrefix(step, "route.Table")
	})
	c.atLeast("C13.S1", "stores into route.Target reachable from serving roots", n, 1)
	runC13G1(c)
	runC13C1(c)
	runC13P1(c)
	runC13L1(c)
	runC13L2(c)
	runC13E2(c)
}

func runC13G1(c *Ctx) {
	serve := c.method("proxy", "HTTPProxy", "ServeHTTP")
	if !c.need("C13.G1", serve, "proxy.HTTPProxy.ServeHTTP") {
		return
	}
	reds := callsTo(serve, "net/http.Redirect")
	c.atLeast("C13.G1", "http.Redirect calls in ServeHTTP", len(reds), 1)
	sites := c.contactSites(serve)
	denied := c.method("route", "Target", "AccessDeniedHTTP")
	auth := c.method("route", "Target", "Authorized")
	for _, r := range reds {
		cc := callCommon(r)
		// arguments: URL text from Target.RedirectURL, status from Target.RedirectCode
		urlOK := derives(cc.Args[2], func(v ssa.Value) bool { _, ok := fieldOf(v, "route.Target", "RedirectURL"); return ok })
		codeOK := derives(cc.Args[3], func(v ssa.Value) bool { _, ok := fieldOf(v, "route.Target", "RedirectCode"); return ok })
		c.check("C13.G1", "proxy.(*HTTPProxy).ServeHTTP|redirect uses Target.RedirectURL and RedirectCode", r.Pos(), urlOK && codeOK,
			"the redirect answer must carry the location built for this request (Target.RedirectURL) and the configured status (Target.RedirectCode)")
		// guarded by RedirectCode != 0
		guarded := false
		for _, f := range factsAt(r.Block()) {
			if b, ok := f.Cond.(*ssa.BinOp); ok && b.Op == token.NEQ && f.Truth {
				if _, isF := fieldOf(b.X, "route.Target", "RedirectCode"); isF {
					if n, ok := constInt(b.Y); ok && n == 0 {
						guarded = true
					}
				}
			}
		}
		c.check("C13.G1", "proxy.(*HTTPProxy).ServeHTTP|redirect only for redirect targets", r.Pos(), guarded, "http.Redirect must be under RedirectCode != 0")
		// behind the gates
		gated := denied != nil && auth != nil && gateReceiver(r.Block(), denied, false, 0) != nil && gateReceiver(r.Block(), auth, true, 0) != nil
		c.check("C13.G1", "proxy.(*HTTPProxy).ServeHTTP|redirect behind access and auth gates", r.Pos(), gated, "the redirect answer must come after both gates")
		// no upstream contact after the redirect
		bad := ""
		for s, how := range sites {
			if pathAvoiding(r, s, nil) {
				bad = how
			}
		}
		c.check("C13.G1", "proxy.(*HTTPProxy).ServeHTTP|no upstream contact after redirect", r.Pos(), bad == "",
			"after answering with a redirect the handler must return; reachable afterwards: "+bad)
	}
}

func runC13C1(c *Ctx) {
	add := c.method("route", "Route", "addTarget")
	if !c.need("C13.C1", add, "route.Route.addTarget") {
		return
	}
	targets := allocsOf(add, "route.Target")
	if len(targets) != 1 {
		c.undecided("C13.C1", "anchor|Target literal in addTarget", "expected exactly one route.Target allocation")
		return
	}
	t := targets[0]
	fi := analyseFieldIntervals(add, t, "route.Target", "RedirectCode")
	want := iset{{0, 0}, {300, 399}}
	n := 0
	// at the point the target is published into the route (store to Route.Targets) and at every return
	eachInstr(add, func(i ssa.Instruction) {
		isPub := false
		if st, ok := i.(*ssa.Store); ok {
			if _, isT := fieldOf(st.Addr, "route.Route", "Targets"); isT {
				isPub = true
			}
		}
		if !isPub {
			return
		}
		n++
		v := fi.at[i]
		c.check("C13.C1", "route.(*Route).addTarget|RedirectCode range when the target joins the route", i.Pos(), v.subsetOf(want),
			"Target.RedirectCode must be 0 or in [300,399] on every path; it can be "+v.String()+" here (strconv.Atoi returns the clamped value together with a range error, e.g. redirect=99999999999999999999 leaves MaxInt64; http.Redirect/WriteHeader then panics on the invalid status inside the request handler)")
	})
	c.atLeast("C13.C1", "stores to Route.Targets in addTarget", n, 1)
	// the field must actually be parsed from the option (vacuity): some non-constant store exists
	parsed := false
	for _, st := range fieldStores(t)["RedirectCode"] {
		if _, isK := st.Val.(*ssa.Const); !isK {
			parsed = true
		}
	}
	c.check("C13.C1", "route.(*Route).addTarget|RedirectCode parsed from the redirect option", add.Pos(), parsed, "the redirect option is no longer parsed into Target.RedirectCode")
}

func runC13P1(c *Ctx) {
	b := c.method("route", "Target", "BuildRedirectURL")
	if !c.need("C13.P1", b, "route.Target.BuildRedirectURL") {
		return
	}
	var reqURL *ssa.Parameter
	for _, p := range b.Params {
		if typeStr(p.Type()) == "*net/url.URL" {
			reqURL = p
		}
	}
	if reqURL == nil {
		c.undecided("C13.P1", "anchor|requestURL parameter", "BuildRedirectURL has no *url.URL parameter")
		return
	}
	fromReq := func(v ssa.Value) bool { return derives(v, func(x ssa.Value) bool { return x == reqURL }) }
	nPath, nHost := 0, 0
	eachInstr(b, func(i ssa.Instruction) {
		cc := callCommon(i)
		if cc == nil || calleeName(cc) != "strings.Replace" || len(cc.Args) != 4 {
			return
		}
		old, _ := constString(cc.Args[1])
		switch old {
		case "$path":
			nPath++
			c.check("C13.P1", "route.(*Target).BuildRedirectURL|$path replaced by the request path", i.Pos(), fromReq(cc.Args[2]),
				"the $path replacement must derive from the requestURL parameter (this request's path), not from state of the shared target")
		case "$host":
			nHost++
			c.check("C13.P1", "route.(*Target).BuildRedirectURL|$host replaced by the request host", i.Pos(), fromReq(cc.Args[2]),
				"the $host replacement must derive from the requestURL parameter (this request's host)")
		}
	})
	c.atLeast("C13.P1", "$path replacements", nPath, 1)
	c.atLeast("C13.P1", "$host replacements", nHost, 1)
	// strip before prepend: no slice (strip) is applied to a value that derives from a PrependPath concatenation
	nPre := 0
	eachInstr(b, func(i ssa.Instruction) {
		bo, ok := i.(*ssa.BinOp)
		if !ok || bo.Op != token.ADD {
			return
		}
		if _, isPre := fieldOf(bo.X, "route.Target", "PrependPath"); !isPre {
			return
		}
		nPre++
		// the prepended operand must be request-derived
		c.check("C13.P1", "route.(*Target).BuildRedirectURL|prepend applied to the request path", bo.Pos(), fromReq(bo.Y), "PrependPath must be put in front of this request's (stripped) path")
		bad := false
		eachInstr(b, func(j ssa.Instruction) {
			if sl, ok := j.(*ssa.Slice); ok {
				if derives(sl.X, func(x ssa.Value) bool { return x == bo }) {
					bad = true
				}
			}
		})
		c.check("C13.P1", "route.(*Target).BuildRedirectURL|strip before prepend", bo.Pos(), !bad, "the strip prefix must be removed before the prepend path is added (documented order)")
	})
	c.atLeast("C13.P1", "PrependPath concatenations", nPre, 1)
	// query: store of a request-derived RawQuery only under `template query == ""`
	nQ := 0
	eachInstr(b, func(i ssa.Instruction) {
		st, ok := i.(*ssa.Store)
		if !ok {
			return
		}
		fa, ok := st.Addr.(*ssa.FieldAddr)
		if !ok || fieldName(fa.X.Type(), fa.Field) != "RawQuery" || !fromReq(st.Val) {
			return
		}
		nQ++
		guard := false
		for _, f := range factsAt(st.Block()) {
			if bo, ok := f.Cond.(*ssa.BinOp); ok && bo.Op == token.EQL && f.Truth {
				if s, isS := constString(bo.Y); isS && s == "" && strings.HasSuffix(accessPath(bo.X), "RedirectURL.RawQuery") {
					guard = true
				}
			}
		}
		c.check("C13.P1", "route.(*Target).BuildRedirectURL|request query only when the target has none", st.Pos(), guard,
			"the request's query may replace the location's query only on the edge where the target URL has no query of its own")
	})
	c.atLeast("C13.P1", "request-derived RawQuery stores", nQ, 1)
}

func runC13L1(c *Ctx) {
	lk := c.method("route", "Table", "Lookup")
	if !c.need("C13.L1", lk, "route.Table.Lookup") {
		return
	}
	redirectFact := func(b *ssa.BasicBlock) bool {
		for _, f := range factsAt(b) {
			if bo, ok := f.Cond.(*ssa.BinOp); ok && bo.Op == token.NEQ && f.Truth {
				if _, isF := fieldOf(bo.X, "route.Target", "RedirectCode"); isF {
					return true
				}
			}
		}
		return false
	}
	n := 0
	for _, l := range loopsOf(lk) {
		for _, in := range l.Head.Instrs {
			phi, ok := in.(*ssa.Phi)
			if !ok || !namedIs(phi.Type(), "route.Target") {
				continue
			}
			for k, e := range phi.Edges {
				pred := l.Head.Preds[k]
				if !l.Body[pred] || !redirectFact(pred) {
					continue
				}
				n++
				c.check("C13.L1", "(route.Table).Lookup|skipped self-redirect leaves no result", pred.Instrs[len(pred.Instrs)-1].Pos(), isNilConst(e),
					"on the self-redirect skip edge (continue with the next host) the result variable must be cleared; otherwise, when no later host matches (always for a host-less redirect route, \"\" is tried last), the skipped redirect is returned and the client is redirected to the same URL forever")
			}
		}
	}
	c.atLeast("C13.L1", "self-redirect skip edges in Table.Lookup", n, 1)
}
