package main

import (
	"go/token"
	"os"
	"strings"

	"golang.org/x/tools/go/ssa"
)

func init() {
	register(&propDef{
		ID:      "C13",
		Level:   "other",
		Explain: "Redirect routes, decided structurally; sites are found by ROLE in the region of the exported entry points (ServeHTTP, Table.Lookup) and of the location builder, which is itself found by role (the functions of package route from whose *url.URL - or, failing that, *http.Request - parameter the \"$path\" substitution derives: BuildRedirectURL today, equally a pure function that returns the location and lets Table.Lookup store it). (S1) no store to a route.Target (incl. its RedirectURL and the url.URL behind it) reachable from a per-request entry unless the target object is a per-request copy — the 'under any number of simultaneous requests' clause, decided for all schedules by the shared-state engine; (G1) path-sensitive abstract interpretation of ServeHTTP and the repository helpers it calls (state: RedirectCode zero/non-zero, RedirectURL nil/non-nil, access gate passed, auth gate passed, redirect answered; helpers are entered with the caller's state and every result they hand back is correlated with the states at their returns: a boolean verdict, nil / non-nil of a pointer-like result such as the admitted target or an error, the value of an integer constant of an enum verdict, one component of a result tuple - so that `t := p.admit(w, r); if t == nil { return }` selects the states in which the helper returned a target): the redirect answer (http.Redirect / http.RedirectHandler(..).ServeHTTP) is written only where RedirectCode != 0 is established and both gates are passed, carries Target.RedirectURL/RedirectCode, and every upstream-contact site is reached only in states 'not a redirect target' and never after the answer; (C1) interval analysis of Target.RedirectCode in every function that stores it (targets the function did not create are assumed in range, by induction): at every exit and where the target joins Route.Targets the code is in {0} ∪ [300,399] on all paths, including the strconv.Atoi error edge (Atoi returns the clamped value on range errors); stored values are evaluated through parse helpers (union over their returns under the branch conditions there; for a helper with several results only over the returns compatible with what is known about the other results, e.g. err == nil), local variables and integer conversions; (P1) in the region of the builder family the $path/$host replacements derive from the request parameter (never from the configuration fields of a target), the strip operation (slice from len(StripPath) / strings.TrimPrefix / CutPrefix) is never applied to a value that already carries PrependPath, and a request-derived query is stored into the location under construction (the url.URL that receives the substitution results) only where the template's / location's own query is known to be empty; (L1) wherever the region of Table.Lookup knows 'the location equals the request' (block or branch edge; the location is Target.RedirectURL or a value stored there; the comparisons may sit in a boolean predicate helper) the value handed on (returned, or carried round the host loop) is nil, and every loop edge taken with a redirect target in hand carries nil; (L2) at those places scheme, full host:port and path are all known equal; (E2) every caller of a function of the builder family hands it the request URL itself or a copy carrying RawPath (also through a cloning helper or a helper parameter; a member that passes its own parameter on is checked at its callers), and every url.URL assembled in package route from request fields from which the $path replacement derives carries RawPath. Not decided: the text of the Location for each template form (string contents, e.g. %2F with https://$host$path).",
		Run:     runC13,
		Trusted: []string{"strconv.Atoi contract (value clamped on range error)", "net/http.Redirect writes the given status and Location"},
		Mutants: c13devFilter(append([]mutant{
			{Name: "redirect built from a URL without RawPath", File: "route/table.go", Old: "\t\t\t\tredirect.BuildRedirectURL(req.URL)\n", New: "\t\t\t\tredirect.BuildRedirectURL(&url.URL{Host: req.Host, Path: req.URL.Path, RawQuery: req.URL.RawQuery})\n", Expect: "C13.E2"},

			{Name: "cache redirect URL on shared target", File: "route/table.go", Old: "redirect := *target\n\t\t\t\tredirect.BuildRedirectURL(req.URL)\n\t\t\t\ttarget = &redirect", New: "target.BuildRedirectURL(req.URL)", Expect: "C13.S1"},
			{Name: "redirect after proxy construction", File: "proxy/http_proxy.go", Old: "\t\tif p.Stats.RedirectCounter != nil {\n\t\t\tp.Stats.RedirectCounter.With(\"code\", strconv.Itoa(t.RedirectCode)).Add(1)\n\t\t}\n\t\treturn\n", New: "\t\tif p.Stats.RedirectCounter != nil {\n\t\t\tp.Stats.RedirectCounter.With(\"code\", strconv.Itoa(t.RedirectCode)).Add(1)\n\t\t}\n", Expect: "C13.G1"},
			{Name: "keep Atoi value on error", File: "route/route.go", Old: "\t\t\t\tt.RedirectCode = 0\n\t\t\t\tlog.Printf(\"[ERROR] redirect status code should be numeric", New: "\t\t\t\tlog.Printf(\"[ERROR] redirect status code should be numeric", Expect: "C13.C1"},
			{Name: "range check off by a hundred", File: "route/route.go", Old: "t.RedirectCode < 300 || t.RedirectCode > 399", New: "t.RedirectCode < 300 || t.RedirectCode > 499", Expect: "C13.C1"},
			{Name: "$path from the target URL", File: "route/target.go", Old: "replacePath := requestURL.Path", New: "replacePath := t.URL.Path", Expect: "C13.P1"},
			{Name: "$host from the target", File: "route/target.go", Old: "strings.Replace(t.RedirectURL.Host, \"$host\", requestURL.Host, 1)", New: "strings.Replace(t.RedirectURL.Host, \"$host\", t.URL.Host, 1)", Expect: "C13.P1"},
			{Name: "query always copied", File: "route/target.go", Old: "if t.RedirectURL.RawQuery == \"\" && requestURL.RawQuery != \"\" {", New: "if requestURL.RawQuery != \"\" {", Expect: "C13.P1"},
			{Name: "skipped redirect kept", File: "route/table.go", Old: "\t\t\t\t\ttarget = nil\n\t\t\t\t\tcontinue", New: "\t\t\t\t\tcontinue", Expect: "C13.L1"},
			{Name: "self-redirect test ignores the port", File: "route/table.go", Old: "target.RedirectURL.Host == req.Host &&", New: "target.RedirectURL.Hostname() == req.URL.Hostname() &&", Expect: "C13.L2"},
			{Name: "benign: return built URL through a local", File: "route/table.go", Old: "redirect.BuildRedirectURL(req.URL)", New: "ru := req.URL\n\t\t\t\tredirect.BuildRedirectURL(ru)", Expect: ""},
		}, append(c13moreMutants, append(c13round2Mutants, c13round5Mutants...)...)...)),
	})
}

// c13devFilter: development aid - C13_MUTANTS=new runs only the youngest overlay mutants (plus those of round 4).
func c13devFilter(all []mutant) []mutant {
	if os.Getenv("C13_MUTANTS") == "new" {
		return c13round5Mutants
	}
	return all
}

func runC13(c *Ctx) {
	if want := os.Getenv("C13_DUMP"); want != "" { // development aid: the SSA the rules see
		for _, f := range c.AllFns {
			if strings.Contains(f.String(), want) {
				f.WriteTo(os.Stderr)
			}
		}
	}
	sa := newSharedAnalysis(c)
	n := sa.s1("C13.S1", func(f *ssa.Function, step string) bool {
		return strings.HasPrefix(step, "route.Target.") || strings.HasPrefix(step, "route.Route.") || strings.HasPrefix(step, "route.Table")
	})
	c.atLeast("C13.S1", "stores into route.Target reachable from serving roots", n, 1)
	runC13G1(c)
	runC13C1(c)
	runC13P1(c)
	runC13L1(c)
	runC13L2(c)
	runC13E2(c)
}

// ---- shared recognisers of C13 (roles, not names) ---------------------------------------------------------------

// c13eqFact: the fact states x == y (`==` taken, or `!=` not taken); c13neFact: it states x != y.
func c13eqFact(f Fact) (x, y ssa.Value, ok bool) {
	if b, isB := f.Cond.(*ssa.BinOp); isB && ((b.Op == token.EQL && f.Truth) || (b.Op == token.NEQ && !f.Truth)) {
		return b.X, b.Y, true
	}
	return nil, nil, false
}

func c13neFact(f Fact) (x, y ssa.Value, ok bool) {
	if b, isB := f.Cond.(*ssa.BinOp); isB && ((b.Op == token.NEQ && f.Truth) || (b.Op == token.EQL && !f.Truth)) {
		return b.X, b.Y, true
	}
	return nil, nil, false
}

// c13phiFacts: what follows from "the merged boolean phi (`a && b && c` / `a || b` evaluated as a value) is truth":
// when all incoming edges but one are the opposite constant, the remaining operand decided it, and everything known
// where that operand was evaluated holds as well.
func c13phiFacts(phi *ssa.Phi, truth bool, depth int) []Fact {
	if depth > 3 || len(phi.Edges) < 2 {
		return nil
	}
	k := -1
	for i, e := range phi.Edges {
		if b, isK := constBool(e); isK && b != truth {
			continue
		}
		if k >= 0 {
			return nil
		}
		k = i
	}
	if k < 0 {
		return nil
	}
	var out []Fact
	if _, isK := constBool(phi.Edges[k]); !isK {
		out = append(out, Fact{phi.Edges[k], truth})
	}
	out = append(out, factsAt(phi.Block().Preds[k])...)
	return c13expandFacts(out, depth+1)
}

// c13expandFacts adds, for every fact about a merged boolean, the facts that decided it, and for every fact about the
// verdict of a repository predicate (`if pointsBack(loc, req)`) what the predicate knows where it returns that verdict.
func c13expandFacts(facts []Fact, depth int) []Fact {
	out := facts
	for _, f := range facts {
		cond, truth := f.Cond, f.Truth
		for {
			u, isNot := cond.(*ssa.UnOp)
			if !isNot || u.Op != token.NOT {
				break
			}
			cond, truth = u.X, !truth
		}
		switch x := cond.(type) {
		case *ssa.Phi:
			out = append(out, c13phiFacts(x, truth, depth)...)
		case *ssa.Call:
			out = append(out, c13verdictFacts(x, truth, depth)...)
		}
	}
	return out
}

// c13verdictFacts: what follows from "the call of a boolean repository helper returned truth": when exactly one of
// its returns can yield that value, everything known at that return holds (in terms of the helper's own values; its
// parameters stand for the arguments, which derives / c13args resolve).
func c13verdictFacts(call *ssa.Call, truth bool, depth int) []Fact {
	sc := call.Call.StaticCallee()
	if depth > 2 || sc == nil || !isRepoFn(sc) || len(sc.Blocks) == 0 {
		return nil
	}
	if res := sc.Signature.Results(); res.Len() != 1 || typeStr(res.At(0).Type()) != "bool" {
		return nil
	}
	var ret *ssa.Return
	n := 0
	for _, b := range sc.Blocks {
		if len(b.Instrs) == 0 {
			continue
		}
		r, ok := b.Instrs[len(b.Instrs)-1].(*ssa.Return)
		if !ok || len(r.Results) != 1 {
			continue
		}
		if k, isK := constBool(r.Results[0]); isK && k != truth {
			continue
		}
		ret = r
		n++
	}
	if n != 1 {
		return nil
	}
	out := append([]Fact{}, localFactsAt(ret.Block())...)
	if _, isK := constBool(ret.Results[0]); !isK {
		out = append(out, Fact{ret.Results[0], truth})
	}
	return c13expandFacts(out, depth+1)
}

// c13factsAt: factsAt with merged booleans resolved.
func c13factsAt(b *ssa.BasicBlock) []Fact { return c13expandFacts(factsAt(b), 0) }

// c13emptyFact: the fact states that string x is empty (x == "", !(x != ""), len(x) == 0, !(len(x) != 0), !(len(x) > 0), len(x) < 1).
func c13emptyFact(f Fact) (ssa.Value, bool) {
	b, ok := f.Cond.(*ssa.BinOp)
	if !ok {
		return nil, false
	}
	lenOf := func(v ssa.Value) (ssa.Value, bool) {
		if call, ok := v.(*ssa.Call); ok && calleeName(&call.Call) == "builtin.len" && len(call.Call.Args) == 1 {
			return call.Call.Args[0], true
		}
		return nil, false
	}
	x, y := b.X, b.Y
	op := b.Op
	if _, isK := x.(*ssa.Const); isK { // constant on the left: mirror
		x, y = y, x
		switch op {
		case token.LSS:
			op = token.GTR
		case token.GTR:
			op = token.LSS
		case token.LEQ:
			op = token.GEQ
		case token.GEQ:
			op = token.LEQ
		}
	}
	if s, isS := constString(y); isS && s == "" {
		if (op == token.EQL && f.Truth) || (op == token.NEQ && !f.Truth) {
			return x, true
		}
		return nil, false
	}
	if arg, isLen := lenOf(x); isLen {
		n, isN := constInt(y)
		if !isN {
			return nil, false
		}
		switch {
		case n == 0 && ((op == token.EQL && f.Truth) || (op == token.NEQ && !f.Truth) || (op == token.GTR && !f.Truth) || (op == token.LEQ && f.Truth)):
			return arg, true
		case n == 1 && ((op == token.LSS && f.Truth) || (op == token.GEQ && !f.Truth)):
			return arg, true
		}
	}
	return nil, false
}

// c13redirectFact: block b is only reached when some target's RedirectCode is known to be non-zero.
func c13redirectFact(facts []Fact) bool {
	for _, f := range facts {
		if x, y, ok := c13neFact(f); ok {
			if n, isN := constInt(y); isN && n == 0 && c13targetField(x, "RedirectCode") {
				return true
			}
			if n, isN := constInt(x); isN && n == 0 && c13targetField(y, "RedirectCode") {
				return true
			}
		}
		if bo, ok := f.Cond.(*ssa.BinOp); ok && c13targetField(bo.X, "RedirectCode") {
			if n, isN := constInt(bo.Y); isN {
				if (bo.Op == token.GTR && f.Truth && n >= 0) || (bo.Op == token.GEQ && f.Truth && n >= 1) ||
					(bo.Op == token.LEQ && !f.Truth && n >= 0) || (bo.Op == token.LSS && !f.Truth && n >= 1) {
					return true
				}
			}
		}
	}
	return false
}

// c13configField: v is read from the configuration of a route.Target (a field chain rooted at a field other than the
// per-request RedirectURL, e.g. t.URL.RawQuery, t.StripPath): such a value is not request-derived, even where the
// target object is the request's own copy that also holds the location (derives is field-insensitive on local copies).
func c13configField(v ssa.Value) bool {
	for depth := 0; depth < 6; depth++ {
		if u, ok := v.(*ssa.UnOp); ok && u.Op == token.MUL {
			v = u.X
		}
		var base ssa.Value
		var name string
		switch x := v.(type) {
		case *ssa.FieldAddr:
			base, name = x.X, fieldName(x.X.Type(), x.Field)
		case *ssa.Field:
			base, name = x.X, fieldName(x.X.Type(), x.Field)
		default:
			return false
		}
		if namedIs(base.Type(), "route.Target") {
			return name != "RedirectURL"
		}
		v = base
	}
	return false
}

// c13requestField: v is (the address of / a load of) a field of an http.Request - per-request by type.
func c13requestField(v ssa.Value) bool {
	if u, ok := v.(*ssa.UnOp); ok && u.Op == token.MUL {
		v = u.X
	}
	switch x := v.(type) {
	case *ssa.FieldAddr:
		return namedIs(x.X.Type(), "http.Request")
	case *ssa.Field:
		return namedIs(x.X.Type(), "http.Request")
	}
	return false
}

func runC13P1(c *Ctx) {
	bi := c13findBuildersFor(c, true)
	if len(bi.fns) == 0 {
		c.undecided("C13.P1", "anchor|location builder", "no function of package route has a *url.URL (or *http.Request) parameter from which a \"$path\" substitution derives: the builder of the redirect location does not resolve")
		return
	}
	isReq := func(x ssa.Value) bool { return bi.isParam(x) || c13requestField(x) }
	fromReq := func(v ssa.Value) bool { return !c13configField(v) && derives(v, isReq) }
	reg := c.region(bi.fns...)
	nPath, nHost := 0, 0
	eachInstrOf(reg, func(f *ssa.Function, i ssa.Instruction) {
		cc := callCommon(i)
		if cc == nil {
			return
		}
		old, repl, ok := c13subst(cc)
		if !ok {
			return
		}
		switch old {
		case "$path":
			nPath++
			c.check("C13.P1", "route.(*Target).BuildRedirectURL|$path replaced by the request path", i.Pos(), fromReq(repl),
				"the $path replacement must derive from the requestURL parameter (this request's path), not from state of the shared target")
		case "$host":
			nHost++
			c.check("C13.P1", "route.(*Target).BuildRedirectURL|$host replaced by the request host", i.Pos(), fromReq(repl),
				"the $host replacement must derive from the requestURL parameter (this request's host)")
		}
	})
	c.atLeast("C13.P1", "$path replacements", nPath, 1)
	c.atLeast("C13.P1", "$host replacements", nHost, 1)

	// prepend: PrependPath is put in front of a request-derived path
	isPrependConcat := func(x ssa.Value) bool {
		bo, ok := x.(*ssa.BinOp)
		return ok && bo.Op == token.ADD && c13targetFieldVal(bo.X, "PrependPath")
	}
	nPre := 0
	eachInstrOf(reg, func(f *ssa.Function, i ssa.Instruction) {
		bo, ok := i.(*ssa.BinOp)
		if !ok || !isPrependConcat(bo) {
			return
		}
		nPre++
		c.check("C13.P1", "route.(*Target).BuildRedirectURL|prepend applied to the request path", bo.Pos(), fromReq(bo.Y), "PrependPath must be put in front of this request's (stripped) path")
	})
	c.atLeast("C13.P1", "PrependPath concatenations", nPre, 1)
	// strip before prepend: the strip operation (a slice from len(StripPath), or strings.TrimPrefix/CutPrefix with
	// StripPath) is never applied to a value that already carries the prepend path
	isStripPath := func(x ssa.Value) bool { return c13targetFieldVal(x, "StripPath") }
	nStrip := 0
	eachInstrOf(reg, func(f *ssa.Function, i ssa.Instruction) {
		var operand ssa.Value
		switch x := i.(type) {
		case *ssa.Slice:
			if x.Low != nil && derives(x.Low, isStripPath) {
				operand = x.X
			}
		case *ssa.Call:
			n := calleeName(&x.Call)
			if (n == "strings.TrimPrefix" || n == "strings.CutPrefix") && len(x.Call.Args) == 2 && derives(x.Call.Args[1], isStripPath) {
				operand = x.Call.Args[0]
			}
		}
		if operand == nil {
			return
		}
		nStrip++
		c.check("C13.P1", "route.(*Target).BuildRedirectURL|strip before prepend", i.Pos(), !derives(operand, isPrependConcat),
			"the strip prefix must be removed before the prepend path is added (documented order)")
		c.check("C13.P1", "route.(*Target).BuildRedirectURL|strip applied to the request path", i.Pos(), fromReq(operand),
			"StripPath must be removed from this request's path")
	})
	c.atLeast("C13.P1", "strip operations (slice from len(StripPath) / strings.TrimPrefix)", nStrip, 1)

	// query: a request-derived RawQuery reaches the location only where the template's own query is known to be empty
	isTemplate := func(x ssa.Value) bool { return c13targetField(x, "URL") || c13targetField(x, "RedirectURL") }
	templateQueryEmpty := func(blk *ssa.BasicBlock, loc ssa.Value) bool {
		for _, f := range c13factsAt(blk) {
			x, ok := c13emptyFact(f)
			if !ok {
				continue
			}
			base, isQ := fieldOf(x, "url.URL", "RawQuery")
			if !isQ {
				continue
			}
			// the query of the location being built (same object as the one stored to), or of the target's template
			if (loc != nil && (base == loc || accessPath(base) == accessPath(loc))) || (!isReq(base) && derives(base, isTemplate)) {
				return true
			}
		}
		return false
	}
	// the location under construction: the url.URL that receives the result of a $path / $host substitution (or is
	// Target.RedirectURL / stored there) — a field-wise copy of the request URL made on the way is not it
	var locVals []ssa.Value
	locPaths := map[string]bool{}
	eachInstrOf(reg, func(f *ssa.Function, i ssa.Instruction) {
		st, ok := i.(*ssa.Store)
		if !ok {
			return
		}
		fa, ok := st.Addr.(*ssa.FieldAddr)
		if !ok || !namedIs(fa.X.Type(), "url.URL") {
			return
		}
		// ... directly, as one component of the helper's results, or through a local that carries it there
		if derives(st.Val, c13isSubstCall) {
			locVals = append(locVals, fa.X)
			locPaths[accessPath(fa.X)] = true
		}
	})
	isLocObj := func(x ssa.Value) bool {
		for _, a := range c13args(x, 0) {
			if c13isLocation(a) || locPaths[accessPath(a)] {
				return true
			}
			for _, l := range locVals {
				if l == a {
					return true
				}
			}
		}
		return false
	}
	nQ := 0
	eachInstrOf(reg, func(f *ssa.Function, i ssa.Instruction) {
		st, ok := i.(*ssa.Store)
		if !ok {
			return
		}
		fa, ok := st.Addr.(*ssa.FieldAddr)
		if !ok || !namedIs(fa.X.Type(), "url.URL") || fieldName(fa.X.Type(), fa.Field) != "RawQuery" || !fromReq(st.Val) || !isLocObj(fa.X) {
			return
		}
		nQ++
		guard := templateQueryEmpty(st.Block(), fa.X)
		if phi, isPhi := st.Val.(*ssa.Phi); isPhi && !guard {
			// `q := template query; if q == "" { q = request query }; u.RawQuery = q`: every request-derived edge is guarded
			guard = true
			for k, e := range phi.Edges {
				if fromReq(e) && !templateQueryEmpty(phi.Block().Preds[k], nil) {
					guard = false
				}
			}
		}
		c.check("C13.P1", "route.(*Target).BuildRedirectURL|request query only when the target has none", st.Pos(), guard,
			"the request's query may replace the location's query only on the edge where the target URL has no query of its own")
	})
	c.atLeast("C13.P1", "request-derived RawQuery stores", nQ, 1)
}

// c13onRedirectURL: v is read from the location built for the request (a field of, or a url.URL method on, Target.RedirectURL).
func c13onRedirectURL(v ssa.Value) bool {
	isRU := c13isLocation
	if call, ok := v.(*ssa.Call); ok && !call.Call.IsInvoke() && strings.HasPrefix(calleeName(&call.Call), "(*net/url.URL).") && len(call.Call.Args) > 0 {
		return derives(call.Call.Args[0], isRU)
	}
	return derives(v, isRU)
}

// c13selfFacts: what block b knows about "the location equals the request": which of scheme / host:port / path are
// known equal, whether any comparison of the location is known equal (any) or known different (neg).
type c13self struct{ scheme, host, path, any, neg bool }

// c13args: a helper's parameter stands for what its static callers pass.
func c13args(v ssa.Value, depth int) []ssa.Value {
	p, ok := v.(*ssa.Parameter)
	if !ok || depth > 2 || p.Parent() == nil {
		return []ssa.Value{v}
	}
	fn := p.Parent()
	sites := gSites[fn]
	if len(sites) == 0 || !onlyStaticallyCalled(fn) {
		return []ssa.Value{v}
	}
	idx := -1
	for k, q := range fn.Params {
		if q == p {
			idx = k
		}
	}
	var out []ssa.Value
	for _, s := range sites {
		if cc := s.Common(); idx >= 0 && idx < len(cc.Args) {
			out = append(out, c13args(cc.Args[idx], depth+1)...)
		}
	}
	if len(out) == 0 {
		return []ssa.Value{v}
	}
	return out
}

// c13isSubstCall: v is the result of a $path / $host substitution.
func c13isSubstCall(v ssa.Value) bool {
	call, ok := v.(*ssa.Call)
	if !ok {
		return false
	}
	_, _, isSubst := c13subst(&call.Call)
	return isSubst
}

func c13allArgs(v ssa.Value, pred func(ssa.Value) bool) bool {
	for _, a := range c13args(v, 0) {
		if !pred(a) {
			return false
		}
	}
	return true
}

// c13selfFactsIn prepares the recogniser for a region (the functions reachable from Table.Lookup).
func c13selfFactsIn(reg []*ssa.Function) func(facts []Fact) c13self {
	fx := func(v ssa.Value, typ, field string) bool { _, ok := fieldOf(v, typ, field); return ok }
	// req.URL.Host stands for req.Host once the region has assigned `req.URL.Host = req.Host`
	urlHostIsReqHost := false
	eachInstrOf(reg, func(f *ssa.Function, i ssa.Instruction) {
		if st, ok := i.(*ssa.Store); ok && fx(st.Addr, "url.URL", "Host") && c13allArgs(st.Val, func(a ssa.Value) bool { return fx(a, "http.Request", "Host") }) {
			if derives(st.Addr, func(x ssa.Value) bool { return fx(x, "http.Request", "URL") }) {
				urlHostIsReqHost = true
			}
		}
	})
	isReqHost := func(v ssa.Value) bool {
		return c13allArgs(v, func(a ssa.Value) bool {
			if fx(a, "http.Request", "Host") {
				return true
			}
			return urlHostIsReqHost && fx(a, "url.URL", "Host") && !c13onRedirectURL(a) && derives(a, func(x ssa.Value) bool { return fx(x, "http.Request", "URL") })
		})
	}
	isReqPath := func(v ssa.Value) bool {
		return c13allArgs(v, func(a ssa.Value) bool { return fx(a, "url.URL", "Path") && !c13onRedirectURL(a) })
	}
	return func(facts []Fact) c13self {
		var r c13self
		for _, ft := range facts {
			if x, y, ok := c13neFact(ft); ok && !isNilConst(x) && !isNilConst(y) && (c13onRedirectURL(x) || c13onRedirectURL(y)) {
				r.neg = true
				continue
			}
			x, y, ok := c13eqFact(ft)
			if !ok || isNilConst(x) || isNilConst(y) {
				continue
			}
			if !c13onRedirectURL(x) {
				x, y = y, x
			}
			if !c13onRedirectURL(x) {
				continue
			}
			r.any = true
			switch {
			case fx(x, "url.URL", "Scheme"):
				r.scheme = true
			case fx(x, "url.URL", "Host") && isReqHost(y):
				r.host = true
			case fx(x, "url.URL", "Path") && isReqPath(y):
				r.path = true
			}
		}
		return r
	}
}

// c13skipOutcome: where a block that knows "self-redirect" hands its result on. It follows unconditional jumps and
// reports the value that reaches the function's return, or the loop-carried *Target variables when the block continues
// a loop. ok=false when the block branches again (it is not the end of the comparison chain).
type c13outcome struct {
	at         ssa.Instruction
	vals       []ssa.Value // values that must be nil
	isLoop     bool
	from, head *ssa.BasicBlock // isLoop: the back edge
}

func c13skipOutcome(b, first *ssa.BasicBlock) (c13outcome, bool) {
	env := map[*ssa.Phi]ssa.Value{}
	resolve := func(v ssa.Value) ssa.Value {
		if phi, ok := v.(*ssa.Phi); ok {
			if r, ok := env[phi]; ok {
				return r
			}
		}
		return v
	}
	// pass from cur to next: bind next's phis; a back edge ends the walk
	pass := func(cur, next *ssa.BasicBlock, at ssa.Instruction) (c13outcome, bool) {
		idx := -1
		for k, p := range next.Preds {
			if p == cur {
				idx = k
			}
		}
		var phis []*ssa.Phi
		newEnv := map[*ssa.Phi]ssa.Value{}
		for _, in := range next.Instrs {
			if phi, ok := in.(*ssa.Phi); ok && idx >= 0 {
				newEnv[phi] = resolve(phi.Edges[idx])
				phis = append(phis, phi)
			}
		}
		for k, v := range newEnv {
			env[k] = v
		}
		if next.Dominates(b) { // back edge: the loop goes on with the next candidate
			var vals []ssa.Value
			var pos ssa.Instruction = at
			for _, phi := range phis {
				if namedIs(phi.Type(), "route.Target") {
					vals = append(vals, env[phi])
					pos = phi
				}
			}
			return c13outcome{at: pos, vals: vals, isLoop: true, from: cur, head: next}, true
		}
		return c13outcome{}, false
	}
	cur := b
	if first != nil {
		if oc, end := pass(b, first, b.Instrs[len(b.Instrs)-1]); end {
			return oc, true // a loop that carries no *Target along hands nothing on: the skip is complete
		}
		cur = first
	}
	for step := 0; step < 8; step++ {
		if len(cur.Instrs) == 0 {
			return c13outcome{}, false
		}
		switch term := cur.Instrs[len(cur.Instrs)-1].(type) {
		case *ssa.Return:
			var vals []ssa.Value
			for _, r := range term.Results {
				if namedIs(r.Type(), "route.Target") {
					vals = append(vals, resolve(r))
				}
			}
			return c13outcome{at: term, vals: vals}, len(vals) > 0
		case *ssa.Jump:
			next := cur.Succs[0]
			if oc, end := pass(cur, next, term); end {
				return oc, true
			}
			cur = next
		default:
			return c13outcome{}, false
		}
	}
	return c13outcome{}, false
}

// c13skipPoint: a place that knows "the location points back at the request" and hands its result on.
type c13skipPoint struct {
	sf     c13self
	oc     c13outcome
	allNil bool
}

// c13skipPoints finds them in a region: blocks whose facts say so, and branch edges into a merge block (a guard
// whose body was empty, `if same { continue }`) whose edge condition says so.
func c13skipPoints(reg []*ssa.Function) []c13skipPoint {
	selfFacts := c13selfFactsIn(reg)
	var out []c13skipPoint
	for _, f := range reg {
		for _, b := range f.Blocks {
			if len(b.Instrs) == 0 {
				continue
			}
			if _, isIf := b.Instrs[len(b.Instrs)-1].(*ssa.If); isIf {
				for _, s := range b.Succs {
					if len(s.Preds) < 2 || b.Succs[0] == b.Succs[1] {
						continue
					}
					facts := c13edgeFacts(b, s)
					sf := selfFacts(facts)
					if !sf.any || sf.neg {
						continue
					}
					oc, ok := c13skipOutcome(b, s)
					if !ok {
						continue
					}
					allNil := true
					for _, v := range oc.vals {
						if !c13nilOnEdge(v, b, s) {
							allNil = false
						}
					}
					out = append(out, c13skipPoint{sf, oc, allNil})
				}
				continue
			}
			sf := selfFacts(c13factsAt(b))
			if !sf.any || sf.neg {
				continue
			}
			oc, ok := c13skipOutcome(b, nil)
			if !ok {
				continue
			}
			allNil := true
			for _, v := range oc.vals {
				if !c13nilAt(v, b) {
					allNil = false
				}
			}
			out = append(out, c13skipPoint{sf, oc, allNil})
		}
	}
	return out
}

func c13nilAt(v ssa.Value, b *ssa.BasicBlock) bool {
	if isNilConst(v) {
		return true
	}
	for _, f := range c13factsAt(b) {
		if nn, ok := nilFact(f, sameVal(v)); ok && !nn {
			return true
		}
	}
	return false
}

// c13edgeFacts: what is known on the edge from -> to: the facts at from plus the branch condition of the edge itself.
func c13edgeFacts(from, to *ssa.BasicBlock) []Fact {
	out := factsAt(from)
	if len(from.Instrs) > 0 && len(from.Succs) == 2 && from.Succs[0] != from.Succs[1] {
		if iff, ok := from.Instrs[len(from.Instrs)-1].(*ssa.If); ok {
			cond, truth := iff.Cond, from.Succs[0] == to
			for {
				u, isNot := cond.(*ssa.UnOp)
				if !isNot || u.Op != token.NOT {
					break
				}
				cond, truth = u.X, !truth
			}
			out = append(out, Fact{cond, truth})
		}
	}
	return c13expandFacts(out, 0)
}

// c13nilOnEdge: v is nil whenever control passes from -> to.
func c13nilOnEdge(v ssa.Value, from, to *ssa.BasicBlock) bool {
	if isNilConst(v) {
		return true
	}
	for _, f := range c13edgeFacts(from, to) {
		if nn, ok := nilFact(f, sameVal(v)); ok && !nn {
			return true
		}
	}
	return false
}

const c13skipDetail = "on the self-redirect skip edge (continue with the next host) the result variable must be cleared; otherwise, when no later host matches (always for a host-less redirect route, \"\" is tried last), the skipped redirect is returned and the client is redirected to the same URL forever"

func runC13L1(c *Ctx) {
	lk := c.method("route", "Table", "Lookup")
	if !c.need("C13.L1", lk, "route.Table.Lookup") {
		return
	}
	reg := c.region(lk)
	n := 0
	type pk struct {
		b   *ssa.BasicBlock
		phi *ssa.Phi
	}
	done := map[pk]bool{}
	// (i) the place that knows "the location points back at the request" hands on nil
	for _, sp := range c13skipPoints(reg) {
		n++
		if sp.oc.isLoop {
			for _, in := range sp.oc.head.Instrs {
				if phi, isPhi := in.(*ssa.Phi); isPhi {
					done[pk{sp.oc.from, phi}] = true
				}
			}
		}
		c.check("C13.L1", "(route.Table).Lookup|skipped self-redirect leaves no result", sp.oc.at.Pos(), sp.allNil, c13skipDetail)
	}
	// (ii) an iteration that found a redirect target and goes on with the next host carries no target along
	for _, f := range reg {
		for _, l := range loopsOf(f) {
			for _, in := range l.Head.Instrs {
				phi, ok := in.(*ssa.Phi)
				if !ok || !namedIs(phi.Type(), "route.Target") {
					continue
				}
				for k, e := range phi.Edges {
					pred := l.Head.Preds[k]
					if !l.Body[pred] || !c13redirectFact(c13edgeFacts(pred, l.Head)) || done[pk{pred, phi}] {
						continue
					}
					n++
					c.check("C13.L1", "(route.Table).Lookup|skipped self-redirect leaves no result", phi.Pos(), c13nilOnEdge(e, pred, l.Head), c13skipDetail)
				}
			}
		}
	}
	c.atLeast("C13.L1", "self-redirect skip edges in Table.Lookup", n, 1)
}
