package main

// Rules added after the third round of independently authored breaking changes (DESIGN 11.10). Each states a clause
// the earlier rule set did not forbid; all find their sites by role. Wired to their properties in zzz_round3.go.

import (
	"go/token"
	"go/types"
	"strings"

	"golang.org/x/tools/go/ssa"
)

// ---- shared small engines ---------------------------------------------------------------------------------------

// edgeFacts: the conditions that hold when control goes from pred to succ: the facts at pred plus the outcome of
// pred's own branch.
func edgeFacts(pred, succ *ssa.BasicBlock) []Fact {
	out := factsAt(pred)
	if len(pred.Instrs) == 0 || len(pred.Succs) != 2 || pred.Succs[0] == pred.Succs[1] {
		return out
	}
	if iff, ok := pred.Instrs[len(pred.Instrs)-1].(*ssa.If); ok {
		out = appendCondFacts(out, iff.Cond, pred.Succs[0] == succ, 0)
	}
	return out
}

// valueLeaves: the values an expression can take, expanded through merges, local cells and the results of repository
// helpers (all returns; result index respected for tuples). Bounded; unknown shapes are leaves themselves.
func valueLeaves(v ssa.Value) []ssa.Value {
	var out []ssa.Value
	seen := map[ssa.Value]bool{}
	var walk func(x ssa.Value, d int)
	walk = func(x ssa.Value, d int) {
		if x == nil || seen[x] {
			return
		}
		seen[x] = true
		if d > 10 {
			out = append(out, x)
			return
		}
		switch y := x.(type) {
		case *ssa.Phi:
			for _, e := range y.Edges {
				walk(e, d+1)
			}
			return
		case *ssa.UnOp:
			if y.Op == token.MUL {
				if a, ok := y.X.(*ssa.Alloc); ok {
					n := 0
					for _, r := range *a.Referrers() {
						if st, ok := r.(*ssa.Store); ok && st.Addr == a {
							walk(st.Val, d+1)
							n++
						}
					}
					if n > 0 {
						return
					}
				}
			}
		case *ssa.Extract:
			if call, ok := y.Tuple.(*ssa.Call); ok {
				if sc := call.Call.StaticCallee(); sc != nil && isRepoFn(sc) && len(sc.Blocks) > 0 {
					eachInstr(sc, func(i ssa.Instruction) {
						if r, ok := i.(*ssa.Return); ok && y.Index < len(r.Results) {
							walk(r.Results[y.Index], d+1)
						}
					})
					return
				}
			}
		case *ssa.Call:
			if sc := y.Call.StaticCallee(); sc != nil && isRepoFn(sc) && len(sc.Blocks) > 0 && sc.Signature.Results().Len() == 1 {
				eachInstr(sc, func(i ssa.Instruction) {
					if r, ok := i.(*ssa.Return); ok && len(r.Results) == 1 {
						walk(r.Results[0], d+1)
					}
				})
				return
			}
		}
		out = append(out, x)
	}
	walk(v, 0)
	return out
}

// int64LowerBound: a lower bound of an integer (duration) value at the point where it is used in block at: constants,
// merges (per incoming edge), and comparisons with constants among the dominating / edge facts.
func int64LowerBound(v ssa.Value, facts []Fact, depth int) (int64, bool) {
	if k, ok := constInt(v); ok {
		return k, true
	}
	if depth > 6 {
		return 0, false
	}
	best, have := int64(0), false
	same := samePath(v)
	for _, f := range facts {
		b, ok := f.Cond.(*ssa.BinOp)
		if !ok {
			continue
		}
		x, y, op := b.X, b.Y, b.Op
		if k, isK := constInt(x); isK && !same(x) {
			// k op v  ->  v op' k
			_ = k
			x, y = y, x
			switch op {
			case token.LSS:
				op = token.GTR
			case token.GTR:
				op = token.LSS
			case token.LEQ:
				op = token.GEQ
			case token.GEQ:
				op = token.LEQ
			}
		}
		k, isK := constInt(y)
		if !isK || !(x == v || same(x)) {
			continue
		}
		if !f.Truth {
			switch op {
			case token.LSS:
				op = token.GEQ
			case token.LEQ:
				op = token.GTR
			case token.GTR:
				op = token.LEQ
			case token.GEQ:
				op = token.LSS
			case token.EQL:
				op = token.NEQ
			case token.NEQ:
				op = token.EQL
			}
		}
		lb, ok2 := int64(0), false
		switch op {
		case token.GEQ, token.EQL:
			lb, ok2 = k, true
		case token.GTR:
			lb, ok2 = k+1, true
		}
		if ok2 && (!have || lb > best) {
			best, have = lb, true
		}
	}
	if have {
		return best, true
	}
	if p, ok := v.(*ssa.Parameter); ok && p.Parent() != nil {
		fn := p.Parent()
		sites := gSites[fn]
		if len(sites) > 0 && len(sites) <= maxHelperSites && onlyStaticallyCalled(fn) {
			idx := -1
			for k, q := range fn.Params {
				if q == p {
					idx = k
				}
			}
			lo, all := int64(0), true
			for k, s := range sites {
				args := s.Common().Args
				if idx < 0 || idx >= len(args) || s.Block() == nil {
					all = false
					break
				}
				l, ok := int64LowerBound(args[idx], factsAt(s.Block()), depth+1)
				if !ok {
					all = false
					break
				}
				if k == 0 || l < lo {
					lo = l
				}
			}
			if all {
				return lo, true
			}
		}
	}
	if phi, ok := v.(*ssa.Phi); ok {
		lo, all := int64(0), true
		for k, e := range phi.Edges {
			if e == phi {
				continue
			}
			pred := phi.Block().Preds[k]
			l, ok := int64LowerBound(e, edgeFacts(pred, phi.Block()), depth+1)
			if !ok {
				all = false
				break
			}
			if k == 0 || l < lo {
				lo = l
			}
		}
		if all && len(phi.Edges) > 0 {
			return lo, true
		}
	}
	return 0, false
}

// ---- C01.W4: a changed value of the manual configuration is published whatever the index does -------------------

func runC01W4(c *Ctx) {
	n := 0
	for _, f := range c.fnsWhere("registry/consul", func(*ssa.Function) bool { return true }) {
		for _, l := range condLessLoops(f) {
			// the send of a text in this loop, and the Consul KV query it derives from: a wrapper around a blocking query
			// (found by role) or the api call itself
			var query *ssa.Call
			var send *ssa.Send
			isKVQuery := func(call *ssa.Call) bool {
				if _, isQ := blockingQueryParam(call.Call.StaticCallee()); isQ {
					return true
				}
				n := calleeName(&call.Call)
				if strings.HasPrefix(n, "(*"+apiPkg+".KV).") {
					return true
				}
				if sc := call.Call.StaticCallee(); sc != nil && isRepoFn(sc) {
					return mayExec(unwrap(sc), func(j ssa.Instruction) bool {
						jc := callCommon(j)
						return jc != nil && strings.HasPrefix(calleeName(jc), "(*"+apiPkg+".KV).")
					}, 0)
				}
				return false
			}
			for b := range l.Body {
				for _, in := range b.Instrs {
					s, ok := in.(*ssa.Send)
					if !ok {
						continue
					}
					bt, isB := s.X.Type().Underlying().(*types.Basic)
					if !isB || bt.Kind() != types.String {
						continue
					}
					for b2 := range l.Body {
						for _, in2 := range b2.Instrs {
							if call, ok := in2.(*ssa.Call); ok && isKVQuery(call) && derives(s.X, func(x ssa.Value) bool { return x == ssa.Value(call) }) {
								query, send = call, s
							}
						}
					}
				}
			}
			if query == nil || send == nil {
				continue
			}
			isText := func(v ssa.Value) bool {
				b, ok := v.Type().Underlying().(*types.Basic)
				return ok && b.Kind() == types.String && derives(v, func(x ssa.Value) bool { return x == ssa.Value(query) })
			}
			n++
			// from the query, the loop head must not be reachable without the send, except over the error edge and over
			// an edge on which the new text is known to equal the text published last (a loop-carried string)
			cut := func(pred, succ *ssa.BasicBlock) bool {
				for _, ft := range edgeFacts(pred, succ) {
					b, ok := ft.Cond.(*ssa.BinOp)
					if !ok {
						continue
					}
					// err != nil
					if (b.Op == token.NEQ && ft.Truth || b.Op == token.EQL && !ft.Truth) && (isNilConst(b.Y) || isNilConst(b.X)) {
						other := b.X
						if isNilConst(b.X) {
							other = b.Y
						}
						if derives(other, func(x ssa.Value) bool { return x == query }) {
							return true
						}
					}
					// text == last
					if (b.Op == token.EQL && ft.Truth || b.Op == token.NEQ && !ft.Truth) && (isText(b.X) || isText(b.Y)) {
						other := b.X
						if isText(b.X) {
							other = b.Y
						}
						if phi, ok := other.(*ssa.Phi); ok && phi.Block() == l.Head {
							return true
						}
					}
				}
				return false
			}
			skip := false
			type item struct {
				b   *ssa.BasicBlock
				idx int
			}
			seen := map[*ssa.BasicBlock]bool{}
			stack := []item{{query.Block(), instrIndex(query) + 1}}
			for len(stack) > 0 && !skip {
				it := stack[len(stack)-1]
				stack = stack[:len(stack)-1]
				blocked := false
				for k := it.idx; k < len(it.b.Instrs); k++ {
					if it.b.Instrs[k] == ssa.Instruction(send) {
						blocked = true
						break
					}
				}
				if blocked {
					continue
				}
				for _, sx := range it.b.Succs {
					if cut(it.b, sx) {
						continue
					}
					if sx == l.Head {
						skip = true
					} else if l.Body[sx] && !seen[sx] {
						seen[sx] = true
						stack = append(stack, item{sx, 0})
					}
				}
			}
			c.check("C01.W4", fnKey(f)+"|a changed manual configuration is always published", send.Pos(), !skip,
				"a reply of the KV watcher can be dropped although its text differs from the text published last (the only accepted skips are the error edge and 'text == last text'): when the Consul index does not advance the way the guard expects (snapshot restore, cluster rebuild: the index goes back) every later edit of the operator's overrides is discarded and the tables keep the stale commands")
		}
	}
	c.atLeast("C01.W4", "watch loops that publish the text of a blocking KV query", n, 1)
}

// ---- C06.S7: library objects that are not safe for concurrent use, shared between requests --------------------------

var notConcurrencySafe = map[string]string{
	"*math/rand.Rand":    "a *rand.Rand made by rand.New is not safe for concurrent use (the package-level functions are)",
	"*math/rand/v2.Rand": "a *rand.Rand is not safe for concurrent use",
	"*bytes.Buffer":      "a bytes.Buffer is not safe for concurrent use",
	"*strings.Builder":   "a strings.Builder is not safe for concurrent use",
}

func runC06S7(c *Ctx) {
	sa := newSharedAnalysis(c)
	n := 0
	for _, f := range c.AllFns {
		if !sa.reach[f] {
			continue
		}
		eachInstr(f, func(i ssa.Instruction) {
			cc := callCommon(i)
			if cc == nil || cc.IsInvoke() || len(cc.Args) == 0 {
				return
			}
			sc := cc.StaticCallee()
			if sc == nil || sc.Signature.Recv() == nil || isRepoFn(sc) {
				return
			}
			why, risky := notConcurrencySafe[typeStr(cc.Args[0].Type())]
			if !risky {
				return
			}
			// receiver held in a package-level variable (or a field of one)
			fromGlobal := derives(cc.Args[0], func(v ssa.Value) bool { _, ok := v.(*ssa.Global); return ok })
			if !fromGlobal {
				return
			}
			n++
			c.check("C06.S7", fnKey(f)+"|"+typeStr(cc.Args[0].Type())+" shared between requests used under a lock", i.Pos(), len(heldAt(i, true)) > 0,
				why+"; this one lives in a package-level variable and is used on the request path by every serving goroutine without a lock: a data race on its state (for rand.Rand also an index-out-of-range panic inside the lookup)")
		})
	}
	c.ob("C06.S7", "request path|no unsynchronised use of a shared non-concurrency-safe library object", token.NoPos, OK, "scanned the serving-reachable functions ("+itoa(n)+" guarded uses)")
}

// ---- C07.N2 / C07.W2 ------------------------------------------------------------------------------------------------

// runC07N2: the no-route answer is produced from ONE load of the page.
func runC07N2(c *Ctx) {
	serve := c.method("proxy", "HTTPProxy", "ServeHTTP")
	if serve == nil {
		return
	}
	// loaders of the page: functions of package noroute returning a string that derives from an atomic load
	isLoader := func(fn *ssa.Function) bool {
		if fn == nil || !isRepoFn(fn) || rootPkg(fn) != c.spkg("noroute") || fn.Signature.Results().Len() != 1 {
			return false
		}
		hit := false
		eachInstr(fn, func(i ssa.Instruction) {
			if kind, _, _, ok := atomicOp(callCommon(i)); ok && kind == "load" {
				hit = true
			}
		})
		return hit
	}
	n := 0
	for _, f := range c.region(serve) {
		var loads []ssa.Instruction
		eachInstr(f, func(i ssa.Instruction) {
			if cc := callCommon(i); cc != nil && isLoader(cc.StaticCallee()) {
				loads = append(loads, i)
			}
		})
		n += len(loads)
		for _, a := range loads {
			for _, b := range loads {
				if a != b && canReach(a, b) && a.Pos() < b.Pos() {
					c.check("C07.N2", fnKey(f)+"|no-route page loaded once per answer", b.Pos(), false,
						"the no-route page is loaded a second time on the same path: the page can be replaced between the two loads (watchNoRouteHTML), so what is announced from the first load (length, type) does not describe the bytes written from the second — the client gets a short or cut body instead of either configured page")
				}
			}
		}
	}
	c.atLeast("C07.N2", "loads of the no-route page on the request path", n, 1)
	c.ob("C07.N2", "proxy.(*HTTPProxy).ServeHTTP|one load of the no-route page per path", token.NoPos, OK, "checked "+itoa(n)+" load site(s)")
}

// runC07W2: optional-interface methods of response-writer wrappers (Flush) forward on every path on which the wrapped
// writer supports them.
func runC07W2(c *Ctx) {
	n := 0
	for _, f := range c.fnsWhere("proxy", func(fn *ssa.Function) bool {
		return fn.Signature.Recv() != nil && fn.Name() == "Flush" && fn.Signature.Params().Len() == 0
	}) {
		// the forwarding call: Flush on a value asserted from a field of the receiver
		var fwd []ssa.Instruction
		var assertOK ssa.Value
		eachInstr(f, func(i ssa.Instruction) {
			cc := callCommon(i)
			if cc != nil && cc.IsInvoke() && cc.Method.Name() == "Flush" {
				fwd = append(fwd, i)
			}
			if ta, ok := i.(*ssa.TypeAssert); ok && ta.CommaOk && strings.HasSuffix(typeStr(ta.AssertedType), "http.Flusher") {
				for _, r := range *ta.Referrers() {
					if ex, ok := r.(*ssa.Extract); ok && ex.Index == 1 {
						assertOK = ex
					}
				}
			}
		})
		if len(fwd) == 0 {
			continue
		}
		n++
		// every path from entry to a return passes the forwarding call, except over the edge "not a Flusher"
		open := false
		seen := map[*ssa.BasicBlock]bool{f.Blocks[0]: true}
		stack := []*ssa.BasicBlock{f.Blocks[0]}
		for len(stack) > 0 && !open {
			b := stack[len(stack)-1]
			stack = stack[:len(stack)-1]
			blocked := false
			for _, in := range b.Instrs {
				for _, w := range fwd {
					if in == w {
						blocked = true
					}
				}
				if blocked {
					break
				}
				if _, isRet := in.(*ssa.Return); isRet {
					open = true
				}
			}
			if blocked {
				continue
			}
			for _, s := range b.Succs {
				skipEdge := false
				if assertOK != nil && len(b.Instrs) > 0 {
					if iff, ok := b.Instrs[len(b.Instrs)-1].(*ssa.If); ok && iff.Cond == assertOK && b.Succs[1] == s {
						skipEdge = true // the wrapped writer cannot flush
					}
				}
				if !skipEdge && !seen[s] {
					seen[s] = true
					stack = append(stack, s)
				}
			}
		}
		c.check("C07.W2", fnKey(f)+"|Flush forwarded whenever the wrapped writer can flush", f.Pos(), !open,
			"the wrapper's Flush can return without flushing the wrapped writer: httputil.ReverseProxy relies on Flush after the body to force chunked framing when the upstream sent trailers it had not announced — with the flush swallowed (e.g. 'nothing written since the last flush') the response goes out with Content-Length and the upstream's trailer fields are lost")
	}
	c.atLeast("C07.W2", "Flush methods of response-writer wrappers in package proxy", n, 1)
}

// ---- C08.A4: the scheme put into X-Forwarded-Proto is never the empty constant -------------------------------------

func runC08A4(c *Ctx) {
	serve := c.method("proxy", "HTTPProxy", "ServeHTTP")
	if serve == nil {
		return
	}
	n := 0
	// the header writes of the request path, with keys resolved through helper parameters (a generic
	// setIfAbsent(h, key, value) is instantiated per call chain)
	for _, w := range c08writes(c08region(c, 6, serve)) {
		if w.key.kind != "const" || w.key.name != "X-Forwarded-Proto" || w.m == "Del" {
			continue
		}
		val, _ := w.val()
		if val == nil {
			continue
		}
		n++
		for _, leaf := range valueLeaves(val) {
			// a helper's value parameter: what its callers pass
			if p, ok := leaf.(*ssa.Parameter); ok {
				more := false
				for k, q := range p.Parent().Params {
					if q != p {
						continue
					}
					for _, s := range gSites[p.Parent()] {
						if args := s.Common().Args; k < len(args) {
							for _, l2 := range valueLeaves(args[k]) {
								if str, isK := constString(l2); isK && str == "" {
									more = true
								}
							}
						}
					}
				}
				if more {
					c.check("C08.A4", w.where()+"|X-Forwarded-Proto is never the empty text", w.instr.Pos(), false, "a caller passes the constant \"\" as the X-Forwarded-Proto value")
				}
				continue
			}
			s, isK := constString(leaf)
			c.check("C08.A4", w.where()+"|X-Forwarded-Proto is never the empty text", w.instr.Pos(), !(isK && s == ""),
				"one of the values the scheme detector can return is the constant \"\" (at "+c.pos(leaf.Pos())+"): when a client's Forwarded header carries no proto= parameter the scheme must fall back to the connection (TLS / websocket), not become empty — the upstream would receive 'X-Forwarded-Proto:' with no value on http, https and wss requests alike")
		}
	}
	c.atLeast("C08.A4", "writes of X-Forwarded-Proto", n, 1)
}

// ---- C09.B8: a buffer handed to a relay goroutine is not recycled by the function that started it ------------------

func runC09B8(c *Ctx) {
	n := 0
	for _, f := range c.fnsWhere("", func(fn *ssa.Function) bool {
		return rootPkg(fn) == c.spkg("proxy/tcp") || rootPkg(fn) == c.spkg("proxy")
	}) {
		var goArgs []ssa.Value
		eachInstr(f, func(i ssa.Instruction) {
			g, ok := i.(*ssa.Go)
			if !ok {
				return
			}
			for _, a := range g.Call.Args {
				if _, isSlice := a.Type().Underlying().(*types.Slice); isSlice {
					goArgs = append(goArgs, a)
				}
			}
			if mc, ok := g.Call.Value.(*ssa.MakeClosure); ok {
				for _, b := range mc.Bindings {
					goArgs = append(goArgs, b)
				}
			}
		})
		if len(goArgs) == 0 {
			continue
		}
		isPut := func(i ssa.Instruction) bool {
			cc := callCommon(i)
			return cc != nil && calleeName(cc) == "(*sync.Pool).Put"
		}
		eachInstr(f, func(i ssa.Instruction) {
			cc := callCommon(i)
			if cc == nil {
				return
			}
			var recycled []ssa.Value
			if isPut(i) && len(cc.Args) == 2 {
				recycled = append(recycled, stripIface(cc.Args[1]))
			} else if sc := cc.StaticCallee(); sc != nil && isRepoFn(sc) && mayExec(unwrap(sc), isPut, 1) {
				recycled = append(recycled, cc.Args...)
			}
			for _, r := range recycled {
				for _, g := range goArgs {
					shared := r == g || derives(g, func(v ssa.Value) bool { return v == r }) || derives(r, func(v ssa.Value) bool { return v == g })
					if shared {
						n++
						c.check("C09.B8", fnKey(f)+"|buffer of a running relay not recycled", i.Pos(), false,
							"a buffer handed to a copy goroutine is put back into a sync.Pool by the function that started the goroutine (deferred or not): the function returns when the FIRST direction finishes, the other copier is still reading into that buffer, and the next tunnel that takes it from the pool gets this connection's bytes written over its own — bytes of one client delivered into another tunnel")
					}
				}
			}
		})
	}
	c.ob("C09.B8", "proxy, proxy/tcp|relay buffers are not pooled across the relay's lifetime", token.NoPos, OK, "scanned go statements and sync.Pool.Put sites ("+itoa(n)+" shared)")
}

// ---- C11.L5 / C11.A3 -------------------------------------------------------------------------------------------------

// runC11L5: every computed time.Sleep in the watcher loops of package cert has a lower bound of at least 1ms.
func runC11L5(c *Ctx) {
	n := 0
	seen := map[ssa.Instruction]bool{}
	for _, f := range c.fnsWhere("cert", func(fn *ssa.Function) bool { return len(condLessLoops(fn)) > 0 }) {
		// the loop function and the helpers its iterations call (a step helper may do the sleeping)
		for _, g := range c.region(f) {
			eachInstr(g, func(in ssa.Instruction) {
				cc := callCommon(in)
				if cc == nil || calleeName(cc) != "time.Sleep" || len(cc.Args) != 1 || seen[in] {
					return
				}
				if _, isK := cc.Args[0].(*ssa.Const); isK {
					return
				}
				seen[in] = true
				n++
				lb, ok := int64LowerBound(cc.Args[0], factsAt(in.Block()), 0)
				c.check("C11.L5", fnKey(g)+"|retry sleep has a positive lower bound", in.Pos(), ok && lb >= 1000000,
					"the duration slept before the next load attempt has no proven lower bound of at least 1ms on every path that defines it (a clamp such as 'if refresh < time.Second { refresh = time.Second }' must cover every mode, also refresh <= 0 = load once): with a zero duration a source that keeps delivering unusable material is retried in a busy loop")
			})
		}
	}
	c.atLeast("C11.L5", "computed sleeps in the watcher loops of package cert", n, 1)
}

// runC11A3: nothing writes into the set that is currently published (its backing arrays are in use by handshakes).
func runC11A3(c *Ctx) {
	isHolderLoad := func(v ssa.Value) bool {
		call, ok := v.(*ssa.Call)
		if !ok {
			return false
		}
		kind, _, _, isAtomic := atomicOp(&call.Call)
		return isAtomic && kind == "load"
	}
	fromPublished := func(v ssa.Value) bool { return derives(v, isHolderLoad) }
	n := 0
	for _, f := range c.fnsWhere("cert", func(*ssa.Function) bool { return true }) {
		eachInstr(f, func(i ssa.Instruction) {
			var target ssa.Value
			what := ""
			switch x := i.(type) {
			case *ssa.Store:
				if _, isAlloc := x.Addr.(*ssa.Alloc); isAlloc {
					return
				}
				if _, isGlobal := x.Addr.(*ssa.Global); isGlobal {
					return
				}
				target, what = x.Addr, "a store"
			case *ssa.MapUpdate:
				target, what = x.Map, "a map update"
			case *ssa.Call:
				name := calleeName(&x.Call)
				switch {
				case name == "builtin.append" && len(x.Call.Args) == 2:
					// append(published[:k], ...) reuses the published backing array
					if sl, ok := x.Call.Args[0].(*ssa.Slice); ok && sl.High != nil {
						target, what = sl.X, "append onto a truncated slice of it (reuses its backing array)"
					}
				case mutatingExternal[name] && len(x.Call.Args) > 0:
					target, what = mutatedArg(&x.Call), "a call of "+name
				}
			}
			if target == nil {
				return
			}
			n++
			c.check("C11.A3", fnKey(f)+"|no write into the published certificate set", i.Pos(), !fromPublished(target),
				what+" targets memory of the set obtained from the atomic holder: handshakes in flight hold that snapshot (and pointers into its certificate slice); overwriting it in place makes a handshake see certificates of two sets — a mixture, e.g. the certificate of another host")
		})
	}
	c.ob("C11.A3", "cert|published sets are immutable", token.NoPos, OK, "scanned "+itoa(n)+" writes in package cert")
}

// ---- C12.F4: an unparsable peer address is denied, not skipped ------------------------------------------------------

func runC12F4(c *Ctx) {
	gate := c.method("route", "Target", "AccessDeniedHTTP")
	if gate == nil {
		return
	}
	reg := c.region(gate)
	// the decision function: bool result, a net.IP parameter
	isDecision := func(fn *ssa.Function) bool {
		if fn == nil || !isRepoFn(fn) || fn.Signature.Results().Len() != 1 || typeStr(fn.Signature.Results().At(0).Type()) != "bool" {
			return false
		}
		for _, p := range fn.Params {
			if typeStr(p.Type()) == "net.IP" {
				return true
			}
		}
		return false
	}
	fromPeer := func(v ssa.Value) bool {
		return derives(v, func(x ssa.Value) bool {
			if _, ok := fieldOf(x, "net/http.Request", "RemoteAddr"); ok {
				return true
			}
			return false
		})
	}
	n := 0
	for _, f := range reg {
		eachInstr(f, func(i ssa.Instruction) {
			call, ok := i.(*ssa.Call)
			if !ok || calleeName(&call.Call) != "net.ParseIP" || len(call.Call.Args) != 1 || !fromPeer(call.Call.Args[0]) {
				return
			}
			n++
			isConsult := func(j ssa.Instruction) bool {
				cc := callCommon(j)
				return cc != nil && isDecision(cc.StaticCallee())
			}
			// a return of the constant true (denied) also ends the obligation
			ret, open := exitReachableAvoiding(call, func(j ssa.Instruction) bool {
				if isConsult(j) {
					return true
				}
				if r, ok := j.(*ssa.Return); ok && len(r.Results) == 1 {
					if k, isK := constBool(r.Results[0]); isK && k {
						return true
					}
				}
				return false
			})
			pos := call.Pos()
			if ret != nil {
				pos = ret.Pos()
			}
			c.check("C12.F4", fnKey(f)+"|peer address: unparsable means denied", pos, !open,
				"after parsing the PEER address (RemoteAddr) the function can return 'not denied' without consulting the access decision: an address net.ParseIP rejects (a zone-scoped IPv6 peer such as fe80::1%eth0) must reach the decision as a nil IP, which denies — skipping unparsable text is only acceptable for the elements of X-Forwarded-For")
		})
	}
	c.atLeast("C12.F4", "ParseIP of the peer address in the HTTP gate", n, 1)
}

// ---- C14.W2 / C14.U1 -------------------------------------------------------------------------------------------------

// runC14W2: the weight of a command is the text the service registered, not a re-rendered number.
func runC14W2(c *Ctx) {
	n := 0
	for _, f := range c.fnsWhere("registry/consul", func(fn *ssa.Function) bool {
		hit := false
		eachInstr(fn, func(i ssa.Instruction) {
			for _, op := range i.Operands(nil) {
				if op != nil && *op != nil {
					if s, ok := constString(*op); ok && strings.HasPrefix(s, "route add") {
						hit = true
					}
				}
			}
		})
		return hit
	}) {
		n++
		eachInstr(f, func(i ssa.Instruction) {
			call, ok := i.(*ssa.Call)
			if !ok {
				return
			}
			name := calleeName(&call.Call)
			if name != "strconv.ParseFloat" && name != "strconv.Atoi" && name != "strconv.ParseInt" {
				return
			}
			// the parsed number flows into text (concatenation, Sprintf, FormatFloat)
			reaches := false
			eachInstr(f, func(j ssa.Instruction) {
				cc := callCommon(j)
				if cc == nil {
					return
				}
				jn := calleeName(cc)
				if strings.HasPrefix(jn, "fmt.Sprint") || strings.HasPrefix(jn, "strconv.Format") || jn == "strconv.Itoa" {
					for _, a := range cc.Args {
						for _, e := range append(c01Variadic(a), a) {
							if derives(e, func(v ssa.Value) bool { return v == ssa.Value(call) }) {
								reaches = true
							}
						}
					}
				}
			})
			c.check("C14.W2", fnKey(f)+"|registered numbers are copied, not re-rendered", i.Pos(), !reaches,
				"a number parsed from the registration ("+name+") is formatted back into the command text: the command then denotes the rounded value, not the registered one (weight=0.00004 rendered with %.4f becomes 'weight 0.0000', i.e. NO fixed weight: the canary gets an equal share) — copy the option's text and let fabio's own parser judge it")
		})
	}
	c.atLeast("C14.W2", "generators of route add commands", n, 1)
}

// runC14U1: between rebuilding the candidate text and parsing it, the update loop skips only for unchanged text.
func runC14U1(c *Ctx) {
	n := 0
	for _, f := range c.fnsWhere("main", func(*ssa.Function) bool { return true }) {
		for _, l := range loopsOf(f) {
			// the parse of the candidate: a call (direct or via a helper) that reaches route.NewTable, inside the loop
			isParse := func(i ssa.Instruction) bool {
				cc := callCommon(i)
				return cc != nil && cc.StaticCallee() != nil && funcName(cc.StaticCallee()) == repoMod+"/route.NewTable"
			}
			var parse ssa.Instruction
			var sel *ssa.Select
			for b := range l.Body {
				for _, in := range b.Instrs {
					if liftMay(isParse)(in) {
						if _, isGo := in.(*ssa.Go); !isGo {
							parse = in
						}
					}
					if s, ok := in.(*ssa.Select); ok && len(s.States) >= 2 {
						sel = s
					}
				}
			}
			if parse == nil || sel == nil {
				continue
			}
			n++
			// from the select, the loop head is not reachable without the parse, except over an edge "candidate == last"
			cut := func(pred, succ *ssa.BasicBlock) bool {
				if len(pred.Instrs) == 0 || len(pred.Succs) != 2 {
					return false
				}
				iff, ok := pred.Instrs[len(pred.Instrs)-1].(*ssa.If)
				if !ok {
					return false
				}
				truth := pred.Succs[0] == succ
				for _, ft := range appendCondFacts(nil, iff.Cond, truth, 0) {
					b, ok := ft.Cond.(*ssa.BinOp)
					if !ok {
						// a verdict helper: equal(a, b) on strings
						continue
					}
					isStr := func(v ssa.Value) bool {
						bt, ok := v.Type().Underlying().(*types.Basic)
						return ok && bt.Kind() == types.String
					}
					if isStr(b.X) && isStr(b.Y) && (b.Op == token.EQL && ft.Truth || b.Op == token.NEQ && !ft.Truth) {
						if _, isK := b.X.(*ssa.Const); isK {
							continue
						}
						if _, isK := b.Y.(*ssa.Const); isK {
							continue
						}
						return true
					}
				}
				return false
			}
			skipAt := token.NoPos
			type item struct {
				b   *ssa.BasicBlock
				idx int
			}
			seen := map[*ssa.BasicBlock]bool{}
			stack := []item{{sel.Block(), instrIndex(sel) + 1}}
			for len(stack) > 0 && skipAt == token.NoPos {
				it := stack[len(stack)-1]
				stack = stack[:len(stack)-1]
				blocked := false
				for k := it.idx; k < len(it.b.Instrs); k++ {
					if it.b.Instrs[k] == parse {
						blocked = true
						break
					}
				}
				if blocked {
					continue
				}
				for _, sx := range it.b.Succs {
					if cut(it.b, sx) {
						continue
					}
					if sx == l.Head {
						skipAt = sel.Pos()
						for k := len(it.b.Instrs) - 1; k >= 0; k-- {
							if it.b.Instrs[k].Pos().IsValid() {
								skipAt = it.b.Instrs[k].Pos()
								break
							}
						}
					} else if l.Body[sx] && !seen[sx] {
						seen[sx] = true
						stack = append(stack, item{sx, 0})
					}
				}
			}
			c.check("C14.U1", fnKey(f)+"|a changed configuration is always parsed", skipAt, skipAt == token.NoPos,
				"an update of the registry can return to the select without the new text being handed to route.NewTable although it differs from the last installed text: a failure of some side activity (registering aliases, logging, metrics) must not block table updates — one service's odd registration would freeze the routes of all services")
		}
	}
	c.atLeast("C14.U1", "update loops of package main that parse the candidate text", n, 1)
}

// ---- C15.P2: slice bounds computed from len() are covered by a length fact -----------------------------------------

func runC15P2(c *Ctx) {
	n := 0
	for _, f := range c.fnsWhere("config", func(*ssa.Function) bool { return true }) {
		eachInstr(f, func(i ssa.Instruction) {
			sl, ok := i.(*ssa.Slice)
			if !ok {
				return
			}
			bt, isStr := sl.X.Type().Underlying().(*types.Basic)
			_, isSlice := sl.X.Type().Underlying().(*types.Slice)
			if !(isStr && bt.Kind() == types.String) && !isSlice {
				return
			}
			// len(x) - k as a bound
			lenMinus := func(v ssa.Value) (int64, bool) {
				b, ok := v.(*ssa.BinOp)
				if !ok || b.Op != token.SUB {
					return 0, false
				}
				k, isK := constInt(b.Y)
				call, isCall := b.X.(*ssa.Call)
				if !isK || !isCall || calleeName(&call.Call) != "builtin.len" || !samePath(sl.X)(call.Call.Args[0]) {
					return 0, false
				}
				return k, true
			}
			need := int64(-1)
			lowK := int64(0)
			if sl.Low != nil {
				if k, isK := constInt(sl.Low); isK {
					lowK = k
				} else if k, ok := lenMinus(sl.Low); ok {
					need = k // x[len-k:] needs len >= k
					lowK = -1
				} else {
					return
				}
			}
			if sl.High != nil {
				if k, ok := lenMinus(sl.High); ok {
					if lowK >= 0 && lowK+k > need {
						need = lowK + k // x[a:len-k] needs len >= a+k
					}
				} else {
					return // other bounds: decided by P1 (index-derived bounds) or not in scope
				}
			}
			if need <= 0 {
				return
			}
			n++
			have := lenLowerBound(i.Block(), sl.X, 0)
			c.check("C15.P2", fnKey(f)+"|slice bounds from len() within the value", i.Pos(), have >= need,
				"the slice expression needs len("+shortPath(sl.X)+") >= "+itoa(int(need))+" but the facts on the way only give >= "+itoa(int(have))+": for a value shorter than that the bounds cross and config.Load panics instead of returning an error (e.g. -cfg=' : one quote character)")
		})
	}
	c.ob("C15.P2", "config|len()-relative slice bounds are guarded", token.NoPos, OK, "checked "+itoa(n)+" slice expression(s) in package config")
}

// ---- C16.P5: a pooled connection leaves the pool closed ------------------------------------------------------------

func runC16P5(c *Ctx) {
	n := 0
	for _, f := range c.fnsWhere("proxy", func(*ssa.Function) bool { return true }) {
		eachInstr(f, func(i ssa.Instruction) {
			cc := callCommon(i)
			if cc == nil || calleeName(cc) != "builtin.delete" || len(cc.Args) != 2 {
				return
			}
			mt, ok := cc.Args[0].Type().Underlying().(*types.Map)
			if !ok || !holdsClientConn(mt.Elem(), 0) {
				return
			}
			// only the janitor (a function that ranges over the pool) is in scope
			ranged := false
			eachInstr(f, func(j ssa.Instruction) {
				if r, ok := j.(*ssa.Range); ok {
					if rm, ok := r.X.Type().Underlying().(*types.Map); ok && types.Identical(rm, mt) {
						ranged = true
					}
				}
			})
			if !ranged {
				return
			}
			n++
			// on every path of the iteration that reaches the delete, the connection is either known to be shut down already
			// (an edge with state == connectivity.Shutdown) or is closed (directly, by a helper, or by a goroutine started
			// on the way)
			closes := func(j ssa.Instruction) bool {
				jc := callCommon(j)
				return jc != nil && strings.HasSuffix(calleeName(jc), "grpc.ClientConn).Close")
			}
			closing := func(j ssa.Instruction) bool {
				if closes(j) {
					return true
				}
				if g, ok := j.(*ssa.Go); ok {
					for _, fn := range append(funcsOf(g.Call.Value), g.Call.StaticCallee()) {
						if fn != nil && mayExec(fn, closes, 0) {
							return true
						}
					}
				}
				if call, ok := j.(*ssa.Call); ok {
					if sc := call.Call.StaticCallee(); sc != nil && isRepoFn(sc) && mayExec(unwrap(sc), closes, 1) {
						return true
					}
				}
				return false
			}
			isShutdownEdge := func(pred, succ *ssa.BasicBlock) bool {
				if len(pred.Succs) != 2 || len(pred.Instrs) == 0 {
					return false
				}
				iff, ok := pred.Instrs[len(pred.Instrs)-1].(*ssa.If)
				if !ok {
					return false
				}
				for _, ft := range appendCondFacts(nil, iff.Cond, pred.Succs[0] == succ, 0) {
					b, ok := ft.Cond.(*ssa.BinOp)
					if !ok || !(b.Op == token.EQL && ft.Truth || b.Op == token.NEQ && !ft.Truth) {
						continue
					}
					for _, side := range []ssa.Value{b.X, b.Y} {
						if k, isK := side.(*ssa.Const); isK && strings.HasSuffix(typeStr(k.Type()), "connectivity.State") && k.Int64() == 4 {
							return true
						}
					}
				}
				return false
			}
			// the iteration starts at the Next of the range over the pool
			var start ssa.Instruction
			eachInstr(f, func(j ssa.Instruction) {
				if nx, ok := j.(*ssa.Next); ok && dominatesInstr(j, i) {
					if r, ok := nx.Iter.(*ssa.Range); ok {
						if rm, ok := r.X.Type().Underlying().(*types.Map); ok && types.Identical(rm, mt) {
							start = j
						}
					}
				}
			})
			shutdown, closed := false, false
			if start != nil {
				type item struct {
					b   *ssa.BasicBlock
					idx int
				}
				open := false
				seenB := map[*ssa.BasicBlock]bool{}
				stack := []item{{start.Block(), instrIndex(start) + 1}}
				for len(stack) > 0 && !open {
					it := stack[len(stack)-1]
					stack = stack[:len(stack)-1]
					blocked := false
					for k := it.idx; k < len(it.b.Instrs); k++ {
						if it.b.Instrs[k] == i {
							open = true
							break
						}
						if closing(it.b.Instrs[k]) {
							blocked = true
							break
						}
					}
					if blocked || open {
						continue
					}
					for _, sx := range it.b.Succs {
						if isShutdownEdge(it.b, sx) || seenB[sx] || sx == start.Block() {
							continue
						}
						seenB[sx] = true
						stack = append(stack, item{sx, 0})
					}
				}
				closed = !open
			}
			c.check("C16.P5", fnKey(f)+"|connection removed from the pool is closed", i.Pos(), shutdown || closed,
				"the janitor drops a pooled connection without closing it and without knowing that it is already shut down (state == connectivity.Shutdown as the only condition): a ClientConn in TransientFailure keeps re-dialling in the background, reconnects when the backend returns, and is never closed — connections are no longer 'reused per backend and dropped once the backend leaves the table'")
		})
	}
	c.atLeast("C16.P5", "deletions from the connection pool by its janitor", n, 1)
}

// holdsClientConn: t is *grpc.ClientConn or a (pointer to a) struct with such a field.
func holdsClientConn(t types.Type, d int) bool {
	if strings.HasSuffix(typeStr(t), "grpc.ClientConn") {
		return true
	}
	if d > 2 {
		return false
	}
	if p, ok := t.Underlying().(*types.Pointer); ok {
		return holdsClientConn(p.Elem(), d+1)
	}
	if st, ok := t.Underlying().(*types.Struct); ok {
		for i := 0; i < st.NumFields(); i++ {
			if holdsClientConn(st.Field(i).Type(), d+1) {
				return true
			}
		}
	}
	return false
}

// ---- C17.S2 / C17.F2 -------------------------------------------------------------------------------------------------

// runC17S2: the content type is sniffed only when the header KEY is absent.
func runC17S2(c *Ctx) {
	n := 0
	for _, f := range c.fnsWhere("proxy/gzip", func(*ssa.Function) bool { return true }) {
		eachInstr(f, func(i ssa.Instruction) {
			cc := callCommon(i)
			if cc == nil || calleeName(cc) != "(net/http.Header).Set" || len(cc.Args) != 3 {
				return
			}
			if !derives(cc.Args[2], func(v ssa.Value) bool { _, ok := isCallTo(v, "net/http.DetectContentType"); return ok }) {
				return
			}
			n++
			// the guard: a comma-ok map lookup said "absent"; a Get() == "" comparison does not distinguish a suppressed
			// (nil / empty) Content-Type from an absent one
			absent := false
			for _, ft := range factsAt(i.Block()) {
				if ex, ok := ft.Cond.(*ssa.Extract); ok && ex.Index == 1 && !ft.Truth {
					if lk, ok := ex.Tuple.(*ssa.Lookup); ok && lk.CommaOk {
						absent = true
					}
				}
			}
			c.check("C17.S2", fnKey(f)+"|content type sniffed only when the header key is absent", i.Pos(), absent,
				"the sniffed type is written although the Content-Type key may be present: a handler that sets the key to nil (net/http's way to suppress sniffing) or to an empty value must be passed through untouched; 'Header().Get(k) == \"\"' cannot tell that from an absent key, the sniffed type then matches the configured expression and a response that must be delivered byte for byte is compressed")
		})
	}
	c.atLeast("C17.S2", "writes of a sniffed Content-Type", n, 1)
}

// runC17F2: nothing commits the response headers before the compress / pass-through decision is taken.
func runC17F2(c *Ctx) {
	// the response-writer type of package gzip: declares Write and WriteHeader
	var methods []*ssa.Function
	byRecv := map[string][]*ssa.Function{}
	for _, f := range c.fnsWhere("proxy/gzip", func(fn *ssa.Function) bool { return fn.Signature.Recv() != nil }) {
		k := typeStr(f.Signature.Recv().Type())
		byRecv[strings.TrimPrefix(k, "*")] = append(byRecv[strings.TrimPrefix(k, "*")], f)
	}
	for _, ms := range byRecv {
		hasW, hasWH := false, false
		for _, m := range ms {
			if m.Name() == "Write" {
				hasW = true
			}
			if m.Name() == "WriteHeader" {
				hasWH = true
			}
		}
		if hasW && hasWH {
			methods = ms
		}
	}
	if len(methods) == 0 {
		c.undecided("C17.F2", "anchor|response writer of package gzip", "no type of package proxy/gzip declares Write and WriteHeader")
		return
	}
	n := 0
	for _, m := range methods {
		if m.Name() == "WriteHeader" || m.Name() == "Header" {
			continue
		}
		eachInstr(m, func(i ssa.Instruction) {
			cc := callCommon(i)
			if cc == nil || !cc.IsInvoke() {
				return
			}
			mn := cc.Method.Name()
			if mn != "Flush" && mn != "Write" && mn != "WriteHeader" {
				return
			}
			// on the wrapped http.ResponseWriter (or an optional interface asserted from it), not on the decided writer
			if !derives(cc.Value, func(v ssa.Value) bool {
				if fa, ok := v.(*ssa.FieldAddr); ok {
					return strings.HasSuffix(typeStr(fa.Type()), "net/http.ResponseWriter")
				}
				return false
			}) {
				return
			}
			n++
			// decided: on every path from the method's entry to this call either the decision field (the io.Writer field of
			// the receiver) is known non-nil, or something was executed that ensures it (a store to the field, or a call
			// of a method of the wrapper that stores it / finds it set on all of its paths)
			decided := !c17reachUndecided(m.Blocks[0], 0, i, 0)
			c.check("C17.F2", fnKey(m)+"|headers committed only after the decision", i.Pos(), decided,
				mn+" on the wrapped ResponseWriter commits the response headers; here it can run before the compress/pass-through decision (the writer field is not known to be set and WriteHeader of the wrapper has not run): the decision taken afterwards sets Content-Encoding too late — the client gets an unlabelled gzip body, and an implicit 200 replaces the handler's status")
		})
	}
	c.ob("C17.F2", "proxy/gzip|no header commit before the decision", token.NoPos, OK, "checked "+itoa(n)+" call(s) on the wrapped writer outside WriteHeader")
}

// c17isDecisionField: a field of type io.Writer (the decided writer of the gzip response writer).
func c17isDecisionField(v ssa.Value) bool {
	_, ok := fieldOfType(v, "io.Writer")
	return ok
}

// c17ensures: instruction i makes the decision field non-nil: a store to it, or a call of a repository function on
// all of whose paths the field is stored or already known non-nil.
func c17ensures(i ssa.Instruction, depth int) bool {
	if st, ok := i.(*ssa.Store); ok && c17isDecisionField(st.Addr) && !isNilConst(st.Val) {
		return true
	}
	call, ok := i.(*ssa.Call)
	if !ok || depth > 2 {
		return false
	}
	sc := call.Call.StaticCallee()
	if sc == nil || !isRepoFn(sc) || len(sc.Blocks) == 0 {
		return false
	}
	return !c17reachUndecided(sc.Blocks[0], 0, nil, depth+1)
}

// c17reachUndecided: starting at instruction idx of block b, can `target` (or, when target is nil, a return) be
// reached without passing an ensuring instruction and without crossing an edge on which the decision field is known
// non-nil?
func c17reachUndecided(b *ssa.BasicBlock, idx int, target ssa.Instruction, depth int) bool {
	type item struct {
		b   *ssa.BasicBlock
		idx int
	}
	seen := map[*ssa.BasicBlock]bool{}
	stack := []item{{b, idx}}
	for len(stack) > 0 {
		it := stack[len(stack)-1]
		stack = stack[:len(stack)-1]
		blocked := false
		for k := it.idx; k < len(it.b.Instrs); k++ {
			in := it.b.Instrs[k]
			if target != nil && in == target {
				return true
			}
			if c17ensures(in, depth) {
				blocked = true
				break
			}
			if _, isRet := in.(*ssa.Return); isRet && target == nil {
				return true
			}
		}
		if blocked {
			continue
		}
		for _, s := range it.b.Succs {
			known := false
			if len(it.b.Succs) == 2 && len(it.b.Instrs) > 0 {
				if iff, ok := it.b.Instrs[len(it.b.Instrs)-1].(*ssa.If); ok {
					for _, ft := range appendCondFacts(nil, iff.Cond, it.b.Succs[0] == s, 0) {
						if nn, ok := nilFact(ft, c17isDecisionField); ok && nn {
							known = true
						}
					}
				}
			}
			if known || seen[s] {
				continue
			}
			seen[s] = true
			stack = append(stack, item{s, 0})
		}
	}
	return false
}

// fieldOfType: v is a load/address of a field whose type is typ.
func fieldOfType(v ssa.Value, typ string) (ssa.Value, bool) {
	if u, ok := v.(*ssa.UnOp); ok && u.Op == token.MUL {
		v = u.X
	}
	if fa, ok := v.(*ssa.FieldAddr); ok {
		if p, ok := fa.Type().Underlying().(*types.Pointer); ok && typeStr(p.Elem()) == typ {
			return fa.X, true
		}
	}
	return nil, false
}

// ---- C18.D3 / C18.L2 -------------------------------------------------------------------------------------------------

// runC18D3: the forced stop is not serialised behind the graceful stop.
func runC18D3(c *Ctx) {
	unbounded := func(fn *ssa.Function) bool {
		if fn == nil {
			return false
		}
		if strings.HasSuffix(funcName(fn), "grpc.Server).GracefulStop") || strings.HasSuffix(funcName(fn), "sync.WaitGroup).Wait") {
			return true
		}
		return isRepoFn(fn) && mayExec(fn, func(i ssa.Instruction) bool {
			cc := callCommon(i)
			return cc != nil && (strings.HasSuffix(calleeName(cc), "grpc.Server).GracefulStop") || strings.HasSuffix(calleeName(cc), "sync.WaitGroup).Wait"))
		}, 0)
	}
	n := 0
	for _, f := range c.fnsWhere("", func(fn *ssa.Function) bool {
		return rootPkg(fn) == c.spkg("proxy") || rootPkg(fn) == c.spkg("proxy/tcp")
	}) {
		eachInstr(f, func(i ssa.Instruction) {
			cc := callCommon(i)
			if cc == nil || calleeName(cc) != "(*sync.Once).Do" || len(cc.Args) != 2 {
				return
			}
			n++
			bad := false
			for _, fn := range funcsOf(cc.Args[1]) {
				if unbounded(fn) {
					bad = true
				}
			}
			// a bound method value of a library type: the $bound wrapper's callee
			if mc, ok := cc.Args[1].(*ssa.MakeClosure); ok {
				if fn, ok := mc.Fn.(*ssa.Function); ok {
					eachInstr(fn, func(j ssa.Instruction) {
						if jc := callCommon(j); jc != nil && unbounded(jc.StaticCallee()) {
							bad = true
						}
					})
				}
			}
			c.check("C18.D3", fnKey(f)+"|no unbounded wait inside sync.Once.Do", i.Pos(), !bad,
				"sync.Once.Do makes every other caller of the same Once wait until the first call returns: with a graceful stop (or another unbounded wait) inside Do, the forced stop issued when the deadline fires blocks behind it instead of interrupting it — Shutdown no longer returns within the configured wait while a stream stays open")
		})
	}
	c.ob("C18.D3", "proxy, proxy/tcp|Once.Do bodies are bounded", token.NoPos, OK, "checked "+itoa(n)+" Once.Do call(s)")
}

// runC18L2: no draining call while the server registry's lock is held.
func runC18L2(c *Ctx) {
	n := 0
	for _, f := range c.fnsWhere("proxy", func(*ssa.Function) bool { return true }) {
		eachInstr(f, func(i ssa.Instruction) {
			cc := callCommon(i)
			if cc == nil || !cc.IsInvoke() || cc.Method.Name() != "Shutdown" || len(cc.Args) != 1 || typeStr(cc.Args[0].Type()) != "context.Context" {
				return
			}
			if _, isGo := i.(*ssa.Go); isGo {
				return
			}
			n++
			held := heldAt(i, false)
			c.check("C18.L2", fnKey(f)+"|no Shutdown(ctx) of a server while a lock is held", i.Pos(), len(held) == 0,
				"a server is drained (Shutdown(ctx) blocks for up to its deadline) while "+strings.Join(held, ", ")+" is held: proxy.Shutdown begins by taking the registry lock, so it waits out that drain before its own deadline even starts (shutdown takes up to twice the configured wait) and the other listeners keep accepting meanwhile")
		})
	}
	c.atLeast("C18.L2", "Shutdown(ctx) invocations on servers in package proxy", n, 1)
}
