package main

// Rules added after the second round of independently authored breaking changes (DESIGN 11.7).

import (
	"go/token"
	"go/types"
	"strings"

	"golang.org/x/tools/go/ssa"
)

// ---- C11.M4: no name-index entry under the empty name --------------------------------------------------------

func runC11M4(c *Ctx) {
	build := c.method("cert", "certstore", "BuildNameToCertificate")
	if !c.need("C11.M4", build, "cert.certstore.BuildNameToCertificate") {
		return
	}
	n := 0
	eachInstr(build, func(i ssa.Instruction) {
		mu, ok := i.(*ssa.MapUpdate)
		if !ok || !strings.HasSuffix(accessPath(mu.Map), "NameToCertificate") {
			return
		}
		n++
		key := mu.Key
		for {
			call, isCall := key.(*ssa.Call)
			if isCall && calleeName(&call.Call) == "strings.ToLower" {
				key = call.Call.Args[0]
				continue
			}
			break
		}
		nonEmpty := lenLowerBound(i.Block(), key, 0) >= 1
		for _, f := range factsAt(i.Block()) {
			if b, isB := f.Cond.(*ssa.BinOp); isB && (b.Op == token.NEQ || b.Op == token.EQL) {
				if s, isK := constString(b.Y); isK && s == "" && samePath(key)(b.X) && f.Truth == (b.Op == token.NEQ) {
					nonEmpty = true
				}
			}
		}
		san := strings.Contains(accessPath(key), ".DNSNames[")
		c.check("C11.M4", "cert.certstore.BuildNameToCertificate|index key "+shortPath(mu.Key)+" is a name", i.Pos(), nonEmpty || san,
			"an index key must be known non-empty (len(name) > 0) or be an element of the certificate's DNSNames: a SAN-only certificate has an empty common name, and an entry under \"\" is what a client hello without a server name looks up — it would get that certificate instead of the first one (or instead of none with strict matching)")
	})
	c.atLeast("C11.M4", "stores into the name index", n, 2)
}

// ---- C11.M5: SetCertificates publishes every set it is given -------------------------------------------------

func runC11M5(c *Ctx) {
	set := c.method("cert", "Store", "SetCertificates")
	if !c.need("C11.M5", set, "cert.Store.SetCertificates") {
		return
	}
	isPublish := func(i ssa.Instruction) bool {
		cc := callCommon(i)
		return cc != nil && calleeName(cc) == "(*sync/atomic.Value).Store"
	}
	if len(set.Blocks) == 0 || len(set.Blocks[0].Instrs) == 0 {
		return
	}
	first := set.Blocks[0].Instrs[0]
	exit, skip := exitReachableAvoiding(first, isPublish)
	if isPublish(first) {
		skip = false
	}
	pos := set.Pos()
	if exit != nil {
		pos = exit.Pos()
	}
	c.check("C11.M5", "(*cert.Store).SetCertificates|every path publishes the new set", pos, !skip,
		"SetCertificates can return without storing the set it was given: whatever notion of 'unchanged' guards the store, the default certificate is the FIRST of the most recently loaded set, so a reordered or otherwise 'equal' set must still replace the old one")
}

// ---- C12.X1: X-Forwarded-For elements are judged as written -------------------------------------------------

func runC12X1(c *Ctx) {
	f := c.method("route", "Target", "AccessDeniedHTTP")
	if !c.need("C12.X1", f, "route.Target.AccessDeniedHTTP") {
		return
	}
	isXFF := func(v ssa.Value) bool {
		call, ok := v.(*ssa.Call)
		if !ok || !strings.HasSuffix(calleeName(&call.Call), "Header).Get") || len(call.Call.Args) < 2 {
			return false
		}
		s, _ := constString(call.Call.Args[1])
		return strings.EqualFold(s, "X-Forwarded-For")
	}
	okCalls := map[string]bool{"strings.TrimSpace": true, "strings.Trim": true, "strings.Split": true, "strings.SplitN": true, "strings.Fields": true,
		"strings.FieldsFunc": true, "net.SplitHostPort": true, "strings.TrimPrefix": true, "strings.TrimSuffix": true}
	n := 0
	eachInstr(f, func(i ssa.Instruction) {
		cc := callCommon(i)
		if cc == nil || calleeName(cc) != "net.ParseIP" || !derivesThroughRepo(cc.Args[0], isXFF) {
			return
		}
		n++
		// walk the slice from the parsed text back to the header; every step must keep the element intact
		bad := ""
		seen := map[ssa.Value]bool{}
		var walk func(v ssa.Value, depth int)
		walk = func(v ssa.Value, depth int) {
			if v == nil || seen[v] || bad != "" || depth > 40 {
				return
			}
			seen[v] = true
			switch x := v.(type) {
			case *ssa.Slice:
				if _, isStr := x.X.Type().Underlying().(*types.Basic); isStr {
					bad = "a substring taken at " + c.pos(x.Pos())
					return
				}
				walk(x.X, depth+1)
			case *ssa.Phi:
				for _, e := range x.Edges {
					walk(e, depth+1)
				}
			case *ssa.UnOp:
				walk(x.X, depth+1)
			case *ssa.IndexAddr:
				walk(x.X, depth+1)
			case *ssa.Extract:
				walk(x.Tuple, depth+1)
			case *ssa.Alloc:
				for _, d := range defsOf(x) {
					walk(d.Val, depth+1)
				}
			case *ssa.Call:
				if isXFF(x) {
					return
				}
				name := calleeName(&x.Call)
				if okCalls[name] {
					walk(x.Call.Args[0], depth+1)
					return
				}
				if sc := x.Call.StaticCallee(); sc != nil && isRepoFn(sc) && len(sc.Blocks) > 0 {
					eachInstr(sc, func(j ssa.Instruction) {
						if r, ok := j.(*ssa.Return); ok {
							for _, res := range r.Results {
								if bt, ok := res.Type().Underlying().(*types.Basic); ok && bt.Kind() == types.String {
									walk(res, depth+1)
								}
							}
						}
					})
					for _, a := range x.Call.Args {
						walk(a, depth+1)
					}
					return
				}
				bad = "a call to " + name
			case *ssa.Parameter, *ssa.Const, *ssa.FreeVar, *ssa.Global:
			default:
			}
		}
		walk(cc.Args[0], 0)
		c.check("C12.X1", "(*route.Target).AccessDeniedHTTP|X-Forwarded-For element judged as written", i.Pos(), bad == "",
			"the text handed to net.ParseIP must be the header element itself (split, trimmed); here it passes through "+bad+": address surgery on an element (cutting at a ':' to drop a port) mangles bare IPv6 addresses, the element then fails to parse and is skipped — or parses as a different address — and a request whose chain names a non-admitted address is let through")
	})
	c.atLeast("C12.X1", "X-Forwarded-For elements parsed in AccessDeniedHTTP", n, 1)
}

// ---- C13.E2: the redirect is built from the request URL with its encoded path --------------------------------

func runC13E2(c *Ctx) {
	lk := c.method("route", "Table", "Lookup")
	if !c.need("C13.E2", lk, "route.Table.Lookup") {
		return
	}
	n := 0
	eachInstr(lk, func(i ssa.Instruction) {
		cc := callCommon(i)
		if cc == nil || !strings.HasSuffix(calleeName(cc), "Target).BuildRedirectURL") || len(cc.Args) < 2 {
			return
		}
		n++
		arg := cc.Args[1]
		ok := false
		if _, isReqURL := fieldOf(arg, "http.Request", "URL"); isReqURL {
			ok = true
		} else if a, isAlloc := arg.(*ssa.Alloc); isAlloc {
			fs := fieldStores(a)
			if len(fs["RawPath"]) > 0 && len(fs["Path"]) > 0 {
				ok = true
			}
			for _, r := range *a.Referrers() {
				if st, isSt := r.(*ssa.Store); isSt && st.Addr == a {
					if u, isU := st.Val.(*ssa.UnOp); isU {
						if _, isReqURL := fieldOf(u.X, "http.Request", "URL"); isReqURL {
							ok = true // whole-struct copy of *req.URL
						}
					}
				}
			}
		}
		c.check("C13.E2", "(route.Table).Lookup|redirect built from the request URL including RawPath", i.Pos(), ok,
			"BuildRedirectURL substitutes $path with the encoded path (RawPath) when the request has one; it must be given req.URL itself or a copy that carries RawPath — a URL rebuilt from Path and RawQuery alone turns %2F in the request into '/' in the Location")
	})
	c.atLeast("C13.E2", "BuildRedirectURL calls in Table.Lookup", n, 1)
}

// ---- C14.E1: option text of a urlprefix tag is not environment-expanded -------------------------------------

func runC14E1(c *Ctx) {
	f := c.fn("registry/consul", "parseURLPrefixTag")
	if !c.need("C14.E1", f, "registry/consul.parseURLPrefixTag") {
		return
	}
	expands := func(fn *ssa.Function) bool {
		if fn == nil {
			return false
		}
		hit := false
		eachInstr(fn, func(i ssa.Instruction) {
			if cc := callCommon(i); cc != nil && calleeName(cc) == "os.Expand" {
				hit = true
			}
		})
		return hit
	}
	isExpand := func(v ssa.Value) bool {
		call, ok := v.(*ssa.Call)
		if !ok {
			return false
		}
		if calleeName(&call.Call) == "os.Expand" || calleeName(&call.Call) == "os.ExpandEnv" {
			return true
		}
		if sc := call.Call.StaticCallee(); sc != nil && expands(sc) {
			return true
		}
		if mc, ok := call.Call.Value.(*ssa.MakeClosure); ok {
			if fn, ok := mc.Fn.(*ssa.Function); ok && expands(fn) {
				return true
			}
		}
		return false
	}
	nRet, nExp := 0, 0
	eachInstr(f, func(i ssa.Instruction) {
		if v, ok := i.(ssa.Value); ok && isExpand(v) {
			nExp++
		}
		r, ok := i.(*ssa.Return)
		if !ok || len(r.Results) != 3 {
			return
		}
		if k, isK := constString(r.Results[1]); isK && k == "" {
			return
		}
		nRet++
		c.check("C14.E1", "registry/consul.parseURLPrefixTag|options returned verbatim", r.Pos(), !derives(r.Results[1], isExpand),
			"the option part of a tag is returned after os.Expand: only ${DC} is defined there, so the documented redirect variables ($path, $host) and any other '$' in an option value are silently erased — the command still parses but no longer denotes the registered destination/options")
	})
	c.atLeast("C14.E1", "returns of parseURLPrefixTag carrying options", nRet, 1)
	c.atLeast("C14.E1", "expansion sites in parseURLPrefixTag (scope check)", nExp, 1)
}

// ---- C16.H1: the destination host of a gRPC call comes from the dsthost metadata only ------------------------

func runC16H1(c *Ctx) {
	f := c.method("proxy", "GrpcProxyInterceptor", "getDestinationHostFromMetadata")
	if !c.need("C16.H1", f, "proxy.GrpcProxyInterceptor.getDestinationHostFromMetadata") {
		return
	}
	n := 0
	eachInstr(f, func(i ssa.Instruction) {
		lk, ok := i.(*ssa.Lookup)
		if !ok || !namedIs(lk.X.Type(), "metadata.MD") {
			return
		}
		n++
		k, isK := constString(lk.Index)
		c.check("C16.H1", "(proxy.GrpcProxyInterceptor).getDestinationHostFromMetadata|metadata key "+k, i.Pos(), isK && k == "dsthost",
			"the routing host of a call is the dsthost metadata value, if any; reading another key (\":authority\" is set by every client to whatever name it dialled) routes calls without dsthost to host-specific routes — the wrong backend answers, and a call that must be NotFound is served")
	})
	// calls of MD.Get count as lookups too
	eachInstr(f, func(i ssa.Instruction) {
		cc := callCommon(i)
		if cc == nil || !strings.HasSuffix(calleeName(cc), "metadata.MD).Get") {
			return
		}
		n++
		k, isK := constString(cc.Args[len(cc.Args)-1])
		c.check("C16.H1", "(proxy.GrpcProxyInterceptor).getDestinationHostFromMetadata|metadata key "+k, i.Pos(), isK && k == "dsthost", "the routing host of a call is the dsthost metadata value, if any")
	})
	c.atLeast("C16.H1", "metadata lookups in getDestinationHostFromMetadata", n, 1)
}

// ---- C18.R1 / C18.X1 -------------------------------------------------------------------------------------------

func runC18R3(c *Ctx) {
	sd := c.fn("proxy", "Shutdown")
	servers := c.global("proxy", "servers")
	if !c.need("C18.R3", sd, "proxy.Shutdown") || servers == nil {
		if servers == nil {
			c.undecided("C18.R3", "proxy.servers|registry", "package variable servers not found")
		}
		return
	}
	var lock, unlock ssa.Instruction
	eachInstr(sd, func(i ssa.Instruction) {
		if cc := callCommon(i); cc != nil {
			switch calleeName(cc) {
			case "(*sync.Mutex).Lock", "(*sync.RWMutex).Lock":
				if lock == nil {
					lock = i
				}
			case "(*sync.Mutex).Unlock", "(*sync.RWMutex).Unlock":
				if unlock == nil {
					if _, isDefer := i.(*ssa.Defer); !isDefer {
						unlock = i
					}
				}
			}
		}
	})
	emptied := false
	eachInstr(sd, func(i ssa.Instruction) {
		inRegion := lock != nil && dominatesInstr(lock, i) && (unlock == nil || !canReach(unlock, i))
		if !inRegion {
			return
		}
		if st, ok := i.(*ssa.Store); ok && st.Addr == servers {
			if _, isMake := st.Val.(*ssa.MakeMap); isMake {
				emptied = true
			}
		}
		if cc := callCommon(i); cc != nil && (calleeName(cc) == "builtin.clear" || calleeName(cc) == "builtin.delete") && len(cc.Args) > 0 {
			if u, ok := cc.Args[0].(*ssa.UnOp); ok && u.X == servers {
				if calleeName(cc) == "builtin.clear" {
					emptied = true
				} else {
					// delete inside the snapshot loop over the registry itself
					for _, l := range loopsOf(sd) {
						if l.Body[i.Block()] {
							emptied = true
						}
					}
				}
			}
		}
	})
	c.check("C18.R3", "proxy.Shutdown|registry emptied in the critical section that snapshots it", sd.Pos(), emptied,
		"Shutdown must take the servers out of the registry under the same lock that snapshots them: a server that stays registered while it drains is still found by CloseProxy (the tcp-dynamic loop closes a listener's proxy whenever its route disappears) and by Close, which cut its open tunnels at once — in-flight work that would have finished within the wait is broken")
}

func runC18X1(c *Ctx) {
	pkg := c.spkg("exit")
	if pkg == nil {
		c.undecided("C18.X1", "exit|package", "package exit not loaded")
		return
	}
	nFn, nHandler := 0, 0
	for _, f := range c.AllFns {
		if rootPkg(f) != pkg {
			continue
		}
		nFn++
		// the exit handler call: a call of a function-typed parameter / free variable taking os.Signal
		var handlerCalls []ssa.Instruction
		eachInstr(f, func(i ssa.Instruction) {
			cc := callCommon(i)
			if cc == nil || cc.IsInvoke() || cc.StaticCallee() != nil {
				return
			}
			if s, ok := cc.Value.Type().Underlying().(*types.Signature); ok && s.Params().Len() == 1 && typeStr(s.Params().At(0).Type()) == "os.Signal" {
				handlerCalls = append(handlerCalls, i)
			}
		})
		nHandler += len(handlerCalls)
		eachInstr(f, func(i ssa.Instruction) {
			cc := callCommon(i)
			if cc == nil {
				return
			}
			switch calleeName(cc) {
			case "os/signal.Stop", "os/signal.Reset", "os/signal.Ignore":
			default:
				return
			}
			before := false
			for _, h := range handlerCalls {
				if canReach(i, h) {
					before = true
				}
			}
			c.check("C18.X1", fnKey(f)+"|signals stay captured while the exit handler runs", i.Pos(), !before,
				calleeName(cc)+" before the exit handler restores the default disposition of SIGINT/SIGTERM/SIGHUP: the handler is where the drain happens (deregister, grace period, proxy.Shutdown(wait)); a second signal during it — double Ctrl-C, a supervisor re-sending TERM, a reload tool's HUP — then kills the process and cuts every in-flight request")
		})
	}
	c.atLeast("C18.X1", "exit handler invocations in package exit", nHandler, 1)
	c.ob("C18.X1", "exit|signal registration not released before the handler", token.NoPos, OK, "scanned package exit for signal.Stop/Reset/Ignore ahead of the handler call")
}

// ---- C19.D1 / C19.T4 -------------------------------------------------------------------------------------------

func runC19D1(c *Ctx) {
	n := 0
	for _, f := range c.AllFns {
		if rootPkg(f) != c.spkg("proxy") || strings.Contains(fnKey(f), "rpc") {
			continue
		}
		eachInstr(f, func(i ssa.Instruction) {
			cc := callCommon(i)
			if cc == nil || calleeName(cc) != "(*net/http.Request).WithContext" || len(cc.Args) < 2 {
				return
			}
			n++
			timed := derives(cc.Args[1], func(v ssa.Value) bool {
				_, ok := isCallTo(v, "context.WithTimeout", "context.WithDeadline", "context.WithTimeoutCause", "context.WithDeadlineCause")
				return ok
			})
			c.check("C19.D1", fnKey(f)+"|no deadline on the whole upstream exchange", i.Pos(), !timed,
				"a context deadline attached to the proxied request is never lifted once the response headers arrive: an upstream that answers in time but streams its body longer than the deadline is cut off mid-response; the phases are bounded by the dial and response-header timeouts of the transport only")
		})
	}
	c.ob("C19.D1", "proxy|request contexts without deadline", token.NoPos, OK, "scanned "+itoa(n)+" WithContext calls in package proxy (HTTP path)")
}

func runC19T4(c *Ctx) {
	n := 0
	for _, f := range c.AllFns {
		eachInstr(f, func(i ssa.Instruction) {
			fa, ok := i.(*ssa.FieldAddr)
			if !ok || !namedIs(fa.X.Type(), "net/http.Transport") {
				return
			}
			name := fieldName(fa.X.Type(), fa.Field)
			if name == "ResponseHeaderTimeout" {
				n++
			}
			if name != "MaxConnsPerHost" {
				return
			}
			for _, r := range *fa.Referrers() {
				st, isSt := r.(*ssa.Store)
				if !isSt {
					continue
				}
				k, isK := constInt(st.Val)
				c.check("C19.T4", fnKey(f)+"|no connection cap that queues requests", st.Pos(), isK && k == 0,
					"http.Transport.MaxConnsPerHost makes requests beyond the cap wait inside net/http for a free connection; neither the dial timeout nor the response-header timeout covers that wait, so with a slow upstream client k is held ceil(k/cap) x responseheadertimeout instead of getting its 504 within the configured time")
			}
		})
	}
	c.atLeast("C19.T4", "transports with a response-header timeout (scope check)", n, 1)
	c.ob("C19.T4", "transport|no MaxConnsPerHost", token.NoPos, OK, "scanned all http.Transport field stores")
}

// ---- C20.U1 / C20.N1 -------------------------------------------------------------------------------------------

func runC20E1(c *Ctx) {
	pkg := c.spkg("logger")
	if pkg == nil {
		return
	}
	isDecoded := func(v ssa.Value) bool {
		if _, ok := fieldOf(v, "net/url.URL", "Path"); ok {
			return true
		}
		if _, ok := fieldOf(v, "net/url.URL", "Fragment"); ok {
			return true
		}
		return false
	}
	n := 0
	for _, f := range c.AllFns {
		if rootPkg(f) != pkg {
			continue
		}
		eachInstr(f, func(i ssa.Instruction) {
			cc := callCommon(i)
			if cc == nil {
				return
			}
			name := calleeName(cc)
			if !strings.HasPrefix(name, "(*bytes.Buffer).Write") || len(cc.Args) < 2 {
				return
			}
			n++
			c.check("C20.E1", fnKey(f)+"|no decoded URL component written to the log line", i.Pos(), !derivesThroughRepo(cc.Args[1], isDecoded),
				"url.URL.Path is the DECODED path: a request for /x%0Ay puts a raw line feed into the log buffer (one event, two lines), and %20, %25, %3F, %2F render differently from URL.String()/RequestURI(), which is what the standard library would print")
		})
	}
	c.atLeast("C20.E1", "buffer writes in package logger", n, 20)
}

func runC20N1(c *Ctx) {
	width := func(t types.Type) (int, bool) {
		b, ok := t.Underlying().(*types.Basic)
		if !ok {
			return 0, false
		}
		switch b.Kind() {
		case types.Int8:
			return 8, true
		case types.Int16:
			return 16, true
		case types.Int32:
			return 32, true
		case types.Int64, types.Int:
			return 64, true
		}
		return 0, false
	}
	n := 0
	for _, f := range c.AllFns {
		eachInstr(f, func(i ssa.Instruction) {
			u, ok := i.(*ssa.UnOp)
			if !ok || u.Op != token.SUB {
				return
			}
			w, signed := width(u.X.Type())
			if !signed {
				return
			}
			if _, isK := u.X.(*ssa.Const); isK {
				return
			}
			n++
			if w > 32 {
				return
			}
			// a narrow signed value negated in its own width: wrong for the minimum
			fromParam := derives(u.X, func(v ssa.Value) bool {
				p, ok := v.(*ssa.Parameter)
				if !ok {
					return false
				}
				pw, ps := width(p.Type())
				return ps && pw >= w
			})
			c.check("C20.N1", fnKey(f)+"|negation performed in a wider type than the input", i.Pos(), !fromParam,
				"-n overflows for the minimum of a "+itoa(w)+"-bit signed type: the formatter then emits bytes below '0' for that one value (i32toa(-2147483648) must print \"-2147483648\"); widen before negating")
		})
	}
	c.ob("C20.N1", "formatters|no narrow negation", token.NoPos, OK, "scanned "+itoa(n)+" integer negations")
}
