package main

import (
	"fmt"
	"go/token"
	"go/types"
	"regexp"
	"strings"

	"golang.org/x/tools/go/ssa"
)

func init() {
	register(&propDef{
		ID:      "C06",
		Level:   "other",
		Explain: "Data-race necessary conditions decided without a schedule, over all functions reachable from the per-request entry points (discovered by role): (S1) no store to memory reachable from a structure that lives across requests (types reachable from package variables, atomically published values, handler receivers and captured variables) unless the object is freshly built on the request path or a write lock is held at the store (interprocedural parameter/closure freshness, must-hold lockset); (S2) a field or variable that is accessed through sync/atomic anywhere is never read or written plainly; (S3) every access to a field of the reviewed lock table (tcp.Server.listeners/conns, the gRPC pool map, the glob-cache ring, the access-log writer, the Vault PKI cache, the server registry) holds its lock, directly or in every caller; (S4) the round-robin picker derives its index from the result of the atomic read-modify-write, and pickers select from the weighted ring; (S5) nothing writes a table after it is passed to the publishing store; (S6) each per-request lookup loads the published table once and nothing below Table.Lookup reloads it; (B1) in GlobCache.Get the eviction of the overwritten slot precedes the insertion, the ring grows only under n < len(l), and a cache miss is re-checked under the lock; (B2) no MustCompile of a non-constant pattern and no unguarded modulus on the request path. (S1/S5, extended) in-place library sorts/copies of a slice rooted in shared or published state are writes; Not decided: exact per-target pick counts under interleavings (arithmetic over histories) beyond their necessary condition S4.",
		Run:     runC06,
		Trusted: []string{"sync.Mutex/RWMutex provide mutual exclusion; sync/atomic operations are atomic; sync.Map is safe for concurrent use",
			"net/http hands each handler invocation its own *http.Request and ResponseWriter"},
		Mutants: []mutant{
			{Name: "Dump sorts the shared target slice in place", File: "route/table.go", Old: "func (t Table) Dump() string {\n", New: "func (t Table) Dump() string {\n\tfor _, rs := range t {\n\t\tfor _, r := range rs {\n\t\t\tsort.Slice(r.Targets, func(i, j int) bool { return r.Targets[i].Weight > r.Targets[j].Weight })\n\t\t}\n\t}\n", Expect: "C06.S5"},

			{Name: "remove mutex from GlobCache.Get", File: "route/glob_cache.go", Old: "\tc.mu.Lock()\n\tdefer c.mu.Unlock()\n", New: "", Expect: "C06.S1"},
			{Name: "cache redirect URL on shared target again", File: "route/table.go", Old: "redirect := *target\n\t\t\t\tredirect.BuildRedirectURL(req.URL)\n\t\t\t\ttarget = &redirect", New: "target.BuildRedirectURL(req.URL)", Expect: "C06.S1"},
			{Name: "plain r.total++", File: "route/picker.go", Old: "n := atomic.AddUint64(&r.total, 1) - 1", New: "n := r.total\n\tatomic.AddUint64(&r.total, 1)", Expect: "C06.S2"},
			{Name: "load then add", File: "route/picker.go", Old: "n := atomic.AddUint64(&r.total, 1) - 1", New: "n := atomic.LoadUint64(&r.total)\n\tatomic.AddUint64(&r.total, 1)", Expect: "C06.S4"},
			{Name: "picker returns from Targets", File: "route/picker.go", Old: "return r.wTargets[randIntn(len(r.wTargets))]", New: "return r.Targets[randIntn(len(r.Targets))]", Expect: "C06.S4"},
			{Name: "evict after store", File: "route/glob_cache.go", Old: "\tc.m.Delete(c.l[c.h])\n\tc.m.Store(pattern, glbCompiled)\n\tc.l[c.h] = pattern", New: "\tc.m.Store(pattern, glbCompiled)\n\tc.l[c.h] = pattern\n\tc.m.Delete(c.l[c.h])", Expect: "C06.B1"},
			{Name: "no re-check under lock", File: "route/glob_cache.go", Old: "\t// another request may have added the pattern while we were waiting\n\tif glb, ok := c.m.Load(pattern); ok {\n\t\treturn glb.(glob.Glob), nil\n\t}\n", New: "", Expect: "C06.B1"},
			{Name: "mutate table after SetTable", File: "main.go", Old: "\t\t\troute.SetTable(t)\n", New: "\t\t\troute.SetTable(t)\n\t\t\tdelete(t, \"\")\n", Expect: "C06.S5"},
			{Name: "second GetTable in lookup closure", File: "main.go", Old: "\t\t\tif t == nil {\n\t\t\t\tstatsHandler.Noroute.Add(1)", New: "\t\t\tif t == nil {\n\t\t\t\tt = route.GetTable().Lookup(r, \"\", pick, match, globCache, cfg.GlobMatchingDisabled)\n\t\t\t}\n\t\t\tif t == nil {\n\t\t\t\tstatsHandler.Noroute.Add(1)", Expect: "C06.S6"},
			{Name: "GetTable inside Table.lookup", File: "route/table.go", Old: "\thost = strings.ToLower(host) // routes are always added lowercase\n\tfor _, r := range t[host] {", New: "\thost = strings.ToLower(host) // routes are always added lowercase\n\tfor _, r := range GetTable()[host] {", Expect: "C06.S6"},
			{Name: "server registry read without the lock", File: "proxy/serve.go", Old: "\tmu.Lock()\n\tsrvs := make(map[string]Server, len(servers))", New: "\tsrvs := make(map[string]Server, len(servers))\n\tmu.Lock()", Expect: "C06.S3"},
			{Name: "connection registry touched after unlock", File: "proxy/tcp/server.go", Old: "\t\ts.conns[c] = true\n\t\ts.mu.Unlock()", New: "\t\ts.mu.Unlock()\n\t\ts.conns[c] = true", Expect: "C06.S3"},
			{Name: "benign: RWMutex write lock", File: "route/glob_cache.go", Old: "mu sync.Mutex", New: "mu sync.RWMutex", Expect: ""},
			{Name: "benign: explicit unlock instead of defer in picker-free code", File: "route/picker.go", Old: "n := atomic.AddUint64(&r.total, 1) - 1", New: "n := atomic.AddUint64(&r.total, 1)\n\tn--", Expect: ""},
		},
	})
}

func runC06(c *Ctx) {
	sa := newSharedAnalysis(c)
	n := sa.s1("C06.S1", nil)
	c.atLeast("C06.S1", "stores into cross-request structures reachable from serving roots", n, 3)
	runS2(c, "C06.S2")
	n3 := sa.s3("C06.S3")
	c.atLeast("C06.S3", "accesses to lock-guarded fields", n3, 10)
	runPickers(c, "C06.S4")
	runPublish(c, "C06.S5", "C06.S6")
	runGlobCacheB1(c)
	runRequestPathPanics(c, "C06.B2")
}

// ---- S2: atomic consistency --------------------------------------------------------------

func atomicTargetKey(v ssa.Value) (string, bool) {
	switch x := v.(type) {
	case *ssa.FieldAddr:
		k := typeKey(x.X.Type())
		if k == "" {
			return "", false
		}
		return strings.TrimPrefix(k, repoMod+"/") + "." + fieldName(x.X.Type(), x.Field), true
	case *ssa.Global:
		return x.Pkg.Pkg.Name() + "." + x.Name(), true
	}
	return "", false
}

// s2Packages: S2 is applied to the packages on the request path of the properties that use it
// (route, proxy, proxy/tcp, cert, main). The debug-only metrics "label" provider, whose With()
// copies an atomically updated counter plainly, is outside every property's anchors (observed, not claimed).
var s2Packages = map[string]bool{"route": true, "proxy": true, "tcp": true, "cert": true, "main": true, "gzip": true, "logger": true, "noroute": true}

func runS2(c *Ctx, rule string) {
	atomics := map[string]token.Pos{}
	for _, f := range c.AllFns {
		if f.Pkg == nil || !s2Packages[f.Pkg.Pkg.Name()] {
			continue
		}
		eachInstr(f, func(i ssa.Instruction) {
			cc := callCommon(i)
			if cc == nil || !strings.HasPrefix(calleeName(cc), "sync/atomic.") || len(cc.Args) == 0 {
				return
			}
			if k, ok := atomicTargetKey(cc.Args[0]); ok {
				if _, seen := atomics[k]; !seen {
					atomics[k] = i.Pos()
				}
			}
		})
	}
	c.atLeast(rule, "fields/variables accessed through sync/atomic", len(atomics), 2)
	plain := map[string]bool{}
	for _, f := range c.AllFns {
		if isInitFn(f) {
			continue
		}
		eachInstr(f, func(i ssa.Instruction) {
			var addr ssa.Value
			what := ""
			switch x := i.(type) {
			case *ssa.UnOp:
				if x.Op != token.MUL {
					return
				}
				addr, what = x.X, "plain read"
			case *ssa.Store:
				addr, what = x.Addr, "plain write"
			default:
				return
			}
			k, ok := atomicTargetKey(addr)
			if !ok {
				return
			}
			if _, isAtomic := atomics[k]; !isAtomic {
				return
			}
			// initialisation of a freshly allocated struct is not shared yet
			if fa, isFA := addr.(*ssa.FieldAddr); isFA {
				if _, isAlloc := fa.X.(*ssa.Alloc); isAlloc {
					return
				}
			}
			plain[k] = true
			c.ob(rule, fnKey(f)+"|"+what+" of "+k, i.Pos(), Viol,
				fmt.Sprintf("%s is accessed with sync/atomic at %s but has a %s here: the plain access races with the atomic ones (torn/stale value), e.g. two requests read the same round-robin cursor", k, c.pos(atomics[k]), what))
		})
	}
	for k, p := range atomics {
		if !plain[k] {
			c.ob(rule, "atomic-only|"+k, p, OK, "every access to "+k+" outside package initialisation goes through sync/atomic")
		}
	}
}

// ---- S4 / R2 / R3: pickers ------------------------------------------------------------------

// registryFuncs returns the functions stored as values in the package-level map pkg.name.
func registryFuncs(c *Ctx, pkg, name string) []*ssa.Function {
	g := c.global(pkg, name)
	if g == nil {
		return nil
	}
	var out []*ssa.Function
	initFn := c.spkg(pkg).Func("init")
	if initFn == nil {
		return nil
	}
	eachInstr(initFn, func(i ssa.Instruction) {
		mu, ok := i.(*ssa.MapUpdate)
		if !ok {
			return
		}
		// map value flows into the global
		isTarget := false
		if mm, ok := mu.Map.(*ssa.MakeMap); ok {
			for _, r := range *mm.Referrers() {
				if st, ok := r.(*ssa.Store); ok && st.Addr == g {
					isTarget = true
				}
			}
		}
		if !isTarget {
			return
		}
		v := mu.Value
		for {
			if ct, ok := v.(*ssa.ChangeType); ok {
				v = ct.X
				continue
			}
			break
		}
		switch fv := v.(type) {
		case *ssa.Function:
			out = append(out, fv)
		case *ssa.MakeClosure:
			out = append(out, fv.Fn.(*ssa.Function))
		}
	})
	return out
}

func runPickers(c *Ctx, rule string) {
	pickers := registryFuncs(c, "route", "Picker")
	c.atLeast(rule, "functions registered in route.Picker", len(pickers), 2)
	for _, p := range pickers {
		// the atomic RMW on a Route field, if any
		var rmw *ssa.Call
		var rmwKey string
		eachInstr(p, func(i ssa.Instruction) {
			call, ok := i.(*ssa.Call)
			if !ok {
				return
			}
			n := calleeName(&call.Call)
			if strings.HasPrefix(n, "sync/atomic.Add") || strings.HasPrefix(n, "sync/atomic.Swap") || strings.HasPrefix(n, "sync/atomic.CompareAndSwap") {
				if k, ok := atomicTargetKey(call.Call.Args[0]); ok && strings.HasPrefix(k, "route.Route.") {
					rmw, rmwKey = call, k
				}
			}
		})
		eachInstr(p, func(i ssa.Instruction) {
			r, ok := i.(*ssa.Return)
			if !ok || len(r.Results) != 1 {
				return
			}
			if isNilConst(r.Results[0]) {
				// "no target" is acceptable only when the ring is known to be empty
				empty := false
				for _, f := range factsAt(r.Block()) {
					if b, isB := f.Cond.(*ssa.BinOp); isB && b.Op == token.EQL && f.Truth {
						if call, isCall := b.X.(*ssa.Call); isCall && calleeName(&call.Call) == "builtin.len" {
							if _, isRing := fieldOf(call.Call.Args[0], "route.Route", "wTargets"); isRing {
								if n, ok := constInt(b.Y); ok && n == 0 {
									empty = true
								}
							}
						}
					}
				}
				c.check(rule, fnKey(p)+"|nil only for an empty ring", r.Pos(), empty, "a picker may report no target only when the weighted ring is empty")
				return
			}
			// result must be an element of the ring field wTargets
			var idx ssa.Value
			fromRing := false
			v := r.Results[0]
			if u, ok := v.(*ssa.UnOp); ok && u.Op == token.MUL {
				if ia, ok := u.X.(*ssa.IndexAddr); ok {
					idx = ia.Index
					if _, isRing := fieldOf(ia.X, "route.Route", "wTargets"); isRing {
						fromRing = true
					}
				}
			}
			c.check(rule, fnKey(p)+"|returns element of the weighted ring", r.Pos(), fromRing,
				"a picker must select from Route.wTargets (the ring built from the weights); selecting from Route.Targets ignores the configured weights and can pick a zero-weight target")
			if rmw == nil || idx == nil {
				if rmw == nil && idx != nil {
					c.ob(rule, fnKey(p)+"|no shared cursor", r.Pos(), OK, "picker keeps no shared cursor")
				}
				return
			}
			usesRMW := derives(idx, func(x ssa.Value) bool { return x == rmw })
			usesOther := derives(idx, func(x ssa.Value) bool {
				if x == rmw {
					return false
				}
				if u, ok := x.(*ssa.UnOp); ok && u.Op == token.MUL {
					if k, ok := atomicTargetKey(u.X); ok && k == rmwKey {
						return true
					}
				}
				if call, ok := x.(*ssa.Call); ok && strings.HasPrefix(calleeName(&call.Call), "sync/atomic.Load") {
					if k, ok := atomicTargetKey(call.Call.Args[0]); ok && k == rmwKey {
						return true
					}
				}
				return false
			})
			c.check(rule, fnKey(p)+"|index from RMW result", r.Pos(), usesRMW && !usesOther,
				"the slot index must be computed from the value returned by the atomic read-modify-write on "+rmwKey+"; a separate (plain or atomic) read lets two concurrent requests draw the same slot, so targets no longer get their exact share")
		})
	}
}

// ---- S5 / S6: publish-after-build, one snapshot per operation --------------------------------

// publishers: repo functions that pass one of their parameters to (*atomic.Value).Store.
func publishers(c *Ctx) map[*ssa.Function]int {
	out := map[*ssa.Function]int{}
	for _, f := range c.AllFns {
		eachInstr(f, func(i ssa.Instruction) {
			cc := callCommon(i)
			kind, _, val, isAtomic := atomicOp(cc)
			if !isAtomic || kind != "store" || val == nil {
				return
			}
			for _, v := range publishedValue(val) {
				for k, p := range f.Params {
					if v == p {
						out[f] = k
					}
				}
			}
		})
	}
	return out
}

// writesThroughParam: f (transitively, depth-limited) stores through memory reachable from parameter k.
func writesThroughParam(c *Ctx, f *ssa.Function, k int, depth int, seen map[*ssa.Function]bool) bool {
	if depth > 4 || seen[f] || len(f.Blocks) == 0 || k >= len(f.Params) {
		return false
	}
	seen[f] = true
	p := f.Params[k]
	found := false
	rootIs := func(addr ssa.Value) bool { return addrRootedAt(addr, p) }
	eachInstr(f, func(i ssa.Instruction) {
		switch x := i.(type) {
		case *ssa.Store:
			if _, isAlloc := x.Addr.(*ssa.Alloc); !isAlloc && rootIs(x.Addr) {
				found = true
			}
		case *ssa.MapUpdate:
			if rootIs(x.Map) {
				found = true
			}
		}
		if cc := callCommon(i); cc != nil {
			if n := calleeName(cc); n == "builtin.delete" && len(cc.Args) > 0 && rootIs(cc.Args[0]) {
				found = true
			}
			if mutatingExternal[calleeName(cc)] && len(cc.Args) > 0 && rootIs(stripIface(cc.Args[0])) {
				found = true
			}
			if sc := cc.StaticCallee(); sc != nil && isRepoFn(sc) {
				for ai, a := range cc.Args {
					if rootIs(a) && writesThroughParam(c, unwrap(sc), ai, depth+1, seen) {
						found = true
					}
				}
			}
		}
	})
	return found
}

func runPublish(c *Ctx, ruleS5, ruleS6 string) {
	pubs := publishers(c)
	// direct stores
	nStores := 0
	for _, f := range c.AllFns {
		eachInstr(f, func(i ssa.Instruction) {
			cc := callCommon(i)
			kind, _, val, isAtomic := atomicOp(cc)
			if !isAtomic || kind != "store" || val == nil {
				return
			}
			if _, isBasic := stripIface(val).Type().Underlying().(*types.Basic); isBasic {
				return // counters and flags, not published structures
			}
			nStores++
			v := publishedValue(val)[0]
			// after the store, no write through v in this function
			bad := ""
			var badPos token.Pos
			eachInstr(f, func(j ssa.Instruction) {
				if j == i || !pathAvoiding(i, j, nil) {
					return
				}
				if w, ok := writesVia(c, j, v); ok {
					bad, badPos = w, j.Pos()
				}
			})
			pos := i.Pos()
			if bad != "" {
				pos = badPos
			}
			c.check(ruleS5, fnKey(f)+"|no write after atomic publish", pos, bad == "",
				"a value handed to atomic.Value.Store is visible to concurrent readers; "+bad+" after the store mutates the published structure (readers see a mixture of old and new)")
		})
	}
	c.atLeast(ruleS5, "atomic.Value.Store sites", nStores, 3)
	// callers of publishers
	nCalls := 0
	for _, f := range c.AllFns {
		eachInstr(f, func(i ssa.Instruction) {
			cc := callCommon(i)
			if cc == nil {
				return
			}
			sc := cc.StaticCallee()
			k, isPub := pubs[sc]
			if sc == nil || !isPub || k >= len(cc.Args) {
				return
			}
			nCalls++
			v := cc.Args[k]
			bad := ""
			var badPos token.Pos
			eachInstr(f, func(j ssa.Instruction) {
				if j == i || !pathAvoiding(i, j, nil) {
					return
				}
				if w, ok := writesVia(c, j, v); ok {
					bad, badPos = w, j.Pos()
				}
			})
			pos := i.Pos()
			if bad != "" {
				pos = badPos
			}
			c.check(ruleS5, fnKey(f)+"|no write after "+fnKey(sc), pos, bad == "",
				"after "+fnKey(sc)+" the value is published; "+bad+" afterwards mutates the table concurrent lookups are reading")
		})
	}
	c.atLeast(ruleS5, "calls of publishing functions", nCalls, 2)

	// S6: one snapshot per lookup
	getTable := c.fn("route", "GetTable")
	if !c.need(ruleS6, getTable, "route.GetTable") {
		return
	}
	sroots := c.servingRoots()
	nEntries := 0
	for _, r := range sroots {
		calls := []ssa.Instruction{}
		eachInstr(r, func(i ssa.Instruction) {
			if staticCalleeIs(i, getTable) {
				calls = append(calls, i)
			}
		})
		if len(calls) == 0 {
			continue
		}
		nEntries++
		multi := false
		for _, a := range calls {
			for _, b := range calls {
				if pathAvoiding(a, b, nil) {
					multi = true
				}
			}
		}
		c.check(ruleS6, fnKey(r)+"|one GetTable per request path", calls[0].Pos(), !multi,
			"a per-request entry must load the published table once; two loads on one path can straddle a table replacement, so one request is answered from a mixture of two tables")
	}
	// gRPC lookup helper is reached from the interceptor root
	if lk := c.method("proxy", "GrpcProxyInterceptor", "lookup"); lk != nil {
		calls := []ssa.Instruction{}
		eachInstr(lk, func(i ssa.Instruction) {
			if staticCalleeIs(i, getTable) {
				calls = append(calls, i)
			}
		})
		if len(calls) > 0 {
			nEntries++
			multi := false
			for _, a := range calls {
				for _, b := range calls {
					if pathAvoiding(a, b, nil) {
						multi = true
					}
				}
			}
			c.check(ruleS6, fnKey(lk)+"|one GetTable per request path", calls[0].Pos(), !multi, "a per-request entry must load the published table once")
		}
	}
	c.atLeast(ruleS6, "per-request entries that load the table", nEntries, 4)
	for _, m := range []string{"Lookup", "LookupHost", "lookup", "matchingHosts", "matchingHostNoGlob"} {
		f := c.method("route", "Table", m)
		if f == nil {
			c.undecided(ruleS6, "anchor|route.Table."+m, "method not found")
			continue
		}
		c.check(ruleS6, fnKey(f)+"|does not reload the table", f.Pos(), !c.reach(f)[getTable],
			"nothing below a table method may call GetTable(): the method must answer from its receiver, the snapshot taken by the caller")
	}
}

// writesVia: instruction j writes memory rooted at v (store, map update, delete, or a call that does).
func writesVia(c *Ctx, j ssa.Instruction, v ssa.Value) (string, bool) {
	rooted := func(addr ssa.Value) bool { return addrRootedAt(addr, v) }
	switch x := j.(type) {
	case *ssa.Store:
		if _, isAlloc := x.Addr.(*ssa.Alloc); !isAlloc && rooted(x.Addr) {
			return "a store through it", true
		}
	case *ssa.MapUpdate:
		if rooted(x.Map) {
			return "a map update on it", true
		}
	}
	if cc := callCommon(j); cc != nil {
		if calleeName(cc) == "builtin.delete" && len(cc.Args) > 0 && rooted(cc.Args[0]) {
			return "a delete on it", true
		}
		if mutatingExternal[calleeName(cc)] && len(cc.Args) > 0 && rooted(stripIface(cc.Args[0])) {
			return "a call to " + calleeName(cc) + " (reorders/overwrites its argument in place)", true
		}
		if sc := cc.StaticCallee(); sc != nil && isRepoFn(sc) {
			for ai, a := range cc.Args {
				if rooted(a) && writesThroughParam(c, unwrap(sc), ai, 0, map[*ssa.Function]bool{}) {
					return "a call to " + fnKey(sc) + " (which writes through that argument)", true
				}
			}
		}
	}
	return "", false
}

// ---- B1: glob cache bookkeeping ------------------------------------------------------------------

func runGlobCacheB1(c *Ctx) {
	get := c.method("route", "GlobCache", "Get")
	if !c.need("C06.B1", get, "route.GlobCache.Get") {
		return
	}
	isMapCall := func(i ssa.Instruction, m string) bool {
		cc := callCommon(i)
		if cc == nil || calleeName(cc) != "(*sync.Map)."+m || len(cc.Args) == 0 {
			return false
		}
		_, ok := fieldOf(cc.Args[0], "route.GlobCache", "m")
		return ok
	}
	var stores, deletes, loads []ssa.Instruction
	eachInstr(get, func(i ssa.Instruction) {
		switch {
		case isMapCall(i, "Store"):
			stores = append(stores, i)
		case isMapCall(i, "Delete"):
			deletes = append(deletes, i)
		case isMapCall(i, "Load"):
			loads = append(loads, i)
		}
	})
	c.atLeast("C06.B1", "sync.Map Store calls in GlobCache.Get", len(stores), 1)
	// ring slot stores: c.l[...] = pattern
	var slotStores []*ssa.Store
	eachInstr(get, func(i ssa.Instruction) {
		if st, ok := i.(*ssa.Store); ok {
			if ia, ok := st.Addr.(*ssa.IndexAddr); ok {
				if _, isL := fieldOf(ia.X, "route.GlobCache", "l"); isL {
					slotStores = append(slotStores, st)
				}
			}
		}
	})
	c.atLeast("C06.B1", "ring slot stores in GlobCache.Get", len(slotStores), 2)
	for _, st := range slotStores {
		ia := st.Addr.(*ssa.IndexAddr)
		idxPath := accessPath(ia.Index)
		// growth branch: index is the count field n and the store is under n < len(l)
		if strings.HasSuffix(idxPath, ".n") {
			ok := false
			for _, f := range factsAt(st.Block()) {
				if b, isB := f.Cond.(*ssa.BinOp); isB && b.Op == token.LSS && f.Truth && strings.HasSuffix(accessPath(b.X), ".n") {
					if call, isCall := b.Y.(*ssa.Call); isCall && calleeName(&call.Call) == "builtin.len" {
						ok = true
					}
				}
			}
			c.check("C06.B1", "(*route.GlobCache).Get|append slot under n < len(l)", st.Pos(), ok, "the ring may grow only while n < len(l); otherwise the cache exceeds its configured size or indexes out of range")
			continue
		}
		// overwrite branch: a Delete of the slot being overwritten must precede the Store into the map
		okDel := false
		for _, d := range deletes {
			dcc := callCommon(d)
			if len(dcc.Args) == 2 {
				key := stripIface(dcc.Args[1])
				if u, isLoad := key.(*ssa.UnOp); isLoad {
					if dia, isIA := u.X.(*ssa.IndexAddr); isIA && accessPath(dia.Index) == idxPath {
						// the delete must run before the slot is overwritten and before the map store on this path
						before := dominatesInstr(d, st)
						for _, ms := range stores {
							if ms.Block() == st.Block() || ms.Block().Dominates(st.Block()) || st.Block().Dominates(ms.Block()) {
								if sameRegion(ms, st) && !dominatesInstr(d, ms) {
									before = false
								}
							}
						}
						if before {
							okDel = true
						}
					}
				}
			}
		}
		c.check("C06.B1", "(*route.GlobCache).Get|evict before overwrite", st.Pos(), okDel,
			"when the ring is full the entry of the slot being overwritten must be deleted from the map before the new pattern is stored and the slot overwritten; otherwise the evicted key stays in the map forever (unbounded growth) or the new entry is deleted")
	}
	// double-check under the lock: a Load of the pattern dominated by the lock acquisition
	var lockI ssa.Instruction
	eachInstr(get, func(i ssa.Instruction) {
		if _, k := lockCallKind(i); k == "lock" {
			lockI = i
		}
	})
	if lockI != nil {
		re := false
		for _, l := range loads {
			if dominatesInstr(lockI, l) {
				re = true
			}
		}
		c.check("C06.B1", "(*route.GlobCache).Get|miss re-checked under the lock", lockI.Pos(), re,
			"two requests that miss the same pattern both reach the slow path; without re-reading the map under the lock the pattern is entered into the ring twice, and evicting the first copy later deletes the live map entry of the second")
	}
}

func sameRegion(a, b ssa.Instruction) bool {
	return a.Block() == b.Block() || a.Block().Dominates(b.Block()) || b.Block().Dominates(a.Block())
}

// ---- B2 / C02.P7 / P3: panics on the request path ---------------------------------------------------

// runRequestPathPanics: no MustCompile(non-constant), panic or unguarded integer division in
// functions reachable from Table.Lookup / LookupHost.
func runRequestPathPanics(c *Ctx, rule string) {
	var roots []*ssa.Function
	for _, m := range []string{"Lookup", "LookupHost"} {
		if f := c.method("route", "Table", m); f != nil {
			roots = append(roots, f)
		}
	}
	roots = append(roots, registryFuncs(c, "route", "Picker")...)
	roots = append(roots, registryFuncs(c, "route", "Matcher")...)
	if len(roots) < 4 {
		c.undecided(rule, "anchor|lookup roots", "Table.Lookup/LookupHost/pickers/matchers not all found")
		return
	}
	reach := c.reach(roots...)
	n := 0
	for f := range reach {
		eachInstr(f, func(i ssa.Instruction) {
			if cc := callCommon(i); cc != nil {
				name := calleeName(cc)
				if strings.HasSuffix(name, ".MustCompile") || strings.HasSuffix(name, ".MustParse") {
					n++
					_, isConst := cc.Args[0].(*ssa.Const)
					c.check(rule, fnKey(f)+"|"+name, i.Pos(), isConst,
						name+" of a non-constant pattern panics on the request path when the pattern does not compile (e.g. host pattern '['): the lookup must skip or report the pattern instead")
				}
			}
			if p, ok := i.(*ssa.Panic); ok {
				n++
				c.check(rule, fnKey(f)+"|panic", p.Pos(), false, "explicit panic reachable from a table lookup")
			}
			if b, ok := i.(*ssa.BinOp); ok && (b.Op == token.REM || b.Op == token.QUO) {
				if _, isInt := b.X.Type().Underlying().(*types.Basic); !isInt {
					return
				}
				bt := b.X.Type().Underlying().(*types.Basic)
				if bt.Info()&types.IsInteger == 0 {
					return
				}
				if _, isConst := b.Y.(*ssa.Const); isConst {
					return
				}
				n++
				ok, why := divisorNonZero(b)
				c.check(rule, fnKey(f)+"|integer division by "+shortPath(b.Y), b.Pos(), ok,
					"integer division/modulus whose divisor can be zero on the request path (panics: integer divide by zero): "+why)
			}
		})
	}
	c.atLeast(rule, "partial operations reachable from table lookups", n, 1)
}

var tmpRe = regexp.MustCompile(`(@?\bt\d+\b)`)

// shortPath renders a value for use in a construct key: SSA register names are
// replaced, since keys must not depend on instruction numbering.
func shortPath(v ssa.Value) string {
	p := tmpRe.ReplaceAllString(accessPath(v), "")
	if len(p) > 60 {
		p = p[:60]
	}
	return p
}

// divisorNonZero: the divisor of b is proved non-zero by a dominating branch fact
// (`d > 0`, `d != 0`, `len(x) > 0`, `n == 0 => return`) on the same value or the same access path.
func divisorNonZero(b *ssa.BinOp) (bool, string) {
	d := b.Y
	// strip conversions
	for {
		if cv, ok := d.(*ssa.Convert); ok {
			d = cv.X
			continue
		}
		break
	}
	same := samePath(d)
	// len(x): also accept facts on len of the same x
	for _, f := range factsAt(b.Block()) {
		cmp, ok := f.Cond.(*ssa.BinOp)
		if !ok {
			continue
		}
		x, y := cmp.X, cmp.Y
		strip := func(v ssa.Value) ssa.Value {
			for {
				if cv, ok := v.(*ssa.Convert); ok {
					v = cv.X
					continue
				}
				return v
			}
		}
		x, y = strip(x), strip(y)
		zeroY := func() bool { n, ok := constInt(y); return ok && n == 0 }
		zeroX := func() bool { n, ok := constInt(x); return ok && n == 0 }
		oneY := func() bool { n, ok := constInt(y); return ok && n == 1 }
		switch {
		case same(x) && zeroY():
			switch cmp.Op {
			case token.GTR, token.NEQ:
				if f.Truth {
					return true, ""
				}
			case token.EQL, token.LEQ:
				if !f.Truth {
					return true, ""
				}
			}
		case same(x) && oneY():
			if (cmp.Op == token.GEQ && f.Truth) || (cmp.Op == token.LSS && !f.Truth) {
				return true, ""
			}
		case same(y) && zeroX():
			switch cmp.Op {
			case token.LSS, token.NEQ:
				if f.Truth {
					return true, ""
				}
			case token.EQL, token.GEQ:
				if !f.Truth {
					return true, ""
				}
			}
		}
	}
	return false, "no dominating test shows " + shortPath(d) + " != 0"
}

// mutatingExternal: library functions that write through their first argument.
var mutatingExternal = map[string]bool{
	"sort.Slice": true, "sort.SliceStable": true, "sort.Sort": true, "sort.Stable": true, "sort.Strings": true, "sort.Ints": true,
	"slices.Sort": true, "slices.SortFunc": true, "slices.SortStableFunc": true, "slices.Reverse": true,
	"math/rand.Shuffle": false, "builtin.copy": true,
}
