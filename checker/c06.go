package main

import (
	"fmt"
	"go/token"
	"go/types"
	"regexp"
	"strings"

	"golang.org/x/tools/go/ssa"
)

func init() {
	register(&propDef{
		ID:      "C06",
		Level:   "other",
		Explain: "Data-race necessary conditions decided without a schedule, over all functions reachable from the per-request entry points (discovered by role). Sites are located by what they do inside a region (an exported entry plus the helpers and closures it uses), not by the name of the function that contains them today. (S1) no store, map update, delete or in-place library sort/copy on memory reachable from a structure that lives across requests (types reachable from package variables, atomically published values, handler receivers and captured variables) unless the object is freshly built on the request path or a write lock is held at the store - directly, through a locking wrapper method, or in every caller (interprocedural parameter/closure freshness, must-hold lockset); (S2) a field or variable that is the subject of a sync/atomic operation anywhere (function form or a method of atomic.Value / atomic.Pointer[T] / atomic.Uint64 ...) is never read or written plainly outside the construction of a not yet shared object; (S3) every access to a field of the reviewed lock table (tcp.Server.listeners/conns, the gRPC pool map, the glob-cache ring, the access-log writer, the Vault PKI cache, the server registry) holds a lock, directly, through a locking wrapper, or in every caller; initialising helpers that only ever run on an object under construction are exempt; when a listed field was renamed the fields of that type written under its mutex take its place; (S4) over everything a registered picker can return (through helpers, merged results): nil only on an edge where the weighted ring is known to be empty, every other result is an element of the ring (a []*Target field of Route other than Route.Targets), the round-robin index derives from the value returned by the atomic read-modify-write on the cursor and from no other read of it, and nothing overwrites the cursor with a separate atomic store; (S5) nothing writes a value after it is handed to an atomic publishing store or to a function that (transitively) publishes its parameter; (S6) each per-request entry loads the published table (any function returning a route.Table obtained from an atomic load) at most once per path, helpers included, and nothing below a method of route.Table reloads it; (B1) in the region of GlobCache.Get: the cache map is changed only inside the critical section, a ring slot is appended only under index < len(ring), a slot is overwritten only together with deleting the key it held before, and a miss is re-checked after the lock is taken; (B2) no MustCompile of a non-constant pattern and no unguarded integer division/modulus on the request path (guards may sit at the call site of a helper or behind a one-line predicate). Not decided: exact per-target pick counts under interleavings (arithmetic over histories) beyond their necessary condition S4.",
		Run:     runC06,
		Trusted: []string{"sync.Mutex/RWMutex provide mutual exclusion; sync/atomic operations are atomic; sync.Map is safe for concurrent use",
			"net/http hands each handler invocation its own *http.Request and ResponseWriter"},
		Mutants: []mutant{
			{Name: "Dump sorts the shared target slice in place", File: "route/table.go", Old: "func (t Table) Dump() string {\n", New: "func (t Table) Dump() string {\n\tfor _, rs := range t {\n\t\tfor _, r := range rs {\n\t\t\tsort.Slice(r.Targets, func(i, j int) bool { return r.Targets[i].Weight > r.Targets[j].Weight })\n\t\t}\n\t}\n", Expect: "C06.S5"},

			{Name: "remove mutex from GlobCache.Get", File: "route/glob_cache.go", Old: "\tc.mu.Lock()\n\tdefer c.mu.Unlock()\n", New: "", Expect: "C06.S1"},
			{Name: "cache redirect URL on shared target again", File: "route/table.go", Old: "redirect := *target\n\t\t\t\tredirect.BuildRedirectURL(req.URL)\n\t\t\t\ttarget = &redirect", New: "target.BuildRedirectURL(req.URL)", Expect: "C06.S1"},
			{Name: "plain r.total++", File: "route/picker.go", Old: "n := atomic.AddUint64(&r.total, 1) - 1", New: "n := r.total\n\tatomic.AddUint64(&r.total, 1)", Expect: "C06.S2"},
			{Name: "load then add", File: "route/picker.go", Old: "n := atomic.AddUint64(&r.total, 1) - 1", New: "n := atomic.LoadUint64(&r.total)\n\tatomic.AddUint64(&r.total, 1)", Expect: "C06.S4"},
			{Name: "picker returns from Targets", File: "route/picker.go", Old: "return r.wTargets[randIntn(len(r.wTargets))]", New: "return r.Targets[randIntn(len(r.Targets))]", Expect: "C06.S4"},
			{Name: "evict after store", File: "route/glob_cache.go", Old: "\tc.m.Delete(c.l[c.h])\n\tc.m.Store(pattern, glbCompiled)\n\tc.l[c.h] = pattern", New: "\tc.m.Store(pattern, glbCompiled)\n\tc.l[c.h] = pattern\n\tc.m.Delete(c.l[c.h])", Expect: "C06.B1"},
			{Name: "no re-check under lock", File: "route/glob_cache.go", Old: "\t// another request may have added the pattern while we were waiting\n\tif glb, ok := c.m.Load(pattern); ok {\n\t\treturn glb.(glob.Glob), nil\n\t}\n", New: "", Expect: "C06.B1"},
			{Name: "mutate table after SetTable", File: "main.go", Old: "\t\t\troute.SetTable(t)\n", New: "\t\t\troute.SetTable(t)\n\t\t\tdelete(t, \"\")\n", Expect: "C06.S5"},
			{Name: "second GetTable in lookup closure", File: "main.go", Old: "\t\t\tif t == nil {\n\t\t\t\tstatsHandler.Noroute.Add(1)", New: "\t\t\tif t == nil {\n\t\t\t\tt = route.GetTable().Lookup(r, \"\", pick, match, globCache, cfg.GlobMatchingDisabled)\n\t\t\t}\n\t\t\tif t == nil {\n\t\t\t\tstatsHandler.Noroute.Add(1)", Expect: "C06.S6"},
			{Name: "GetTable inside Table.lookup", File: "route/table.go", Old: "\thost = strings.ToLower(host) // routes are always added lowercase\n\tfor _, r := range t[host] {", New: "\thost = strings.ToLower(host) // routes are always added lowercase\n\tfor _, r := range GetTable()[host] {", Expect: "C06.S6"},
			{Name: "server registry read without the lock", File: "proxy/serve.go", Old: "\tmu.Lock()\n\tsrvs := make(map[string]Server, len(servers))", New: "\tsrvs := make(map[string]Server, len(servers))\n\tmu.Lock()", Expect: "C06.S3"},
			{Name: "connection registry touched after unlock", File: "proxy/tcp/server.go", Old: "\t\ts.conns[c] = true\n\t\ts.mu.Unlock()", New: "\t\ts.mu.Unlock()\n\t\ts.conns[c] = true", Expect: "C06.S3"},
			// ---- added by the hardening pass: breaks that exercise the rewritten rules
			{Name: "cursor reset by a separate atomic store", File: "route/picker.go", Old: "\tn := atomic.AddUint64(&r.total, 1) - 1\n", New: "\tn := atomic.AddUint64(&r.total, 1) - 1\n\tif n > 1<<62 {\n\t\tatomic.StoreUint64(&r.total, 0)\n\t}\n", Expect: "C06.S4"},
			{Name: "picker gives up on a ring of one", File: "route/picker.go", Old: "func rrPicker(r *Route) *Target {\n\tif len(r.wTargets) == 0 {", New: "func rrPicker(r *Route) *Target {\n\tif len(r.wTargets) <= 1 {", Expect: "C06.S4"},
			{Name: "picker helper reads the cursor a second time", File: "route/picker.go", Old: "\tn := atomic.AddUint64(&r.total, 1) - 1\n\treturn r.wTargets[n%uint64(len(r.wTargets))]\n}", New: "\treturn r.wTargets[r.bump()%uint64(len(r.wTargets))]\n}\n\nfunc (r *Route) bump() uint64 {\n\tatomic.AddUint64(&r.total, 1)\n\treturn atomic.LoadUint64(&r.total) - 1\n}", Expect: "C06.S4"},
			{Name: "pattern entered into the map before the lock is taken", File: "route/glob_cache.go", Old: "\tc.mu.Lock()\n\tdefer c.mu.Unlock()\n", New: "\tc.m.Store(pattern, glbCompiled)\n\tc.mu.Lock()\n\tdefer c.mu.Unlock()\n", Expect: "C06.B1"},
			{Name: "ring grows while n <= len(l)", File: "route/glob_cache.go", Old: "\tif c.n < len(c.l) {", New: "\tif c.n <= len(c.l) {", Expect: "C06.B1"},
			{Name: "eviction dropped by the extracted replace helper", File: "route/glob_cache.go", Old: "\tc.m.Delete(c.l[c.h])\n\tc.m.Store(pattern, glbCompiled)\n\tc.l[c.h] = pattern\n\tc.h = (c.h + 1) % len(c.l)\n\treturn glbCompiled, nil\n}", New: "\tc.replace(pattern, glbCompiled)\n\treturn glbCompiled, nil\n}\n\nfunc (c *GlobCache) replace(pattern string, g glob.Glob) {\n\tc.m.Store(pattern, g)\n\tc.l[c.h] = pattern\n\tc.h = (c.h + 1) % len(c.l)\n}", Expect: "C06.B1"},
			{Name: "table mutated after a local wrapper published it", File: "main.go", Old: "\t\t\troute.SetTable(t)\n", New: "\t\t\tpublish := func(nt route.Table) { route.SetTable(nt) }\n\t\t\tpublish(t)\n\t\t\tdelete(t, \"\")\n", Expect: "C06.S5"},
			{Name: "lookup closure loads the table twice through a helper", File: "main.go", Old: "\t\t\tt := route.GetTable().Lookup(r, r.Header.Get(\"trace\"), pick, match, globCache, cfg.GlobMatchingDisabled)\n", New: "\t\t\tcur := func() route.Table { return route.GetTable() }\n\t\t\tt := cur().Lookup(r, r.Header.Get(\"trace\"), pick, match, globCache, cfg.GlobMatchingDisabled)\n\t\t\tif t == nil {\n\t\t\t\tt = cur().Lookup(r, \"\", pick, match, globCache, cfg.GlobMatchingDisabled)\n\t\t\t}\n", Expect: "C06.S6"},
			{Name: "ring slot written by a helper that does not lock", File: "route/glob_cache.go", Old: "func NewGlobCache(size int) *GlobCache {", New: "func (c *GlobCache) Forget(pattern string) {\n\tfor i := range c.l {\n\t\tif c.l[i] == pattern {\n\t\t\tc.l[i] = \"\"\n\t\t}\n\t}\n}\n\nfunc NewGlobCache(size int) *GlobCache {", Expect: "C06.S3"},
			// ---- benign rewrites of kinds that are not in the corpus: must stay silent
			{Name: "benign: picker delegates the whole selection to a method of Route", File: "route/picker.go", Old: "func rrPicker(r *Route) *Target {\n\tif len(r.wTargets) == 0 {\n\t\treturn nil\n\t}\n\tn := atomic.AddUint64(&r.total, 1) - 1\n\treturn r.wTargets[n%uint64(len(r.wTargets))]\n}", New: "func rrPicker(r *Route) *Target { return r.next() }\n\nfunc (r *Route) next() *Target {\n\tring := r.wTargets\n\tif len(ring) < 1 {\n\t\treturn nil\n\t}\n\treturn ring[(atomic.AddUint64(&r.total, 1)-1)%uint64(len(ring))]\n}", Expect: ""},
			{Name: "benign: picker with a single return and a result variable", File: "route/picker.go", Old: "\tif len(r.wTargets) == 0 {\n\t\treturn nil\n\t}\n\treturn r.wTargets[randIntn(len(r.wTargets))]", New: "\tvar t *Target\n\tif n := len(r.wTargets); n > 0 {\n\t\tt = r.wTargets[randIntn(n)]\n\t}\n\treturn t", Expect: ""},
			{Name: "benign: picker registry filled by an init function", File: "route/picker.go", Old: "var Picker = map[string]picker{\n\t\"rnd\": rndPicker,\n\t\"rr\":  rrPicker,\n}", New: "var Picker = map[string]picker{}\n\nfunc init() {\n\tPicker[\"rnd\"] = rndPicker\n\tPicker[\"rr\"] = rrPicker\n}", Expect: ""},
			{Name: "benign: pickers as closures made by one constructor", File: "route/picker.go", Old: "var Picker = map[string]picker{\n\t\"rnd\": rndPicker,\n\t\"rr\":  rrPicker,\n}", New: "var Picker = map[string]picker{\n\t\"rnd\": pickWith(func(r *Route) uint64 { return uint64(randIntn(len(r.wTargets))) }),\n\t\"rr\":  pickWith(func(r *Route) uint64 { return atomic.AddUint64(&r.total, 1) - 1 }),\n}\n\nfunc pickWith(next func(r *Route) uint64) picker {\n\treturn func(r *Route) *Target {\n\t\tif len(r.wTargets) == 0 {\n\t\t\treturn nil\n\t\t}\n\t\treturn r.wTargets[next(r)%uint64(len(r.wTargets))]\n\t}\n}", Expect: ""},
			{Name: "benign: head kept in a local, modulus written as compare-and-reset", File: "route/glob_cache.go", Old: "\tc.m.Delete(c.l[c.h])\n\tc.m.Store(pattern, glbCompiled)\n\tc.l[c.h] = pattern\n\tc.h = (c.h + 1) % len(c.l)\n", New: "\thead := c.h\n\tc.m.Delete(c.l[head])\n\tc.m.Store(pattern, glbCompiled)\n\tc.l[head] = pattern\n\tc.h++\n\tif c.h == len(c.l) {\n\t\tc.h = 0\n\t}\n", Expect: ""},
			{Name: "benign: evicted key read first, deleted after the slot is overwritten", File: "route/glob_cache.go", Old: "\tc.m.Delete(c.l[c.h])\n\tc.m.Store(pattern, glbCompiled)\n\tc.l[c.h] = pattern\n", New: "\toldest := c.l[c.h]\n\tc.l[c.h] = pattern\n\tc.m.Store(pattern, glbCompiled)\n\tc.m.Delete(oldest)\n", Expect: ""},
			{Name: "benign: eviction in a helper, full-ring case first", File: "route/glob_cache.go", Old: "\tif c.n < len(c.l) {\n\t\tc.m.Store(pattern, glbCompiled)\n\t\tc.l[c.n] = pattern\n\t\tc.n++\n\t\treturn glbCompiled, nil\n\t}\n\n\t// otherwise, remove the oldest element and move\n\t// the head. Note that once the buffer is full\n\t// (c.n == len(c.l)) it will never become smaller\n\t// again.\n\t// TODO add logging for cache full - How will this impact performance\n\tc.m.Delete(c.l[c.h])\n\tc.m.Store(pattern, glbCompiled)\n\tc.l[c.h] = pattern\n\tc.h = (c.h + 1) % len(c.l)\n\treturn glbCompiled, nil\n}\n", New: "\tif c.n >= len(c.l) {\n\t\tc.evictOldest()\n\t\tc.m.Store(pattern, glbCompiled)\n\t\tc.l[c.h] = pattern\n\t\tc.h = (c.h + 1) % len(c.l)\n\t\treturn glbCompiled, nil\n\t}\n\tc.m.Store(pattern, glbCompiled)\n\tc.l[c.n] = pattern\n\tc.n++\n\treturn glbCompiled, nil\n}\n\nfunc (c *GlobCache) evictOldest() {\n\tc.m.Delete(c.l[c.h])\n}\n", Expect: ""},
			{Name: "benign: glob cache mutex renamed", File: "route/glob_cache.go", Old: "c.mu.", New: "c.guard.", All: true, More: []repl{{"\tmu sync.Mutex", "\tguard sync.Mutex"}}, Expect: ""},
			{Name: "benign: glob cache embeds its mutex", File: "route/glob_cache.go", Old: "\tc.mu.Lock()\n\tdefer c.mu.Unlock()\n", New: "\tc.Lock()\n\tdefer c.Unlock()\n", More: []repl{{"\tmu sync.Mutex", "\tsync.Mutex"}}, Expect: ""},
			{Name: "benign: explicit unlocks instead of defer in the glob cache", File: "route/glob_cache.go", Old: "\tc.mu.Lock()\n\tdefer c.mu.Unlock()\n\n\t// another request may have added the pattern while we were waiting\n\tif glb, ok := c.m.Load(pattern); ok {\n\t\treturn glb.(glob.Glob), nil\n\t}\n", New: "\tc.mu.Lock()\n\n\t// another request may have added the pattern while we were waiting\n\tif glb, ok := c.m.Load(pattern); ok {\n\t\tc.mu.Unlock()\n\t\treturn glb.(glob.Glob), nil\n\t}\n", More: []repl{{"\t\tc.n++\n\t\treturn glbCompiled, nil", "\t\tc.n++\n\t\tc.mu.Unlock()\n\t\treturn glbCompiled, nil"}, {"\tc.h = (c.h + 1) % len(c.l)\n\treturn glbCompiled, nil", "\tc.h = (c.h + 1) % len(c.l)\n\tc.mu.Unlock()\n\treturn glbCompiled, nil"}}, Expect: ""},
			{Name: "benign: tcp server mutex renamed", File: "proxy/tcp/server.go", Old: "s.mu.", New: "s.lk.", All: true, More: []repl{{"\tmu        sync.Mutex", "\tlk        sync.Mutex"}}, Expect: ""},
			{Name: "benign: server registry mutex renamed", File: "proxy/serve.go", Old: "\tmu.", New: "\tserversMu.", All: true, More: []repl{{"\tmu      sync.Mutex", "\tserversMu sync.Mutex"}, {"defer mu.Unlock()", "defer serversMu.Unlock()"}}, Expect: ""},
			{Name: "benign: lookup closure keeps the snapshot in a local and delegates to a function", File: "main.go", Old: "\t\t\tt := route.GetTable().Lookup(r, r.Header.Get(\"trace\"), pick, match, globCache, cfg.GlobMatchingDisabled)\n", New: "\t\t\tsnapshot := func() route.Table { return route.GetTable() }\n\t\t\ttbl := snapshot()\n\t\t\tt := tbl.Lookup(r, r.Header.Get(\"trace\"), pick, match, globCache, cfg.GlobMatchingDisabled)\n", Expect: ""},
			{Name: "benign: table published through a function value and only read afterwards", File: "main.go", Old: "\t\t\troute.SetTable(t)\n", New: "\t\t\tpublish := func(nt route.Table) { route.SetTable(nt) }\n\t\t\tpublish(t)\n\t\t\t_ = len(t)\n", Expect: ""},
			{Name: "renamed ring head read by an accessor that does not lock", File: "route/glob_cache.go", Old: "c.h", New: "c.head", All: true, More: []repl{{"\th int", "\thead int"}, {"func NewGlobCache(size int) *GlobCache {", "func (c *GlobCache) Head() int { return c.head }\n\nfunc NewGlobCache(size int) *GlobCache {"}}, Expect: "C06.S3"},
			{Name: "lock wrappers, ring touched after the unlocking wrapper", File: "proxy/tcp/server.go", Old: "\t\ts.conns[c] = true\n\t\ts.mu.Unlock()", New: "\t\ts.unlock()\n\t\ts.conns[c] = true", More: []repl{{"func (s *Server) Serve(l net.Listener) error {", "func (s *Server) unlock() { s.mu.Unlock() }\n\nfunc (s *Server) Serve(l net.Listener) error {"}}, Expect: "C06.S3"},
			{Name: "benign: glob cache locked through wrapper methods", File: "route/glob_cache.go", Old: "\tc.mu.Lock()\n\tdefer c.mu.Unlock()\n", New: "\tc.lock()\n\tdefer c.unlock()\n", More: []repl{{"func NewGlobCache(size int) *GlobCache {", "func (c *GlobCache) lock()   { c.mu.Lock() }\nfunc (c *GlobCache) unlock() { c.mu.Unlock() }\n\nfunc NewGlobCache(size int) *GlobCache {"}}, Expect: ""},
			{Name: "benign: constructor delegates the initialisation to a helper", File: "route/glob_cache.go", Old: "\treturn &GlobCache{\n\t\tl: make([]string, size),\n\t}\n}", New: "\tc := &GlobCache{}\n\tc.setup(size)\n\treturn c\n}\n\nfunc (c *GlobCache) setup(size int) {\n\tc.l = make([]string, size)\n\tc.h, c.n = 0, 0\n}", Expect: ""},
			{Name: "benign: ring head field renamed", File: "route/glob_cache.go", Old: "c.h", New: "c.head", All: true, More: []repl{{"\th int", "\thead int"}}, Expect: ""},
			{Name: "benign: ring fields and map renamed", File: "route/glob_cache.go", Old: "c.l", New: "c.ring", All: true, More: []repl{{"\tl []string", "\tring []string"}, {"\t\tl: make([]string, size),", "\t\tring: make([]string, size),"}}, Expect: ""},
			{Name: "benign: emptiness and size of the ring behind one-line methods", File: "route/picker.go", Old: "func rrPicker(r *Route) *Target {\n\tif len(r.wTargets) == 0 {\n\t\treturn nil\n\t}\n\tn := atomic.AddUint64(&r.total, 1) - 1\n\treturn r.wTargets[n%uint64(len(r.wTargets))]\n}", New: "func rrPicker(r *Route) *Target {\n\tif r.noTargets() {\n\t\treturn nil\n\t}\n\tn := atomic.AddUint64(&r.total, 1) - 1\n\treturn r.wTargets[n%uint64(len(r.wTargets))]\n}\n\nfunc (r *Route) noTargets() bool { return len(r.wTargets) == 0 }", Expect: ""},
			{Name: "benign: ring size from a one-line method", File: "route/picker.go", Old: "func rrPicker(r *Route) *Target {\n\tif len(r.wTargets) == 0 {\n\t\treturn nil\n\t}\n\tn := atomic.AddUint64(&r.total, 1) - 1\n\treturn r.wTargets[n%uint64(len(r.wTargets))]\n}", New: "func rrPicker(r *Route) *Target {\n\tsize := r.slots()\n\tswitch size {\n\tcase 0:\n\t\treturn nil\n\t}\n\tn := atomic.AddUint64(&r.total, 1) - 1\n\treturn r.wTargets[n%size]\n}\n\nfunc (r *Route) slots() uint64 { return uint64(len(r.wTargets)) }", Expect: ""},
			{Name: "benign: redirect copy made with new and an assignment", File: "route/table.go", Old: "redirect := *target\n\t\t\t\tredirect.BuildRedirectURL(req.URL)\n\t\t\t\ttarget = &redirect", New: "redirect := new(Target)\n\t\t\t\t*redirect = *target\n\t\t\t\tredirect.BuildRedirectURL(req.URL)\n\t\t\t\ttarget = redirect", Expect: ""},
			{Name: "benign: redirect copy made by a cloning method", File: "route/table.go", Old: "redirect := *target\n\t\t\t\tredirect.BuildRedirectURL(req.URL)\n\t\t\t\ttarget = &redirect", New: "target = target.redirected(req.URL)", More: []repl{{"func (t Table) LookupHost(", "func (t *Target) redirected(u *url.URL) *Target {\n\tc := *t\n\tc.BuildRedirectURL(u)\n\treturn &c\n}\n\nfunc (t Table) LookupHost("}}, Expect: ""},
			{Name: "benign: host lookup closure turned into a method value", File: "main.go", Old: "\treturn func(host string) *route.Target {\n\t\tt := route.GetTable().LookupHost(host, pick)\n\t\tif t == nil {\n\t\t\tnotFound.Add(1)\n\t\t\tlog.Print(\"[WARN] No route for \", host)\n\t\t}\n\t\treturn t\n\t}\n}", New: "\treturn hostLookup{pick, notFound}.find\n}\n\ntype hostLookup struct {\n\tpick     func(*route.Route) *route.Target\n\tnotFound gkm.Counter\n}\n\nfunc (h hostLookup) find(host string) *route.Target {\n\tt := route.GetTable().LookupHost(host, h.pick)\n\tif t == nil {\n\t\th.notFound.Add(1)\n\t\tlog.Print(\"[WARN] No route for \", host)\n\t}\n\treturn t\n}", Expect: ""},
			{Name: "benign: gRPC lookup helper renamed", File: "proxy/grpc_handler.go", Old: "g.lookup(ctx, info.FullMethod)", New: "g.findTarget(ctx, info.FullMethod)", More: []repl{{"func (g GrpcProxyInterceptor) lookup(ctx context.Context", "func (g GrpcProxyInterceptor) findTarget(ctx context.Context"}}, Expect: ""},
			{Name: "benign: glob cache insert statements reordered, switch instead of if", File: "route/glob_cache.go", Old: "\tif c.n < len(c.l) {\n\t\tc.m.Store(pattern, glbCompiled)\n\t\tc.l[c.n] = pattern\n\t\tc.n++\n\t\treturn glbCompiled, nil\n\t}\n", New: "\tswitch {\n\tcase c.n < len(c.l):\n\t\tc.l[c.n] = pattern\n\t\tc.n++\n\t\tc.m.Store(pattern, glbCompiled)\n\t\treturn glbCompiled, nil\n\t}\n", More: []repl{{"\tc.m.Delete(c.l[c.h])\n\tc.m.Store(pattern, glbCompiled)\n\tc.l[c.h] = pattern\n", "\tc.m.Delete(c.l[c.h])\n\tc.l[c.h] = pattern\n\tc.m.Store(pattern, glbCompiled)\n"}}, Expect: ""},
			{Name: "benign: tcp connection registry updated by locked helper methods", File: "proxy/tcp/server.go", Old: "\t\ts.mu.Lock()\n\t\tif s.conns == nil {\n\t\t\ts.conns = map[net.Conn]bool{}\n\t\t}\n\t\ts.conns[c] = true\n\t\ts.mu.Unlock()", New: "\t\ts.track(c)", More: []repl{{"func (s *Server) Serve(l net.Listener) error {", "func (s *Server) track(c net.Conn) {\n\ts.mu.Lock()\n\tdefer s.mu.Unlock()\n\tif s.conns == nil {\n\t\ts.conns = map[net.Conn]bool{}\n\t}\n\ts.conns[c] = true\n}\n\nfunc (s *Server) Serve(l net.Listener) error {"}}, Expect: ""},
			{Name: "request path divides by the ring size without a guard", File: "route/picker.go", Old: "func rrPicker(r *Route) *Target {\n\tif len(r.wTargets) == 0 {\n\t\treturn nil\n\t}\n", New: "func rrPicker(r *Route) *Target {\n", Expect: "C06.B2"},
			{Name: "MustCompile of a host pattern on the request path", File: "route/table.go", Old: "\t\t\t// a pattern which does not compile cannot match\n\t\t\tlog.Print(\"[ERROR] Compiling glob - \", err)\n\t\t\tcontinue", New: "\t\t\tg = glob.MustCompile(normpat)", Expect: "C06.B2"},
			{Name: "benign: table touched before it is published, inside the update loop", File: "main.go", Old: "\t\t\troute.SetTable(t)\n", New: "\t\t\tif len(t) < 0 {\n\t\t\t\tdelete(t, \"\")\n\t\t\t}\n\t\t\troute.SetTable(t)\n", Expect: ""},
			{Name: "benign: cache entry point renamed, insertion in a second method", File: "route/glob_cache.go", Old: "func (c *GlobCache) Get(pattern string) (glob.Glob, error) {", New: "func (c *GlobCache) Get(pattern string) (glob.Glob, error) { return c.Compiled(pattern) }\n\nfunc (c *GlobCache) Compiled(pattern string) (glob.Glob, error) {", Expect: ""},
			{Name: "benign: slot selection in a method with another receiver name, guard at the call site", File: "route/picker.go", Old: "\tn := atomic.AddUint64(&r.total, 1) - 1\n\treturn r.wTargets[n%uint64(len(r.wTargets))]\n}", New: "\treturn r.slot(atomic.AddUint64(&r.total, 1) - 1)\n}\n\nfunc (rt *Route) slot(n uint64) *Target {\n\treturn rt.wTargets[n%uint64(len(rt.wTargets))]\n}", Expect: ""},
			{Name: "slot helper called without the emptiness guard", File: "route/picker.go", Old: "func rrPicker(r *Route) *Target {\n\tif len(r.wTargets) == 0 {\n\t\treturn nil\n\t}\n\tn := atomic.AddUint64(&r.total, 1) - 1\n\treturn r.wTargets[n%uint64(len(r.wTargets))]\n}", New: "func rrPicker(r *Route) *Target {\n\treturn r.slot(atomic.AddUint64(&r.total, 1) - 1)\n}\n\nfunc (rt *Route) slot(n uint64) *Target {\n\treturn rt.wTargets[n%uint64(len(rt.wTargets))]\n}", Expect: "C06.B2"},
			{Name: "benign: a second, independent sync.Map of the cache is stored to outside the mutex", File: "route/glob_cache.go", Old: "func NewGlobCache(size int) *GlobCache {", New: "// SetHosts remembers the patterns that matched a request host (a memo next to the ring, safe on its own).\nfunc (c *GlobCache) SetHosts(host string, patterns []string) {\n\tif len(c.l) == 0 {\n\t\treturn\n\t}\n\tc.hosts.Store(host, patterns[:len(patterns):len(patterns)])\n}\n\nfunc (c *GlobCache) Hosts(host string) ([]string, bool) {\n\tv, ok := c.hosts.Load(host)\n\tif !ok {\n\t\treturn nil, false\n\t}\n\treturn v.([]string), true\n}\n\nfunc NewGlobCache(size int) *GlobCache {", More: []repl{{"\tm sync.Map\n", "\tm sync.Map\n\n\thosts sync.Map\n"}}, Expect: ""},
			{Name: "independent second map present, pattern still entered into the ring's map before the lock", File: "route/glob_cache.go", Old: "\tc.mu.Lock()\n\tdefer c.mu.Unlock()\n", New: "\tc.m.Store(pattern, glbCompiled)\n\tc.hosts.Store(pattern, true)\n\tc.mu.Lock()\n\tdefer c.mu.Unlock()\n", More: []repl{{"\tm sync.Map\n", "\tm sync.Map\n\n\thosts sync.Map\n"}}, Expect: "C06.B1"},
			{Name: "benign: RWMutex write lock", File: "route/glob_cache.go", Old: "mu sync.Mutex", New: "mu sync.RWMutex", Expect: ""},
			{Name: "benign: explicit unlock instead of defer in picker-free code", File: "route/picker.go", Old: "n := atomic.AddUint64(&r.total, 1) - 1", New: "n := atomic.AddUint64(&r.total, 1)\n\tn--", Expect: ""},
		},
	})
}

func runC06(c *Ctx) {
	sa := c06sharedFor(c)
	n := c06s1(sa, "C06.S1")
	c.atLeast("C06.S1", "stores into cross-request structures reachable from serving roots", n, 3)
	runS2(c, sa, "C06.S2")
	n3 := c06s3(sa, "C06.S3")
	c.atLeast("C06.S3", "accesses to lock-guarded fields", n3, 10)
	runPickers(c, "C06.S4")
	runPublish(c, "C06.S5", "C06.S6")
	runGlobCacheB1(c)
	runRequestPathPanics(c, "C06.B2")
	c06dump(c)
}

// ---- S2: atomic consistency --------------------------------------------------------------

func atomicTargetKey(v ssa.Value) (string, bool) {
	switch x := v.(type) {
	case *ssa.FieldAddr:
		k := typeKey(x.X.Type())
		if k == "" {
			return "", false
		}
		return strings.TrimPrefix(k, repoMod+"/") + "." + fieldName(x.X.Type(), x.Field), true
	case *ssa.Global:
		return x.Pkg.Pkg.Name() + "." + x.Name(), true
	}
	return "", false
}

// s2Packages: S2 is applied to the packages on the request path of the properties that use it
// (route, proxy, proxy/tcp, cert, main). The debug-only metrics "label" provider, whose With()
// copies an atomically updated counter plainly, is outside every property's anchors (observed, not claimed).
var s2Packages = map[string]bool{"route": true, "proxy": true, "tcp": true, "cert": true, "main": true, "gzip": true, "logger": true, "noroute": true}

// runS2: a field or package variable that is the subject of a sync/atomic operation anywhere (function form
// atomic.AddUint64(&x.f, ..) or a method of atomic.Value / atomic.Pointer[T] / atomic.Uint64 ...) has no plain
// load or store outside package initialisation and outside the construction of a not yet shared object.
func runS2(c *Ctx, sa *sharedAnalysis, rule string) {
	atomics := map[string]token.Pos{}
	for _, f := range c.AllFns {
		if rp := c06rootPkg(f); rp == nil || !s2Packages[rp.Pkg.Name()] {
			continue
		}
		eachInstr(f, func(i ssa.Instruction) {
			if as, ok := c06atomicSiteOf(i); ok {
				if _, seen := atomics[as.key]; !seen {
					atomics[as.key] = i.Pos()
				}
			}
		})
	}
	c.atLeast(rule, "fields/variables accessed through sync/atomic", len(atomics), 1)
	plain := map[string]bool{}
	for _, f := range c.AllFns {
		if isInitFn(f) {
			continue
		}
		eachInstr(f, func(i ssa.Instruction) {
			var addr ssa.Value
			what := ""
			switch x := i.(type) {
			case *ssa.UnOp:
				if x.Op != token.MUL {
					return
				}
				addr, what = x.X, "plain read"
			case *ssa.Store:
				addr, what = x.Addr, "plain write"
			default:
				return
			}
			k, ok := atomicTargetKey(addr)
			if !ok {
				return
			}
			if _, isAtomic := atomics[k]; !isAtomic {
				return
			}
			// initialisation of a freshly built struct (a literal, or an object a constructor helper just returned)
			// is not shared yet
			if fa, isFA := addr.(*ssa.FieldAddr); isFA && c06notYetShared(sa, fa.X, f) {
				return
			}
			plain[k] = true
			c.ob(rule, fnKey(f)+"|"+what+" of "+k, i.Pos(), Viol,
				fmt.Sprintf("%s is accessed with sync/atomic at %s but has a %s here: the plain access races with the atomic ones (torn/stale value), e.g. two requests read the same round-robin cursor", k, c.pos(atomics[k]), what))
		})
	}
	for k, p := range atomics {
		if !plain[k] {
			c.ob(rule, "atomic-only|"+k, p, OK, "every access to "+k+" outside package initialisation goes through sync/atomic")
		}
	}
}

// c06notYetShared: base is an object allocated in this function, or obtained from a repository constructor that
// returns a freshly allocated object on all its returns.
func c06notYetShared(sa *sharedAnalysis, base ssa.Value, in *ssa.Function) bool {
	switch x := base.(type) {
	case *ssa.Alloc:
		return true
	case *ssa.Call:
		if sc := x.Call.StaticCallee(); sc != nil && sa != nil {
			if g := unwrap(sc); isRepoFn(g) && len(g.Blocks) > 0 {
				return sa.returnsFresh(g, 0)
			}
		}
	case *ssa.Phi:
		for _, e := range x.Edges {
			if !c06notYetShared(sa, e, in) {
				return false
			}
		}
		return len(x.Edges) > 0
	}
	return false
}

// ---- S4 / R2 / R3: pickers ------------------------------------------------------------------

// registryFuncs returns the functions stored as values in the package-level map pkg.name: the entries of the map
// literal the variable is initialised with, and entries added to the variable by any function of the package
// (`func init() { Picker["rr"] = rrPicker }`). An entry may be a named function, a closure, a method value or the
// result of a repository function that returns one of those; one element per map entry.
func registryFuncs(c *Ctx, pkg, name string) []*ssa.Function {
	g := c.global(pkg, name)
	sp := c.spkg(pkg)
	if g == nil || sp == nil {
		return nil
	}
	var out []*ssa.Function
	fns := c.fnsWhere(pkg, func(*ssa.Function) bool { return true })
	if initFn := sp.Func("init"); initFn != nil {
		// the synthetic package initialiser (map literals of package variables) is not among AllFns
		fns = append([]*ssa.Function{initFn}, fns...)
	}
	seenFn := map[*ssa.Function]bool{}
	for _, fn := range fns {
		if seenFn[fn] {
			continue
		}
		seenFn[fn] = true
		eachInstr(fn, func(i ssa.Instruction) {
			mu, ok := i.(*ssa.MapUpdate)
			if !ok {
				return
			}
			// the map is the one held by the global
			isTarget := false
			switch m := mu.Map.(type) {
			case *ssa.MakeMap:
				for _, r := range *m.Referrers() {
					if st, ok := r.(*ssa.Store); ok && st.Addr == g {
						isTarget = true
					}
				}
			case *ssa.UnOp:
				isTarget = m.Op == token.MUL && m.X == g
			}
			if !isTarget {
				return
			}
			for _, f := range funcsOf(mu.Value) {
				if isRepoFn(f) && len(f.Blocks) > 0 {
					out = append(out, f)
					break
				}
			}
		})
	}
	return out
}

// runPickers (C06.S4, C04.R2/R3). For every function registered in route.Picker, over everything it can return
// (results of helpers it delegates to included):
//   - "no target" (nil) is returned only on an edge on which the weighted ring is known to be empty;
//   - every other result is an element of the weighted ring of the route (a []*Target field of Route other than the
//     configuration-facing list Route.Targets);
//   - when the picker's region advances a shared cursor (an atomic read-modify-write on a Route field), the slot index
//     derives from the value that read-modify-write returned and from no other read of the cursor; and nothing in the
//     repository overwrites the cursor with a blind atomic store (two separate atomic operations are not one).
func runPickers(c *Ctx, rule string) {
	pickers := registryFuncs(c, "route", "Picker")
	c.atLeast(rule, "functions registered in route.Picker", len(pickers), 2)
	isRing := func(v ssa.Value) bool { return c06ringField(v) }
	fromRing := func(v ssa.Value) bool { return derives(v, isRing) }
	cursors := map[string]token.Pos{}
	done := map[*ssa.Function]bool{}
	for _, p := range pickers {
		if done[p] {
			continue
		}
		done[p] = true
		// the atomic read-modify-writes on a Route field in the picker and the helpers it calls
		rmw := map[ssa.Value]bool{}
		rmwKey := ""
		eachInstrOf(c.region(p), func(_ *ssa.Function, i ssa.Instruction) {
			as, ok := c06atomicSiteOf(i)
			if !ok || !c06isRMW(as.kind) || !strings.HasPrefix(as.key, "route.Route.") {
				return
			}
			if v, isV := i.(ssa.Value); isV {
				rmw[v] = true
				rmwKey = as.key
				if _, seen := cursors[as.key]; !seen {
					cursors[as.key] = i.Pos()
				}
			}
		})
		results := c06results(p)
		c.atLeast(rule, "results of picker "+fnKey(p), len(results), 1)
		for _, r := range results {
			if isNilConst(r.v) {
				// "no target" is acceptable only when the ring is known to be empty
				empty := false
				for _, f := range r.facts() {
					if c06zeroLenFact(f, fromRing) {
						empty = true
					}
				}
				c.check(rule, fnKey(p)+"|nil only for an empty ring", r.pos, empty, "a picker may report no target only when the weighted ring is empty")
				continue
			}
			// result must be an element of the ring
			var idx ssa.Value
			onRing := false
			if u, ok := r.v.(*ssa.UnOp); ok && u.Op == token.MUL {
				if ia, ok := u.X.(*ssa.IndexAddr); ok {
					idx = ia.Index
					onRing = fromRing(ia.X) && !derives(ia.X, c06plainTargetsField)
				}
			}
			c.check(rule, fnKey(p)+"|returns element of the weighted ring", r.pos, onRing,
				"a picker must select from Route.wTargets (the ring built from the weights); selecting from Route.Targets ignores the configured weights and can pick a zero-weight target")
			if len(rmw) == 0 || idx == nil {
				if len(rmw) == 0 && idx != nil {
					c.ob(rule, fnKey(p)+"|no shared cursor", r.pos, OK, "picker keeps no shared cursor")
				}
				continue
			}
			usesRMW := derives(idx, func(x ssa.Value) bool { return rmw[x] })
			usesOther := derives(idx, func(x ssa.Value) bool {
				if rmw[x] {
					return false
				}
				if u, ok := x.(*ssa.UnOp); ok && u.Op == token.MUL {
					if k, ok := atomicTargetKey(u.X); ok && k == rmwKey {
						return true
					}
				}
				if call, ok := x.(*ssa.Call); ok {
					if as, ok := c06atomicSiteOf(call); ok && as.kind == "load" && as.key == rmwKey {
						return true
					}
				}
				return false
			})
			c.check(rule, fnKey(p)+"|index from RMW result", r.pos, usesRMW && !usesOther,
				"the slot index must be computed from the value returned by the atomic read-modify-write on "+rmwKey+"; a separate (plain or atomic) read lets two concurrent requests draw the same slot, so targets no longer get their exact share")
		}
	}
	// the cursor is advanced by its read-modify-write only
	for key, pos := range cursors {
		clean := true
		for _, f := range c.AllFns {
			if isInitFn(f) {
				continue
			}
			eachInstr(f, func(i ssa.Instruction) {
				as, ok := c06atomicSiteOf(i)
				if !ok || as.key != key || as.kind != "store" {
					return
				}
				if fa, isFA := callCommon(i).Args[0].(*ssa.FieldAddr); isFA {
					if _, isAlloc := fa.X.(*ssa.Alloc); isAlloc {
						return // construction
					}
				}
				clean = false
				c.ob(rule, fnKey(f)+"|index from RMW result: no blind store to the cursor", i.Pos(), Viol,
					"the round-robin cursor "+key+" is advanced by an atomic read-modify-write at "+c.pos(pos)+"; a separate atomic store (wrap-around, reset) is a second operation: requests that draw a slot between the two repeat or skip slots, so a full cycle no longer gives every target its exact share")
			})
		}
		if clean {
			c.ob(rule, "cursor|index from RMW result: "+key+" is written by its read-modify-write only", pos, OK, "no blind atomic store to the cursor")
		}
	}
}

// ---- S5 / S6: publish-after-build, one snapshot per operation --------------------------------

// publishers: repository functions that publish one of their parameters: they hand it to an atomic store / swap /
// compare-and-swap (any spelling: atomic.Value, atomic.Pointer[T] with the address of a copy, unsafe pointers), or pass
// it on to a function that does (transitively: a setter that validates and delegates, a helper type around the
// atomic cell, a wrapper in the caller's package). Maps each publisher to the index of the published parameter.
func publishers(c *Ctx) map[*ssa.Function]int {
	out := map[*ssa.Function]int{}
	for _, f := range c.AllFns {
		eachInstr(f, func(i ssa.Instruction) {
			cc := callCommon(i)
			kind, _, val, isAtomic := atomicOp(cc)
			if !isAtomic || (kind != "store" && kind != "swap" && kind != "cas") || val == nil {
				return
			}
			if _, isBasic := stripIface(val).Type().Underlying().(*types.Basic); isBasic {
				return
			}
			for _, v := range c06publishedParts(val) {
				if k, ok := c06flowsFromParam(v, f); ok {
					out[f] = k
				}
			}
		})
	}
	for changed, iter := true, 0; changed && iter < 6; iter++ {
		changed = false
		for _, f := range c.AllFns {
			if _, known := out[f]; known {
				continue
			}
			eachInstr(f, func(i ssa.Instruction) {
				cc := callCommon(i)
				if cc == nil {
					return
				}
				for _, g := range c06calleesOf(cc) {
					k, isPub := out[g]
					if !isPub || g == f {
						continue
					}
					args := c06argsFor(cc, g)
					if k >= len(args) {
						continue
					}
					if j, ok := c06flowsFromParam(args[k], f); ok {
						if _, known := out[f]; !known {
							out[f] = j
							changed = true
						}
					}
				}
			})
		}
	}
	return out
}

// c06argsFor: the arguments of the call aligned with g's parameters (a bound method value called dynamically does not
// carry its receiver among the arguments).
func c06argsFor(cc *ssa.CallCommon, g *ssa.Function) []ssa.Value {
	if cc.StaticCallee() == nil && g.Signature.Recv() != nil && len(g.Params) == len(cc.Args)+1 {
		return append([]ssa.Value{nil}, cc.Args...)
	}
	return cc.Args
}

// writesThroughParam: f (transitively, depth-limited) stores through memory reachable from parameter k.
func writesThroughParam(c *Ctx, f *ssa.Function, k int, depth int, seen map[*ssa.Function]bool) bool {
	if depth > 4 || seen[f] || len(f.Blocks) == 0 || k >= len(f.Params) {
		return false
	}
	seen[f] = true
	p := f.Params[k]
	found := false
	rootIs := func(addr ssa.Value) bool { return addrRootedAt(addr, p) }
	eachInstr(f, func(i ssa.Instruction) {
		switch x := i.(type) {
		case *ssa.Store:
			if _, isAlloc := x.Addr.(*ssa.Alloc); !isAlloc && rootIs(x.Addr) {
				found = true
			}
		case *ssa.MapUpdate:
			if rootIs(x.Map) {
				found = true
			}
		}
		if cc := callCommon(i); cc != nil {
			if n := calleeName(cc); n == "builtin.delete" && len(cc.Args) > 0 && rootIs(cc.Args[0]) {
				found = true
			}
			if mutatingExternal[calleeName(cc)] && len(cc.Args) > 0 && rootIs(mutatedArg(cc)) {
				found = true
			}
			if sc := cc.StaticCallee(); sc != nil && isRepoFn(sc) {
				for ai, a := range cc.Args {
					if rootIs(a) && writesThroughParam(c, unwrap(sc), ai, depth+1, seen) {
						found = true
					}
				}
			}
		}
	})
	return found
}

// c06tableLoaders: the functions that hand out the published routing table: they return a route.Table that derives
// from an atomic load (route.GetTable today; also a helper type's load method, a renamed or additional accessor).
func c06tableLoaders(c *Ctx) map[*ssa.Function]bool {
	out := map[*ssa.Function]bool{}
	isLoad := func(v ssa.Value) bool {
		call, ok := v.(*ssa.Call)
		if !ok {
			return false
		}
		kind, _, _, isAtomic := atomicOp(&call.Call)
		return isAtomic && kind == "load"
	}
	for _, f := range c.AllFns {
		res := f.Signature.Results()
		if res.Len() != 1 || !namedIs(res.At(0).Type(), "route.Table") {
			continue
		}
		eachInstr(f, func(i ssa.Instruction) {
			if r, ok := i.(*ssa.Return); ok && len(r.Results) == 1 && derives(r.Results[0], isLoad) {
				out[f] = true
			}
		})
	}
	return out
}

// c06loadSites: the instructions of f that (may) load the published table: a call of a loader, or a static call of a
// repository helper that may do so (transitively).
func c06loadSites(f *ssa.Function, loaders map[*ssa.Function]bool) []ssa.Instruction {
	isLoaderCall := func(i ssa.Instruction) bool {
		cc := callCommon(i)
		if cc == nil {
			return false
		}
		if _, isDefer := i.(*ssa.Defer); isDefer {
			return false
		}
		for _, g := range c06calleesOf(cc) {
			if loaders[g] {
				return true
			}
		}
		return false
	}
	lifted := liftMay(isLoaderCall)
	var out []ssa.Instruction
	eachInstr(f, func(i ssa.Instruction) {
		if _, isGo := i.(*ssa.Go); isGo {
			return
		}
		if lifted(i) {
			out = append(out, i)
		}
	})
	return out
}

// c06loadsTwice: some path through f loads the published table twice: two load sites on one path (a site in a loop
// counts twice), or a helper called on the path that itself loads twice.
func c06loadsTwice(f *ssa.Function, loaders map[*ssa.Function]bool, depth int) bool {
	if f == nil || depth > 3 || loaders[f] {
		return false
	}
	sites := c06loadSites(f, loaders)
	for _, a := range sites {
		for _, b := range sites {
			if pathAvoiding(a, b, nil) {
				return true
			}
		}
		if cc := callCommon(a); cc != nil {
			for _, g := range c06calleesOf(cc) {
				if !loaders[g] && c06loadsTwice(g, loaders, depth+1) {
					return true
				}
			}
		}
	}
	return false
}

// c06redefines: the predicate "this instruction (re)defines one of vals": a path from the publication back around a
// loop to a write that passes the definition again writes a different, not yet published object.
func c06redefines(vals ...ssa.Value) func(ssa.Instruction) bool {
	defs := map[ssa.Instruction]bool{}
	for _, v := range vals {
		if in, ok := v.(ssa.Instruction); ok {
			defs[in] = true
		}
	}
	if len(defs) == 0 {
		return nil
	}
	return func(i ssa.Instruction) bool { return defs[i] }
}

func runPublish(c *Ctx, ruleS5, ruleS6 string) {
	pubs := publishers(c)
	// S5, direct stores: after the publishing store, no write through the published value in the same function
	nStores, nTableStores := 0, 0
	for _, f := range c.AllFns {
		eachInstr(f, func(i ssa.Instruction) {
			cc := callCommon(i)
			kind, _, val, isAtomic := atomicOp(cc)
			if !isAtomic || (kind != "store" && kind != "swap" && kind != "cas") || val == nil {
				return
			}
			if _, isBasic := stripIface(val).Type().Underlying().(*types.Basic); isBasic {
				return // counters and flags, not published structures
			}
			nStores++
			vals := c06publishedParts(val)
			for _, v := range vals {
				if namedIs(v.Type(), "route.Table") {
					nTableStores++
					break
				}
			}
			bad := ""
			var badPos token.Pos
			redef := c06redefines(vals...)
			eachInstr(f, func(j ssa.Instruction) {
				if j == i || !pathAvoiding(i, j, redef) {
					return
				}
				for _, v := range vals {
					if w, ok := writesVia(c, j, v); ok {
						bad, badPos = w, j.Pos()
					}
				}
			})
			pos := i.Pos()
			if bad != "" {
				pos = badPos
			}
			c.check(ruleS5, fnKey(f)+"|no write after atomic publish", pos, bad == "",
				"a value handed to atomic.Value.Store is visible to concurrent readers; "+bad+" after the store mutates the published structure (readers see a mixture of old and new)")
		})
	}
	c.atLeast(ruleS5, "atomic publishing stores of structured values", nStores, 1)
	c.atLeast(ruleS5, "atomic publishing stores of a route.Table", nTableStores, 1)
	// S5, callers of publishers: after the call, no write through the argument
	nCalls := 0
	for _, f := range c.AllFns {
		eachInstr(f, func(i ssa.Instruction) {
			cc := callCommon(i)
			if cc == nil {
				return
			}
			for _, sc := range c06calleesOf(cc) {
				k, isPub := pubs[sc]
				args := c06argsFor(cc, sc)
				if !isPub || sc == f || k >= len(args) || args[k] == nil {
					continue
				}
				nCalls++
				v := args[k]
				bad := ""
				var badPos token.Pos
				redef := c06redefines(v)
				eachInstr(f, func(j ssa.Instruction) {
					if j == i || !pathAvoiding(i, j, redef) {
						return
					}
					if w, ok := writesVia(c, j, v); ok {
						bad, badPos = w, j.Pos()
					}
				})
				pos := i.Pos()
				if bad != "" {
					pos = badPos
				}
				c.check(ruleS5, fnKey(f)+"|no write after "+fnKey(sc), pos, bad == "",
					"after "+fnKey(sc)+" the value is published; "+bad+" afterwards mutates the table concurrent lookups are reading")
			}
		})
	}
	c.atLeast(ruleS5, "calls of publishing functions", nCalls, 1)

	// S6: one snapshot per lookup
	loaders := c06tableLoaders(c)
	if len(loaders) == 0 {
		c.undecided(ruleS6, "anchor|route.GetTable", "no function returns a route.Table obtained from an atomic load")
		return
	}
	nEntries := 0
	seenRoot := map[*ssa.Function]bool{}
	for _, r := range c.servingRoots() {
		r = unwrap(r) // bound-method / interface thunks: the method itself is the entry
		if seenRoot[r] || !isRepoFn(r) {
			continue
		}
		seenRoot[r] = true
		sites := c06loadSites(r, loaders)
		if len(sites) == 0 {
			continue
		}
		nEntries++
		c.check(ruleS6, fnKey(r)+"|one GetTable per request path", sites[0].Pos(), !c06loadsTwice(r, loaders, 0),
			"a per-request entry must load the published table once; two loads on one path can straddle a table replacement, so one request is answered from a mixture of two tables")
	}
	c.atLeast(ruleS6, "per-request entries that load the table", nEntries, 3)
	// nothing below a method of the table reloads it
	nMethods := 0
	if tt := c.spkg("route"); tt != nil && tt.Type("Table") != nil {
		seen := map[*ssa.Function]bool{}
		for _, f := range c.AllFns {
			if f.Signature.Recv() == nil || !namedIs(f.Signature.Recv().Type(), "route.Table") || seen[f] {
				continue
			}
			seen[f] = true
			nMethods++
			reloads := false
			for g := range c.reach(f) {
				if loaders[g] {
					reloads = true
				}
			}
			c.check(ruleS6, fnKey(f)+"|does not reload the table", f.Pos(), !reloads,
				"nothing below a table method may call GetTable(): the method must answer from its receiver, the snapshot taken by the caller")
		}
	}
	for _, m := range []string{"Lookup", "LookupHost"} {
		if c.method("route", "Table", m) == nil {
			c.undecided(ruleS6, "anchor|route.Table."+m, "method not found")
		}
	}
	c.atLeast(ruleS6, "methods of route.Table", nMethods, 2)
}

// writesVia: instruction j writes memory rooted at v (store, map update, delete, or a call that does).
func writesVia(c *Ctx, j ssa.Instruction, v ssa.Value) (string, bool) {
	rooted := func(addr ssa.Value) bool { return addrRootedAt(addr, v) }
	switch x := j.(type) {
	case *ssa.Store:
		if _, isAlloc := x.Addr.(*ssa.Alloc); !isAlloc && rooted(x.Addr) {
			return "a store through it", true
		}
	case *ssa.MapUpdate:
		if rooted(x.Map) {
			return "a map update on it", true
		}
	}
	if cc := callCommon(j); cc != nil {
		if calleeName(cc) == "builtin.delete" && len(cc.Args) > 0 && rooted(cc.Args[0]) {
			return "a delete on it", true
		}
		if mutatingExternal[calleeName(cc)] && len(cc.Args) > 0 && rooted(mutatedArg(cc)) {
			return "a call to " + calleeName(cc) + " (reorders/overwrites its argument in place)", true
		}
		if sc := cc.StaticCallee(); sc != nil && isRepoFn(sc) {
			for ai, a := range cc.Args {
				if rooted(a) && writesThroughParam(c, unwrap(sc), ai, 0, map[*ssa.Function]bool{}) {
					return "a call to " + fnKey(sc) + " (which writes through that argument)", true
				}
			}
		}
	}
	return "", false
}

// ---- B1: glob cache bookkeeping ------------------------------------------------------------------

// runGlobCacheB1 (C06.B1): the bookkeeping of the glob cache, wherever GlobCache.Get and its helpers keep it. Sites
// are found by role in the region of the exported entry GlobCache.Get: the sync.Map field of the cache (calls of
// Store / Delete / Load on it), its ring (a slice field indexed by an int field) and its mutex.
//   - every insertion into / eviction from the map runs in a critical section (the lock is held at the call or by every
//     caller): the map and the ring are updated together or not at all;
//   - a ring slot is appended only on an edge on which index < len(ring) is known;
//   - a ring slot is overwritten only if the key the slot held BEFORE the overwrite is deleted from the map on that path;
//   - after acquiring the lock and before inserting, the map is consulted again (miss re-checked under the lock).
func runGlobCacheB1(c *Ctx) {
	const rule = "C06.B1"
	// the region: every method of the cache type and the helpers / closures they use (GlobCache.Get today)
	// the cache's state may be grouped into struct types of its own (an embedded ring type with its own methods)
	cacheTypes := map[string]bool{"route.GlobCache": true}
	if sp := c.spkg("route"); sp != nil {
		if tm, ok := sp.Members["GlobCache"].(*ssa.Type); ok {
			var visit func(t types.Type, d int)
			visit = func(t types.Type, d int) {
				if d > 3 {
					return
				}
				if p, ok := t.(*types.Pointer); ok {
					t = p.Elem()
				}
				n, ok := t.(*types.Named)
				if ok && n.Obj().Pkg() != nil && n.Obj().Pkg() == sp.Pkg {
					cacheTypes["route."+n.Obj().Name()] = true
				} else if ok {
					return // library types (sync.Map, sync.Mutex)
				}
				if st, ok := t.Underlying().(*types.Struct); ok {
					for i := 0; i < st.NumFields(); i++ {
						visit(st.Field(i).Type(), d+1)
					}
				}
			}
			visit(tm.Type(), 0)
		}
	}
	isCacheType := func(t types.Type) bool {
		for n := range cacheTypes {
			if namedIs(t, n) {
				return true
			}
		}
		return false
	}
	methods := c.fnsWhere("route", func(f *ssa.Function) bool {
		return f.Signature.Recv() != nil && isCacheType(f.Signature.Recv().Type())
	})
	if len(methods) == 0 {
		c.undecided(rule, "anchor|route.GlobCache.Get", "no method of route.GlobCache with a body")
		return
	}
	reg := c.region(methods...)
	onCache := func(v ssa.Value) bool {
		switch x := v.(type) {
		case *ssa.FieldAddr:
			return isCacheType(x.X.Type())
		case *ssa.Field:
			return isCacheType(x.X.Type())
		}
		return false
	}
	// ringMaps: the sync.Map fields of the cache whose contents must stay consistent with the ring (filled below). A
	// further, independent sync.Map of the cache type (a memo of something else) is safe for concurrent use on its own
	// and is none of B1's business.
	ringMaps := map[string]bool{}
	mapFieldOf := func(v ssa.Value) string {
		switch x := v.(type) {
		case *ssa.FieldAddr:
			return typeKey(x.X.Type()) + "." + fieldName(x.X.Type(), x.Field)
		case *ssa.Field:
			return typeKey(x.X.Type()) + "." + fieldName(x.X.Type(), x.Field)
		}
		return ""
	}
	anyMapCall := func(i ssa.Instruction, ms ...string) bool {
		cc := callCommon(i)
		if cc == nil || len(cc.Args) == 0 || !onCache(cc.Args[0]) {
			return false
		}
		n := calleeName(cc)
		for _, m := range ms {
			if n == "(*sync.Map)."+m {
				return true
			}
		}
		return false
	}
	isMapCall := func(i ssa.Instruction, ms ...string) bool {
		if !anyMapCall(i, ms...) {
			return false
		}
		return len(ringMaps) == 0 || ringMaps[mapFieldOf(callCommon(i).Args[0])]
	}
	// ring slot address: &ring[idx] where ring is a load of a slice field of the cache
	slotAddr := func(v ssa.Value) (*ssa.IndexAddr, bool) {
		ia, ok := v.(*ssa.IndexAddr)
		if !ok {
			return nil, false
		}
		u, ok := ia.X.(*ssa.UnOp)
		if !ok || u.Op != token.MUL || !onCache(u.X) {
			return nil, false
		}
		if _, isSlice := u.Type().Underlying().(*types.Slice); !isSlice {
			return nil, false
		}
		return ia, true
	}
	isRingLen := func(v ssa.Value) bool {
		u, ok := v.(*ssa.UnOp)
		if !ok || u.Op != token.MUL || !onCache(u.X) {
			return false
		}
		_, isSlice := u.Type().Underlying().(*types.Slice)
		return isSlice
	}
	// slotLoad: v is the value read from a ring slot; returns the slot address
	slotLoad := func(v ssa.Value) (*ssa.UnOp, *ssa.IndexAddr) {
		u, ok := stripIface(v).(*ssa.UnOp)
		if !ok || u.Op != token.MUL {
			return nil, nil
		}
		if ia, ok := slotAddr(u.X); ok {
			return u, ia
		}
		return nil, nil
	}
	underLock := func(i ssa.Instruction) bool { return c06lockedAtAll(c, i, true, 0) }

	// which maps belong to the ring: a map from which a key read out of a ring slot is deleted (eviction), or into which
	// a key is entered that is also written into a ring slot (insertion). When no map can be told apart this way every
	// sync.Map of the cache is taken (the rule then demands more, never less).
	var slotVals []ssa.Value
	eachInstrOf(reg, func(_ *ssa.Function, i ssa.Instruction) {
		if st, ok := i.(*ssa.Store); ok {
			if _, ok := slotAddr(st.Addr); ok {
				slotVals = append(slotVals, stripIface(st.Val))
			}
		}
	})
	eachInstrOf(reg, func(_ *ssa.Function, i ssa.Instruction) {
		cc := callCommon(i)
		if cc == nil || len(cc.Args) < 2 {
			return
		}
		key := stripIface(cc.Args[1])
		switch {
		case anyMapCall(i, "Delete", "LoadAndDelete", "CompareAndDelete"):
			if derives(key, func(x ssa.Value) bool { ld, _ := slotLoad(x); return ld != nil }) {
				ringMaps[mapFieldOf(cc.Args[0])] = true
			}
		case anyMapCall(i, "Store", "LoadOrStore", "Swap", "CompareAndSwap"):
			for _, sv := range slotVals {
				if sv == key || (c06fnOf(sv) != c06fnOf(key) && c06path(sv) == c06path(key) && typeStr(sv.Type()) == typeStr(key.Type())) {
					ringMaps[mapFieldOf(cc.Args[0])] = true
				}
			}
		}
	})

	var mapWrites, mapDeletes []ssa.Instruction
	var slotStores []*ssa.Store
	var locks []ssa.Instruction
	eachInstrOf(reg, func(_ *ssa.Function, i ssa.Instruction) {
		switch {
		case isMapCall(i, "Store", "LoadOrStore", "Swap", "CompareAndSwap"):
			mapWrites = append(mapWrites, i)
		case isMapCall(i, "Delete", "LoadAndDelete", "CompareAndDelete"):
			mapDeletes = append(mapDeletes, i)
		}
		if st, ok := i.(*ssa.Store); ok {
			if _, ok := slotAddr(st.Addr); ok {
				slotStores = append(slotStores, st)
			}
		}
		if _, k := lockCallKind(i); k == "lock" {
			locks = append(locks, i)
		} else if call, ok := i.(*ssa.Call); ok {
			if sc := call.Call.StaticCallee(); sc != nil && c06acquirer(unwrap(sc), true) {
				locks = append(locks, i) // the lock is taken by a wrapper method
			}
		}
	})
	c.atLeast(rule, "insertions into the cache map by the methods of route.GlobCache", len(mapWrites), 1)
	c.atLeast(rule, "ring slot stores by the methods of route.GlobCache", len(slotStores), 1)

	// (a) the map changes only inside the critical section
	for _, i := range append(append([]ssa.Instruction{}, mapWrites...), mapDeletes...) {
		c.check(rule, fnKey(i.Parent())+"|map updated inside the critical section", i.Pos(), underLock(i),
			"the cache map and the ring (slots, head, count) must change together under the mutex: an insertion or eviction performed after the lock is released interleaves with another request's, so evicted keys stay in the map (the cache grows beyond its size) or a live entry is deleted")
	}

	// pure counters: int fields of the cache whose every store outside a constructor is field = field + constant
	counter := map[string]bool{}
	notCounter := map[string]bool{}
	for _, f := range c.fnsWhere("route", func(*ssa.Function) bool { return true }) {
		eachInstr(f, func(i ssa.Instruction) {
			st, ok := i.(*ssa.Store)
			if !ok {
				return
			}
			fa, ok := st.Addr.(*ssa.FieldAddr)
			if !ok || !onCache(fa) {
				return
			}
			if _, isAlloc := fa.X.(*ssa.Alloc); isAlloc {
				return
			}
			name := fieldName(fa.X.Type(), fa.Field)
			inc := false
			if b, ok := st.Val.(*ssa.BinOp); ok && b.Op == token.ADD {
				if _, isK := b.Y.(*ssa.Const); isK && c06path(b.X) == c06path(fa) {
					inc = true
				}
			}
			if inc {
				counter[name] = true
			} else {
				notCounter[name] = true
			}
		})
	}
	isCounterIdx := func(idx ssa.Value) bool {
		u, ok := c06stripConv(idx).(*ssa.UnOp)
		if !ok || u.Op != token.MUL {
			return false
		}
		fa, ok := u.X.(*ssa.FieldAddr)
		if !ok || !onCache(fa) {
			return false
		}
		n := fieldName(fa.X.Type(), fa.Field)
		return counter[n] && !notCounter[n]
	}

	for _, st := range slotStores {
		ia, _ := slotAddr(st.Addr)
		F := st.Parent()
		want := c06path(ia.Index)
		sameIdx := func(v ssa.Value) bool { return v == ia.Index || c06path(v) == want }
		// the slot is chosen on the way (`slot = c.n` when the ring still grows, `slot = c.h` plus eviction otherwise) and
		// written once after the merge: judge each incoming choice on its own edge
		if phi, isPhi := c06stripConv(ia.Index).(*ssa.Phi); isPhi && len(phi.Edges) == len(phi.Block().Preds) {
			for k, e := range phi.Edges {
				pred := phi.Block().Preds[k]
				wantE := c06path(e)
				sameE := func(v ssa.Value) bool { return v == e || c06path(v) == wantE }
				grows := false
				for _, f := range factsAt(pred) {
					if c06lessThanLenFact(f, sameE, isRingLen) {
						grows = true
					}
				}
				if grows {
					c.check(rule, fnKey(F)+"|append slot under n < len(l)", st.Pos(), true, "")
					continue
				}
				evicted := false
				eachInstr(F, func(d ssa.Instruction) {
					if evicted || !isMapCall(d, "Delete", "LoadAndDelete") {
						return
					}
					dcc := callCommon(d)
					if len(dcc.Args) < 2 {
						return
					}
					ld, lia := slotLoad(dcc.Args[1])
					if ld == nil || !(lia.Index == e || c06path(lia.Index) == wantE) {
						return
					}
					if d.Block() == pred || d.Block().Dominates(pred) {
						evicted = true
					}
				})
				c.check(rule, fnKey(F)+"|evict before overwrite", st.Pos(), evicted,
					"when the ring is full the entry of the slot being overwritten must be deleted from the map (the key read from the slot before it is overwritten); otherwise the evicted key stays in the map forever (unbounded growth) or the new entry is deleted")
			}
			continue
		}
		// (b) growth: the store is under idx < len(ring)
		guarded := false
		for _, f := range factsAt(st.Block()) {
			if c06lessThanLenFact(f, sameIdx, isRingLen) {
				guarded = true
			}
		}
		if guarded || isCounterIdx(ia.Index) {
			c.check(rule, fnKey(F)+"|append slot under n < len(l)", st.Pos(), guarded, "the ring may grow only while n < len(l); otherwise the cache exceeds its configured size or indexes out of range")
			continue
		}
		// (c) overwrite: the key the slot held before must be deleted from the map on this path
		directDelete := func(d ssa.Instruction) (*ssa.UnOp, bool) {
			if !isMapCall(d, "Delete", "LoadAndDelete") {
				return nil, false
			}
			dcc := callCommon(d)
			if len(dcc.Args) < 2 {
				return nil, false
			}
			ld, lia := slotLoad(dcc.Args[1])
			if ld == nil || c06path(lia.Index) != want {
				return nil, false
			}
			return ld, true
		}
		okDel := false
		eachInstr(F, func(d ssa.Instruction) {
			if okDel {
				return
			}
			onPath := func() bool {
				if dominatesInstr(d, st) {
					return true
				}
				if !dominatesInstr(st, d) {
					return false
				}
				_, escapes := exitReachableAvoiding(st, func(x ssa.Instruction) bool { return x == d })
				return !escapes
			}
			if ld, ok := directDelete(d); ok {
				// the key is read from the slot before the slot is overwritten
				if dominatesInstr(ld, st) && onPath() {
					okDel = true
				}
				return
			}
			// a helper that evicts the slot on all of its paths, called before the overwrite
			if call, isCall := d.(*ssa.Call); isCall {
				if sc := call.Call.StaticCallee(); sc != nil && isRepoFn(sc) && dominatesInstr(d, st) &&
					mustExec(unwrap(sc), func(x ssa.Instruction) bool { _, ok := directDelete(x); return ok }, 1) {
					okDel = true
				}
			}
		})
		if !okDel {
			// the old key is read here before the overwrite, handed to another function of the region (result,
			// argument) and deleted there
			for _, d := range mapDeletes {
				dcc := callCommon(d)
				if d.Parent() == F || len(dcc.Args) < 2 {
					continue
				}
				if derives(dcc.Args[1], func(x ssa.Value) bool {
					ld, lia := slotLoad(x)
					return ld != nil && ld.Parent() == F && c06path(lia.Index) == want && dominatesInstr(ld, st)
				}) {
					okDel = true
				}
			}
		}
		c.check(rule, fnKey(F)+"|evict before overwrite", st.Pos(), okDel,
			"when the ring is full the entry of the slot being overwritten must be deleted from the map (the key read from the slot before it is overwritten); otherwise the evicted key stays in the map forever (unbounded growth) or the new entry is deleted")
	}

	// (d) double-check under the lock: after the acquisition that precedes an insertion, the map is consulted again
	isLoad := func(i ssa.Instruction) bool { return isMapCall(i, "Load", "LoadOrStore") }
	isWrite := func(i ssa.Instruction) bool { return isMapCall(i, "Store", "LoadOrStore", "Swap", "CompareAndSwap") }
	mustLoad, mayWrite := liftMust(isLoad, 1), liftMay(isWrite)
	nLocks := 0
	for _, l := range locks {
		F := l.Parent()
		inserts := false
		re := false
		eachInstr(F, func(j ssa.Instruction) {
			if j == l {
				return
			}
			if mayWrite(j) && canReach(l, j) {
				inserts = true
			}
			if mustLoad(j) && dominatesInstr(l, j) {
				re = true
			}
		})
		if !inserts {
			continue
		}
		nLocks++
		c.check(rule, fnKey(F)+"|miss re-checked under the lock", l.Pos(), re,
			"two requests that miss the same pattern both reach the slow path; without re-reading the map under the lock the pattern is entered into the ring twice, and evicting the first copy later deletes the live map entry of the second")
	}
	c.atLeast(rule, "lock acquisitions that precede an insertion into the cache map", nLocks, 1)
}

// c06s3 is the guarded-by rule; see c06_locks.go.

func sameRegion(a, b ssa.Instruction) bool {
	return a.Block() == b.Block() || a.Block().Dominates(b.Block()) || b.Block().Dominates(a.Block())
}

// ---- B2 / C02.P7 / P3: panics on the request path ---------------------------------------------------

// runRequestPathPanics: no MustCompile(non-constant), panic or unguarded integer division in
// functions reachable from Table.Lookup / LookupHost.
func runRequestPathPanics(c *Ctx, rule string) {
	var roots []*ssa.Function
	for _, m := range []string{"Lookup", "LookupHost"} {
		if f := c.method("route", "Table", m); f != nil {
			roots = append(roots, f)
		}
	}
	roots = append(roots, registryFuncs(c, "route", "Picker")...)
	roots = append(roots, registryFuncs(c, "route", "Matcher")...)
	if len(roots) < 4 {
		c.undecided(rule, "anchor|lookup roots", "Table.Lookup/LookupHost/pickers/matchers not all found")
		return
	}
	reach := c.reach(roots...)
	n := 0
	for f := range reach {
		eachInstr(f, func(i ssa.Instruction) {
			if cc := callCommon(i); cc != nil {
				name := calleeName(cc)
				if strings.HasSuffix(name, ".MustCompile") || strings.HasSuffix(name, ".MustParse") {
					n++
					_, isConst := cc.Args[0].(*ssa.Const)
					c.check(rule, fnKey(f)+"|"+name, i.Pos(), isConst,
						name+" of a non-constant pattern panics on the request path when the pattern does not compile (e.g. host pattern '['): the lookup must skip or report the pattern instead")
				}
			}
			if p, ok := i.(*ssa.Panic); ok {
				n++
				c.check(rule, fnKey(f)+"|panic", p.Pos(), false, "explicit panic reachable from a table lookup")
			}
			if b, ok := i.(*ssa.BinOp); ok && (b.Op == token.REM || b.Op == token.QUO) {
				if _, isInt := b.X.Type().Underlying().(*types.Basic); !isInt {
					return
				}
				bt := b.X.Type().Underlying().(*types.Basic)
				if bt.Info()&types.IsInteger == 0 {
					return
				}
				if _, isConst := b.Y.(*ssa.Const); isConst {
					return
				}
				n++
				ok, why := divisorNonZero(b)
				c.check(rule, fnKey(f)+"|integer division by "+shortPath(b.Y), b.Pos(), ok,
					"integer division/modulus whose divisor can be zero on the request path (panics: integer divide by zero): "+why)
			}
		})
	}
	c.atLeast(rule, "partial operations reachable from table lookups", n, 1)
}

var tmpRe = regexp.MustCompile(`(@?\bt\d+\b)`)

// shortPath renders a value for use in a construct key: SSA register names are
// replaced, since keys must not depend on instruction numbering.
func shortPath(v ssa.Value) string {
	p := tmpRe.ReplaceAllString(accessPath(v), "")
	if len(p) > 60 {
		p = p[:60]
	}
	return p
}

// divisorNonZero: the divisor of b is proved non-zero by a dominating branch fact
// (`d > 0`, `d != 0`, `len(x) > 0`, `n == 0 => return`) on the same value or the same access path.
func divisorNonZero(b *ssa.BinOp) (bool, string) {
	d := b.Y
	// strip conversions
	for {
		if cv, ok := d.(*ssa.Convert); ok {
			d = cv.X
			continue
		}
		break
	}
	samePath := c06samePath(d) // also across the boundary of a helper that inherits its call site's branch facts
	sameCanon := c06sameCanon(d, nil)
	// (canonical paths: the guard may read the divisor through a one-line accessor - `if c.capacity() == 0` for a
	// divisor len(r.l) in a method of the embedded ring - or the other way round)
	same := func(o ssa.Value) bool { return samePath(o) || sameCanon(o) }
	if c06nonZeroFact(c06expandFacts(factsAt(b.Block())), same) {
		return true, ""
	}
	// a helper with several call sites (factsAt inherits the facts of a single one only): the guard stands at every one
	if fn := b.Parent(); fn != nil && onlyStaticallyCalled(fn) {
		if sites := gSites[fn]; len(sites) > 1 && len(sites) <= maxHelperSites {
			all := true
			for _, s := range sites {
				if _, isGo := s.(*ssa.Go); isGo || s.Block() == nil || s.Parent() == fn || len(s.Common().Args) != len(fn.Params) {
					all = false
					break
				}
				bind := map[*ssa.Parameter]c06bound{}
				for k, p := range fn.Params {
					bind[p] = c06bound{s.Common().Args[k], false}
				}
				if !c06nonZeroFact(c06expandFacts(factsAt(s.Block())), c06sameCanon(d, bind)) {
					all = false
					break
				}
			}
			if all {
				return true, ""
			}
		}
	}
	return false, "no dominating test shows " + shortPath(d) + " != 0"
}

// c06nonZeroFact: one of the facts states that the value accepted by same is not zero (x > 0, x != 0, x >= 1, their
// negated counterparts and mirrored spellings).
func c06nonZeroFact(facts []Fact, same func(ssa.Value) bool) bool {
	for _, f := range facts {
		cmp, ok := f.Cond.(*ssa.BinOp)
		if !ok {
			continue
		}
		x, y := cmp.X, cmp.Y
		strip := func(v ssa.Value) ssa.Value {
			for {
				if cv, ok := v.(*ssa.Convert); ok {
					v = cv.X
					continue
				}
				return v
			}
		}
		x, y = strip(x), strip(y)
		zeroY := func() bool { n, ok := constInt(y); return ok && n == 0 }
		zeroX := func() bool { n, ok := constInt(x); return ok && n == 0 }
		oneY := func() bool { n, ok := constInt(y); return ok && n == 1 }
		oneX := func() bool { n, ok := constInt(x); return ok && n == 1 }
		switch {
		case zeroY() && same(x):
			switch cmp.Op {
			case token.GTR, token.NEQ:
				if f.Truth {
					return true
				}
			case token.EQL, token.LEQ:
				if !f.Truth {
					return true
				}
			}
		case oneY() && same(x):
			if (cmp.Op == token.GEQ && f.Truth) || (cmp.Op == token.LSS && !f.Truth) {
				return true
			}
		case zeroX() && same(y):
			switch cmp.Op {
			case token.LSS, token.NEQ:
				if f.Truth {
					return true
				}
			case token.EQL, token.GEQ:
				if !f.Truth {
					return true
				}
			}
		case oneX() && same(y):
			if (cmp.Op == token.LEQ && f.Truth) || (cmp.Op == token.GTR && !f.Truth) {
				return true
			}
		}
	}
	return false
}

// mutatingExternal: library functions that write through their first argument.
var mutatingExternal = map[string]bool{
	"sort.Slice": true, "sort.SliceStable": true, "sort.Sort": true, "sort.Stable": true, "sort.Strings": true, "sort.Ints": true,
	"slices.Sort": true, "slices.SortFunc": true, "slices.SortStableFunc": true, "slices.Reverse": true,
	"math/rand.Shuffle": false, "builtin.copy": true,
}
