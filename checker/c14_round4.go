package main

// Rules of C14 added after the fourth round of independently authored breaking changes (DESIGN 11.12); wired in
// zzz_round4.go.
//
//   (B1) no partial operation on registered text in the goroutine nobody recovers: a constant index into a list whose
//        length the registered text decides (strings.Split / SplitN / Fields ..., regexp submatches), and a constant
//        slice bound of a string, are taken only where the length is known to suffice.
//   (A1) a `route add` that is accepted alone is accepted in company: no failure of applying a route add command to
//        the routing table is decided by what the table already holds.

import (
	"fmt"
	"go/token"
	"go/types"
	"os"
	"sort"
	"strings"

	"golang.org/x/tools/go/ssa"
)

func init() {
	addRound4("C14", "(B1) everything the per-service goroutines run (the goroutines that query the catalog for one service, what they call, and every function that contributes to a command; a function that defers a recover() shields what it calls) is total on registered text: a constant index into a list whose length the input decides - the result of strings.Split/SplitN/Fields and friends or of a regexp submatch, followed through variables, merges, helper results and helper parameters - is taken only where the length tests that hold there (len comparisons; for SplitN(.., 2) `len != 1`; a test that the text contains the separator - strings.Contains / Index / Count) show the element exists, and a string is cut at a constant position only where strings.HasPrefix/HasSuffix/Contains/Index/CutPrefix with a constant, an equality with a constant or a length test shows it is long enough - a test holds where it dominates, where it holds on EVERY edge into a merge (`case a, b, c:`, `a || b`), and where a small predicate of the repository that makes it said yes; nobody recovers a panic in those goroutines, so one registration with an option written `weight` instead of `weight=1` would terminate fabio and stop the route updates of every service instead of being dropped on its own.", runC14B1, c14round4B1mutants()...)
	addRound4("C14", "(B2) nothing the per-service goroutines run in the generator's own package (same region as B1, recover() shields) ends the process on purpose: no call of panic, log.Fatal*/log.Panic* or os.Exit - a registration the generator does not like (bad redirect syntax, unknown proto) is logged and dropped, it must not take the route updates of all other services with it.", runC14B2, c14round4B2mutants()...)
	addRound4("C14", "(A1) a route add command that is accepted alone is accepted in company: the generator validates every command on its own (T1: route.NewTable on that single command, i.e. applied to an EMPTY table), while the update loop applies all commands to ONE table; therefore, in the function(s) the table builder (route.NewTable and the same-package function it delegates the building to; the body of a range-over-func loop belongs to it) calls for a `route add` definition - under a comparison of the command word with `route add`, through a table keyed by it, through a predicate or dispatcher that makes the comparison, or in the last arm of a chain that excluded the other command words - and in the builder's own loop, no error return may be decided by what the table already holds - every branch condition on the way to an error return that reads the table (a value of the table type, anything looked up in or ranged from it) must also hold for the empty table (`t[host] == nil`), or the error must be the verdict of a call that judges the command alone (glob.Compile(path)) and is also reached with the same arguments on a path the empty table takes; otherwise two registrations that are each fine (a tcp and an http target on one prefix) pass validation, nothing is dropped, and every later table build fails: the routes of ALL services are frozen.", runC14A1, c14round4A1mutants()...)
}

var c14debug = os.Getenv("C14DEBUG") != ""

// ---- C14.B1 ------------------------------------------------------------------------------------------------------------

// c14recovers: f defers a function that calls recover(): a panic below f is caught there.
func c14recovers(f *ssa.Function) bool {
	hit := false
	eachInstr(f, func(i ssa.Instruction) {
		d, ok := i.(*ssa.Defer)
		if !ok || hit {
			return
		}
		for _, g := range c14callees(&d.Call) {
			if g == nil || len(g.Blocks) == 0 {
				continue
			}
			for _, h := range c14regionNoGo(g, 1) {
				eachInstr(h, func(j ssa.Instruction) {
					if cc := callCommon(j); cc != nil && calleeName(cc) == "builtin.recover" {
						hit = true
					}
				})
			}
		}
	})
	return hit
}

// c14unrecovered: the functions that run in the goroutines started for one service (roots) with no recover() between
// them and the goroutine's top.
func c14unrecovered(roots []*ssa.Function) []*ssa.Function {
	seen := map[*ssa.Function]bool{}
	var out []*ssa.Function
	var add func(f *ssa.Function, d int)
	add = func(f *ssa.Function, d int) {
		if f == nil || seen[f] || d > 8 {
			return
		}
		seen[f] = true
		out = append(out, f)
		if c14recovers(f) {
			return // what f calls panics into f's recover; f's own body after the defer too (accepted imprecision)
		}
		for _, g := range c14regionNoGo(f, 1) {
			if g != f {
				add(g, d+1)
			}
		}
	}
	for _, r := range roots {
		add(r, 0)
	}
	sort.SliceStable(out, func(i, j int) bool { return out[i].String() < out[j].String() })
	return out
}

// c14serviceGoroutines: the functions started as goroutines that (transitively, not through further goroutines) ask
// the catalog for the instances of one service - the same role C14.I1 uses.
func c14serviceGoroutines(c *Ctx) []*ssa.Function {
	query := map[*ssa.Function]bool{}
	for _, f := range c14fns(c) {
		eachInstr(f, func(i ssa.Instruction) {
			if cc := callCommon(i); cc != nil && c14isCatalogQuery(cc) {
				query[f] = true
			}
		})
	}
	var roots []*ssa.Function
	seen := map[*ssa.Function]bool{}
	for _, f := range c14fns(c) {
		eachInstr(f, func(i ssa.Instruction) {
			if !c14isSpawn(i) {
				return
			}
			for _, g := range c14started(i) {
				if g == nil || seen[g] || !isRepoFn(g) || len(g.Blocks) == 0 {
					continue
				}
				for _, h := range c14regionNoGo(g, 4) {
					if query[h] {
						seen[g] = true
						roots = append(roots, g)
						break
					}
				}
			}
		})
	}
	return roots
}

var c14splitFamily = map[string]int64{ // callee -> guaranteed minimum length of the result
	"strings.Split": 1, "strings.SplitN": 1, "strings.SplitAfter": 1, "strings.SplitAfterN": 1, "strings.Fields": 0, "strings.FieldsFunc": 0,
	"bytes.Split": 1, "bytes.SplitN": 1, "bytes.Fields": 0,
	"(*regexp.Regexp).FindStringSubmatch": 0, "(*regexp.Regexp).FindSubmatch": 0, "(*regexp.Regexp).FindStringSubmatchIndex": 0,
	"(*regexp.Regexp).FindAllString": 0, "(*regexp.Regexp).FindAllStringSubmatch": 0, "(*regexp.Regexp).Split": 0,
}

// c14lenFromFacts: a lower bound of len(x) from comparisons of len(x) with constants among facts, starting at start.
// With `!=` tests the bound moves past the excluded lengths (SplitN(s, sep, 2) yields 1 or 2 elements; `len(p) != 1`
// leaves 2). Also understood for strings: strings.HasPrefix/HasSuffix(x, "const") and x == "const".
func c14lenFromFacts(facts []Fact, x ssa.Value, start int64) int64 {
	return c14lenFromFactsD(facts, x, start, 0)
}

func c14lenFromFactsD(facts []Fact, x ssa.Value, start int64, depth int) int64 {
	lower := start
	same := func(v ssa.Value) bool {
		return c14sameValue(v, x) || (accessPath(v) != "" && accessPath(v) == accessPath(x) && v.Type() == x.Type() && c14pathStable(v))
	}
	isLen := func(v ssa.Value) bool {
		call, ok := v.(*ssa.Call)
		return ok && calleeName(&call.Call) == "builtin.len" && len(call.Call.Args) == 1 && same(call.Call.Args[0])
	}
	var excluded []int64
	for _, f := range facts {
		if phi, isPhi := f.Cond.(*ssa.Phi); isPhi && depth < 3 {
			// a verdict kept in a boolean (`case a || b:` of a tagless switch, `ok := a || b`): one of the incoming
			// edges that can carry this truth value was taken - the weakest of what they establish holds
			first := true
			var m int64
			for k, e := range phi.Edges {
				kb, isK := constBool(e)
				if isK && kb != f.Truth {
					continue
				}
				fs := c14edgeLocalFacts(phi.Block().Preds[k], phi.Block())
				if !isK {
					fs = appendCondFacts(fs, e, f.Truth, 0)
				}
				if v := c14lenFromFactsD(fs, x, start, depth+1); first || v < m {
					m = v
				}
				first = false
			}
			if !first && m > lower {
				lower = m
			}
			continue
		}
		if call, isCall := f.Cond.(*ssa.Call); isCall && depth < 3 {
			// the verdict of a small predicate of the repository about x (`if hasValue(kv) { .. kv[1] .. }`): what
			// holds about its parameter wherever it returns this verdict
			if sc := call.Call.StaticCallee(); sc != nil && isRepoFn(sc) && len(sc.Blocks) > 0 && len(sc.Blocks) <= 12 && sc.Signature.Results().Len() == 1 && len(call.Call.Args) == len(sc.Params) {
				for k, arg := range call.Call.Args {
					if !same(arg) {
						continue
					}
					first := true
					var m int64
					eachInstr(sc, func(i ssa.Instruction) {
						r, isRet := i.(*ssa.Return)
						if !isRet || len(r.Results) != 1 {
							return
						}
						fs := localFactsAt(r.Block())
						if kb, isK := constBool(r.Results[0]); isK {
							if kb != f.Truth {
								return
							}
						} else {
							fs = appendCondFacts(fs, r.Results[0], f.Truth, 0)
						}
						if v := c14lenFromFactsD(fs, sc.Params[k], start, depth+1); first || v < m {
							m = v
						}
						first = false
					})
					if !first && m > lower {
						lower = m
					}
				}
				continue
			}
		}
		if s, min, ok := c14memberFact(f); ok {
			if same(s) && min > lower {
				lower = min
			}
			continue
		}
		if s, sub, ok := c14containsFact(f); ok {
			// the text is known to contain a constant (HasPrefix, HasSuffix, Contains, Index >= 0, CutPrefix ...)
			if w, isK := constString(sub); isK && same(s) && int64(len(w)) > lower {
				lower = int64(len(w))
			}
			continue
		}
		if _, isCall := f.Cond.(*ssa.Call); isCall {
			continue
		}
		x0, op, y0, ok := c14cmp(f)
		if !ok {
			continue
		}
		if w, isK := constString(y0); isK && op == token.NEQ && w == "" && same(x0) && lower < 1 {
			lower = 1
			continue
		}
		if w, isK := constString(x0); isK && op == token.NEQ && w == "" && same(y0) && lower < 1 {
			lower = 1
			continue
		}
		if w, isK := constString(y0); isK && op == token.EQL && same(x0) && int64(len(w)) > lower {
			lower = int64(len(w))
			continue
		}
		if w, isK := constString(x0); isK && op == token.EQL && same(y0) && int64(len(w)) > lower {
			lower = int64(len(w))
			continue
		}
		var k int64
		switch {
		case isLen(x0):
			n, isK := constInt(y0)
			if !isK {
				continue
			}
			k = n
		case isLen(y0):
			n, isK := constInt(x0)
			if !isK {
				continue
			}
			k, op = n, c14flip(op)
		default:
			continue
		}
		switch op {
		case token.EQL, token.GEQ:
			if k > lower {
				lower = k
			}
		case token.GTR:
			if k+1 > lower {
				lower = k + 1
			}
		case token.NEQ:
			excluded = append(excluded, k)
		}
	}
	for changed := true; changed; {
		changed = false
		for _, e := range excluded {
			if e == lower {
				lower++
				changed = true
			}
		}
	}
	return lower
}

// c14strLenLB: a lower bound of the length of the string x at w; for a parameter of a helper also what holds at each
// of its (few, static) call sites about the argument, for a merge what holds on each incoming edge.
func c14strLenLB(x ssa.Value, w c14where, d int) int64 {
	lb := c14lenAt(w, x, 0)
	if k, ok := constString(x); ok {
		return int64(len(k))
	}
	if d > 4 {
		return lb
	}
	var alts []int64
	switch y := x.(type) {
	case *ssa.Parameter:
		fn := y.Parent()
		sites := gSites[fn]
		if fn == nil || len(sites) == 0 || len(sites) > maxHelperSites || !onlyStaticallyCalled(fn) {
			return lb
		}
		idx := -1
		for k, p := range fn.Params {
			if p == y {
				idx = k
			}
		}
		for _, s := range sites {
			if idx < 0 || idx >= len(s.Common().Args) || s.Block() == nil {
				return lb
			}
			alts = append(alts, c14strLenLB(s.Common().Args[idx], c14atBlock(s.Block()), d+1))
		}
	case *ssa.Phi:
		for k, e := range y.Edges {
			if e != x {
				alts = append(alts, c14strLenLB(e, c14onEdge(y.Block().Preds[k], y.Block()), d+1))
			}
		}
	default:
		return lb
	}
	if len(alts) == 0 {
		return lb
	}
	min := alts[0]
	for _, a := range alts[1:] {
		if a < min {
			min = a
		}
	}
	if min > lb {
		lb = min
	}
	return lb
}

// c14pathStable: comparing v with another value by access path is meaningful: v is a (chain of) field load(s) from a
// parameter / receiver, not a register that merely prints alike.
func c14pathStable(v ssa.Value) bool {
	switch x := v.(type) {
	case *ssa.Parameter, *ssa.FreeVar:
		return true
	case *ssa.UnOp:
		if x.Op == token.MUL {
			if fa, ok := x.X.(*ssa.FieldAddr); ok {
				return c14pathStable(fa.X)
			}
		}
	case *ssa.Field:
		return c14pathStable(x.X)
	}
	return false
}

// c14lenLB: a lower bound of len(x) where facts hold, and whether the length of x is decided by input text (x is, or
// may be, the result of the split family). Followed through merges (per incoming edge), local variables, append,
// helper results (per return) and helper parameters (per call site).
func c14lenLB(x ssa.Value, w c14where, d int, seen map[ssa.Value]bool) (lb int64, input bool, what string) {
	base, input, what := c14lenBase(x, d, seen)
	if call, ok := x.(*ssa.Call); ok && input && base < 2 && c14splitFindsSep(call, w) {
		base = 2 // the text is known to contain the separator: at least two parts
	}
	return c14lenAt(w, x, base), input, what
}

func c14lenBase(x ssa.Value, d int, seen map[ssa.Value]bool) (lb int64, input bool, what string) {
	if x == nil || d > 8 || seen[x] {
		return 0, false, ""
	}
	seen[x] = true
	defer delete(seen, x)
	type alt struct {
		v ssa.Value
		w c14where
	}
	var alts []alt
	switch y := x.(type) {
	case *ssa.Call:
		n := calleeName(&y.Call)
		if min, ok := c14splitFamily[n]; ok {
			if n == "strings.SplitN" || n == "strings.SplitAfterN" || n == "bytes.SplitN" {
				if cnt, isK := constInt(y.Call.Args[2]); !isK || cnt == 0 {
					min = 0
				}
			}
			return min, true, n
		}
		if n == "builtin.append" && len(y.Call.Args) > 0 {
			lb, input, what = c14lenBase(y.Call.Args[0], d+1, seen)
			if len(y.Call.Args) > 1 {
				if add, _, _ := c14lenBase(y.Call.Args[1], d+1, seen); add > 0 {
					lb += add
				}
			}
			return lb, input, what
		}
		for _, g := range c14callees(&y.Call) {
			if g == nil || !isRepoFn(g) || len(g.Blocks) == 0 || g.Signature.Results().Len() != 1 {
				return 0, false, ""
			}
			eachInstr(g, func(i ssa.Instruction) {
				if r, ok := i.(*ssa.Return); ok && len(r.Results) == 1 {
					alts = append(alts, alt{r.Results[0], c14where{localFactsAt(r.Block()), r.Block()}})
				}
			})
		}
	case *ssa.Extract:
		call, ok := y.Tuple.(*ssa.Call)
		if !ok {
			return 0, false, ""
		}
		for _, g := range c14callees(&call.Call) {
			if g == nil || !isRepoFn(g) || len(g.Blocks) == 0 {
				return 0, false, ""
			}
			eachInstr(g, func(i ssa.Instruction) {
				if r, ok := i.(*ssa.Return); ok && y.Index < len(r.Results) {
					alts = append(alts, alt{r.Results[y.Index], c14where{localFactsAt(r.Block()), r.Block()}})
				}
			})
		}
	case *ssa.Slice:
		if y.Low == nil && y.High == nil {
			if pt, ok := y.X.Type().Underlying().(*types.Pointer); ok {
				if at, ok := pt.Elem().Underlying().(*types.Array); ok {
					return at.Len(), false, ""
				}
			}
		}
		return 0, false, ""
	case *ssa.MakeSlice:
		if k, ok := constInt(y.Len); ok {
			return k, false, ""
		}
		return 0, false, ""
	case *ssa.Phi:
		for k, e := range y.Edges {
			if e == x {
				continue
			}
			alts = append(alts, alt{e, c14onEdge(y.Block().Preds[k], y.Block())})
		}
	case *ssa.UnOp:
		if y.Op != token.MUL {
			return 0, false, ""
		}
		cell, ok := y.X.(*ssa.Alloc)
		if !ok || cell.Referrers() == nil {
			return 0, false, ""
		}
		for _, r := range *cell.Referrers() {
			switch z := r.(type) {
			case *ssa.Store:
				if z.Addr == cell {
					alts = append(alts, alt{z.Val, c14atBlock(z.Block())})
				}
			case *ssa.UnOp, *ssa.DebugRef:
			default:
				return 0, false, "" // the cell escapes (captured, address passed on)
			}
		}
	case *ssa.Parameter:
		fn := y.Parent()
		sites := gSites[fn]
		if fn == nil || len(sites) == 0 || len(sites) > maxHelperSites || !onlyStaticallyCalled(fn) {
			return 0, false, ""
		}
		idx := -1
		for k, p := range fn.Params {
			if p == y {
				idx = k
			}
		}
		for _, s := range sites {
			if idx < 0 || idx >= len(s.Common().Args) || s.Block() == nil {
				return 0, false, ""
			}
			alts = append(alts, alt{s.Common().Args[idx], c14atBlock(s.Block())})
		}
	case *ssa.ChangeType:
		return c14lenBase(y.X, d+1, seen)
	default:
		return 0, false, ""
	}
	if len(alts) == 0 {
		return 0, false, ""
	}
	first := true
	for _, a := range alts {
		l, in, w := c14lenLB(a.v, a.w, d+1, seen)
		if in {
			input = true
			if what == "" {
				what = w
			}
		}
		if first || l < lb {
			lb = l
		}
		first = false
	}
	return lb, input, what
}

func runC14B1(c *Ctx) {
	c14ctx = c
	st := c14stateOf(c)
	fns, roots := c14b1region(c, st)
	c.atLeast("C14.B1", "goroutines that query the catalog for one service (what they run is not recovered)", len(roots), 1)
	nGen := 0
	for _, f := range fns {
		if st.owners[f] {
			nGen++
		}
	}
	c.atLeast("C14.B1", "functions that contribute to a generated command, in the checked region", nGen, 1)
	c14b1check(c, fns)
}

// c14b1region: the functions B1 and B2 judge, and the goroutine roots found.
func c14b1region(c *Ctx, st *c14state) ([]*ssa.Function, []*ssa.Function) {
	roots := c14serviceGoroutines(c)
	scope := map[*ssa.Function]bool{}
	for _, f := range c14unrecovered(roots) {
		scope[f] = true
	}
	// the functions that contribute to a command belong to the subject whatever starts them (a generator called
	// through a table or an interface the region walk does not see) - unless a recover() shields them
	shielded := map[*ssa.Function]bool{}
	if len(roots) > 0 {
		all := map[*ssa.Function]bool{}
		for _, r := range roots {
			for _, f := range c14regionNoGo(r, 8) {
				all[f] = true
			}
		}
		for f := range all {
			if !scope[f] {
				shielded[f] = true
			}
		}
	}
	for _, f := range st.ownerFns() {
		if !shielded[f] {
			scope[f] = true
		}
	}
	var fns []*ssa.Function
	for f := range scope {
		fns = append(fns, f)
	}
	sort.Slice(fns, func(i, j int) bool { return fns[i].String() < fns[j].String() })
	return fns, roots
}

func c14b1check(c *Ctx, fns []*ssa.Function) {
	const why = "this code runs in a goroutine started per service and nobody recovers there: the panic terminates fabio (and again after every restart while the tag is registered), so no service gets route updates any more instead of this one registration being dropped on its own"
	eachInstrOf(fns, func(f *ssa.Function, i ssa.Instruction) {
		switch x := i.(type) {
		case *ssa.IndexAddr:
			k, isK := constInt(x.Index)
			if !isK {
				return
			}
			if _, isSlice := x.X.Type().Underlying().(*types.Slice); !isSlice {
				return
			}
			lb, input, what := c14lenLB(x.X, c14atBlock(x.Block()), 0, map[ssa.Value]bool{})
			if !input {
				return
			}
			if call, isCall := x.X.(*ssa.Call); isCall && strings.HasPrefix(what, "(*regexp.Regexp).Find") {
				// a submatch list is nil or has one element per capture group of the (constant) pattern
				groups, _, resolved := c.regexpGroups(call.Call.Args[0])
				if !resolved {
					return // the pattern is not a constant this analysis can read: not judged
				}
				if knownNonNil(x.Block(), sameVal(x.X)) && int64(groups)+1 > lb {
					lb = int64(groups) + 1
				}
			}
			if c14debug {
				fmt.Fprintf(os.Stderr, "B1 index %s [%d] lb=%d %s %s\n", fnKey(f), k, lb, what, c.pos(x.Pos()))
			}
			c.check("C14.B1", fmt.Sprintf("%s|element [%d] of a %s result exists", fnKey(f), k, what), x.Pos(), lb > k,
				fmt.Sprintf("element [%d] of a list produced by %s is read where only len >= %d is known: registered text without the separator (e.g. an option written `weight` instead of `weight=..`) makes the index expression panic (index out of range); ", k, what, lb)+why)
		case *ssa.Slice:
			if b, isStr := x.X.Type().Underlying().(*types.Basic); !isStr || b.Info()&types.IsString == 0 {
				return
			}
			if _, isK := x.X.(*ssa.Const); isK {
				return
			}
			var need int64
			for _, bnd := range []ssa.Value{x.Low, x.High} {
				if bnd == nil {
					continue
				}
				if k, isK := constInt(bnd); isK && k > need {
					need = k
				}
			}
			if need == 0 {
				return
			}
			lb := c14strLenLB(x.X, c14atBlock(x.Block()), 0)
			if c14debug {
				fmt.Fprintf(os.Stderr, "B1 slice %s need=%d lb=%d %s\n", fnKey(f), need, lb, c.pos(x.Pos()))
			}
			c.check("C14.B1", fmt.Sprintf("%s|string cut at constant position %d is long enough", fnKey(f), need), x.Pos(), lb >= need,
				fmt.Sprintf("a string is cut at the constant position %d where only len >= %d is known (no dominating strings.HasPrefix/HasSuffix with a constant that long, equality with a constant, or length test): a shorter registered word makes the slice expression panic (slice bounds out of range); ", need, lb)+why)
		}
	})
}

// ---- C14.B2 ------------------------------------------------------------------------------------------------------------

func runC14B2(c *Ctx) {
	c14ctx = c
	st := c14stateOf(c)
	fns, roots := c14b1region(c, st)
	if len(roots) == 0 || len(st.sinks) == 0 {
		return // B1 reports the missing anchors
	}
	home := map[*ssa.Package]bool{}
	for _, s := range st.sinks {
		home[rootPkg(s.fn)] = true
	}
	for _, r := range roots {
		home[rootPkg(r)] = true
	}
	n := 0
	eachInstrOf(fns, func(f *ssa.Function, i ssa.Instruction) {
		if !home[rootPkg(f)] {
			return
		}
		n++
		what := ""
		if _, isPanic := i.(*ssa.Panic); isPanic {
			if !i.Pos().IsValid() {
				return // the checks the compiler puts around a range-over-func body, not a statement of the source
			}
			what = "panic"
		} else if cc := callCommon(i); cc != nil {
			switch name := calleeName(cc); {
			case strings.HasPrefix(name, "log.Fatal"), strings.HasPrefix(name, "log.Panic"), name == "os.Exit", name == "runtime.Goexit",
				strings.HasPrefix(name, "(*log.Logger).Fatal"), strings.HasPrefix(name, "(*log.Logger).Panic"):
				what = name
			}
		}
		if what == "" {
			return
		}
		c.check("C14.B2", fnKey(f)+"|the generator never ends the process", i.Pos(), false,
			"the code that turns one service's registration into route commands calls "+what+": it runs in a goroutine started per service with no recover, so a registration it does not like ends fabio (and again after every restart while the tag is registered) - no service gets route updates any more instead of this one registration being logged and dropped")
	})
	c.atLeast("C14.B2", "instructions of the generator's package that run in the per-service goroutines", n, 1)
}

func c14round4B2mutants() []mutant {
	const f = "registry/consul/routecmd.go"
	const old = "\t\t\t\t\t\tlog.Printf(\"[ERROR] Invalid syntax for redirect: %s. should be redirect=<code>,<url>\", o)\n\t\t\t\t\t\tcontinue\n"
	return []mutant{
		{Name: "r4 B2a invalid redirect syntax is fatal", File: f, Old: old, New: "\t\t\t\t\t\tlog.Fatalf(\"[FATAL] Invalid syntax for redirect: %s. should be redirect=<code>,<url>\", o)\n", Expect: "C14.B2"},
		{Name: "r4 B2b invalid redirect syntax panics", File: f, Old: old, New: "\t\t\t\t\t\tpanic(fmt.Sprintf(\"invalid syntax for redirect: %s\", o))\n", Expect: "C14.B2"},
		{Name: "r4 B2c tag without a trailing slash panics in the tag parser", File: f, Old: "\t\tlog.Printf(\"[WARN] consul: Invalid %s tag %q - You need to have a trailing slash!\", prefix, s)\n\t\treturn \"\", \"\", false\n", New: "\t\tlog.Panicf(\"consul: Invalid %s tag %q - You need to have a trailing slash!\", prefix, s)\n", Expect: "C14.B2"},
		{Name: "benign: r4 B2d invalid redirect syntax panics into a recover that drops the registration", File: f, Old: old, New: "\t\t\t\t\t\tpanic(fmt.Sprintf(\"invalid syntax for redirect: %s\", o))\n",
			More: []repl{{"func (r routecmd) build() []string {\n", "func (r routecmd) build() (cmds []string) {\n\tdefer func() {\n\t\tif e := recover(); e != nil {\n\t\t\tlog.Printf(\"[WARN] consul: Skipping service %q: %v\", r.svc.ServiceName, e)\n\t\t\tcmds = nil\n\t\t}\n\t}()\n\treturn r.commands()\n}\n\nfunc (r routecmd) commands() []string {\n"}}, Expect: ""},
		{Name: "benign: r4 B2e invalid redirect syntax logged through a helper", File: f, Old: old, New: "\t\t\t\t\t\tbadOption(\"redirect\", o)\n\t\t\t\t\t\tcontinue\n",
			More: []repl{{"// validRouteAdd returns true if cmd is accepted by the route\n", "func badOption(kind, o string) {\n\tlog.Printf(\"[ERROR] Invalid syntax for %s: %s\", kind, o)\n}\n\n// validRouteAdd returns true if cmd is accepted by the route\n"}}, Expect: ""},
	}
}

// c14round4B1mutants: overlay mutants of B1 and of the E1 / N1 repairs made with it (the key/value spelling of the
// option switch). Generated from the variant scripts used while writing the rule; the texts are exact pieces of fabio.
func c14round4B1mutants() []mutant {
	out := []mutant{
		{Name: "r4 B1a option switched on its key, value taken by index (seed 7)", File: "registry/consul/routecmd.go", Old: "\t\t\t\tswitch {\n\t\t\t\tcase o == \"proto=tcp\":\n\t\t\t\t\tdst = \"tcp://\" + addr\n\n\t\t\t\tcase o == \"proto=https\":\n\t\t\t\t\tdst = \"https://\" + addr\n\n\t\t\t\tcase o == \"proto=grpcs\":\n\t\t\t\t\tdst = \"grpcs://\" + addr\n\n\t\t\t\tcase o == \"proto=grpc\":\n\t\t\t\t\tdst = \"grpc://\" + addr\n\n\t\t\t\tcase strings.HasPrefix(o, \"weight=\"):\n\t\t\t\t\tweight = o[len(\"weight=\"):]\n\n\t\t\t\tcase strings.HasPrefix(o, \"redirect=\"):\n\t\t\t\t\tredir := strings.Split(o[len(\"redirect=\"):], \",\")\n\t\t\t\t\tif len(redir) == 2 {\n\t\t\t\t\t\tdst = redir[1]\n\t\t\t\t\t\tropts = append(ropts, fmt.Sprintf(\"redirect=%s\", redir[0]))\n\t\t\t\t\t} else {\n\t\t\t\t\t\tlog.Printf(\"[ERROR] Invalid syntax for redirect: %s. should be redirect=<code>,<url>\", o)\n\t\t\t\t\t\tcontinue\n\t\t\t\t\t}\n", New: "\t\t\t\tkv := strings.SplitN(o, \"=\", 2)\n\t\t\t\tswitch kv[0] {\n\t\t\t\tcase \"proto\":\n\t\t\t\t\tswitch kv[1] {\n\t\t\t\t\tcase \"tcp\":\n\t\t\t\t\t\tdst = \"tcp://\" + addr\n\t\t\t\t\tcase \"https\", \"grpc\", \"grpcs\":\n\t\t\t\t\t\tdst = kv[1] + \"://\" + addr\n\t\t\t\t\tdefault:\n\t\t\t\t\t\tropts = append(ropts, o)\n\t\t\t\t\t}\n\n\t\t\t\tcase \"weight\":\n\t\t\t\t\tweight = kv[1]\n\n\t\t\t\tcase \"redirect\":\n\t\t\t\t\tredir := strings.Split(kv[1], \",\")\n\t\t\t\t\tif len(redir) == 2 {\n\t\t\t\t\t\tdst = redir[1]\n\t\t\t\t\t\tropts = append(ropts, fmt.Sprintf(\"redirect=%s\", redir[0]))\n\t\t\t\t\t} else {\n\t\t\t\t\t\tlog.Printf(\"[ERROR] Invalid syntax for redirect: %s. should be redirect=<code>,<url>\", o)\n\t\t\t\t\t\tcontinue\n\t\t\t\t\t}\n", Expect: "C14.B1"},
		{Name: "benign: r4 B1a-ok same, words without \"=\" are ordinary options", File: "registry/consul/routecmd.go", Old: "\t\t\t\tswitch {\n\t\t\t\tcase o == \"proto=tcp\":\n\t\t\t\t\tdst = \"tcp://\" + addr\n\n\t\t\t\tcase o == \"proto=https\":\n\t\t\t\t\tdst = \"https://\" + addr\n\n\t\t\t\tcase o == \"proto=grpcs\":\n\t\t\t\t\tdst = \"grpcs://\" + addr\n\n\t\t\t\tcase o == \"proto=grpc\":\n\t\t\t\t\tdst = \"grpc://\" + addr\n\n\t\t\t\tcase strings.HasPrefix(o, \"weight=\"):\n\t\t\t\t\tweight = o[len(\"weight=\"):]\n\n\t\t\t\tcase strings.HasPrefix(o, \"redirect=\"):\n\t\t\t\t\tredir := strings.Split(o[len(\"redirect=\"):], \",\")\n\t\t\t\t\tif len(redir) == 2 {\n\t\t\t\t\t\tdst = redir[1]\n\t\t\t\t\t\tropts = append(ropts, fmt.Sprintf(\"redirect=%s\", redir[0]))\n\t\t\t\t\t} else {\n\t\t\t\t\t\tlog.Printf(\"[ERROR] Invalid syntax for redirect: %s. should be redirect=<code>,<url>\", o)\n\t\t\t\t\t\tcontinue\n\t\t\t\t\t}\n", New: "\t\t\t\tkv := strings.SplitN(o, \"=\", 2)\n\t\t\t\tif len(kv) != 2 {\n\t\t\t\t\tropts = append(ropts, o)\n\t\t\t\t\tcontinue\n\t\t\t\t}\n\t\t\t\tswitch kv[0] {\n\t\t\t\tcase \"proto\":\n\t\t\t\t\tswitch kv[1] {\n\t\t\t\t\tcase \"tcp\":\n\t\t\t\t\t\tdst = \"tcp://\" + addr\n\t\t\t\t\tcase \"https\", \"grpc\", \"grpcs\":\n\t\t\t\t\t\tdst = kv[1] + \"://\" + addr\n\t\t\t\t\tdefault:\n\t\t\t\t\t\tropts = append(ropts, o)\n\t\t\t\t\t}\n\n\t\t\t\tcase \"weight\":\n\t\t\t\t\tweight = kv[1]\n\n\t\t\t\tcase \"redirect\":\n\t\t\t\t\tredir := strings.Split(kv[1], \",\")\n\t\t\t\t\tif len(redir) == 2 {\n\t\t\t\t\t\tdst = redir[1]\n\t\t\t\t\t\tropts = append(ropts, fmt.Sprintf(\"redirect=%s\", redir[0]))\n\t\t\t\t\t} else {\n\t\t\t\t\t\tlog.Printf(\"[ERROR] Invalid syntax for redirect: %s. should be redirect=<code>,<url>\", o)\n\t\t\t\t\t\tcontinue\n\t\t\t\t\t}\n", Expect: ""},
		{Name: "benign: r4 B1b option split with strings.Cut", File: "registry/consul/routecmd.go", Old: "\t\t\t\tswitch {\n\t\t\t\tcase o == \"proto=tcp\":\n\t\t\t\t\tdst = \"tcp://\" + addr\n\n\t\t\t\tcase o == \"proto=https\":\n\t\t\t\t\tdst = \"https://\" + addr\n\n\t\t\t\tcase o == \"proto=grpcs\":\n\t\t\t\t\tdst = \"grpcs://\" + addr\n\n\t\t\t\tcase o == \"proto=grpc\":\n\t\t\t\t\tdst = \"grpc://\" + addr\n\n\t\t\t\tcase strings.HasPrefix(o, \"weight=\"):\n\t\t\t\t\tweight = o[len(\"weight=\"):]\n\n\t\t\t\tcase strings.HasPrefix(o, \"redirect=\"):\n\t\t\t\t\tredir := strings.Split(o[len(\"redirect=\"):], \",\")\n\t\t\t\t\tif len(redir) == 2 {\n\t\t\t\t\t\tdst = redir[1]\n\t\t\t\t\t\tropts = append(ropts, fmt.Sprintf(\"redirect=%s\", redir[0]))\n\t\t\t\t\t} else {\n\t\t\t\t\t\tlog.Printf(\"[ERROR] Invalid syntax for redirect: %s. should be redirect=<code>,<url>\", o)\n\t\t\t\t\t\tcontinue\n\t\t\t\t\t}\n", New: "\t\t\t\tk, v, ok := strings.Cut(o, \"=\")\n\t\t\t\tswitch {\n\t\t\t\tcase ok && k == \"proto\" && v == \"tcp\":\n\t\t\t\t\tdst = \"tcp://\" + addr\n\n\t\t\t\tcase ok && k == \"proto\" && (v == \"https\" || v == \"grpc\" || v == \"grpcs\"):\n\t\t\t\t\tdst = v + \"://\" + addr\n\n\t\t\t\tcase ok && k == \"weight\":\n\t\t\t\t\tweight = v\n\n\t\t\t\tcase ok && k == \"redirect\":\n\t\t\t\t\tredir := strings.Split(v, \",\")\n\t\t\t\t\tif len(redir) == 2 {\n\t\t\t\t\t\tdst = redir[1]\n\t\t\t\t\t\tropts = append(ropts, fmt.Sprintf(\"redirect=%s\", redir[0]))\n\t\t\t\t\t} else {\n\t\t\t\t\t\tlog.Printf(\"[ERROR] Invalid syntax for redirect: %s. should be redirect=<code>,<url>\", o)\n\t\t\t\t\t\tcontinue\n\t\t\t\t\t}\n", Expect: ""},
		{Name: "benign: r4 B1c option split by a helper that checks the length", File: "registry/consul/routecmd.go", Old: "\t\t\t\tswitch {\n\t\t\t\tcase o == \"proto=tcp\":\n\t\t\t\t\tdst = \"tcp://\" + addr\n\n\t\t\t\tcase o == \"proto=https\":\n\t\t\t\t\tdst = \"https://\" + addr\n\n\t\t\t\tcase o == \"proto=grpcs\":\n\t\t\t\t\tdst = \"grpcs://\" + addr\n\n\t\t\t\tcase o == \"proto=grpc\":\n\t\t\t\t\tdst = \"grpc://\" + addr\n\n\t\t\t\tcase strings.HasPrefix(o, \"weight=\"):\n\t\t\t\t\tweight = o[len(\"weight=\"):]\n\n\t\t\t\tcase strings.HasPrefix(o, \"redirect=\"):\n\t\t\t\t\tredir := strings.Split(o[len(\"redirect=\"):], \",\")\n\t\t\t\t\tif len(redir) == 2 {\n\t\t\t\t\t\tdst = redir[1]\n\t\t\t\t\t\tropts = append(ropts, fmt.Sprintf(\"redirect=%s\", redir[0]))\n\t\t\t\t\t} else {\n\t\t\t\t\t\tlog.Printf(\"[ERROR] Invalid syntax for redirect: %s. should be redirect=<code>,<url>\", o)\n\t\t\t\t\t\tcontinue\n\t\t\t\t\t}\n", New: "\t\t\t\tk, v, ok := optKV(o)\n\t\t\t\tswitch {\n\t\t\t\tcase ok && k == \"proto\" && v == \"tcp\":\n\t\t\t\t\tdst = \"tcp://\" + addr\n\n\t\t\t\tcase ok && k == \"proto\" && (v == \"https\" || v == \"grpc\" || v == \"grpcs\"):\n\t\t\t\t\tdst = v + \"://\" + addr\n\n\t\t\t\tcase ok && k == \"weight\":\n\t\t\t\t\tweight = v\n\n\t\t\t\tcase ok && k == \"redirect\":\n\t\t\t\t\tredir := strings.Split(v, \",\")\n\t\t\t\t\tif len(redir) == 2 {\n\t\t\t\t\t\tdst = redir[1]\n\t\t\t\t\t\tropts = append(ropts, fmt.Sprintf(\"redirect=%s\", redir[0]))\n\t\t\t\t\t} else {\n\t\t\t\t\t\tlog.Printf(\"[ERROR] Invalid syntax for redirect: %s. should be redirect=<code>,<url>\", o)\n\t\t\t\t\t\tcontinue\n\t\t\t\t\t}\n", More: []repl{{"// validRouteAdd returns true if cmd is accepted by the route\n", "// optKV splits an option word at its first \"=\".\nfunc optKV(o string) (k, v string, ok bool) {\n\tkv := strings.SplitN(o, \"=\", 2)\n\tif len(kv) < 2 {\n\t\treturn o, \"\", false\n\t}\n\treturn kv[0], kv[1], true\n}\n\n// validRouteAdd returns true if cmd is accepted by the route\n"}}, Expect: ""},
		{Name: "r4 B1c-x option split by a helper that indexes first", File: "registry/consul/routecmd.go", Old: "\t\t\t\tswitch {\n\t\t\t\tcase o == \"proto=tcp\":\n\t\t\t\t\tdst = \"tcp://\" + addr\n\n\t\t\t\tcase o == \"proto=https\":\n\t\t\t\t\tdst = \"https://\" + addr\n\n\t\t\t\tcase o == \"proto=grpcs\":\n\t\t\t\t\tdst = \"grpcs://\" + addr\n\n\t\t\t\tcase o == \"proto=grpc\":\n\t\t\t\t\tdst = \"grpc://\" + addr\n\n\t\t\t\tcase strings.HasPrefix(o, \"weight=\"):\n\t\t\t\t\tweight = o[len(\"weight=\"):]\n\n\t\t\t\tcase strings.HasPrefix(o, \"redirect=\"):\n\t\t\t\t\tredir := strings.Split(o[len(\"redirect=\"):], \",\")\n\t\t\t\t\tif len(redir) == 2 {\n\t\t\t\t\t\tdst = redir[1]\n\t\t\t\t\t\tropts = append(ropts, fmt.Sprintf(\"redirect=%s\", redir[0]))\n\t\t\t\t\t} else {\n\t\t\t\t\t\tlog.Printf(\"[ERROR] Invalid syntax for redirect: %s. should be redirect=<code>,<url>\", o)\n\t\t\t\t\t\tcontinue\n\t\t\t\t\t}\n", New: "\t\t\t\tk, v, ok := optKV(o)\n\t\t\t\tswitch {\n\t\t\t\tcase ok && k == \"proto\" && v == \"tcp\":\n\t\t\t\t\tdst = \"tcp://\" + addr\n\n\t\t\t\tcase ok && k == \"proto\" && (v == \"https\" || v == \"grpc\" || v == \"grpcs\"):\n\t\t\t\t\tdst = v + \"://\" + addr\n\n\t\t\t\tcase ok && k == \"weight\":\n\t\t\t\t\tweight = v\n\n\t\t\t\tcase ok && k == \"redirect\":\n\t\t\t\t\tredir := strings.Split(v, \",\")\n\t\t\t\t\tif len(redir) == 2 {\n\t\t\t\t\t\tdst = redir[1]\n\t\t\t\t\t\tropts = append(ropts, fmt.Sprintf(\"redirect=%s\", redir[0]))\n\t\t\t\t\t} else {\n\t\t\t\t\t\tlog.Printf(\"[ERROR] Invalid syntax for redirect: %s. should be redirect=<code>,<url>\", o)\n\t\t\t\t\t\tcontinue\n\t\t\t\t\t}\n", More: []repl{{"// validRouteAdd returns true if cmd is accepted by the route\n", "// optKV splits an option word at its first \"=\".\nfunc optKV(o string) (k, v string, ok bool) {\n\tkv := strings.SplitN(o, \"=\", 2)\n\treturn kv[0], kv[1], len(kv) == 2\n}\n\n// validRouteAdd returns true if cmd is accepted by the route\n"}}, Expect: "C14.B1"},
		{Name: "r4 B1d weight recognised by \"weight\", cut after \"weight=\"", File: "registry/consul/routecmd.go", Old: "case strings.HasPrefix(o, \"weight=\"):", New: "case strings.HasPrefix(o, \"weight\"):", Expect: "C14.B1"},
		{Name: "r4 B1e redirect parts tested with len >= 1", File: "registry/consul/routecmd.go", Old: "if len(redir) == 2 {", New: "if len(redir) >= 1 {", Expect: "C14.B1"},
		{Name: "r4 B1f options of a tag taken without the length test", File: "registry/consul/routecmd.go", Old: "\tif len(p) == 2 {\n\t\topts = p[1]\n\t}\n", New: "\topts = p[1]\n", Expect: "C14.B1"},
		{Name: "benign: r4 B1g redirect parts tested with len < 2 first", File: "registry/consul/routecmd.go", Old: "\t\t\t\t\tif len(redir) == 2 {\n\t\t\t\t\t\tdst = redir[1]\n\t\t\t\t\t\tropts = append(ropts, fmt.Sprintf(\"redirect=%s\", redir[0]))\n\t\t\t\t\t} else {\n\t\t\t\t\t\tlog.Printf(\"[ERROR] Invalid syntax for redirect: %s. should be redirect=<code>,<url>\", o)\n\t\t\t\t\t\tcontinue\n\t\t\t\t\t}\n", New: "\t\t\t\t\tif len(redir) < 2 || len(redir) > 2 {\n\t\t\t\t\t\tlog.Printf(\"[ERROR] Invalid syntax for redirect: %s. should be redirect=<code>,<url>\", o)\n\t\t\t\t\t\tcontinue\n\t\t\t\t\t}\n\t\t\t\t\tdst = redir[1]\n\t\t\t\t\tropts = append(ropts, fmt.Sprintf(\"redirect=%s\", redir[0]))\n", Expect: ""},
		{Name: "benign: r4 B1h seed 7 body behind a recover that drops the registration", File: "registry/consul/routecmd.go", Old: "\t\t\t\tswitch {\n\t\t\t\tcase o == \"proto=tcp\":\n\t\t\t\t\tdst = \"tcp://\" + addr\n\n\t\t\t\tcase o == \"proto=https\":\n\t\t\t\t\tdst = \"https://\" + addr\n\n\t\t\t\tcase o == \"proto=grpcs\":\n\t\t\t\t\tdst = \"grpcs://\" + addr\n\n\t\t\t\tcase o == \"proto=grpc\":\n\t\t\t\t\tdst = \"grpc://\" + addr\n\n\t\t\t\tcase strings.HasPrefix(o, \"weight=\"):\n\t\t\t\t\tweight = o[len(\"weight=\"):]\n\n\t\t\t\tcase strings.HasPrefix(o, \"redirect=\"):\n\t\t\t\t\tredir := strings.Split(o[len(\"redirect=\"):], \",\")\n\t\t\t\t\tif len(redir) == 2 {\n\t\t\t\t\t\tdst = redir[1]\n\t\t\t\t\t\tropts = append(ropts, fmt.Sprintf(\"redirect=%s\", redir[0]))\n\t\t\t\t\t} else {\n\t\t\t\t\t\tlog.Printf(\"[ERROR] Invalid syntax for redirect: %s. should be redirect=<code>,<url>\", o)\n\t\t\t\t\t\tcontinue\n\t\t\t\t\t}\n", New: "\t\t\t\tkv := strings.SplitN(o, \"=\", 2)\n\t\t\t\tswitch kv[0] {\n\t\t\t\tcase \"proto\":\n\t\t\t\t\tswitch kv[1] {\n\t\t\t\t\tcase \"tcp\":\n\t\t\t\t\t\tdst = \"tcp://\" + addr\n\t\t\t\t\tcase \"https\", \"grpc\", \"grpcs\":\n\t\t\t\t\t\tdst = kv[1] + \"://\" + addr\n\t\t\t\t\tdefault:\n\t\t\t\t\t\tropts = append(ropts, o)\n\t\t\t\t\t}\n\n\t\t\t\tcase \"weight\":\n\t\t\t\t\tweight = kv[1]\n\n\t\t\t\tcase \"redirect\":\n\t\t\t\t\tredir := strings.Split(kv[1], \",\")\n\t\t\t\t\tif len(redir) == 2 {\n\t\t\t\t\t\tdst = redir[1]\n\t\t\t\t\t\tropts = append(ropts, fmt.Sprintf(\"redirect=%s\", redir[0]))\n\t\t\t\t\t} else {\n\t\t\t\t\t\tlog.Printf(\"[ERROR] Invalid syntax for redirect: %s. should be redirect=<code>,<url>\", o)\n\t\t\t\t\t\tcontinue\n\t\t\t\t\t}\n", More: []repl{{"func (r routecmd) build() []string {\n", "func (r routecmd) build() (cmds []string) {\n\tdefer func() {\n\t\tif e := recover(); e != nil {\n\t\t\tlog.Printf(\"[WARN] consul: Skipping service %q: %v\", r.svc.ServiceName, e)\n\t\t\tcmds = nil\n\t\t}\n\t}()\n\treturn r.commands()\n}\n\nfunc (r routecmd) commands() []string {\n"}}, Expect: ""},
		{Name: "r4 N1a strings.Cut spelling, grpcs not among the schemes", File: "registry/consul/routecmd.go", Old: "\t\t\t\tswitch {\n\t\t\t\tcase o == \"proto=tcp\":\n\t\t\t\t\tdst = \"tcp://\" + addr\n\n\t\t\t\tcase o == \"proto=https\":\n\t\t\t\t\tdst = \"https://\" + addr\n\n\t\t\t\tcase o == \"proto=grpcs\":\n\t\t\t\t\tdst = \"grpcs://\" + addr\n\n\t\t\t\tcase o == \"proto=grpc\":\n\t\t\t\t\tdst = \"grpc://\" + addr\n\n\t\t\t\tcase strings.HasPrefix(o, \"weight=\"):\n\t\t\t\t\tweight = o[len(\"weight=\"):]\n\n\t\t\t\tcase strings.HasPrefix(o, \"redirect=\"):\n\t\t\t\t\tredir := strings.Split(o[len(\"redirect=\"):], \",\")\n\t\t\t\t\tif len(redir) == 2 {\n\t\t\t\t\t\tdst = redir[1]\n\t\t\t\t\t\tropts = append(ropts, fmt.Sprintf(\"redirect=%s\", redir[0]))\n\t\t\t\t\t} else {\n\t\t\t\t\t\tlog.Printf(\"[ERROR] Invalid syntax for redirect: %s. should be redirect=<code>,<url>\", o)\n\t\t\t\t\t\tcontinue\n\t\t\t\t\t}\n", New: "\t\t\t\tk, v, ok := strings.Cut(o, \"=\")\n\t\t\t\tswitch {\n\t\t\t\tcase ok && k == \"proto\" && v == \"tcp\":\n\t\t\t\t\tdst = \"tcp://\" + addr\n\n\t\t\t\tcase ok && k == \"proto\" && (v == \"https\" || v == \"grpc\"):\n\t\t\t\t\tdst = v + \"://\" + addr\n\n\t\t\t\tcase ok && k == \"weight\":\n\t\t\t\t\tweight = v\n\n\t\t\t\tcase ok && k == \"redirect\":\n\t\t\t\t\tredir := strings.Split(v, \",\")\n\t\t\t\t\tif len(redir) == 2 {\n\t\t\t\t\t\tdst = redir[1]\n\t\t\t\t\t\tropts = append(ropts, fmt.Sprintf(\"redirect=%s\", redir[0]))\n\t\t\t\t\t} else {\n\t\t\t\t\t\tlog.Printf(\"[ERROR] Invalid syntax for redirect: %s. should be redirect=<code>,<url>\", o)\n\t\t\t\t\t\tcontinue\n\t\t\t\t\t}\n", Expect: "C14.N1"},
		{Name: "r4 N1b key/value spelling, every tls-ish proto selects https", File: "registry/consul/routecmd.go", Old: "\t\t\t\tswitch {\n\t\t\t\tcase o == \"proto=tcp\":\n\t\t\t\t\tdst = \"tcp://\" + addr\n\n\t\t\t\tcase o == \"proto=https\":\n\t\t\t\t\tdst = \"https://\" + addr\n\n\t\t\t\tcase o == \"proto=grpcs\":\n\t\t\t\t\tdst = \"grpcs://\" + addr\n\n\t\t\t\tcase o == \"proto=grpc\":\n\t\t\t\t\tdst = \"grpc://\" + addr\n\n\t\t\t\tcase strings.HasPrefix(o, \"weight=\"):\n\t\t\t\t\tweight = o[len(\"weight=\"):]\n\n\t\t\t\tcase strings.HasPrefix(o, \"redirect=\"):\n\t\t\t\t\tredir := strings.Split(o[len(\"redirect=\"):], \",\")\n\t\t\t\t\tif len(redir) == 2 {\n\t\t\t\t\t\tdst = redir[1]\n\t\t\t\t\t\tropts = append(ropts, fmt.Sprintf(\"redirect=%s\", redir[0]))\n\t\t\t\t\t} else {\n\t\t\t\t\t\tlog.Printf(\"[ERROR] Invalid syntax for redirect: %s. should be redirect=<code>,<url>\", o)\n\t\t\t\t\t\tcontinue\n\t\t\t\t\t}\n", New: "\t\t\t\tkv := strings.SplitN(o, \"=\", 2)\n\t\t\t\tif len(kv) != 2 {\n\t\t\t\t\tropts = append(ropts, o)\n\t\t\t\t\tcontinue\n\t\t\t\t}\n\t\t\t\tswitch kv[0] {\n\t\t\t\tcase \"proto\":\n\t\t\t\t\tswitch kv[1] {\n\t\t\t\t\tcase \"tcp\":\n\t\t\t\t\t\tdst = \"tcp://\" + addr\n\t\t\t\t\tcase \"https\", \"grpc\", \"grpcs\":\n\t\t\t\t\t\tdst = \"https://\" + addr\n\t\t\t\t\tdefault:\n\t\t\t\t\t\tropts = append(ropts, o)\n\t\t\t\t\t}\n\n\t\t\t\tcase \"weight\":\n\t\t\t\t\tweight = kv[1]\n\n\t\t\t\tcase \"redirect\":\n\t\t\t\t\tredir := strings.Split(kv[1], \",\")\n\t\t\t\t\tif len(redir) == 2 {\n\t\t\t\t\t\tdst = redir[1]\n\t\t\t\t\t\tropts = append(ropts, fmt.Sprintf(\"redirect=%s\", redir[0]))\n\t\t\t\t\t} else {\n\t\t\t\t\t\tlog.Printf(\"[ERROR] Invalid syntax for redirect: %s. should be redirect=<code>,<url>\", o)\n\t\t\t\t\t\tcontinue\n\t\t\t\t\t}\n", Expect: "C14.N1"},
		{Name: "r4 E1a strings.Cut spelling, the option word is expanded first", File: "registry/consul/routecmd.go", Old: "\t\t\t\tswitch {\n\t\t\t\tcase o == \"proto=tcp\":\n\t\t\t\t\tdst = \"tcp://\" + addr\n\n\t\t\t\tcase o == \"proto=https\":\n\t\t\t\t\tdst = \"https://\" + addr\n\n\t\t\t\tcase o == \"proto=grpcs\":\n\t\t\t\t\tdst = \"grpcs://\" + addr\n\n\t\t\t\tcase o == \"proto=grpc\":\n\t\t\t\t\tdst = \"grpc://\" + addr\n\n\t\t\t\tcase strings.HasPrefix(o, \"weight=\"):\n\t\t\t\t\tweight = o[len(\"weight=\"):]\n\n\t\t\t\tcase strings.HasPrefix(o, \"redirect=\"):\n\t\t\t\t\tredir := strings.Split(o[len(\"redirect=\"):], \",\")\n\t\t\t\t\tif len(redir) == 2 {\n\t\t\t\t\t\tdst = redir[1]\n\t\t\t\t\t\tropts = append(ropts, fmt.Sprintf(\"redirect=%s\", redir[0]))\n\t\t\t\t\t} else {\n\t\t\t\t\t\tlog.Printf(\"[ERROR] Invalid syntax for redirect: %s. should be redirect=<code>,<url>\", o)\n\t\t\t\t\t\tcontinue\n\t\t\t\t\t}\n", New: "\t\t\t\tk, v, ok := strings.Cut(os.Expand(o, func(x string) string { return r.env[x] }), \"=\")\n\t\t\t\tswitch {\n\t\t\t\tcase ok && k == \"proto\" && v == \"tcp\":\n\t\t\t\t\tdst = \"tcp://\" + addr\n\n\t\t\t\tcase ok && k == \"proto\" && (v == \"https\" || v == \"grpc\" || v == \"grpcs\"):\n\t\t\t\t\tdst = v + \"://\" + addr\n\n\t\t\t\tcase ok && k == \"weight\":\n\t\t\t\t\tweight = v\n\n\t\t\t\tcase ok && k == \"redirect\":\n\t\t\t\t\tredir := strings.Split(v, \",\")\n\t\t\t\t\tif len(redir) == 2 {\n\t\t\t\t\t\tdst = redir[1]\n\t\t\t\t\t\tropts = append(ropts, fmt.Sprintf(\"redirect=%s\", redir[0]))\n\t\t\t\t\t} else {\n\t\t\t\t\t\tlog.Printf(\"[ERROR] Invalid syntax for redirect: %s. should be redirect=<code>,<url>\", o)\n\t\t\t\t\t\tcontinue\n\t\t\t\t\t}\n", Expect: "C14.E1"},
		{Name: "r4 E1b key/value spelling in a helper, the word is expanded first", File: "registry/consul/routecmd.go", Old: "\t\t\t\tswitch {\n\t\t\t\tcase o == \"proto=tcp\":\n\t\t\t\t\tdst = \"tcp://\" + addr\n\n\t\t\t\tcase o == \"proto=https\":\n\t\t\t\t\tdst = \"https://\" + addr\n\n\t\t\t\tcase o == \"proto=grpcs\":\n\t\t\t\t\tdst = \"grpcs://\" + addr\n\n\t\t\t\tcase o == \"proto=grpc\":\n\t\t\t\t\tdst = \"grpc://\" + addr\n\n\t\t\t\tcase strings.HasPrefix(o, \"weight=\"):\n\t\t\t\t\tweight = o[len(\"weight=\"):]\n\n\t\t\t\tcase strings.HasPrefix(o, \"redirect=\"):\n\t\t\t\t\tredir := strings.Split(o[len(\"redirect=\"):], \",\")\n\t\t\t\t\tif len(redir) == 2 {\n\t\t\t\t\t\tdst = redir[1]\n\t\t\t\t\t\tropts = append(ropts, fmt.Sprintf(\"redirect=%s\", redir[0]))\n\t\t\t\t\t} else {\n\t\t\t\t\t\tlog.Printf(\"[ERROR] Invalid syntax for redirect: %s. should be redirect=<code>,<url>\", o)\n\t\t\t\t\t\tcontinue\n\t\t\t\t\t}\n", New: "\t\t\t\tk, v, ok := optKV(o)\n\t\t\t\tswitch {\n\t\t\t\tcase ok && k == \"proto\" && v == \"tcp\":\n\t\t\t\t\tdst = \"tcp://\" + addr\n\n\t\t\t\tcase ok && k == \"proto\" && (v == \"https\" || v == \"grpc\" || v == \"grpcs\"):\n\t\t\t\t\tdst = v + \"://\" + addr\n\n\t\t\t\tcase ok && k == \"weight\":\n\t\t\t\t\tweight = v\n\n\t\t\t\tcase ok && k == \"redirect\":\n\t\t\t\t\tredir := strings.Split(v, \",\")\n\t\t\t\t\tif len(redir) == 2 {\n\t\t\t\t\t\tdst = redir[1]\n\t\t\t\t\t\tropts = append(ropts, fmt.Sprintf(\"redirect=%s\", redir[0]))\n\t\t\t\t\t} else {\n\t\t\t\t\t\tlog.Printf(\"[ERROR] Invalid syntax for redirect: %s. should be redirect=<code>,<url>\", o)\n\t\t\t\t\t\tcontinue\n\t\t\t\t\t}\n", More: []repl{{"// validRouteAdd returns true if cmd is accepted by the route\n", "// optKV splits an option word at its first \"=\".\nfunc optKV(o string) (k, v string, ok bool) {\n\tkv := strings.SplitN(os.ExpandEnv(o), \"=\", 2)\n\tif len(kv) < 2 {\n\t\treturn o, \"\", false\n\t}\n\treturn kv[0], kv[1], true\n}\n\n// validRouteAdd returns true if cmd is accepted by the route\n"}}, Expect: "C14.E1"},
		{Name: "benign: r4 B1j key/value spelling, a missing value is padded with \"\"", File: "registry/consul/routecmd.go", Old: "\t\t\t\tswitch {\n\t\t\t\tcase o == \"proto=tcp\":\n\t\t\t\t\tdst = \"tcp://\" + addr\n\n\t\t\t\tcase o == \"proto=https\":\n\t\t\t\t\tdst = \"https://\" + addr\n\n\t\t\t\tcase o == \"proto=grpcs\":\n\t\t\t\t\tdst = \"grpcs://\" + addr\n\n\t\t\t\tcase o == \"proto=grpc\":\n\t\t\t\t\tdst = \"grpc://\" + addr\n\n\t\t\t\tcase strings.HasPrefix(o, \"weight=\"):\n\t\t\t\t\tweight = o[len(\"weight=\"):]\n\n\t\t\t\tcase strings.HasPrefix(o, \"redirect=\"):\n\t\t\t\t\tredir := strings.Split(o[len(\"redirect=\"):], \",\")\n\t\t\t\t\tif len(redir) == 2 {\n\t\t\t\t\t\tdst = redir[1]\n\t\t\t\t\t\tropts = append(ropts, fmt.Sprintf(\"redirect=%s\", redir[0]))\n\t\t\t\t\t} else {\n\t\t\t\t\t\tlog.Printf(\"[ERROR] Invalid syntax for redirect: %s. should be redirect=<code>,<url>\", o)\n\t\t\t\t\t\tcontinue\n\t\t\t\t\t}\n", New: "\t\t\t\tkv := strings.SplitN(o, \"=\", 2)\n\t\t\t\tif len(kv) < 2 {\n\t\t\t\t\tkv = append(kv, \"\")\n\t\t\t\t}\n\t\t\t\tswitch kv[0] {\n\t\t\t\tcase \"proto\":\n\t\t\t\t\tswitch kv[1] {\n\t\t\t\t\tcase \"tcp\":\n\t\t\t\t\t\tdst = \"tcp://\" + addr\n\t\t\t\t\tcase \"https\", \"grpc\", \"grpcs\":\n\t\t\t\t\t\tdst = kv[1] + \"://\" + addr\n\t\t\t\t\tdefault:\n\t\t\t\t\t\tropts = append(ropts, o)\n\t\t\t\t\t}\n\n\t\t\t\tcase \"weight\":\n\t\t\t\t\tweight = kv[1]\n\n\t\t\t\tcase \"redirect\":\n\t\t\t\t\tredir := strings.Split(kv[1], \",\")\n\t\t\t\t\tif len(redir) == 2 {\n\t\t\t\t\t\tdst = redir[1]\n\t\t\t\t\t\tropts = append(ropts, fmt.Sprintf(\"redirect=%s\", redir[0]))\n\t\t\t\t\t} else {\n\t\t\t\t\t\tlog.Printf(\"[ERROR] Invalid syntax for redirect: %s. should be redirect=<code>,<url>\", o)\n\t\t\t\t\t\tcontinue\n\t\t\t\t\t}\n", Expect: ""},
		{Name: "benign: r4 B1k value read by a helper called after the length test", File: "registry/consul/routecmd.go", Old: "\t\t\t\tswitch {\n\t\t\t\tcase o == \"proto=tcp\":\n\t\t\t\t\tdst = \"tcp://\" + addr\n\n\t\t\t\tcase o == \"proto=https\":\n\t\t\t\t\tdst = \"https://\" + addr\n\n\t\t\t\tcase o == \"proto=grpcs\":\n\t\t\t\t\tdst = \"grpcs://\" + addr\n\n\t\t\t\tcase o == \"proto=grpc\":\n\t\t\t\t\tdst = \"grpc://\" + addr\n\n\t\t\t\tcase strings.HasPrefix(o, \"weight=\"):\n\t\t\t\t\tweight = o[len(\"weight=\"):]\n\n\t\t\t\tcase strings.HasPrefix(o, \"redirect=\"):\n\t\t\t\t\tredir := strings.Split(o[len(\"redirect=\"):], \",\")\n\t\t\t\t\tif len(redir) == 2 {\n\t\t\t\t\t\tdst = redir[1]\n\t\t\t\t\t\tropts = append(ropts, fmt.Sprintf(\"redirect=%s\", redir[0]))\n\t\t\t\t\t} else {\n\t\t\t\t\t\tlog.Printf(\"[ERROR] Invalid syntax for redirect: %s. should be redirect=<code>,<url>\", o)\n\t\t\t\t\t\tcontinue\n\t\t\t\t\t}\n", New: "\t\t\t\tkv := strings.SplitN(o, \"=\", 2)\n\t\t\t\tif len(kv) != 2 {\n\t\t\t\t\tropts = append(ropts, o)\n\t\t\t\t\tcontinue\n\t\t\t\t}\n\t\t\t\tswitch kv[0] {\n\t\t\t\tcase \"proto\":\n\t\t\t\t\tswitch kv[1] {\n\t\t\t\t\tcase \"tcp\":\n\t\t\t\t\t\tdst = \"tcp://\" + addr\n\t\t\t\t\tcase \"https\", \"grpc\", \"grpcs\":\n\t\t\t\t\t\tdst = kv[1] + \"://\" + addr\n\t\t\t\t\tdefault:\n\t\t\t\t\t\tropts = append(ropts, o)\n\t\t\t\t\t}\n\n\t\t\t\tcase \"weight\":\n\t\t\t\t\tweight = optValue(kv)\n\n\t\t\t\tcase \"redirect\":\n\t\t\t\t\tredir := strings.Split(kv[1], \",\")\n\t\t\t\t\tif len(redir) == 2 {\n\t\t\t\t\t\tdst = redir[1]\n\t\t\t\t\t\tropts = append(ropts, fmt.Sprintf(\"redirect=%s\", redir[0]))\n\t\t\t\t\t} else {\n\t\t\t\t\t\tlog.Printf(\"[ERROR] Invalid syntax for redirect: %s. should be redirect=<code>,<url>\", o)\n\t\t\t\t\t\tcontinue\n\t\t\t\t\t}\n", More: []repl{{"// validRouteAdd returns true if cmd is accepted by the route\n", "// optValue is the value of a split option word.\nfunc optValue(kv []string) string { return kv[1] }\n\n// validRouteAdd returns true if cmd is accepted by the route\n"}}, Expect: ""},
		{Name: "r4 B1k-x value read by a helper, the length test forgets to skip the word", File: "registry/consul/routecmd.go", Old: "\t\t\t\tswitch {\n\t\t\t\tcase o == \"proto=tcp\":\n\t\t\t\t\tdst = \"tcp://\" + addr\n\n\t\t\t\tcase o == \"proto=https\":\n\t\t\t\t\tdst = \"https://\" + addr\n\n\t\t\t\tcase o == \"proto=grpcs\":\n\t\t\t\t\tdst = \"grpcs://\" + addr\n\n\t\t\t\tcase o == \"proto=grpc\":\n\t\t\t\t\tdst = \"grpc://\" + addr\n\n\t\t\t\tcase strings.HasPrefix(o, \"weight=\"):\n\t\t\t\t\tweight = o[len(\"weight=\"):]\n\n\t\t\t\tcase strings.HasPrefix(o, \"redirect=\"):\n\t\t\t\t\tredir := strings.Split(o[len(\"redirect=\"):], \",\")\n\t\t\t\t\tif len(redir) == 2 {\n\t\t\t\t\t\tdst = redir[1]\n\t\t\t\t\t\tropts = append(ropts, fmt.Sprintf(\"redirect=%s\", redir[0]))\n\t\t\t\t\t} else {\n\t\t\t\t\t\tlog.Printf(\"[ERROR] Invalid syntax for redirect: %s. should be redirect=<code>,<url>\", o)\n\t\t\t\t\t\tcontinue\n\t\t\t\t\t}\n", New: "\t\t\t\tkv := strings.SplitN(o, \"=\", 2)\n\t\t\t\tif len(kv) != 2 {\n\t\t\t\t\tropts = append(ropts, o)\n\t\t\t\t}\n\t\t\t\tswitch kv[0] {\n\t\t\t\tcase \"proto\":\n\t\t\t\t\tif len(kv) != 2 {\n\t\t\t\t\t\tcontinue\n\t\t\t\t\t}\n\t\t\t\t\tswitch kv[1] {\n\t\t\t\t\tcase \"tcp\":\n\t\t\t\t\t\tdst = \"tcp://\" + addr\n\t\t\t\t\tcase \"https\", \"grpc\", \"grpcs\":\n\t\t\t\t\t\tdst = kv[1] + \"://\" + addr\n\t\t\t\t\tdefault:\n\t\t\t\t\t\tropts = append(ropts, o)\n\t\t\t\t\t}\n\n\t\t\t\tcase \"weight\":\n\t\t\t\t\tweight = optValue(kv)\n\n\t\t\t\tcase \"redirect\":\n\t\t\t\t\tif len(kv) != 2 {\n\t\t\t\t\t\tcontinue\n\t\t\t\t\t}\n\t\t\t\t\tredir := strings.Split(kv[1], \",\")\n\t\t\t\t\tif len(redir) == 2 {\n\t\t\t\t\t\tdst = redir[1]\n\t\t\t\t\t\tropts = append(ropts, fmt.Sprintf(\"redirect=%s\", redir[0]))\n\t\t\t\t\t} else {\n\t\t\t\t\t\tlog.Printf(\"[ERROR] Invalid syntax for redirect: %s. should be redirect=<code>,<url>\", o)\n\t\t\t\t\t\tcontinue\n\t\t\t\t\t}\n", More: []repl{{"// validRouteAdd returns true if cmd is accepted by the route\n", "// optValue is the value of a split option word.\nfunc optValue(kv []string) string { return kv[1] }\n\n// validRouteAdd returns true if cmd is accepted by the route\n"}}, Expect: "C14.B1"},
	}
	// the option helpers of an existing benign restructuring (a helper cuts the word it is handed; the test sits at
	// its only call site): silent as it is, reported when the call site tests for "redirect" without the "="
	for _, m := range c14mutants2() {
		if m.Name != "benign: r2 G1b static pointer-mutating option helpers" || len(m.More) == 0 {
			continue
		}
		bad := m
		bad.Name = "r4 B1i option helper cuts after \"redirect=\", its call site tests for \"redirect\""
		bad.Expect = "C14.B1"
		bad.More = append([]repl{}, m.More...)
		bad.More[0].New = strings.Replace(bad.More[0].New, "case strings.HasPrefix(o, \"redirect=\"):\n\t\t\ts.applyRedirect(o)", "case strings.HasPrefix(o, \"redirect\"):\n\t\t\ts.applyRedirect(o)", 1)
		if bad.More[0].New != m.More[0].New {
			out = append(out, bad)
		}
	}
	return out
}

// ---- C14.A1 ------------------------------------------------------------------------------------------------------------

const c14addWord = "route add"

// c14a1 is one evaluation of A1. The TABLE is found by role: the first result type of the table builder the validator
// and the update loop call (route.NewTable); table STATE is any value of that type plus the maps the builder makes and
// fills itself (a `seen` set of prefixes is company-dependent state just as the table is).
type c14a1 struct {
	c        *Ctx
	tableT   types.Type
	state    map[ssa.Value]bool
	leaves   []*c14a1leaf
	addFns   map[*ssa.Function]bool
	applied  int // calls of the builder recognised as the application of a route add
	visited  map[string]bool
	env      map[ssa.Value]c14a1val // the parameters of the helper being evaluated for the empty table (evalCall)
	builders map[*ssa.Function]bool // the builder and the same-package functions it delegates the building to
}

// c14a1leaf: one way a non-nil error can leave the builder while a route add is applied.
type c14a1leaf struct {
	pos    token.Pos
	fn     *ssa.Function
	facts  []Fact
	judge  *ssa.Call // the error is the verdict of this call, whose arguments do not read the table; nil: made on the spot
	what   string
	status int // of the table-reading conditions on the way: c14a1free .. c14a1unknown
	cond   string
}

const (
	c14a1free       = iota // no condition on the way reads the table
	c14a1emptyOK           // all of them also hold for the empty table
	c14a1emptyNever        // one of them is false for the empty table
	c14a1unknown           // one of them depends on what the table holds
)

func (a *c14a1) isState(v ssa.Value) bool {
	if a.state[v] {
		return true
	}
	t := v.Type()
	if p, ok := t.Underlying().(*types.Pointer); ok {
		t = p.Elem()
	}
	return types.Identical(t, a.tableT)
}

// readsTable: the value is computed from table state.
func (a *c14a1) readsTable(v ssa.Value) bool {
	if _, isK := v.(*ssa.Const); isK {
		return false
	}
	return derives(v, a.isState)
}

// readsEnv: the value is computed from a parameter bound for the evaluation of a helper (evalCall).
func (a *c14a1) readsEnv(v ssa.Value) bool {
	if len(a.env) == 0 {
		return false
	}
	if _, isK := v.(*ssa.Const); isK {
		return false
	}
	return c14localDerives(v, func(x ssa.Value) bool { _, ok := a.env[x]; return ok })
}

// c14localDerives: v is computed from a value satisfying pred inside its function (operands, merges, loads of local
// cells); calls are looked through by their arguments.
func c14localDerives(v ssa.Value, pred func(ssa.Value) bool) bool {
	seen := map[ssa.Value]bool{}
	var walk func(x ssa.Value, d int) bool
	walk = func(x ssa.Value, d int) bool {
		if x == nil || seen[x] || d > 24 {
			return false
		}
		seen[x] = true
		if pred(x) {
			return true
		}
		in, ok := x.(ssa.Instruction)
		if !ok {
			return false
		}
		for _, op := range in.Operands(nil) {
			if op != nil && *op != nil && walk(*op, d+1) {
				return true
			}
		}
		if u, isLoad := x.(*ssa.UnOp); isLoad && u.Op == token.MUL {
			if cell, isCell := u.X.(*ssa.Alloc); isCell && cell.Referrers() != nil {
				for _, r := range *cell.Referrers() {
					if st, isStore := r.(*ssa.Store); isStore && st.Addr == cell && walk(st.Val, d+1) {
						return true
					}
				}
			}
		}
		return false
	}
	return walk(v, 0)
}

// abstract values of the evaluation "the table is empty"
type c14a1val struct {
	kind int // 0 unknown, 1 nil / zero value of a reference type, 2 integer, 3 boolean, 4 string of length n (only "" and constants)
	n    int64
	b    bool
}

func c14a1zero(t types.Type) c14a1val {
	switch u := t.Underlying().(type) {
	case *types.Pointer, *types.Slice, *types.Map, *types.Interface, *types.Chan, *types.Signature:
		return c14a1val{kind: 1}
	case *types.Basic:
		switch {
		case u.Info()&types.IsBoolean != 0:
			return c14a1val{kind: 3, b: false}
		case u.Info()&types.IsInteger != 0:
			return c14a1val{kind: 2, n: 0}
		case u.Info()&types.IsString != 0:
			return c14a1val{kind: 4, n: 0}
		}
	}
	return c14a1val{}
}

// evalEmpty: the value of v when every table (state) is empty: a lookup yields the zero value and ok == false, len is
// 0, a range has no iteration; merges take the edges an empty table can take; small repository helpers are evaluated
// through their returns.
func (a *c14a1) evalEmpty(v ssa.Value, d int) c14a1val {
	if v == nil || d > 10 {
		return c14a1val{}
	}
	if r, ok := a.env[v]; ok {
		return r
	}
	switch x := v.(type) {
	case *ssa.Const:
		if x.Value == nil {
			return c14a1val{kind: 1}
		}
		if b, ok := constBool(x); ok {
			return c14a1val{kind: 3, b: b}
		}
		if n, ok := constInt(x); ok {
			return c14a1val{kind: 2, n: n}
		}
		if k, ok := constString(x); ok {
			return c14a1val{kind: 4, n: int64(len(k))}
		}
	case *ssa.Lookup:
		if a.isState(x.X) || a.evalEmpty(x.X, d+1).kind == 1 {
			if x.CommaOk {
				return c14a1val{} // read through Extract
			}
			return c14a1zero(x.Type())
		}
	case *ssa.Extract:
		switch t := x.Tuple.(type) {
		case *ssa.Lookup:
			if t.CommaOk && (a.isState(t.X) || a.evalEmpty(t.X, d+1).kind == 1) {
				if x.Index == 1 {
					return c14a1val{kind: 3, b: false}
				}
				return c14a1zero(x.Type())
			}
		case *ssa.Next:
			if rg, ok := t.Iter.(*ssa.Range); ok && x.Index == 0 && (a.isState(rg.X) || a.evalEmpty(rg.X, d+1).kind == 1) {
				return c14a1val{kind: 3, b: false}
			}
		case *ssa.Call:
			if r, ok := a.evalLib(t, x.Index, d); ok {
				return r
			}
			return a.evalCall(t, x.Index, d)
		}
	case *ssa.Call:
		if n := calleeName(&x.Call); (n == "builtin.len" || n == "builtin.cap") && len(x.Call.Args) == 1 {
			if a.isState(x.Call.Args[0]) || a.evalEmpty(x.Call.Args[0], d+1).kind == 1 {
				return c14a1val{kind: 2, n: 0}
			}
			return c14a1val{}
		}
		if r, ok := a.evalLib(x, -1, d); ok {
			return r
		}
		return a.evalCall(x, -1, d)
	case *ssa.UnOp:
		if x.Op == token.NOT {
			if r := a.evalEmpty(x.X, d+1); r.kind == 3 {
				return c14a1val{kind: 3, b: !r.b}
			}
		}
	case *ssa.ChangeType:
		return a.evalEmpty(x.X, d+1)
	case *ssa.BinOp:
		l, r := a.evalEmpty(x.X, d+1), a.evalEmpty(x.Y, d+1)
		switch {
		case l.kind == 1 && r.kind == 1 && (x.Op == token.EQL || x.Op == token.NEQ):
			return c14a1val{kind: 3, b: x.Op == token.EQL}
		case l.kind == 4 && r.kind == 4 && (x.Op == token.EQL || x.Op == token.NEQ) && (l.n == 0 || r.n == 0):
			// "" against "" or against a constant that is not empty
			return c14a1val{kind: 3, b: (l.n == r.n) == (x.Op == token.EQL)}
		case l.kind == 3 && r.kind == 3 && (x.Op == token.EQL || x.Op == token.NEQ):
			return c14a1val{kind: 3, b: (l.b == r.b) == (x.Op == token.EQL)}
		case l.kind == 0 && r.kind == 2 && (x.Op == token.LSS || x.Op == token.GEQ):
			// a loop counter compared with a length that is 0 for the empty table: the loop has no iteration
			if lo, ok := c14counterLB(x.X, 0); ok && lo >= r.n {
				return c14a1val{kind: 3, b: x.Op == token.GEQ}
			}
		case l.kind == 2 && r.kind == 2:
			switch x.Op {
			case token.EQL:
				return c14a1val{kind: 3, b: l.n == r.n}
			case token.NEQ:
				return c14a1val{kind: 3, b: l.n != r.n}
			case token.LSS:
				return c14a1val{kind: 3, b: l.n < r.n}
			case token.LEQ:
				return c14a1val{kind: 3, b: l.n <= r.n}
			case token.GTR:
				return c14a1val{kind: 3, b: l.n > r.n}
			case token.GEQ:
				return c14a1val{kind: 3, b: l.n >= r.n}
			case token.ADD:
				return c14a1val{kind: 2, n: l.n + r.n}
			case token.SUB:
				return c14a1val{kind: 2, n: l.n - r.n}
			}
		}
	case *ssa.Phi:
		var res c14a1val
		first := true
		for k, e := range x.Edges {
			if e == v {
				continue
			}
			if a.statusOf(edgeFacts(x.Block().Preds[k], x.Block()), d+1) == c14a1emptyNever {
				continue // the empty table does not come this way
			}
			r := a.evalEmpty(e, d+1)
			if r.kind == 0 || (!first && r != res) {
				return c14a1val{}
			}
			res, first = r, false
		}
		if !first {
			return res
		}
	}
	return c14a1val{}
}

// c14counterLB: a lower bound of a loop counter: a constant, x + c (c >= 0), or a merge of constants with increments of
// the merge itself (`for i := 0; ...; i++`, the hidden index of a range loop: phi [-1, phi+1] read as phi+1).
func c14counterLB(v ssa.Value, d int) (int64, bool) {
	if k, ok := constInt(v); ok {
		return k, true
	}
	if d > 4 {
		return 0, false
	}
	switch x := v.(type) {
	case *ssa.BinOp:
		if c, ok := constInt(x.Y); ok && x.Op == token.ADD && c >= 0 {
			if lo, ok := c14counterLB(x.X, d+1); ok {
				return lo + c, true
			}
		}
	case *ssa.Phi:
		lo, have := int64(0), false
		for _, e := range x.Edges {
			if k, ok := constInt(e); ok {
				if !have || k < lo {
					lo, have = k, true
				}
				continue
			}
			b, ok := e.(*ssa.BinOp)
			if !ok || b.Op != token.ADD || b.X != v {
				return 0, false
			}
			if c, isK := constInt(b.Y); !isK || c < 0 {
				return 0, false
			}
		}
		return lo, have
	}
	return 0, false
}

// evalLib: the standard library's searches on a list that is empty while the table is: not found.
func (a *c14a1) evalLib(call *ssa.Call, idx int, d int) (c14a1val, bool) {
	if len(call.Call.Args) == 0 || call.Call.IsInvoke() {
		return c14a1val{}, false
	}
	empty := func(v ssa.Value) bool { return a.isState(v) || a.evalEmpty(v, d+1).kind == 1 }
	switch stripTypeArgs(calleeName(&call.Call)) {
	case "slices.Index", "slices.IndexFunc":
		if empty(call.Call.Args[0]) {
			return c14a1val{kind: 2, n: -1}, true
		}
	case "slices.Contains", "slices.ContainsFunc":
		if empty(call.Call.Args[0]) {
			return c14a1val{kind: 3, b: false}, true
		}
	case "slices.BinarySearch", "slices.BinarySearchFunc":
		if empty(call.Call.Args[0]) {
			if idx == 1 {
				return c14a1val{kind: 3, b: false}, true
			}
			return c14a1val{kind: 2, n: 0}, true
		}
	case "sort.SearchStrings", "sort.SearchInts":
		if empty(call.Call.Args[0]) {
			return c14a1val{kind: 2, n: 0}, true
		}
	case "sort.Search":
		// the smallest index in [0, n) for which the predicate holds, n if there is none
		if n := a.evalEmpty(call.Call.Args[0], d+1); n.kind == 2 && n.n == 0 {
			return n, true
		}
	case "sort.Find":
		if n := a.evalEmpty(call.Call.Args[0], d+1); n.kind == 2 && n.n == 0 {
			if idx == 1 {
				return c14a1val{kind: 3, b: false}, true
			}
			return n, true
		}
	}
	return c14a1val{}, false
}

// evalCall: the result (index idx, -1: the only one) of a small repository helper for the empty table.
func (a *c14a1) evalCall(call *ssa.Call, idx int, d int) c14a1val {
	sc := call.Call.StaticCallee()
	if sc == nil || !isRepoFn(sc) || len(sc.Blocks) == 0 || len(sc.Blocks) > 30 || d > 6 {
		return c14a1val{}
	}
	// what the helper is handed: a parameter that is nil / 0 / false for the empty table (`routes := t[host]` passed to
	// `routes.find(path)`) is so inside the helper
	saved := a.env
	env := map[ssa.Value]c14a1val{}
	if len(call.Call.Args) == len(sc.Params) {
		for k, p := range sc.Params {
			if r := a.evalEmpty(call.Call.Args[k], d+1); r.kind != 0 {
				env[p] = r
			}
		}
	}
	a.env = env
	defer func() { a.env = saved }()
	var res c14a1val
	first, bad := true, false
	eachInstr(sc, func(i ssa.Instruction) {
		r, ok := i.(*ssa.Return)
		if !ok || bad {
			return
		}
		k := idx
		if k < 0 {
			k = 0
		}
		if k >= len(r.Results) {
			bad = true
			return
		}
		if a.statusOf(localFactsAt(r.Block()), d+2) == c14a1emptyNever {
			return
		}
		v := a.evalEmpty(r.Results[k], d+2)
		if v.kind == 0 || (!first && v != res) {
			bad = true
			return
		}
		res, first = v, false
	})
	if bad || first {
		return c14a1val{}
	}
	return res
}

// isErrTest: the condition only asks whether an error value is nil (the propagation of a verdict judged where it was made).
func c14a1isErrTest(cond ssa.Value) bool {
	b, ok := cond.(*ssa.BinOp)
	if !ok || (b.Op != token.EQL && b.Op != token.NEQ) {
		return false
	}
	return (isNilConst(b.Y) && c14isErrorType(b.X.Type())) || (isNilConst(b.X) && c14isErrorType(b.Y.Type()))
}

// statusOf: what the table-reading conditions among facts say about the empty table.
func (a *c14a1) statusOf(facts []Fact, d int) int {
	st, _ := a.statusWhy(facts, d)
	return st
}

func (a *c14a1) statusWhy(facts []Fact, d int) (int, string) {
	st, why := c14a1free, ""
	for _, f := range facts {
		if c14a1isErrTest(f.Cond) || !(a.readsTable(f.Cond) || a.readsEnv(f.Cond)) {
			continue
		}
		r := a.evalEmpty(f.Cond, d)
		switch {
		case r.kind == 3 && r.b == f.Truth:
			if st == c14a1free {
				st = c14a1emptyOK
			}
		case r.kind == 3:
			return c14a1emptyNever, c14condText(a.c, f)
		default:
			if st != c14a1unknown {
				st, why = c14a1unknown, c14condText(a.c, f)
			}
		}
	}
	return st, why
}

func c14condText(c *Ctx, f Fact) string {
	s := "a condition"
	if in, ok := f.Cond.(ssa.Instruction); ok && in.Pos().IsValid() {
		s = "the condition at " + c.pos(in.Pos())
	}
	if f.Truth {
		return s + " (true)"
	}
	return s + " (false)"
}

func c14a1isMaker(name string) bool {
	return name == "errors.New" || name == "errors.Join" || strings.HasPrefix(name, "fmt.") || name == "errors.Unwrap"
}

// isAddSite: the call is made for a `route add` definition: under a comparison of the command word with "route add",
// or through a table of appliers whose entry for "route add" it may call. fns: the repository functions it reaches.
func (a *c14a1) isAddSite(call *ssa.Call, facts []Fact) ([]*ssa.Function, bool) {
	fns := c14callees(&call.Call)
	if c14a1factsSayAdd(facts, 0) {
		return fns, true
	}
	if call.Call.StaticCallee() != nil {
		return nil, false
	}
	var out []*ssa.Function
	for g := range a.addFns {
		for _, h := range fns {
			if h == g {
				out = append(out, g)
			}
		}
	}
	return out, len(out) > 0
}

// c14a1factsSayAdd: the conditions select the `route add` command: the command word is compared equal with "route add"
// (directly, or by a small predicate of the repository - `d.isAdd()` - that says yes only under that comparison), or -
// the last arm of an if / else chain - it is known to differ from other words of the command-word type, is not compared
// equal with any of them and is not known to differ from "route add".
func c14a1factsSayAdd(facts []Fact, depth int) bool {
	others, excluded := 0, false
	for _, f := range facts {
		if call, isCall := f.Cond.(*ssa.Call); isCall && depth < 2 {
			if sc := call.Call.StaticCallee(); sc != nil && isRepoFn(sc) && len(sc.Blocks) > 0 && len(sc.Blocks) <= 8 && c14a1predSaysAdd(sc, f.Truth, depth) {
				return true
			}
			continue
		}
		x, op, y, ok := c14cmp(f)
		if !ok || (op != token.EQL && op != token.NEQ) {
			continue
		}
		k, isK := constString(y)
		kv := y
		if !isK {
			k, isK = constString(x)
			kv = x
		}
		if !isK {
			continue
		}
		switch {
		case k == c14addWord && op == token.EQL:
			return true
		case k == c14addWord:
			excluded = true
		case c14isWordType(kv.Type()):
			if op == token.EQL {
				excluded = true
			} else {
				others++
			}
		}
	}
	return others > 0 && !excluded
}

// c14isWordType: a named string type of the repository (route.Cmd), the type command words are written in.
func c14isWordType(t types.Type) bool {
	n, ok := types.Unalias(t).(*types.Named)
	if !ok || n.Obj().Pkg() == nil || !strings.HasPrefix(n.Obj().Pkg().Path(), repoMod) {
		return false
	}
	b, ok := n.Underlying().(*types.Basic)
	return ok && b.Info()&types.IsString != 0
}

// c14a1predSaysAdd: every return of the predicate that can yield truth does so under a comparison with "route add".
func c14a1predSaysAdd(sc *ssa.Function, truth bool, depth int) bool {
	if sc.Signature.Results().Len() != 1 {
		return false
	}
	n, all := 0, true
	eachInstr(sc, func(i ssa.Instruction) {
		r, ok := i.(*ssa.Return)
		if !ok || len(r.Results) != 1 {
			return
		}
		facts := localFactsAt(r.Block())
		if b, isK := constBool(r.Results[0]); isK {
			if b != truth {
				return
			}
		} else {
			facts = appendCondFacts(facts, r.Results[0], truth, 0)
		}
		n++
		if !c14a1factsSayAdd(facts, depth+1) {
			all = false
		}
	})
	return n > 0 && all
}

// c14wrappedErrors: the error values a call that makes an error wraps (fmt.Errorf("...%w", err), errors.Join(a, b)):
// arguments of type error, and errors boxed into the variadic argument list.
func c14wrappedErrors(call *ssa.Call) []ssa.Value {
	var out []ssa.Value
	unbox := func(v ssa.Value) {
		switch x := v.(type) {
		case *ssa.MakeInterface:
			v = x.X
		case *ssa.ChangeInterface:
			v = x.X
		}
		if c14isErrorType(v.Type()) && !isNilConst(v) {
			out = append(out, v)
		}
	}
	for _, arg := range call.Call.Args {
		unbox(arg)
		sl, ok := arg.(*ssa.Slice)
		if !ok {
			continue
		}
		arr, ok := sl.X.(*ssa.Alloc)
		if !ok || arr.Referrers() == nil {
			continue
		}
		for _, r := range *arr.Referrers() {
			ia, ok := r.(*ssa.IndexAddr)
			if !ok || ia.Referrers() == nil {
				continue
			}
			for _, u := range *ia.Referrers() {
				if st, isStore := u.(*ssa.Store); isStore && st.Addr == ia {
					unbox(st.Val)
				}
			}
		}
	}
	return out
}

// expand follows an error value back to the places that make it non-nil.
func (a *c14a1) expand(v ssa.Value, fn *ssa.Function, facts []Fact, pos token.Pos, depth int, top bool) {
	if v == nil || isNilConst(v) || depth > 6 {
		return
	}
	fresh := func(what string) {
		a.leaves = append(a.leaves, &c14a1leaf{pos: pos, fn: fn, facts: facts, what: what})
	}
	switch x := v.(type) {
	case *ssa.Phi:
		key := fmt.Sprintf("phi %p %d", x, len(facts))
		if a.visited[key] {
			return
		}
		a.visited[key] = true
		for k, e := range x.Edges {
			if e == v {
				continue
			}
			a.expand(e, fn, append(append([]Fact{}, facts...), edgeFacts(x.Block().Preds[k], x.Block())...), pos, depth, top)
		}
		return
	case *ssa.Extract:
		if call, ok := x.Tuple.(*ssa.Call); ok {
			a.expandCall(call, x.Index, fn, facts, pos, depth, top)
			return
		}
	case *ssa.Call:
		a.expandCall(x, -1, fn, facts, pos, depth, top)
		return
	case *ssa.UnOp:
		if x.Op == token.MUL {
			if cell, ok := x.X.(*ssa.Alloc); ok && cell.Referrers() != nil {
				key := fmt.Sprintf("cell %p %v", cell, top)
				if a.visited[key] {
					return
				}
				a.visited[key] = true
				n := 0
				for _, st := range c14cellStores(cell) {
					n++
					p := pos
					if st.Pos().IsValid() {
						p = st.Pos()
					}
					sf := st.Parent()
					if sf == fn {
						a.expand(st.Val, fn, append(append([]Fact{}, facts...), factsAt(st.Block())...), pos, depth+1, top)
					} else {
						// assigned in a closure that captures the variable (the body of a range-over-func loop, a
						// callback): the conditions that hold there
						a.expand(st.Val, sf, append(append([]Fact{}, facts...), factsAt(st.Block())...), p, depth+1, top)
					}
				}
				if n > 0 {
					return
				}
			}
			fresh("a fixed error value")
			return
		}
	case *ssa.MakeInterface, *ssa.ChangeInterface:
		fresh("an error value made on the spot")
		return
	}
	fresh("an error value")
}

func (a *c14a1) expandCall(call *ssa.Call, idx int, fn *ssa.Function, facts []Fact, pos token.Pos, depth int, top bool) {
	if call.Pos().IsValid() {
		pos = call.Pos()
	}
	facts = append(append([]Fact{}, facts...), factsAt(call.Block())...)
	reads := false
	if call.Call.IsInvoke() && a.readsTable(call.Call.Value) {
		reads = true
	}
	for _, arg := range call.Call.Args {
		if a.readsTable(arg) {
			reads = true
		}
	}
	name := calleeName(&call.Call)
	if c14a1isMaker(name) {
		a.leaves = append(a.leaves, &c14a1leaf{pos: pos, fn: fn, facts: facts, what: "an error made with " + name})
		// an error that wraps another one (`fmt.Errorf("route: %q: %w", d.Cmd, err)`) fails where the wrapped one does
		for _, w := range c14wrappedErrors(call) {
			a.expand(w, fn, facts, pos, depth+1, top)
		}
		return
	}
	if !reads && top {
		// the builder delegates the building: `return newTable(slices.Values(defs))` - the callee makes the table
		if sc := call.Call.StaticCallee(); sc != nil && a.builders[sc] {
			key := fmt.Sprintf("builder %p", sc)
			if !a.visited[key] {
				a.visited[key] = true
				eachInstr(sc, func(i ssa.Instruction) {
					r, ok := i.(*ssa.Return)
					if !ok {
						return
					}
					for k, res := range r.Results {
						if (idx < 0 || k == idx) && c14isErrorType(res.Type()) {
							a.expand(res, sc, append(append([]Fact{}, facts...), factsAt(r.Block())...), r.Pos(), depth+1, true)
						}
					}
				})
			}
			return
		}
	}
	if !reads {
		// a verdict on the command alone
		a.leaves = append(a.leaves, &c14a1leaf{pos: pos, fn: fn, facts: facts, judge: call, what: "the verdict of " + c14a1callName(call)})
		return
	}
	var fns []*ssa.Function
	if top {
		var isAdd bool
		fns, isAdd = a.isAddSite(call, facts)
		if !isAdd {
			// a dispatcher (`t.apply(d)` with the switch on the command word inside): look for the route add in it;
			// otherwise the call applies another kind of command (route del / route weight), which the generator
			// does not emit
			if sc := call.Call.StaticCallee(); sc != nil && isRepoFn(sc) && len(sc.Blocks) > 0 && depth < 2 {
				key := fmt.Sprintf("top %p %p", sc, call)
				if !a.visited[key] {
					a.visited[key] = true
					eachInstr(sc, func(i ssa.Instruction) {
						r, ok := i.(*ssa.Return)
						if !ok {
							return
						}
						for k, res := range r.Results {
							if (idx < 0 || k == idx) && c14isErrorType(res.Type()) {
								a.expandTop(res, sc, append(append([]Fact{}, facts...), factsAt(r.Block())...), r.Pos(), depth+1)
							}
						}
					})
				}
			}
			return
		}
	} else {
		fns = c14callees(&call.Call)
	}
	n := 0
	for _, g := range fns {
		if g == nil || !isRepoFn(g) || len(g.Blocks) == 0 {
			continue
		}
		n++
		if top {
			a.addFns[g] = true
			a.applied++
		}
		key := fmt.Sprintf("fn %p %p", g, call)
		if a.visited[key] {
			continue
		}
		a.visited[key] = true
		a.errorReturns(g, idx, facts, depth+1)
	}
	if n == 0 {
		a.leaves = append(a.leaves, &c14a1leaf{pos: pos, fn: fn, facts: facts, what: "the verdict of " + c14a1callName(call) + ", which is handed table state"})
	}
}

// expandTop: like expand at the builder's level, but only the calls that apply a route add count (a dispatcher's own
// failures - unknown command word - belong to no command the generator emits, and those of route del / route weight
// neither).
func (a *c14a1) expandTop(v ssa.Value, fn *ssa.Function, facts []Fact, pos token.Pos, depth int) {
	switch x := v.(type) {
	case *ssa.Phi:
		key := fmt.Sprintf("tphi %p", x)
		if a.visited[key] {
			return
		}
		a.visited[key] = true
		for k, e := range x.Edges {
			if e != v {
				a.expandTop(e, fn, append(append([]Fact{}, facts...), edgeFacts(x.Block().Preds[k], x.Block())...), pos, depth)
			}
		}
	case *ssa.Extract:
		if call, ok := x.Tuple.(*ssa.Call); ok {
			a.expandTopCall(call, x.Index, fn, facts, pos, depth)
		}
	case *ssa.Call:
		a.expandTopCall(x, -1, fn, facts, pos, depth)
	}
}

func (a *c14a1) expandTopCall(call *ssa.Call, idx int, fn *ssa.Function, facts []Fact, pos token.Pos, depth int) {
	for _, arg := range call.Call.Args {
		if a.readsTable(arg) {
			a.expandCall(call, idx, fn, facts, pos, depth, true)
			return
		}
	}
}

func c14a1callName(call *ssa.Call) string {
	if n := calleeName(&call.Call); n != "" {
		return strings.ReplaceAll(n, repoMod+"/", "")
	}
	return "a function value"
}

// errorReturns: the error results of g (result index idx; -1: every result of type error), each with the conditions
// that hold where it is returned plus outer (what held at the call).
func (a *c14a1) errorReturns(g *ssa.Function, idx int, outer []Fact, depth int) {
	eachInstr(g, func(i ssa.Instruction) {
		r, ok := i.(*ssa.Return)
		if !ok {
			return
		}
		for k, res := range r.Results {
			if (idx >= 0 && k != idx) || !c14isErrorType(res.Type()) {
				continue
			}
			facts := append(append([]Fact{}, outer...), factsAt(r.Block())...)
			a.expand(res, g, facts, r.Pos(), depth, false)
		}
	})
}

func c14a1sameJudgement(x, y *ssa.Call) bool {
	if x == y {
		return true
	}
	if calleeName(&x.Call) == "" || calleeName(&x.Call) != calleeName(&y.Call) || len(x.Call.Args) != len(y.Call.Args) {
		return false
	}
	for k := range x.Call.Args {
		p, q := x.Call.Args[k], y.Call.Args[k]
		if c14sameValue(p, q) {
			continue
		}
		if kp, ok := p.(*ssa.Const); ok {
			if kq, ok := q.(*ssa.Const); ok && kp.String() == kq.String() {
				continue
			}
		}
		if ap := accessPath(p); ap != "" && ap == accessPath(q) && c14pathStable(p) && c14pathStable(q) && p.Parent() == q.Parent() {
			continue
		}
		if c14sameCellLoad(p, q) {
			continue
		}
		return false
	}
	return true
}

func runC14A1(c *Ctx) {
	c14ctx = c
	builder := c.fn("route", "NewTable")
	if builder == nil || len(builder.Blocks) == 0 || builder.Signature.Results().Len() < 2 {
		c.undecided("C14.A1", "anchor|table builder", "route.NewTable (the builder the validator and the update loop call) does not resolve to a function with a table and an error result")
		return
	}
	a := &c14a1{c: c, tableT: builder.Signature.Results().At(0).Type(), state: map[ssa.Value]bool{}, addFns: map[*ssa.Function]bool{}, visited: map[string]bool{}, builders: map[*ssa.Function]bool{}}
	if _, isMap := a.tableT.Underlying().(*types.Map); !isMap {
		if p, ok := a.tableT.Underlying().(*types.Pointer); ok {
			a.tableT = p.Elem()
		}
	}
	// the builder may delegate the building to same-package functions that return the table (`newTable(seq)` behind
	// NewTable and NewTableCustom): found by role - a static callee with a result of the table type and an error
	a.builders[builder] = true
	for round := 0; round < 2; round++ {
		for f := range a.builders {
			eachInstr(f, func(i ssa.Instruction) {
				cc := callCommon(i)
				if cc == nil {
					return
				}
				sc := cc.StaticCallee()
				if sc == nil || a.builders[sc] || len(sc.Blocks) == 0 || !isRepoFn(sc) || rootPkg(sc) != rootPkg(builder) {
					return
				}
				hasT, hasE := false, false
				for k := 0; k < sc.Signature.Results().Len(); k++ {
					t := sc.Signature.Results().At(k).Type()
					if p, isP := t.Underlying().(*types.Pointer); isP {
						t = p.Elem()
					}
					hasT = hasT || types.Identical(t, a.tableT)
					hasE = hasE || c14isErrorType(sc.Signature.Results().At(k).Type())
				}
				// the table must be MADE there, not handed in
				for _, p := range sc.Params {
					if a.isState(p) {
						hasT = false
					}
				}
				if hasT && hasE {
					a.builders[sc] = true
				}
			})
		}
	}
	// company-dependent state the builder keeps besides the table: the maps it makes and fills (also from the body of
	// a range-over-func loop, which is a closure of the builder)
	for f := range a.builders {
		eachInstr(f, func(i ssa.Instruction) {
			mm, ok := i.(*ssa.MakeMap)
			if !ok || mm.Referrers() == nil {
				return
			}
			if a.isState(mm) {
				return
			}
			filled := false
			for _, r := range *mm.Referrers() {
				if mu, ok := r.(*ssa.MapUpdate); ok && mu.Map == mm {
					filled = true
				}
				// kept in a variable that a closure of the builder captures: filled there
				if st, ok := r.(*ssa.Store); ok && st.Val == mm {
					if cell, isCell := st.Addr.(*ssa.Alloc); isCell && c14cellMapUpdated(cell) {
						filled = true
					}
				}
			}
			if filled {
				a.state[mm] = true
			}
		})
	}
	// a table of appliers keyed by the command word: its entry for "route add"
	for _, f := range c14scanFns(c) {
		if rootPkg(f) != rootPkg(builder) {
			continue
		}
		eachInstr(f, func(i ssa.Instruction) {
			mu, ok := i.(*ssa.MapUpdate)
			if !ok {
				return
			}
			if k, isK := constString(mu.Key); !isK || k != c14addWord {
				return
			}
			for _, g := range funcsOf(mu.Value) {
				if g != nil && isRepoFn(g) && len(g.Blocks) > 0 {
					a.addFns[unwrap(g)] = true
				}
			}
		})
	}
	eachInstr(builder, func(i ssa.Instruction) {
		r, ok := i.(*ssa.Return)
		if !ok {
			return
		}
		for _, res := range r.Results {
			if c14isErrorType(res.Type()) {
				a.expand(res, builder, factsAt(r.Block()), r.Pos(), 0, true)
			}
		}
	})
	nAdd := 0
	for _, l := range a.leaves {
		if a.addFns[l.fn] {
			nAdd++
		}
	}
	if a.applied == 0 {
		nAdd = 0 // no call of the builder was recognised as the application of a route add
	}
	c.atLeast("C14.A1", "error results of the function(s) the table builder calls to apply a `route add` definition", nAdd, 1)
	for _, l := range a.leaves {
		l.status, l.cond = a.statusWhy(l.facts, 0)
		if c14debug {
			fmt.Fprintf(os.Stderr, "A1 leaf %s %s %s status=%d judge=%v %s\n", fnKey(l.fn), c.pos(l.pos), l.what, l.status, l.judge != nil, l.cond)
		}
	}
	seen := map[string]bool{}
	for _, l := range a.leaves {
		ok := l.status == c14a1free || l.status == c14a1emptyOK
		if !ok && l.judge != nil {
			for _, m := range a.leaves {
				if m != l && m.judge != nil && (m.status == c14a1free || m.status == c14a1emptyOK) && c14a1sameJudgement(l.judge, m.judge) {
					ok = true
				}
			}
		}
		key := fmt.Sprintf("%s|%d|%v", fnKey(l.fn), l.pos, ok)
		if seen[key] {
			continue
		}
		seen[key] = true
		how := "depends on what the table already holds"
		if l.status == c14a1emptyNever {
			how = "can never be taken while the table is empty"
		}
		c.check("C14.A1", fnKey(l.fn)+"|no failure of a route add is decided by the other routes in the table", l.pos, ok,
			"applying a `route add` command fails here with "+l.what+" on a path that "+how+" ("+l.cond+"): the generator validates each command alone, on an empty table, so a registration that only fails next to another one (two services on one prefix, one of them tcp) passes its validation, is not dropped, and makes every later build of the whole table fail - the routes of ALL services stay frozen while both registrations are alive. Decide such conflicts without an error (skip and log the offending target) or where the command is validated")
	}
}

func c14round4A1mutants() []mutant {
	return []mutant{
		{Name: "r4 A1a tcp and http targets refused on one route (seed 8)", File: "route/table.go", Old: "\tdefault:\n\t\tt[host].find(path).addTarget(d.Service, targetURL, d.Weight, d.Tags, d.Opts)\n", New: "\tdefault:\n\t\tr := t[host].find(path)\n\t\t// the tcp and the http proxy both pick any target of\n\t\t// a matching route and cannot serve each other's targets\n\t\tif len(r.Targets) > 0 && (r.Targets[0].URL.Scheme == \"tcp\") != (targetURL.Scheme == \"tcp\") {\n\t\t\treturn fmt.Errorf(\"route: cannot mix tcp and http targets on %s%s\", host, path)\n\t\t}\n\t\tr.addTarget(d.Service, targetURL, d.Weight, d.Tags, d.Opts)\n", Expect: "C14.A1"},
		{Name: "benign: r4 A1a-ok same conflict logged and the target skipped", File: "route/table.go", Old: "\tdefault:\n\t\tt[host].find(path).addTarget(d.Service, targetURL, d.Weight, d.Tags, d.Opts)\n", New: "\tdefault:\n\t\tr := t[host].find(path)\n\t\tif len(r.Targets) > 0 && (r.Targets[0].URL.Scheme == \"tcp\") != (targetURL.Scheme == \"tcp\") {\n\t\t\t// dropped on its own: the other targets of the route stay\n\t\t\tlog.Printf(\"[WARN] route: not mixing tcp and http targets on %s%s: skipping %s\", host, path, d.Dst)\n\t\t\treturn nil\n\t\t}\n\t\tr.addTarget(d.Service, targetURL, d.Weight, d.Tags, d.Opts)\n", Expect: ""},
		{Name: "r4 A1b conflict judged by a helper of the existing route", File: "route/table.go", Old: "\tdefault:\n\t\tt[host].find(path).addTarget(d.Service, targetURL, d.Weight, d.Tags, d.Opts)\n", New: "\tdefault:\n\t\tr := t[host].find(path)\n\t\tif err := r.accepts(targetURL); err != nil {\n\t\t\treturn err\n\t\t}\n\t\tr.addTarget(d.Service, targetURL, d.Weight, d.Tags, d.Opts)\n", More: []repl{{"func (t Table) weighRoute(d *RouteDef) error {\n", "var errMixedTargets = errors.New(\"route: cannot mix tcp and http targets\")\n\n// accepts tells whether u can join the targets of r.\nfunc (r *Route) accepts(u *url.URL) error {\n\tif len(r.Targets) > 0 && (r.Targets[0].URL.Scheme == \"tcp\") != (u.Scheme == \"tcp\") {\n\t\treturn errMixedTargets\n\t}\n\treturn nil\n}\n\nfunc (t Table) weighRoute(d *RouteDef) error {\n"}}, Expect: "C14.A1"},
		{Name: "r4 A1c a target already used by another service is an error", File: "route/table.go", Old: "\tdefault:\n\t\tt[host].find(path).addTarget(d.Service, targetURL, d.Weight, d.Tags, d.Opts)\n", New: "\tdefault:\n\t\tr := t[host].find(path)\n\t\tfor _, tg := range r.Targets {\n\t\t\tif tg.Service != d.Service && tg.URL.String() == targetURL.String() {\n\t\t\t\treturn fmt.Errorf(\"route: target %s of %s is already used by %s\", d.Dst, d.Service, tg.Service)\n\t\t\t}\n\t\t}\n\t\tr.addTarget(d.Service, targetURL, d.Weight, d.Tags, d.Opts)\n", Expect: "C14.A1"},
		{Name: "r4 A1d the builder refuses a prefix used by two services", File: "route/table.go", Old: "\t\tcase RouteAddCmd:\n\t\t\terr = t.addRoute(d)\n\t\tcase RouteDelCmd:\n\t\t\terr = t.delRoute(d)\n", New: "\t\tcase RouteAddCmd:\n\t\t\tif svc, ok := owner[d.Src]; ok && svc != d.Service {\n\t\t\t\terr = fmt.Errorf(\"route: prefix %s is used by %s and %s\", d.Src, svc, d.Service)\n\t\t\t} else {\n\t\t\t\towner[d.Src] = d.Service\n\t\t\t\terr = t.addRoute(d)\n\t\t\t}\n\t\tcase RouteDelCmd:\n\t\t\terr = t.delRoute(d)\n", More: []repl{{"\tt = make(Table)\n\tfor _, d := range defs {\n", "\tt = make(Table)\n\towner := map[string]string{}\n\tfor _, d := range defs {\n"}}, Expect: "C14.A1"},
		{Name: "r4 A1e at most 512 routes per host", File: "route/table.go", Old: "\tcase t[host].find(path) == nil:\n", New: "\tcase t[host].find(path) == nil:\n\t\tif len(t[host]) >= 512 {\n\t\t\treturn errors.New(\"route: too many routes for one host\")\n\t\t}\n", Expect: "C14.A1"},
		{Name: "r4 A1f glob error ignored for the first route of a host", File: "route/table.go", Old: "\tcase t[host] == nil:\n\t\tg, err := glob.Compile(path)\n\t\tif err != nil {\n\t\t\treturn err\n\t\t}\n", New: "\tcase t[host] == nil:\n\t\tg, _ := glob.Compile(path)\n", Expect: "C14.A1"},
		{Name: "benign: r4 A1g find-or-create instead of three cases", File: "route/table.go", Old: "\tswitch {\n\t// add new host\n\tcase t[host] == nil:\n\t\tg, err := glob.Compile(path)\n\t\tif err != nil {\n\t\t\treturn err\n\t\t}\n\t\tr := &Route{Host: host, Path: path, Glob: g}\n\t\tr.addTarget(d.Service, targetURL, d.Weight, d.Tags, d.Opts)\n\t\tt[host] = Routes{r}\n\n\t// add new route to existing host\n\tcase t[host].find(path) == nil:\n\t\tg, err := glob.Compile(path)\n\t\tif err != nil {\n\t\t\treturn err\n\t\t}\n\t\tr := &Route{Host: host, Path: path, Glob: g}\n\t\tr.addTarget(d.Service, targetURL, d.Weight, d.Tags, d.Opts)\n\t\tt[host] = append(t[host], r)\n\n\t// add new target to existing route\n\tdefault:\n\t\tt[host].find(path).addTarget(d.Service, targetURL, d.Weight, d.Tags, d.Opts)\n\t}\n\n", New: "\tvar r *Route\n\tif routes := t[host]; routes != nil {\n\t\tr = routes.find(path)\n\t}\n\tif r == nil {\n\t\tg, err := glob.Compile(path)\n\t\tif err != nil {\n\t\t\treturn err\n\t\t}\n\t\tr = &Route{Host: host, Path: path, Glob: g}\n\t\tt[host] = append(t[host], r)\n\t}\n\tr.addTarget(d.Service, targetURL, d.Weight, d.Tags, d.Opts)\n\n", Expect: ""},
		{Name: "benign: r4 A1h find-or-create through Table.route", File: "route/table.go", Old: "\tswitch {\n\t// add new host\n\tcase t[host] == nil:\n\t\tg, err := glob.Compile(path)\n\t\tif err != nil {\n\t\t\treturn err\n\t\t}\n\t\tr := &Route{Host: host, Path: path, Glob: g}\n\t\tr.addTarget(d.Service, targetURL, d.Weight, d.Tags, d.Opts)\n\t\tt[host] = Routes{r}\n\n\t// add new route to existing host\n\tcase t[host].find(path) == nil:\n\t\tg, err := glob.Compile(path)\n\t\tif err != nil {\n\t\t\treturn err\n\t\t}\n\t\tr := &Route{Host: host, Path: path, Glob: g}\n\t\tr.addTarget(d.Service, targetURL, d.Weight, d.Tags, d.Opts)\n\t\tt[host] = append(t[host], r)\n\n\t// add new target to existing route\n\tdefault:\n\t\tt[host].find(path).addTarget(d.Service, targetURL, d.Weight, d.Tags, d.Opts)\n\t}\n\n", New: "\tr := t.route(host, path)\n\tif r == nil {\n\t\tg, err := glob.Compile(path)\n\t\tif err != nil {\n\t\t\treturn err\n\t\t}\n\t\tr = &Route{Host: host, Path: path, Glob: g}\n\t\tt[host] = append(t[host], r)\n\t}\n\tr.addTarget(d.Service, targetURL, d.Weight, d.Tags, d.Opts)\n\n", Expect: ""},
		{Name: "benign: r4 A1i find-or-create with comma-ok lookup", File: "route/table.go", Old: "\tswitch {\n\t// add new host\n\tcase t[host] == nil:\n\t\tg, err := glob.Compile(path)\n\t\tif err != nil {\n\t\t\treturn err\n\t\t}\n\t\tr := &Route{Host: host, Path: path, Glob: g}\n\t\tr.addTarget(d.Service, targetURL, d.Weight, d.Tags, d.Opts)\n\t\tt[host] = Routes{r}\n\n\t// add new route to existing host\n\tcase t[host].find(path) == nil:\n\t\tg, err := glob.Compile(path)\n\t\tif err != nil {\n\t\t\treturn err\n\t\t}\n\t\tr := &Route{Host: host, Path: path, Glob: g}\n\t\tr.addTarget(d.Service, targetURL, d.Weight, d.Tags, d.Opts)\n\t\tt[host] = append(t[host], r)\n\n\t// add new target to existing route\n\tdefault:\n\t\tt[host].find(path).addTarget(d.Service, targetURL, d.Weight, d.Tags, d.Opts)\n\t}\n\n", New: "\tvar r *Route\n\tif routes, ok := t[host]; ok && len(routes) > 0 {\n\t\tr = routes.find(path)\n\t}\n\tif r == nil {\n\t\tg, err := glob.Compile(path)\n\t\tif err != nil {\n\t\t\treturn err\n\t\t}\n\t\tr = &Route{Host: host, Path: path, Glob: g}\n\t\tt[host] = append(t[host], r)\n\t}\n\tr.addTarget(d.Service, targetURL, d.Weight, d.Tags, d.Opts)\n\n", Expect: ""},
		{Name: "benign: r4 A1j new routes made by a method of the table", File: "route/table.go", Old: "\tswitch {\n\t// add new host\n\tcase t[host] == nil:\n\t\tg, err := glob.Compile(path)\n\t\tif err != nil {\n\t\t\treturn err\n\t\t}\n\t\tr := &Route{Host: host, Path: path, Glob: g}\n\t\tr.addTarget(d.Service, targetURL, d.Weight, d.Tags, d.Opts)\n\t\tt[host] = Routes{r}\n\n\t// add new route to existing host\n\tcase t[host].find(path) == nil:\n\t\tg, err := glob.Compile(path)\n\t\tif err != nil {\n\t\t\treturn err\n\t\t}\n\t\tr := &Route{Host: host, Path: path, Glob: g}\n\t\tr.addTarget(d.Service, targetURL, d.Weight, d.Tags, d.Opts)\n\t\tt[host] = append(t[host], r)\n\n\t// add new target to existing route\n\tdefault:\n\t\tt[host].find(path).addTarget(d.Service, targetURL, d.Weight, d.Tags, d.Opts)\n\t}\n\n", New: "\tswitch {\n\t// add new host\n\tcase t[host] == nil:\n\t\tr, err := t.newRoute(host, path)\n\t\tif err != nil {\n\t\t\treturn err\n\t\t}\n\t\tr.addTarget(d.Service, targetURL, d.Weight, d.Tags, d.Opts)\n\n\t// add new route to existing host\n\tcase t[host].find(path) == nil:\n\t\tr, err := t.newRoute(host, path)\n\t\tif err != nil {\n\t\t\treturn err\n\t\t}\n\t\tr.addTarget(d.Service, targetURL, d.Weight, d.Tags, d.Opts)\n\n\t// add new target to existing route\n\tdefault:\n\t\tt[host].find(path).addTarget(d.Service, targetURL, d.Weight, d.Tags, d.Opts)\n\t}\n\n", More: []repl{{"func (t Table) weighRoute(d *RouteDef) error {\n", "// newRoute adds an empty route for host and path.\nfunc (t Table) newRoute(host, path string) (*Route, error) {\n\tg, err := glob.Compile(path)\n\tif err != nil {\n\t\treturn nil, err\n\t}\n\tr := &Route{Host: host, Path: path, Glob: g}\n\tt[host] = append(t[host], r)\n\treturn r, nil\n}\n\nfunc (t Table) weighRoute(d *RouteDef) error {\n"}}, Expect: ""},
		{Name: "benign: r4 A1k commands applied through a table of appliers", File: "route/table.go", Old: "\t\tswitch d.Cmd {\n\t\tcase RouteAddCmd:\n\t\t\terr = t.addRoute(d)\n\t\tcase RouteDelCmd:\n\t\t\terr = t.delRoute(d)\n\t\tcase RouteWeightCmd:\n\t\t\terr = t.weighRoute(d)\n\t\tdefault:\n\t\t\terr = fmt.Errorf(\"route: invalid command: %s\", d.Cmd)\n\t\t}\n", New: "\t\tif apply, ok := appliers[d.Cmd]; ok {\n\t\t\terr = apply(t, d)\n\t\t} else {\n\t\t\terr = fmt.Errorf(\"route: invalid command: %s\", d.Cmd)\n\t\t}\n", More: []repl{{"func NewTable(b *bytes.Buffer) (t Table, err error) {\n", "// appliers maps a command word to the function that applies such a command.\nvar appliers = map[Cmd]func(Table, *RouteDef) error{\n\tRouteAddCmd:    Table.addRoute,\n\tRouteDelCmd:    Table.delRoute,\n\tRouteWeightCmd: Table.weighRoute,\n}\n\nfunc NewTable(b *bytes.Buffer) (t Table, err error) {\n"}}, Expect: ""},
		{Name: "r4 A1k-x table of appliers, tcp and http targets refused", File: "route/table.go", Old: "\t\tswitch d.Cmd {\n\t\tcase RouteAddCmd:\n\t\t\terr = t.addRoute(d)\n\t\tcase RouteDelCmd:\n\t\t\terr = t.delRoute(d)\n\t\tcase RouteWeightCmd:\n\t\t\terr = t.weighRoute(d)\n\t\tdefault:\n\t\t\terr = fmt.Errorf(\"route: invalid command: %s\", d.Cmd)\n\t\t}\n", New: "\t\tif apply, ok := appliers[d.Cmd]; ok {\n\t\t\terr = apply(t, d)\n\t\t} else {\n\t\t\terr = fmt.Errorf(\"route: invalid command: %s\", d.Cmd)\n\t\t}\n", More: []repl{{"func NewTable(b *bytes.Buffer) (t Table, err error) {\n", "// appliers maps a command word to the function that applies such a command.\nvar appliers = map[Cmd]func(Table, *RouteDef) error{\n\tRouteAddCmd:    Table.addRoute,\n\tRouteDelCmd:    Table.delRoute,\n\tRouteWeightCmd: Table.weighRoute,\n}\n\nfunc NewTable(b *bytes.Buffer) (t Table, err error) {\n"}, {"\tdefault:\n\t\tt[host].find(path).addTarget(d.Service, targetURL, d.Weight, d.Tags, d.Opts)\n", "\tdefault:\n\t\tr := t[host].find(path)\n\t\t// the tcp and the http proxy both pick any target of\n\t\t// a matching route and cannot serve each other's targets\n\t\tif len(r.Targets) > 0 && (r.Targets[0].URL.Scheme == \"tcp\") != (targetURL.Scheme == \"tcp\") {\n\t\t\treturn fmt.Errorf(\"route: cannot mix tcp and http targets on %s%s\", host, path)\n\t\t}\n\t\tr.addTarget(d.Service, targetURL, d.Weight, d.Tags, d.Opts)\n"}}, Expect: "C14.A1"},
		{Name: "benign: r4 A1l commands applied by a dispatching method", File: "route/table.go", Old: "\t\tswitch d.Cmd {\n\t\tcase RouteAddCmd:\n\t\t\terr = t.addRoute(d)\n\t\tcase RouteDelCmd:\n\t\t\terr = t.delRoute(d)\n\t\tcase RouteWeightCmd:\n\t\t\terr = t.weighRoute(d)\n\t\tdefault:\n\t\t\terr = fmt.Errorf(\"route: invalid command: %s\", d.Cmd)\n\t\t}\n", New: "\t\terr = t.apply(d)\n", More: []repl{{"func NewTable(b *bytes.Buffer) (t Table, err error) {\n", "// apply applies one command to the table.\nfunc (t Table) apply(d *RouteDef) error {\n\tswitch d.Cmd {\n\tcase RouteAddCmd:\n\t\treturn t.addRoute(d)\n\tcase RouteDelCmd:\n\t\treturn t.delRoute(d)\n\tcase RouteWeightCmd:\n\t\treturn t.weighRoute(d)\n\t}\n\treturn fmt.Errorf(\"route: invalid command: %s\", d.Cmd)\n}\n\nfunc NewTable(b *bytes.Buffer) (t Table, err error) {\n"}}, Expect: ""},
		{Name: "r4 A1l-x dispatching method, tcp and http targets refused", File: "route/table.go", Old: "\t\tswitch d.Cmd {\n\t\tcase RouteAddCmd:\n\t\t\terr = t.addRoute(d)\n\t\tcase RouteDelCmd:\n\t\t\terr = t.delRoute(d)\n\t\tcase RouteWeightCmd:\n\t\t\terr = t.weighRoute(d)\n\t\tdefault:\n\t\t\terr = fmt.Errorf(\"route: invalid command: %s\", d.Cmd)\n\t\t}\n", New: "\t\terr = t.apply(d)\n", More: []repl{{"func NewTable(b *bytes.Buffer) (t Table, err error) {\n", "// apply applies one command to the table.\nfunc (t Table) apply(d *RouteDef) error {\n\tswitch d.Cmd {\n\tcase RouteAddCmd:\n\t\treturn t.addRoute(d)\n\tcase RouteDelCmd:\n\t\treturn t.delRoute(d)\n\tcase RouteWeightCmd:\n\t\treturn t.weighRoute(d)\n\t}\n\treturn fmt.Errorf(\"route: invalid command: %s\", d.Cmd)\n}\n\nfunc NewTable(b *bytes.Buffer) (t Table, err error) {\n"}, {"\tdefault:\n\t\tt[host].find(path).addTarget(d.Service, targetURL, d.Weight, d.Tags, d.Opts)\n", "\tdefault:\n\t\tr := t[host].find(path)\n\t\t// the tcp and the http proxy both pick any target of\n\t\t// a matching route and cannot serve each other's targets\n\t\tif len(r.Targets) > 0 && (r.Targets[0].URL.Scheme == \"tcp\") != (targetURL.Scheme == \"tcp\") {\n\t\t\treturn fmt.Errorf(\"route: cannot mix tcp and http targets on %s%s\", host, path)\n\t\t}\n\t\tr.addTarget(d.Service, targetURL, d.Weight, d.Tags, d.Opts)\n"}}, Expect: "C14.A1"},
		{Name: "benign: r4 A1m existing route searched with a range loop", File: "route/table.go", Old: "\tswitch {\n\t// add new host\n\tcase t[host] == nil:\n\t\tg, err := glob.Compile(path)\n\t\tif err != nil {\n\t\t\treturn err\n\t\t}\n\t\tr := &Route{Host: host, Path: path, Glob: g}\n\t\tr.addTarget(d.Service, targetURL, d.Weight, d.Tags, d.Opts)\n\t\tt[host] = Routes{r}\n\n\t// add new route to existing host\n\tcase t[host].find(path) == nil:\n\t\tg, err := glob.Compile(path)\n\t\tif err != nil {\n\t\t\treturn err\n\t\t}\n\t\tr := &Route{Host: host, Path: path, Glob: g}\n\t\tr.addTarget(d.Service, targetURL, d.Weight, d.Tags, d.Opts)\n\t\tt[host] = append(t[host], r)\n\n\t// add new target to existing route\n\tdefault:\n\t\tt[host].find(path).addTarget(d.Service, targetURL, d.Weight, d.Tags, d.Opts)\n\t}\n\n", New: "\tfor _, r := range t[host] {\n\t\tif r.Path == path {\n\t\t\tr.addTarget(d.Service, targetURL, d.Weight, d.Tags, d.Opts)\n\t\t\treturn nil\n\t\t}\n\t}\n\tg, err := glob.Compile(path)\n\tif err != nil {\n\t\treturn err\n\t}\n\tr := &Route{Host: host, Path: path, Glob: g}\n\tr.addTarget(d.Service, targetURL, d.Weight, d.Tags, d.Opts)\n\tt[host] = append(t[host], r)\n\n", Expect: ""},
		{Name: "benign: r4 A1n existing route searched with a counting loop", File: "route/table.go", Old: "\tswitch {\n\t// add new host\n\tcase t[host] == nil:\n\t\tg, err := glob.Compile(path)\n\t\tif err != nil {\n\t\t\treturn err\n\t\t}\n\t\tr := &Route{Host: host, Path: path, Glob: g}\n\t\tr.addTarget(d.Service, targetURL, d.Weight, d.Tags, d.Opts)\n\t\tt[host] = Routes{r}\n\n\t// add new route to existing host\n\tcase t[host].find(path) == nil:\n\t\tg, err := glob.Compile(path)\n\t\tif err != nil {\n\t\t\treturn err\n\t\t}\n\t\tr := &Route{Host: host, Path: path, Glob: g}\n\t\tr.addTarget(d.Service, targetURL, d.Weight, d.Tags, d.Opts)\n\t\tt[host] = append(t[host], r)\n\n\t// add new target to existing route\n\tdefault:\n\t\tt[host].find(path).addTarget(d.Service, targetURL, d.Weight, d.Tags, d.Opts)\n\t}\n\n", New: "\tfor i := 0; i < len(t[host]); i++ {\n\t\tif r := t[host][i]; r.Path == path {\n\t\t\tr.addTarget(d.Service, targetURL, d.Weight, d.Tags, d.Opts)\n\t\t\treturn nil\n\t\t}\n\t}\n\tg, err := glob.Compile(path)\n\tif err != nil {\n\t\treturn err\n\t}\n\tr := &Route{Host: host, Path: path, Glob: g}\n\tr.addTarget(d.Service, targetURL, d.Weight, d.Tags, d.Opts)\n\tt[host] = append(t[host], r)\n\n", Expect: ""},
		{Name: "r4 A1m-x range loop, tcp and http targets refused", File: "route/table.go", Old: "\tswitch {\n\t// add new host\n\tcase t[host] == nil:\n\t\tg, err := glob.Compile(path)\n\t\tif err != nil {\n\t\t\treturn err\n\t\t}\n\t\tr := &Route{Host: host, Path: path, Glob: g}\n\t\tr.addTarget(d.Service, targetURL, d.Weight, d.Tags, d.Opts)\n\t\tt[host] = Routes{r}\n\n\t// add new route to existing host\n\tcase t[host].find(path) == nil:\n\t\tg, err := glob.Compile(path)\n\t\tif err != nil {\n\t\t\treturn err\n\t\t}\n\t\tr := &Route{Host: host, Path: path, Glob: g}\n\t\tr.addTarget(d.Service, targetURL, d.Weight, d.Tags, d.Opts)\n\t\tt[host] = append(t[host], r)\n\n\t// add new target to existing route\n\tdefault:\n\t\tt[host].find(path).addTarget(d.Service, targetURL, d.Weight, d.Tags, d.Opts)\n\t}\n\n", New: "\tfor _, r := range t[host] {\n\t\tif r.Path == path {\n\t\t\tif len(r.Targets) > 0 && (r.Targets[0].URL.Scheme == \"tcp\") != (targetURL.Scheme == \"tcp\") {\n\t\t\t\treturn fmt.Errorf(\"route: cannot mix tcp and http targets on %s%s\", host, path)\n\t\t\t}\n\t\t\tr.addTarget(d.Service, targetURL, d.Weight, d.Tags, d.Opts)\n\t\t\treturn nil\n\t\t}\n\t}\n\tg, err := glob.Compile(path)\n\tif err != nil {\n\t\treturn err\n\t}\n\tr := &Route{Host: host, Path: path, Glob: g}\n\tr.addTarget(d.Service, targetURL, d.Weight, d.Tags, d.Opts)\n\tt[host] = append(t[host], r)\n\n", Expect: "C14.A1"},
	}
}
