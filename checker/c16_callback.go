package main

// What a call runs before it returns, callbacks included. A critical section or a per-entry test is often not written
// where it runs: `m.update(func(conns map[..]..){ ... })` runs the closure under m's lock, `table.Has(func(t) bool {...})`
// runs the predicate once per target, `every(d, p.sweep)` runs the sweep once per round. The shared region / mayExec
// helpers follow static callees (and closures called where they are made) only; the C16 pool rules use the variants below.

import (
	"go/token"
	"go/types"
	"strings"

	"golang.org/x/tools/go/ssa"
)

// c16isFuncT: t is a function type.
func c16isFuncT(t types.Type) bool {
	_, ok := t.Underlying().(*types.Signature)
	return ok
}

// c16paramIndex: the index of p among the parameters of its function (receiver included), -1 when p is none.
func c16paramIndex(p *ssa.Parameter) int {
	if p == nil || p.Parent() == nil {
		return -1
	}
	for k, q := range p.Parent().Params {
		if q == p {
			return k
		}
	}
	return -1
}

// c16syncStdlib: a function of the standard library that calls its function-typed argument before it returns
// (slices.ContainsFunc, sort.Slice, (*sync.Once).Do, strings.IndexFunc ...). Functions that keep the callback for later
// (time.AfterFunc, http.HandleFunc, signal handlers) are not in these packages.
func c16syncStdlib(name string) bool {
	n := stripTypeArgs(name)
	for _, p := range []string{"slices.", "sort.", "maps.", "strings.", "bytes.", "iter.", "(*sync.Once).Do", "sync.OnceFunc", "(*sync.Map).Range"} {
		if strings.HasPrefix(n, p) {
			return true
		}
	}
	return false
}

// c16runsParam: g (a repository function) calls its k-th parameter itself (call or defer, not go), or hands it on to
// a callee that is called synchronously.
func c16runsParam(g *ssa.Function, k int, depth int) bool {
	if g == nil || k < 0 || k >= len(g.Params) || len(g.Blocks) == 0 || depth > 3 {
		return false
	}
	p := g.Params[k]
	for _, r := range *p.Referrers() {
		ci, ok := r.(ssa.CallInstruction)
		if !ok {
			continue
		}
		if _, isGo := r.(*ssa.Go); isGo {
			continue
		}
		cc := ci.Common()
		if cc.Value == p && !cc.IsInvoke() {
			return true
		}
		for j, a := range cc.Args {
			if a != p {
				continue
			}
			sc := cc.StaticCallee()
			switch {
			case sc == nil:
				return true
			case isRepoFn(sc):
				if c16runsParam(unwrap(sc), j, depth+1) {
					return true
				}
			case c16syncStdlib(calleeName(cc)):
				return true
			}
		}
	}
	return false
}

// c16syncCallees: the repository functions instruction i may run before it completes: its static callee, the closures
// a called function value may denote (a local variable; a parameter, resolved through the arguments at the static call
// sites of its function), and the function values it hands to a callee that runs them.
func c16syncCallees(i ssa.Instruction) []*ssa.Function {
	if _, isGo := i.(*ssa.Go); isGo {
		return nil
	}
	cc := callCommon(i)
	if cc == nil {
		return nil
	}
	var out []*ssa.Function
	add := func(fs ...*ssa.Function) {
		for _, f := range fs {
			if f != nil && isRepoFn(f) && len(f.Blocks) > 0 && !c16inFns(out, f) {
				out = append(out, f)
			}
		}
	}
	sc := cc.StaticCallee()
	switch {
	case sc != nil:
		add(unwrap(sc))
	case !cc.IsInvoke():
		add(c16funcsOf(cc.Value, 0)...)
	default:
		add(c16invokeTargets(cc)...)
	}
	for k, a := range cc.Args {
		if !c16isFuncT(a.Type()) {
			continue
		}
		runs := false
		switch {
		case sc == nil:
			runs = true // a function value or an interface method: it may
		case isRepoFn(sc):
			g := unwrap(sc)
			kk := k
			if g != sc && len(g.Params) == len(cc.Args)+1 {
				kk = k + 1 // bound method wrapper: the receiver is not among the arguments
			}
			runs = c16runsParam(g, kk, 0)
		default:
			runs = c16syncStdlib(calleeName(cc))
		}
		if runs {
			add(c16funcsOf(a, 0)...)
		}
	}
	return out
}

// c16funcsOf: funcsOf, and for a function-typed parameter the functions its arguments denote at the static call sites.
func c16funcsOf(v ssa.Value, depth int) []*ssa.Function {
	out := funcsOf(v)
	if depth > 2 {
		return out
	}
	// a function kept in a field of a repository struct (an injected getter / dialer / hook): whatever the repository
	// stores into that field
	var ft types.Type
	fidx := -1
	switch x := v.(type) {
	case *ssa.Field:
		ft, fidx = x.X.Type(), x.Field
	case *ssa.UnOp:
		if fa, isFA := x.X.(*ssa.FieldAddr); isFA && x.Op == token.MUL {
			ft, fidx = deref(fa.X.Type()), fa.Field
		}
	}
	if fidx >= 0 && c16isFuncT(v.Type()) {
		for _, st := range c16storesToField(ft, fidx) {
			for _, g := range c16funcsOf(st.Val, depth+1) {
				if !c16inFns(out, g) {
					out = append(out, g)
				}
			}
		}
		return out
	}
	p, ok := v.(*ssa.Parameter)
	if !ok {
		return out
	}
	k := c16paramIndex(p)
	for _, s := range gSites[p.Parent()] {
		if args := s.Common().Args; k >= 0 && k < len(args) {
			out = append(out, c16funcsOf(args[k], depth+1)...)
		}
	}
	return out
}

// c16mayHold: a mutex may be held at instruction at — in its function, at a static call site of its function, or where a
// wrapper calls the closure it sits in. (c16locked is the must-version.)
func c16mayHold(at ssa.Instruction, depth int) bool {
	if len(heldAt(at, false)) > 0 {
		return true
	}
	fn := at.Parent()
	if fn == nil || depth >= 3 {
		return false
	}
	if dyn, _ := c16dynSites(fn); len(dyn) > 0 {
		for _, s := range dyn {
			if _, isGo := s.(*ssa.Go); !isGo && c16mayHold(s, depth+1) {
				return true
			}
		}
	}
	for _, s := range gSites[fn] {
		if _, isGo := s.(*ssa.Go); isGo || s.Parent() == fn {
			continue
		}
		if c16mayHold(s, depth+1) {
			return true
		}
	}
	return false
}

// c16invokeTargets: the repository methods an interface method call may run, where the concrete type behind the
// interface is visible: the receiver is made from a concrete value here, or is a parameter whose arguments at the static
// call sites are (a callback interface with one small implementation instead of a func value).
func c16invokeTargets(cc *ssa.CallCommon) []*ssa.Function {
	if cc == nil || !cc.IsInvoke() || c16cache.c == nil {
		return nil
	}
	prog := c16cache.c.Prog
	var out []*ssa.Function
	seen := map[ssa.Value]bool{}
	var walk func(v ssa.Value, d int)
	walk = func(v ssa.Value, d int) {
		if v == nil || seen[v] || d > 5 {
			return
		}
		seen[v] = true
		switch y := v.(type) {
		case *ssa.MakeInterface:
			if sel := prog.MethodSets.MethodSet(y.X.Type()).Lookup(cc.Method.Pkg(), cc.Method.Name()); sel != nil {
				if m := prog.MethodValue(sel); m != nil {
					out = append(out, unwrap(m))
				}
			}
		case *ssa.ChangeInterface:
			walk(y.X, d+1)
		case *ssa.Phi:
			for _, e := range y.Edges {
				walk(e, d+1)
			}
		case *ssa.UnOp:
			for _, dd := range defsOf(y) {
				if dd.Val != v {
					walk(dd.Val, d+1)
				}
			}
			if fv, ok := y.X.(*ssa.FreeVar); ok {
				walk(fv, d+1)
			}
		case *ssa.Parameter:
			k := c16paramIndex(y)
			for _, s := range gSites[y.Parent()] {
				if args := s.Common().Args; k >= 0 && k < len(args) {
					walk(args[k], d+1)
				}
			}
		case *ssa.FreeVar:
			if b := c16binding(y); b != nil {
				walk(b, d+1)
				if a, ok := b.(*ssa.Alloc); ok { // captured by reference: what is stored into the cell
					for _, r := range *a.Referrers() {
						if st, ok := r.(*ssa.Store); ok && st.Addr == a {
							walk(st.Val, d+1)
						}
					}
				}
			}
		}
	}
	walk(cc.Value, 0)
	if len(out) > 0 {
		return out
	}
	// the value behind the interface is out of sight (kept in a field, handed in from another package): every method of
	// the repository's gRPC packages that can stand behind it
	it, ok := cc.Value.Type().Underlying().(*types.Interface)
	if !ok || it.NumMethods() == 0 {
		return nil
	}
	for _, f := range c16cache.c.AllFns {
		recv := f.Signature.Recv()
		if recv == nil || f.Name() != cc.Method.Name() || !isRepoFn(f) || !c16grpcPkg(rootPkg(f)) {
			continue
		}
		if types.Implements(recv.Type(), it) || types.Implements(types.NewPointer(deref(recv.Type())), it) {
			out = append(out, f)
		}
	}
	return out
}

// ---- regions across packages -----------------------------------------------------------------------------------------

// c16grpcPkg: a package of the repository that imports gRPC — code that may have been moved out of package proxy
// together with the pool, the director or the route lookup.
func c16grpcPkg(p *ssa.Package) bool {
	if p == nil || p.Pkg == nil || !isRepoPkgPath(p.Pkg.Path()) {
		return false
	}
	for _, imp := range p.Pkg.Imports() {
		if strings.HasPrefix(imp.Path(), c16grpc) {
			return true
		}
	}
	return false
}

// c16region: Ctx.region, but helpers are also followed into other packages of the repository that import gRPC (the
// shared region stays inside the package of the function it starts from).
func c16region(roots ...*ssa.Function) []*ssa.Function {
	var out []*ssa.Function
	seen := map[*ssa.Function]bool{}
	var add func(f *ssa.Function, d int)
	add = func(f *ssa.Function, d int) {
		if f == nil || seen[f] || len(f.Blocks) == 0 || !isRepoFn(f) {
			return
		}
		seen[f] = true
		out = append(out, f)
		if d >= 4 {
			return
		}
		home := rootPkg(f)
		eachInstr(f, func(i ssa.Instruction) {
			for _, op := range i.Operands(nil) {
				if op == nil || *op == nil {
					continue
				}
				var g *ssa.Function
				switch x := (*op).(type) {
				case *ssa.Function:
					g = unwrap(x)
				case *ssa.MakeClosure:
					if fn, ok := x.Fn.(*ssa.Function); ok {
						g = unwrap(fn)
					}
				}
				if g != nil && (rootPkg(g) == home || c16grpcPkg(rootPkg(g))) {
					add(g, d+1)
				}
			}
			if cc := callCommon(i); cc != nil && cc.IsInvoke() {
				for _, g := range c16invokeTargets(cc) { // a collaborator behind a small interface
					add(g, d+1)
				}
			}
		})
	}
	for _, r := range roots {
		add(r, 0)
	}
	return out
}

// ---- values that travel in struct fields ----------------------------------------------------------------------------------

type c16fieldKey struct {
	t   string
	idx int
}

var c16fieldIndex struct {
	c *Ctx
	m map[c16fieldKey][]*ssa.Store
}

// c16storesToField: every store of the repository into field idx of the named struct type t (struct literals included).
func c16storesToField(t types.Type, idx int) []*ssa.Store {
	c := c16cache.c
	if c == nil {
		return nil
	}
	if c16fieldIndex.c != c {
		c16fieldIndex.c, c16fieldIndex.m = c, map[c16fieldKey][]*ssa.Store{}
		for _, f := range c.AllFns {
			eachInstr(f, func(i ssa.Instruction) {
				st, ok := i.(*ssa.Store)
				if !ok {
					return
				}
				fa, ok := st.Addr.(*ssa.FieldAddr)
				if !ok {
					return
				}
				n, ok := types.Unalias(deref(fa.X.Type())).(*types.Named)
				if !ok || n.Obj().Pkg() == nil || !isRepoPkgPath(n.Obj().Pkg().Path()) {
					return
				}
				k := c16fieldKey{typeStr(n), fa.Field}
				c16fieldIndex.m[k] = append(c16fieldIndex.m[k], st)
			})
		}
	}
	n, ok := types.Unalias(t).(*types.Named)
	if !ok {
		return nil
	}
	return c16fieldIndex.m[c16fieldKey{typeStr(n), idx}]
}

// c16fieldRead: v reads (or addresses) a field of a named repository struct.
func c16fieldRead(v ssa.Value) (types.Type, int, bool) {
	switch x := v.(type) {
	case *ssa.Field:
		return x.X.Type(), x.Field, true
	case *ssa.FieldAddr:
		return deref(x.X.Type()), x.Field, true
	}
	return nil, -1, false
}

// c16derivesF: derives, and where the slice reaches a field of a repository struct whose holder cannot be traced (the
// receiver of an exported method, a value that came through an interface), it goes on at every store of the repository
// into that field: a value resolved once by a constructor and kept in a field.
func c16derivesF(v ssa.Value, pred func(ssa.Value) bool) bool {
	seen := map[c16fieldKey]bool{}
	seenV := map[ssa.Value]bool{}
	var p2 func(x ssa.Value) bool
	p2 = func(x ssa.Value) bool {
		if pred(x) {
			return true
		}
		switch y := x.(type) {
		case *ssa.Call:
			// the result of a method called through an interface: what its implementations return
			if !y.Call.IsInvoke() || seenV[x] {
				return false
			}
			seenV[x] = true
			for _, g := range c16invokeTargets(&y.Call) {
				found := false
				eachInstr(g, func(i ssa.Instruction) {
					if r, ok := i.(*ssa.Return); ok && !found {
						for _, res := range r.Results {
							if derives(res, p2) {
								found = true
								return
							}
						}
					}
				})
				if found {
					return true
				}
			}
			return false
		case *ssa.Parameter:
			// the parameter of a method that is only called through an interface: the arguments of those calls
			fn := y.Parent()
			if fn == nil || fn.Signature.Recv() == nil || len(gSites[fn]) > 0 || seenV[x] {
				return false
			}
			seenV[x] = true
			k := c16paramIndex(y)
			for _, site := range c16invokeSitesOf(fn) {
				var a ssa.Value
				if k == 0 {
					a = site.Common().Value
				} else if k-1 < len(site.Common().Args) {
					a = site.Common().Args[k-1]
				}
				if a != nil && derives(a, p2) {
					return true
				}
			}
			return false
		}
		t, idx, ok := c16fieldRead(x)
		if !ok {
			return false
		}
		k := c16fieldKey{typeStr(types.Unalias(t)), idx}
		if seen[k] {
			return false
		}
		seen[k] = true
		for _, st := range c16storesToField(t, idx) {
			if derives(st.Val, p2) {
				return true
			}
		}
		return false
	}
	return derives(v, p2)
}

var c16invokeIndex struct {
	c *Ctx
	m map[*ssa.Function][]ssa.CallInstruction
}

// c16invokeSitesOf: the interface method calls in the repository's gRPC packages that may run fn.
func c16invokeSitesOf(fn *ssa.Function) []ssa.CallInstruction {
	c := c16cache.c
	if c == nil {
		return nil
	}
	if c16invokeIndex.c != c {
		c16invokeIndex.c, c16invokeIndex.m = c, map[*ssa.Function][]ssa.CallInstruction{}
		for _, f := range c.AllFns {
			if !isRepoFn(f) || !c16grpcPkg(rootPkg(f)) {
				continue
			}
			eachInstr(f, func(i ssa.Instruction) {
				ci, ok := i.(ssa.CallInstruction)
				if !ok || !ci.Common().IsInvoke() {
					return
				}
				if it, isI := ci.Common().Value.Type().Underlying().(*types.Interface); !isI || !c16repoIface(ci.Common().Value.Type(), it) {
					return
				}
				for _, g := range c16invokeTargets(ci.Common()) {
					c16invokeIndex.m[g] = append(c16invokeIndex.m[g], ci)
				}
			})
		}
	}
	return c16invokeIndex.m[fn]
}

// c16repoIface: an interface declared in the repository (not error, context.Context, grpc.ServerStream ...).
func c16repoIface(t types.Type, _ *types.Interface) bool {
	n, ok := types.Unalias(t).(*types.Named)
	return ok && n.Obj().Pkg() != nil && isRepoPkgPath(n.Obj().Pkg().Path())
}
