package main

import (
	"go/constant"
	"go/token"
	"go/types"

	"golang.org/x/tools/go/ssa"
)

// Branch facts for C10 (round-3 hardening). The shared factsAt / appendCondFacts see through a verdict kept in a
// BOOLEAN variable (`ok := a && b`, a phi of constants and conditions). A handler or parser restructured so that the
// verdict is kept in something else - the log line to print (`reject := ""; switch { case !ok: reject = "..." }; if
// reject != ""`), an error code, an error value that is nil or a sentinel - compares a merge of CONSTANTS with a
// constant. This file resolves such a comparison per incoming edge:
//
//   - c10factsAt(b): the shared facts plus, for every fact "phi == k" / "phi != k" that only ONE incoming edge of the
//     merge can satisfy, the facts that hold on that edge (the facts at the predecessor and the condition of the
//     edge itself when the predecessor branches into the merge);
//   - c10verdictWays(cond): the truth value of such a comparison on each incoming edge, for the rules of
//     c10_round4.go that ask "which tests send control to the reject edge".
//
// Nothing is keyed by a name or a text: a merge edge counts only when its value is a constant (or, against nil, a
// value that is certainly not nil).

// c10constCompare: cond is `phi == k` or `phi != k` (either order) with k a constant and phi a merge in which at least
// one incoming value is a constant. eqWhenTrue: the comparison is true when phi equals k.
func c10constCompare(cond ssa.Value) (phi *ssa.Phi, k *ssa.Const, eqWhenTrue bool, ok bool) {
	b, isB := cond.(*ssa.BinOp)
	if !isB || (b.Op != token.EQL && b.Op != token.NEQ) {
		return nil, nil, false, false
	}
	x, y := b.X, b.Y
	if _, isK := x.(*ssa.Const); isK {
		x, y = y, x
	}
	k, isK := y.(*ssa.Const)
	if !isK {
		return nil, nil, false, false
	}
	for hop := 0; hop < 3; hop++ {
		ct, isCT := x.(*ssa.ChangeType)
		if !isCT {
			break
		}
		x = ct.X
	}
	phi, isPhi := x.(*ssa.Phi)
	if !isPhi || c10isBool(phi.Type()) {
		return nil, nil, false, false // boolean merges are unfolded by the shared helper
	}
	nConst := 0
	for _, e := range phi.Edges {
		if _, isC := e.(*ssa.Const); isC {
			nConst++
		}
	}
	if nConst == 0 {
		return nil, nil, false, false
	}
	return phi, k, b.Op == token.EQL, true
}

// c10edgeEquals: does the value v flowing into a merge from block pred equal the constant k?
func c10edgeEquals(v ssa.Value, k *ssa.Const, pred *ssa.BasicBlock) (eq, known bool) {
	if c, isC := v.(*ssa.Const); isC {
		switch {
		case c.Value == nil && k.Value == nil:
			return true, true
		case c.Value == nil || k.Value == nil:
			return false, false // a zero value against a constant of another kind: not decided here
		case c.Value.Kind() != k.Value.Kind():
			return false, false
		case c.Value.Kind() == constant.String || c.Value.Kind() == constant.Int || c.Value.Kind() == constant.Bool:
			return constant.Compare(c.Value, token.EQL, k.Value), true
		}
		return false, false
	}
	if k.Value == nil && typeStr(k.Type()) == "error" && pred != nil && c10certainlyNonNil(v, pred) {
		return false, true // an error that was just made against nil
	}
	return false, false
}

// c10edgeFacts: what holds when the merge phi is entered over its k-th edge and does not hold at the merge anyway:
// the facts at the predecessor, and the condition of the edge when the predecessor branches into the merge.
func c10edgeFacts(phi *ssa.Phi, k int) []Fact {
	if k >= len(phi.Block().Preds) {
		return nil
	}
	here := map[Fact]bool{}
	for _, f := range localFactsAt(phi.Block()) {
		here[f] = true
	}
	pred := phi.Block().Preds[k]
	fs := localFactsAt(pred)
	if n := len(pred.Instrs); n > 0 && len(pred.Succs) == 2 && pred.Succs[0] != pred.Succs[1] {
		if iff, ok := pred.Instrs[n-1].(*ssa.If); ok {
			fs = appendCondFacts(fs, iff.Cond, pred.Succs[0] == phi.Block(), 0)
		}
	}
	var out []Fact
	for _, f := range fs {
		if !here[f] {
			out = append(out, f)
		}
	}
	return out
}

// c10unfoldVerdict appends what the fact f implies when it compares a merge of constants with a constant and exactly
// one incoming edge is compatible with it.
func c10unfoldVerdict(out []Fact, f Fact, depth int) []Fact {
	if depth > 3 {
		return out
	}
	cond, truth := c10stripNot(f.Cond, f.Truth)
	if bp, isPhi := cond.(*ssa.Phi); isPhi && c10isBool(bp.Type()) {
		// a boolean verdict (`missing := false; if host == "" { missing = true }`): the shared helper adds the facts at
		// the one predecessor that can carry the truth value, but not the condition of the edge out of it when that
		// predecessor branches into the merge; add it
		feasible, n := -1, 0
		for j, e := range bp.Edges {
			if kb, isK := constBool(e); isK && kb != truth {
				continue
			}
			feasible = j
			n++
		}
		if n == 1 && feasible < len(bp.Block().Preds) && bp.Block().Preds[feasible] != bp.Block() {
			have := map[Fact]bool{}
			for _, g := range out {
				have[g] = true
			}
			for _, g := range c10edgeFacts(bp, feasible) {
				if !have[g] {
					out = append(out, g)
					out = c10unfoldVerdict(out, g, depth+1)
				}
			}
		}
		return out
	}
	phi, k, eqWhenTrue, ok := c10constCompare(cond)
	if !ok {
		return out
	}
	wantEq := eqWhenTrue == truth
	feasible, n := -1, 0
	for j, e := range phi.Edges {
		if j >= len(phi.Block().Preds) {
			return out
		}
		if eq, known := c10edgeEquals(e, k, phi.Block().Preds[j]); known && eq != wantEq {
			continue
		}
		feasible = j
		n++
	}
	if n != 1 || phi.Block().Preds[feasible] == phi.Block() {
		return out
	}
	for _, g := range c10edgeFacts(phi, feasible) {
		out = append(out, g)
		out = c10unfoldVerdict(out, g, depth+1)
	}
	return out
}

// c10factsAt: the branch facts holding at b, including those implied by a verdict kept in a non-boolean variable.
func c10factsAt(b *ssa.BasicBlock) []Fact {
	base := factsAt(b)
	out := base
	for _, f := range base {
		out = c10unfoldVerdict(out, f, 0)
	}
	return out
}

func c10knownNil(b *ssa.BasicBlock, same func(ssa.Value) bool) bool {
	for _, f := range c10factsAt(b) {
		if nn, ok := nilFact(f, same); ok && !nn {
			return true
		}
	}
	return false
}

func c10knownNonNil(b *ssa.BasicBlock, same func(ssa.Value) bool) bool {
	for _, f := range c10factsAt(b) {
		if nn, ok := nilFact(f, same); ok && nn {
			return true
		}
	}
	return false
}

// c10boolConst: an SSA constant for a truth value (the verdict of a comparison resolved on one edge).
func c10boolConst(t bool) ssa.Value {
	return ssa.NewConst(constant.MakeBool(t), types.Typ[types.Bool])
}
