package main

import (
	"fmt"
	"os"
	"sort"
	"strings"

	"golang.org/x/tools/go/callgraph"
	"golang.org/x/tools/go/callgraph/cha"
	"golang.org/x/tools/go/callgraph/vta"
	"golang.org/x/tools/go/packages"
	"golang.org/x/tools/go/ssa"
	"golang.org/x/tools/go/ssa/ssautil"
)

// vtaCrossCheck (thorough tier, DESIGN §3): builds whole-program SSA and a VTA call graph and checks that,
// for every dynamic call made by a repo function, the repo callees VTA finds are also callees in the
// checker's own call graph (function-level). A VTA-only edge means the checker's model could miss a
// reachability fact; it is reported in the evidence as a call-graph gap.
func vtaCrossCheck(c *Ctx) map[string]interface{} {
	env := append(os.Environ(), "GOFLAGS=-mod=mod", "GOPROXY=off", "GOWORK=off")
	cfg := &packages.Config{Mode: packages.LoadAllSyntax, Dir: c.Dir, Env: env}
	pkgs, err := packages.Load(cfg, "./...")
	if err != nil || packages.PrintErrors(pkgs) > 0 {
		return map[string]interface{}{"error": fmt.Sprint("whole-program load failed: ", err)}
	}
	prog, _ := ssautil.AllPackages(pkgs, ssa.InstantiateGenerics)
	prog.Build()
	all := ssautil.AllFunctions(prog)
	cg := vta.CallGraph(all, cha.CallGraph(prog))
	mine := c.callgraph()
	// index the checker's functions by name (different ssa.Program instances)
	byName := map[string]*ssa.Function{}
	for _, f := range c.AllFns {
		byName[f.String()] = f
	}
	isRepo := func(f *ssa.Function) bool { return f != nil && isRepoFn(f) && f.Synthetic == "" }
	edges, dyn, gaps := 0, 0, 0
	var gapList []string
	callgraph.GraphVisitEdges(cg, func(e *callgraph.Edge) error {
		caller, callee := e.Caller.Func, e.Callee.Func
		if !isRepo(caller) || callee == nil {
			return nil
		}
		callee = unwrap(callee)
		if !isRepo(callee) || len(callee.Blocks) == 0 {
			return nil
		}
		edges++
		if e.Site == nil || e.Site.Common().StaticCallee() != nil {
			return nil
		}
		dyn++
		mc, ok1 := byName[caller.String()]
		me, ok2 := byName[callee.String()]
		if !ok1 || !ok2 {
			return nil
		}
		found := false
		for _, t := range mine.out[mc] {
			if t == me {
				found = true
			}
		}
		if !found {
			gaps++
			gapList = append(gapList, strings.ReplaceAll(caller.String()+" -> "+callee.String(), repoMod+"/", ""))
		}
		return nil
	})
	sort.Strings(gapList)
	if len(gapList) > 20 {
		gapList = gapList[:20]
	}
	return map[string]interface{}{
		"whole_program_functions":          len(all),
		"vta_edges_between_repo_functions": edges,
		"dynamic_edges_checked":            dyn,
		"edges_missing_in_checker_graph":   gaps,
		"missing":                          gapList,
		"note":                             "soundness cross-check of the checker's call graph; a missing edge is a modelling gap, not a verdict about fabio",
	}
}
