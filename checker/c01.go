package main

import (
	"go/token"
	"go/types"
	"strings"

	"golang.org/x/tools/go/ssa"
)

func init() {
	register(&propDef{
		ID:      "C01",
		Level:   "other",
		Explain: "Structure of the pipeline registry reply -> tag filter -> health filter -> route commands -> table, decided on every path: (W1) every value sent on the updates channel is configBuilder(healthFilter(tagFilter(reply of Health().State of this iteration))); the filter functions are discovered by this role; (W2) the watch loop carries no state across snapshots except the query index (an instance that became unhealthy cannot survive into a later text); (W3) every cycle of the Consul watch loops is paced: the blocking query's WaitIndex is the loop-carried index advanced from the reply (or the poll branch sleeps), error edges sleep; (F1) in the health filter the append of an instance is, within one outer iteration, unreachable from the true edge of each exclusion (serfHealth critical, _node_maintenance, _service_maintenance:<id> critical on the same node), is dominated by isServiceCheck, by 'passing != 0', and no edge into it carries 'strict and total != passing'; (F2) passing is counted only under same node, same service id and accepted status, total under same node and same service id; (F3) the tag filter keeps serfHealth, _node_maintenance and _service_maintenance* checks without the tag test; (K1) the instance key written by the config builder and the key looked up per catalog entry have the same shape Node \".\" ServiceID; (M1) command lists collected from goroutines / map iteration are sorted before they are joined into the compared text; (B1) the updater writes the service text before the manual text into the buffer it parses, both texts come only from the two registry channels, and the buffer is Reset first. (B2) every update received from either registry channel reaches the rebuild of the candidate text — from the select, the loop head is not reachable without passing the buffer Reset; Not decided: Consul's own semantics, quiescence, and the 'if and only if' over registry histories beyond this per-snapshot structure.",
		Run:     runC01,
		Trusted: []string{"hashicorp/consul/api returns the health state / catalog of the agent's datacenter; blocking queries honour WaitIndex", "sort.Sort orders the slice"},
		Mutants: []mutant{
			{Name: "manual update ignored while the service config is empty", File: "main.go", Old: "\t\t\tcase mancfg = <-man:\n\t\t\t}", New: "\t\t\tcase mancfg = <-man:\n\t\t\t\tif svccfg == \"\" {\n\t\t\t\t\tcontinue\n\t\t\t\t}\n\t\t\t}", Expect: "C01.B2"},

			{Name: "health filter bypassed", File: "registry/consul/service.go", Old: "updates <- w.makeConfig(passing)", New: "_ = passing\n\t\tupdates <- w.makeConfig(prefixedChecks)", Expect: "C01.W1"},
			{Name: "tag filter bypassed", File: "registry/consul/service.go", Old: "passing := passingServices(prefixedChecks, w.config.ServiceStatus, w.strict)", New: "passing := passingServices(checks, w.config.ServiceStatus, w.strict)", Expect: "C01.W1"},
			{Name: "state accumulated across snapshots", File: "registry/consul/service.go", Old: "\tvar q *api.QueryOptions\n\tfor {", New: "\tvar q *api.QueryOptions\n\tvar seen api.HealthChecks\n\tfor {", Expect: "C01.W2",
				More: []repl{{"prefixedChecks := checksWithTagPrefix(w.config.TagPrefix, checks)", "seen = append(seen, checks...)\n\t\tprefixedChecks := checksWithTagPrefix(w.config.TagPrefix, seen)"}}},
			{Name: "last index never advanced", File: "registry/consul/service.go", Old: "\t\tlastIndex = meta.LastIndex\n", New: "\t\t_ = meta.LastIndex\n", Expect: "C01.W3"},
			{Name: "kv watcher error edge without sleep", File: "registry/consul/kv.go", Old: "\t\t\tlog.Printf(\"[WARN] consul: Error fetching config from %s. %v\", path, err)\n\t\t\ttime.Sleep(time.Second)\n\t\t\tcontinue", New: "\t\t\tlog.Printf(\"[WARN] consul: Error fetching config from %s. %v\", path, err)\n\t\t\t_ = time.Second\n\t\t\tcontinue", Expect: "C01.W3"},
			{Name: "health watcher error edge without sleep", File: "registry/consul/service.go", Old: "\t\t\tlog.Printf(\"[WARN] consul: Error fetching health state. %v\", err)\n\t\t\ttime.Sleep(time.Second)\n\t\t\tcontinue", New: "\t\t\tlog.Printf(\"[WARN] consul: Error fetching health state. %v\", err)\n\t\t\tcontinue", Expect: "C01.W3"},
			{Name: "node maintenance no longer excludes", File: "registry/consul/passing.go", Old: "\t\t\t\tif c.CheckID == \"_node_maintenance\" {\n\t\t\t\t\tlog.Printf(\"[DEBUG] consul: Skipping service %q since node %q is in maintenance mode: %s\", c.ServiceID, c.Node, c.Output)\n\t\t\t\t\tcontinue CHECKS\n\t\t\t\t}\n", New: "", Expect: "C01.F1"},
			{Name: "agent failure only logged", File: "registry/consul/passing.go", Old: "\t\t\t\t\tlog.Printf(\"[DEBUG] consul: Skipping service %q since agent on node %q is down: %s\", c.ServiceID, c.Node, c.Output)\n\t\t\t\t\tcontinue CHECKS", New: "\t\t\t\t\tlog.Printf(\"[DEBUG] consul: Skipping service %q since agent on node %q is down: %s\", c.ServiceID, c.Node, c.Output)\n\t\t\t\t\tcontinue", Expect: "C01.F1"},
			{Name: "passing == 0 weakened to passing < 0", File: "registry/consul/passing.go", Old: "\t\tif passing == 0 {\n\t\t\tcontinue\n\t\t}", New: "\t\tif passing < 0 {\n\t\t\tcontinue\n\t\t}", Expect: "C01.F1"},
			{Name: "strict mode ignored", File: "registry/consul/passing.go", Old: "\t\tif strict && total != passing {\n\t\t\tcontinue\n\t\t}\n", New: "", Expect: "C01.F1"},
			{Name: "service maintenance of another node excludes too", File: "registry/consul/passing.go", Old: "\t\t\tif svc.Node == c.Node {\n\t\t\t\tif svc.ServiceID == c.ServiceID {", New: "\t\t\tif svc.Node == c.Node || c.Node != \"\" {\n\t\t\t\tif svc.ServiceID == c.ServiceID {", Expect: "C01.F2"},
			{Name: "passing counted for any status", File: "registry/consul/passing.go", Old: "\t\t\t\t\tif hasStatus(c, status) {\n\t\t\t\t\t\tpassing++\n\t\t\t\t\t}", New: "\t\t\t\t\tpassing++", Expect: "C01.F2"},
			{Name: "tag filter drops node checks", File: "registry/consul/service.go", Old: "\t\tif c.CheckID == \"serfHealth\" || c.CheckID == \"_node_maintenance\" || strings.HasPrefix(c.CheckID, \"_service_maintenance\") {", New: "\t\tif c.CheckID == \"_node_maintenance\" || strings.HasPrefix(c.CheckID, \"_service_maintenance\") {", Expect: "C01.F3"},
			{Name: "catalog lookup keyed by service name", File: "registry/consul/service.go", Old: "if _, ok := passing[svc.Node+\".\"+svc.ServiceID]; !ok {", New: "if _, ok := passing[svc.Node+\".\"+svc.ServiceName]; !ok {", Expect: "C01.K1"},
			{Name: "unsorted command list", File: "registry/consul/service.go", Old: "\tsort.Sort(sort.Reverse(sort.StringSlice(config)))\n", New: "\t_ = sort.Strings\n", Expect: "C01.M1"},
			{Name: "manual text before service text", File: "main.go", Old: "\t\t\ttableBuffer.WriteString(svccfg)\n\t\t\ttableBuffer.WriteString(\"\\n\")\n\t\t\ttableBuffer.WriteString(mancfg)", New: "\t\t\ttableBuffer.WriteString(mancfg)\n\t\t\ttableBuffer.WriteString(\"\\n\")\n\t\t\ttableBuffer.WriteString(svccfg)", Expect: "C01.B1"},
			{Name: "buffer not reset", File: "main.go", Old: "\t\t\ttableBuffer.Reset()\n", New: "", Expect: "C01.B1"},
			{Name: "benign: exclusion tests in switch form", File: "registry/consul/passing.go", Old: "\t\t\t\tif c.CheckID == \"_node_maintenance\" {", New: "\t\t\t\tif id := c.CheckID; id == \"_node_maintenance\" {", Expect: ""},
		},
	})
}

const apiPkg = "github.com/hashicorp/consul/api"

func isHealthField(v ssa.Value, field string) (ssa.Value, bool) {
	return fieldOf(v, "api.HealthCheck", field)
}

func runC01(c *Ctx) {
	watch := c.method("registry/consul", "ServiceMonitor", "Watch")
	if !c.need("C01.W1", watch, "consul.ServiceMonitor.Watch") {
		return
	}
	// ---- W1: the send chain
	var builder, healthFilter, tagFilter *ssa.Function
	nSend := 0
	eachInstr(watch, func(i ssa.Instruction) {
		snd, ok := i.(*ssa.Send)
		if !ok {
			return
		}
		nSend++
		chain := []*ssa.Call{}
		v := snd.X
		for depth := 0; depth < 4; depth++ {
			for {
				if ct, isCT := v.(*ssa.ChangeType); isCT {
					v = ct.X
					continue
				}
				break
			}
			call, ok := v.(*ssa.Call)
			if !ok {
				break
			}
			chain = append(chain, call)
			// next: the argument that is itself a call (or extract of one) producing health checks
			var next ssa.Value
			for _, a := range call.Call.Args {
				if strings.Contains(typeStr(a.Type()), apiPkg+".HealthCheck") {
					next = a
				}
			}
			if next == nil {
				break
			}
			v = next
			if e, ok := v.(*ssa.Extract); ok {
				v = e.Tuple
			}
		}
		ok = len(chain) == 4
		if ok {
			b, h, t, st := chain[0], chain[1], chain[2], chain[3]
			ok = b.Call.StaticCallee() != nil && h.Call.StaticCallee() != nil && t.Call.StaticCallee() != nil &&
				isRepoFn(b.Call.StaticCallee()) && isRepoFn(h.Call.StaticCallee()) && isRepoFn(t.Call.StaticCallee()) &&
				calleeName(&st.Call) == "(*"+apiPkg+".Health).State"
			if ok {
				builder, healthFilter, tagFilter = b.Call.StaticCallee(), h.Call.StaticCallee(), t.Call.StaticCallee()
				// all in the same iteration: no phi in between (checked by construction: direct call operands)
			}
		}
		c.check("C01.W1", "(*consul.ServiceMonitor).Watch|sent config = builder(healthFilter(tagFilter(Health().State reply)))", snd.Pos(), ok,
			"the text sent to the table updater must be built from the health filter applied to the tag filter applied to this iteration's Health().State reply; bypassing a stage publishes unhealthy, maintenance-mode or untagged instances")
	})
	c.atLeast("C01.W1", "sends on the updates channel", nSend, 1)
	if builder == nil {
		return
	}

	// ---- W2: loop-carried state
	for _, l := range condLessLoops(watch) {
		for _, in := range l.Head.Instrs {
			phi, ok := in.(*ssa.Phi)
			if !ok {
				continue
			}
			ts := typeStr(phi.Type())
			okT := ts == "uint64" || ts == "*"+apiPkg+".QueryOptions"
			c.check("C01.W2", "(*consul.ServiceMonitor).Watch|loop-carried "+phi.Comment, phi.Pos(), okT,
				"the watch loop may carry only the query index across iterations; carrying "+ts+" lets state from an earlier registry snapshot leak into a later configuration (an instance that became unhealthy could survive)")
		}
	}

	// ---- W3: pacing of the consul loops
	runLoopPacingWith(c, "C01.W3", []string{"registry/consul"}, 2, consulQueryPaced)
	runConsulWatchLoops(c, "C01.W3", []string{"registry/consul"}, 2)

	runC01F1F2(c, healthFilter)
	runC01F3(c, tagFilter)
	runC01K1(c, builder)
	runC01M1(c, builder)
	runC01B1(c)
}

// consulQueryPaced: a direct api Health().State / KV().List call paces the loop when every QueryOptions
// value it can receive either carries WaitIndex = a loop-carried index advanced from the reply's meta,
// or is built in a block that sleeps (poll mode).
func consulQueryPaced(i ssa.Instruction, l *loop) bool {
	call, ok := i.(*ssa.Call)
	if !ok {
		return false
	}
	n := calleeName(&call.Call)
	if n != "(*"+apiPkg+".Health).State" && n != "(*"+apiPkg+".KV).List" && n != "(*"+apiPkg+".KV).Get" {
		return false
	}
	var q ssa.Value
	for _, a := range call.Call.Args {
		if typeStr(a.Type()) == "*"+apiPkg+".QueryOptions" {
			q = a
		}
	}
	if q == nil {
		return false
	}
	defs := defsOf(q)
	if len(defs) == 0 {
		return false
	}
	for _, d := range defs {
		a, ok := d.Val.(*ssa.Alloc)
		if !ok {
			return false
		}
		okDef := false
		for _, st := range fieldStores(a)["WaitIndex"] {
			if phi, ok := st.Val.(*ssa.Phi); ok && phi.Block() == l.Head {
				for k, e := range phi.Edges {
					if l.Body[l.Head.Preds[k]] && derives(e, func(v ssa.Value) bool { return v == call }) {
						okDef = true
					}
				}
			}
		}
		if !okDef {
			// poll mode: the block building this QueryOptions sleeps
			for _, in := range a.Block().Instrs {
				if cc := callCommon(in); cc != nil && calleeName(cc) == "time.Sleep" {
					okDef = true
				}
			}
		}
		if !okDef {
			return false
		}
	}
	return true
}

// runLoopPacingWith is runLoopPacing with an extra pacing predicate.
func runLoopPacingWith(c *Ctx, rule string, pkgs []string, min int, extra func(ssa.Instruction, *loop) bool) {
	old := extraPacing
	extraPacing = extra
	defer func() { extraPacing = old }()
	runLoopPacing(c, rule, pkgs, min)
}

func runC01F1F2(c *Ctx, hf *ssa.Function) {
	if !c.need("C01.F1", hf, "health filter (by role)") {
		return
	}
	// the append whose result flows to the returned value
	var app *ssa.Call
	eachInstr(hf, func(i ssa.Instruction) {
		if call, ok := i.(*ssa.Call); ok && calleeName(&call.Call) == "builtin.append" && strings.Contains(typeStr(call.Type()), "HealthCheck") {
			app = call
		}
	})
	if app == nil {
		c.undecided("C01.F1", fnKey(hf)+"|append of a passing instance", "no append found")
		return
	}
	A := app.Block()
	var outer *loop
	for _, l := range loopsOf(hf) {
		if l.Body[A] && (outer == nil || len(l.Body) > len(outer.Body)) {
			outer = l
		}
	}
	if outer == nil {
		c.undecided("C01.F1", fnKey(hf)+"|outer loop", "append is not inside a loop")
		return
	}
	cut := map[*ssa.BasicBlock]bool{outer.Head: true}
	reachesAppend := func(b *ssa.BasicBlock) bool {
		if b == A {
			return true
		}
		return reachableFrom([]*ssa.BasicBlock{b}, cut)[A]
	}
	type excl struct {
		name  string
		match func(fs []Fact) bool
	}
	hasEq := func(fs []Fact, field, konst string, prefix bool) bool {
		for _, f := range fs {
			b, ok := f.Cond.(*ssa.BinOp)
			if !ok || b.Op != token.EQL || !f.Truth {
				continue
			}
			if _, isF := isHealthField(b.X, field); !isF {
				continue
			}
			if s, isS := constString(b.Y); isS && s == konst && !prefix {
				return true
			}
			if prefix {
				// CheckID == "<prefix>" + svc.ServiceID
				if add, isAdd := b.Y.(*ssa.BinOp); isAdd && add.Op == token.ADD {
					if s, isS := constString(add.X); isS && s == konst {
						if _, isID := isHealthField(add.Y, "ServiceID"); isID {
							return true
						}
					}
				}
			}
		}
		return false
	}
	sameNode := func(fs []Fact) bool {
		for _, f := range fs {
			b, ok := f.Cond.(*ssa.BinOp)
			if !ok || b.Op != token.EQL || !f.Truth {
				continue
			}
			bx, okx := isHealthField(b.X, "Node")
			by, oky := isHealthField(b.Y, "Node")
			if okx && oky && bx != by {
				return true
			}
		}
		return false
	}
	sameID := func(fs []Fact) bool {
		for _, f := range fs {
			b, ok := f.Cond.(*ssa.BinOp)
			if !ok || b.Op != token.EQL || !f.Truth {
				continue
			}
			bx, okx := isHealthField(b.X, "ServiceID")
			by, oky := isHealthField(b.Y, "ServiceID")
			if okx && oky && bx != by {
				return true
			}
		}
		return false
	}
	exclusions := []excl{
		{"agent down (serfHealth critical on the same node)", func(fs []Fact) bool {
			return sameNode(fs) && hasEq(fs, "CheckID", "serfHealth", false) && hasEq(fs, "Status", "critical", false)
		}},
		{"node maintenance (_node_maintenance on the same node)", func(fs []Fact) bool { return sameNode(fs) && hasEq(fs, "CheckID", "_node_maintenance", false) }},
		{"service maintenance (_service_maintenance:<id> critical on the same node)", func(fs []Fact) bool {
			return sameNode(fs) && hasEq(fs, "CheckID", "_service_maintenance:", true) && hasEq(fs, "Status", "critical", false)
		}},
	}
	for _, e := range exclusions {
		found, bad := false, false
		var pos token.Pos = hf.Pos()
		for _, b := range hf.Blocks {
			if !e.match(factsAt(b)) {
				continue
			}
			found = true
			if reachesAppend(b) {
				bad = true
				pos = b.Instrs[0].Pos()
			}
		}
		detail := "within one iteration over the instances, the edge on which this condition holds must not reach the append"
		if !found {
			detail = "no branch of the health filter tests this condition any more"
		}
		c.check("C01.F1", fnKey(hf)+"|excluded: "+e.name, pos, found && !bad, detail+": such an instance would get routes although the rule says it is not healthy")
	}
	// dominated by isServiceCheck()==true
	okSvc := false
	for _, f := range factsAt(A) {
		if call, ok := f.Cond.(*ssa.Call); ok && f.Truth && call.Call.StaticCallee() != nil && isRepoFn(call.Call.StaticCallee()) &&
			call.Call.StaticCallee().Signature.Results().Len() == 1 && strings.Contains(strings.ToLower(call.Call.StaticCallee().Name()), "servicecheck") {
			okSvc = true
		}
	}
	c.check("C01.F1", fnKey(hf)+"|only service checks become instances", app.Pos(), okSvc, "node and maintenance checks must never be appended as service instances (append dominated by isServiceCheck()==true)")
	// passing >= 1
	var passing ssa.Value
	okPassing := false
	for _, f := range factsAt(A) {
		b, ok := f.Cond.(*ssa.BinOp)
		if !ok {
			continue
		}
		k, isK := constInt(b.Y)
		if !isK {
			continue
		}
		if _, isPhi := b.X.(*ssa.Phi); !isPhi {
			continue
		}
		switch {
		case b.Op == token.EQL && k == 0 && !f.Truth, b.Op == token.NEQ && k == 0 && f.Truth,
			b.Op == token.GTR && k == 0 && f.Truth, b.Op == token.GEQ && k == 1 && f.Truth,
			b.Op == token.LSS && k == 1 && !f.Truth, b.Op == token.LEQ && k == 0 && !f.Truth:
			okPassing = true
			passing = b.X
		}
	}
	c.check("C01.F1", fnKey(hf)+"|at least one accepted check", app.Pos(), okPassing, "the append must be dominated by an edge implying passing >= 1; an instance without any check in an accepted status must not be routed to")
	// strict: no edge into A (or into its dominating region) carries strict && total != passing
	var strictP *ssa.Parameter
	for _, p := range hf.Params {
		if typeStr(p.Type()) == "bool" {
			strictP = p
		}
	}
	var total ssa.Value
	okStrict := strictP != nil
	if okStrict {
		for _, p := range A.Preds {
			fs := factsAt(p)
			if iff, ok := p.Instrs[len(p.Instrs)-1].(*ssa.If); ok && p.Succs[0] != p.Succs[1] {
				fs = append(fs, Fact{iff.Cond, p.Succs[0] == A})
			}
			strictFalse, equal := false, false
			for _, f := range fs {
				if f.Cond == strictP && !f.Truth {
					strictFalse = true
				}
				if b, ok := f.Cond.(*ssa.BinOp); ok && passing != nil && (b.X == passing || b.Y == passing) {
					if (b.Op == token.NEQ && !f.Truth) || (b.Op == token.EQL && f.Truth) {
						if _, isK := b.Y.(*ssa.Const); !isK {
							equal = true
							if b.X == passing {
								total = b.Y
							} else {
								total = b.X
							}
						}
					}
				}
			}
			if !strictFalse && !equal {
				okStrict = false
			}
		}
	}
	c.check("C01.F1", fnKey(hf)+"|strict mode requires all checks", app.Pos(), okStrict, "every edge into the append must carry either strict == false or total == passing; otherwise checksRequired=all admits instances with failing checks")

	// ---- F2 counters
	checkCounter := func(phi ssa.Value, name string, needStatus bool) {
		if phi == nil {
			c.undecided("C01.F2", fnKey(hf)+"|counter "+name, "counter not identified")
			return
		}
		n := 0
		eachInstr(hf, func(i ssa.Instruction) {
			b, ok := i.(*ssa.BinOp)
			if !ok || b.Op != token.ADD || b.X != phi {
				return
			}
			if k, isK := constInt(b.Y); !isK || k != 1 {
				return
			}
			n++
			fs := factsAt(b.Block())
			ok2 := sameNode(fs) && sameID(fs)
			if needStatus {
				st := false
				for _, f := range fs {
					if call, isC := f.Cond.(*ssa.Call); isC && f.Truth && call.Call.StaticCallee() != nil && strings.Contains(strings.ToLower(call.Call.StaticCallee().Name()), "status") {
						st = true
					}
				}
				ok2 = ok2 && st
			}
			want := "same node and same service id"
			if needStatus {
				want += " and an accepted status"
			}
			c.check("C01.F2", fnKey(hf)+"|"+name+" counted only for "+want, b.Pos(), ok2,
				name+" must be incremented only under "+want+": counting checks of other nodes or services makes an instance healthy because of somebody else's check (the ServiceID is unique per agent only)")
		})
		if n == 0 {
			c.undecided("C01.F2", fnKey(hf)+"|counter "+name, "no increment found")
		}
	}
	checkCounter(passing, "passing", true)
	checkCounter(total, "total", false)
}

func runC01F3(c *Ctx, tf *ssa.Function) {
	if !c.need("C01.F3", tf, "tag filter (by role)") {
		return
	}
	classes := []struct {
		name  string
		match func(cond ssa.Value) bool
	}{
		{"serfHealth", func(v ssa.Value) bool {
			b, ok := v.(*ssa.BinOp)
			if !ok || b.Op != token.EQL {
				return false
			}
			_, isF := isHealthField(b.X, "CheckID")
			s, _ := constString(b.Y)
			return isF && s == "serfHealth"
		}},
		{"_node_maintenance", func(v ssa.Value) bool {
			b, ok := v.(*ssa.BinOp)
			if !ok || b.Op != token.EQL {
				return false
			}
			_, isF := isHealthField(b.X, "CheckID")
			s, _ := constString(b.Y)
			return isF && s == "_node_maintenance"
		}},
		{"_service_maintenance*", func(v ssa.Value) bool {
			call, ok := isCallTo(v, "strings.HasPrefix")
			if !ok {
				return false
			}
			_, isF := isHealthField(call.Call.Args[0], "CheckID")
			s, _ := constString(call.Call.Args[1])
			return isF && strings.HasPrefix(s, "_service_maintenance")
		}},
	}
	appendsCheck := func(b *ssa.BasicBlock) bool {
		for _, in := range b.Instrs {
			if call, ok := in.(*ssa.Call); ok && calleeName(&call.Call) == "builtin.append" && strings.Contains(typeStr(call.Type()), "HealthCheck") {
				return true
			}
		}
		return false
	}
	for _, cl := range classes {
		ok := false
		var pos token.Pos = tf.Pos()
		for _, b := range tf.Blocks {
			if len(b.Instrs) == 0 {
				continue
			}
			iff, isIf := b.Instrs[len(b.Instrs)-1].(*ssa.If)
			if !isIf || !cl.match(iff.Cond) {
				continue
			}
			pos = iff.Pos()
			s := b.Succs[0]
			// the true edge appends the check without a tag test in between
			if appendsCheck(s) {
				tagTested := false
				for _, f := range factsAt(s) {
					if call, isC := isCallTo(f.Cond, "strings.HasPrefix"); isC {
						if _, isID := isHealthField(call.Call.Args[0], "CheckID"); !isID {
							tagTested = true
						}
					}
				}
				if !tagTested {
					ok = true
				}
			}
		}
		c.check("C01.F3", fnKey(tf)+"|"+cl.name+" checks kept without the tag test", pos, ok,
			"node-level and maintenance checks carry no service tags; if the tag filter drops them the health filter can no longer see a dead agent or maintenance mode, and instances on such nodes stay in the table")
	}
}

// keyShape renders a string-building expression as the sequence of struct field names and
// constant separators it is made of.
func keyShape(v ssa.Value) ([]string, bool) {
	switch x := v.(type) {
	case *ssa.BinOp:
		if x.Op == token.ADD {
			l, ok1 := keyShape(x.X)
			r, ok2 := keyShape(x.Y)
			return append(l, r...), ok1 && ok2
		}
	case *ssa.Const:
		if s, ok := constString(x); ok {
			return []string{"\"" + s + "\""}, true
		}
	case *ssa.UnOp:
		if x.Op == token.MUL {
			if fa, ok := x.X.(*ssa.FieldAddr); ok {
				return []string{fieldName(fa.X.Type(), fa.Field)}, true
			}
		}
	case *ssa.Call:
		if calleeName(&x.Call) == "fmt.Sprintf" {
			format, ok := constString(x.Call.Args[0])
			if !ok {
				return nil, false
			}
			// variadic args: slice of an alloc'd array with one store per element
			var args []ssa.Value
			if sl, ok := x.Call.Args[1].(*ssa.Slice); ok {
				if arr, ok := sl.X.(*ssa.Alloc); ok {
					byIdx := map[int64]ssa.Value{}
					for _, r := range *arr.Referrers() {
						if ia, ok := r.(*ssa.IndexAddr); ok {
							k, _ := constInt(ia.Index)
							for _, r2 := range *ia.Referrers() {
								if st, ok := r2.(*ssa.Store); ok {
									byIdx[k] = stripIface(st.Val)
								}
							}
						}
					}
					for k := int64(0); k < int64(len(byIdx)); k++ {
						args = append(args, byIdx[k])
					}
				}
			}
			var out []string
			ai := 0
			lit := ""
			for k := 0; k < len(format); k++ {
				if format[k] == '%' && k+1 < len(format) && (format[k+1] == 's' || format[k+1] == 'v') {
					if lit != "" {
						out = append(out, "\""+lit+"\"")
						lit = ""
					}
					if ai >= len(args) {
						return nil, false
					}
					sh, ok := keyShape(args[ai])
					if !ok {
						return nil, false
					}
					out = append(out, sh...)
					ai++
					k++
					continue
				}
				lit += string(format[k])
			}
			if lit != "" {
				out = append(out, "\""+lit+"\"")
			}
			return out, true
		}
	}
	return nil, false
}

func runC01K1(c *Ctx, builder *ssa.Function) {
	// writer: map update m[name][id] = true in the builder (inner map keyed by the instance id)
	var wShape []string
	var wPos token.Pos
	eachInstr(builder, func(i ssa.Instruction) {
		mu, ok := i.(*ssa.MapUpdate)
		if !ok {
			return
		}
		if mt, ok := mu.Map.Type().Underlying().(*types.Map); ok {
			if b, ok := mt.Elem().Underlying().(*types.Basic); ok && b.Kind() == types.Bool {
				if sh, ok := keyShape(mu.Key); ok {
					wShape, wPos = sh, mu.Pos()
				}
			}
		}
	})
	// reader: lookup in a map[string]bool parameter of a function reachable from the builder
	var rShape []string
	var rPos token.Pos
	for f := range c.reach(builder) {
		if f == builder {
			continue
		}
		eachInstr(f, func(i ssa.Instruction) {
			lk, ok := i.(*ssa.Lookup)
			if !ok {
				return
			}
			if _, isParam := lk.X.(*ssa.Parameter); !isParam {
				if _, isFV := lk.X.(*ssa.FreeVar); !isFV {
					return
				}
			}
			if mt, ok := lk.X.Type().Underlying().(*types.Map); ok {
				if b, ok := mt.Elem().Underlying().(*types.Basic); ok && b.Kind() == types.Bool {
					if sh, ok := keyShape(lk.Index); ok {
						rShape, rPos = sh, lk.Pos()
					}
				}
			}
		})
	}
	if wShape == nil || rShape == nil {
		c.undecided("C01.K1", fnKey(builder)+"|instance key writer/reader", "could not extract the key shapes of the passing-instance map")
		return
	}
	_ = wPos
	c.check("C01.K1", fnKey(builder)+"|instance key written = key looked up", rPos, strings.Join(wShape, "+") == strings.Join(rShape, "+"),
		"the config builder records passing instances under "+strings.Join(wShape, "+")+" but the per-service step looks them up under "+strings.Join(rShape, "+")+": no (or the wrong) instance is found, so healthy instances get no routes or instances of another service are taken for healthy")
}

func runC01M1(c *Ctx, builder *ssa.Function) {
	n := 0
	eachInstr(builder, func(i ssa.Instruction) {
		call, ok := i.(*ssa.Call)
		if !ok || calleeName(&call.Call) != "strings.Join" {
			return
		}
		n++
		list := call.Call.Args[0]
		sorted := false
		eachInstr(builder, func(j ssa.Instruction) {
			sc, ok := j.(*ssa.Call)
			if !ok {
				return
			}
			switch calleeName(&sc.Call) {
			case "sort.Sort", "sort.Stable", "sort.Strings", "slices.Sort", "sort.Slice":
				if dominatesInstr(j, i) && (sc.Call.Args[0] == list || derives(sc.Call.Args[0], func(v ssa.Value) bool { return v == list })) {
					sorted = true
				}
			}
		})
		c.check("C01.M1", fnKey(builder)+"|command list sorted before it is joined", call.Pos(), sorted,
			"the commands are collected from concurrent goroutines / map iteration; without sorting, the same registry state yields differently ordered texts, each of which is applied as a change (and command order decides which route wins)")
	})
	c.atLeast("C01.M1", "joins of the command list", n, 1)
}

func runC01B1(c *Ctx) {
	wb := c.fn("main", "watchBackend")
	nt := c.fn("route", "NewTable")
	if !c.need("C01.B1", wb, "main.watchBackend") || nt == nil {
		return
	}
	var ntCall *ssa.Call
	eachInstr(wb, func(i ssa.Instruction) {
		if call, ok := i.(*ssa.Call); ok && call.Call.StaticCallee() == nt {
			ntCall = call
		}
	})
	if ntCall == nil {
		c.undecided("C01.B1", "main.watchBackend|NewTable call", "not found")
		return
	}
	buf := ntCall.Call.Args[0]
	// the select over the two registry channels
	chanRole := func(ch ssa.Value) string {
		if call, ok := ch.(*ssa.Call); ok && call.Call.IsInvoke() {
			return call.Call.Method.Name()
		}
		return ""
	}
	roleOf := func(v ssa.Value) string {
		role := ""
		derives(v, func(x ssa.Value) bool {
			e, ok := x.(*ssa.Extract)
			if !ok {
				return false
			}
			sel, ok := e.Tuple.(*ssa.Select)
			if !ok || e.Index < 2 {
				return false
			}
			k := e.Index - 2
			// index among receive states
			ri := 0
			for _, st := range sel.States {
				if st.Dir == types.RecvOnly {
					if ri == k {
						role = chanRole(st.Chan)
					}
					ri++
				}
			}
			return false
		})
		return role
	}
	var reset ssa.Instruction
	var svcW, manW []ssa.Instruction
	eachInstr(wb, func(i ssa.Instruction) {
		cc := callCommon(i)
		if cc == nil || len(cc.Args) == 0 || cc.Args[0] != buf {
			return
		}
		switch calleeName(cc) {
		case "(*bytes.Buffer).Reset":
			reset = i
		case "(*bytes.Buffer).WriteString", "(*bytes.Buffer).Write":
			if _, isK := cc.Args[1].(*ssa.Const); isK {
				return
			}
			// which channel does the text come from? The text variables are phis fed by select extracts.
			switch roleOfText(cc.Args[1], roleOf) {
			case "WatchServices":
				svcW = append(svcW, i)
			case "WatchManual":
				manW = append(manW, i)
			default:
				c.check("C01.B1", "main.watchBackend|table text only from the registry channels", i.Pos(), false, "a text written into the table buffer does not come from WatchServices()/WatchManual()")
			}
		}
	})
	ok := len(svcW) >= 1 && len(manW) >= 1
	if ok {
		for _, s := range svcW {
			for _, m := range manW {
				if !dominatesInstr(s, m) {
					ok = false
				}
			}
		}
	}
	c.check("C01.B1", "main.watchBackend|service text before manual text", ntCall.Pos(), ok,
		"the operator's manual route commands must be applied on top of the service routes: the buffer parsed by NewTable must contain the service text first and the manual text after it (route del/weight overrides only work in that order)")
	okReset := reset != nil
	if okReset {
		for _, w := range append(append([]ssa.Instruction{}, svcW...), manW...) {
			if !dominatesInstr(reset, w) || !dominatesInstr(w, ntCall) {
				okReset = false
			}
		}
	}
	// every update received from either registry channel reaches the rebuild: from the select, the loop head is
	// not reachable without passing the buffer Reset (the only legitimate skip is the unchanged-text comparison after it)
	if reset != nil {
		var sel ssa.Instruction
		eachInstr(wb, func(i ssa.Instruction) {
			if s, ok := i.(*ssa.Select); ok && len(s.States) >= 2 {
				sel = i
			}
		})
		if sel != nil {
			var lp *loop
			for _, l := range loopsOf(wb) {
				if l.Body[sel.Block()] && (lp == nil || len(l.Body) < len(lp.Body)) {
					lp = l
				}
			}
			if lp != nil {
				skip := false
				// search from the select to the head avoiding the Reset call
				type item struct {
					b   *ssa.BasicBlock
					idx int
				}
				seen := map[*ssa.BasicBlock]bool{}
				stack := []item{{sel.Block(), instrIndex(sel) + 1}}
				for len(stack) > 0 && !skip {
					it := stack[len(stack)-1]
					stack = stack[:len(stack)-1]
					blocked := false
					for k := it.idx; k < len(it.b.Instrs); k++ {
						if it.b.Instrs[k] == reset {
							blocked = true
							break
						}
					}
					if blocked {
						continue
					}
					for _, sx := range it.b.Succs {
						if sx == lp.Head {
							skip = true
						} else if lp.Body[sx] && !seen[sx] {
							seen[sx] = true
							stack = append(stack, item{sx, 0})
						}
					}
				}
				c.check("C01.B2", "main.watchBackend|every registry update is considered for a rebuild", sel.Pos(), !skip,
					"an update received from the service or the manual channel can return to the select without rebuilding the candidate text: operator overrides (or service changes) received on that path are never applied — e.g. KV edits while no tagged instance is healthy")
			}
		}
	}
	c.check("C01.B1", "main.watchBackend|buffer reset, then written, then parsed", ntCall.Pos(), okReset,
		"the buffer must be Reset before the two texts are written and both writes must precede NewTable; otherwise texts of earlier updates accumulate (instances that left the registry keep their routes)")
}

// roleOfText: follow phis of the text variable to the select extract feeding it.
func roleOfText(v ssa.Value, roleOf func(ssa.Value) string) string {
	roles := map[string]bool{}
	seen := map[ssa.Value]bool{}
	var walk func(x ssa.Value)
	walk = func(x ssa.Value) {
		if seen[x] {
			return
		}
		seen[x] = true
		switch y := x.(type) {
		case *ssa.Phi:
			for _, e := range y.Edges {
				walk(e)
			}
		case *ssa.Extract:
			if r := roleOf(y); r != "" {
				roles[r] = true
			} else {
				roles["?"] = true
			}
		case *ssa.Const:
		default:
			roles["?"] = true
		}
	}
	walk(v)
	if len(roles) == 1 {
		for r := range roles {
			return r
		}
	}
	return "?"
}
