package main

import (
	"fmt"
	"go/token"
	"go/types"
	"os"
	"strings"

	"golang.org/x/tools/go/ssa"
)

func init() {
	register(&propDef{
		ID:      "C01",
		Level:   "other",
		Explain: "Structure of the pipeline registry reply -> tag filter -> health filter -> route commands -> table, decided on every path. Every site is found by its ROLE (what it calls, reads, stores, returns) inside a region (an entry function, the helpers it calls, its closures), not by the name or the shape of the function that contains it today. A call into the Consul client is a static call of a method of the api package or a call through a narrow interface of the repository that an api type (*api.Health, *api.KV, *api.Catalog) implements. (W1) every text sent on the chan string parameter of the health watcher (the function that queries Health().State) derives - through helpers, parameters, merges, appends, slices.* - from the list of checks of a Health().State reply, passing on EVERY path a stage that looks at HealthCheck.ServiceTags (tag filter) and a stage that looks at HealthCheck.Status (health filter) before it enters the builder (the function that turns the list into the text; a filter may also be the only use of the builder's parameter); nothing else (constants, fields, other lists) flows in. (W2) a value carried across the iterations of a loop that issues the query is the index / the query options, or it influences neither what is sent nor whether it is sent; the only conditions that decide whether the text of a snapshot is sent are verdicts on the error of the query. (W3) every cycle of the Consul watch loops is paced: on every path from the loop head to a query the WaitIndex of its options is set to the carried index advanced from the reply - carried by a variable of the loop or by a memory cell that outlives a round (a field of a cursor / watcher struct, a captured variable) into which a value derived from the reply is stored - (the options may be built by a helper, the query may be wrapped by helpers that take the index as a parameter - also as one edge of a merge with a constant of the poll branch -, that are given the options themselves, or that keep the index themselves; an index taken from the results of a wrapper counts as advanced only if the wrapper puts something of its query's reply into that result) or the path sleeps (poll mode); the edge on which the query's error is known (nil test or the verdict of a helper) sleeps before the next round. (F1) in the health filter (the stage that looks at Status, with the helpers it calls): the edge that completes each exclusion (serfHealth critical, _node_maintenance, _service_maintenance:<id> critical, on the same node) does not lead to the append of the instance within the current iteration - if the edge is in a helper, for the values the helper returns from there; exploring the filter under the ASSUMPTION 'the accepted-status counter is 0', 'strict mode and total != passing', 'the instance's ServiceID is empty / its CheckID is serfHealth, _node_maintenance, _service_maintenance:x' (branches decided by the assumption are pruned, boolean helpers are evaluated under it) never reaches the append. (F2) the accepted-status counter is incremented only under same node, same service id and a test of the check's Status against the accepted list; the total counter under same node and same service id. (F3) exploring the tag filter under the assumption 'CheckID is serfHealth / _node_maintenance / _service_maintenance:x' every path of an iteration appends the check (slices.DeleteFunc: the drop function returns false). (K1) the key under which the builder records passing instances (map update keyed by health check fields) and the key looked up per catalog entry (map lookup keyed by catalog service fields, same map type) have the same shape Node \".\" ServiceID, key helpers looked through. (M1) the list joined into the text the builder returns (strings.Join, or a hand-written join: the String() of a local strings.Builder / bytes.Buffer into which the elements of the list are written, also by a helper that is given the builder) is sorted on every path to the join (in place, by a sorting helper, or before the call of a rendering helper). (M2) goroutines started by the builder do not write variables they share unless they hold a mutex. (B1) the updater (the innermost function around the select over the channels of WatchServices() and WatchManual() whose region - helpers, methods, methods called through an interface - calls route.NewTable): the buffer (or text) parsed by route.NewTable is reset (or allocated for this round, or freshly made from a concatenation / Sprintf / Join / the String() of a builder), then receives the service text, then the manual text, and nothing else that is not a constant; the buffer, the texts and the channels are followed by an object- and field-sensitive tracer through locals, parameters and receivers (resolved at the call sites), fields of state structs (by value, by pointer, made by a constructor), arrays and maps with constant indices, captured variables, results of helpers. (B2) from the instruction that receives the update (the select, or the call that leads to it) the loop head - without a loop in the updater: its return - is not reachable without (re)building the candidate text. Not decided: Consul's own semantics, quiescence, and the 'if and only if' over registry histories beyond this per-snapshot structure.",
		Run:     runC01,
		Trusted: []string{"hashicorp/consul/api returns the health state / catalog of the agent's datacenter; blocking queries honour WaitIndex", "sort.Sort / slices.Sort* order the slice", "slices.DeleteFunc removes exactly the elements for which the function returns true"},
		Mutants: c01SelectMutants(append([]mutant{
			{Name: "manual update ignored while the service config is empty", File: "main.go", Old: "\t\t\tcase mancfg = <-man:\n\t\t\t}", New: "\t\t\tcase mancfg = <-man:\n\t\t\t\tif svccfg == \"\" {\n\t\t\t\t\tcontinue\n\t\t\t\t}\n\t\t\t}", Expect: "C01.B2"},

			{Name: "health filter bypassed", File: "registry/consul/service.go", Old: "updates <- w.makeConfig(passing)", New: "_ = passing\n\t\tupdates <- w.makeConfig(prefixedChecks)", Expect: "C01.W1"},
			{Name: "tag filter bypassed", File: "registry/consul/service.go", Old: "passing := passingServices(prefixedChecks, w.config.ServiceStatus, w.strict)", New: "passing := passingServices(checks, w.config.ServiceStatus, w.strict)", Expect: "C01.W1"},
			{Name: "state accumulated across snapshots", File: "registry/consul/service.go", Old: "\tvar q *api.QueryOptions\n\tfor {", New: "\tvar q *api.QueryOptions\n\tvar seen api.HealthChecks\n\tfor {", Expect: "C01.W2",
				More: []repl{{"prefixedChecks := checksWithTagPrefix(w.config.TagPrefix, checks)", "seen = append(seen, checks...)\n\t\tprefixedChecks := checksWithTagPrefix(w.config.TagPrefix, seen)"}}},
			{Name: "last index never advanced", File: "registry/consul/service.go", Old: "\t\tlastIndex = meta.LastIndex\n", New: "\t\t_ = meta.LastIndex\n", Expect: "C01.W3"},
			{Name: "kv watcher error edge without sleep", File: "registry/consul/kv.go", Old: "\t\t\tlog.Printf(\"[WARN] consul: Error fetching config from %s. %v\", path, err)\n\t\t\ttime.Sleep(time.Second)\n\t\t\tcontinue", New: "\t\t\tlog.Printf(\"[WARN] consul: Error fetching config from %s. %v\", path, err)\n\t\t\t_ = time.Second\n\t\t\tcontinue", Expect: "C01.W3"},
			{Name: "health watcher error edge without sleep", File: "registry/consul/service.go", Old: "\t\t\tlog.Printf(\"[WARN] consul: Error fetching health state. %v\", err)\n\t\t\ttime.Sleep(time.Second)\n\t\t\tcontinue", New: "\t\t\tlog.Printf(\"[WARN] consul: Error fetching health state. %v\", err)\n\t\t\tcontinue", Expect: "C01.W3"},
			{Name: "node maintenance no longer excludes", File: "registry/consul/passing.go", Old: "\t\t\t\tif c.CheckID == \"_node_maintenance\" {\n\t\t\t\t\tlog.Printf(\"[DEBUG] consul: Skipping service %q since node %q is in maintenance mode: %s\", c.ServiceID, c.Node, c.Output)\n\t\t\t\t\tcontinue CHECKS\n\t\t\t\t}\n", New: "", Expect: "C01.F1"},
			{Name: "agent failure only logged", File: "registry/consul/passing.go", Old: "\t\t\t\t\tlog.Printf(\"[DEBUG] consul: Skipping service %q since agent on node %q is down: %s\", c.ServiceID, c.Node, c.Output)\n\t\t\t\t\tcontinue CHECKS", New: "\t\t\t\t\tlog.Printf(\"[DEBUG] consul: Skipping service %q since agent on node %q is down: %s\", c.ServiceID, c.Node, c.Output)\n\t\t\t\t\tcontinue", Expect: "C01.F1"},
			{Name: "passing == 0 weakened to passing < 0", File: "registry/consul/passing.go", Old: "\t\tif passing == 0 {\n\t\t\tcontinue\n\t\t}", New: "\t\tif passing < 0 {\n\t\t\tcontinue\n\t\t}", Expect: "C01.F1"},
			{Name: "strict mode ignored", File: "registry/consul/passing.go", Old: "\t\tif strict && total != passing {\n\t\t\tcontinue\n\t\t}\n", New: "", Expect: "C01.F1"},
			{Name: "service maintenance of another node excludes too", File: "registry/consul/passing.go", Old: "\t\t\tif svc.Node == c.Node {\n\t\t\t\tif svc.ServiceID == c.ServiceID {", New: "\t\t\tif svc.Node == c.Node || c.Node != \"\" {\n\t\t\t\tif svc.ServiceID == c.ServiceID {", Expect: "C01.F2"},
			{Name: "passing counted for any status", File: "registry/consul/passing.go", Old: "\t\t\t\t\tif hasStatus(c, status) {\n\t\t\t\t\t\tpassing++\n\t\t\t\t\t}", New: "\t\t\t\t\tpassing++", Expect: "C01.F2"},
			{Name: "tag filter drops node checks", File: "registry/consul/service.go", Old: "\t\tif c.CheckID == \"serfHealth\" || c.CheckID == \"_node_maintenance\" || strings.HasPrefix(c.CheckID, \"_service_maintenance\") {", New: "\t\tif c.CheckID == \"_node_maintenance\" || strings.HasPrefix(c.CheckID, \"_service_maintenance\") {", Expect: "C01.F3"},
			{Name: "catalog lookup keyed by service name", File: "registry/consul/service.go", Old: "if _, ok := passing[svc.Node+\".\"+svc.ServiceID]; !ok {", New: "if _, ok := passing[svc.Node+\".\"+svc.ServiceName]; !ok {", Expect: "C01.K1"},
			{Name: "unsorted command list", File: "registry/consul/service.go", Old: "\tsort.Sort(sort.Reverse(sort.StringSlice(config)))\n", New: "\t_ = sort.Strings\n", Expect: "C01.M1"},
			{Name: "manual text before service text", File: "main.go", Old: "\t\t\ttableBuffer.WriteString(svccfg)\n\t\t\ttableBuffer.WriteString(\"\\n\")\n\t\t\ttableBuffer.WriteString(mancfg)", New: "\t\t\ttableBuffer.WriteString(mancfg)\n\t\t\ttableBuffer.WriteString(\"\\n\")\n\t\t\ttableBuffer.WriteString(svccfg)", Expect: "C01.B1"},
			{Name: "buffer not reset", File: "main.go", Old: "\t\t\ttableBuffer.Reset()\n", New: "", Expect: "C01.B1"},
			{Name: "benign: exclusion tests in switch form", File: "registry/consul/passing.go", Old: "\t\t\t\tif c.CheckID == \"_node_maintenance\" {", New: "\t\t\t\tif id := c.CheckID; id == \"_node_maintenance\" {", Expect: ""},
		}, append(append(append([]mutant{}, c01MoreMutants...), c01Round2Mutants...), c01Round5Mutants...)...)),
	})
}

// c01SelectMutants: development aid - C01_MUT=<text> restricts `verifcheck mutants C01` to the mutants whose name
// contains the text (or starts at index N with C01_MUT=#N). Without the variable all mutants run.
func c01SelectMutants(all []mutant) []mutant {
	want := os.Getenv("C01_MUT")
	if want == "" {
		return all
	}
	var out []mutant
	for k, m := range all {
		if strings.HasPrefix(want, "#") {
			n := 0
			fmt.Sscanf(want, "#%d", &n)
			if k >= n {
				out = append(out, m)
			}
			continue
		}
		for _, alt := range strings.Split(want, "|") {
			if alt != "" && (strings.Contains(m.Name, alt) || strings.Contains(m.File, alt)) {
				out = append(out, m)
				break
			}
		}
	}
	return out
}

const apiPkg = "github.com/hashicorp/consul/api"

const consulPkg = "registry/consul"

func runC01(c *Ctx) {
	watch := c01WatchEntry(c)
	if !c.need("C01.W1", watch, "the health watcher (a function of registry/consul with a chan string parameter that queries Health().State)") {
		return
	}
	p := newC01Pipe(c, watch)
	p.runW1()
	p.runW2()

	// ---- W3: pacing of the consul loops
	runC01Pacing(c)

	hfs, tfs := p.healthFilters, p.tagFilters
	if len(hfs) == 0 || len(tfs) == 0 {
		// the send chain does not show them (W1 has reported that): look for the roles in the package
		for _, f := range c.fnsWhere(consulPkg, func(f *ssa.Function) bool { return f.Parent() == nil && c01IsStage(f) }) {
			r := p.intrinsic(f)
			if len(hfs) == 0 && r&c01RoleHealth != 0 {
				hfs = append(hfs, f)
			}
			if len(tfs) == 0 && r&c01RoleTag != 0 && r&c01RoleHealth == 0 {
				tfs = append(tfs, f)
			}
		}
	}
	if len(hfs) == 0 {
		c.undecided("C01.F1", "anchor|health filter (by role)", "no function of registry/consul takes and returns a list of health checks and looks at their Status")
	}
	for _, hf := range hfs {
		runC01Health(c, hf)
	}
	if len(tfs) == 0 {
		c.undecided("C01.F3", "anchor|tag filter (by role)", "no function of registry/consul takes and returns a list of health checks and looks at their ServiceTags")
	}
	for _, tf := range tfs {
		runC01Tag(c, tf)
	}
	if len(p.builders) == 0 {
		c.undecided("C01.K1", "anchor|config builder (by role)", "no function turns the filtered health checks into the text sent to the updater")
	}
	for _, b := range p.builders {
		runC01K1(c, b)
		runC01M1(c, b)
	}
	runC01B1(c)
	c01Debug(c)
}

func c01Debug(c *Ctx) {
	if os.Getenv("C01_DEBUG") == "" {
		return
	}
	for _, o := range c.Obs {
		fmt.Fprintf(os.Stderr, "  %-10s %-8s %s @%s\n", o.Status, o.Rule, o.Construct, o.Pos)
	}
}

// ---- anchors by role ----------------------------------------------------------------------------------------------

func c01IsStateInstr(i ssa.Instruction) bool {
	call, ok := i.(*ssa.Call)
	return ok && c01CalleeHas(&call.Call, func(n string) bool { return n == "(*"+apiPkg+".Health).State" })
}

func c01IsTextChan(t types.Type) bool {
	ch, ok := t.Underlying().(*types.Chan)
	if !ok || ch.Dir() == types.RecvOnly {
		return false
	}
	b, ok := ch.Elem().Underlying().(*types.Basic)
	return ok && b.Kind() == types.String
}

// c01WatchEntry: the function that watches the health state: it has a chan string parameter and (itself or through
// helpers) queries Health().State. ServiceMonitor.Watch if that plays the role, otherwise the outermost such function.
func c01WatchEntry(c *Ctx) *ssa.Function {
	isCand := func(f *ssa.Function) bool {
		if f.Parent() != nil || len(f.Blocks) == 0 {
			return false
		}
		has := false
		for _, p := range f.Params {
			if c01IsTextChan(p.Type()) {
				has = true
			}
		}
		return has && mayExec(f, c01IsStateInstr, 0)
	}
	if f := c.method(consulPkg, "ServiceMonitor", "Watch"); f != nil && isCand(f) {
		return f
	}
	cands := c.fnsWhere(consulPkg, isCand)
	for _, f := range cands {
		calledByCand := false
		for _, s := range gSites[f] {
			for _, g := range cands {
				if g != f && s.Parent() == g {
					calledByCand = true
				}
			}
		}
		if !calledByCand {
			return f
		}
	}
	return nil
}

// ---- W1: provenance of the sent text ------------------------------------------------------------------------------

const (
	c01RoleTag    = 1
	c01RoleHealth = 2
)

// c01Prov: where a list of health checks (or the text built from it) comes from.
type c01Prov struct {
	neutral bool               // no content: nil, make(...), an empty literal
	roles   int                // filter roles applied on EVERY path from the origins
	origins map[*ssa.Call]bool // Health().State replies reached
	bad     []string           // contributions that are not a reply of this query
}

func c01Neutral() c01Prov { return c01Prov{neutral: true} }

func c01Bad(why string) c01Prov { return c01Prov{bad: []string{why}} }

func c01MeetProv(a, b c01Prov) c01Prov {
	if a.neutral {
		return b
	}
	if b.neutral {
		return a
	}
	out := c01Prov{roles: a.roles & b.roles, origins: map[*ssa.Call]bool{}}
	for k := range a.origins {
		out.origins[k] = true
	}
	for k := range b.origins {
		out.origins[k] = true
	}
	out.bad = append(append([]string{}, a.bad...), b.bad...)
	return out
}

type c01Pipe struct {
	c     *Ctx
	watch *ssa.Function
	reg   []*ssa.Function

	roleMemo      map[*ssa.Function]int
	tagFilters    []*ssa.Function
	healthFilters []*ssa.Function
	builders      []*ssa.Function
	stageCalls    []*ssa.Call       // calls on the chain from the reply to the sent text
	phis          map[*ssa.Phi]bool // merges on that chain
	sends         []*ssa.Send       // sends on the updates channel
	feeds         []*ssa.Send       // sends on hand-over channels inside the watcher through which a snapshot reaches the sent text
	ctl           []ssa.Value       // conditions that decide whether a send happens
	active        map[c01ProvKey]bool
}

type c01ProvKey struct {
	v    ssa.Value
	call *ssa.Call
}

func newC01Pipe(c *Ctx, watch *ssa.Function) *c01Pipe {
	return &c01Pipe{c: c, watch: watch, reg: c.region(watch), roleMemo: map[*ssa.Function]int{}, phis: map[*ssa.Phi]bool{}, active: map[c01ProvKey]bool{}}
}

func c01AddFn(list *[]*ssa.Function, f *ssa.Function) {
	for _, g := range *list {
		if g == f {
			return
		}
	}
	*list = append(*list, f)
}

// intrinsic: the filter roles a stage plays itself (in its own region, not in the stages it calls): it looks at the
// ServiceTags of the checks (tag filter) or at their Status (health filter).
func (p *c01Pipe) intrinsic(f *ssa.Function) int {
	if r, ok := p.roleMemo[f]; ok {
		return r
	}
	reg := c01StageRegion(f)
	r := 0
	if c01ReadsField(reg, "ServiceTags") {
		r |= c01RoleTag
	}
	if c01ReadsField(reg, "Status") {
		r |= c01RoleHealth
	}
	p.roleMemo[f] = r
	return r
}

func (p *c01Pipe) noteRoles(f *ssa.Function, r int) {
	if r&c01RoleTag != 0 {
		c01AddFn(&p.tagFilters, f)
	}
	if r&c01RoleHealth != 0 {
		c01AddFn(&p.healthFilters, f)
	}
}

func c01FrameCall(fr *c01Frame) *ssa.Call {
	if fr == nil {
		return nil
	}
	return fr.call
}

func c01ParamIndex(x *ssa.Parameter) int {
	for k, q := range x.Parent().Params {
		if q == x {
			return k
		}
	}
	return -1
}

// storesInto: the values stored into a local cell / array (directly or through element addresses).
func c01StoresInto(a ssa.Value) []ssa.Value {
	var out []ssa.Value
	refs := a.Referrers()
	if refs == nil {
		return nil
	}
	for _, r := range *refs {
		switch y := r.(type) {
		case *ssa.Store:
			if y.Addr == a {
				out = append(out, y.Val)
			}
		case *ssa.IndexAddr:
			for _, r2 := range *y.Referrers() {
				if st, ok := r2.(*ssa.Store); ok && st.Addr == y {
					out = append(out, st.Val)
				}
			}
		}
	}
	return out
}

// viaParam: a parameter stands for the argument of the call we came in through, or of every static call site.
func (p *c01Pipe) viaParam(x *ssa.Parameter, fr *c01Frame, depth int, rec func(ssa.Value, *c01Frame, int) c01Prov) c01Prov {
	fn := x.Parent()
	idx := c01ParamIndex(x)
	if fr != nil {
		if fr.call.Call.StaticCallee() == fn && idx >= 0 && idx < len(fr.call.Call.Args) {
			return rec(fr.call.Call.Args[idx], fr.up, depth+1)
		}
		return c01Bad("parameter " + x.Name() + " of " + fnKey(fn) + " reached outside its call")
	}
	sites := gSites[fn]
	if len(sites) == 0 || !onlyStaticallyCalled(fn) || idx < 0 {
		return c01Bad("parameter " + x.Name() + " of " + fnKey(fn) + " (callers not known)")
	}
	out := c01Neutral()
	for _, s := range sites {
		if cc := s.Common(); idx < len(cc.Args) {
			out = c01MeetProv(out, rec(cc.Args[idx], nil, depth+1))
		}
	}
	return out
}

func (p *c01Pipe) viaFreeVar(x *ssa.FreeVar, depth int, load bool, rec func(ssa.Value, *c01Frame, int) c01Prov) c01Prov {
	fn := x.Parent()
	if fn == nil || fn.Parent() == nil {
		return c01Bad("captured variable " + x.Name())
	}
	idx := -1
	for k, fv := range fn.FreeVars {
		if fv == x {
			idx = k
		}
	}
	out := c01Neutral()
	n := 0
	eachInstr(fn.Parent(), func(i ssa.Instruction) {
		mc, ok := i.(*ssa.MakeClosure)
		if !ok || mc.Fn != fn || idx < 0 || idx >= len(mc.Bindings) {
			return
		}
		n++
		b := mc.Bindings[idx]
		if load {
			// the closure reads the variable through its cell
			if _, isAlloc := b.(*ssa.Alloc); !isAlloc {
				out = c01MeetProv(out, c01Bad("captured variable "+x.Name()))
				return
			}
			for _, sv := range c01StoresInto(b) {
				out = c01MeetProv(out, rec(sv, nil, depth+1))
			}
			return
		}
		out = c01MeetProv(out, rec(b, nil, depth+1))
	})
	if n == 0 {
		return c01Bad("captured variable " + x.Name())
	}
	return out
}

// prov: the provenance of a list of health checks (or one check).
func (p *c01Pipe) prov(v ssa.Value, fr *c01Frame, depth int) c01Prov {
	if v == nil || depth > 80 {
		return c01Bad("too deep")
	}
	key := c01ProvKey{v, c01FrameCall(fr)}
	if p.active[key] {
		return c01Neutral() // a cycle adds nothing new
	}
	p.active[key] = true
	defer delete(p.active, key)

	meetAll := func(vs []ssa.Value) c01Prov {
		out := c01Neutral()
		for _, x := range vs {
			out = c01MeetProv(out, p.prov(x, fr, depth+1))
		}
		return out
	}
	switch x := v.(type) {
	case *ssa.Const, *ssa.MakeSlice:
		return c01Neutral()
	case *ssa.Alloc:
		return meetAll(c01StoresInto(x))
	case *ssa.Slice:
		return p.prov(x.X, fr, depth+1)
	case *ssa.ChangeType:
		return p.prov(x.X, fr, depth+1)
	case *ssa.Convert:
		return p.prov(x.X, fr, depth+1)
	case *ssa.MakeInterface:
		return p.prov(x.X, fr, depth+1)
	case *ssa.ChangeInterface:
		return p.prov(x.X, fr, depth+1)
	case *ssa.TypeAssert:
		return p.prov(x.X, fr, depth+1)
	case *ssa.Phi:
		p.phis[x] = true
		return meetAll(x.Edges)
	case *ssa.IndexAddr:
		return p.prov(x.X, fr, depth+1)
	case *ssa.Index:
		return p.prov(x.X, fr, depth+1)
	case *ssa.UnOp:
		if x.Op == token.ARROW {
			return p.provRecv(x.X, depth, p.prov)
		}
		if x.Op != token.MUL {
			break
		}
		switch a := x.X.(type) {
		case *ssa.Alloc:
			return meetAll(c01StoresInto(a))
		case *ssa.IndexAddr:
			return p.prov(a.X, fr, depth+1)
		case *ssa.FreeVar:
			return p.viaFreeVar(a, depth, true, p.prov)
		case *ssa.FieldAddr:
			// a field of a struct that is made for this snapshot (a reply wrapped in a small type)
			return p.provLoad(x, "", fr, depth, p.prov)
		}
		return c01Bad("a value loaded from " + accessPath(x.X) + " (state kept outside this snapshot)")
	case *ssa.Field:
		return p.provField(x.X, fmt.Sprintf("/%d", x.Field), fr, depth+1, p.prov)
	case *ssa.Extract:
		if call, ok := x.Tuple.(*ssa.Call); ok {
			return p.provCall(call, x.Index, fr, depth)
		}
		if rc, ok := x.Tuple.(*ssa.UnOp); ok && rc.Op == token.ARROW && x.Index == 0 {
			return p.provRecv(rc.X, depth, p.prov)
		}
	case *ssa.Call:
		return p.provCall(x, 0, fr, depth)
	case *ssa.Parameter:
		return p.viaParam(x, fr, depth, p.prov)
	case *ssa.FreeVar:
		return p.viaFreeVar(x, depth, false, p.prov)
	}
	return c01Bad("a value that is not derived from the reply: " + v.Name() + " in " + fnKey(c01ParentOf(v)))
}

// provField: the provenance of component path of the struct value v.
func (p *c01Pipe) provField(v ssa.Value, path string, fr *c01Frame, depth int, rec func(ssa.Value, *c01Frame, int) c01Prov) c01Prov {
	if v == nil || depth > 80 {
		return c01Bad("too deep")
	}
	switch x := v.(type) {
	case *ssa.Phi:
		out := c01Neutral()
		for _, e := range x.Edges {
			out = c01MeetProv(out, p.provField(e, path, fr, depth+1, rec))
		}
		return out
	case *ssa.ChangeType:
		return p.provField(x.X, path, fr, depth+1, rec)
	case *ssa.Field:
		return p.provField(x.X, fmt.Sprintf("/%d", x.Field)+path, fr, depth+1, rec)
	case *ssa.Const:
		return c01Neutral()
	case *ssa.UnOp:
		if x.Op == token.MUL {
			return p.provLoad(x, path, fr, depth, rec)
		}
	case *ssa.Parameter:
		return p.viaParam(x, fr, depth, func(a ssa.Value, f *c01Frame, d int) c01Prov { return p.provField(a, path, f, d, rec) })
	case *ssa.Call, *ssa.Extract:
		call, idx := (*ssa.Call)(nil), 0
		if c, ok := x.(*ssa.Call); ok {
			call = c
		} else if e := x.(*ssa.Extract); true {
			call, _ = e.Tuple.(*ssa.Call)
			idx = e.Index
		}
		if call == nil {
			break
		}
		sc := call.Call.StaticCallee()
		if sc == nil || !isRepoFn(sc) || len(sc.Blocks) == 0 || fr.depth() >= 5 {
			break
		}
		inner := &c01Frame{call, fr}
		out := c01Neutral()
		eachInstr(sc, func(i ssa.Instruction) {
			if r, ok := i.(*ssa.Return); ok && idx < len(r.Results) {
				out = c01MeetProv(out, p.provField(r.Results[idx], path, inner, depth+1, rec))
			}
		})
		return out
	}
	return c01Bad("a component of a value that is not derived from the reply: " + v.Name() + " in " + fnKey(c01ParentOf(v)))
}

// provLoad: the provenance of what is stored in *x.X (+path) - only for objects that are made anew for every snapshot
// (a struct literal returned by the fetching helper, a local of the loop body), or for a cell that is written in this
// round before it is read (a store in the same function dominates the load). Any other cell that outlives a snapshot is
// state.
func (p *c01Pipe) provLoad(x *ssa.UnOp, path string, fr *c01Frame, depth int, rec func(ssa.Value, *c01Frame, int) c01Prov) c01Prov {
	t := newC01Tr(p.c)
	locs := t.locsOf(x.X, c01CxOf(fr))
	if len(locs) == 0 {
		return c01Bad("a value loaded from " + accessPath(x.X) + " (state kept outside this snapshot)")
	}
	loops := p.snapshotLoops()
	out := c01Neutral()
	for _, loc := range locs {
		a, isAlloc := loc.root.(*ssa.Alloc)
		fresh := false
		if isAlloc {
			for _, ls := range loops {
				for _, l := range ls {
					if c01FreshPerRound(a, l, nil) {
						fresh = true
					}
				}
			}
		}
		stored := t.storedAt(loc.root, loc.path+path)
		if !fresh && loc.known() {
			for _, sv := range stored {
				if sv.path == "" && sv.st.Parent() == x.Parent() && dominatesInstr(sv.st, x) {
					fresh = true // written in this round, on every path to the load
				}
				if sv.path == "" && !fresh && c01WrittenEarlierInRound(sv.st, x, loops) {
					fresh = true // the same, store and load in helpers that the round calls one after the other
				}
			}
		}
		if !fresh {
			return c01Bad("a value loaded from " + accessPath(x.X) + " (state kept outside this snapshot)")
		}
		for _, sv := range stored {
			sfr := c01FrameOf(sv.cx)
			if sv.cx == nil && sv.st.Parent() == x.Parent() {
				sfr = fr
			}
			if sv.path == "" {
				out = c01MeetProv(out, rec(sv.v, sfr, depth+1))
			} else {
				out = c01MeetProv(out, p.provField(sv.v, sv.path, sfr, depth+1, rec))
			}
		}
	}
	return out
}

// c01WrittenEarlierInRound: in a loop that takes the snapshots, every instruction of the body that leads to the load ld
// (the load itself, the call of a helper that may execute it) is dominated by an instruction of the body that performs
// the store st on all its paths (the store itself, the call of a helper that must execute it): the steps of a round are
// methods that hand the list over through a field of the watcher.
func c01WrittenEarlierInRound(st *ssa.Store, ld *ssa.UnOp, loops map[*ssa.Function][]*loop) bool {
	mustSt := liftMust(func(i ssa.Instruction) bool { return i == ssa.Instruction(st) }, 2)
	mayLd := liftMay(func(i ssa.Instruction) bool { return i == ssa.Instruction(ld) })
	for fn, ls := range loops {
		for _, l := range ls {
			var stores, loads []ssa.Instruction
			for _, b := range fn.Blocks {
				if !l.Body[b] {
					continue
				}
				for _, in := range b.Instrs {
					if _, isGo := in.(*ssa.Go); isGo {
						continue
					}
					if mustSt(in) {
						stores = append(stores, in)
					}
					if mayLd(in) {
						loads = append(loads, in)
					}
				}
			}
			if len(loads) == 0 || len(stores) == 0 {
				continue
			}
			all := true
			for _, li := range loads {
				ok := false
				for _, si := range stores {
					if si != li && dominatesInstr(si, li) {
						ok = true
					}
				}
				all = all && ok
			}
			if all {
				return true
			}
		}
	}
	return false
}

func c01ParentOf(v ssa.Value) *ssa.Function {
	if i, ok := v.(ssa.Instruction); ok {
		return i.Parent()
	}
	return v.Parent()
}

func (p *c01Pipe) provCall(call *ssa.Call, idx int, fr *c01Frame, depth int) c01Prov {
	if c01IsStateInstr(call) {
		if idx != 0 {
			return c01Bad("not the list of checks of the reply")
		}
		return c01Prov{origins: map[*ssa.Call]bool{call: true}}
	}
	n := typeArgs.ReplaceAllString(calleeName(&call.Call), "")
	if n == "builtin.append" || strings.HasPrefix(n, "slices.") {
		out := c01Neutral()
		k := 0
		for _, a := range call.Call.Args {
			if c01IsChecks(a.Type()) || c01IsCheck(a.Type()) {
				k++
				out = c01MeetProv(out, p.prov(a, fr, depth+1))
			}
		}
		if k == 0 {
			return c01Bad("result of " + n)
		}
		return out
	}
	sc := call.Call.StaticCallee()
	if sc == nil || !isRepoFn(sc) || len(sc.Blocks) == 0 || fr.depth() >= 5 {
		return c01Bad("result of " + n + " (not a repository function)")
	}
	p.stageCalls = append(p.stageCalls, call)
	roles := p.intrinsic(sc)
	p.noteRoles(sc, roles)
	inner := &c01Frame{call, fr}
	out := c01Neutral()
	eachInstr(sc, func(i ssa.Instruction) {
		if r, ok := i.(*ssa.Return); ok && idx < len(r.Results) {
			out = c01MeetProv(out, p.prov(r.Results[idx], inner, depth+1))
		}
	})
	if !out.neutral {
		out.roles |= roles
	}
	return out
}

// provRecv (round 4): a value received from a channel of the watcher's own making (a hand-over between the loop and a
// goroutine of the watcher: `work <- passing` ... `for p := range work`) is what the watcher's region sends on it; the
// sends are remembered so that W2 asks of them what it asks of the send on the updates channel.
func (p *c01Pipe) provRecv(ch ssa.Value, depth int, rec func(ssa.Value, *c01Frame, int) c01Prov) c01Prov {
	if c01LeavesWatcher(p.c, ch) {
		return c01Bad("a text received from a channel that is not a hand-over inside the watcher")
	}
	out := c01Neutral()
	n := 0
	eachInstrOf(p.reg, func(_ *ssa.Function, i ssa.Instruction) {
		snd, ok := i.(*ssa.Send)
		if !ok || !c01SameChan(ch, snd.Chan) {
			return
		}
		n++
		known := false
		for _, f := range p.feeds {
			known = known || f == snd
		}
		if !known {
			p.feeds = append(p.feeds, snd)
		}
		out = c01MeetProv(out, rec(snd.X, nil, depth+1))
	})
	if n == 0 {
		return c01Bad("a value received from a channel on which the watcher does not send")
	}
	return out
}

// prefilter: the filter roles applied inside a builder to its parameter before anything else looks at it: the only
// use of the value is as the argument of a filter stage, whose result is used in the same way or freely.
func (p *c01Pipe) prefilter(v ssa.Value, depth int) int {
	if depth > 3 {
		return 0
	}
	var uses []ssa.Instruction
	var collect func(x ssa.Value)
	collect = func(x ssa.Value) {
		refs := x.Referrers()
		if refs == nil {
			return
		}
		for _, r := range *refs {
			switch y := r.(type) {
			case *ssa.DebugRef:
			case *ssa.ChangeType:
				collect(y)
			case *ssa.Call:
				if n := calleeName(&y.Call); n == "builtin.len" || n == "builtin.cap" {
					continue
				}
				uses = append(uses, r)
			default:
				uses = append(uses, r)
			}
		}
	}
	collect(v)
	if len(uses) != 1 {
		return 0
	}
	call, ok := uses[0].(*ssa.Call)
	if !ok {
		return 0
	}
	sc := call.Call.StaticCallee()
	if sc == nil || !c01IsStage(sc) {
		return 0
	}
	roles := p.intrinsic(sc)
	p.noteRoles(sc, roles)
	p.stageCalls = append(p.stageCalls, call)
	var res ssa.Value
	if c01IsChecks(call.Type()) {
		res = call
	} else if refs := call.Referrers(); refs != nil {
		for _, r := range *refs {
			if ex, ok := r.(*ssa.Extract); ok && c01IsChecks(ex.Type()) {
				res = ex
			}
		}
	}
	if res == nil {
		return roles
	}
	return roles | p.prefilter(res, depth+1)
}

// textProv: the provenance of the text sent to the updater: back to the call of a builder (a repository function
// that takes a list of health checks), through helpers that merely return it.
func (p *c01Pipe) textProv(v ssa.Value, fr *c01Frame, depth int) c01Prov {
	if v == nil || depth > 40 {
		return c01Bad("too deep")
	}
	key := c01ProvKey{v, c01FrameCall(fr)}
	if p.active[key] {
		return c01Neutral()
	}
	p.active[key] = true
	defer delete(p.active, key)
	switch x := v.(type) {
	case *ssa.Phi:
		p.phis[x] = true
		out := c01Neutral()
		for _, e := range x.Edges {
			out = c01MeetProv(out, p.textProv(e, fr, depth+1))
		}
		return out
	case *ssa.ChangeType:
		return p.textProv(x.X, fr, depth+1)
	case *ssa.Extract:
		if call, ok := x.Tuple.(*ssa.Call); ok {
			return p.textCall(call, x.Index, fr, depth)
		}
		if rc, ok := x.Tuple.(*ssa.UnOp); ok && rc.Op == token.ARROW && x.Index == 0 {
			return p.provRecv(rc.X, depth, p.textProv)
		}
	case *ssa.Call:
		return p.textCall(x, 0, fr, depth)
	case *ssa.Parameter:
		return p.viaParam(x, fr, depth, p.textProv)
	case *ssa.FreeVar:
		return p.viaFreeVar(x, depth, false, p.textProv)
	case *ssa.UnOp:
		if x.Op == token.ARROW {
			return p.provRecv(x.X, depth, p.textProv)
		}
		if x.Op == token.MUL {
			switch a := x.X.(type) {
			case *ssa.Alloc:
				out := c01Neutral()
				for _, sv := range c01StoresInto(a) {
					out = c01MeetProv(out, p.textProv(sv, fr, depth+1))
				}
				return out
			case *ssa.FreeVar:
				return p.viaFreeVar(a, depth, true, p.textProv)
			case *ssa.FieldAddr:
				pr := p.provLoad(x, "", fr, depth, p.textProv)
				for k, b := range pr.bad {
					pr.bad[k] = strings.Replace(b, "a value loaded from", "a text loaded from", 1)
				}
				return pr
			}
			return c01Bad("a text loaded from " + accessPath(x.X) + " (state kept outside this snapshot)")
		}
	case *ssa.Field:
		return p.provField(x.X, fmt.Sprintf("/%d", x.Field), fr, depth+1, p.textProv)
	case *ssa.Const:
		return c01Bad("a constant text " + x.String())
	}
	return c01Bad("a text that is not the result of the config builder: " + v.Name())
}

func (p *c01Pipe) textCall(call *ssa.Call, idx int, fr *c01Frame, depth int) c01Prov {
	if n := calleeName(&call.Call); strings.HasPrefix(n, "strings.") && !call.Call.IsInvoke() {
		// strings.TrimSpace(text) and the like: the text arguments
		out := c01Neutral()
		k := 0
		for _, a := range call.Call.Args {
			if b, ok := a.Type().Underlying().(*types.Basic); ok && b.Kind() == types.String {
				if _, isK := a.(*ssa.Const); isK {
					continue
				}
				k++
				out = c01MeetProv(out, p.textProv(a, fr, depth+1))
			}
		}
		if k > 0 {
			return out
		}
	}
	sc := call.Call.StaticCallee()
	if sc == nil || !isRepoFn(sc) || len(sc.Blocks) == 0 || fr.depth() >= 5 {
		return c01Bad("the result of " + calleeName(&call.Call) + " (not a repository function)")
	}
	nList := 0
	out := c01Neutral()
	for k, a := range call.Call.Args {
		if !c01IsChecks(a.Type()) {
			continue
		}
		nList++
		pr := p.prov(a, fr, depth+1)
		if !pr.neutral && k < len(sc.Params) {
			pr.roles |= p.prefilter(sc.Params[k], 0)
		}
		out = c01MeetProv(out, pr)
	}
	if nList > 0 {
		c01AddFn(&p.builders, sc)
		p.stageCalls = append(p.stageCalls, call)
		if out.neutral {
			return c01Bad("the builder is given an empty list")
		}
		return out
	}
	// a helper that returns the text
	inner := &c01Frame{call, fr}
	eachInstr(sc, func(i ssa.Instruction) {
		if r, ok := i.(*ssa.Return); ok && idx < len(r.Results) {
			out = c01MeetProv(out, p.textProv(r.Results[idx], inner, depth+1))
		}
	})
	return out
}

func (p *c01Pipe) runW1() {
	c := p.c
	eachInstrOf(p.reg, func(f *ssa.Function, i ssa.Instruction) {
		snd, ok := i.(*ssa.Send)
		if !ok || !c01IsTextChan(snd.Chan.Type()) {
			return
		}
		isParam := func(v ssa.Value) bool {
			q, ok := v.(*ssa.Parameter)
			return ok && q.Parent() == p.watch
		}
		if !derives(snd.Chan, isParam) {
			return
		}
		p.sends = append(p.sends, snd)
		pr := p.textProv(snd.X, nil, 0)
		var missing []string
		if pr.neutral || len(pr.origins) == 0 {
			missing = append(missing, "it is not derived from a Health().State reply")
		}
		if pr.roles&c01RoleTag == 0 {
			missing = append(missing, "the tag filter is not applied on every path")
		}
		if pr.roles&c01RoleHealth == 0 {
			missing = append(missing, "the health filter is not applied on every path")
		}
		for _, b := range pr.bad {
			missing = append(missing, "it contains "+b)
		}
		detail := "the text sent to the table updater must be built from the health filter applied to the tag filter applied to this iteration's Health().State reply; bypassing a stage publishes unhealthy, maintenance-mode or untagged instances"
		if len(missing) > 0 {
			detail += " [" + strings.Join(missing, "; ") + "]"
		}
		c.check("C01.W1", fnKey(p.watch)+"|sent config = builder(healthFilter(tagFilter(Health().State reply)))", snd.Pos(), len(missing) == 0, detail)
	})
	c.atLeast("C01.W1", "sends on the updates channel", len(p.sends), 1)
}

// ---- W2: nothing but the query index survives a snapshot; every successful reply is published ---------------------

// c01MayQuery: the instruction is the Health().State query or a (synchronous) call of a helper that may issue it.
func c01MayQuery(i ssa.Instruction) bool {
	return liftMay(c01IsStateInstr)(i)
}

// snapshotLoops: loops of the watcher's region whose body issues the query.
func (p *c01Pipe) snapshotLoops() map[*ssa.Function][]*loop {
	out := map[*ssa.Function][]*loop{}
	for _, f := range p.reg {
		for _, l := range loopsOf(f) {
			has := false
			for b := range l.Body {
				for _, i := range b.Instrs {
					if _, isGo := i.(*ssa.Go); !isGo && c01MayQuery(i) {
						has = true
					}
				}
			}
			if has {
				out[f] = append(out[f], l)
			}
		}
	}
	return out
}

// c01Controls: the two-way branches that decide whether instruction s is executed before the loop l (or, without a
// loop, the function) is left or restarted.
func c01Controls(s ssa.Instruction, l *loop) []*ssa.If {
	fn := s.Parent()
	skips := func(start *ssa.BasicBlock) bool {
		if l != nil && (start == l.Head || !l.Body[start]) {
			return true
		}
		seen := map[*ssa.BasicBlock]bool{start: true}
		stack := []*ssa.BasicBlock{start}
		for len(stack) > 0 {
			b := stack[len(stack)-1]
			stack = stack[:len(stack)-1]
			blocked := false
			for _, in := range b.Instrs {
				if in == s {
					blocked = true
					break
				}
				if _, isRet := in.(*ssa.Return); isRet {
					return true
				}
			}
			if blocked {
				continue
			}
			for _, sx := range b.Succs {
				if l != nil && (sx == l.Head || !l.Body[sx]) {
					return true
				}
				if !seen[sx] {
					seen[sx] = true
					stack = append(stack, sx)
				}
			}
		}
		return false
	}
	var out []*ssa.If
	for _, x := range fn.Blocks {
		if l != nil && !l.Body[x] {
			continue
		}
		if len(x.Instrs) == 0 {
			continue
		}
		iff, ok := x.Instrs[len(x.Instrs)-1].(*ssa.If)
		if !ok || x.Succs[0] == x.Succs[1] {
			continue
		}
		if skips(x.Succs[0]) != skips(x.Succs[1]) {
			out = append(out, iff)
		}
	}
	return out
}

func c01IsErrTest(v ssa.Value) bool {
	v, _ = c01StripNot(v, true)
	if call, ok := v.(*ssa.Call); ok && len(call.Call.Args) > 0 {
		// failed(err), errors.Is(err, x): a verdict on the error only
		for _, a := range call.Call.Args {
			if typeStr(a.Type()) != "error" {
				if _, isK := a.(*ssa.Const); !isK {
					if _, isG := a.(*ssa.Global); !isG {
						if u, isU := a.(*ssa.UnOp); !isU || typeStr(u.Type()) != "error" {
							return false
						}
					}
				}
			}
		}
		return true
	}
	b, ok := v.(*ssa.BinOp)
	if !ok || (b.Op != token.EQL && b.Op != token.NEQ) {
		return false
	}
	var other ssa.Value
	switch {
	case isNilConst(b.Y):
		other = b.X
	case isNilConst(b.X):
		other = b.Y
	default:
		return false
	}
	return typeStr(other.Type()) == "error"
}

// c01IsRecvOK: the condition is the ok of a channel receive (`for x := range ch`, `x, ok := <-ch`): the loop of a
// goroutine that is fed through a channel ends when the channel is closed - not a verdict on a snapshot.
func c01IsRecvOK(v ssa.Value) bool {
	v, _ = c01StripNot(v, true)
	ex, ok := v.(*ssa.Extract)
	if !ok || ex.Index != 1 {
		return false
	}
	rc, ok := ex.Tuple.(*ssa.UnOp)
	return ok && rc.Op == token.ARROW && rc.CommaOk
}

func (p *c01Pipe) runW2() {
	c := p.c
	loops := p.snapshotLoops()
	innermost := func(f *ssa.Function, b *ssa.BasicBlock) *loop {
		var best *loop
		for _, l := range loops[f] {
			if l.Body[b] && (best == nil || len(l.Body) < len(best.Body)) {
				best = l
			}
		}
		return best
	}
	// the conditions that decide whether a send happens, up to the loop that issues the query
	for _, snd := range append(append([]*ssa.Send{}, p.sends...), p.feeds...) {
		var s ssa.Instruction = snd
		for hop := 0; hop < 4; hop++ {
			f := s.Parent()
			l := innermost(f, s.Block())
			for _, iff := range c01Controls(s, l) {
				p.ctl = append(p.ctl, iff.Cond)
				pos := iff.Pos()
				if !pos.IsValid() {
					pos = iff.Cond.Pos()
				}
				c.check("C01.W2", fnKey(p.watch)+"|every successful reply is published", pos, c01IsErrTest(iff.Cond) || c01ErrVerdict(iff, s, l) || c01IsRecvOK(iff.Cond),
					"whether the configuration of a snapshot is sent may depend only on the error of the query; a condition on anything else (an earlier snapshot, the index, the instance set) lets the table miss a change of the registry - the route commands depend on the catalog entries too, not only on what the condition looks at")
			}
			if l != nil {
				break
			}
			sites := gSites[f]
			if len(sites) != 1 || !onlyStaticallyCalled(f) {
				break
			}
			s = sites[0]
		}
	}
	n := 0
	for f, ls := range loops {
		for _, l := range ls {
			n++
			for _, in := range l.Head.Instrs {
				phi, ok := in.(*ssa.Phi)
				if !ok {
					continue
				}
				ts := typeStr(phi.Type())
				okT := ts == "uint64" || ts == "*"+apiPkg+".QueryOptions"
				if !okT {
					// harmless when it influences neither what is sent nor whether it is sent
					isPhi := func(v ssa.Value) bool { return v == phi }
					infl := p.phis[phi]
					for _, snd := range p.sends {
						infl = infl || derives(snd.X, isPhi)
					}
					for _, cond := range p.ctl {
						infl = infl || derives(cond, isPhi)
					}
					for _, call := range p.stageCalls {
						for _, a := range call.Call.Args {
							infl = infl || derives(a, isPhi)
						}
					}
					okT = !infl
				}
				c.check("C01.W2", fnKey(f)+"|loop-carried "+phi.Comment, phi.Pos(), okT,
					"the watch loop may carry only the query index across iterations; carrying "+ts+" into what is sent (or into the decision to send) lets state from an earlier registry snapshot leak into a later configuration (an instance that became unhealthy could survive)")
			}
		}
	}
	c.atLeast("C01.W2", "loops that issue the Health().State query", n, 1)
}

// c01ErrVerdict: the branch iff decides about instruction s by the verdict of a repository helper (ok, failed(err))
// that gives the verdict on which s is skipped only when an error is non-nil.
func c01ErrVerdict(iff *ssa.If, s ssa.Instruction, l *loop) bool {
	x := iff.Block()
	isErrVal := func(v ssa.Value) bool { return typeStr(v.Type()) == "error" }
	for _, succ := range x.Succs {
		// the edge on which s is skipped: the one from which s is not reached any more within this round
		reaches := false
		seen := map[*ssa.BasicBlock]bool{succ: true}
		stack := []*ssa.BasicBlock{succ}
		if l != nil && (succ == l.Head || !l.Body[succ]) {
			stack = nil
		}
		for len(stack) > 0 && !reaches {
			b := stack[len(stack)-1]
			stack = stack[:len(stack)-1]
			for _, in := range b.Instrs {
				if in == s {
					reaches = true
				}
			}
			for _, sx := range b.Succs {
				if l != nil && (sx == l.Head || !l.Body[sx]) {
					continue
				}
				if !seen[sx] {
					seen[sx] = true
					stack = append(stack, sx)
				}
			}
		}
		if reaches {
			continue
		}
		ef, ok := c01EdgeFact(x, succ)
		if !ok {
			return false
		}
		found := false
		for _, g := range c01Implied(ef, 0) {
			if nn, ok := nilFact(g, isErrVal); ok && nn {
				found = true
			}
		}
		return found
	}
	return false
}
