package main

// C20.P3, reviewed residual (c20TokenResidual): WHICH token type guarantees the matched prefix. The lexer is a state
// machine: a state variable (a merge of constants of one integer type) is switched on, the branches assign the next
// state, and the returns sit in those branches. A state is "after the match" when every assignment of it happens
// under the comparison with the constant prefix or under a test for a state that is itself after the match; a token
// type carries the guarantee when every return of it happens under such a test. The analysis only speaks when it
// understands the lexer (it finds at least one token type with the guarantee); otherwise the residual keeps its older,
// coarser argument.

import (
	"go/token"
	"go/types"

	"golang.org/x/tools/go/ssa"
)

// c20TokenTypeAfterMatch: (understood, guaranteed) for the token-type constant k returned by lexer fn; minLen is the
// length a compared constant text must have to count as the match.
func c20TokenTypeAfterMatch(fn *ssa.Function, k *ssa.Const, minLen int) (understood, guaranteed bool) {
	kv, ok := constInt(k)
	if !ok || fn == nil || len(fn.Blocks) == 0 {
		return false, false
	}
	isMatch := func(v ssa.Value) bool {
		long := func(x ssa.Value) bool {
			s, ok := c20constText(x, 0)
			return ok && len(s) >= minLen && len(s) > 0
		}
		switch x := v.(type) {
		case *ssa.BinOp:
			return x.Op == token.EQL && (long(x.X) || long(x.Y))
		case *ssa.Call:
			switch stripTypeArgs(calleeName(&x.Call)) {
			case "strings.HasPrefix", "strings.EqualFold", "bytes.Equal", "bytes.HasPrefix", "bytes.EqualFold", "slices.Equal":
				for _, a := range x.Call.Args {
					if long(a) {
						return true
					}
				}
			}
		}
		return false
	}
	// assignments of constants to merges, by type: (type, value) -> the blocks where the constant enters a merge
	type tv struct {
		t string
		v int64
	}
	assigned := map[tv][]*ssa.BasicBlock{}
	opaque := map[string]bool{} // a merge of this type also receives something that is not a constant or a merge
	eachInstr(fn, func(i ssa.Instruction) {
		phi, ok := i.(*ssa.Phi)
		if !ok || !isIntType(phi.Type()) {
			return
		}
		ts := types.TypeString(phi.Type(), nil)
		for n, e := range phi.Edges {
			if n >= len(phi.Block().Preds) {
				opaque[ts] = true
				continue
			}
			switch y := e.(type) {
			case *ssa.Const:
				if c, ok := constInt(y); ok {
					assigned[tv{ts, c}] = append(assigned[tv{ts, c}], phi.Block().Preds[n])
				}
			case *ssa.Phi:
			default:
				opaque[ts] = true
			}
		}
	})
	post := map[tv]bool{}
	guarded := func(b *ssa.BasicBlock) bool {
		for _, f := range localFactsAt(b) {
			if !f.Truth {
				continue
			}
			if isMatch(f.Cond) {
				return true
			}
			cmp, ok := f.Cond.(*ssa.BinOp)
			if !ok || cmp.Op != token.EQL {
				continue
			}
			x, y := cmp.X, cmp.Y
			if _, isK := x.(*ssa.Const); isK {
				x, y = y, x
			}
			c, isK := constInt(y)
			if _, isPhi := x.(*ssa.Phi); !isPhi || !isK {
				continue
			}
			if post[tv{types.TypeString(x.Type(), nil), c}] {
				return true
			}
		}
		return false
	}
	for changed := true; changed; {
		changed = false
		for key, blocks := range assigned {
			if post[key] || opaque[key.t] {
				continue
			}
			all := true
			for _, b := range blocks {
				if !guarded(b) {
					all = false
				}
			}
			if all {
				post[key], changed = true, true
			}
		}
	}
	if len(post) == 0 {
		return false, false
	}
	// the returns of each token-type constant
	kt := types.TypeString(k.Type(), nil)
	okRet := map[int64]bool{}
	failed := false
	var visit func(v ssa.Value, at *ssa.BasicBlock, d int)
	visit = func(v ssa.Value, at *ssa.BasicBlock, d int) {
		switch y := v.(type) {
		case *ssa.Const:
			c, ok := constInt(y)
			if !ok {
				failed = true
				return
			}
			g := guarded(at)
			if prev, seen := okRet[c]; seen {
				okRet[c] = prev && g
			} else {
				okRet[c] = g
			}
		case *ssa.Phi:
			if d > 3 {
				failed = true
				return
			}
			for n, e := range y.Edges {
				if n >= len(y.Block().Preds) {
					failed = true
					return
				}
				visit(e, y.Block().Preds[n], d+1)
			}
		default:
			failed = true
		}
	}
	eachInstr(fn, func(i ssa.Instruction) {
		ret, ok := i.(*ssa.Return)
		if !ok {
			return
		}
		for _, r := range ret.Results {
			if types.TypeString(r.Type(), nil) == kt {
				visit(r, ret.Block(), 0)
			}
		}
	})
	if failed {
		return false, false
	}
	any := false
	for _, g := range okRet {
		if g {
			any = true
		}
	}
	if !any {
		return false, false
	}
	g, returned := okRet[kv]
	return true, returned && g
}
