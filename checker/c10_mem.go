package main

import (
	"fmt"
	"go/token"
	"go/types"

	"golang.org/x/tools/go/ssa"
)

// Memory for the C10 prover. A refactoring that keeps the read position of the parser in a cursor object
// (`type cursor []byte` with methods on *cursor, a struct with a []byte field) or the captured bytes in a field of a
// connection object moves values out of SSA registers into memory; what the prover knows about a value is then lost at
// every load. This file answers, for one load, "which values can this load observe?" - soundly or not at all:
//
//   - a LOCATION is a root pointer (an SSA value) plus a path of field / constant-array-index steps;
//   - walking BACKWARDS from the load over every control-flow path, the first event met on each path decides:
//     a store to the same location yields the stored value; an earlier load of the same location yields that load;
//     the instruction that creates the root (new / a local) yields the zero value; a call of a repository function that
//     receives the root is replaced by the same walk from each of its returns that is compatible with what is known
//     about its results at the point of the query (err == nil, ok == true); reaching the entry of the function with a
//     parameter as root continues at EVERY call site of the function (all callers must be known);
//   - anything that MAY write the location in between - a store through another pointer that can alias it by the
//     type rules below, a call that is not known to leave it alone, go/defer/select - makes the answer "unknown".
//
// Aliasing is decided by type, as the language guarantees it without package unsafe: two variables overlap only if
// one is a component of the other, so a write of a variable of type S can touch a variable of type T only if S
// contains T or T contains S (up to identical underlying types, which pointer conversion may exchange); two fields
// of the same struct type overlap only if they are the same field; a field whose address is never handed out can be
// written only through a field store or a store of a whole enclosing struct. Distinct locals never overlap.
//
// Trusted in addition: no data race on the objects of one connection (the cursor and the connection object are used
// by the goroutine that created them until the route lookup), no package unsafe / reflection writes in the repository
// code between the events.

type c10step struct {
	field bool
	idx   int64
	of    types.Type // the struct (array) type the step selects from, underlying
}

type c10loc struct {
	root ssa.Value
	path []c10step
	typ  types.Type // type of the variable at the location
}

func c10deref(t types.Type) types.Type {
	if p, ok := t.Underlying().(*types.Pointer); ok {
		return p.Elem()
	}
	return nil
}

// c10locOf resolves an address to root + path. Element addresses of slices and computed array indices are roots of
// their own (plain pointers).
func c10locOf(addr ssa.Value) (c10loc, bool) {
	el := c10deref(addr.Type())
	if el == nil {
		return c10loc{}, false
	}
	var rev []c10step
	cur := addr
	for hop := 0; hop < 8; hop++ {
		switch x := cur.(type) {
		case *ssa.FieldAddr:
			st := c10deref(x.X.Type())
			if st == nil {
				return c10loc{}, false
			}
			rev = append(rev, c10step{true, int64(x.Field), st.Underlying()})
			cur = x.X
			continue
		case *ssa.IndexAddr:
			if at := c10deref(x.X.Type()); at != nil {
				if _, isArr := at.Underlying().(*types.Array); isArr {
					if k, ok := constInt(x.Index); ok {
						rev = append(rev, c10step{false, k, at.Underlying()})
						cur = x.X
						continue
					}
				}
			}
		case *ssa.ChangeType:
			// (*T2)(p): the same address seen under another name of the same underlying type
			if c10deref(x.X.Type()) != nil {
				cur = x.X
				continue
			}
		}
		break
	}
	l := c10loc{root: cur, typ: el}
	for k := len(rev) - 1; k >= 0; k-- {
		l.path = append(l.path, rev[k])
	}
	return l, true
}

func c10samePath(a, b []c10step) bool {
	if len(a) != len(b) {
		return false
	}
	return c10prefix(a, b)
}

// c10prefix: a is a prefix of b.
func c10prefix(a, b []c10step) bool {
	if len(a) > len(b) {
		return false
	}
	for k := range a {
		if a[k].field != b[k].field || a[k].idx != b[k].idx {
			return false
		}
	}
	return true
}

func c10typeContains(a, b types.Type, depth int) bool {
	if a == nil || b == nil || depth > 6 {
		return true // unknown: assume the worst
	}
	if types.IdenticalIgnoreTags(a.Underlying(), b.Underlying()) {
		return true
	}
	switch u := a.Underlying().(type) {
	case *types.Struct:
		for i := 0; i < u.NumFields(); i++ {
			if c10typeContains(u.Field(i).Type(), b, depth+1) {
				return true
			}
		}
	case *types.Array:
		return c10typeContains(u.Elem(), b, depth+1)
	}
	return false
}

func c10typeOverlap(a, b types.Type) bool {
	return c10typeContains(a, b, 0) || c10typeContains(b, a, 0)
}

func (l c10loc) lastField() (types.Type, int64, bool) {
	if n := len(l.path); n > 0 && l.path[n-1].field {
		return l.path[n-1].of, l.path[n-1].idx, true
	}
	return nil, 0, false
}

// c10allFns: every function of the repository (set at the start of a run): the field-escape scan needs them all.
var c10allFns []*ssa.Function

var c10escMemo = map[string]bool{}

// c10fieldEscapes: somewhere in the repository the address of field idx of struct type st is used for something other
// than an immediate load or store (so a plain pointer may point at the field).
func c10fieldEscapes(st types.Type, idx int64) bool {
	key := fmt.Sprintf("%s#%d", typeStr(st), idx)
	if v, ok := c10escMemo[key]; ok {
		return v
	}
	esc := false
	onlyDirect := c10onlyDirect
	for _, f := range c10allFns {
		eachInstr(f, func(i ssa.Instruction) {
			fa, ok := i.(*ssa.FieldAddr)
			if !ok || esc || int64(fa.Field) != idx {
				return
			}
			s := c10deref(fa.X.Type())
			if s == nil || !types.IdenticalIgnoreTags(s.Underlying(), st) {
				return
			}
			if !onlyDirect(fa, 0) {
				esc = true
			}
		})
	}
	c10escMemo[key] = esc
	return esc
}

// c10onlyDirect: the address v is used only to load from and store to it (and its fields / elements): it is never
// stored, passed or captured, so no other code can reach the variable through it.
func c10onlyDirect(v ssa.Value, depth int) bool {
	if v.Referrers() == nil || depth > 4 {
		return false
	}
	for _, r := range *v.Referrers() {
		switch y := r.(type) {
		case *ssa.Store:
			if y.Addr != v {
				return false
			}
		case *ssa.UnOp:
			if y.Op != token.MUL {
				return false
			}
		case *ssa.DebugRef:
		case *ssa.FieldAddr:
			if y.X != v || !c10onlyDirect(y, depth+1) {
				return false
			}
		case *ssa.IndexAddr:
			if y.X != v || !c10onlyDirect(y, depth+1) {
				return false
			}
		default:
			return false
		}
	}
	return true
}

// c10mayAlias: can a write of location w touch location r? sameFn: both roots are values of the same function, so
// identical roots are the same pointer and distinct locals are distinct objects.
func c10mayAlias(w, r c10loc, sameFn bool) bool {
	if sameFn {
		if w.root == r.root {
			return c10prefix(w.path, r.path) || c10prefix(r.path, w.path)
		}
		_, a1 := w.root.(*ssa.Alloc)
		_, a2 := r.root.(*ssa.Alloc)
		if a1 && a2 {
			return false
		}
		// a local created by this activation cannot be what a pointer that existed before the activation started
		// (a parameter, a captured variable, a global) points to
		if (a1 && c10preexisting(r.root)) || (a2 && c10preexisting(w.root)) {
			return false
		}
	}
	wf, wi, wok := w.lastField()
	rf, ri, rok := r.lastField()
	switch {
	case wok && rok:
		if types.IdenticalIgnoreTags(wf, rf) {
			return wi == ri
		}
		return c10typeOverlap(wf, rf)
	case wok && !rok:
		return c10typeOverlap(w.typ, r.typ)
	case !wok && rok:
		return c10typeContains(w.typ, rf, 0) || (c10fieldEscapes(rf, ri) && c10typeOverlap(w.typ, r.typ))
	}
	return c10typeOverlap(w.typ, r.typ)
}

func c10preexisting(v ssa.Value) bool {
	switch v.(type) {
	case *ssa.Parameter, *ssa.FreeVar, *ssa.Global:
		return true
	}
	return false
}

// calls that write no memory a caller can name
var c10noWrite = map[string]bool{
	"builtin.len": true, "builtin.cap": true, "builtin.min": true, "builtin.max": true,
	"errors.New": true, "fmt.Errorf": true, "fmt.Sprintf": true, "fmt.Sprint": true,
	"bytes.Equal": true, "bytes.HasPrefix": true, "bytes.HasSuffix": true, "bytes.IndexByte": true, "bytes.Index": true, "bytes.Contains": true, "bytes.Compare": true,
	"strings.HasPrefix": true, "strings.HasSuffix": true, "strings.IndexByte": true, "strings.Index": true, "strings.Contains": true,
	"strings.ToLower": true, "strings.ToUpper": true, "strings.TrimSuffix": true, "strings.TrimPrefix": true, "strings.TrimSpace": true, "strings.EqualFold": true,
	"(encoding/binary.bigEndian).Uint16": true, "(encoding/binary.bigEndian).Uint32": true, "(encoding/binary.bigEndian).Uint64": true,
	"(encoding/binary.littleEndian).Uint16": true, "(encoding/binary.littleEndian).Uint32": true, "(encoding/binary.littleEndian).Uint64": true,
}

// c10elemWriters: builtins that write elements of their first argument.
func c10elemWrite(cc *ssa.CallCommon) (types.Type, bool) {
	switch calleeName(cc) {
	case "builtin.append", "builtin.copy":
		if len(cc.Args) > 0 {
			if s, ok := cc.Args[0].Type().Underlying().(*types.Slice); ok {
				return s.Elem(), true
			}
		}
	}
	return nil, false
}

type c10mem struct {
	px       *c10prover
	budget   int
	mayWrite map[string]bool
	busyW    map[*ssa.Function]bool
	// stopAtRoot: the walk does not descend into the call that made the root pointer; reaching it is recorded in
	// c10walkRes.rootCall (the location then holds what the constructor left there: c10_fields.go, definition-point terms)
	stopAtRoot bool
}

func (m *c10mem) locKey(l c10loc) string {
	s := typeStr(l.typ)
	if st, i, ok := l.lastField(); ok {
		s += fmt.Sprintf("@%s.%d", typeStr(st), i)
	}
	return s
}

// fnMayWrite: may a call of f write location r (of another function: roots are unrelated)?
func (m *c10mem) fnMayWrite(f *ssa.Function, r c10loc, depth int) bool {
	if f == nil || len(f.Blocks) == 0 || depth > 6 {
		return true
	}
	key := fnKey(f) + "|" + m.locKey(r)
	if v, ok := m.mayWrite[key]; ok {
		return v
	}
	if m.busyW[f] {
		return false // recursion: the other activations are scanned where they are entered
	}
	m.busyW[f] = true
	defer delete(m.busyW, f)
	out := false
	for _, g := range withAnon(f) {
		eachInstr(g, func(i ssa.Instruction) {
			if out {
				return
			}
			switch x := i.(type) {
			case *ssa.Store:
				w, ok := c10locOf(x.Addr)
				if !ok || c10mayAlias(w, r, false) {
					out = true
				}
			case *ssa.MapUpdate:
				if c10typeOverlap(x.Value.Type(), r.typ) {
					out = true
				}
			case *ssa.Select, *ssa.RunDefers:
				if _, isSel := i.(*ssa.Select); isSel {
					out = true
				}
			case ssa.CallInstruction:
				if m.callMayWrite(x.Common(), r, depth) {
					out = true
				}
			}
		})
	}
	m.mayWrite[key] = out
	return out
}

func (m *c10mem) callMayWrite(cc *ssa.CallCommon, r c10loc, depth int) bool {
	if cc.IsInvoke() {
		return true
	}
	name := typeArgs.ReplaceAllString(calleeName(cc), "")
	if c10noWrite[name] {
		return false
	}
	if et, ok := c10elemWrite(cc); ok {
		return c10mayAlias(c10loc{typ: et}, r, false)
	}
	g := cc.StaticCallee()
	if g == nil || !isRepoFn(g) || len(g.Blocks) == 0 {
		return true
	}
	return m.fnMayWrite(g, r, depth+1)
}

// c10src: one value a load can observe.
type c10src struct {
	val  ssa.Value // nil: the zero value
	fld  int       // k+1: field k of the struct value val (the location was written by a store of the whole struct)
	blk  *ssa.BasicBlock
	asm  []c10asm
	same bool // found in the function of the query itself, without passing through a call
	// a second point at which the value may be judged: the point the walk started from in the source's function,
	// when the definition of val is not executed again between the store and that point (so that what is known
	// there - the error of the call that produced val is nil - is known about the stored instance of val)
	blk2  *ssa.BasicBlock
	asm2  []c10asm
	local bool
}

type c10walkRes struct {
	srcs     []c10src
	entry    bool                     // the entry of the function was reached on some path
	rootCall bool                     // (stopAtRoot) the call that made the root pointer was reached on some path
	crossed  map[ssa.Instruction]bool // instructions passed on the way (top function only)
}

// sources walks backwards from instruction `at` (exclusive) in its function. anchor is the constraint system of the
// point the walk answers for in THIS function (it knows which calls succeeded). summary: the walk computes the effect
// of a callee on a location rooted at one of its parameters; reaching the entry then means "unchanged".
func (m *c10mem) sources(loc c10loc, at ssa.Instruction, self ssa.Value, anchor *c10dbm, depth int, summary bool) (c10walkRes, bool) {
	res := c10walkRes{crossed: map[ssa.Instruction]bool{}}
	fn := at.Parent()
	if depth > 4 || fn == nil {
		return res, false
	}
	type item struct {
		b *ssa.BasicBlock
		n int
	}
	private := false
	if a, isLocal := loc.root.(*ssa.Alloc); isLocal && a.Parent() == fn {
		private = c10onlyDirect(a, 0)
	}
	seen := map[*ssa.BasicBlock]bool{}
	stack := []item{{at.Block(), instrIndex(at)}}
	for len(stack) > 0 {
		it := stack[len(stack)-1]
		stack = stack[:len(stack)-1]
		stopped := false
		for k := it.n - 1; k >= 0 && !stopped; k-- {
			in := it.b.Instrs[k]
			m.budget--
			if m.budget < 0 {
				return res, false
			}
			// the instruction that creates the root
			if v, isV := in.(ssa.Value); isV && v == loc.root {
				switch x := in.(type) {
				case *ssa.Alloc:
					res.srcs = append(res.srcs, c10src{blk: x.Block(), same: !summary})
					stopped = true
					continue
				case *ssa.Call:
					if m.stopAtRoot && depth == 0 {
						res.rootCall = true
						stopped = true
						continue
					}
					if !m.resultSources(x, 0, loc, anchor, depth, &res) {
						return res, false
					}
					stopped = true
					continue
				case *ssa.Extract:
					if m.stopAtRoot && depth == 0 {
						res.rootCall = true
						stopped = true
						continue
					}
					call, ok := x.Tuple.(*ssa.Call)
					if !ok || !m.resultSources(call, x.Index, loc, anchor, depth, &res) {
						return res, false
					}
					stopped = true
					continue
				}
				return res, false
			}
			switch x := in.(type) {
			case *ssa.Store:
				w, ok := c10locOf(x.Addr)
				if !ok {
					return res, false
				}
				if w.root == loc.root && c10samePath(w.path, loc.path) {
					res.srcs = append(res.srcs, c10src{val: x.Val, blk: x.Block(), same: depth == 0 && !summary, local: true})
					stopped = true
					continue
				}
				// a store of the whole struct the location is a field of (h := decode(data); *h = v; ... h.n): the
				// location holds that field of the stored struct value
				if w.root == loc.root && len(w.path)+1 == len(loc.path) && c10prefix(w.path, loc.path) && loc.path[len(w.path)].field {
					if _, isStruct := x.Val.Type().Underlying().(*types.Struct); isStruct {
						res.srcs = append(res.srcs, c10src{val: x.Val, fld: int(loc.path[len(w.path)].idx) + 1, blk: x.Block(), same: depth == 0 && !summary, local: true})
						stopped = true
						continue
					}
				}
				if c10mayAlias(w, loc, true) {
					return res, false
				}
			case *ssa.UnOp:
				if x.Op != token.MUL || ssa.Value(x) == self {
					continue
				}
				if w, ok := c10locOf(x.X); ok && w.root == loc.root && c10samePath(w.path, loc.path) && types.Identical(x.Type(), loc.typ) {
					res.srcs = append(res.srcs, c10src{val: x, blk: x.Block(), same: depth == 0 && !summary, local: true})
					stopped = true
					continue
				}
			case *ssa.MapUpdate:
				if c10typeOverlap(x.Value.Type(), loc.typ) {
					return res, false
				}
			case *ssa.Go, *ssa.Defer, *ssa.Select:
				if !private {
					return res, false
				}
			case *ssa.RunDefers:
				if private {
					continue
				}
				// only matters when the function defers something (Defer instructions fail the walk when crossed; a
				// RunDefers reached without crossing one can still run defers registered earlier)
				hasDefer := false
				eachInstr(fn, func(j ssa.Instruction) {
					if _, ok := j.(*ssa.Defer); ok {
						hasDefer = true
					}
				})
				if hasDefer {
					return res, false
				}
			case *ssa.Call:
				if private {
					continue // a local whose address never leaves the function: no callee can reach it
				}
				pass, ok := m.throughCall(x, loc, anchor, depth, &res)
				if !ok {
					return res, false
				}
				if !pass {
					stopped = true
					continue
				}
			}
			res.crossed[in] = true
		}
		if stopped {
			continue
		}
		if len(it.b.Preds) == 0 {
			res.entry = true
			continue
		}
		for _, p := range it.b.Preds {
			if !seen[p] {
				seen[p] = true
				stack = append(stack, item{p, len(p.Instrs)})
			}
		}
	}
	for k := range res.srcs {
		q := &res.srcs[k]
		if !q.local || q.val == nil {
			continue
		}
		q.local = false
		if def, isInstr := q.val.(ssa.Instruction); !isInstr || !res.crossed[def] {
			q.blk2, q.asm2 = at.Block(), anchor.asm
		}
	}
	if res.entry && !summary {
		// the location exists before this function runs: ask every caller
		if m.px.roots[fn] || !c10allCallersKnown(fn) {
			return res, false // (nothing is assumed about what a parser root is given)
		}
		sites := gSites[fn]
		if len(sites) == 0 || len(sites) > 8 {
			return res, false
		}
		idx, fvIdx := -1, -1
		switch root := loc.root.(type) {
		case *ssa.Parameter:
			for k, p := range fn.Params {
				if p == root {
					idx = k
				}
			}
		case *ssa.FreeVar:
			for k, p := range fn.FreeVars {
				if p == root {
					fvIdx = k
				}
			}
		}
		if idx < 0 && fvIdx < 0 {
			return res, false
		}
		for _, s := range sites {
			call, isCall := s.(*ssa.Call)
			if !isCall || call.Parent() == fn {
				return res, false
			}
			var actual ssa.Value
			if idx >= 0 && idx < len(call.Call.Args) {
				actual = call.Call.Args[idx]
			} else if mc, isMC := call.Call.Value.(*ssa.MakeClosure); isMC && fvIdx >= 0 && fvIdx < len(mc.Bindings) {
				actual = mc.Bindings[fvIdx] // the variable the closure captured, as the maker names it
			}
			if actual == nil {
				return res, false
			}
			al, ok := c10locOf(actual)
			if !ok {
				return res, false
			}
			l2 := c10loc{root: al.root, path: append(append([]c10step{}, al.path...), loc.path...), typ: loc.typ}
			sub, ok := m.sources(l2, call, nil, m.px.at(call.Block(), anchor.depth+1), depth+1, false)
			if !ok {
				return res, false
			}
			for _, q := range sub.srcs {
				q.same = false
				res.srcs = append(res.srcs, q)
			}
		}
		res.entry = false
	}
	return res, true
}

// throughCall: the walk meets a call. pass: the location may be unchanged by it (continue before the call).
func (m *c10mem) throughCall(call *ssa.Call, loc c10loc, anchor *c10dbm, depth int, res *c10walkRes) (pass, ok bool) {
	cc := &call.Call
	if !m.callMayWrite(cc, loc, 0) {
		return true, true
	}
	g := cc.StaticCallee()
	if cc.IsInvoke() || g == nil || !isRepoFn(g) || len(g.Blocks) == 0 || g == call.Parent() {
		return false, false
	}
	// which parameter carries the root
	n := 0
	var inner ssa.Value
	var rest []c10step
	for k, a := range cc.Args {
		if c10deref(a.Type()) == nil || k >= len(g.Params) {
			continue
		}
		al, ok := c10locOf(a)
		if !ok {
			continue
		}
		if al.root == loc.root && c10prefix(al.path, loc.path) {
			inner, rest = g.Params[k], loc.path[len(al.path):]
			n++
		}
	}
	if mc, isMC := cc.Value.(*ssa.MakeClosure); isMC {
		// variables captured by reference reach the closure like arguments
		for k, a := range mc.Bindings {
			if c10deref(a.Type()) == nil || k >= len(g.FreeVars) {
				continue
			}
			al, ok := c10locOf(a)
			if !ok {
				continue
			}
			if al.root == loc.root && c10prefix(al.path, loc.path) {
				inner, rest = g.FreeVars[k], loc.path[len(al.path):]
				n++
			}
		}
	}
	if n != 1 {
		return false, false // written through something we cannot relate to the location
	}
	l2 := c10loc{root: inner, path: rest, typ: loc.typ}
	kn := anchor.knownResults(call, -1)
	nRet := 0
	okAll := true
	eachInstr(g, func(i ssa.Instruction) {
		r, isR := i.(*ssa.Return)
		if !isR || !okAll || c10returnExcluded(r, kn) {
			return
		}
		nRet++
		rd := m.px.atAssume(r.Block(), anchor.depth+1, c10returnAsm(r, kn))
		sub, ok := m.sources(l2, r, nil, rd, depth+1, true)
		if !ok {
			okAll = false
			return
		}
		for _, q := range sub.srcs {
			q.same = false
			res.srcs = append(res.srcs, q)
		}
		if sub.entry {
			pass = true
		}
	})
	if !okAll {
		return false, false
	}
	if nRet == 0 {
		return false, true // the call does not return on the path the query is on
	}
	return pass, true
}

// resultSources: the root is result idx of a call (a constructor): the location is what the callee left there.
func (m *c10mem) resultSources(call *ssa.Call, idx int, loc c10loc, anchor *c10dbm, depth int, res *c10walkRes) bool {
	g := call.Call.StaticCallee()
	if call.Call.IsInvoke() || g == nil || !isRepoFn(g) || len(g.Blocks) == 0 || g == call.Parent() {
		return false
	}
	kn := anchor.knownResults(call, idx)
	okAll := true
	eachInstr(g, func(i ssa.Instruction) {
		r, isR := i.(*ssa.Return)
		if !isR || !okAll || idx >= len(r.Results) || c10returnExcluded(r, kn) {
			return
		}
		al, ok := c10locOf(r.Results[idx])
		if !ok {
			okAll = false
			return
		}
		l2 := c10loc{root: al.root, path: append(append([]c10step{}, al.path...), loc.path...), typ: loc.typ}
		rd := m.px.atAssume(r.Block(), anchor.depth+1, c10returnAsm(r, kn))
		sub, ok := m.sources(l2, r, nil, rd, depth+1, true)
		if !ok || sub.entry {
			okAll = false // a pointer that existed before the constructor ran: unknown contents
			return
		}
		for _, q := range sub.srcs {
			q.same = false
			res.srcs = append(res.srcs, q)
		}
	})
	return okAll
}

// ---- use by the prover ---------------------------------------------------------------------------------------------------

// importLoad: the (length of the) value observed by load x.
func (d *c10dbm) importLoad(t c10term, x *ssa.UnOp, i int) {
	if x.Op != token.MUL || d.depth >= c10MaxDepth || d.px.loadBusy[x] {
		return
	}
	loc, ok := c10locOf(x.X)
	if !ok {
		return
	}
	if _, isElem := loc.root.(*ssa.IndexAddr); isElem {
		return // an element of a slice or a computed array index: its type range is all that is known
	}
	d.px.loadBusy[x] = true
	defer delete(d.px.loadBusy, x)
	d.importLoc(t, loc, x, i, true)
}

// importLoc: node i stands for (the length of) what is found at location loc when the load x executes - the value
// the load yields (own: loc is the location x reads), or one field of the struct it yields (loc names that field).
func (d *c10dbm) importLoc(t c10term, loc c10loc, x *ssa.UnOp, i int, own bool) {
	term := func(v ssa.Value, fld int) c10term {
		if fld != 0 {
			return c10term{v: v, isLen: t.isLen, fld: fld}
		}
		if t.isLen {
			return c10len(v)
		}
		return c10termOf(v)
	}
	// what is known about call results must hold AT THE LOAD: the system of the load's own block
	anchor := d
	if d.block != x.Block() {
		anchor = d.px.at(x.Block(), d.depth)
	}
	// every path to the load passes a store of, or an earlier load yielding, one and the same value of this function,
	// not computed anew in between: the load IS that value
	var memo *ssa.UnOp
	if own {
		memo = x
	}
	if cv, cf := d.px.canonAt(loc, x, x, d.px.at(x.Block(), d.depth), memo); cv != nil { // judged under the block's facts only (memoised)
		d.eq(i, d.node(term(cv, cf)), 0)
		return
	}
	// nothing has written the location since the pointer it is reached through came into being (the entry of the
	// function for a parameter, the constructor call for its result): the definition-point term of that pointer
	// (the bounds of what the callers' memory holds are imported below as well: the definition-point term has them
	// only when every caller's location resolves to a term of its own)
	if dt, ok := d.px.defPointTerm(loc, x, x, anchor, t.isLen); ok {
		d.eq(i, d.node(dt), 0)
	}
	m := &c10mem{px: d.px, budget: 6000, mayWrite: d.px.mayWrite, busyW: map[*ssa.Function]bool{}}
	res, ok := m.sources(loc, x, x, anchor, 0, false)
	if !ok || res.entry || len(res.srcs) == 0 {
		return
	}
	if len(res.srcs) == 1 && res.srcs[0].val == nil {
		d.eq(i, 0, 0)
		return
	}
	lo, hi := c10Inf, int64(-c10Inf)
	okLo, okHi := true, true
	for _, s := range res.srcs {
		if s.val == nil {
			lo, hi = min(lo, 0), max(hi, 0)
			continue
		}
		if s.fld == 0 && !t.isLen && !isIntType(s.val.Type()) {
			return
		}
		if s.fld != 0 && !c10fieldTermOK(s.val, s.fld-1, t.isLen) {
			return
		}
		sd := d.px.atAssume(s.blk, d.depth+1, s.asm)
		l, ok1 := sd.lower(term(s.val, s.fld))
		u, ok2 := sd.upper(term(s.val, s.fld), c10term{})
		if s.blk2 != nil && s.blk2 != s.blk {
			sd2 := d.px.atAssume(s.blk2, d.depth+1, s.asm2)
			if l2, ok := sd2.lower(term(s.val, s.fld)); ok && (!ok1 || l2 > l) {
				l, ok1 = l2, true
			}
			if u2, ok := sd2.upper(term(s.val, s.fld), c10term{}); ok && (!ok2 || u2 < u) {
				u, ok2 = u2, true
			}
		}
		okLo, okHi = okLo && ok1, okHi && ok2
		lo, hi = min(lo, l), max(hi, u)
	}
	if okLo {
		d.le(0, i, -lo)
	}
	if okHi {
		d.le(i, 0, hi)
	}
}

// canon: the value of its own function that load x must observe, or x itself. Each source of the load (see sources)
// must be a store or an earlier load in the same function, reached without passing through a call; loads among them
// are resolved in turn; all must come down to ONE value, and neither a source nor that value may be defined anew on
// the way from the source to the load (an SSA name denotes its latest instance only).
func (px *c10prover) canon(x *ssa.UnOp, anchor *c10dbm) ssa.Value {
	if v, ok := px.canonMemo[x]; ok {
		return v
	}
	if px.canonBusy[x] {
		return x
	}
	px.canonBusy[x] = true
	defer delete(px.canonBusy, x)
	out := ssa.Value(x)
	defer func() { px.canonMemo[x] = out }()
	loc, ok := c10locOf(x.X)
	if !ok {
		return out
	}
	if cv, cf := px.canonAt(loc, x, x, anchor, nil); cv != nil && cf == 0 {
		out = cv
	}
	return out
}

// canonAt: the one value of the load's own function that is found at location loc when the load x executes (loc is
// the location x reads, or a field of the struct x reads); with fld != 0 it is field fld-1 of that (struct) value: the
// location was last written by a store of a whole struct. (nil, 0) when there is no such single value. memo: loc is
// the location of the load memo itself (the result is remembered per load). at: the instruction the question is asked at
// (the load, a call whose argument points at the location, a return); self: the load itself, if any.
func (px *c10prover) canonAt(loc c10loc, at ssa.Instruction, self ssa.Value, anchor *c10dbm, memo *ssa.UnOp) (ssa.Value, int) {
	if memo != nil {
		if cv := px.canon(memo, anchor); cv != ssa.Value(memo) {
			return cv, 0
		}
	}
	m := &c10mem{px: px, budget: 6000, mayWrite: px.mayWrite, busyW: map[*ssa.Function]bool{}}
	res, ok := m.sources(loc, at, self, anchor, 0, false)
	if !ok || res.entry || len(res.srcs) == 0 {
		return nil, 0
	}
	passed := func(v ssa.Value) bool {
		def, isInstr := v.(ssa.Instruction)
		return isInstr && res.crossed[def]
	}
	var one ssa.Value
	oneFld := 0
	for _, s := range res.srcs {
		if s.val == nil || !s.same || passed(s.val) {
			return nil, 0
		}
		cv, cf := s.val, s.fld
		if l, isLoad := cv.(*ssa.UnOp); isLoad && l.Op == token.MUL && ssa.Value(l) != self {
			// a load (of the value itself, or of the struct the value is a field of): what that load observes
			cv = px.canon(l, px.at(l.Block(), anchor.depth))
			if passed(cv) {
				return nil, 0
			}
		}
		if one != nil && (cv != one || cf != oneFld) {
			return nil, 0
		}
		one, oneFld = cv, cf
	}
	return one, oneFld
}

// c10ptrStructOf: the struct a pointer type points to.
func c10ptrStructOf(t types.Type) *types.Struct {
	if el := c10deref(t); el != nil {
		st, _ := el.Underlying().(*types.Struct)
		return st
	}
	return nil
}

// defPointTerm: loc is a field of the struct a pointer parameter / the pointer result of a call points to, and on no
// path from the definition of that pointer (the entry of the function; the call) to `at` anything may have written it:
// the location holds what it held when the pointer came into being - the DEFINITION-POINT term c10term{v: pointer,
// fld: k+1} (c10_fields.go).
func (px *c10prover) defPointTerm(loc c10loc, at ssa.Instruction, self ssa.Value, anchor *c10dbm, isLen bool) (c10term, bool) {
	if len(loc.path) != 1 || !loc.path[0].field || at.Parent() == nil {
		return c10term{}, false
	}
	k := int(loc.path[0].idx)
	if !c10fieldTermOK(loc.root, k, isLen) || c10ptrStructOf(loc.root.Type()) == nil {
		return c10term{}, false
	}
	switch root := loc.root.(type) {
	case *ssa.Parameter:
		if root.Parent() != at.Parent() {
			return c10term{}, false
		}
	case *ssa.Call:
		if root.Parent() != at.Parent() || root.Call.IsInvoke() {
			return c10term{}, false
		}
	case *ssa.Extract:
		if call, ok := root.Tuple.(*ssa.Call); !ok || root.Parent() != at.Parent() || call.Call.IsInvoke() {
			return c10term{}, false
		}
	default:
		return c10term{}, false
	}
	m := &c10mem{px: px, budget: 6000, mayWrite: px.mayWrite, busyW: map[*ssa.Function]bool{}, stopAtRoot: true}
	res, ok := m.sources(loc, at, self, anchor, 0, true)
	if !ok || len(res.srcs) != 0 {
		return c10term{}, false
	}
	if _, isParam := loc.root.(*ssa.Parameter); isParam != res.entry || isParam == res.rootCall {
		return c10term{}, false
	}
	return c10term{v: loc.root, isLen: isLen, fld: k + 1}, true
}

// locTermAt: the term for (the length of) what is found at location loc when instruction `at` executes: one value of
// at's function (or a field of one), or the definition-point term of the pointer the location is reached through.
func (px *c10prover) locTermAt(loc c10loc, at ssa.Instruction, anchor *c10dbm, isLen bool) (c10term, bool) {
	if cv, cf := px.canonAt(loc, at, nil, anchor, nil); cv != nil {
		switch {
		case cf != 0:
			if c10fieldTermOK(cv, cf-1, isLen) {
				return c10term{v: cv, isLen: isLen, fld: cf}, true
			}
			return c10term{}, false
		case isLen && c10hasLen(cv.Type()):
			return c10len(cv), true
		case !isLen && isIntType(cv.Type()):
			return c10termOf(cv), true
		}
		return c10term{}, false
	}
	return px.defPointTerm(loc, at, nil, anchor, isLen)
}

// fieldLoc: the location of field k of the struct the pointer p points to.
func c10fieldLoc(p ssa.Value, k int) (c10loc, bool) {
	st := c10ptrStructOf(p.Type())
	al, ok := c10locOf(p)
	if st == nil || !ok || k < 0 || k >= st.NumFields() {
		return c10loc{}, false
	}
	return c10loc{root: al.root, path: append(append([]c10step{}, al.path...), c10step{true, int64(k), st}), typ: st.Field(k).Type()}, true
}
