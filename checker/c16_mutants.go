package main

// Overlay mutants of C16 added during the hardening pass: behaviour-preserving rewrites of kinds that are not in the
// benign corpus (Expect "") and breaking changes that exercise the rewritten rules (Expect "C16.x").

const c16gh = "proxy/grpc_handler.go"

const c16origStream = `func (g GrpcProxyInterceptor) Stream(srv interface{}, stream grpc.ServerStream, info *grpc.StreamServerInfo, handler grpc.StreamHandler) error {
	ctx := stream.Context()

	target, err := g.lookup(ctx, info.FullMethod)

	if err != nil {
		log.Println("[ERROR] grpc: error looking up route", err)
		return status.Error(codes.Internal, "internal error")
	}

	if target == nil {
		g.StatsHandler.NoRoute.Add(1)
		log.Println("[WARN] grpc: no route found for", info.FullMethod)
		return status.Error(codes.NotFound, "no route found")
	}

	ctx = context.WithValue(ctx, targetKey{}, target)

	proxyStream := proxyStream{
		ServerStream: stream,
		ctx:          ctx,
	}

	start := time.Now()

	err = handler(srv, proxyStream)

	end := time.Now()
	dur := end.Sub(start)

	target.Timer.Observe(dur.Seconds())

	return err
}
`

const c16origCleanup = `func (p *grpcConnectionPool) cleanup() {
	for {
		p.lock.Lock()
		table := route.GetTable()
		for tKey, cs := range p.connections {
			state := cs.GetState()
			if state == connectivity.Shutdown {
				delete(p.connections, tKey)
				continue
			}

			if !hasTarget(tKey, table) {
				log.Println("[DEBUG] grpc: cleaning up connection to", tKey)
				go func(cs *grpc.ClientConn, state connectivity.State) {
					ctx, cancel := context.WithTimeout(context.Background(), p.cfg.Proxy.GRPCGShutdownTimeout)
					defer cancel()
					// wait for state to change, or timeout, before closing, in case it's still handling traffic.
					cs.WaitForStateChange(ctx, state)
					cs.Close()
				}(cs, state)
				delete(p.connections, tKey)
			}
		}
		p.lock.Unlock()
		time.Sleep(p.cleanupInterval)
	}
}
`

const c16origHasTarget = `func hasTarget(tKey string, table route.Table) bool {
	for _, routes := range table {
		for _, r := range routes {
			for _, t := range r.Targets {
				if tKey == makeGRPCTargetKey(t) {
					return true
				}
			}
		}
	}
	return false
}
`

const c16origDirector = `	return func(ctx context.Context, fullMethodName string) (context.Context, *grpc.ClientConn, error) {
		md, ok := metadata.FromIncomingContext(ctx)

		if !ok {
			return ctx, nil, fmt.Errorf("error extracting metadata from request")
		}

		outCtx := metadata.NewOutgoingContext(ctx, md.Copy())

		target, _ := ctx.Value(targetKey{}).(*route.Target)

		if target == nil {
			log.Println("[WARN] grpc: no route for ", fullMethodName)
			return outCtx, nil, fmt.Errorf("no route found")
		}

		conn, err := connectionPool.Get(outCtx, target)

		return outCtx, conn, err
	}
`

const c16origDstHost = `func (g GrpcProxyInterceptor) getDestinationHostFromMetadata(md metadata.MD) (dstHost string) {
	dstHost = ""
	hosts := md["dsthost"]
	if len(hosts) == 1 {
		dstHost = hosts[0]
	}
	return
}
`

const c16origSet = `	key := makeGRPCTargetKey(target)
	if cur := p.connections[key]; cur != nil && cur != conn && cur.GetState() != connectivity.Shutdown {
		conn.Close()
		return cur
	}
	p.connections[key] = conn
	return conn
}
`

const c16origOpts = `	return []grpc.ServerOption{
		grpc.CustomCodec(grpc_proxy.Codec()),
		grpc.UnknownServiceHandler(handler),
		grpc.StreamInterceptor(proxyInterceptor.Stream),
		grpc.StatsHandler(statsHandler),
		grpc.MaxRecvMsgSize(cfg.Proxy.GRPCMaxRxMsgSize),
		grpc.MaxSendMsgSize(cfg.Proxy.GRPCMaxTxMsgSize),
	}
}
`

var c16moreMutants = []mutant{
	// ---- benign: renames of everything unexported -------------------------------------------------------------------
	{Name: "benign: rename lookup", File: c16gh, Old: "lookup(", New: "findTarget(", All: true, Expect: ""},
	{Name: "benign: rename getDestinationHostFromMetadata", File: c16gh, Old: "getDestinationHostFromMetadata", New: "routingHost", All: true, Expect: ""},
	{Name: "benign: rename makeGRPCTargetKey", File: c16gh, Old: "makeGRPCTargetKey", New: "poolKeyOf", All: true, Expect: ""},
	{Name: "benign: rename hasTarget", File: c16gh, Old: "hasTarget", New: "stillRouted", All: true, Expect: ""},
	{Name: "benign: rename cleanup", File: c16gh, Old: "cleanup", New: "janitor", All: true, Expect: ""},
	{Name: "benign: rename newGrpcConnectionPool", File: c16gh, Old: "newGrpcConnectionPool", New: "dialPool", All: true, Expect: ""},
	{Name: "benign: rename the pool type", File: c16gh, Old: "grpcConnectionPool", New: "backendConns", All: true, Expect: ""},
	{Name: "benign: rename the pool's map field", File: c16gh, Old: "connections", New: "byTarget", All: true, Expect: ""},
	{Name: "benign: rename targetKey and proxyStream", File: c16gh, Old: "targetKey", New: "routeTargetCtxKey", All: true, Expect: ""},
	{Name: "benign: rename newGrpcProxy", File: "main.go", Old: "newGrpcProxy", New: "grpcServerOptions", All: true, Expect: ""},

	// ---- benign: other shapes --------------------------------------------------------------------------------------------
	{Name: "benign: interceptor methods get a pointer receiver", File: c16gh, Old: "func (g GrpcProxyInterceptor) ", New: "func (g *GrpcProxyInterceptor) ", All: true, Expect: ""},
	{Name: "benign: handler call and timing moved into a helper method", File: c16gh,
		Old:    "\tstart := time.Now()\n\n\terr = handler(srv, proxyStream)\n\n\tend := time.Now()\n\tdur := end.Sub(start)\n\n\ttarget.Timer.Observe(dur.Seconds())\n\n\treturn err\n}\n",
		New:    "\treturn g.timed(target, func() error { return g.forward(srv, proxyStream, handler) })\n}\n\nfunc (g GrpcProxyInterceptor) forward(srv interface{}, s grpc.ServerStream, handler grpc.StreamHandler) error {\n\treturn handler(srv, s)\n}\n\nfunc (g GrpcProxyInterceptor) timed(target *route.Target, call func() error) error {\n\tstart := time.Now()\n\terr := call()\n\ttarget.Timer.Observe(time.Since(start).Seconds())\n\treturn err\n}\n",
		Expect: ""},
	{Name: "benign: handler call moved into a helper method", File: c16gh,
		Old:    "\terr = handler(srv, proxyStream)\n",
		New:    "\terr = g.forward(srv, proxyStream, handler)\n",
		More:   []repl{{"type targetKey struct{}\n", "type targetKey struct{}\n\nfunc (g GrpcProxyInterceptor) forward(srv interface{}, s grpc.ServerStream, handler grpc.StreamHandler) error {\n\treturn handler(srv, s)\n}\n"}},
		Expect: ""},
	{Name: "benign: failure statuses built by helpers", File: c16gh,
		Old:    "\t\treturn status.Error(codes.NotFound, \"no route found\")\n",
		New:    "\t\treturn errNoRoute()\n",
		More:   []repl{{"\t\treturn status.Error(codes.Internal, \"internal error\")\n", "\t\treturn errLookup()\n"}, {"type targetKey struct{}\n", "type targetKey struct{}\n\nfunc errNoRoute() error { return status.Error(codes.NotFound, \"no route found\") }\n\nfunc errLookup() error {\n\tst := status.New(codes.Internal, \"internal error\")\n\treturn st.Err()\n}\n"}},
		Expect: ""},
	{Name: "benign: interceptor with inverted guard, proxying helper and a single failure exit", File: c16gh, Old: c16origStream, New: `func (g GrpcProxyInterceptor) Stream(srv interface{}, stream grpc.ServerStream, info *grpc.StreamServerInfo, handler grpc.StreamHandler) error {
	ctx := stream.Context()
	target, err := g.lookup(ctx, info.FullMethod)
	if err == nil && target != nil {
		return g.proxyTo(target, srv, stream, ctx, handler)
	}
	var st error
	if err != nil {
		log.Println("[ERROR] grpc: error looking up route", err)
		st = status.Error(codes.Internal, "internal error")
	} else {
		g.StatsHandler.NoRoute.Add(1)
		log.Println("[WARN] grpc: no route found for", info.FullMethod)
		st = status.Error(codes.NotFound, "no route found")
	}
	return st
}

func (g GrpcProxyInterceptor) proxyTo(target *route.Target, srv interface{}, stream grpc.ServerStream, ctx context.Context, handler grpc.StreamHandler) error {
	start := time.Now()
	err := handler(srv, newProxyStream(stream, context.WithValue(ctx, targetKey{}, target)))
	target.Timer.Observe(time.Since(start).Seconds())
	return err
}

func newProxyStream(s grpc.ServerStream, ctx context.Context) grpc.ServerStream {
	ps := proxyStream{ServerStream: s}
	ps.ctx = ctx
	return ps
}
`, Expect: ""},
	{Name: "benign: interceptor with nested if/else and a named error result", File: c16gh, Old: c16origStream, New: `func (g GrpcProxyInterceptor) Stream(srv interface{}, stream grpc.ServerStream, info *grpc.StreamServerInfo, handler grpc.StreamHandler) (err error) {
	ctx := stream.Context()
	target, lerr := g.lookup(ctx, info.FullMethod)
	if lerr != nil {
		log.Println("[ERROR] grpc: error looking up route", lerr)
		err = status.Error(codes.Internal, "internal error")
	} else if target == nil {
		g.StatsHandler.NoRoute.Add(1)
		log.Println("[WARN] grpc: no route found for", info.FullMethod)
		err = status.Error(codes.NotFound, "no route found")
	} else {
		start := time.Now()
		defer func() { target.Timer.Observe(time.Since(start).Seconds()) }()
		err = handler(srv, proxyStream{ServerStream: stream, ctx: context.WithValue(ctx, targetKey{}, target)})
	}
	return err
}
`, Expect: ""},
	{Name: "benign: context key is a typed string constant", File: c16gh, Old: "targetKey{}", New: "targetCtxKey", All: true,
		More: []repl{{"type targetKey struct{}\n", "type targetKey string\n\nconst targetCtxKey targetKey = \"grpc-target\"\n"}}, Expect: ""},
	{Name: "benign: director reads the target through a helper and builds the outgoing context in one", File: c16gh, Old: c16origDirector, New: `	return func(ctx context.Context, fullMethodName string) (context.Context, *grpc.ClientConn, error) {
		outCtx, err := outgoing(ctx)
		if err != nil {
			return ctx, nil, err
		}
		target := targetFrom(ctx)
		if target == nil {
			log.Println("[WARN] grpc: no route for ", fullMethodName)
			return outCtx, nil, fmt.Errorf("no route found")
		}
		conn, err := connectionPool.Get(outCtx, target)
		if err != nil {
			return outCtx, nil, err
		}
		return outCtx, conn, nil
	}
`, More: []repl{{"type targetKey struct{}\n", `type targetKey struct{}

func targetFrom(ctx context.Context) *route.Target {
	t, _ := ctx.Value(targetKey{}).(*route.Target)
	return t
}

func outgoing(ctx context.Context) (context.Context, error) {
	md, ok := metadata.FromIncomingContext(ctx)
	if !ok {
		return nil, fmt.Errorf("error extracting metadata from request")
	}
	cp := md.Copy()
	return metadata.NewOutgoingContext(ctx, cp), nil
}
`}}, Expect: ""},
	{Name: "benign: dsthost read with MD.Get and a guard clause", File: c16gh, Old: c16origDstHost, New: `func (g GrpcProxyInterceptor) getDestinationHostFromMetadata(md metadata.MD) string {
	hosts := md.Get("dsthost")
	if len(hosts) != 1 {
		return ""
	}
	return hosts[0]
}
`, Expect: ""},
	{Name: "benign: dsthost helper inlined into lookup as a switch", File: c16gh,
		Old:    "\tdstHostSpecifiedByGRPCClient := g.getDestinationHostFromMetadata(md)\n",
		New:    "\tdstHostSpecifiedByGRPCClient := \"\"\n\tswitch hosts := md[\"dsthost\"]; len(hosts) {\n\tcase 1:\n\t\tdstHostSpecifiedByGRPCClient = hosts[0]\n\t}\n",
		Expect: ""},
	{Name: "benign: lookup request built field by field in a helper", File: c16gh,
		Old:    "\treq := &http.Request{\n\t\tHost:   dstHostSpecifiedByGRPCClient,\n\t\tURL:    reqUrl,\n\t\tHeader: headers,\n\t}\n",
		New:    "\treq := newLookupRequest(dstHostSpecifiedByGRPCClient, reqUrl, headers)\n",
		More:   []repl{{"type targetKey struct{}\n", "type targetKey struct{}\n\nfunc newLookupRequest(host string, u *url.URL, h http.Header) *http.Request {\n\tr := new(http.Request)\n\tr.Host = host\n\tr.URL = u\n\tr.Header = h\n\treturn r\n}\n"}},
		Expect: ""},
	{Name: "benign: table fetched into a local, picker and matcher passed through a helper", File: c16gh,
		Old:    "\treturn route.GetTable().Lookup(req, req.Header.Get(\"trace\"), pick, match, g.GlobCache, g.Config.GlobMatchingDisabled), nil\n",
		New:    "\ttbl := route.GetTable()\n\treturn g.match(tbl, req, pick, match), nil\n",
		More:   []repl{{"type targetKey struct{}\n", "type targetKey struct{}\n\nfunc (g GrpcProxyInterceptor) match(t route.Table, req *http.Request, pick func(r *route.Route) *route.Target, match func(uri string, r *route.Route) bool) *route.Target {\n\treturn t.Lookup(req, req.Header.Get(\"trace\"), pick, match, g.GlobCache, g.Config.GlobMatchingDisabled)\n}\n"}},
		Expect: ""},
	{Name: "benign: pool read through a helper that takes the read lock", File: c16gh,
		Old:    "\tp.lock.RLock()\n\tconn := p.connections[makeGRPCTargetKey(target)]\n\tp.lock.RUnlock()\n",
		New:    "\tconn := p.find(makeGRPCTargetKey(target))\n",
		More:   []repl{{"type targetKey struct{}\n", "type targetKey struct{}\n\nfunc (p *grpcConnectionPool) find(key string) *grpc.ClientConn {\n\tp.lock.RLock()\n\tdefer p.lock.RUnlock()\n\treturn p.connections[key]\n}\n"}},
		Expect: ""},
	{Name: "benign: insert and re-check through helpers that rely on the caller's lock", File: c16gh, Old: c16origSet, New: `	key := makeGRPCTargetKey(target)
	if cur := p.usableLocked(key); cur != nil && cur != conn {
		conn.Close()
		return cur
	}
	p.putLocked(key, conn)
	return conn
}

func (p *grpcConnectionPool) usableLocked(key string) *grpc.ClientConn {
	if cur := p.connections[key]; cur != nil && cur.GetState() != connectivity.Shutdown {
		return cur
	}
	return nil
}

func (p *grpcConnectionPool) putLocked(key string, conn *grpc.ClientConn) {
	p.connections[key] = conn
}
`, Expect: ""},
	{Name: "benign: plain Mutex instead of RWMutex", File: c16gh, Old: "RWMutex", New: "Mutex", All: true,
		More: []repl{{"p.lock.RLock()", "p.lock.Lock()"}, {"p.lock.RUnlock()", "p.lock.Unlock()"}}, Expect: ""},
	{Name: "benign: pool key function inlined", File: c16gh, Old: "makeGRPCTargetKey(target)", New: "target.URL.String()", All: true,
		More: []repl{{"tKey == makeGRPCTargetKey(t)", "tKey == t.URL.String()"}}, Expect: ""},
	{Name: "benign: pool key function becomes a two-step helper chain", File: c16gh,
		Old:    "func makeGRPCTargetKey(t *route.Target) string {\n\treturn t.URL.String()\n}\n",
		New:    "func makeGRPCTargetKey(t *route.Target) string {\n\tkey := urlKey(t)\n\treturn key\n}\n\nfunc urlKey(t *route.Target) string {\n\tu := t.URL\n\treturn u.String()\n}\n",
		Expect: ""},
	{Name: "benign: janitor driven by a ticker, sweep in a method with deferred unlock", File: c16gh, Old: c16origCleanup, New: `func (p *grpcConnectionPool) cleanup() {
	t := time.NewTicker(p.cleanupInterval)
	defer t.Stop()
	for range t.C {
		p.sweep(route.GetTable())
	}
}

func (p *grpcConnectionPool) sweep(table route.Table) {
	p.lock.Lock()
	defer p.lock.Unlock()
	for tKey, cs := range p.connections {
		state := cs.GetState()
		switch {
		case state == connectivity.Shutdown:
			delete(p.connections, tKey)
		case !hasTarget(tKey, table):
			log.Println("[DEBUG] grpc: cleaning up connection to", tKey)
			go p.drain(cs, state)
			delete(p.connections, tKey)
		}
	}
}

func (p *grpcConnectionPool) drain(cs *grpc.ClientConn, state connectivity.State) {
	ctx, cancel := context.WithTimeout(context.Background(), p.cfg.Proxy.GRPCGShutdownTimeout)
	defer cancel()
	cs.WaitForStateChange(ctx, state)
	cs.Close()
}
`, Expect: ""},
	{Name: "benign: pause moved into a helper, drop of an entry moved into a helper", File: c16gh, Old: c16origCleanup, New: `func (p *grpcConnectionPool) cleanup() {
	for {
		p.lock.Lock()
		table := route.GetTable()
		for tKey, cs := range p.connections {
			state := cs.GetState()
			if state == connectivity.Shutdown {
				delete(p.connections, tKey)
				continue
			}
			if !hasTarget(tKey, table) {
				p.dropLocked(tKey, cs, state)
			}
		}
		p.lock.Unlock()
		p.pause()
	}
}

func (p *grpcConnectionPool) pause() { time.Sleep(p.cleanupInterval) }

func (p *grpcConnectionPool) dropLocked(tKey string, cs *grpc.ClientConn, state connectivity.State) {
	log.Println("[DEBUG] grpc: cleaning up connection to", tKey)
	go func() {
		ctx, cancel := context.WithTimeout(context.Background(), p.cfg.Proxy.GRPCGShutdownTimeout)
		defer cancel()
		cs.WaitForStateChange(ctx, state)
		cs.Close()
	}()
	delete(p.connections, tKey)
}
`, Expect: ""},
	{Name: "benign: membership predicate negated (targetGone)", File: c16gh, Old: c16origHasTarget, New: `func targetGone(tKey string, table route.Table) bool {
	for _, routes := range table {
		for _, r := range routes {
			for _, t := range r.Targets {
				if makeGRPCTargetKey(t) == tKey {
					return false
				}
			}
		}
	}
	return true
}
`, More: []repl{{"if !hasTarget(tKey, table) {", "if targetGone(tKey, table) {"}}, Expect: ""},
	{Name: "benign: janitor started by the director factory instead of the constructor", File: c16gh,
		Old:    "\tgo cp.cleanup()\n\n",
		New:    "",
		More:   []repl{{"\tconnectionPool := newGrpcConnectionPool(tlscfg, cfg)\n", "\tconnectionPool := newGrpcConnectionPool(tlscfg, cfg)\n\tgo connectionPool.cleanup()\n"}},
		Expect: ""},
	{Name: "benign: server options appended, limits from a helper", File: "main.go", Old: c16origOpts, New: `	opts := []grpc.ServerOption{grpc.CustomCodec(grpc_proxy.Codec())}
	opts = append(opts, grpc.UnknownServiceHandler(handler))
	si := proxyInterceptor.Stream
	opts = append(opts, grpc.StreamInterceptor(si), grpc.StatsHandler(statsHandler))
	opts = append(opts, grpcLimits(cfg.Proxy.GRPCMaxRxMsgSize, cfg.Proxy.GRPCMaxTxMsgSize)...)
	return opts
}

func grpcLimits(rx, tx int) []grpc.ServerOption {
	return []grpc.ServerOption{grpc.MaxRecvMsgSize(rx), grpc.MaxSendMsgSize(tx)}
}
`, Expect: ""},
	{Name: "benign: interceptor installed through a forwarding closure", File: "main.go",
		Old: "\t\tgrpc.StreamInterceptor(proxyInterceptor.Stream),\n",
		New: "\t\tgrpc.StreamInterceptor(func(srv interface{}, ss grpc.ServerStream, info *grpc.StreamServerInfo, h grpc.StreamHandler) error {\n\t\t\treturn proxyInterceptor.Stream(srv, ss, info, h)\n\t\t}),\n", Expect: ""},
	{Name: "benign: both guards extracted into a helper that returns the status", File: c16gh, Old: c16origStream, New: `func (g GrpcProxyInterceptor) Stream(srv interface{}, stream grpc.ServerStream, info *grpc.StreamServerInfo, handler grpc.StreamHandler) error {
	ctx := stream.Context()
	target, st := g.resolve(ctx, info)
	if st != nil {
		return st
	}
	ps := proxyStream{ServerStream: stream, ctx: withTarget(ctx, target)}
	start := time.Now()
	err := handler(srv, ps)
	target.Timer.Observe(time.Since(start).Seconds())
	return err
}

func withTarget(ctx context.Context, t *route.Target) context.Context {
	return context.WithValue(ctx, targetKey{}, t)
}

// resolve returns the target of the call or the status to fail it with.
func (g GrpcProxyInterceptor) resolve(ctx context.Context, info *grpc.StreamServerInfo) (*route.Target, error) {
	target, err := g.lookup(ctx, info.FullMethod)
	if err != nil {
		log.Println("[ERROR] grpc: error looking up route", err)
		return nil, status.Error(codes.Internal, "internal error")
	}
	if target == nil {
		g.StatsHandler.NoRoute.Add(1)
		log.Println("[WARN] grpc: no route found for", info.FullMethod)
		return nil, status.Error(codes.NotFound, "no route found")
	}
	return target, nil
}
`, Expect: ""},
	{Name: "benign: lookup inlined into the interceptor", File: c16gh, Old: "\ttarget, err := g.lookup(ctx, info.FullMethod)\n\n\tif err != nil {\n\t\tlog.Println(\"[ERROR] grpc: error looking up route\", err)\n\t\treturn status.Error(codes.Internal, \"internal error\")\n\t}\n", New: `	md, ok := metadata.FromIncomingContext(ctx)
	if !ok {
		log.Println("[ERROR] grpc: error looking up route", "error extracting metadata from request")
		return status.Error(codes.Internal, "internal error")
	}
	reqUrl, err := url.ParseRequestURI(info.FullMethod)
	if err != nil {
		log.Print("[WARN] Error parsing grpc request url ", info.FullMethod)
		log.Println("[ERROR] grpc: error looking up route", "error parsing request url")
		return status.Error(codes.Internal, "internal error")
	}
	headers := http.Header{}
	for k, v := range md {
		for _, h := range v {
			headers.Add(k, h)
		}
	}
	req := &http.Request{Host: g.getDestinationHostFromMetadata(md), URL: reqUrl, Header: headers}
	target := route.GetTable().Lookup(req, req.Header.Get("trace"), route.Picker[g.Config.Proxy.Strategy], route.Matcher[g.Config.Proxy.Matcher], g.GlobCache, g.Config.GlobMatchingDisabled)
`, Expect: ""},
	{Name: "benign: pool entries are small structs around the connection", File: c16gh,
		Old: "\tconnections     map[string]*grpc.ClientConn\n", New: "\tconnections     map[string]*pooledConn\n",
		More: []repl{
			{"make(map[string]*grpc.ClientConn)", "make(map[string]*pooledConn)"},
			{"\tconn := p.connections[makeGRPCTargetKey(target)]\n", "\tvar conn *grpc.ClientConn\n\tif e := p.connections[makeGRPCTargetKey(target)]; e != nil {\n\t\tconn = e.conn\n\t}\n"},
			{"\tif cur := p.connections[key]; cur != nil && cur != conn && cur.GetState() != connectivity.Shutdown {\n\t\tconn.Close()\n\t\treturn cur\n\t}\n\tp.connections[key] = conn\n", "\tif e := p.connections[key]; e != nil && e.conn != conn && e.conn.GetState() != connectivity.Shutdown {\n\t\tconn.Close()\n\t\treturn e.conn\n\t}\n\tp.connections[key] = &pooledConn{conn: conn, since: time.Now()}\n"},
			{"\t\tfor tKey, cs := range p.connections {\n", "\t\tfor tKey, e := range p.connections {\n\t\t\tcs := e.conn\n"},
			{"type targetKey struct{}\n", "type targetKey struct{}\n\ntype pooledConn struct {\n\tconn  *grpc.ClientConn\n\tsince time.Time\n}\n"},
		}, Expect: ""},
	{Name: "benign: table scan replaced by a set of live keys", File: c16gh,
		Old: "\t\ttable := route.GetTable()\n", New: "\t\tlive := liveKeys(route.GetTable())\n",
		More: []repl{
			{"\t\t\tif !hasTarget(tKey, table) {\n", "\t\t\tif _, ok := live[tKey]; !ok {\n"},
			{"type targetKey struct{}\n", "type targetKey struct{}\n\nfunc liveKeys(table route.Table) map[string]struct{} {\n\tlive := make(map[string]struct{})\n\tfor _, routes := range table {\n\t\tfor _, r := range routes {\n\t\t\tfor _, t := range r.Targets {\n\t\t\t\tlive[makeGRPCTargetKey(t)] = struct{}{}\n\t\t\t}\n\t\t}\n\t}\n\treturn live\n}\n"},
		}, Expect: ""},
	{Name: "benign: pool read in a closure run by a locking wrapper", File: c16gh,
		Old:    "\tp.lock.RLock()\n\tconn := p.connections[makeGRPCTargetKey(target)]\n\tp.lock.RUnlock()\n",
		New:    "\tvar conn *grpc.ClientConn\n\tp.read(func() { conn = p.connections[makeGRPCTargetKey(target)] })\n",
		More:   []repl{{"type targetKey struct{}\n", "type targetKey struct{}\n\nfunc (p *grpcConnectionPool) read(f func()) {\n\tp.lock.RLock()\n\tdefer p.lock.RUnlock()\n\tf()\n}\n"}},
		Expect: ""},
	{Name: "benign: insert with explicit unlocks instead of defer, key computed before locking", File: c16gh,
		Old:    "\tp.lock.Lock()\n\tdefer p.lock.Unlock()\n\n\tkey := makeGRPCTargetKey(target)\n\tif cur := p.connections[key]; cur != nil && cur != conn && cur.GetState() != connectivity.Shutdown {\n\t\tconn.Close()\n\t\treturn cur\n\t}\n\tp.connections[key] = conn\n\treturn conn\n",
		New:    "\tkey := makeGRPCTargetKey(target)\n\tp.lock.Lock()\n\tif cur := p.connections[key]; cur != nil && cur != conn && cur.GetState() != connectivity.Shutdown {\n\t\tp.lock.Unlock()\n\t\tconn.Close()\n\t\treturn cur\n\t}\n\tp.connections[key] = conn\n\tp.lock.Unlock()\n\treturn conn\n",
		Expect: ""},
	{Name: "benign: janitor loop as a goroutine closure in the constructor, paced by select on time.After", File: c16gh, Old: c16origCleanup, New: `func (p *grpcConnectionPool) cleanup() {
	p.lock.Lock()
	defer p.lock.Unlock()
	table := route.GetTable()
	for tKey, cs := range p.connections {
		state := cs.GetState()
		if state != connectivity.Shutdown && hasTarget(tKey, table) {
			continue
		}
		if state != connectivity.Shutdown {
			log.Println("[DEBUG] grpc: cleaning up connection to", tKey)
			go func(cs *grpc.ClientConn, state connectivity.State) {
				ctx, cancel := context.WithTimeout(context.Background(), p.cfg.Proxy.GRPCGShutdownTimeout)
				defer cancel()
				cs.WaitForStateChange(ctx, state)
				cs.Close()
			}(cs, state)
		}
		delete(p.connections, tKey)
	}
}
`, More: []repl{{"\tgo cp.cleanup()\n", "\tgo func() {\n\t\tfor {\n\t\t\tcp.cleanup()\n\t\t\tselect {\n\t\t\tcase <-time.After(cp.cleanupInterval):\n\t\t\t}\n\t\t}\n\t}()\n"}}, Expect: ""},

	// ---- breaking ---------------------------------------------------------------------------------------------------------
	{Name: "wrapper stream answers with the embedded stream's context", File: c16gh, Old: "func (p proxyStream) Context() context.Context {\n\treturn p.ctx\n}", New: "func (p proxyStream) Context() context.Context {\n\treturn p.ServerStream.Context()\n}", Expect: "C16.G1"},
	{Name: "wrapper stream loses its Context method", File: c16gh, Old: "func (p proxyStream) Context() context.Context {\n\treturn p.ctx\n}", New: "func (p proxyStream) context() context.Context {\n\treturn p.ctx\n}", Expect: "C16.G1"},
	{Name: "live set built from the dial addresses", File: c16gh,
		Old: "\t\ttable := route.GetTable()\n", New: "\t\tlive := liveKeys(route.GetTable())\n",
		More: []repl{
			{"\t\t\tif !hasTarget(tKey, table) {\n", "\t\t\tif _, ok := live[tKey]; !ok {\n"},
			{"type targetKey struct{}\n", "type targetKey struct{}\n\nfunc liveKeys(table route.Table) map[string]struct{} {\n\tlive := make(map[string]struct{})\n\tfor _, routes := range table {\n\t\tfor _, r := range routes {\n\t\t\tfor _, t := range r.Targets {\n\t\t\t\tlive[t.URL.Host] = struct{}{}\n\t\t\t}\n\t\t}\n\t}\n\treturn live\n}\n"},
		}, Expect: "C16.P3"},
	{Name: "locking wrapper forgets the lock", File: c16gh,
		Old:    "\tp.lock.RLock()\n\tconn := p.connections[makeGRPCTargetKey(target)]\n\tp.lock.RUnlock()\n",
		New:    "\tvar conn *grpc.ClientConn\n\tp.read(func() { conn = p.connections[makeGRPCTargetKey(target)] })\n",
		More:   []repl{{"type targetKey struct{}\n", "type targetKey struct{}\n\nfunc (p *grpcConnectionPool) read(f func()) {\n\tf()\n}\n"}},
		Expect: "C16.P1"},
	{Name: "status helper lets a call without a route through", File: c16gh, Old: c16origStream, New: `func (g GrpcProxyInterceptor) Stream(srv interface{}, stream grpc.ServerStream, info *grpc.StreamServerInfo, handler grpc.StreamHandler) error {
	ctx := stream.Context()
	target, st := g.resolve(ctx, info)
	if st != nil {
		return st
	}
	ps := proxyStream{ServerStream: stream, ctx: context.WithValue(ctx, targetKey{}, target)}
	return handler(srv, ps)
}

func (g GrpcProxyInterceptor) resolve(ctx context.Context, info *grpc.StreamServerInfo) (*route.Target, error) {
	target, err := g.lookup(ctx, info.FullMethod)
	if err != nil {
		log.Println("[ERROR] grpc: error looking up route", err)
		return nil, status.Error(codes.Internal, "internal error")
	}
	if target == nil {
		g.StatsHandler.NoRoute.Add(1)
		log.Println("[WARN] grpc: no route found for", info.FullMethod)
	}
	return target, nil
}
`, Expect: "C16.G1"},
	{Name: "handler receives the original stream", File: c16gh, Old: "\terr = handler(srv, proxyStream)\n", New: "\t_ = proxyStream\n\terr = handler(srv, stream)\n", Expect: "C16.G1"},
	{Name: "lookup error reported as NotFound", File: c16gh, Old: "return status.Error(codes.Internal, \"internal error\")", New: "return status.Error(codes.NotFound, \"internal error\")", Expect: "C16.G1"},
	{Name: "helper-shaped interceptor proxies without a target", File: c16gh, Old: c16origStream, New: `func (g GrpcProxyInterceptor) Stream(srv interface{}, stream grpc.ServerStream, info *grpc.StreamServerInfo, handler grpc.StreamHandler) error {
	ctx := stream.Context()
	target, err := g.lookup(ctx, info.FullMethod)
	if err != nil {
		log.Println("[ERROR] grpc: error looking up route", err)
		return status.Error(codes.Internal, "internal error")
	}
	if target == nil {
		g.StatsHandler.NoRoute.Add(1)
		log.Println("[WARN] grpc: no route found for", info.FullMethod)
	}
	return g.proxyTo(target, srv, stream, ctx, handler)
}

func (g GrpcProxyInterceptor) proxyTo(target *route.Target, srv interface{}, stream grpc.ServerStream, ctx context.Context, handler grpc.StreamHandler) error {
	return handler(srv, proxyStream{ServerStream: stream, ctx: context.WithValue(ctx, targetKey{}, target)})
}
`, Expect: "C16.G1"},
	{Name: "handler error dropped", File: c16gh, Old: "\ttarget.Timer.Observe(dur.Seconds())\n\n\treturn err", New: "\ttarget.Timer.Observe(dur.Seconds())\n\t_ = err\n\n\treturn nil", Expect: "C16.G2"},
	{Name: "helper-shaped interceptor wraps the handler's error", File: c16gh,
		Old:    "\terr = handler(srv, proxyStream)\n",
		New:    "\terr = g.forward(srv, proxyStream, handler)\n",
		More:   []repl{{"type targetKey struct{}\n", "type targetKey struct{}\n\nfunc (g GrpcProxyInterceptor) forward(srv interface{}, s grpc.ServerStream, handler grpc.StreamHandler) error {\n\tif err := handler(srv, s); err != nil {\n\t\treturn fmt.Errorf(\"proxy: %w\", err)\n\t}\n\treturn nil\n}\n"}},
		Expect: "C16.G2"},
	{Name: "director asserts another type", File: c16gh, Old: "target, _ := ctx.Value(targetKey{}).(*route.Target)", New: "tv, _ := ctx.Value(targetKey{}).(route.Target)\n\t\ttarget := &tv", Expect: "C16.K1"},
	{Name: "director returns the incoming context with the connection", File: c16gh, Old: "\t\treturn outCtx, conn, err\n", New: "\t\treturn ctx, conn, err\n", Expect: "C16.M1"},
	{Name: "director copies the metadata of a fresh context", File: c16gh, Old: "md, ok := metadata.FromIncomingContext(ctx)\n\n\t\tif !ok {\n\t\t\treturn ctx, nil", New: "md, ok := metadata.FromIncomingContext(context.Background())\n\n\t\tif !ok {\n\t\t\treturn ctx, nil", Expect: "C16.M1"},
	{Name: "director dials instead of using the pool", File: c16gh, Old: "conn, err := connectionPool.Get(outCtx, target)", New: "_ = connectionPool\n\t\tconn, err := grpc.DialContext(outCtx, target.URL.Host, grpc.WithInsecure())", Expect: "C16.M1"},
	{Name: "transparent handler driven by a foreign director", File: "main.go", Old: "handler := grpc_proxy.TransparentHandler(proxy.GetGRPCDirector(tlscfg, cfg))", New: "_ = proxy.GetGRPCDirector(tlscfg, cfg)\n\thandler := grpc_proxy.TransparentHandler(func(ctx context.Context, m string) (context.Context, *grpc.ClientConn, error) {\n\t\treturn ctx, nil, fmt.Errorf(\"no director\")\n\t})", Expect: "C16.W1"},
	{Name: "limits helper swaps its arguments", File: "main.go", Old: c16origOpts, New: `	opts := []grpc.ServerOption{grpc.CustomCodec(grpc_proxy.Codec()), grpc.UnknownServiceHandler(handler), grpc.StreamInterceptor(proxyInterceptor.Stream), grpc.StatsHandler(statsHandler)}
	return append(opts, grpcLimits(cfg.Proxy.GRPCMaxTxMsgSize, cfg.Proxy.GRPCMaxRxMsgSize)...)
}

func grpcLimits(rx, tx int) []grpc.ServerOption {
	return []grpc.ServerOption{grpc.MaxRecvMsgSize(rx), grpc.MaxSendMsgSize(tx)}
}
`, Expect: "C16.W1"},
	{Name: "route matched against a constant path", File: c16gh, Old: "reqUrl, err := url.ParseRequestURI(fullMethodName)", New: "reqUrl, err := url.ParseRequestURI(\"/\")", Expect: "C16.L1"},
	{Name: "first of several dsthost values used", File: c16gh, Old: "\tif len(hosts) == 1 {\n", New: "\tif len(hosts) >= 1 {\n", Expect: "C16.L1"},
	{Name: "lookup on an empty table", File: c16gh, Old: "return route.GetTable().Lookup(", New: "return route.Table{}.Lookup(", Expect: "C16.L1"},
	{Name: "helper-shaped pool read without the lock", File: c16gh,
		Old:    "\tp.lock.RLock()\n\tconn := p.connections[makeGRPCTargetKey(target)]\n\tp.lock.RUnlock()\n",
		New:    "\tconn := p.find(makeGRPCTargetKey(target))\n",
		More:   []repl{{"type targetKey struct{}\n", "type targetKey struct{}\n\nfunc (p *grpcConnectionPool) find(key string) *grpc.ClientConn {\n\treturn p.connections[key]\n}\n"}},
		Expect: "C16.P1"},
	{Name: "helper-shaped pool read keyed by host", File: c16gh,
		Old:    "\tp.lock.RLock()\n\tconn := p.connections[makeGRPCTargetKey(target)]\n\tp.lock.RUnlock()\n",
		New:    "\tconn := p.find(target.URL.Host)\n",
		More:   []repl{{"type targetKey struct{}\n", "type targetKey struct{}\n\nfunc (p *grpcConnectionPool) find(key string) *grpc.ClientConn {\n\tp.lock.RLock()\n\tdefer p.lock.RUnlock()\n\treturn p.connections[key]\n}\n"}},
		Expect: "C16.P1"},
	{Name: "inlined pool key without the scheme in Get", File: c16gh, Old: "conn := p.connections[makeGRPCTargetKey(target)]", New: "conn := p.connections[target.URL.Host]", Expect: "C16.P1"},
	{Name: "second key function without the scheme", File: c16gh, Old: "\tkey := makeGRPCTargetKey(target)\n\tif cur := p.connections[key]", New: "\tkey := hostKey(target)\n\tif cur := p.connections[key]",
		More: []repl{{"type targetKey struct{}\n", "type targetKey struct{}\n\nfunc hostKey(t *route.Target) string { return t.URL.Host }\n"}}, Expect: "C16.P4"},
	{Name: "helper-shaped insert whose re-check looks at another key", File: c16gh, Old: c16origSet, New: `	key := makeGRPCTargetKey(target)
	if cur := p.usableLocked(target.URL.Host); cur != nil && cur != conn {
		conn.Close()
		return cur
	}
	p.connections[key] = conn
	return conn
}

func (p *grpcConnectionPool) usableLocked(key string) *grpc.ClientConn {
	if cur := p.connections[key]; cur != nil && cur.GetState() != connectivity.Shutdown {
		return cur
	}
	return nil
}
`, Expect: "C16.P2"},
	{Name: "surplus connection not closed", File: c16gh, Old: "\t\tconn.Close()\n\t\treturn cur\n", New: "\t\treturn cur\n", Expect: "C16.P2"},
	{Name: "janitor never started", File: c16gh, Old: "\tgo cp.cleanup()\n", New: "", Expect: "C16.P3"},
	{Name: "entries of vanished targets are closed but stay in the pool", File: c16gh, Old: "\t\t\t\t}(cs, state)\n\t\t\t\tdelete(p.connections, tKey)\n", New: "\t\t\t\t}(cs, state)\n", Expect: "C16.P3"},
	{Name: "entries of routed targets are dropped instead", File: c16gh, Old: "if !hasTarget(tKey, table) {", New: "if hasTarget(tKey, table) {", Expect: "C16.P3"},
	{Name: "membership tested against the dial address", File: c16gh, Old: "if tKey == makeGRPCTargetKey(t) {", New: "if tKey == t.URL.Host {", Expect: "C16.P3"},
	{Name: "sweep runs once, not in a loop", File: c16gh, Old: c16origCleanup, New: `func (p *grpcConnectionPool) cleanup() {
	time.Sleep(p.cleanupInterval)
	p.lock.Lock()
	defer p.lock.Unlock()
	table := route.GetTable()
	for tKey, cs := range p.connections {
		if cs.GetState() == connectivity.Shutdown || !hasTarget(tKey, table) {
			cs.Close()
			delete(p.connections, tKey)
		}
	}
}
`, Expect: "C16.P3"},
	{Name: "helper-shaped pause while the lock is held", File: c16gh, Old: "\t\tp.lock.Unlock()\n\t\ttime.Sleep(p.cleanupInterval)", New: "\t\tp.pause()\n\t\tp.lock.Unlock()",
		More: []repl{{"type targetKey struct{}\n", "type targetKey struct{}\n\nfunc (p *grpcConnectionPool) pause() { time.Sleep(p.cleanupInterval) }\n"}}, Expect: "C16.P3"},
	{Name: "second metadata key feeds the host through MD.Get", File: c16gh, Old: c16origDstHost, New: `func (g GrpcProxyInterceptor) getDestinationHostFromMetadata(md metadata.MD) string {
	hosts := md.Get("dsthost")
	if len(hosts) == 0 {
		hosts = md.Get("host")
	}
	if len(hosts) != 1 {
		return ""
	}
	return hosts[0]
}
`, Expect: "C16.H1"},
}
