package main

// Rules of C10 added after the fourth round of independently written breaking changes (DESIGN 11.12); wired in
// zzz_round4.go. Both protect the FIRST clause of the property ("the server name fabio extracts equals the name a
// standard TLS server receives from the same bytes"), of which the older rules (memory safety, buffer size) say
// nothing: a ClientHello that crypto/tls accepts and names must not be turned away - or renamed - by fabio because of
// something a TLS server does not look at.
//
//   F1  fields a TLS server ignores when it extracts the name do not decide the verdict: the record-layer version
//       of the first record (record bytes 1-2; RFC 8446 5.1 "MUST be ignored for all purposes", RFC 5246 E.1;
//       crypto/tls refuses only values >= 0x1000), the hello's legacy_version and random (record bytes 9-42).
//   N1  the name is handed to the route lookup as it was received: no rejection is decided by its content (other than
//       by its being empty, or by the trailing dot crypto/tls refuses itself) and it is not rewritten on the way.
//
// Both are instances of one small engine: SOURCES (values assembled from the bytes in question, found by their
// POSITION in the record - the position of a helper's parameter is what all its call sites pass) are followed forward
// through the region of the SNI handler (arithmetic, merges, locals, struct fields, helper parameters and results,
// and the verdict of a helper that branches on them); a branch on a tainted condition is DECIDING when exactly one of
// its two edges is a reject edge (nothing reachable from it reports success: a non-failure return in a parser or
// helper function, the route lookup in the handler). Nothing is keyed by the name of an unexported function, a line
// or the text of a statement.

import (
	"fmt"
	"go/token"
	"go/types"

	"golang.org/x/tools/go/ssa"
)

// c10envRound4 is the role resolution of the current run (set by runC10; nil when the roles were not resolved).
var c10envRound4 *c10env

func init() {
	const hello = "proxy/tcp/tls_clienthello.go"
	const handler = "proxy/tcp/sni_proxy.go"
	addRound4("C10", "(F1) no rejection is decided by a field a TLS server ignores when it extracts the server name: a branch of the SNI handler region whose condition depends on the record-layer version of the first record (record bytes 1-2, found by position through helper parameters, byte-order helpers, locals and struct fields) must not lead to rejection for any version below 0x1000 (the only values crypto/tls refuses; every such version is tried against the condition), and one that depends on the hello's legacy_version or random (record bytes 9-42) must not lead to rejection at all: otherwise a well-formed ClientHello that a standard TLS server names (an OpenSSL 1.0.x client writes record version 0x0300) is not routed.", runC10F1,
		mutant{Name: "record version must be 0x0301..0x0303 (seed 7)", File: hello, Expect: "C10.F1",
			Old: "\trecordLength := int(data[3])<<8 | int(data[4])\n",
			New: "\trecordVersion := int(data[1])<<8 | int(data[2])\n\tif recordVersion < 0x0301 || recordVersion > 0x0303 {\n\t\treturn 0, errors.New(\"Unsupported TLS record version\")\n\t}\n\trecordLength := int(data[3])<<8 | int(data[4])\n"},
		mutant{Name: "major version byte of the record must be 3", File: hello, Expect: "C10.F1",
			Old: "\tif data[0] != 0x16 {", New: "\tif data[0] != 0x16 || data[1] != 0x03 {"},
		mutant{Name: "record version tested by the handler on the peeked bytes", File: handler, Expect: "C10.F1",
			Old: "\tbufferSize, err := clientHelloBufferSize(tlsHeaders)\n",
			New: "\tif tlsHeaders[2] > 3 {\n\t\treturn nil\n\t}\n\tbufferSize, err := clientHelloBufferSize(tlsHeaders)\n"},
		mutant{Name: "record version tested by a helper with a switch (verdict of the helper decides)", File: hello, Expect: "C10.F1",
			Old:  "\trecordLength := int(data[3])<<8 | int(data[4])\n",
			New:  "\tif !knownRecordVersion(data) {\n\t\treturn 0, errors.New(\"Unsupported TLS record version\")\n\t}\n\trecordLength := int(data[3])<<8 | int(data[4])\n",
			More: []repl{{"// readServerName returns the server name", "func knownRecordVersion(hdr []byte) bool {\n\tif len(hdr) < 3 {\n\t\treturn false\n\t}\n\tswitch uint16(hdr[1])<<8 | uint16(hdr[2]) {\n\tcase 0x0301, 0x0302, 0x0303:\n\t\treturn true\n\t}\n\treturn false\n}\n\n// readServerName returns the server name"}}},
		mutant{Name: "record version tested by a switch with a rejecting default", File: hello, Expect: "C10.F1",
			Old: "\trecordLength := int(data[3])<<8 | int(data[4])\n",
			New: "\tswitch int(data[1])<<8 | int(data[2]) {\n\tcase 0x0301, 0x0302, 0x0303, 0x0304:\n\tdefault:\n\t\treturn 0, errors.New(\"Unsupported TLS record version\")\n\t}\n\trecordLength := int(data[3])<<8 | int(data[4])\n"},
		mutant{Name: "record version judged by a helper that returns a computed flag", File: hello, Expect: "C10.F1",
			Old:  "\trecordLength := int(data[3])<<8 | int(data[4])\n",
			New:  "\tif !recordVersionOK(data) {\n\t\treturn 0, errors.New(\"Unsupported TLS record version\")\n\t}\n\trecordLength := int(data[3])<<8 | int(data[4])\n",
			More: []repl{{"// readServerName returns the server name", "func recordVersionOK(hdr []byte) bool {\n\tv := int(hdr[1])<<8 | int(hdr[2])\n\treturn v >= 0x0301 && v <= 0x0304\n}\n\n// readServerName returns the server name"}}},
		mutant{Name: "hello older than TLS 1.0 refused by the parser (legacy_version through the message field)", File: hello, Expect: "C10.F1",
			Old: "\tm.random = data[6:38]\n", New: "\tm.random = data[6:38]\n\tif m.vers < 0x0301 {\n\t\treturn false\n\t}\n"},
		mutant{Name: "legacy_version above TLS 1.2 refused after parsing", File: hello, Expect: "C10.F1",
			Old: "\treturn m.serverName, true\n", New: "\tif m.vers > 0x0303 {\n\t\treturn \"\", false\n\t}\n\treturn m.serverName, true\n"},
		mutant{Name: "hello with a zero random refused", File: hello, Expect: "C10.F1",
			Old: "\tm.random = data[6:38]\n", New: "\tm.random = data[6:38]\n\tif data[6] == 0 && data[37] == 0 {\n\t\treturn false\n\t}\n"},
		mutant{Name: "benign: first record refused only for versions >= 16.0, as crypto/tls does (major byte)", File: hello, Expect: "",
			Old: "\trecordLength := int(data[3])<<8 | int(data[4])\n",
			New: "\tif data[1] >= 0x10 {\n\t\treturn 0, errors.New(\"Not a TLS handshake\")\n\t}\n\trecordLength := int(data[3])<<8 | int(data[4])\n"},
		mutant{Name: "benign: first record refused only for versions >= 0x1000 (16-bit value, mask)", File: hello, Expect: "",
			Old: "\trecordLength := int(data[3])<<8 | int(data[4])\n",
			New: "\tif v := uint16(data[1])<<8 | uint16(data[2]); v&0xf000 != 0 {\n\t\treturn 0, errors.New(\"Not a TLS handshake\")\n\t}\n\trecordLength := int(data[3])<<8 | int(data[4])\n"},
		mutant{Name: "benign: a helper refuses only versions >= 16.0 (its computed flag is evaluated through the call)", File: hello, Expect: "",
			Old:  "\trecordLength := int(data[3])<<8 | int(data[4])\n",
			New:  "\tif implausibleVersion(data) {\n\t\treturn 0, errors.New(\"Not a TLS handshake\")\n\t}\n\trecordLength := int(data[3])<<8 | int(data[4])\n",
			More: []repl{{"// readServerName returns the server name", "func implausibleVersion(hdr []byte) bool {\n\tmajor := hdr[1]\n\treturn major >= 0x10\n}\n\n// readServerName returns the server name"}}},
		mutant{Name: "benign: record type and plausible version kept in one flag", File: hello, Expect: "",
			Old: "\tif data[0] != 0x16 {", New: "\tplausible := data[0] == 0x16 && data[1] < 0x10\n\tif !plausible {"},
		mutant{Name: "record type and major version 3 kept in one flag", File: hello, Expect: "C10.F1",
			Old: "\tif data[0] != 0x16 {", New: "\tplausible := data[0] == 0x16 && data[1] == 3\n\tif !plausible {"},
		mutant{Name: "benign: record version only mentioned in an error text", File: hello, Expect: "",
			Old: "\t\treturn 0, errors.New(\"Not a client hello\")\n", New: "\t\treturn 0, fmt.Errorf(\"Not a client hello (record version %d.%d)\", data[1], data[2])\n",
			More: []repl{{"import \"errors\"", "import (\n\t\"errors\"\n\t\"fmt\"\n)"}}},
	)
	addRound4("C10", "(N1) the server name is handed to the route lookup as it was received: a branch of the SNI handler region whose condition depends on the content of the name (the string converted from bytes of the hello, followed through fields, helper parameters and results, library calls on it, its length and its bytes) must not lead to rejection, except for the empty name and for the trailing dot that crypto/tls refuses itself, and the argument of the route lookup is that string itself, not the result of a call on it: crypto/tls hands every other non-empty name to the application unchanged, so a filter or a normalisation makes fabio route on a different name than a standard TLS server sees, or not at all.", runC10N1,
		mutant{Name: "host-name shape filter with the empty label handled (seed 8 without its panic)", File: hello, Expect: "C10.N1",
			Old: "\treturn m.serverName, true\n", New: "\tif m.serverName != \"\" && !validServerName(m.serverName) {\n\t\treturn \"\", false\n\t}\n\treturn m.serverName, true\n",
			More: []repl{{"import \"errors\"", "import (\n\t\"errors\"\n\t\"strings\"\n)"},
				{"// The code below is a verbatim copy", "func validServerName(name string) bool {\n\tname = strings.TrimSuffix(name, \".\")\n\tif name == \"\" || len(name) > 253 {\n\t\treturn false\n\t}\n\tfor _, label := range strings.Split(name, \".\") {\n\t\tif len(label) == 0 || len(label) > 63 || strings.HasPrefix(label, \"-\") || strings.HasSuffix(label, \"-\") {\n\t\t\treturn false\n\t\t}\n\t}\n\treturn true\n}\n\n// The code below is a verbatim copy"}}},
		mutant{Name: "names longer than 253 bytes refused after parsing", File: hello, Expect: "C10.N1",
			Old: "\treturn m.serverName, true\n", New: "\tif len(m.serverName) > 253 {\n\t\treturn \"\", false\n\t}\n\treturn m.serverName, true\n"},
		mutant{Name: "handler refuses names with characters it does not like", File: handler, Expect: "C10.N1",
			Old: "\tif host == \"\" {", New: "\tif host == \"\" || strings.ContainsAny(host, \"_*\") {",
			More: []repl{{"\t\"net\"\n", "\t\"net\"\n\t\"strings\"\n"}}},
		mutant{Name: "bytes of the name filtered before the conversion", File: hello, Expect: "C10.N1",
			Old: "\t\t\t\t\tm.serverName = string(d[:nameLen])\n", New: "\t\t\t\t\tnm := d[:nameLen]\n\t\t\t\t\tfor _, ch := range nm {\n\t\t\t\t\t\tif ch <= ' ' || ch >= 0x7f {\n\t\t\t\t\t\t\treturn false\n\t\t\t\t\t\t}\n\t\t\t\t\t}\n\t\t\t\t\tm.serverName = string(nm)\n"},
		mutant{Name: "bytes of the name filtered through a second slice expression of the same bytes", File: hello, Expect: "C10.N1",
			Old: "\t\t\t\t\tm.serverName = string(d[:nameLen])\n", New: "\t\t\t\t\tfor _, ch := range d[:nameLen] {\n\t\t\t\t\t\tif ch == '_' {\n\t\t\t\t\t\t\treturn false\n\t\t\t\t\t\t}\n\t\t\t\t\t}\n\t\t\t\t\tm.serverName = string(d[:nameLen])\n"},
		mutant{Name: "name lower-cased by the handler before the lookup", File: handler, Expect: "C10.N1",
			Old: "\tt := p.Lookup(host)\n", New: "\tt := p.Lookup(strings.ToLower(host))\n",
			More: []repl{{"\t\"net\"\n", "\t\"net\"\n\t\"strings\"\n"}}},
		mutant{Name: "trailing dot stripped by the parser", File: hello, Expect: "C10.N1",
			Old: "\treturn m.serverName, true\n", New: "\treturn strings.TrimSuffix(m.serverName, \".\"), true\n",
			More: []repl{{"import \"errors\"", "import (\n\t\"errors\"\n\t\"strings\"\n)"}}},
		mutant{Name: "benign: name with a trailing dot refused, as crypto/tls does", File: hello, Expect: "",
			Old: "\treturn m.serverName, true\n", New: "\tif strings.HasSuffix(m.serverName, \".\") {\n\t\treturn \"\", false\n\t}\n\treturn m.serverName, true\n",
			More: []repl{{"import \"errors\"", "import (\n\t\"errors\"\n\t\"strings\"\n)"}}},
		mutant{Name: "benign: trailing dot refused, spelled with an index behind an emptiness test", File: hello, Expect: "",
			Old: "\treturn m.serverName, true\n", New: "\tif n := len(m.serverName); n > 0 && m.serverName[n-1] == '.' {\n\t\treturn \"\", false\n\t}\n\treturn m.serverName, true\n"},
		mutant{Name: "leading dot refused, spelled with an index behind an emptiness test", File: hello, Expect: "C10.N1",
			Old: "\treturn m.serverName, true\n", New: "\tif n := len(m.serverName); n > 0 && m.serverName[0] == '.' {\n\t\treturn \"\", false\n\t}\n\treturn m.serverName, true\n"},
		mutant{Name: "benign: empty name tested by its length, verdict kept in a flag", File: handler, Expect: "",
			Old: "\tif host == \"\" {", New: "\tmissing := len(host) == 0\n\tif missing {"},
		mutant{Name: "benign: name logged before the lookup", File: handler, Expect: "",
			Old: "\tt := p.Lookup(host)\n", New: "\tlog.Printf(\"[DEBUG] tcp+sni: server_name %q (%d bytes)\", host, len(host))\n\tt := p.Lookup(host)\n"},
	)
}

// ---- the flow engine -----------------------------------------------------------------------------------------------------

// c10flow follows values forward through the functions of the SNI handler region. identity restricts it to MOVES of the
// value itself (merges, locals, fields, parameters, results): what arrives is the source, not something computed from it.
type c10flow struct {
	fns      []*ssa.Function
	in       map[*ssa.Function]bool
	src      func(v ssa.Value) bool
	identity bool
	val      map[ssa.Value]bool
	field    map[string]bool
	ret      map[*ssa.Function]map[int]bool
	retData  map[*ssa.Function]map[int]bool // the subset of ret in which a tainted VALUE is returned
	ctl      map[*ssa.Function]bool         // the function branches on a tainted condition: its verdict depends on the source
	dirty    bool
}

func c10scope(e *c10env) []*ssa.Function {
	var out []*ssa.Function
	seen := map[*ssa.Function]bool{}
	for _, l := range [][]*ssa.Function{e.all, e.pfns} {
		for _, f := range l {
			if !seen[f] && len(f.Blocks) > 0 {
				seen[f] = true
				out = append(out, f)
			}
		}
	}
	return out
}

func newC10Flow(fns []*ssa.Function, identity bool, src func(ssa.Value) bool) *c10flow {
	x := &c10flow{fns: fns, in: map[*ssa.Function]bool{}, src: src, identity: identity, val: map[ssa.Value]bool{},
		field: map[string]bool{}, ret: map[*ssa.Function]map[int]bool{}, retData: map[*ssa.Function]map[int]bool{}, ctl: map[*ssa.Function]bool{}}
	for _, f := range fns {
		x.in[f] = true
	}
	for round := 0; round < 40; round++ {
		x.dirty = false
		for _, f := range fns {
			x.step(f)
		}
		if !x.dirty {
			break
		}
	}
	return x
}

func (x *c10flow) mark(v ssa.Value) {
	if v != nil && !x.val[v] {
		x.val[v] = true
		x.dirty = true
	}
}

func (x *c10flow) setRet(f *ssa.Function, idx int) {
	if x.ret[f] == nil {
		x.ret[f] = map[int]bool{}
	}
	if !x.ret[f][idx] {
		x.ret[f][idx] = true
		x.dirty = true
	}
}

func c10structFieldKey(t types.Type, idx int) string {
	if p, ok := t.Underlying().(*types.Pointer); ok {
		t = p.Elem()
	}
	if _, ok := t.Underlying().(*types.Struct); !ok {
		return ""
	}
	return fmt.Sprintf("%s#%d", typeStr(t.Underlying()), idx)
}

func (x *c10flow) any(vs ...ssa.Value) bool {
	for _, v := range vs {
		if v != nil && x.val[v] {
			return true
		}
	}
	return false
}

func (x *c10flow) step(f *ssa.Function) {
	eachInstr(f, func(i ssa.Instruction) {
		if v, ok := i.(ssa.Value); ok && !x.val[v] && x.src(v) {
			x.mark(v)
		}
		switch in := i.(type) {
		case *ssa.BinOp:
			if !x.identity && x.any(in.X, in.Y) {
				x.mark(in)
			}
		case *ssa.UnOp:
			if in.Op == token.MUL {
				// a load: of a tainted cell (local, captured variable, element of a tainted slice), or of a tainted field
				if x.val[in.X] {
					x.mark(in)
				} else if fa, ok := in.X.(*ssa.FieldAddr); ok && x.field[c10structFieldKey(fa.X.Type(), fa.Field)] {
					x.mark(in)
				}
			} else if !x.identity && x.val[in.X] {
				x.mark(in)
			}
		case *ssa.Convert:
			if !x.identity && x.val[in.X] {
				x.mark(in)
			}
		case *ssa.ChangeType:
			if x.val[in.X] {
				x.mark(in)
			}
		case *ssa.MakeInterface:
			if !x.identity && x.val[in.X] {
				x.mark(in)
			}
		case *ssa.Phi:
			for _, ed := range in.Edges {
				if x.val[ed] {
					x.mark(in)
				}
			}
			if !x.identity && !x.val[in] && x.mergesTaintedBranch(in) {
				x.mark(in)
			}
		case *ssa.Extract:
			if call, ok := in.Tuple.(*ssa.Call); ok {
				if gs := x.callees(call); len(gs) > 0 {
					for _, g := range gs {
						if x.ret[g][in.Index] {
							x.mark(in)
						}
					}
					return
				}
			}
			if x.val[in.Tuple] {
				x.mark(in)
			}
		case *ssa.Call:
			x.call(in)
		case *ssa.Index:
			if !x.identity && x.any(in.X, in.Index) {
				x.mark(in)
			}
		case *ssa.Lookup:
			if !x.identity && x.any(in.X, in.Index) {
				x.mark(in)
			}
		case *ssa.IndexAddr:
			if !x.identity && x.any(in.X, in.Index) {
				x.mark(in) // the address of an element of a tainted sequence: what is loaded from it is tainted
			}
		case *ssa.Slice:
			if !x.identity && x.val[in.X] {
				x.mark(in)
			}
		case *ssa.Field:
			if x.val[in.X] || x.field[c10structFieldKey(in.X.Type(), in.Field)] {
				x.mark(in)
			}
		case *ssa.Range:
			if !x.identity && x.val[in.X] {
				x.mark(in)
			}
		case *ssa.Next:
			if !x.identity && x.val[in.Iter] {
				x.mark(in)
			}
		case *ssa.Store:
			if !x.val[in.Val] {
				return
			}
			switch a := in.Addr.(type) {
			case *ssa.FieldAddr:
				if k := c10structFieldKey(a.X.Type(), a.Field); k != "" && !x.field[k] {
					x.field[k] = true
					x.dirty = true
				}
			case *ssa.IndexAddr:
				if _, isAlloc := a.X.(*ssa.Alloc); isAlloc && !x.identity {
					x.mark(a.X)
				}
			default:
				x.mark(in.Addr) // a local, a captured variable, a package variable, a pointer parameter
			}
		case *ssa.MakeClosure:
			if g, ok := in.Fn.(*ssa.Function); ok {
				for k, b := range in.Bindings {
					if x.val[b] && k < len(g.FreeVars) {
						x.mark(g.FreeVars[k])
					}
				}
			}
		case *ssa.Return:
			for k, r := range in.Results {
				if x.val[r] {
					x.setRet(f, k)
					if x.forwardsVerdict(r, 0) {
						continue // the verdict of a helper handed on: decided inside that helper, not a computed value
					}
					if x.retData[f] == nil {
						x.retData[f] = map[int]bool{}
					}
					if !x.retData[f][k] {
						x.retData[f][k] = true
						x.dirty = true
					}
				}
			}
		case *ssa.If:
			if !x.identity && x.val[in.Cond] && !x.ctl[f] {
				x.ctl[f] = true
				x.dirty = true
			}
		}
	})
	if x.ctl[f] {
		// the function branches on the source: the results in which its returns differ depend on it
		var rets []*ssa.Return
		eachInstr(f, func(i ssa.Instruction) {
			if r, ok := i.(*ssa.Return); ok {
				rets = append(rets, r)
			}
		})
		for k := 0; len(rets) > 1 && k < len(rets[0].Results); k++ {
			same := true
			for _, r := range rets[1:] {
				if k >= len(r.Results) || !c10sameConstOrValue(rets[0].Results[k], r.Results[k]) {
					same = false
				}
			}
			if !same {
				x.setRet(f, k)
			}
		}
	}
}

func c10sameOperand(a, b ssa.Value) bool {
	if a == nil || b == nil {
		return a == nil && b == nil
	}
	return c10sameConstOrValue(a, b)
}

func c10sameConstOrValue(a, b ssa.Value) bool {
	if a == b {
		return true
	}
	ca, ok1 := a.(*ssa.Const)
	cb, ok2 := b.(*ssa.Const)
	if !ok1 || !ok2 {
		return false
	}
	if ca.Value == nil || cb.Value == nil {
		return ca.Value == nil && cb.Value == nil
	}
	return ca.Value.ExactString() == cb.Value.ExactString()
}

// forwardsVerdict: v is a result of a helper of the scope that depends on the source only through the helper's own
// branches (or a merge of such results and constants).
func (x *c10flow) forwardsVerdict(v ssa.Value, depth int) bool {
	switch y := v.(type) {
	case *ssa.Call:
		gs := x.callees(y)
		for _, g := range gs {
			if x.retData[g][0] {
				return false
			}
		}
		return len(gs) > 0
	case *ssa.Extract:
		call, ok := y.Tuple.(*ssa.Call)
		if !ok {
			return false
		}
		gs := x.callees(call)
		for _, g := range gs {
			if x.retData[g][y.Index] {
				return false
			}
		}
		return len(gs) > 0
	case *ssa.Phi:
		if depth > 3 || x.mergesTaintedBranch(y) {
			return false
		}
		for _, ed := range y.Edges {
			if _, isK := ed.(*ssa.Const); isK || !x.val[ed] {
				continue
			}
			if !x.forwardsVerdict(ed, depth+1) {
				return false
			}
		}
		return true
	}
	return false
}

// callees: the functions of the scope a call can enter (static callee, or the closures / named functions a func value
// denotes); nil for library functions, builtins and calls through interfaces and callbacks.
func (x *c10flow) callees(call *ssa.Call) []*ssa.Function {
	if _, isB := call.Call.Value.(*ssa.Builtin); isB || call.Call.IsInvoke() {
		return nil
	}
	if g := call.Call.StaticCallee(); g != nil {
		if x.in[g] {
			return []*ssa.Function{g}
		}
		return nil
	}
	var out []*ssa.Function
	for _, g := range funcsOf(call.Call.Value) {
		if x.in[g] {
			out = append(out, g)
		}
	}
	return out
}

func (x *c10flow) call(call *ssa.Call) {
	if gs := x.callees(call); len(gs) > 0 {
		for _, g := range gs {
			for k, a := range call.Call.Args {
				if x.val[a] && k < len(g.Params) {
					x.mark(g.Params[k])
				}
			}
			if call.Call.Signature().Results().Len() == 1 && x.ret[g][0] {
				x.mark(call)
			}
		}
		return
	}
	_, isBuiltin := call.Call.Value.(*ssa.Builtin)
	if x.identity || call.Call.IsInvoke() || (!isBuiltin && call.Call.StaticCallee() == nil) {
		return // the route lookup and other callbacks: what they answer is not a function of the bytes alone
	}
	// a library function or a builtin: what it computes from a tainted argument is tainted (not the error or other
	// interface value it may hand back: that carries a text, not a verdict)
	res := call.Call.Signature().Results()
	if res.Len() == 1 {
		if _, isIface := res.At(0).Type().Underlying().(*types.Interface); isIface {
			return
		}
	}
	if res.Len() > 0 && x.any(call.Call.Args...) {
		x.mark(call)
	}
}

// mergesTaintedBranch: the merge p joins paths that a tainted branch condition tells apart (`valid := true; if bad {
// valid = false }`): its value depends on that condition although no operand does.
func (x *c10flow) mergesTaintedBranch(p *ssa.Phi) bool {
	here := map[ssa.Value]bool{}
	for _, f := range localFactsAt(p.Block()) {
		here[f.Cond] = true
	}
	for k, pred := range p.Block().Preds {
		if k >= len(p.Edges) {
			break
		}
		facts := localFactsAt(pred)
		if n := len(pred.Instrs); n > 0 && len(pred.Succs) == 2 && pred.Succs[0] != pred.Succs[1] {
			if iff, ok := pred.Instrs[n-1].(*ssa.If); ok {
				facts = appendCondFacts(facts, iff.Cond, pred.Succs[0] == p.Block(), 0)
			}
		}
		for _, f := range facts {
			if !here[f.Cond] && x.val[f.Cond] {
				return true
			}
		}
	}
	return false
}

// ---- verdicts: reject edges --------------------------------------------------------------------------------------------

type c10verdict struct {
	e       *c10env
	in      map[*ssa.Function]bool
	reaches map[*ssa.Function]bool // the function can come to a route lookup
	goals   map[*ssa.Function]map[*ssa.BasicBlock]bool
}

func newC10Verdict(e *c10env, fns []*ssa.Function) *c10verdict {
	v := &c10verdict{e: e, in: map[*ssa.Function]bool{}, reaches: map[*ssa.Function]bool{}, goals: map[*ssa.Function]map[*ssa.BasicBlock]bool{}}
	for _, f := range fns {
		v.in[f] = true
	}
	for changed := true; changed; {
		changed = false
		for _, f := range fns {
			if v.reaches[f] {
				continue
			}
			eachInstr(f, func(i ssa.Instruction) {
				if v.leadsToLookup(i) && !v.reaches[f] {
					v.reaches[f] = true
					changed = true
				}
			})
		}
	}
	return v
}

func (v *c10verdict) leadsToLookup(i ssa.Instruction) bool {
	if call, ok := i.(*ssa.Call); ok {
		for _, lk := range v.e.lookups {
			if lk == call {
				return true
			}
		}
	}
	if mc, ok := i.(*ssa.MakeClosure); ok {
		if g, ok := mc.Fn.(*ssa.Function); ok && v.reaches[g] {
			return true
		}
	}
	if cc := callCommon(i); cc != nil && !cc.IsInvoke() {
		if g := cc.StaticCallee(); g != nil && v.reaches[g] {
			return true
		}
	}
	return false
}

// goalBlocks: the blocks of f in which f reports success: the route lookup (or the call that leads to it) in a
// function that comes to one, a return that is not a failure return (constant false, certainly non-nil error) elsewhere.
func (v *c10verdict) goalBlocks(f *ssa.Function) map[*ssa.BasicBlock]bool {
	if g, ok := v.goals[f]; ok {
		return g
	}
	g := map[*ssa.BasicBlock]bool{}
	v.goals[f] = g
	eachInstr(f, func(i ssa.Instruction) {
		if i.Parent() != f {
			return
		}
		if v.reaches[f] {
			if v.leadsToLookup(i) {
				g[i.Block()] = true
			}
			return
		}
		if r, ok := i.(*ssa.Return); ok && !c10failureReturn(r) {
			g[i.Block()] = true
		}
	})
	return g
}

// rejects: nothing that reports success is reachable over the k-th edge out of b.
func (v *c10verdict) rejects(b *ssa.BasicBlock, k int) bool {
	goals := v.goalBlocks(b.Parent())
	s := b.Succs[k]
	if goals[s] {
		return false
	}
	for blk := range reachableFrom([]*ssa.BasicBlock{s}, nil) {
		if goals[blk] {
			return false
		}
	}
	return true
}

// c10decider: a branch on a tainted condition exactly one of whose edges is a reject edge.
type c10decider struct {
	f           *ssa.Function
	iff         *ssa.If
	rejectTruth bool // the truth value of the condition on the reject edge
}

func c10deciders(x *c10flow, v *c10verdict) (out []c10decider, nRejecting int) {
	for _, f := range x.fns {
		ff := f
		eachInstr(f, func(i ssa.Instruction) {
			iff, ok := i.(*ssa.If)
			if !ok || i.Parent() != ff || len(iff.Block().Succs) != 2 || iff.Block().Succs[0] == iff.Block().Succs[1] {
				return
			}
			r0, r1 := v.rejects(iff.Block(), 0), v.rejects(iff.Block(), 1)
			if r0 == r1 {
				return
			}
			nRejecting++
			if x.val[iff.Cond] {
				out = append(out, c10decider{ff, iff, r0})
			}
		})
	}
	return out, nRejecting
}

// c10stripNot: the condition under its negations, and whether the truth value was flipped.
func c10stripNot(cond ssa.Value, truth bool) (ssa.Value, bool) {
	for {
		u, ok := cond.(*ssa.UnOp)
		if !ok || u.Op != token.NOT {
			return cond, truth
		}
		cond, truth = u.X, !truth
	}
}

// c10verdictOfCallee: the condition tests a result of a function of the scope (directly, negated, or compared with
// nil / a constant): the functions and the index of the result.
func c10verdictOfCallee(x *c10flow, cond ssa.Value) ([]*ssa.Function, int) {
	cond, _ = c10stripNot(cond, true)
	if b, ok := cond.(*ssa.BinOp); ok && (b.Op == token.EQL || b.Op == token.NEQ) {
		// err != nil, ok == false: the other operand is the verdict
		_, kx := b.X.(*ssa.Const)
		_, ky := b.Y.(*ssa.Const)
		switch {
		case ky && !kx:
			cond = b.X
		case kx && !ky:
			cond = b.Y
		}
	}
	switch y := cond.(type) {
	case *ssa.Call:
		return x.callees(y), 0
	case *ssa.Extract:
		if call, ok := y.Tuple.(*ssa.Call); ok {
			return x.callees(call), y.Index
		}
	}
	return nil, 0
}

// c10condPos: a source position for a branch (the If instruction itself has none).
func c10condPos(iff *ssa.If) token.Pos {
	seen := map[ssa.Value]bool{}
	var walk func(v ssa.Value, d int) token.Pos
	walk = func(v ssa.Value, d int) token.Pos {
		if v == nil || seen[v] || d > 6 {
			return token.NoPos
		}
		seen[v] = true
		if p := v.Pos(); p.IsValid() {
			if _, isParam := v.(*ssa.Parameter); !isParam {
				return p
			}
		}
		if in, ok := v.(ssa.Instruction); ok {
			for _, op := range in.Operands(nil) {
				if op != nil && *op != nil {
					if p := walk(*op, d+1); p.IsValid() {
						return p
					}
				}
			}
		}
		return token.NoPos
	}
	if p := walk(iff.Cond, 0); p.IsValid() {
		return p
	}
	for _, i := range iff.Block().Instrs {
		if p := i.Pos(); p.IsValid() {
			return p
		}
	}
	return iff.Parent().Pos()
}

// c10report evaluates the deciding branches. A branch that tests the verdict of a helper of the region is judged only
// when the helper hands out a tainted VALUE (a flag or number computed from the source) and nothing is reported inside
// it: when the helper's verdict depends on the source through its own branches, those are the deciding branches and
// are judged where they are - one defect is reported once, and a helper that rejects correctly is not doubted again
// by each of its callers.
func c10report(c *Ctx, x *c10flow, ds []c10decider, rule, what string, judge func(d c10decider) (bool, string)) {
	bad := map[*ssa.Function]bool{}
	done := map[*ssa.If]bool{}
	for _, d := range ds {
		if gs, _ := c10verdictOfCallee(x, d.iff.Cond); len(gs) > 0 {
			continue
		}
		done[d.iff] = true
		ok, msg := judge(d)
		if !ok {
			bad[d.f] = true
		}
		c.check(rule, fnKey(d.f)+"|"+what, c10condPos(d.iff), ok, msg)
	}
	for changed := true; changed; {
		changed = false
		for _, d := range ds {
			if done[d.iff] {
				continue
			}
			gs, _ := c10verdictOfCallee(x, d.iff.Cond)
			for _, g := range gs {
				if bad[g] {
					done[d.iff] = true
					bad[d.f] = true
					changed = true
					break
				}
			}
		}
	}
	for _, d := range ds {
		if done[d.iff] {
			continue
		}
		gs, idx := c10verdictOfCallee(x, d.iff.Cond)
		data := false
		for _, g := range gs {
			if x.retData[g][idx] {
				data = true
			}
		}
		if !data {
			continue
		}
		ok, msg := judge(d)
		c.check(rule, fnKey(d.f)+"|"+what, c10condPos(d.iff), ok, msg)
	}
}

// ---- F1: positions in the record ----------------------------------------------------------------------------------------

// c10where answers "which byte of the first TLS record is the first byte of this byte sequence": the peeked bytes and
// the capture buffer start at byte 0; a slice with constant bounds is shifted; a parameter is what EVERY call site in
// the repository passes (all must agree); a field is what every store into it holds; a helper result is what every
// return hands out.
type c10where struct {
	e    *c10env
	memo map[ssa.Value][2]int64 // offset, 1 = known / 0 = unknown
	busy map[ssa.Value]bool
	span map[ssa.Value][3]int64
}

func (w *c10where) of(v ssa.Value, depth int) (int64, bool) {
	if v == nil || depth > 8 {
		return 0, false
	}
	if m, ok := w.memo[v]; ok {
		return m[0], m[1] == 1
	}
	if w.busy[v] {
		return 0, false
	}
	w.busy[v] = true
	off, ok := w.compute(v, depth)
	delete(w.busy, v)
	k := int64(0)
	if ok {
		k = 1
	}
	w.memo[v] = [2]int64{off, k}
	return off, ok
}

func (w *c10where) agree(n *int, off *int64, o int64, ok bool) bool {
	if !ok || (*n > 0 && o != *off) {
		return false
	}
	*off = o
	*n++
	return true
}

func (w *c10where) compute(v ssa.Value, depth int) (int64, bool) {
	root, off, ok := c10sliceBase(v, nil, 0)
	if !ok || root == nil {
		return 0, false
	}
	if root != v {
		o, ok := w.of(root, depth+1)
		return o + off, ok
	}
	switch x := v.(type) {
	case *ssa.MakeSlice:
		for _, b := range w.e.buffers {
			if b == x {
				return 0, true
			}
		}
		return 0, false
	case *ssa.Parameter:
		f := x.Parent()
		idx := -1
		for k, p := range f.Params {
			if p == x {
				idx = k
			}
		}
		n, o := 0, int64(0)
		for _, s := range gSites[f] {
			args := s.Common().Args
			if idx < 0 || idx >= len(args) {
				return 0, false
			}
			a, ok := w.of(args[idx], depth+1)
			if !w.agree(&n, &o, a, ok) {
				return 0, false
			}
		}
		return o, n > 0
	case *ssa.Phi:
		n, o := 0, int64(0)
		for _, ed := range x.Edges {
			if ed == ssa.Value(x) {
				continue
			}
			a, ok := w.of(ed, depth+1)
			if !w.agree(&n, &o, a, ok) {
				return 0, false
			}
		}
		return o, n > 0
	case *ssa.UnOp:
		if x.Op != token.MUL {
			return 0, false
		}
		if fa, ok := x.X.(*ssa.FieldAddr); ok {
			w.e.derivesMem(x, func(ssa.Value) bool { return false }) // builds the index of field stores
			n, o := 0, int64(0)
			for _, st := range w.e.fstores[c10fieldKey(fa)] {
				if isNilConst(st.Val) {
					continue
				}
				a, ok := w.of(st.Val, depth+1)
				if !w.agree(&n, &o, a, ok) {
					return 0, false
				}
			}
			return o, n > 0
		}
		if o := c10origin(x); o != ssa.Value(x) {
			return w.of(o, depth+1)
		}
		return 0, false
	}
	// a result of a call: the peek itself (seen through forwarding handler functions), or what a helper hands out
	if r, ok := w.e.resOf(v); ok {
		for _, pk := range w.e.peeks {
			if pk == r.call && r.idx == 0 {
				return 0, true
			}
		}
	}
	if r, ok := c10resOf(v); ok {
		g := r.call.Call.StaticCallee()
		if g == nil || !isRepoFn(g) || len(g.Blocks) == 0 {
			return 0, false
		}
		n, o := 0, int64(0)
		failed := false
		eachInstr(g, func(i ssa.Instruction) {
			ret, isR := i.(*ssa.Return)
			if !isR || i.Parent() != g || r.idx >= len(ret.Results) || isNilConst(ret.Results[r.idx]) {
				return
			}
			a, ok := w.of(ret.Results[r.idx], depth+1)
			if !w.agree(&n, &o, a, ok) {
				failed = true
			}
		})
		return o, n > 0 && !failed
	}
	return 0, false
}

// spanOf: v is the big-endian integer of record bytes [lo, hi), or a slice with constant bounds holding them.
func (w *c10where) spanOf(v ssa.Value) (lo, hi int64, ok bool) {
	if m, seen := w.span[v]; seen {
		return m[0], m[1], m[2] == 1
	}
	lo, hi, ok = w.computeSpan(v)
	k := int64(0)
	if ok {
		k = 1
	}
	w.span[v] = [3]int64{lo, hi, k}
	return
}

func (w *c10where) computeSpan(v ssa.Value) (int64, int64, bool) {
	if isIntType(v.Type()) {
		switch v.(type) {
		case *ssa.BinOp, *ssa.Call, *ssa.Convert, *ssa.Extract, *ssa.UnOp, *ssa.Index:
		default:
			return 0, 0, false
		}
		ref, ok := c10beBytes(v, nil, 0)
		if !ok || ref.root == nil || ref.n <= 0 {
			return 0, 0, false
		}
		a, ok := w.of(ref.root, 0)
		if !ok {
			return 0, 0, false
		}
		return a + ref.off, a + ref.off + ref.n, true
	}
	if sl, ok := v.(*ssa.Slice); ok && c10byteLike(sl.X.Type()) && sl.High != nil {
		low := int64(0)
		if sl.Low != nil {
			k, ok := constInt(sl.Low)
			if !ok {
				return 0, 0, false
			}
			low = k
		}
		high, ok := constInt(sl.High)
		if !ok || high <= low {
			return 0, 0, false
		}
		a, ok := w.of(sl, 0)
		if !ok {
			return 0, 0, false
		}
		return a, a + high - low, true
	}
	return 0, 0, false
}

// c10evalEnv: the values of record bytes lo.. under which an expression is computed, and the values already known on
// the path taken (parameters bound at a call of a helper, merges resolved on the edge they were entered by).
type c10evalEnv struct {
	lo    int64
	bytes []int64
	vals  map[ssa.Value]int64
	calls *int
}

// eval computes an integer or boolean expression all of whose inputs are the given bytes of the record; ok is false
// when the expression has any other input or a shape that is not interpreted. A call of a repository helper is
// computed by walking the helper's blocks along the branches its conditions select (an abstract evaluation of the
// SSA form over one field of the header; no code of fabio is run).
func (w *c10where) eval(v ssa.Value, env *c10evalEnv, depth int) (int64, bool) {
	if depth > 24 {
		return 0, false
	}
	if a, ok := env.vals[v]; ok {
		return a, true
	}
	if b, ok := constBool(v); ok {
		if b {
			return 1, true
		}
		return 0, true
	}
	if k, ok := constInt(v); ok {
		return k, true
	}
	if isIntType(v.Type()) {
		if a, b, ok := w.spanOf(v); ok {
			if a < env.lo || b > env.lo+int64(len(env.bytes)) {
				return 0, false
			}
			out := int64(0)
			for i := a; i < b; i++ {
				out = out<<8 | env.bytes[i-env.lo]
			}
			return out, true
		}
	}
	switch x := v.(type) {
	case *ssa.Call:
		if x.Call.IsInvoke() || x.Call.Signature().Results().Len() != 1 {
			return 0, false
		}
		return w.evalCall(x, 0, env, depth)
	case *ssa.Extract:
		if call, ok := x.Tuple.(*ssa.Call); ok && !call.Call.IsInvoke() {
			return w.evalCall(call, x.Index, env, depth)
		}
		return 0, false
	case *ssa.Convert:
		if !isIntType(x.X.Type()) || !isIntType(x.Type()) {
			return 0, false
		}
		a, ok := w.eval(x.X, env, depth+1)
		return c10wrapTo(a, x.Type()), ok
	case *ssa.ChangeType:
		return w.eval(x.X, env, depth+1)
	case *ssa.UnOp:
		a, ok := w.eval(x.X, env, depth+1)
		if !ok {
			return 0, false
		}
		switch x.Op {
		case token.NOT:
			return 1 - a, true
		case token.SUB:
			return c10wrapTo(-a, x.Type()), true
		case token.XOR:
			return c10wrapTo(^a, x.Type()), true
		}
		return 0, false
	case *ssa.BinOp:
		a, ok1 := w.eval(x.X, env, depth+1)
		b, ok2 := w.eval(x.Y, env, depth+1)
		if !ok1 || !ok2 {
			return 0, false
		}
		t := func(c bool) (int64, bool) {
			if c {
				return 1, true
			}
			return 0, true
		}
		switch x.Op {
		case token.EQL:
			return t(a == b)
		case token.NEQ:
			return t(a != b)
		case token.LSS:
			return t(a < b)
		case token.LEQ:
			return t(a <= b)
		case token.GTR:
			return t(a > b)
		case token.GEQ:
			return t(a >= b)
		}
		if !isIntType(x.Type()) {
			return 0, false
		}
		var r int64
		switch x.Op {
		case token.ADD:
			r = a + b
		case token.SUB:
			r = a - b
		case token.MUL:
			r = a * b
		case token.AND:
			r = a & b
		case token.OR:
			r = a | b
		case token.XOR:
			r = a ^ b
		case token.AND_NOT:
			r = a &^ b
		case token.SHL:
			if b < 0 || b > 62 {
				return 0, false
			}
			r = a << uint(b)
		case token.SHR:
			if b < 0 || b > 62 {
				return 0, false
			}
			r = a >> uint(b)
		case token.QUO:
			if b == 0 {
				return 0, false
			}
			r = a / b
		case token.REM:
			if b == 0 {
				return 0, false
			}
			r = a % b
		default:
			return 0, false
		}
		return c10wrapTo(r, x.Type()), true
	}
	return 0, false
}

// evalCall: result idx of a call of a repository helper, computed along the path its own conditions select.
func (w *c10where) evalCall(call *ssa.Call, idx int, env *c10evalEnv, depth int) (int64, bool) {
	g := call.Call.StaticCallee()
	if g == nil || !isRepoFn(g) || len(g.Blocks) == 0 || depth > 12 || *env.calls > 16 {
		return 0, false
	}
	*env.calls++
	inner := &c10evalEnv{lo: env.lo, bytes: env.bytes, vals: map[ssa.Value]int64{}, calls: env.calls}
	for k, p := range g.Params {
		if k < len(call.Call.Args) {
			if a, ok := w.eval(call.Call.Args[k], env, depth+1); ok {
				inner.vals[p] = a
			}
		}
	}
	b := g.Blocks[0]
	var prev *ssa.BasicBlock
	for steps := 0; steps < 64 && len(b.Instrs) > 0; steps++ {
		if prev != nil {
			k := -1
			for j, p := range b.Preds {
				if p == prev {
					k = j
				}
			}
			merged := map[*ssa.Phi]int64{}
			var phis []*ssa.Phi
			for _, in := range b.Instrs {
				phi, ok := in.(*ssa.Phi)
				if !ok {
					break
				}
				phis = append(phis, phi)
				if k >= 0 && k < len(phi.Edges) {
					if a, ok := w.eval(phi.Edges[k], inner, depth+1); ok {
						merged[phi] = a
					}
				}
			}
			for _, phi := range phis {
				if a, ok := merged[phi]; ok {
					inner.vals[phi] = a
				} else {
					delete(inner.vals, phi)
				}
			}
		}
		var next *ssa.BasicBlock
		switch t := b.Instrs[len(b.Instrs)-1].(type) {
		case *ssa.Return:
			if idx >= len(t.Results) {
				return 0, false
			}
			return w.eval(t.Results[idx], inner, depth+1)
		case *ssa.If:
			cnd, ok := w.eval(t.Cond, inner, depth+1)
			if !ok || len(b.Succs) != 2 {
				return 0, false
			}
			next = b.Succs[1]
			if cnd != 0 {
				next = b.Succs[0]
			}
		case *ssa.Jump:
			next = b.Succs[0]
		default:
			return 0, false
		}
		prev, b = b, next
	}
	return 0, false
}

// c10wrapTo reduces v to the range of the integer type t (two's complement).
func c10wrapTo(v int64, t types.Type) int64 {
	bits := c10intBits(t)
	if bits == 0 || bits >= 64 {
		return v
	}
	v &= int64(1)<<uint(bits) - 1
	if b, ok := t.Underlying().(*types.Basic); ok && b.Info()&types.IsUnsigned == 0 && v >= int64(1)<<uint(bits-1) {
		v -= int64(1) << uint(bits)
	}
	return v
}

func runC10F1(c *Ctx) {
	e := c10envRound4
	if e == nil {
		c.undecided("C10.F1", "proxy/tcp|roles of the SNI handler", "the handler, its parser roots and the route lookup were not resolved (see C10.S2)")
		return
	}
	fns := c10scope(e)
	w := &c10where{e: e, memo: map[ssa.Value][2]int64{}, busy: map[ssa.Value]bool{}, span: map[ssa.Value][3]int64{}}
	// vacuity: the position of what the handler gives to the parser roots must be known, or no source is ever found
	placed := 0
	for _, rc := range e.rootCalls {
		for _, a := range rc.Call.Args {
			if c10byteLike(a.Type()) {
				if _, ok := w.of(a, 0); ok {
					placed++
				}
			}
		}
	}
	c.atLeast("C10.F1", "byte arguments of the parser roots whose position in the first TLS record is known", placed, 1)
	v := newC10Verdict(e, fns)
	within := func(lo, hi int64) func(ssa.Value) bool {
		return func(val ssa.Value) bool {
			a, b, ok := w.spanOf(val)
			if !ok {
				return false
			}
			if _, isSlice := val.(*ssa.Slice); isSlice {
				return a >= lo && b <= hi // a slice is a source only when it holds nothing else
			}
			return a < hi && b > lo
		}
	}
	// (a) the record-layer version: record bytes 1-2
	xa := newC10Flow(fns, false, within(1, 3))
	da, nRej := c10deciders(xa, v)
	c.atLeast("C10.F1", "branches of the SNI handler region that decide between rejection and success", nRej, 4)
	c10report(c, xa, da, "C10.F1", "no rejection decided by the record-layer version (versions below 0x1000)", func(d c10decider) (bool, string) {
		witness, evaluated := c10versionWitness(w, d)
		switch {
		case !evaluated:
			return false, "this branch leads to rejection and its condition depends on the record-layer version of the first record (bytes 1-2) in a way that is not shown to spare the versions below 0x1000: RFC 8446 5.1 says the field MUST be ignored and crypto/tls refuses only values >= 0x1000, so a well-formed ClientHello that a standard TLS server names is not routed"
		case witness >= 0:
			return false, fmt.Sprintf("a first record with record-layer version 0x%04x is rejected here, whatever ClientHello it carries: RFC 8446 5.1 says the field MUST be ignored (RFC 5246 E.1: clients may send any {03,XX}; OpenSSL 1.0.x writes 0x0300) and crypto/tls refuses only values >= 0x1000, so a well-formed ClientHello whose server name a standard TLS server sees is not routed", witness)
		}
		return true, "every record-layer version below 0x1000 takes the other edge"
	})
	// (b) legacy_version and random of the hello: record bytes 9-42
	xb := newC10Flow(fns, false, within(9, 43))
	db, _ := c10deciders(xb, v)
	c10report(c, xb, db, "C10.F1", "no rejection decided by the hello's legacy_version or random", func(d c10decider) (bool, string) {
		return false, "this branch leads to rejection and its condition depends on the ClientHello's legacy_version or random (record bytes 9-42): crypto/tls reports the server name before any version negotiation and never looks at the random, so a well-formed ClientHello that a standard TLS server names (an SSLv3-capable or a TLS 1.3 client, any random) is not routed"
	})
	if len(da)+len(db) == 0 {
		c.ob("C10.F1", "proxy/tcp|no rejection decided by a field a TLS server ignores", token.NoPos, OK,
			fmt.Sprintf("none of the %d deciding branches of the region depends on record bytes 1-2 or 9-42 (%d byte inputs placed)", nRej, placed))
	}
}

// c10alt: one way a branch condition gets its value: the expression itself, or - for a verdict kept in a boolean
// (`ok := a && b`, a merge) - the expression flowing in over one edge together with the facts that select that edge.
type c10alt struct {
	expr        ssa.Value
	rejectTruth bool
	facts       []Fact // facts that tell this way apart from the others
	opaque      bool   // the value flowing in on this way is not a constant: the comparison is not resolved
}

// c10alternatives: the ways a branch condition gets its value. A verdict kept in a boolean is a merge of conditions
// and constants; a verdict kept in another variable (the log line to print, an error code, an error that is nil or
// was just made) compared with a constant is a merge of constants: on each incoming edge the comparison has a definite
// truth value (c10_facts.go), which is handed out as a boolean constant.
func c10alternatives(cond ssa.Value, rejectTruth bool, facts []Fact, depth int) []c10alt {
	cond, rejectTruth = c10stripNot(cond, rejectTruth)
	if depth > 3 {
		return []c10alt{{expr: cond, rejectTruth: rejectTruth, facts: facts}}
	}
	if phi, k, eqWhenTrue, ok := c10constCompare(cond); ok {
		var out []c10alt
		for j, ed := range phi.Edges {
			if j >= len(phi.Block().Preds) {
				break
			}
			own := append(append([]Fact{}, facts...), c10edgeFacts(phi, j)...)
			if eq, known := c10edgeEquals(ed, k, phi.Block().Preds[j]); known {
				out = append(out, c10alt{expr: c10boolConst(eq == eqWhenTrue), rejectTruth: rejectTruth, facts: own})
			} else {
				out = append(out, c10alt{expr: cond, rejectTruth: rejectTruth, facts: own, opaque: true})
			}
		}
		return out
	}
	phi, ok := cond.(*ssa.Phi)
	if !ok {
		return []c10alt{{expr: cond, rejectTruth: rejectTruth, facts: facts}}
	}
	var out []c10alt
	for k, ed := range phi.Edges {
		if k >= len(phi.Block().Preds) {
			break
		}
		own := append(append([]Fact{}, facts...), c10edgeFacts(phi, k)...)
		out = append(out, c10alternatives(ed, rejectTruth, own, depth+1)...)
	}
	return out
}

// c10versionWitness tries every record-layer version below 0x1000 that is consistent with the branch facts holding at
// the deciding branch against its condition; it returns a version that takes the reject edge (or -1), and whether the
// condition could be evaluated at all (it is a function of the two version bytes only).
func c10versionWitness(w *c10where, d c10decider) (int64, bool) {
	common := localFactsAt(d.iff.Block())
	alts := c10alternatives(d.iff.Cond, d.rejectTruth, nil, 0)
	try := func(vers int64) (rejected, ok bool) {
		n := 0
		env := &c10evalEnv{lo: 1, bytes: []int64{vers >> 8, vers & 0xff}, calls: &n}
		holds := func(facts []Fact) (consistent bool, nEvaluated int) {
			for _, f := range facts {
				if fv, ok := w.eval(f.Cond, env, 0); ok {
					nEvaluated++
					if (fv != 0) != f.Truth {
						return false, nEvaluated
					}
				}
			}
			return true, nEvaluated
		}
		if okc, _ := holds(common); !okc {
			return false, true // this version does not come here
		}
		for _, a := range alts {
			consistent, nEval := holds(a.facts)
			if !consistent {
				continue
			}
			if k, isK := constBool(a.expr); isK {
				// a constant verdict: decided by the version only when a fact that selects this way speaks about it
				if k == a.rejectTruth && nEval > 0 {
					return true, true
				}
				continue
			}
			r, ok := w.eval(a.expr, env, 0)
			if !ok {
				return false, false
			}
			if (r != 0) == a.rejectTruth {
				return true, true
			}
		}
		return false, true
	}
	// versions that are actually sent first, for the message
	for _, vers := range []int64{0x0300, 0x0301, 0x0303, 0x0302, 0x0304, 0x0200, 0x0002} {
		rej, ok := try(vers)
		if !ok {
			return -1, false
		}
		if rej {
			return vers, true
		}
	}
	for vers := int64(0); vers < 0x1000; vers++ {
		if rej, _ := try(vers); rej {
			return vers, true
		}
	}
	return -1, true
}

// ---- N1: the name ---------------------------------------------------------------------------------------------------------

func runC10N1(c *Ctx) {
	e := c10envRound4
	if e == nil {
		c.undecided("C10.N1", "proxy/tcp|roles of the SNI handler", "the handler, its parser roots and the route lookup were not resolved (see C10.S2)")
		return
	}
	fns := c10scope(e)
	// sources: a string made of bytes of the hello - in the parser region any conversion of bytes into a string, in
	// the handler functions one of captured bytes - and the bytes that are converted
	isName := map[ssa.Value]bool{}
	nameLens := map[ssa.Value]bool{}
	c10nameLens = nameLens
	nConv := 0
	eachInstrOf(fns, func(f *ssa.Function, i ssa.Instruction) {
		cv, ok := i.(*ssa.Convert)
		if !ok || !c10isByteSlice(cv.X.Type()) {
			return
		}
		if b, ok := cv.Type().Underlying().(*types.Basic); !ok || b.Info()&types.IsString == 0 {
			return
		}
		if !e.inP[f] && !e.hostile(cv.X) {
			return
		}
		nConv++
		isName[cv] = true
		if _, isParam := cv.X.(*ssa.Parameter); !isParam {
			isName[cv.X] = true
		}
		if sl, ok := cv.X.(*ssa.Slice); ok {
			if lo, isK := constInt(sl.Low); sl.High != nil && (sl.Low == nil || (isK && lo == 0)) {
				nameLens[sl.High] = true // the length the name was cut with
			}
			// the same bytes cut a second time (d[:nameLen] written twice)
			eachInstr(f, func(j ssa.Instruction) {
				if t, ok := j.(*ssa.Slice); ok && t != sl && t.X == sl.X && c10sameOperand(t.Low, sl.Low) && c10sameOperand(t.High, sl.High) && t.Max == nil && sl.Max == nil {
					isName[t] = true
				}
			})
		}
	})
	c.atLeast("C10.N1", "conversions of bytes of the ClientHello into a string (the server name)", nConv, 1)
	src := func(v ssa.Value) bool { return isName[v] }
	x := newC10Flow(fns, false, src)
	id := newC10Flow(fns, true, func(v ssa.Value) bool { _, isConv := v.(*ssa.Convert); return isConv && isName[v] })
	v := newC10Verdict(e, fns)
	ds, _ := c10deciders(x, v)
	c10report(c, x, ds, "C10.N1", "no rejection decided by the content of the server name", func(d c10decider) (bool, string) {
		if c10nameTestAllowed(x, d.iff.Cond, d.rejectTruth, 0) {
			return true, "rejects the empty name (or the trailing dot crypto/tls refuses) only"
		}
		return false, "this branch leads to rejection and its condition depends on the content of the server name taken from the ClientHello: crypto/tls hands every non-empty name without a trailing dot to the application unchanged (any length up to 65535, any bytes), so a filter on the name makes fabio refuse connections a standard TLS server would name and route; only the empty name and a trailing dot may be turned away"
	})
	// the route lookup takes the name itself
	nKey := 0
	for _, lk := range e.lookups {
		if len(lk.Call.Args) != 1 {
			continue
		}
		a := lk.Call.Args[0]
		if !x.val[a] {
			continue // not a name from the hello at all: C10.S2 speaks about that
		}
		nKey++
		c.check("C10.N1", fnKey(lk.Parent())+"|route looked up under the server name as received", lk.Pos(), id.val[a],
			"the argument of the route lookup is computed from the server name of the ClientHello (a library call or an operation on it) instead of being that string: crypto/tls hands the name to the application byte for byte, so a normalised or trimmed name makes fabio route on another name than a standard TLS server sees")
	}
	c.atLeast("C10.N1", "route lookups whose argument comes from the server name of the ClientHello", nKey, 1)
}

// c10nameLens: the values the name was cut with (the High of d[:nameLen]); set by runC10N1.
var c10nameLens map[ssa.Value]bool

// c10lastByteIsDot: b is the byte of the name at index (its length - 1) and k is the constant '.'.
func c10lastByteIsDot(x *c10flow, b, k ssa.Value) bool {
	if kk, ok := constInt(k); !ok || kk != '.' {
		return false
	}
	var seq, idx ssa.Value
	switch l := b.(type) {
	case *ssa.Lookup:
		seq, idx = l.X, l.Index
	case *ssa.Index:
		seq, idx = l.X, l.Index
	case *ssa.UnOp:
		ia, ok := l.X.(*ssa.IndexAddr)
		if !ok || l.Op != token.MUL {
			return false
		}
		seq, idx = ia.X, ia.Index
	default:
		return false
	}
	sub, ok := idx.(*ssa.BinOp)
	if !ok || sub.Op != token.SUB || !x.val[seq] {
		return false
	}
	if one, ok := constInt(sub.Y); !ok || one != 1 {
		return false
	}
	if c10nameLens[sub.X] {
		return true
	}
	call, ok := sub.X.(*ssa.Call)
	return ok && calleeName(&call.Call) == "builtin.len" && len(call.Call.Args) == 1 && x.val[call.Call.Args[0]]
}

// c10nameTestAllowed: the condition, taking truth value rejectTruth on the reject edge, turns away nothing but the
// empty name (name == "", len(name) compared with a constant so that only 0 is rejected) or a name with a trailing dot
// (strings.HasSuffix(name, ".")). A verdict kept in a variable (a boolean, or the log line / code / error that is
// compared with a constant afterwards) is resolved into the ways it gets its value (c10alternatives): a way that carries
// a test of the name must carry an allowed one, and a way that rejects whatever flows in (a constant) must have been
// selected by allowed tests only - `valid := true; if len(name) > 253 { valid = false }; if !valid` is the same filter
// as `if len(name) > 253`.
func c10nameTestAllowed(x *c10flow, cond ssa.Value, rejectTruth bool, depth int) bool {
	cond, rejectTruth = c10stripNot(cond, rejectTruth)
	if depth > 4 {
		return false
	}
	alts := c10alternatives(cond, rejectTruth, nil, 0)
	if len(alts) == 1 && alts[0].expr == cond && !alts[0].opaque {
		return c10nameAtomAllowed(x, cond, rejectTruth)
	}
	for _, a := range alts {
		if a.opaque {
			return false // a verdict variable that also takes computed values: not resolved
		}
		if k, isK := constBool(a.expr); isK {
			if k != a.rejectTruth {
				continue // this way does not reject
			}
			for _, f := range a.facts {
				fc, ft := c10stripNot(f.Cond, f.Truth)
				if !x.val[fc] {
					continue
				}
				if gs, idx := c10verdictOfCallee(x, fc); len(gs) > 0 {
					data := false
					for _, g := range gs {
						if x.retData[g][idx] {
							data = true
						}
					}
					if !data {
						continue // the verdict of a helper: judged at the helper's own branches
					}
				}
				if !c10nameTestAllowed(x, fc, ft, depth+1) {
					return false
				}
			}
			continue
		}
		if !x.val[a.expr] {
			continue
		}
		if !c10nameTestAllowed(x, a.expr, a.rejectTruth, depth+1) {
			return false
		}
	}
	return true
}

// c10nameAtomAllowed: one test (not a merge) that may send a name to the reject edge.
func c10nameAtomAllowed(x *c10flow, cond ssa.Value, rejectTruth bool) bool {
	switch y := cond.(type) {
	case *ssa.Call:
		if name := calleeName(&y.Call); (name == "strings.HasSuffix" || name == "bytes.HasSuffix") && len(y.Call.Args) == 2 && rejectTruth {
			// the trailing dot, tested on the string or on the bytes it is made of ([]byte("."))
			suffix := y.Call.Args[1]
			if cv, isConv := suffix.(*ssa.Convert); isConv {
				suffix = cv.X
			}
			s, ok := constString(suffix)
			return ok && s == "."
		}
		return false
	case *ssa.BinOp:
		if c10lastByteIsDot(x, y.X, y.Y) || c10lastByteIsDot(x, y.Y, y.X) {
			// name[len(name)-1] == '.': the trailing dot, spelled with an index
			return (y.Op == token.EQL && rejectTruth) || (y.Op == token.NEQ && !rejectTruth)
		}
		if s, ok := constString(y.Y); ok && s == "" {
			return (y.Op == token.EQL && rejectTruth) || (y.Op == token.NEQ && !rejectTruth)
		}
		if s, ok := constString(y.X); ok && s == "" {
			return (y.Op == token.EQL && rejectTruth) || (y.Op == token.NEQ && !rejectTruth)
		}
		// len(name) against a constant: nothing but length 0 may take the reject edge
		isLen := func(v ssa.Value) bool {
			call, ok := v.(*ssa.Call)
			return ok && calleeName(&call.Call) == "builtin.len" && len(call.Call.Args) == 1 && c10hasLen(call.Call.Args[0].Type())
		}
		var k int64
		var lenLeft bool
		if kk, ok := constInt(y.Y); ok && isLen(y.X) {
			k, lenLeft = kk, true
		} else if kk, ok := constInt(y.X); ok && isLen(y.Y) {
			k, lenLeft = kk, false
		} else {
			return false
		}
		for _, l := range []int64{0, 1, 2, 3, 63, 64, 253, 254, 255, 256, 65535} {
			a, b := l, k
			if !lenLeft {
				a, b = k, l
			}
			var t bool
			switch y.Op {
			case token.EQL:
				t = a == b
			case token.NEQ:
				t = a != b
			case token.LSS:
				t = a < b
			case token.LEQ:
				t = a <= b
			case token.GTR:
				t = a > b
			case token.GEQ:
				t = a >= b
			default:
				return false
			}
			if t == rejectTruth && l != 0 {
				return false
			}
		}
		return true
	}
	return false
}
