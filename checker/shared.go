package main

import (
	"fmt"
	"go/token"
	"go/types"
	"sort"
	"strings"

	"golang.org/x/tools/go/ssa"
)

// E2 — shared-state discipline (DESIGN §4).

type sharedAnalysis struct {
	c        *Ctx
	roots    []*ssa.Function
	reach    map[*ssa.Function]bool
	sharedTy map[string]bool // named repo types whose instances live across requests
	// paramShared[f][i]: parameter i of f may be bound to a non-fresh value
	paramShared map[*ssa.Function][]bool
	closures    map[*ssa.Function][]*ssa.MakeClosure
	callers     map[*ssa.Function][]callSite
}

type callSite struct {
	in   *ssa.Function
	inst ssa.Instruction
}

func typeKey(t types.Type) string {
	for {
		switch x := t.(type) {
		case *types.Pointer:
			t = x.Elem()
			continue
		case *types.Alias:
			t = types.Unalias(x)
			continue
		}
		break
	}
	if n, ok := t.(*types.Named); ok && n.Obj().Pkg() != nil {
		return n.Obj().Pkg().Path() + "." + n.Obj().Name()
	}
	return ""
}

func isRepoTypeKey(k string) bool { return strings.HasPrefix(k, repoMod) }

// sharedTypes computes the closure of repo named types reachable from
// package-level variables, values published through atomic.Value.Store,
// receivers of serving roots and free variables of serving-root closures.
func (sa *sharedAnalysis) computeSharedTypes() {
	c := sa.c
	sa.sharedTy = map[string]bool{}
	var visit func(t types.Type, depth int)
	seenT := map[types.Type]bool{}
	visit = func(t types.Type, depth int) {
		if t == nil || seenT[t] || depth > 12 {
			return
		}
		seenT[t] = true
		switch x := t.(type) {
		case *types.Alias:
			visit(types.Unalias(x), depth)
		case *types.Pointer:
			visit(x.Elem(), depth+1)
		case *types.Slice:
			visit(x.Elem(), depth+1)
		case *types.Array:
			visit(x.Elem(), depth+1)
		case *types.Map:
			visit(x.Key(), depth+1)
			visit(x.Elem(), depth+1)
		case *types.Chan:
			// values sent over channels change owner; not followed
		case *types.Named:
			k := typeKey(x)
			if isRepoTypeKey(k) {
				sa.sharedTy[k] = true
				visit(x.Underlying(), depth+1)
			}
			if iface, ok := x.Underlying().(*types.Interface); ok && isRepoTypeKey(k) {
				sa.visitImpls(iface, visit, depth)
			}
		case *types.Struct:
			for i := 0; i < x.NumFields(); i++ {
				visit(x.Field(i).Type(), depth+1)
			}
		case *types.Interface:
			sa.visitImpls(x, visit, depth)
		}
	}
	for _, sp := range c.spkgs {
		for _, m := range sp.Members {
			if g, ok := m.(*ssa.Global); ok {
				visit(g.Type(), 0)
			}
		}
	}
	for _, f := range c.AllFns {
		eachInstr(f, func(i ssa.Instruction) {
			if cc := callCommon(i); cc != nil {
				if kind, _, val, ok := atomicOp(cc); ok && (kind == "store" || kind == "swap" || kind == "cas") && val != nil {
					for _, pv := range publishedValue(val) {
						visit(pv.Type(), 0)
					}
					visit(stripIface(val).Type(), 0)
				}
			}
		})
	}
	for _, r := range sa.roots {
		if r.Signature.Recv() != nil {
			visit(r.Signature.Recv().Type(), 0)
		}
		for _, fv := range r.FreeVars {
			visit(fv.Type(), 0)
		}
	}
}

func (sa *sharedAnalysis) visitImpls(iface *types.Interface, visit func(types.Type, int), depth int) {
	if iface.NumMethods() == 0 {
		return
	}
	for _, sp := range sa.c.spkgs {
		for _, m := range sp.Members {
			if t, ok := m.(*ssa.Type); ok {
				nt := t.Type()
				if _, isI := nt.Underlying().(*types.Interface); isI {
					continue
				}
				if types.Implements(nt, iface) || types.Implements(types.NewPointer(nt), iface) {
					visit(nt, depth+1)
				}
			}
		}
	}
}

// ---- address chains ------------------------------------------------------------

type chainInfo struct {
	sharedStep string      // description of the first step through a shared type ("" if none)
	roots      []ssa.Value // root values of the chain
}

func (sa *sharedAnalysis) chain(addr ssa.Value) chainInfo {
	var ci chainInfo
	seen := map[ssa.Value]bool{}
	var walk func(v ssa.Value)
	note := func(t types.Type, what string) {
		if ci.sharedStep != "" {
			return
		}
		if k := typeKey(t); k != "" && sa.sharedTy[k] {
			ci.sharedStep = strings.TrimPrefix(k, repoMod+"/") + what
		}
	}
	walk = func(v ssa.Value) {
		if v == nil || seen[v] {
			return
		}
		seen[v] = true
		switch x := v.(type) {
		case *ssa.FieldAddr:
			note(x.X.Type(), "."+fieldName(x.X.Type(), x.Field))
			walk(x.X)
		case *ssa.Field:
			note(x.X.Type(), "."+fieldName(x.X.Type(), x.Field))
			walk(x.X)
		case *ssa.IndexAddr:
			note(x.X.Type(), "[i]")
			walk(x.X)
		case *ssa.Index:
			note(x.X.Type(), "[i]")
			walk(x.X)
		case *ssa.Lookup:
			note(x.X.Type(), "[k]")
			walk(x.X)
		case *ssa.Slice:
			walk(x.X)
		case *ssa.ChangeType:
			walk(x.X)
		case *ssa.Convert:
			// []rune(s), []byte(s): allocating conversions are fresh roots
			ci.roots = append(ci.roots, x)
		case *ssa.TypeAssert:
			walk(x.X)
		case *ssa.UnOp:
			if x.Op == token.MUL {
				// load: where does the loaded pointer/struct come from?
				if a, ok := x.X.(*ssa.Alloc); ok {
					stored := false
					for _, r := range *a.Referrers() {
						if st, ok := r.(*ssa.Store); ok && st.Addr == a {
							stored = true
							walk(st.Val)
						}
					}
					if !stored {
						ci.roots = append(ci.roots, a)
					}
					return
				}
				if fa, ok := x.X.(*ssa.FieldAddr); ok {
					if a, ok := fa.X.(*ssa.Alloc); ok {
						stored := false
						for _, r := range *a.Referrers() {
							switch y := r.(type) {
							case *ssa.FieldAddr:
								if y.Field == fa.Field {
									for _, r2 := range *y.Referrers() {
										if st, ok := r2.(*ssa.Store); ok && st.Addr == y {
											stored = true
											walk(st.Val)
										}
									}
								}
							case *ssa.Store:
								if y.Addr == a {
									stored = true
									walk(y.Val)
								}
							}
						}
						if !stored {
							ci.roots = append(ci.roots, a)
						}
						return
					}
				}
				walk(x.X)
				return
			}
			ci.roots = append(ci.roots, x)
		case *ssa.Extract:
			if nx, ok := x.Tuple.(*ssa.Next); ok {
				if rg, ok := nx.Iter.(*ssa.Range); ok {
					note(rg.X.Type(), "[range]")
					walk(rg.X)
					return
				}
			}
			ci.roots = append(ci.roots, x)
		case *ssa.Phi:
			for _, e := range x.Edges {
				walk(e)
			}
		default:
			ci.roots = append(ci.roots, v)
		}
	}
	walk(addr)
	return ci
}

// ---- freshness -------------------------------------------------------------------

var sharedReturning = map[string]bool{
	"(*sync/atomic.Value).Load":      true,
	"(*sync.Map).Load":               true,
	"(*sync.Map).LoadOrStore":        true,
	"(context.Context).Value":        true,
	"(*sync/atomic.Pointer[T]).Load": true,
}

func (sa *sharedAnalysis) fresh(v ssa.Value, in *ssa.Function, depth int) bool {
	if depth > 8 {
		return false
	}
	switch x := v.(type) {
	case *ssa.Alloc, *ssa.MakeMap, *ssa.MakeSlice, *ssa.MakeChan, *ssa.Const, *ssa.MakeClosure, *ssa.Convert, *ssa.MakeInterface:
		return true
	case *ssa.Global:
		return false
	case *ssa.Parameter:
		fn := x.Parent()
		ps := sa.paramShared[fn]
		for i, p := range fn.Params {
			if p == x {
				if ps == nil {
					return false
				}
				return !ps[i]
			}
		}
		return false
	case *ssa.FreeVar:
		fn := x.Parent()
		idx := -1
		for i, fv := range fn.FreeVars {
			if fv == x {
				idx = i
			}
		}
		sites := sa.closures[fn]
		if idx < 0 || len(sites) == 0 {
			return false
		}
		for _, mc := range sites {
			p := mc.Parent()
			if !sa.reach[p] {
				return false // built at start-up: lives across requests
			}
			b := mc.Bindings[idx]
			if a, ok := b.(*ssa.Alloc); ok {
				// captured variable cell: every value stored into it must be fresh
				for _, r := range *a.Referrers() {
					if st, ok := r.(*ssa.Store); ok && st.Addr == a {
						ci := sa.chain(st.Val)
						for _, rt := range ci.roots {
							if !sa.fresh(rt, p, depth+1) {
								return false
							}
						}
					}
				}
				continue
			}
			ci := sa.chain(b)
			for _, rt := range ci.roots {
				if !sa.fresh(rt, p, depth+1) {
					return false
				}
			}
		}
		return true
	case *ssa.Extract:
		return sa.fresh(x.Tuple, in, depth+1)
	case *ssa.Call:
		n := calleeName(&x.Call)
		if sharedReturning[n] {
			return false
		}
		if kind, _, _, ok := atomicOp(&x.Call); ok && (kind == "load" || kind == "swap") {
			return false // whatever spelling (atomic.Value, atomic.Pointer[T]): the loaded object is shared
		}
		if sc := x.Call.StaticCallee(); sc != nil {
			sc = unwrap(sc)
			if !isRepoFn(sc) || len(sc.Blocks) == 0 {
				return true // results of non-repo calls are owned by the caller (contract table lists exceptions)
			}
			return sa.returnsFresh(sc, depth+1)
		}
		// dynamic / invoke: join over resolved callees
		g := sa.c.callgraph()
		var cands []*ssa.Function
		if x.Call.IsInvoke() {
			for _, t := range g.out[in] {
				if t.Name() == x.Call.Method.Name() {
					cands = append(cands, t)
				}
			}
			if len(cands) == 0 {
				return true // only non-repo implementations
			}
		} else if _, ok := x.Call.Value.Type().Underlying().(*types.Signature); ok {
			cands = g.funcValueTargets(x.Call.Value)
			if len(cands) == 0 {
				return false
			}
		}
		for _, t := range cands {
			if !sa.returnsFresh(t, depth+1) {
				return false
			}
		}
		return true
	case *ssa.Phi:
		for _, e := range x.Edges {
			ci := sa.chain(e)
			for _, rt := range ci.roots {
				if rt == x {
					continue
				}
				if !sa.fresh(rt, in, depth+1) {
					return false
				}
			}
		}
		return true
	case *ssa.BinOp, *ssa.UnOp:
		return true // scalars
	}
	return false
}

func (sa *sharedAnalysis) returnsFresh(f *ssa.Function, depth int) bool {
	ok := true
	eachInstr(f, func(i ssa.Instruction) {
		r, isR := i.(*ssa.Return)
		if !isR {
			return
		}
		for _, res := range r.Results {
			if _, isPtrLike := res.Type().Underlying().(*types.Basic); isPtrLike {
				continue
			}
			if isNilConst(res) {
				continue
			}
			ci := sa.chain(res)
			for _, rt := range ci.roots {
				if !sa.fresh(rt, f, depth+1) {
					ok = false
				}
			}
		}
	})
	return ok
}

// requestOwnedParam: parameters of serving roots that are owned by the request.
func requestOwnedParam(p *ssa.Parameter) bool {
	switch typeStr(p.Type()) {
	case "net/http.ResponseWriter", "*net/http.Request", "net.Conn", "*crypto/tls.ClientHelloInfo",
		"context.Context", "google.golang.org/grpc.ServerStream", "*google.golang.org/grpc.StreamServerInfo",
		"google.golang.org/grpc.StreamHandler", "string", "interface{}", "any",
		"*google.golang.org/grpc/stats.ConnTagInfo", "*google.golang.org/grpc/stats.RPCTagInfo",
		"google.golang.org/grpc/stats.RPCStats", "google.golang.org/grpc/stats.ConnStats":
		return true
	}
	return false
}

func newSharedAnalysis(c *Ctx) *sharedAnalysis {
	sa := &sharedAnalysis{c: c, roots: c.servingRoots(), paramShared: map[*ssa.Function][]bool{},
		closures: map[*ssa.Function][]*ssa.MakeClosure{}, callers: map[*ssa.Function][]callSite{}}
	sa.reach = c.reach(sa.roots...)
	sa.computeSharedTypes()
	for _, f := range c.AllFns {
		eachInstr(f, func(i ssa.Instruction) {
			if mc, ok := i.(*ssa.MakeClosure); ok {
				if fn, ok := mc.Fn.(*ssa.Function); ok {
					sa.closures[fn] = append(sa.closures[fn], mc)
				}
			}
		})
	}
	// optimistic start: everything fresh; roots: receivers shared, request-owned params fresh
	isRoot := map[*ssa.Function]bool{}
	for _, r := range sa.roots {
		isRoot[r] = true
	}
	for f := range sa.reach {
		ps := make([]bool, len(f.Params))
		if isRoot[f] {
			for i, p := range f.Params {
				if i == 0 && f.Signature.Recv() != nil {
					ps[i] = true
				} else if !requestOwnedParam(p) {
					ps[i] = true
				}
			}
		}
		sa.paramShared[f] = ps
	}
	g := c.callgraph()
	for changed, iter := true, 0; changed && iter < 30; iter++ {
		changed = false
		for f := range sa.reach {
			eachInstr(f, func(i ssa.Instruction) {
				cc := callCommon(i)
				if cc == nil {
					return
				}
				var callees []*ssa.Function
				var args []ssa.Value
				if cc.IsInvoke() {
					args = append([]ssa.Value{cc.Value}, cc.Args...)
					for _, t := range g.out[f] {
						if t.Name() == cc.Method.Name() && t.Signature.Recv() != nil {
							callees = append(callees, t)
						}
					}
				} else if sc := cc.StaticCallee(); sc != nil {
					sc = unwrap(sc)
					args = cc.Args
					if mc, ok := cc.Value.(*ssa.MakeClosure); ok {
						_ = mc
					}
					callees = []*ssa.Function{sc}
				} else if _, ok := cc.Value.Type().Underlying().(*types.Signature); ok {
					args = cc.Args
					callees = g.funcValueTargets(cc.Value)
				}
				for _, t := range callees {
					if !sa.reach[t] || len(t.Blocks) == 0 {
						continue
					}
					sa.callers[t] = appendSite(sa.callers[t], callSite{f, i})
					ps := sa.paramShared[t]
					off := 0
					if !cc.IsInvoke() && cc.StaticCallee() == nil && t.Signature.Recv() != nil {
						// dynamic call of a bound method value: receiver not among args
						off = 1
						if !ps[0] {
							ps[0] = true
							changed = true
						}
					}
					for k, a := range args {
						if k+off >= len(ps) || ps[k+off] {
							continue
						}
						if _, basic := a.Type().Underlying().(*types.Basic); basic {
							continue
						}
						ci := sa.chain(a)
						for _, rt := range ci.roots {
							if !sa.fresh(rt, f, 0) {
								ps[k+off] = true
								changed = true
								break
							}
						}
					}
				}
			})
		}
	}
	return sa
}

func appendSite(s []callSite, cs callSite) []callSite {
	for _, x := range s {
		if x.inst == cs.inst {
			return s
		}
	}
	return append(s, cs)
}

// ---- locks ---------------------------------------------------------------------------

func lockCallKind(i ssa.Instruction) (path string, kind string) {
	cc := callCommon(i)
	if cc == nil {
		return "", ""
	}
	n := calleeName(cc)
	switch n {
	case "(*sync.Mutex).Lock", "(*sync.RWMutex).Lock":
		kind = "lock"
	case "(*sync.RWMutex).RLock":
		kind = "rlock"
	case "(*sync.Mutex).Unlock", "(*sync.RWMutex).Unlock":
		kind = "unlock"
	case "(*sync.RWMutex).RUnlock":
		kind = "runlock"
	default:
		return "", ""
	}
	if _, isDefer := i.(*ssa.Defer); isDefer {
		kind = "defer-" + kind
	}
	if len(cc.Args) > 0 {
		path = accessPath(cc.Args[0])
	}
	return path, kind
}

// heldAt: which mutexes (by access path) are held at instruction at (must-hold, intraprocedural).
// A lock L is held at I if an acquisition dominates I and no non-deferred release of the same
// mutex can run between the acquisition and I.
// (heldAt itself, below, adds locks taken and released through wrapper methods.)
func heldAtDirect(at ssa.Instruction, write bool) []string {
	f := at.Parent()
	var held []string
	eachInstr(f, func(l ssa.Instruction) {
		p, k := lockCallKind(l)
		if k != "lock" && !(k == "rlock" && !write) {
			return
		}
		if !dominatesInstr(l, at) {
			return
		}
		released := false
		eachInstr(f, func(u ssa.Instruction) {
			pu, ku := lockCallKind(u)
			if pu != p || (ku != "unlock" && ku != "runlock") {
				return
			}
			// can u run after l and before at, without passing l again?
			if canReach(l, u) && reachAvoidingInstr(u, at, l) {
				released = true
			}
		})
		if !released {
			held = append(held, p)
		}
	})
	return held
}

// heldAt: the locks held at `at` — acquired directly or by calling a wrapper that takes the lock on all its paths and
// never releases it, and not released (directly or through a releasing wrapper) on the way.
func heldAt(at ssa.Instruction, write bool) []string { return c06heldAt(at, write) }

// reachAvoidingInstr: is there a path that starts right after a and executes b
// without executing `avoid` in between?
func reachAvoidingInstr(a, b, avoid ssa.Instruction) bool {
	return pathAvoiding(a, b, func(i ssa.Instruction) bool { return i == avoid })
}

func pathAvoiding(a, b ssa.Instruction, avoid func(ssa.Instruction) bool) bool {
	avoid = liftMust(avoid, 1) // a helper that does it on all of its paths counts
	type item struct {
		b   *ssa.BasicBlock
		idx int
	}
	seen := map[*ssa.BasicBlock]bool{}
	stack := []item{{a.Block(), instrIndex(a) + 1}}
	for len(stack) > 0 {
		it := stack[len(stack)-1]
		stack = stack[:len(stack)-1]
		blocked := false
		for k := it.idx; k < len(it.b.Instrs); k++ {
			in := it.b.Instrs[k]
			if in == b {
				return true
			}
			if avoid != nil && avoid(in) {
				blocked = true
				break
			}
		}
		if blocked {
			continue
		}
		for _, s := range it.b.Succs {
			if !seen[s] {
				seen[s] = true
				stack = append(stack, item{s, 0})
			}
		}
	}
	return false
}

// lockedAt: instruction executes under some (write) lock, directly or because every caller holds one.
func (sa *sharedAnalysis) lockedAt(at ssa.Instruction, write bool, depth int) (bool, string) {
	if h := heldAt(at, write); len(h) > 0 {
		return true, h[0]
	}
	if depth > 3 {
		return false, ""
	}
	f := at.Parent()
	sites := sa.callers[f]
	if len(sites) == 0 {
		return false, ""
	}
	name := ""
	for _, cs := range sites {
		ok, n := sa.lockedAt(cs.inst, write, depth+1)
		if !ok {
			return false, ""
		}
		name = n
	}
	return true, name + " (held by every caller)"
}

// ---- S1 ------------------------------------------------------------------------------------

// S1 reports every store to memory reachable from a shared structure, performed in a function
// reachable from the serving roots, without a lock.
func (sa *sharedAnalysis) s1(rule string, filter func(f *ssa.Function, step string) bool) int {
	c := sa.c
	n := 0
	var fns []*ssa.Function
	for f := range sa.reach {
		fns = append(fns, f)
	}
	sort.Slice(fns, func(i, j int) bool { return fns[i].String() < fns[j].String() })
	for _, f := range fns {
		eachInstr(f, func(i ssa.Instruction) {
			var addr ssa.Value
			switch x := i.(type) {
			case *ssa.Store:
				addr = x.Addr
			case *ssa.MapUpdate:
				addr = x.Map
			case *ssa.Call:
				// library calls that reorder / overwrite their first argument in place
				if mutatingExternal[calleeName(&x.Call)] && len(x.Call.Args) > 0 {
					addr = mutatedArg(&x.Call)
					if _, isBasic := addr.Type().Underlying().(*types.Basic); isBasic {
						return
					}
				} else {
					return
				}
			default:
				return
			}
			ci := sa.chain(addr)
			if _, isMU := i.(*ssa.MapUpdate); isMU && ci.sharedStep == "" {
				if k := typeKey(addr.Type()); k != "" && sa.sharedTy[k] {
					ci.sharedStep = strings.TrimPrefix(k, repoMod+"/") + "[k]"
				}
			}
			if ci.sharedStep == "" {
				return
			}
			if filter != nil && !filter(f, ci.sharedStep) {
				return
			}
			allFresh := true
			why := ""
			for _, rt := range ci.roots {
				if !sa.fresh(rt, f, 0) {
					allFresh = false
					why = describeRoot(rt)
				}
			}
			n++
			key := fnKey(f) + "|store " + ci.sharedStep
			if allFresh {
				c.ob(rule, key, i.Pos(), OK, "object is freshly built on this request path (not yet shared)")
				return
			}
			if ok, l := sa.lockedAt(i, true, 0); ok {
				c.ob(rule, key, i.Pos(), OK, "performed while holding "+l)
				return
			}
			root := sa.rootPath(f)
			c.ob(rule, key, i.Pos(), Viol, fmt.Sprintf("unsynchronised write to %s of an object shared between requests (%s); reachable from a serving entry: %s. Two concurrent requests race on it and can observe each other's value", ci.sharedStep, why, root))
		})
	}
	return n
}

func describeRoot(v ssa.Value) string {
	switch x := v.(type) {
	case *ssa.Parameter:
		return "reached through parameter " + x.Name() + ", which is bound to a shared object at some call site"
	case *ssa.FreeVar:
		return "reached through captured variable " + x.Name() + ", bound when the handler was built"
	case *ssa.Global:
		return "package variable " + x.Name()
	case *ssa.Call:
		return "obtained from " + calleeName(&x.Call) + "()"
	}
	return "root " + v.Name()
}

func (sa *sharedAnalysis) rootPath(f *ssa.Function) string {
	for _, r := range sa.roots {
		if p := sa.c.callPath(r, f); p != nil {
			var s []string
			for _, x := range p {
				s = append(s, fnKey(x))
			}
			return strings.Join(s, " -> ")
		}
	}
	return fnKey(f)
}

// ---- S3: guarded-by consistency (frozen, reviewed lock table) ---------------------------------

type guardedField struct {
	typ, field string // "tcp.Server", "conns"  (typ == "" => package-level variable pkg.name in field)
	lock       string // access-path suffix of the mutex: ".mu", "proxy.mu"
	reason     string
}

// Inferred from "written under this lock somewhere", then confirmed by reading and frozen (DESIGN §4 S3).
var lockTable = []guardedField{
	{"tcp.Server", "listeners", ".mu", "appended by Serve, cleared by closeListeners, both under mu"},
	{"tcp.Server", "conns", ".mu", "connection registry mutated by every accepted connection"},
	{"proxy.grpcConnectionPool", "connections", ".lock", "pool map shared by all gRPC calls and cleanup()"},
	{"route.GlobCache", "l", ".mu", "LRU ring of the glob cache"},
	{"route.GlobCache", "h", ".mu", "LRU ring head"},
	{"route.GlobCache", "n", ".mu", "LRU ring fill count"},
	{"logger.logger", "w", ".mu", "shared access-log writer"},
	{"cert.VaultPKISource", "certs", ".mu", "issued certificates, written by Issue and the expiry timers"},
	{"", "proxy.servers", "proxy.mu", "registry of running servers"},
}

func (sa *sharedAnalysis) s3(rule string) int {
	c := sa.c
	n := 0
	for _, f := range c.AllFns {
		if isInitFn(f) {
			continue
		}
		eachInstr(f, func(i ssa.Instruction) {
			var addr ssa.Value
			write := false
			switch x := i.(type) {
			case *ssa.UnOp:
				if x.Op != token.MUL {
					return
				}
				addr = x.X
			case *ssa.Store:
				addr, write = x.Addr, true
			default:
				return
			}
			var g *guardedField
			switch a := addr.(type) {
			case *ssa.FieldAddr:
				for k := range lockTable {
					lt := &lockTable[k]
					if lt.typ != "" && namedIs(a.X.Type(), lt.typ) && fieldName(a.X.Type(), a.Field) == lt.field {
						g = lt
					}
				}
				if g != nil {
					if _, isAlloc := a.X.(*ssa.Alloc); isAlloc {
						return // constructor: object not shared yet
					}
				}
			case *ssa.Global:
				for k := range lockTable {
					lt := &lockTable[k]
					if lt.typ == "" && a.Pkg.Pkg.Name()+"."+a.Name() == lt.field {
						g = lt
					}
				}
			}
			if g == nil {
				return
			}
			// len()/cap() of a slice header that is assigned only by the constructor is not an access to the guarded contents
			if u, isLoad := i.(*ssa.UnOp); isLoad && g.typ != "" {
				if _, isSlice := u.Type().Underlying().(*types.Slice); isSlice && onlyLenCap(u) && !fieldStoredOutsideCtor(c, g.typ, g.field) {
					return
				}
			}
			n++
			held := false
			for _, h := range heldAt(i, write) {
				if strings.HasSuffix(h, g.lock) {
					held = true
				}
			}
			if !held {
				// every caller holds it?
				if ok, _ := sa.lockedAtAll(i, write, 0); ok {
					held = true
				}
			}
			what := "read"
			if write {
				what = "write"
			}
			name := g.field
			if g.typ != "" {
				name = g.typ + "." + g.field
			}
			c.check(rule, fnKey(f)+"|"+what+" of "+name+" under "+strings.TrimPrefix(g.lock, "."), i.Pos(), held,
				name+" ("+g.reason+") is guarded by "+g.lock+" everywhere else; this "+what+" does not hold it and races with the guarded accesses")
		})
	}
	return n
}

// lockedAtAll: like lockedAt but over all repo callers (not only serving-reachable ones).
func (sa *sharedAnalysis) lockedAtAll(at ssa.Instruction, write bool, depth int) (bool, string) {
	if h := heldAt(at, write); len(h) > 0 {
		return true, h[0]
	}
	if depth > 3 {
		return false, ""
	}
	f := at.Parent()
	var sites []ssa.Instruction
	for _, g := range sa.c.AllFns {
		eachInstr(g, func(i ssa.Instruction) {
			if cc := callCommon(i); cc != nil && cc.StaticCallee() == f {
				sites = append(sites, i)
			}
		})
	}
	if len(sites) == 0 {
		return false, ""
	}
	for _, s := range sites {
		if ok, _ := sa.lockedAtAll(s, write, depth+1); !ok {
			return false, ""
		}
	}
	return true, "held by every caller"
}

func onlyLenCap(v ssa.Value) bool {
	refs := v.Referrers()
	if refs == nil || len(*refs) == 0 {
		return false
	}
	for _, r := range *refs {
		call, ok := r.(*ssa.Call)
		if !ok {
			return false
		}
		if n := calleeName(&call.Call); n != "builtin.len" && n != "builtin.cap" {
			return false
		}
	}
	return true
}

func fieldStoredOutsideCtor(c *Ctx, typ, field string) bool {
	found := false
	for _, f := range c.AllFns {
		eachInstr(f, func(i ssa.Instruction) {
			st, ok := i.(*ssa.Store)
			if !ok {
				return
			}
			fa, ok := st.Addr.(*ssa.FieldAddr)
			if !ok || !namedIs(fa.X.Type(), typ) || fieldName(fa.X.Type(), fa.Field) != field {
				return
			}
			if _, isAlloc := fa.X.(*ssa.Alloc); !isAlloc {
				found = true
			}
		})
	}
	return found
}
