package main

// Rules of C17 added after the third round of independently authored breaking changes (DESIGN 11.10); wired in zzz_round3.go.

import (
	"go/token"
	"go/types"
	"strings"

	"golang.org/x/tools/go/ssa"
)

// ---- C17.S2 / C17.F2 -------------------------------------------------------------------------------------------------

// runC17S2: the content type is sniffed only when the header KEY is absent.
func runC17S2(c *Ctx) {
	n := 0
	// "the key is absent": a comma-ok map lookup of Content-Type in an http.Header said no. It may be spelled inline, as
	// a boolean helper (`hasKey(h, k)`), negated, or kept in a variable; it may guard a helper that does the write.
	absent := func(v ssa.Value, truth bool) bool {
		ex, ok := v.(*ssa.Extract)
		if !ok || ex.Index != 1 || truth {
			return false
		}
		lk, ok := ex.Tuple.(*ssa.Lookup)
		if !ok || !lk.CommaOk || c17typeStr(lk.X.Type()) != "net/http.Header" {
			return false
		}
		return derives(lk.Index, func(w ssa.Value) bool { s, isS := constString(w); return isS && s == "Content-Type" })
	}
	for _, f := range c.fnsWhere("proxy/gzip", func(*ssa.Function) bool { return true }) {
		eachInstr(f, func(i ssa.Instruction) {
			var val ssa.Value
			if cc := callCommon(i); cc != nil && len(cc.Args) == 3 && (calleeName(cc) == "(net/http.Header).Set" || calleeName(cc) == "(net/http.Header).Add") {
				val = cc.Args[2]
			} else if mu, ok := i.(*ssa.MapUpdate); ok && c17typeStr(mu.Map.Type()) == "net/http.Header" {
				val = mu.Value
			}
			if val == nil || !derives(val, func(v ssa.Value) bool { _, ok := isCallTo(v, "net/http.DetectContentType"); return ok }) {
				return
			}
			n++
			// a Get() == "" comparison does not distinguish a suppressed (nil / empty) Content-Type from an absent one
			c.check("C17.S2", fnKey(f)+"|content type sniffed only when the header key is absent", i.Pos(), c17holdsAtom(i.Block(), absent, 0),
				"the sniffed type is written although the Content-Type key may be present: a handler that sets the key to nil (net/http's way to suppress sniffing) or to an empty value must be passed through untouched; 'Header().Get(k) == \"\"' cannot tell that from an absent key, the sniffed type then matches the configured expression and a response that must be delivered byte for byte is compressed")
		})
	}
	c.atLeast("C17.S2", "writes of a sniffed Content-Type", n, 1)
}

// runC17F2: nothing commits the response headers before the compress / pass-through decision is taken.
func runC17F2(c *Ctx) {
	// the response-writer type of package gzip: declares Write and WriteHeader
	var methods []*ssa.Function
	byRecv := map[string][]*ssa.Function{}
	for _, f := range c.fnsWhere("proxy/gzip", func(fn *ssa.Function) bool { return fn.Signature.Recv() != nil }) {
		k := c17typeStr(f.Signature.Recv().Type())
		byRecv[strings.TrimPrefix(k, "*")] = append(byRecv[strings.TrimPrefix(k, "*")], f)
	}
	for _, ms := range byRecv {
		hasW, hasWH := false, false
		for _, m := range ms {
			if m.Name() == "Write" {
				hasW = true
			}
			if m.Name() == "WriteHeader" {
				hasWH = true
			}
		}
		if hasW && hasWH {
			methods = ms
		}
	}
	if len(methods) == 0 {
		c.undecided("C17.F2", "anchor|response writer of package gzip", "no type of package proxy/gzip declares Write and WriteHeader")
		return
	}
	n := 0
	for _, m := range methods {
		if m.Name() == "WriteHeader" || m.Name() == "Header" {
			continue
		}
		eachInstr(m, func(i ssa.Instruction) {
			cc := callCommon(i)
			if cc == nil || !cc.IsInvoke() {
				return
			}
			mn := cc.Method.Name()
			if mn != "Flush" && mn != "Write" && mn != "WriteHeader" {
				return
			}
			// on the wrapped http.ResponseWriter (or an optional interface asserted from it), not on the decided writer
			if !derives(cc.Value, func(v ssa.Value) bool {
				if fa, ok := v.(*ssa.FieldAddr); ok {
					return strings.HasSuffix(c17typeStr(fa.Type()), "net/http.ResponseWriter")
				}
				return false
			}) {
				return
			}
			n++
			// decided: on every path from the method's entry to this call either the decision field (the io.Writer field of
			// the receiver) is known non-nil, or something was executed that ensures it (a store to the field, or a call
			// of a method of the wrapper that stores it / finds it set on all of its paths)
			decided := !c17reachUndecided(m.Blocks[0], 0, i, 0)
			c.check("C17.F2", fnKey(m)+"|headers committed only after the decision", i.Pos(), decided,
				mn+" on the wrapped ResponseWriter commits the response headers; here it can run before the compress/pass-through decision (the writer field is not known to be set and WriteHeader of the wrapper has not run): the decision taken afterwards sets Content-Encoding too late — the client gets an unlabelled gzip body, and an implicit 200 replaces the handler's status")
		})
	}
	c.ob("C17.F2", "proxy/gzip|no header commit before the decision", token.NoPos, OK, "checked "+itoa(n)+" call(s) on the wrapped writer outside WriteHeader")
}

// c17isDecisionField: a field of type io.Writer (the decided writer of the gzip response writer).
func c17isDecisionField(v ssa.Value) bool {
	if u, ok := v.(*ssa.UnOp); ok && u.Op == token.MUL {
		v = u.X
	}
	fa, ok := v.(*ssa.FieldAddr)
	if !ok {
		return false
	}
	p, ok := fa.Type().Underlying().(*types.Pointer)
	// io.Writer, io.WriteCloser, a package-local interface embedding io.Writer: can take the body, is not a ResponseWriter
	return ok && c17writerIface(p.Elem())
}

// c17ensures: instruction i makes the decision field non-nil: a store to it, or a call of a repository function on
// all of whose paths the field is stored or already known non-nil.
func c17ensures(i ssa.Instruction, depth int) bool {
	if st, ok := i.(*ssa.Store); ok && c17isDecisionField(st.Addr) && !isNilConst(st.Val) {
		return true
	}
	if k := c17theKit; k != nil && k.isFlagSet(i) {
		return true // an explicit `decided` flag (tied to the writer field, or the decision itself: see decisionFlags)
	}
	call, ok := i.(*ssa.Call)
	if !ok || depth > 2 {
		return false
	}
	sc := call.Call.StaticCallee()
	if sc == nil || !isRepoFn(sc) || len(sc.Blocks) == 0 {
		return false
	}
	return !c17reachUndecided(sc.Blocks[0], 0, nil, depth+1)
}

// c17reachUndecided: starting at instruction idx of block b, can `target` (or, when target is nil, a return) be
// reached without passing an ensuring instruction and without crossing an edge on which the decision field is known
// non-nil?
func c17reachUndecided(b *ssa.BasicBlock, idx int, target ssa.Instruction, depth int) bool {
	type item struct {
		b   *ssa.BasicBlock
		idx int
	}
	seen := map[*ssa.BasicBlock]bool{}
	stack := []item{{b, idx}}
	for len(stack) > 0 {
		it := stack[len(stack)-1]
		stack = stack[:len(stack)-1]
		blocked := false
		for k := it.idx; k < len(it.b.Instrs); k++ {
			in := it.b.Instrs[k]
			if target != nil && in == target {
				return true
			}
			if c17ensures(in, depth) {
				blocked = true
				break
			}
			if _, isRet := in.(*ssa.Return); isRet && target == nil {
				return true
			}
		}
		if blocked {
			continue
		}
		for _, s := range it.b.Succs {
			known := false
			if len(it.b.Succs) == 2 && len(it.b.Instrs) > 0 {
				if iff, ok := it.b.Instrs[len(it.b.Instrs)-1].(*ssa.If); ok {
					for _, ft := range appendCondFacts(nil, iff.Cond, it.b.Succs[0] == s, 0) {
						if nn, ok := nilFact(ft, c17isDecisionField); ok && nn {
							known = true
						}
						if k := c17theKit; k != nil {
							if d, isF := k.flagFact(ft); isF && d {
								known = true // an explicit `decided` flag that is tied to the writer field (see decisionFlags)
							}
						}
					}
				}
			}
			if known || seen[s] {
				continue
			}
			seen[s] = true
			stack = append(stack, item{s, 0})
		}
	}
	return false
}
