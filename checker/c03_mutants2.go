package main

// Larger rewrites: whole functions of route/table.go replaced (texts in c03_mutants_src.go).
var c03MutantsMore2 = func() []mutant {
	const f = "route/table.go"
	imports := repl{"\t\"net/url\"\n\t\"sort\"\n", "\t\"maps\"\n\t\"net/url\"\n\t\"slices\"\n\t\"sort\"\n"}
	slicesOnly := repl{"\t\"net/url\"\n\t\"sort\"\n", "\t\"net/url\"\n\t\"slices\"\n\t\"sort\"\n"}
	return []mutant{
		{Name: "benign: the two host matchers merged into one function with a flag", File: f,
			Old: c03srcMatchingHosts, New: `func (t Table) hostKeys(req *http.Request, globCache *GlobCache, exact bool) []string {
	isTLS := req.TLS != nil
	want := normalizeHost(req.Host, isTLS)
	var keys []string
	for key := range t {
		norm := normalizeHost(key, isTLS)
		if exact {
			if norm == want {
				keys = append(keys, key)
			}
			continue
		}
		g, err := globCache.Get(norm)
		if err != nil {
			log.Print("[ERROR] Compiling glob - ", err)
			continue
		}
		if g.Match(want) {
			keys = append(keys, key)
		}
	}
	return sortHostsReverseHostPort(keys)
}
`,
			More: []repl{
				{c03srcMatchingHostNoGlob, ""},
				{"\tif globDisabled {\n\t\thosts = t.matchingHostNoGlob(req)\n\t} else {\n\t\thosts = t.matchingHosts(req, globCache)\n\t}\n", "\thosts = t.hostKeys(req, globCache, globDisabled)\n"},
			}},
		{Name: "benign: host matchers inlined into Lookup", File: f,
			Old: "\tif globDisabled {\n\t\thosts = t.matchingHostNoGlob(req)\n\t} else {\n\t\thosts = t.matchingHosts(req, globCache)\n\t}\n",
			New: `	isTLS := req.TLS != nil
	reqHost := normalizeHost(req.Host, isTLS)
	for pattern := range t {
		normpat := normalizeHost(pattern, isTLS)
		if globDisabled {
			if normpat == reqHost {
				hosts = append(hosts, pattern)
			}
			continue
		}
		g, err := globCache.Get(normpat)
		if err != nil {
			log.Print("[ERROR] Compiling glob - ", err)
			continue
		}
		if g.Match(reqHost) {
			hosts = append(hosts, pattern)
		}
	}
	hosts = sortHostsReverseHostPort(hosts)
`,
			More: []repl{{c03srcMatchingHostNoGlob, ""}, {c03srcMatchingHosts, ""}}},
		{Name: "benign: keys collected with slices.Sorted(maps.Keys(t)) before matching", File: f,
			Old: "\thost := normalizeHost(req.Host, req.TLS != nil)\n\n\tfor pattern := range t {", New: "\thost := normalizeHost(req.Host, req.TLS != nil)\n\n\tfor _, pattern := range slices.Sorted(maps.Keys(t)) {",
			More: []repl{imports}},
		{Name: "benign: Lookup without named result, index loops, guard clauses", File: f,
			Old: "(t Table) Lookup(req *http.Request, trace string, pick picker, match matcher, globCache *GlobCache, globDisabled bool) (target *Target) {\n",
			New: "(t Table) Lookup(req *http.Request, trace string, pick picker, match matcher, globCache *GlobCache, globDisabled bool) *Target {\n\tvar target *Target\n",
			More: []repl{
				{"\tfor _, h := range hosts {\n\t\tif target = t.lookup(h, req.URL.Path, trace, pick, match); target != nil {", "\tfor i := 0; i < len(hosts); i++ {\n\t\th := hosts[i]\n\t\tif target = t.lookup(h, req.URL.Path, trace, pick, match); target != nil {"},
				{"\tfor _, r := range t[host] {\n\t\tif match(path, r) {", "\troutes := t[host]\n\tfor i := range routes {\n\t\tr := routes[i]\n\t\tif match(path, r) {"},
			}},
		{Name: "benign: guard clause in the no-glob matcher, direct return of the sorted list", File: f,
			Old: "\t\tif normpat == host {\n\t\t\thosts = append(hosts, strings.ToLower(pattern))\n\t\t}\n\t}\n\thosts = sortHostsReverseHostPort(hosts)\n\treturn\n}",
			New: "\t\tif normpat != host {\n\t\t\tcontinue\n\t\t}\n\t\thosts = append(hosts, strings.ToLower(pattern))\n\t}\n\treturn sortHostsReverseHostPort(hosts)\n}"},
		{Name: "benign: normaliser as a local closure of the matcher", File: f,
			Old: "\thost := normalizeHost(req.Host, req.TLS != nil)\n\n\tfor pattern := range t {\n\t\tnormpat := normalizeHost(pattern, req.TLS != nil)\n",
			New: "\tisTLS := req.TLS != nil\n\tnorm := func(h string) string {\n\t\th = strings.ToLower(h)\n\t\tswitch {\n\t\tcase !isTLS && strings.HasSuffix(h, \":80\"):\n\t\t\treturn strings.TrimSuffix(h, \":80\")\n\t\tcase isTLS && strings.HasSuffix(h, \":443\"):\n\t\t\treturn strings.TrimSuffix(h, \":443\")\n\t\t}\n\t\treturn h\n\t}\n\thost := norm(req.Host)\n\n\tfor pattern := range t {\n\t\tnormpat := norm(pattern)\n"},
		{Name: "benign: sorter sorts ascending and turns the slice round", File: f,
			Old: "\tsort.Sort(sort.Reverse(sort.StringSlice(hosts)))\n", New: "\tsort.Strings(hosts)\n\tslices.Reverse(hosts)\n", More: []repl{slicesOnly}},
		{Name: "benign: sorter with sort.Slice and a descending less", File: f,
			Old: "\tsort.Sort(sort.Reverse(sort.StringSlice(hosts)))\n", New: "\tsort.Slice(hosts, func(i, j int) bool { return hosts[i] > hosts[j] })\n"},
		{Name: "benign: reverser unexported, renamed and rewritten with slices.Reverse; sorter works on a copy", File: f,
			Old: c03srcSortHosts, New: `func sortHostsReverseHostPort(in []string) []string {
	if len(in) < 2 {
		return in
	}
	rev := make([]string, len(in))
	for i, h := range in {
		rev[i] = flipHost(h)
	}
	slices.SortFunc(rev, func(a, b string) int { return strings.Compare(b, a) })
	for i, h := range rev {
		rev[i] = flipHost(h)
	}
	return rev
}

func flipHost(s string) string {
	h, p, _ := net.SplitHostPort(s)
	if h == "" {
		h = s
	}
	r := []rune(h)
	slices.Reverse(r)
	if p == "" {
		return string(r)
	}
	return net.JoinHostPort(string(r), p)
}
`, More: []repl{slicesOnly}},
		{Name: "benign: choice of the matcher extracted into a helper of Lookup", File: f,
			Old:  "\tif globDisabled {\n\t\thosts = t.matchingHostNoGlob(req)\n\t} else {\n\t\thosts = t.matchingHosts(req, globCache)\n\t}\n",
			New:  "\thosts = t.candidateHosts(req, globCache, globDisabled)\n",
			More: []repl{{"func (t Table) LookupHost(", "func (t Table) candidateHosts(req *http.Request, globCache *GlobCache, globDisabled bool) []string {\n\tif globDisabled {\n\t\treturn t.matchingHostNoGlob(req)\n\t}\n\treturn t.matchingHosts(req, globCache)\n}\n\nfunc (t Table) LookupHost("}}},
		{Name: "benign: lookup split: routes fetched by one helper, scanned by another", File: f,
			Old: c03srcLookupInner, New: `func (t Table) lookup(host, path, trace string, pick picker, match matcher) *Target {
	return scanRoutes(t.routesOf(host), path, trace, pick, match)
}

func (t Table) routesOf(host string) Routes {
	return t[strings.ToLower(host)]
}

func scanRoutes(routes Routes, path, trace string, pick picker, match matcher) *Target {
	for _, r := range routes {
		if !match(path, r) {
			if trace != "" {
				log.Printf("[TRACE] %s No match %s%s", trace, r.Host, r.Path)
			}
			continue
		}
		if len(r.Targets) == 0 {
			return nil
		}
		target := r.Targets[0]
		if len(r.Targets) > 1 {
			target = pick(r)
		}
		if trace != "" {
			log.Printf("[TRACE] %s Match %s%s", trace, r.Host, r.Path)
		}
		return target
	}
	return nil
}
`},

		// ---- breaks on rewritten shapes -----------------------------------------------------------------------------
		{Name: "merged matcher compares the raw request host", File: f,
			Old: c03srcMatchingHosts, New: `func (t Table) hostKeys(req *http.Request, globCache *GlobCache, exact bool) []string {
	isTLS := req.TLS != nil
	want := normalizeHostNoLower(req.Host, isTLS)
	var keys []string
	for key := range t {
		norm := normalizeHost(key, isTLS)
		if exact {
			if norm == want {
				keys = append(keys, key)
			}
			continue
		}
		g, err := globCache.Get(norm)
		if err != nil {
			continue
		}
		if g.Match(want) {
			keys = append(keys, key)
		}
	}
	return sortHostsReverseHostPort(keys)
}
`,
			More: []repl{
				{c03srcMatchingHostNoGlob, ""},
				{"\tif globDisabled {\n\t\thosts = t.matchingHostNoGlob(req)\n\t} else {\n\t\thosts = t.matchingHosts(req, globCache)\n\t}\n", "\thosts = t.hostKeys(req, globCache, globDisabled)\n"},
			}, Expect: "C03.N1"},
		{Name: "matchers inlined into Lookup, list left in map order", File: f,
			Old: "\tif globDisabled {\n\t\thosts = t.matchingHostNoGlob(req)\n\t} else {\n\t\thosts = t.matchingHosts(req, globCache)\n\t}\n",
			New: `	isTLS := req.TLS != nil
	reqHost := normalizeHost(req.Host, isTLS)
	for pattern := range t {
		normpat := normalizeHost(pattern, isTLS)
		if globDisabled {
			if normpat == reqHost {
				hosts = append(hosts, pattern)
			}
			continue
		}
		g, err := globCache.Get(normpat)
		if err != nil {
			continue
		}
		if g.Match(reqHost) {
			hosts = append(hosts, pattern)
		}
	}
`,
			More: []repl{{c03srcMatchingHostNoGlob, ""}, {c03srcMatchingHosts, ""}}, Expect: "C03.O2"},
		{Name: "split scan skips routes longer than the path", File: f,
			Old: c03srcLookupInner, New: `func (t Table) lookup(host, path, trace string, pick picker, match matcher) *Target {
	return scanRoutes(t[strings.ToLower(host)], path, pick, match)
}

func scanRoutes(routes Routes, path string, pick picker, match matcher) *Target {
	for _, r := range routes {
		if len(r.Path) > len(path) || !match(path, r) {
			continue
		}
		if len(r.Targets) == 0 {
			return nil
		}
		return pick(r)
	}
	return nil
}
`, Expect: "C03.L1"},
		{Name: "helper of Lookup sorts only the glob result", File: f,
			Old: "\tif globDisabled {\n\t\thosts = t.matchingHostNoGlob(req)\n\t} else {\n\t\thosts = t.matchingHosts(req, globCache)\n\t}\n",
			New: "\thosts = t.candidateHosts(req, globCache, globDisabled)\n",
			More: []repl{
				{"func (t Table) LookupHost(", "func (t Table) candidateHosts(req *http.Request, globCache *GlobCache, globDisabled bool) []string {\n\tif globDisabled {\n\t\treturn t.matchingHostNoGlob(req)\n\t}\n\treturn sortHostsReverseHostPort(t.matchingHosts(req, globCache))\n}\n\nfunc (t Table) LookupHost("},
				{"\t\t\thosts = append(hosts, strings.ToLower(pattern))\n\t\t}\n\t}\n\thosts = sortHostsReverseHostPort(hosts)\n\treturn\n}", "\t\t\thosts = append(hosts, strings.ToLower(pattern))\n\t\t}\n\t}\n\treturn\n}"},
			}, Expect: "C03.O2"},
	}
}()
