package main

// Overlay mutants of hardening round 3 (after benign round 4): the ring builder written as a function of the target
// list that hands the ring back to its caller (`r.wTargets = weighTargets(r.Targets)`, benign/C04-r10), counters of
// C04.R8 that count down, and classifications guarded by a nil test. The mutants of the handing form are built from
// one base rewrite (c04handed) plus the replacements of the individual variant, so that the rules that search the
// region of the builder (R4, R5, R6, R7 read side, R8) and R1 are exercised on this shape too.

// c04handedBase rewrites `func (r *Route) weighTargets()` into `func weighTargets(all []*Target) []*Target`; the three
// mutators become `r.wTargets = weighTargets(r.Targets)`.
func c04handed(name, expect string, extra ...repl) mutant {
	m := mutant{Name: name, File: "route/route.go", Expect: expect,
		Old: "r.weighTargets()", New: "r.wTargets = weighTargets(r.Targets)", All: true,
		More: []repl{
			{"func (r *Route) weighTargets() {", "func weighTargets(all []*Target) []*Target {"},
			{"for _, t := range r.Targets {\n\t\tif t.FixedWeight > 0 {\n\t\t\tnFixed++", "for _, t := range all {\n\t\tif t.FixedWeight > 0 {\n\t\t\tnFixed++"},
			{"w := 1.0 / float64(len(r.Targets))\n\t\tfor _, t := range r.Targets {", "w := 1.0 / float64(len(all))\n\t\tfor _, t := range all {"},
			{"\t\tr.wTargets = r.Targets\n\t\treturn\n", "\t\treturn all\n"},
			{"(nFixed == len(r.Targets) &&", "(nFixed == len(all) &&"},
			{"float64(len(r.Targets)-nFixed)", "float64(len(all)-nFixed)"},
			{"for _, t := range r.Targets {\n\t\tif t.FixedWeight > 0 {\n\t\t\tt.Weight", "for _, t := range all {\n\t\tif t.FixedWeight > 0 {\n\t\t\tt.Weight"},
			{"slots := make(byN, len(r.Targets))\n\tusedSlots := 0\n\tfor i, t := range r.Targets {", "slots := make(byN, len(all))\n\tusedSlots := 0\n\tfor i, t := range all {"},
			{"\t\tr.wTargets = nil\n\t\treturn\n", "\t\treturn nil\n"},
			{"targets[next] = r.Targets[s.i]", "targets[next] = all[s.i]"},
			{"\tr.wTargets = targets\n}", "\treturn targets\n}"},
		}}
	m.More = append(m.More, extra...)
	return m
}

const (
	c04handedFilter    = "\tr.Targets = clone\n\tr.wTargets = weighTargets(r.Targets)"
	c04handedAddTarget = "\tr.Targets = append(r.Targets, t)\n\tr.wTargets = weighTargets(r.Targets)"
	c04countLoop       = "\tfor _, t := range r.Targets {\n\t\tif t.FixedWeight > 0 {\n\t\t\tnFixed++\n\t\t\tsumFixed += t.FixedWeight\n\t\t}\n\t}\n"
	c04remainder       = "\tdynamic := (1 - sumFixed) / float64(len(r.Targets)-nFixed)\n"
)

func init() {
	addRound4("C04", "(builder shapes) The ring builder either stores the ring field itself or is a function of the target list that hands the ring back: a store to the ring field outside its region is then accepted only when all it stores is the result of a call of the builder (or of a wrapper around it), and for R1 such a call is a rebuild only when it is given the route's target list (a value read from Route.Targets, or the value the caller has just stored there) and its result is stored in the ring field on every path from the call to a return of the caller.",
		func(*Ctx) {},
		// ---- benign
		c04handed("benign: the builder is a function of the target list and hands the ring back, the mutators store it", ""),
		c04handed("benign: handing builder, filter passes the list it has just stored", "", repl{c04handedFilter, "\tr.Targets = clone\n\tr.wTargets = weighTargets(clone)"}),
		c04handed("benign: handing builder, ring kept in a local before it is stored", "", repl{c04handedFilter, "\tr.Targets = clone\n\tring := weighTargets(clone)\n\tr.wTargets = ring"}),
		c04handed("benign: handing builder behind a storing wrapper", "", repl{c04handedFilter + "\n}", "\tr.Targets = clone\n\tr.reweigh()\n}\n\nfunc (r *Route) reweigh() {\n\tr.wTargets = weighTargets(r.Targets)\n}"}),
		c04handed("benign: handing builder behind a handing wrapper", "", repl{c04handedFilter + "\n}", "\tr.Targets = clone\n\tr.wTargets = ringOf(r)\n}\n\nfunc ringOf(r *Route) []*Target {\n\treturn weighTargets(r.Targets)\n}"}),
		mutant{Name: "benign: the builder stays a method but returns the ring", File: "route/route.go", Old: "r.weighTargets()", New: "r.wTargets = r.weighTargets()", All: true, More: []repl{
			{"func (r *Route) weighTargets() {", "func (r *Route) weighTargets() []*Target {"},
			{"\t\tr.wTargets = r.Targets\n\t\treturn\n", "\t\treturn r.Targets\n"},
			{"\t\tr.wTargets = nil\n\t\treturn\n", "\t\treturn nil\n"},
			{"\tr.wTargets = targets\n}", "\treturn targets\n}"}}, Expect: ""},
		mutant{Name: "benign: dynamic targets counted down from len(Targets)", File: "route/route.go", Old: "\tvar nFixed int\n", New: "\tvar nFixed int\n\tnDyn := len(r.Targets)\n", More: []repl{
			{"\t\t\tnFixed++\n\t\t\tsumFixed", "\t\t\tnFixed++\n\t\t\tnDyn--\n\t\t\tsumFixed"},
			{c04remainder, "\tdynamic := (1 - sumFixed) / float64(nDyn)\n"}}, Expect: ""},
		mutant{Name: "benign: fixed targets recognised by a verdict with a nil test", File: "route/route.go", Old: c04countLoop, New: "\tfor _, t := range r.Targets {\n\t\tfixed := t != nil && t.FixedWeight > 0\n\t\tif fixed {\n\t\t\tnFixed++\n\t\t\tsumFixed += t.FixedWeight\n\t\t}\n\t}\n", Expect: ""},
		c04handed("benign: handing builder, the ring is stored through a setter", "",
			repl{c04handedFilter, "\tr.Targets = clone\n\tr.setRing(weighTargets(clone))"},
			repl{c04handedAddTarget, "\tr.Targets = append(r.Targets, t)\n\tr.setRing(weighTargets(r.Targets))"},
			repl{"\t\tr.wTargets = weighTargets(r.Targets)\n", "\t\tr.setRing(weighTargets(r.Targets))\n"},
			repl{"type byN []struct{ i, n int }", "func (r *Route) setRing(ring []*Target) {\n\tr.wTargets = ring\n}\n\ntype byN []struct{ i, n int }"}),
		// ---- breaking
		c04handed("handing builder, the setter keeps the old ring when the new one is empty", "C04.R1",
			repl{c04handedFilter, "\tr.Targets = clone\n\tr.setRing(weighTargets(clone))"},
			repl{c04handedAddTarget, "\tr.Targets = append(r.Targets, t)\n\tr.setRing(weighTargets(r.Targets))"},
			repl{"\t\tr.wTargets = weighTargets(r.Targets)\n", "\t\tr.setRing(weighTargets(r.Targets))\n"},
			repl{"type byN []struct{ i, n int }", "func (r *Route) setRing(ring []*Target) {\n\tif len(ring) > 0 {\n\t\tr.wTargets = ring\n\t}\n}\n\ntype byN []struct{ i, n int }"}),
		mutant{Name: "verdict with a nil test takes FixedWeight >= 0 as fixed in the count loop", File: "route/route.go", Old: c04countLoop, New: "\tfor _, t := range r.Targets {\n\t\tfixed := t != nil && t.FixedWeight >= 0\n\t\tif fixed {\n\t\t\tnFixed++\n\t\t\tsumFixed += t.FixedWeight\n\t\t}\n\t}\n", Expect: "C04.R8"},
		c04handed("handing builder, addTarget drops the ring", "C04.R1", repl{c04handedAddTarget, "\tr.Targets = append(r.Targets, t)\n\tweighTargets(r.Targets)"}),
		c04handed("handing builder, filter weighs the old list", "C04.R1", repl{c04handedFilter, "\tr.wTargets = weighTargets(r.Targets)\n\tr.Targets = clone"}),
		c04handed("handing builder, filter weighs an empty list", "C04.R1", repl{c04handedFilter, "\tr.Targets = clone\n\tr.wTargets = weighTargets(nil)"}),
		c04handed("handing builder, filter weighs the targets it removed", "C04.R1",
			repl{"\tvar clone []*Target\n", "\tvar clone, gone []*Target\n"},
			repl{"\t\tif skip(t) {\n\t\t\tcontinue", "\t\tif skip(t) {\n\t\t\tgone = append(gone, t)\n\t\t\tcontinue"},
			repl{c04handedFilter, "\tr.Targets = clone\n\tr.wTargets = weighTargets(gone)"}),
		c04handed("handing builder, the ring is stored only when it is not nil", "C04.R1", repl{c04handedFilter, "\tr.Targets = clone\n\tif ring := weighTargets(clone); ring != nil {\n\t\tr.wTargets = ring\n\t}"}),
		c04handed("handing builder, ring stored by a goroutine", "C04.R1", repl{c04handedFilter, "\tr.Targets = clone\n\tgo func() { r.wTargets = weighTargets(clone) }()"}),
		c04handed("handing builder, setWeight rebuilds only for more than one match", "C04.R1", repl{"\tif n > 0 {\n\t\tr.wTargets = weighTargets", "\tif n > 1 {\n\t\tr.wTargets = weighTargets"}),
		c04handed("handing builder, filter stores the target list as the ring", "C04.R", repl{c04handedFilter, "\tr.Targets = clone\n\tr.wTargets = clone"}),
		c04handed("handing builder without the one-slot floor", "C04.R4", repl{"\t\tif n == 0 && t.Weight > 0 {\n\t\t\tn = 1\n\t\t}\n", ""}),
		c04handed("handing builder without the usedSlots guard", "C04.R5", repl{"\tif usedSlots <= 0 {\n\t\treturn nil\n\t}\n", ""}),
		c04handed("handing builder without the clamp", "C04.R6", repl{"\tif dynamic < 0 {\n\t\tdynamic = 0\n\t}\n", ""}),
		c04handed("handing builder reads the fixed weight capped", "C04.R7", repl{"t.Weight = t.FixedWeight * scale", "t.Weight = min(t.FixedWeight, 1) * scale"}),
		c04handed("handing builder divides by the targets with FixedWeight == 0", "C04.R8",
			repl{"\tfor _, t := range all {\n\t\tif t.FixedWeight > 0 {\n\t\t\tnFixed++", "\tnDyn := 0\n\tfor _, t := range all {\n\t\tif t.FixedWeight == 0 {\n\t\t\tnDyn++\n\t\t}\n\t\tif t.FixedWeight > 0 {\n\t\t\tnFixed++"},
			repl{"float64(len(all)-nFixed)", "float64(nDyn)"}),
		mutant{Name: "dynamic targets counted down only for FixedWeight != 0", File: "route/route.go", Old: "\tvar nFixed int\n", New: "\tvar nFixed int\n\tnDyn := len(r.Targets)\n", More: []repl{
			{c04countLoop, "\tfor _, t := range r.Targets {\n\t\tif t.FixedWeight != 0 {\n\t\t\tnDyn--\n\t\t}\n\t\tif t.FixedWeight > 0 {\n\t\t\tnFixed++\n\t\t\tsumFixed += t.FixedWeight\n\t\t}\n\t}\n"},
			{c04remainder, "\tdynamic := (1 - sumFixed) / float64(nDyn)\n"}}, Expect: "C04.R8"},
		mutant{Name: "counter of the fixed targets counts up and down", File: "route/route.go", Old: c04countLoop, New: "\tfor _, t := range r.Targets {\n\t\tif t.FixedWeight > 0 {\n\t\t\tnFixed++\n\t\t\tsumFixed += t.FixedWeight\n\t\t} else if t.FixedWeight < 0 {\n\t\t\tnFixed--\n\t\t}\n\t}\n", Expect: "C04.R8"},
	)
}
