package main

// Source texts of the overlay mutants of C18 added in hardening round 2: a step of the shutdown sequence handed around
// as a value (callback parameter, small interface, function kept in a struct field), bookkeeping moved into a small
// type with methods, fan-out helpers that take closures, deferred steps, configured durations copied into a handler
// struct - each as a behaviour-preserving rewrite that must stay silent and as breaks written in that shape.

// ---- proxy/tcp/server.go ---------------------------------------------------------------------------------------------

const c18SrcTCPCloseShutdown = `func (s *Server) Close() error {
	s.closeListeners()
	return s.closeConns()
}

func (s *Server) Shutdown(ctx context.Context) error {
	s.closeListeners()
	if ctx != nil {
		<-ctx.Done()
	}
	return s.closeConns()
}
`

const c18SrcTCPStopBlock = `func (s *Server) closeListeners() error {
	s.mu.Lock()
	for _, l := range s.listeners {
		l.Close()
	}
	s.listeners = nil
	s.mu.Unlock()
	return nil
}

func (s *Server) closeConns() error {
	s.mu.Lock()
	for c := range s.conns {
		c.Close()
	}
	s.conns = nil
	s.mu.Unlock()
	return nil
}

` + c18SrcTCPCloseShutdown

// the two helpers inlined into one method, the step in the middle is a callback
const c18TCPCallbackTail = `
func (s *Server) Close() error {
	return s.closeAfter(func() {})
}

func (s *Server) Shutdown(ctx context.Context) error {
	return s.closeAfter(func() {
		if ctx != nil {
			<-ctx.Done()
		}
	})
}
`

const c18TCPLisLoop = `	s.mu.Lock()
	for _, l := range s.listeners {
		l.Close()
	}
	s.listeners = nil
	s.mu.Unlock()
`

const c18TCPConnLoop = `	s.mu.Lock()
	for c := range s.conns {
		c.Close()
	}
	s.conns = nil
	s.mu.Unlock()
`

const c18SrcTCPStopCallbackWaitFirst = `func (s *Server) closeAfter(wait func()) error {
	wait()
` + c18TCPLisLoop + c18TCPConnLoop + `	return nil
}
` + c18TCPCallbackTail

const c18SrcTCPStopCallbackConnsFirst = `func (s *Server) closeAfter(wait func()) error {
` + c18TCPLisLoop + c18TCPConnLoop + `	wait()
	return nil
}
` + c18TCPCallbackTail

// the callback is forwarded once more and called from a deferred closure-free helper
const c18SrcTCPStopCallbackForwarded = `func (s *Server) closeAfter(wait func()) error {
` + c18TCPLisLoop + `	pause(wait)
` + c18TCPConnLoop + `	return nil
}

func pause(wait func()) {
	if wait != nil {
		wait()
	}
}
` + c18TCPCallbackTail

const c18SrcTCPStopCallbackNothingPassed = `func (s *Server) closeAfter(wait func()) error {
` + c18TCPLisLoop + `	wait()
` + c18TCPConnLoop + `	return nil
}

func (s *Server) Close() error {
	return s.closeAfter(func() {})
}

func (s *Server) Shutdown(ctx context.Context) error {
	return s.closeAfter(func() {})
}
`

// the step in the middle behind a small interface
const c18TCPIfaceHead = `// waiter is the step between closing the listeners and closing the connections.
type waiter interface{ wait() }

type noWait struct{}

func (noWait) wait() {}

type untilDone struct{ ctx context.Context }

func (u untilDone) wait() {
	if u.ctx != nil {
		<-u.ctx.Done()
	}
}

`

const c18TCPIfaceTail = `
func (s *Server) Close() error { return s.stop(noWait{}) }

func (s *Server) Shutdown(ctx context.Context) error { return s.stop(untilDone{ctx}) }
`

const c18SrcTCPStopIface = c18TCPIfaceHead + `func (s *Server) stop(w waiter) error {
` + c18TCPLisLoop + `	w.wait()
` + c18TCPConnLoop + `	return nil
}
` + c18TCPIfaceTail

const c18SrcTCPStopIfaceConnsFirst = c18TCPIfaceHead + `func (s *Server) stop(w waiter) error {
` + c18TCPLisLoop + c18TCPConnLoop + `	w.wait()
	return nil
}
` + c18TCPIfaceTail

const c18SrcTCPStopIfaceListenersLate = c18TCPIfaceHead + `func (s *Server) stop(w waiter) error {
	w.wait()
` + c18TCPLisLoop + c18TCPConnLoop + `	return nil
}
` + c18TCPIfaceTail

// a small struct with a method runs the sequence; the pause is a function kept in a field
const c18TCPStopperHead = `// stopper closes a server in two steps with a pause in between.
type stopper struct {
	srv   *Server
	pause func()
}

`

const c18TCPStopperTail = `
func (s *Server) Close() error {
	st := &stopper{srv: s, pause: func() {}}
	return st.run()
}

func (s *Server) Shutdown(ctx context.Context) error {
	st := &stopper{srv: s}
	st.pause = func() {
		if ctx != nil {
			<-ctx.Done()
		}
	}
	return st.run()
}
`

const c18SrcTCPStopper = c18TCPStopperHead + `func (st *stopper) run() error {
	st.srv.closeListeners()
	st.pause()
	return st.srv.closeConns()
}
` + c18TCPStopperTail

const c18SrcTCPStopperConnsFirst = c18TCPStopperHead + `func (st *stopper) run() error {
	st.srv.closeListeners()
	err := st.srv.closeConns()
	st.pause()
	return err
}
` + c18TCPStopperTail

// listeners, connections and their mutex move into an embedded type with the two close methods
const c18SrcTCPServerFields = `	mu        sync.Mutex
	listeners []net.Listener
	conns     map[net.Conn]bool
}
`

const c18SrcTCPServerFieldsTracker = `	tracker
}

// tracker keeps what a server has open.
type tracker struct {
	mu        sync.Mutex
	listeners []net.Listener
	conns     map[net.Conn]bool
}
`

const c18SrcTCPCloseHelpers = `func (s *Server) closeListeners() error {
	s.mu.Lock()
	for _, l := range s.listeners {
		l.Close()
	}
	s.listeners = nil
	s.mu.Unlock()
	return nil
}

func (s *Server) closeConns() error {
	s.mu.Lock()
	for c := range s.conns {
		c.Close()
	}
	s.conns = nil
	s.mu.Unlock()
	return nil
}
`

const c18SrcTCPCloseHelpersTracker = `func (t *tracker) closeListeners() error {
	t.mu.Lock()
	for _, l := range t.listeners {
		l.Close()
	}
	t.listeners = nil
	t.mu.Unlock()
	return nil
}

func (t *tracker) closeConns() error {
	t.mu.Lock()
	open := t.conns
	t.conns = nil
	t.mu.Unlock()
	for c := range open {
		c.Close()
	}
	return nil
}
`

const c18SrcTCPShutdownWaitFirst = `func (s *Server) Shutdown(ctx context.Context) error {
	if ctx != nil {
		<-ctx.Done()
	}
	s.closeListeners()
	return s.closeConns()
}
`

// deferred steps
const c18SrcTCPShutdownDeferConns = `func (s *Server) Shutdown(ctx context.Context) error {
	defer s.closeConns()
	s.closeListeners()
	if ctx != nil {
		<-ctx.Done()
	}
	return nil
}
`

const c18SrcTCPShutdownDeferListeners = `func (s *Server) Shutdown(ctx context.Context) error {
	defer s.closeListeners()
	if ctx != nil {
		<-ctx.Done()
	}
	return s.closeConns()
}
`

// ---- proxy/serve.go --------------------------------------------------------------------------------------------------

const c18ShutdownFanOutHead = `func Shutdown(timeout time.Duration) {
	mu.Lock()
	srvs := servers
	servers = make(map[string]Server)
	mu.Unlock()

	eachServer(srvs, func(srv Server) {
		ctx, cancel := context.WithTimeout(context.Background(), timeout)
		defer cancel()
		srv.Shutdown(ctx)
	})
}

`

// a fan-out helper that takes the per-server work as a closure and joins
const c18SrcShutdownFanOutHelper = c18ShutdownFanOutHead + `// eachServer calls fn concurrently for all servers and waits for the calls to return.
func eachServer(srvs map[string]Server, fn func(Server)) {
	var wg sync.WaitGroup
	for _, srv := range srvs {
		wg.Add(1)
		go func(srv Server) {
			defer wg.Done()
			fn(srv)
		}(srv)
	}
	wg.Wait()
}
`

const c18SrcShutdownFanOutHelperNoWait = c18ShutdownFanOutHead + `func eachServer(srvs map[string]Server, fn func(Server)) {
	var wg sync.WaitGroup
	for _, srv := range srvs {
		wg.Add(1)
		go func(srv Server) {
			defer wg.Done()
			fn(srv)
		}(srv)
	}
}
`

const c18SrcShutdownFanOutHelperSerial = c18ShutdownFanOutHead + `func eachServer(srvs map[string]Server, fn func(Server)) {
	for _, srv := range srvs {
		fn(srv)
	}
}
`

const c18SrcShutdownFanOutHelperConst = `func Shutdown(timeout time.Duration) {
	mu.Lock()
	srvs := servers
	servers = make(map[string]Server)
	mu.Unlock()

	eachServer(srvs, func(srv Server) {
		ctx, cancel := context.WithTimeout(context.Background(), time.Minute)
		defer cancel()
		srv.Shutdown(ctx)
	})
}

func eachServer(srvs map[string]Server, fn func(Server)) {
	var wg sync.WaitGroup
	for _, srv := range srvs {
		wg.Add(1)
		go func(srv Server) {
			defer wg.Done()
			fn(srv)
		}(srv)
	}
	wg.Wait()
}
`

// the draining call in a helper that CloseProxy calls with the registry lock held
const c18SrcCloseProxyClose = "\t\terr := srv.Close()\n\t\tif err != nil {\n\t\t\treturn err\n\t\t}\n\t\tlog.Printf(\"[INFO] Dynamic TCP listener"

const c18SrcCloseProxyDrainHelper = "\t\terr := drainOne(srv)\n\t\tif err != nil {\n\t\t\treturn err\n\t\t}\n\t\tlog.Printf(\"[INFO] Dynamic TCP listener"

const c18SrcDrainOneHelper = `func drainOne(srv Server) error {
	ctx, cancel := context.WithTimeout(context.Background(), time.Second)
	defer cancel()
	return srv.Shutdown(ctx)
}

func Close() {`

// ---- proxy/grpc_handler.go -------------------------------------------------------------------------------------------

const c18SrcGrpcShutdownCallbacks = `func (s *gRPCServer) Shutdown(ctx context.Context) error {
	stopWithin(ctx, s.server.GracefulStop, s.server.Stop)
	return nil
}

// stopWithin runs graceful and, when ctx ends first, force.
func stopWithin(ctx context.Context, graceful, force func()) {
	done := make(chan struct{})
	go func() {
		graceful()
		close(done)
	}()
	select {
	case <-done:
	case <-ctx.Done():
		force()
	}
}
`

const c18SrcGrpcShutdownCallbacksSync = `func (s *gRPCServer) Shutdown(ctx context.Context) error {
	stopWithin(ctx, s.server.GracefulStop, s.server.Stop)
	return nil
}

func stopWithin(ctx context.Context, graceful, force func()) {
	done := make(chan struct{})
	graceful()
	close(done)
	select {
	case <-done:
	case <-ctx.Done():
		force()
	}
}
`

const c18SrcGrpcShutdownCallbacksAwait = `func (s *gRPCServer) Shutdown(ctx context.Context) error {
	stopWithin(ctx, s.server.GracefulStop, s.server.Stop)
	return nil
}

func stopWithin(ctx context.Context, graceful, force func()) {
	done := make(chan struct{})
	go func() {
		graceful()
		close(done)
	}()
	select {
	case <-done:
	case <-ctx.Done():
	}
	<-done
}
`

// ---- main.go ---------------------------------------------------------------------------------------------------------

const c18SrcExitHandlerFull = c18SrcExitHandler + `		if prof != nil {
			prof.Stop()
		}
	})
`

const c18SrcMainTypeAnchor = `func newGrpcProxy(`

const c18ExitHandlerType = `// exitHandler takes fabio out of service. The two durations are copied
// from the configuration when the handler is built.
type exitHandler struct {
	grace, wait time.Duration
	prof        interface{ Stop() }
}

func (h *exitHandler) leave() {
	if registry.Default != nil {
		registry.Default.DeregisterAll()
	}
	time.Sleep(h.grace)
}

`

const c18SrcExitHandlerStruct = `	onExit := &exitHandler{grace: cfg.Proxy.DeregisterGracePeriod, wait: cfg.Proxy.ShutdownWait, prof: prof}
	exit.Listen(onExit.handle)
`

const c18SrcExitHandlerStructSwapped = `	onExit := &exitHandler{grace: cfg.Proxy.ShutdownWait, wait: cfg.Proxy.DeregisterGracePeriod, prof: prof}
	exit.Listen(onExit.handle)
`

const c18SrcExitHandlerTypeDecl = c18ExitHandlerType + `func (h *exitHandler) handle(os.Signal) {
	atomic.StoreInt32(&shuttingDown, 1)
	h.leave()
	proxy.Shutdown(h.wait)
	if h.prof != nil {
		h.prof.Stop()
	}
}

func newGrpcProxy(`

const c18SrcExitHandlerTypeDeclLate = c18ExitHandlerType + `func (h *exitHandler) handle(os.Signal) {
	atomic.StoreInt32(&shuttingDown, 1)
	proxy.Shutdown(h.wait)
	h.leave()
	if h.prof != nil {
		h.prof.Stop()
	}
}

func newGrpcProxy(`

// ---- replaced data structures ----------------------------------------------------------------------------------------

const c18ShutdownSnapshot = `func Shutdown(timeout time.Duration) {
	mu.Lock()
	srvs := make(map[string]Server, len(servers))
	for k, v := range servers {
		srvs[k] = v
	}
	servers = make(map[string]Server)
	mu.Unlock()

`

// the WaitGroup replaced by an errgroup.Group (it starts the goroutine and counts itself)
const c18SrcShutdownErrgroup = c18ShutdownSnapshot + `	var g errgroup.Group
	for _, srv := range srvs {
		g.Go(func() error {
			ctx, cancel := context.WithTimeout(context.Background(), timeout)
			defer cancel()
			return srv.Shutdown(ctx)
		})
	}
	g.Wait()
}
`

const c18SrcShutdownErrgroupNoWait = c18ShutdownSnapshot + `	var g errgroup.Group
	for _, srv := range srvs {
		g.Go(func() error {
			ctx, cancel := context.WithTimeout(context.Background(), timeout)
			defer cancel()
			return srv.Shutdown(ctx)
		})
	}
}
`

const c18SrcShutdownErrgroupSharedCtx = c18ShutdownSnapshot + `	parent, cancel := context.WithTimeout(context.Background(), timeout)
	defer cancel()
	g, ctx := errgroup.WithContext(parent)
	for _, srv := range srvs {
		g.Go(func() error {
			return srv.Shutdown(ctx)
		})
	}
	g.Wait()
}
`

const c18ImportGrpc = "\t\"google.golang.org/grpc\"\n"

const c18ImportGrpcErrgroup = "\t\"golang.org/x/sync/errgroup\"\n\t\"google.golang.org/grpc\"\n"

// the registry holds a small record per server instead of the server
const c18RegistryEntriesHead = `// entry is a running server and the listener it serves.
type entry struct {
	srv Server
	ln  net.Listener
}

var (
	// mu guards servers which contains the list
	// of running proxy servers.
	mu      sync.Mutex
	servers = make(map[string]*entry)
)

func CloseProxy(address string) error {
	mu.Lock()
	defer mu.Unlock()
	if e, ok := servers[address]; ok {
		err := e.srv.Close()
		if err != nil {
			return err
		}
		log.Printf("[INFO] Dynamic TCP listener on %s has been terminated", address)
		delete(servers, address)
	}
	return nil
}

func Close() {
	mu.Lock()
	for _, e := range servers {
		e.srv.Close()
	}
	servers = make(map[string]*entry)
	mu.Unlock()
}

func Shutdown(timeout time.Duration) {
	mu.Lock()
	srvs := make([]Server, 0, len(servers))
	for _, e := range servers {
		srvs = append(srvs, e.srv)
	}
`

const c18RegistryEntriesTail = `	mu.Unlock()

	var wg sync.WaitGroup
	for _, srv := range srvs {
		wg.Add(1)
		go func(srv Server) {
			defer wg.Done()
			ctx, cancel := context.WithTimeout(context.Background(), timeout)
			defer cancel()
			srv.Shutdown(ctx)
		}(srv)
	}
	wg.Wait()
}
`

const c18SrcRegistryEntries = c18RegistryEntriesHead + "\tservers = make(map[string]*entry)\n" + c18RegistryEntriesTail

const c18SrcRegistryEntriesNotEmptied = c18RegistryEntriesHead + c18RegistryEntriesTail

const c18SrcServeHeadEntries = `func serve(ln net.Listener, srv Server) error {
	mu.Lock()
	servers[ln.Addr().String()] = &entry{srv: srv, ln: ln}
	mu.Unlock()
	err := srv.Serve(ln)
`

const c18SrcServeHeadEntriesUnlocked = `func serve(ln net.Listener, srv Server) error {
	servers[ln.Addr().String()] = &entry{srv: srv, ln: ln}
	err := srv.Serve(ln)
`

// the gRPC graceful stop as a small type; the completion channel lives in a field
const c18GrpcStoppingHead = `// stopping is one graceful stop in progress.
type stopping struct {
	srv  *grpc.Server
	done chan struct{}
}

func (st *stopping) begin() {
	st.done = make(chan struct{})
	go st.graceful()
}

func (st *stopping) graceful() {
	st.srv.GracefulStop()
	close(st.done)
}

`

const c18GrpcStoppingTail = `
func (s *gRPCServer) Shutdown(ctx context.Context) error {
	st := &stopping{srv: s.server}
	st.begin()
	st.await(ctx)
	return nil
}
`

const c18SrcGrpcShutdownStopping = c18GrpcStoppingHead + `func (st *stopping) await(ctx context.Context) {
	select {
	case <-st.done:
	case <-ctx.Done():
		st.srv.Stop()
	}
}
` + c18GrpcStoppingTail

const c18SrcGrpcShutdownStoppingAwait = c18GrpcStoppingHead + `func (st *stopping) await(ctx context.Context) {
	select {
	case <-st.done:
	case <-ctx.Done():
	}
	<-st.done
}
` + c18GrpcStoppingTail

// ---- exit/listen.go --------------------------------------------------------------------------------------------------

const c18SrcExitListen = `func Listen(fn func(os.Signal)) {
	wg.Add(1)
	go func() {
		defer wg.Done()
		for {
			sigchan := make(chan os.Signal, 1)
			signal.Notify(sigchan, os.Interrupt, syscall.SIGTERM, syscall.SIGHUP)

			var sig os.Signal
			select {
			case sig = <-sigchan:
				switch sig {
				case syscall.SIGHUP:
					log.Print("[INFO] Caught SIGHUP. Ignoring")
					continue
				case os.Interrupt:
					log.Print("[INFO] Caught SIGINT. Exiting")
				case syscall.SIGTERM:
					log.Print("[INFO] Caught SIGTERM. Exiting")
				default:
					// fallthrough in case we forgot to add a switch clause.
					log.Printf("[INFO] Caught signal %v. Exiting", sig)
				}
			case <-quit:
			}
			if fn != nil {
				fn(sig)
			}
			return
		}
	}()
}
`

const c18ExitListenerHead = `// listener waits for one terminating signal and runs the exit handler.
type listener struct {
	fn      func(os.Signal)
	sigchan chan os.Signal
}

func (l *listener) capture() {
	l.sigchan = make(chan os.Signal, 1)
	signal.Notify(l.sigchan, os.Interrupt, syscall.SIGTERM, syscall.SIGHUP)
}

func (l *listener) handle(sig os.Signal) {
	if l.fn != nil {
		l.fn(sig)
	}
}

func (l *listener) run() {
	defer wg.Done()
	for {
		l.capture()

		var sig os.Signal
		select {
		case sig = <-l.sigchan:
			switch sig {
			case syscall.SIGHUP:
				log.Print("[INFO] Caught SIGHUP. Ignoring")
				continue
			case os.Interrupt:
				log.Print("[INFO] Caught SIGINT. Exiting")
			case syscall.SIGTERM:
				log.Print("[INFO] Caught SIGTERM. Exiting")
			default:
				log.Printf("[INFO] Caught signal %v. Exiting", sig)
			}
		case <-quit:
		}
`

const c18ExitListenerTail = `		l.handle(sig)
		return
	}
}

func Listen(fn func(os.Signal)) {
	wg.Add(1)
	l := &listener{fn: fn}
	go l.run()
}
`

const c18SrcExitListenType = c18ExitListenerHead + c18ExitListenerTail

const c18SrcExitListenTypeStop = c18ExitListenerHead + "\t\tsignal.Stop(l.sigchan)\n" + c18ExitListenerTail

// ---- proxy/inetaf_tcpproxy.go ----------------------------------------------------------------------------------------

// the per-child call behind a small interface, the fan-out in a helper that takes it
const c18InetAfIfaceTail = `
type childCall interface {
	call(*childProxy) error
}

type shutdownCall struct{ ctx context.Context }

func (c shutdownCall) call(p *childProxy) error { return p.s.Shutdown(c.ctx) }

type gracelessCall struct{}

func (gracelessCall) call(p *childProxy) error { return p.s.Close() }

func (tps *InetAfTCPProxyServer) fanOut(c childCall) <-chan error {
	errChan := make(chan error, len(tps.children))
	for _, sl := range tps.children {
		go func(sl *childProxy) {
			errChan <- c.call(sl)
		}(sl)
	}
	return errChan
}
`

const c18InetAfCollect = `	for range tps.children {
		err := <-errChan
		if firstErr == nil {
			firstErr = err
		}
		if err != nil {
			log.Print("[ERROR] ", err)
		}
	}
	return firstErr
}
`

const c18SrcInetAfFanOutIface = "\terrChan := tps.fanOut(shutdownCall{ctx})\n" + c18InetAfCollect + c18InetAfIfaceTail

const c18SrcInetAfFanOutIfaceNoCtx = "\terrChan := tps.fanOut(gracelessCall{})\n" + c18InetAfCollect + c18InetAfIfaceTail

// the tcp wait callback is a method value
const c18SrcTCPStopMethodValue = `type ctxWait struct{ ctx context.Context }

func (w ctxWait) wait() {
	if w.ctx != nil {
		<-w.ctx.Done()
	}
}

func (s *Server) closeAfter(wait func()) error {
` + c18TCPLisLoop + `	wait()
` + c18TCPConnLoop + `	return nil
}

func (s *Server) Close() error {
	return s.closeAfter(func() {})
}

func (s *Server) Shutdown(ctx context.Context) error {
	w := ctxWait{ctx: ctx}
	return s.closeAfter(w.wait)
}
`
